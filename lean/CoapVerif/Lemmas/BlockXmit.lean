import CoapVerif.Lemmas.BlockCrcv
import CoapVerif.Model.BlockXmit
/- Helper lemmas for C09 Layer B, sender side (lg_xmit) and the release callback.  Core Lean only. -/
set_option linter.unusedSimpArgs false
set_option linter.unusedVariables false
namespace Coap.Block
open Coap.Spec.Block

theorem moreIf_eq (len szx k : Nat) :
    (if k * 2 ^ (szx + 4) + 2 ^ (szx + 4) < len then 1 else 0) = more len szx k := by
  have h := moreBit_eq_spec len szx k
  unfold moreBit blockOffset at h
  exact h

/-- server Block2 follow-up responses: whatever block message `coap_handle_request_send_block` builds is the slice
of the body for the NUM and SZX of the request, with the right More bit, and fits the room the PDU has -/
theorem xmitB2Step_spec (x : LgXmit) (room num szx : Nat) (st' : Option LgXmit) (n m s : Nat) (p : Bytes)
    (h : xmitB2Step (some x) room num szx = (st', B2Out.block n m s p)) :
    n = num ∧ s = szx ∧ s = x.blkSize ∧ n < nBlocks x.data.length s ∧ p = slice x.data s n ∧
    m = more x.data.length s n ∧ 1 + p.length ≤ room ∧
    ∃ x', st' = some x' ∧ x'.data = x.data ∧ x'.blkSize = x.blkSize := by
  unfold xmitB2Step at h
  by_cases h0 : num = 0
  · rw [if_pos h0] at h; cases h
  · rw [if_neg h0] at h
    simp only at h
    by_cases hs : x.blkSize ≠ szx
    · rw [if_pos hs] at h; cases h
    · rw [if_neg hs] at h
      have hs' : x.blkSize = szx := by
        apply Classical.byContradiction; intro hh; exact hs hh
      rw [addBlock_eq_slice] at h
      by_cases hk : num < nBlocks x.data.length x.blkSize
      · rw [if_pos hk] at h
        simp only at h
        by_cases hr : 1 + (slice x.data x.blkSize num).length > room
        · rw [if_pos hr] at h; cases h
        · rw [if_neg hr] at h
          cases h
          refine ⟨rfl, hs', rfl, hk, rfl, moreIf_eq _ _ _, by omega, _, rfl, rfl, rfl⟩
      · rw [if_neg hk] at h
        cases h

/-- any other outcome of the server step keeps the body and the block size of the lg_xmit -/
theorem xmitB2Step_state (x : LgXmit) (room num szx : Nat) :
    ∃ x', (xmitB2Step (some x) room num szx).1 = some x' ∧ x'.data = x.data ∧ x'.blkSize = x.blkSize := by
  unfold xmitB2Step
  by_cases h0 : num = 0
  · rw [if_pos h0]; exact ⟨x, rfl, rfl, rfl⟩
  · rw [if_neg h0]
    simp only
    by_cases hs : x.blkSize ≠ szx
    · rw [if_pos hs]; exact ⟨x, rfl, rfl, rfl⟩
    · rw [if_neg hs]
      cases addBlock x.data num x.blkSize with
      | none => exact ⟨_, rfl, rfl, rfl⟩
      | some p =>
        simp only
        split <;> exact ⟨_, rfl, rfl, rfl⟩

/-- the client's lg_xmit between two steps: the offset is a multiple of the block size -/
def XmitInv (x : LgXmit) : Prop :=
  x.offset % 2 ^ (x.blkSize + 4) = 0 ∧ x.offset + 2 ^ (x.blkSize + 4) ≤ x.data.length + 1024 ∧ x.blkSize ≤ 6

instance (x : LgXmit) : Decidable (XmitInv x) := by unfold XmitInv; exact inferInstance

theorem pow_dvd_chunk (a b : Nat) (h : a ≤ b) : 2 ^ (b + 4) = 2 ^ (b - a) * 2 ^ (a + 4) := by
  rw [← Nat.pow_add]; congr 1; omega

/-- `block.szx` after the renegotiation step: the response's size, unless that is larger than the one in use -/
theorem xmitB1Szx_facts (x : LgXmit) (szx : Nat) :
    xmitB1Szx x szx ≤ x.blkSize ∧ xmitB1Szx x szx ≤ szx ∧ (szx ≤ x.blkSize → xmitB1Szx x szx = szx) ∧
    (x.blkSize < szx → xmitB1Szx x szx = x.blkSize) := by
  unfold xmitB1Szx
  by_cases h : szx > x.blkSize
  · rw [if_pos h]; exact ⟨Nat.le_refl _, by omega, fun hh => by omega, fun _ => rfl⟩
  · rw [if_neg h]; exact ⟨by omega, Nat.le_refl _, fun _ => rfl, fun hh => by omega⟩

/-- for EVERY size in the response (a larger one is ignored, fix 650c3a2): the lg_xmit afterwards uses `xmitB1Szx` -/
theorem xmitB1Reneg_spec (x : LgXmit) (num szx : Nat) (hinv : XmitInv x) :
    (xmitB1Reneg x num szx).1.blkSize = xmitB1Szx x szx ∧ (xmitB1Reneg x num szx).1.data = x.data ∧
    (xmitB1Reneg x num szx).1.lastBlock = x.lastBlock := by
  obtain ⟨i1, i2, i3⟩ := hinv
  obtain ⟨_, _, f3, f4⟩ := xmitB1Szx_facts x szx
  unfold xmitB1Reneg
  simp only
  by_cases hne : szx ≠ x.blkSize
  · rw [if_pos hne]
    by_cases hgt : szx > x.blkSize
    · rw [if_pos hgt]
      exact ⟨(f4 hgt).symm, rfl, rfl⟩
    · rw [if_neg hgt]
      have hle : szx ≤ x.blkSize := by omega
      have hal : (x.offset + 2 ^ (x.blkSize + 4)) % 2 ^ (szx + 4) = 0 := by
        have hp := pow_dvd_chunk szx x.blkSize hle
        have h1 : 2 ^ (szx + 4) ∣ 2 ^ (x.blkSize + 4) := ⟨2 ^ (x.blkSize - szx), by rw [hp, Nat.mul_comm]⟩
        have h2 : 2 ^ (x.blkSize + 4) ∣ x.offset := Nat.dvd_of_mod_eq_zero i1
        have h3 : 2 ^ (szx + 4) ∣ x.offset + 2 ^ (x.blkSize + 4) := Nat.dvd_add (Nat.dvd_trans h1 h2) h1
        exact Nat.mod_eq_zero_of_dvd h3
      rw [if_pos hal]
      exact ⟨(f3 hle).symm, rfl, rfl⟩
  · rw [if_neg hne]
    have : szx = x.blkSize := by
      apply Classical.byContradiction; intro hh; exact hne hh
    exact ⟨by rw [f3 (by omega)]; exact this.symm, rfl, rfl⟩

theorem xmitB1Next_spec (x1 : LgXmit) (room num szx : Nat) (st' : Option LgXmit) (n m s : Nat) (p : Bytes)
    (h : xmitB1Next x1 room num szx = (st', B1Out.sendNext n m s p)) :
    n = num + 1 ∧ s = szx ∧ n < nBlocks x1.data.length s ∧ p = slice x1.data s n ∧ 1 + p.length ≤ room ∧
    m = (if n * 2 ^ (x1.blkSize + 4) + 2 ^ (x1.blkSize + 4) < x1.data.length then 1 else 0) ∧
    st' = some { x1 with lastBlock := some num, offset := n * 2 ^ (x1.blkSize + 4) } := by
  unfold xmitB1Next at h
  simp only at h
  by_cases hd : isDupAck x1.lastBlock num = true
  · rw [if_pos hd] at h; cases h
  · rw [if_neg hd] at h
    by_cases hlt : (num + 1) * 2 ^ (x1.blkSize + 4) < x1.data.length
    · rw [if_pos hlt, addBlock_eq_slice] at h
      by_cases hk : num + 1 < nBlocks x1.data.length szx
      · rw [if_pos hk] at h
        simp only at h
        by_cases hroom : 1 + (slice x1.data szx (num + 1)).length > room
        · rw [if_pos hroom] at h; cases h
        · rw [if_neg hroom] at h
          cases h
          exact ⟨rfl, rfl, hk, rfl, by omega, rfl, rfl⟩
      · rw [if_neg hk] at h
        cases h
    · rw [if_neg hlt] at h
      cases h

/-- client Block1 follow-up requests: whatever block message `coap_handle_response_send_block` builds carries the
slice of the body for the NUM and SZX in its Block1 option — for EVERY response (stale, duplicated, renegotiating to a
smaller size, asking for a larger one); that SZX is the response's, or the one in use if the response asks for a larger
one; if the lg_xmit is well formed the More bit is right as well and the lg_xmit afterwards uses that size -/
theorem xmitB1Step_spec (x : LgXmit) (room : Nat) (ok : Bool) (blk : Option (Nat × Nat)) (st' : Option LgXmit)
    (n m s : Nat) (p : Bytes) (h : xmitB1Step x room ok blk = (st', B1Out.sendNext n m s p)) :
    n < nBlocks x.data.length s ∧ p = slice x.data s n ∧ 1 + p.length ≤ room ∧
    (∃ num0 szx, blk = some (num0, szx) ∧ s = xmitB1Szx x szx) ∧
    (XmitInv x → m = more x.data.length s n ∧
      ∃ x', st' = some x' ∧ x'.data = x.data ∧ x'.blkSize = s ∧ x'.lastBlock = some (n - 1) ∧ 1 ≤ n ∧
        x'.offset = n * 2 ^ (s + 4)) := by
  unfold xmitB1Step at h
  cases ok with
  | false => simp only at h; cases h
  | true =>
    cases blk with
    | none => simp only at h; cases h
    | some b =>
      obtain ⟨num0, szx⟩ := b
      simp only at h
      obtain ⟨e1, e2, e3, e4, e5, e6, e7⟩ := xmitB1Next_spec _ room _ _ st' n m s p h
      have hdata : (xmitB1Reneg x num0 szx).1.data = x.data := by
        unfold xmitB1Reneg
        simp only
        split
        · split
          · rfl
          · split <;> rfl
        · rfl
      rw [hdata] at e3 e4
      refine ⟨e3, e4, e5, ⟨num0, szx, rfl, e2⟩, ?_⟩
      intro hinv
      obtain ⟨r1, r2, r3⟩ := xmitB1Reneg_spec x num0 szx hinv
      rw [← e2] at r1
      rw [r1, hdata] at e6
      refine ⟨by rw [e6]; exact moreIf_eq _ _ _, _, e7, r2, r1, ?_, by omega, ?_⟩
      · show some (xmitB1Reneg x num0 szx).2 = some (n - 1)
        congr 1; omega
      · show n * 2 ^ ((xmitB1Reneg x num0 szx).1.blkSize + 4) = n * 2 ^ (s + 4)
        rw [r1]

theorem div_sub_one_mul (Q c : Nat) (hd : c ∣ Q) (hc : 0 < c) : (Q / c - 1) * c = Q - c := by
  rw [Nat.sub_mul, Nat.div_mul_cancel hd, Nat.one_mul]

theorem xmitB1Reneg_inv (x : LgXmit) (num szx : Nat) (hinv : XmitInv x) (hlen : x.data.length < 2 ^ 32) :
    XmitInv (xmitB1Reneg x num szx).1 := by
  obtain ⟨i1, i2, i3⟩ := hinv
  unfold xmitB1Reneg
  simp only
  by_cases hne : szx ≠ x.blkSize
  · rw [if_pos hne]
    by_cases hgt : szx > x.blkSize
    · rw [if_pos hgt]; exact ⟨i1, i2, i3⟩        -- "ignoring request to increase Block size"
    rw [if_neg hgt]
    have hle : szx ≤ x.blkSize := by omega
    have hp := pow_dvd_chunk szx x.blkSize hle
    have h1 : 2 ^ (szx + 4) ∣ 2 ^ (x.blkSize + 4) := ⟨2 ^ (x.blkSize - szx), by rw [hp, Nat.mul_comm]⟩
    have h2 : 2 ^ (x.blkSize + 4) ∣ x.offset := Nat.dvd_of_mod_eq_zero i1
    have h3 : 2 ^ (szx + 4) ∣ x.offset + 2 ^ (x.blkSize + 4) := Nat.dvd_add (Nat.dvd_trans h1 h2) h1
    rw [if_pos (Nat.mod_eq_zero_of_dvd h3)]
    have hc' : 0 < 2 ^ (szx + 4) := Nat.two_pow_pos _
    have hle' : 2 ^ (szx + 4) ≤ 2 ^ (x.blkSize + 4) := Nat.pow_le_pow_right (by decide) (by omega)
    have hq := div_sub_one_mul (x.offset + 2 ^ (x.blkSize + 4)) (2 ^ (szx + 4)) h3 hc'
    have hsmall : (x.offset + 2 ^ (x.blkSize + 4)) / 2 ^ (szx + 4) - 1 < 2 ^ 32 := by
      have : (x.offset + 2 ^ (x.blkSize + 4)) / 2 ^ (szx + 4) ≤ (x.offset + 2 ^ (x.blkSize + 4)) / 16 := by
        apply Nat.div_le_div_left _ (by decide)
        have : 2 ^ 4 ≤ 2 ^ (szx + 4) := Nat.pow_le_pow_right (by decide) (by omega)
        omega
      omega
    rw [Nat.mod_eq_of_lt hsmall]
    refine ⟨?_, ?_, by show szx ≤ 6; omega⟩
    · show ((x.offset + 2 ^ (x.blkSize + 4)) / 2 ^ (szx + 4) - 1) * 2 ^ (szx + 4) % 2 ^ (szx + 4) = 0
      exact Nat.mul_mod_left _ _
    · show ((x.offset + 2 ^ (x.blkSize + 4)) / 2 ^ (szx + 4) - 1) * 2 ^ (szx + 4) + 2 ^ (szx + 4) ≤ x.data.length + 1024
      rw [hq]
      omega
  · rw [if_neg hne]
    exact ⟨i1, i2, i3⟩

/-- the client's lg_xmit stays well formed over EVERY response; its block size never grows -/
theorem xmitB1Step_inv (x : LgXmit) (room : Nat) (ok : Bool) (blk : Option (Nat × Nat)) (x' : LgXmit)
    (hinv : XmitInv x) (hlen : x.data.length < 2 ^ 32)
    (h : (xmitB1Step x room ok blk).1 = some x') :
    XmitInv x' ∧ x'.data = x.data ∧ x'.blkSize ≤ x.blkSize ∧
      ∃ num szx, blk = some (num, szx) ∧ x'.blkSize = xmitB1Szx x szx := by
  unfold xmitB1Step at h
  cases ok with
  | false => simp only at h; cases h
  | true =>
    cases blk with
    | none => simp only at h; cases h
    | some b =>
      obtain ⟨num0, szx⟩ := b
      have hle := (xmitB1Szx_facts x szx).1
      simp only at h
      have hrs := xmitB1Reneg_spec x num0 szx hinv
      have hri := xmitB1Reneg_inv x num0 szx hinv hlen
      generalize hr : xmitB1Reneg x num0 szx = r at h hrs hri
      obtain ⟨x1, num⟩ := r
      simp only at h hrs hri
      obtain ⟨r1, r2, r3⟩ := hrs
      obtain ⟨j1, j2, j3⟩ := hri
      unfold xmitB1Next at h
      simp only at h
      by_cases hd : isDupAck x1.lastBlock num = true
      · rw [if_pos hd] at h
        cases h
        exact ⟨⟨j1, j2, j3⟩, r2, by omega, num0, szx, rfl, r1⟩
      · rw [if_neg hd] at h
        by_cases hlt : (num + 1) * 2 ^ (x1.blkSize + 4) < x1.data.length
        · rw [if_pos hlt] at h
          cases ha : addBlock x1.data (num + 1) (xmitB1Szx x szx) with
          | none => rw [ha] at h; cases h
          | some p =>
            rw [ha] at h
            simp only at h
            by_cases hroom : 1 + p.length > room
            · rw [if_pos hroom] at h; cases h
            · rw [if_neg hroom] at h
              cases h
              have hc : 2 ^ (x1.blkSize + 4) ≤ 2 ^ 10 := Nat.pow_le_pow_right (by decide) (by omega)
              refine ⟨⟨?_, ?_, j3⟩, r2, by show x1.blkSize ≤ x.blkSize; omega, num0, szx, rfl, r1⟩
              · show (num + 1) * 2 ^ (x1.blkSize + 4) % 2 ^ (x1.blkSize + 4) = 0
                exact Nat.mul_mod_left _ _
              · show (num + 1) * 2 ^ (x1.blkSize + 4) + 2 ^ (x1.blkSize + 4) ≤ x1.data.length + 1024
                omega
        · rw [if_neg hlt] at h
          cases h


/-! ## the release callback -/

/-- `(calls, linked)` accounts for the callback exactly once -/
def RelOnce (r : Nat × Bool) : Prop := r.1 + (if r.2 then 1 else 0) = 1

theorem adlRelFinish_spec (maxSize tokOpts rem : Nat) (lg : Bool) (b : Nat) (bv : Option Nat) :
    RelOnce (adlRelFinish maxSize tokOpts rem lg) ∧
    ((adlRelFinish maxSize tokOpts rem lg).2 = true ↔
      ∃ r, adlFinish maxSize tokOpts rem lg b bv = some r ∧ r.lgXmit = true) := by
  unfold adlRelFinish adlFinish RelOnce
  by_cases hc : rem ≠ 0 ∧ tokOpts + 1 + rem > maxSize
  · rw [if_pos hc, if_pos hc]
    refine ⟨rfl, ?_⟩
    constructor
    · intro h; cases h
    · intro h; obtain ⟨r, hr, _⟩ := h; cases hr
  · rw [if_neg hc, if_neg hc]
    cases lg with
    | true =>
      refine ⟨rfl, ?_⟩
      constructor
      · intro _; exact ⟨_, rfl, rfl⟩
      · intro _; rfl
    | false =>
      refine ⟨rfl, ?_⟩
      constructor
      · intro h; cases h
      · intro h; obtain ⟨r, hr, hl⟩ := h; cases hr; cases hl

theorem adlRelLgTail_spec (maxSize tokLen base d b2 length extra : Nat) (sb : BlockB) :
    RelOnce (adlRelLgTail maxSize tokLen base d b2 length extra sb) ∧
    ((adlRelLgTail maxSize tokLen base d b2 length extra sb).2 = true ↔
      ∃ r, adlLgTail maxSize tokLen base d b2 length extra sb = some r ∧ r.lgXmit = true) := by
  unfold adlRelLgTail adlLgTail
  simp only
  split
  · split
    · refine ⟨rfl, ?_⟩
      constructor
      · intro h; cases h
      · intro h; obtain ⟨r, hr, _⟩ := h; cases hr
    · exact adlRelFinish_spec _ _ _ _ _ _
  · exact adlRelFinish_spec _ _ _ _ _ _

theorem adlRelBody_spec (maxSize tokLen base d tokOpts0 b2 length extra : Nat) (blk : Option Nat) :
    RelOnce (adlRelBody maxSize tokLen base d tokOpts0 b2 length extra blk) ∧
    ((adlRelBody maxSize tokLen base d tokOpts0 b2 length extra blk).2 = true ↔
      ∃ r, adlBody maxSize tokLen base d tokOpts0 b2 length extra blk = some r ∧ r.lgXmit = true) := by
  unfold adlRelBody adlBody
  simp only
  split
  · refine ⟨rfl, ?_⟩
    constructor
    · intro h; cases h
    · intro h; obtain ⟨r, hr, _⟩ := h; cases hr
  · split
    · cases setupBlockB maxSize (tokOpts0 + extra) 0 b2 length with
      | none =>
        refine ⟨rfl, ?_⟩
        constructor
        · intro h; cases h
        · intro h; obtain ⟨r, hr, _⟩ := h; cases hr
      | some sb => exact adlRelLgTail_spec _ _ _ _ _ _ _ _
    · unfold adlNoBlock
      exact adlRelFinish_spec _ _ _ _ _ _

/-- `coap_add_data_large_internal`: on EVERY exit path the application's release callback has either been called
exactly once (and no lg_xmit holds it), or not at all and exactly one lg_xmit linked into the session holds it;
the second case is exactly the multi-block result of `addDataLarge` -/
theorem adlRel_spec (maxSize tokLen optBytes lastOpt : Nat) (blk : Option Nat) (maxBlk length rtagLen : Nat) :
    RelOnce (adlRel maxSize tokLen optBytes lastOpt blk maxBlk length rtagLen) ∧
    ((adlRel maxSize tokLen optBytes lastOpt blk maxBlk length rtagLen).2 = true ↔
      ∃ r, addDataLarge maxSize tokLen optBytes lastOpt blk maxBlk length rtagLen = some r ∧ r.lgXmit = true) := by
  unfold adlRel addDataLarge
  exact adlRelBody_spec _ _ _ _ _ _ _ _ _

/-- every lg_xmit ever linked is either still linked or has had its callback run, never both, never twice -/
def XlInv (s : XlState) : Prop := (s.1 ++ s.2).Nodup

theorem xlStep_inv (s : XlState) (e : XlEvent) (h : XlInv s) : XlInv (xlStep s e) := by
  unfold XlInv at *
  cases e with
  | create id =>
    simp only [xlStep]
    by_cases hc : id ∈ s.1 ∨ id ∈ s.2
    · rw [if_pos hc]; exact h
    · rw [if_neg hc]
      show (id :: (s.1 ++ s.2)).Nodup
      refine List.nodup_cons.mpr ⟨?_, h⟩
      intro hm
      rcases List.mem_append.mp hm with hm | hm
      · exact hc (Or.inl hm)
      · exact hc (Or.inr hm)
  | delete id =>
    simp only [xlStep]
    by_cases hc : id ∈ s.1
    · rw [if_pos hc]
      show (s.1.erase id ++ id :: s.2).Nodup
      have p1 : (s.1.erase id ++ id :: s.2).Perm (id :: (s.1.erase id ++ s.2)) := List.perm_middle
      have p2 : (id :: s.1.erase id).Perm s.1 := (List.perm_cons_erase hc).symm
      have p3 : (id :: (s.1.erase id ++ s.2)).Perm (s.1 ++ s.2) := List.Perm.append_right s.2 p2
      exact (List.Perm.nodup_iff (p1.trans p3)).mpr h
    · rw [if_neg hc]; exact h
  | sessionFree =>
    simp only [xlStep]
    show ([] ++ (s.1 ++ s.2)).Nodup
    rw [List.nil_append]; exact h

theorem xlStep_mem (s : XlState) (e : XlEvent) (id : Nat) (h : id ∈ s.1 ∨ id ∈ s.2) :
    id ∈ (xlStep s e).1 ∨ id ∈ (xlStep s e).2 := by
  cases e with
  | create id' =>
    simp only [xlStep]
    split
    · exact h
    · rcases h with h | h
      · exact Or.inl (List.mem_cons_of_mem _ h)
      · exact Or.inr h
  | delete id' =>
    simp only [xlStep]
    split
    · rcases h with h | h
      · by_cases he : id = id'
        · exact Or.inr (by rw [he]; exact List.mem_cons_self)
        · exact Or.inl ((List.mem_erase_of_ne he).mpr h)
      · exact Or.inr (List.mem_cons_of_mem _ h)
    · exact h
  | sessionFree =>
    simp only [xlStep]
    right
    rcases h with h | h
    · exact List.mem_append_left _ h
    · exact List.mem_append_right _ h

theorem xlFold_inv : ∀ (evs : List XlEvent) (s : XlState), XlInv s → XlInv (evs.foldl xlStep s)
  | [], _, h => h
  | e :: evs, s, h => xlFold_inv evs _ (xlStep_inv s e h)

theorem xlFold_mem : ∀ (evs : List XlEvent) (s : XlState) (id : Nat), (id ∈ s.1 ∨ id ∈ s.2) →
    id ∈ (evs.foldl xlStep s).1 ∨ id ∈ (evs.foldl xlStep s).2
  | [], _, _, h => h
  | e :: evs, s, id, h => xlFold_mem evs _ id (xlStep_mem s e id h)

theorem xlFold_created : ∀ (evs : List XlEvent) (s : XlState) (id : Nat), XlEvent.create id ∈ evs →
    id ∈ (evs.foldl xlStep s).1 ∨ id ∈ (evs.foldl xlStep s).2
  | [], _, _, h => by cases h
  | e :: evs, s, id, h => by
    rw [List.mem_cons] at h
    rcases h with h | h
    · subst h
      have hm : id ∈ (xlStep s (XlEvent.create id)).1 ∨ id ∈ (xlStep s (XlEvent.create id)).2 := by
        simp only [xlStep]
        split
        · assumption
        · exact Or.inl List.mem_cons_self
      exact xlFold_mem evs _ id hm
    · exact xlFold_created evs _ id h


/-! ## the first block message (coap_add_data_large_internal, lg_xmit branch) -/

theorem setup_noreduce (maxSize tokOpts blk total : Nat) (sb : BlockB) (hsz : maxSize < 2 ^ 63)
    (h1 : tokOpts + 2 ^ (blk + 4) ≤ maxSize) (h : setupBlockB maxSize tokOpts 0 blk total = some sb) :
    sb.szx = blk ∧ sb.aszx = blk ∧ sb.chunk = 2 ^ (blk + 4) := by
  unfold setupBlockB at h
  have hpos : 0 < 2 ^ (blk + 4) := Nat.two_pow_pos _
  have htm : tokOpts ≤ maxSize := by omega
  have havail : (maxSize + 2 ^ 64 - tokOpts % 2 ^ 64) % 2 ^ 64 = maxSize - tokOpts := by omega
  simp only [havail] at h
  have hc : ¬ (maxSize - tokOpts < 2 ^ (blk + 4) ∧
      (total + 2 ^ 64 - 0 * 2 ^ (blk + 4) % 2 ^ 32) % 2 ^ 64 ≥ maxSize - tokOpts) := by
    intro hh; omega
  rw [if_neg hc] at h
  cases h
  exact ⟨rfl, rfl, rfl⟩

/-- the multi-block exit of `adlBody` (request or response path: `d`, `extra`, `tokOpts0` are parameters): the first
message carries Block (0, M = 1, SZX = the lg_xmit's block size) and exactly one full block of payload, and the body is
longer than that block -/
theorem adlBody_first (maxSize tokLen base d tokOpts0 b2 length extra : Nat) (blk : Option Nat) (r : AdlRes)
    (hms : maxSize < 2 ^ 62) (hlen : length < 2 ^ 32) (htok : tokOpts0 ≤ base + 43)
    (hb2 : (16 : Int) ≤ adlAvail maxSize tokOpts0 tokLen → ((2 ^ (b2 + 4) : Nat) : Int) ≤ adlAvail maxSize tokOpts0 tokLen)
    (h : adlBody maxSize tokLen base d tokOpts0 b2 length extra blk = some r) (hlg : r.lgXmit = true) :
    r.blockVal = some (blockValue 0 1 r.blkSize) ∧ r.payload = 2 ^ (r.blkSize + 4) ∧ 2 ^ (r.blkSize + 4) < length ∧
    r.blkSize ≤ b2 := by
  unfold adlBody at h
  dsimp only at h
  by_cases h1 : adlAvail maxSize tokOpts0 tokLen < 16 ∧ ((length : Int) > adlAvail maxSize tokOpts0 tokLen ∨ blk.isSome)
  · rw [if_pos h1] at h; cases h
  · rw [if_neg h1] at h
    by_cases h2 : (blk.isSome ∧ length > 2 ^ (b2 + 4)) ∨ (length : Int) > adlAvail maxSize tokOpts0 tokLen
    · rw [if_pos h2] at h
      -- the body is longer than one block of the size chosen
      have hL : 2 ^ (b2 + 4) < length := by
        rcases h2 with h2 | h2
        · exact h2.2
        · by_cases h16 : adlAvail maxSize tokOpts0 tokLen < 16
          · exact (h1 ⟨h16, Or.inl h2⟩).elim
          · have := hb2 (by omega)
            omega
      cases hsb : setupBlockB maxSize (tokOpts0 + extra) 0 b2 length with
      | none => rw [hsb] at h; cases h
      | some sb =>
        rw [hsb] at h
        unfold adlLgTail at h
        dsimp only at h
        have hvl : ∀ x, 1 ≤ optEncodeSize d (varLen x) := by
          intro x; unfold optEncodeSize; omega
        have hv1 := hvl (blockValue sb.num sb.m sb.aszx)
        generalize hA : adlAvail maxSize (base + optEncodeSize d (varLen (blockValue sb.num sb.m sb.aszx)) + extra) tokLen = A at h
        rw [adlAvail_eq] at hA
        have hchunk := setup_chunk_le _ _ _ _ _ _ hsb
        by_cases hred : A < ↑(2 ^ (b2 + 4) : Nat)
        · rw [if_pos hred] at h
          by_cases h16 : A < 16
          · rw [if_pos h16] at h; cases h
          · rw [if_neg h16] at h
            have htk : tokOpts0 + extra ≤ maxSize := by omega
            obtain ⟨q1, q2, q3, q4, q5, _⟩ := setup_sound maxSize (tokOpts0 + extra) 0 b2 length sb (by omega) htk
              (by omega) hlen hsb
            have hnum : sb.num = 0 := by
              unfold blockOffset at q4
              have hp : 0 < 2 ^ (sb.szx + 4) := Nat.two_pow_pos _
              rw [Nat.zero_mul] at q4
              rcases Nat.mul_eq_zero.mp q4 with hh | hh
              · exact hh
              · omega
            have hm : sb.m = 1 := by
              rw [q5, hnum]
              unfold moreBit blockOffset
              rw [← q3]
              rw [if_pos (by omega)]
            have hch := adlBlkSize_chunk A (by omega) (by omega)
            generalize adlBlkSize A = b3 at *
            obtain ⟨s1, s2, s3, s4, s5, s6⟩ := adlFinish_spec _ _ _ _ _ _ _ h
            have hb3 : b3 < b2 := by
              have : 2 ^ (b3 + 4) < 2 ^ (b2 + 4) := by omega
              have := pow_lt_imp _ _ this
              omega
            have hbv : r.blockVal = some (blockValue 0 1 b3) := by
              unfold adlFinish at h
              split at h
              · cases h
              · cases h
                simp only [hnum, hm, Nat.zero_mul, Nat.zero_mod]
            rw [s2, s3]
            refine ⟨hbv, ?_, by omega, by omega⟩
            apply Nat.min_eq_left
            omega
        · rw [if_neg hred] at h
          have htk : tokOpts0 + extra + 2 ^ (b2 + 4) ≤ maxSize := by omega
          obtain ⟨n1, n2, n3⟩ := setup_noreduce maxSize (tokOpts0 + extra) b2 length sb (by omega) htk hsb
          obtain ⟨q1, q2, q3, q4, q5, _⟩ := setup_sound maxSize (tokOpts0 + extra) 0 b2 length sb (by omega) (by omega)
            (by omega) hlen hsb
          have hnum : sb.num = 0 := by
            unfold blockOffset at q4
            have hp : 0 < 2 ^ (sb.szx + 4) := Nat.two_pow_pos _
            rw [Nat.zero_mul] at q4
            rcases Nat.mul_eq_zero.mp q4 with hh | hh
            · exact hh
            · omega
          have hm : sb.m = 1 := by
            rw [q5, hnum]
            unfold moreBit blockOffset
            rw [n1]
            rw [if_pos (by omega)]
          obtain ⟨s1, s2, s3, s4, s5, s6⟩ := adlFinish_spec _ _ _ _ _ _ _ h
          have hbv : r.blockVal = some (blockValue 0 1 b2) := by
            unfold adlFinish at h
            split at h
            · cases h
            · cases h
              simp only [hnum, hm, n2]
          rw [s2, s3, n3]
          refine ⟨hbv, ?_, hL, Nat.le_refl _⟩
          apply Nat.min_eq_left
          omega
    · rw [if_neg h2] at h
      unfold adlNoBlock at h
      obtain ⟨s1, _⟩ := adlFinish_spec _ _ _ _ _ _ _ h
      rw [s1] at hlg
      cases hlg


theorem adl_b2_le (A : Int) (b2 : Nat) (hb : b2 ≤ adlBlkSize A) (h16 : 16 ≤ A) (hA : A < 2 ^ 63) :
    ((2 ^ (b2 + 4) : Nat) : Int) ≤ A := by
  have hch := adlBlkSize_chunk A h16 hA
  have : 2 ^ (b2 + 4) ≤ 2 ^ (adlBlkSize A + 4) := Nat.pow_le_pow_right (by decide) (by omega)
  omega

theorem blkOpt_le_43 (d x : Nat) : optEncodeSize d (varLen x) ≤ 43 := by
  have hv : varLen x ≤ 4 := by
    unfold varLen; split <;> (try split) <;> (try split) <;> (try split) <;> omega
  unfold optEncodeSize
  have e1 : ¬ (varLen x ≥ 13) := by omega
  simp only [e1, if_false]
  split <;> (try split) <;> omega


theorem adlBlkSize_le6 (A : Int) : adlBlkSize A ≤ 6 := by
  unfold adlBlkSize
  dsimp only
  generalize ((((if A < 0 then (64 : Int) else ((flsll A.toNat : Nat) : Int)) - 5) % 256).toNat) = b
  split <;> omega

/-- `coap_add_data_large_request`: a multi-block result carries Block1 (0, 1, lg_xmit size ≤ 6) and one full block -/
theorem addDataLarge_first (maxSize tokLen optBytes lastOpt : Nat) (blk : Option Nat) (maxBlk length rtagLen : Nat)
    (r : AdlRes) (hms : maxSize < 2 ^ 62) (hlen : length < 2 ^ 32)
    (h : addDataLarge maxSize tokLen optBytes lastOpt blk maxBlk length rtagLen = some r) (hlg : r.lgXmit = true) :
    r.blockVal = some (blockValue 0 1 r.blkSize) ∧ r.payload = 2 ^ (r.blkSize + 4) ∧
    2 ^ (r.blkSize + 4) < length ∧ r.blkSize ≤ 6 := by
  unfold addDataLarge at h
  dsimp only at h
  cases blk with
  | none =>
    simp only at h
    have hb : (if maxBlk ≠ 0 ∧ adlBlkSize (adlAvail maxSize (tokLen + optBytes + 0) tokLen) > maxBlk then maxBlk
        else adlBlkSize (adlAvail maxSize (tokLen + optBytes + 0) tokLen)) ≤
        adlBlkSize (adlAvail maxSize (tokLen + optBytes + 0) tokLen) := by split <;> omega
    obtain ⟨a, b, c, d⟩ := adlBody_first _ _ _ _ _ _ _ _ _ r hms hlen (by omega)
      (by intro h16
          exact adl_b2_le _ _ hb h16 (by rw [adlAvail_eq]; omega)) h hlg
    have := adlBlkSize_le6 (adlAvail maxSize (tokLen + optBytes + 0) tokLen)
    exact ⟨a, b, c, by omega⟩
  | some s =>
    simp only at h
    have ho := blkOpt_le_43 (27 - lastOpt) (blockValue 0 0 s)
    generalize hA : adlAvail maxSize (tokLen + optBytes + optEncodeSize (27 - lastOpt) (varLen (blockValue 0 0 s))) tokLen = A at h
    have hb : (if s < (if maxBlk ≠ 0 ∧ adlBlkSize A > maxBlk then maxBlk else adlBlkSize A) then s
        else (if maxBlk ≠ 0 ∧ adlBlkSize A > maxBlk then maxBlk else adlBlkSize A)) ≤ adlBlkSize A := by
      split <;> split <;> omega
    obtain ⟨a, b, c, d⟩ := adlBody_first _ _ _ _ _ _ _ _ _ r hms hlen (by omega)
      (by intro h16
          rw [hA] at h16 ⊢
          exact adl_b2_le _ _ hb h16 (by rw [← hA, adlAvail_eq]; omega)) h hlg
    have := adlBlkSize_le6 A
    exact ⟨a, b, c, by omega⟩

end Coap.Block
