import CoapVerif.Lemmas.BlockRecv
import CoapVerif.Model.BlockCrcv
/- Helper lemmas for C09 Layer B, client side: the Block2 receive automaton `crcvStep`
   (coap_handle_response_get_block).  Core Lean only. -/
set_option linter.unusedSimpArgs false
set_option linter.unusedVariables false
namespace Coap.Block
open Coap.Spec.Block

/-- `coap_block_build_body` as the Block2 path calls it (`total = size2` of THIS response, not a running maximum):
the buffer never shrinks (fix 0b3fb08), the block is stored at its offset, every other byte stays -/
theorem buildBody_spec2 (junk : UInt8) (buf : Option Bytes) (data : Bytes) (off size2 : Nat)
    (hd : 0 < data.length) (hfit : off + data.length ≤ size2) :
    ∃ b', buildBody junk buf data off size2 = some b' ∧ off + data.length ≤ b'.length ∧
      (∀ b, buf = some b → b.length ≤ b'.length) ∧ (buf = none → b'.length = size2) ∧
      (∀ i, off ≤ i → i < off + data.length → b'[i]? = data[i - off]?) ∧
      (∀ b, buf = some b → ∀ i, i < b.length → ¬ (off ≤ i ∧ i < off + data.length) → b'[i]? = b[i]?) := by
  have key : ∃ b0 : Bytes, buildBody junk buf data off size2 = some (memcpyAt b0 off data) ∧ off + data.length ≤ b0.length ∧
      (∀ b, buf = some b → b.length ≤ b0.length ∧ ∀ i, i < b.length → b0[i]? = b[i]?) ∧
      (buf = none → b0.length = size2) := by
    unfold buildBody
    cases buf with
    | none =>
      have hne : size2 ≠ 0 := by omega
      simp only [hne, ne_eq, not_false_eq_true, if_true]
      refine ⟨List.replicate size2 junk, ?_, ?_, ?_, ?_⟩
      · have : off + data.length ≤ size2 ∧ (List.replicate size2 junk).length ≥ size2 := by simp; omega
        rw [if_pos this]
      · simp; omega
      · intro b hb; cases hb
      · intro _; simp
    | some b =>
      simp only
      by_cases hc : off + data.length ≤ size2 ∧ b.length ≥ size2
      · rw [if_pos hc]
        refine ⟨b, rfl, by omega, ?_, ?_⟩
        · intro b' hb'; cases hb'; exact ⟨Nat.le_refl _, fun _ _ => rfl⟩
        · intro hh; cases hh
      · rw [if_neg hc]
        refine ⟨resizeBin junk b (if off + data.length < b.length then b.length else off + data.length), rfl, ?_, ?_, ?_⟩
        · rw [resizeBin_length]; split <;> omega
        · intro b' hb'
          cases hb'
          refine ⟨by rw [resizeBin_length]; split <;> omega, ?_⟩
          intro i hi
          exact resizeBin_get junk b _ i hi (by split <;> omega)
        · intro hh; cases hh
  obtain ⟨b0, hb0, hfit0, hold, hnone⟩ := key
  refine ⟨memcpyAt b0 off data, hb0, by rw [memcpyAt_length _ _ _ hfit0]; exact hfit0, ?_, ?_, ?_, ?_⟩
  · intro b hb
    rw [memcpyAt_length _ _ _ hfit0]
    exact (hold b hb).1
  · intro hn
    rw [memcpyAt_length _ _ _ hfit0]
    exact hnone hn
  · intro i h1 h2
    rw [memcpyAt_get _ _ _ hfit0, if_pos ⟨h1, h2⟩]
  · intro b hb i hi hw
    rw [memcpyAt_get _ _ _ hfit0, if_neg hw]
    exact (hold b hb).2 i hi

/-- The (initialised) lg_crcv is consistent with the server's body: ranges well formed, covered blocks inside the body,
and in single-body mode every byte of a covered block is in the buffer and equals the server's byte; the buffer is at
least as long as the announced Size2 (`sz`, the same on every response). -/
structure CrcvInv (single : Bool) (cap : Nat) (body : Bytes) (sz : Option Nat) (s : Crcv) : Prop where
  wf : WfFrom 0 s.recv
  cnt : s.recv.length ≤ cap - 1
  inRange : ∀ k, Covers s.recv k → k * chunkSize s.szx < body.length
  buf : single = true → match s.body with
        | none => s.recv = []
        | some b => (∀ t, sz = some t → t ≤ b.length) ∧
            ∀ k, Covers s.recv k → ∀ i, k * chunkSize s.szx ≤ i → i < k * chunkSize s.szx + chunkSize s.szx →
              i < body.length → b[i]? = body[i]?

/-- the block numbers the lg_crcv a response meets has recorded since its last (re-)initialisation -/
def effRecv (st : Option Crcv) : Ranges :=
  match st with
  | some s => if s.initial then [] else s.recv
  | none => []

/-- the handler was given the complete body / the block that completes it -/
def CrcvOut.isFinal : CrcvOut → Bool
  | .body _ _ => true
  | .last _ _ _ => true
  | _ => false

/-- What one step may do, stated against the block numbers recorded before (`pre`) -/
structure StoreSpec (single : Bool) (cap : Nat) (body : Bytes) (sz : Option Nat) (pre : Ranges) (num szx : Nat)
    (payload : Bytes) (st' : Option Crcv) (out : CrcvOut) : Prop where
  inv : ∀ s', st' = some s' → s'.initial = false → CrcvInv single cap body sz s'
  /-- single-body delivery: exactly the server's body, state released -/
  dBody : ∀ d l, out = CrcvOut.body d l → single = true ∧ d.take l = body ∧ l = body.length ∧ st' = none
  /-- per-block deliveries: this response's block at its offset, never delivered before in this lifetime -/
  dBlock : ∀ off p total nx, out = CrcvOut.block off p total nx →
    single = false ∧ off = num * chunkSize szx ∧ p = payload ∧ ¬ Covers pre num ∧
    nx = (if num + 1 < nBlocks body.length szx then some (num + 1, szx) else none)
  dLast : ∀ off p total, out = CrcvOut.last off p total →
    single = false ∧ off = num * chunkSize szx ∧ p = payload ∧ ¬ Covers pre num ∧ st' = none
  /-- a completed transfer (either mode) has seen every block -/
  complete : out.isFinal = true → (∀ k, k < nBlocks body.length szx → k = num ∨ Covers pre k)
  /-- random access (no lg_crcv, NUM ≠ 0): this response's block at its offset -/
  ra : ∀ off p total, out = CrcvOut.randomAccess off p total → off = num * chunkSize szx ∧ p = payload
  /-- the recorded set grows by exactly this block when it is stored / delivered, and not at all otherwise -/
  grow : ∀ s', st' = some s' → s'.initial = false →
    (∀ k, Covers s'.recv k ↔ (Covers pre k ∨ (k = num ∧ (out = CrcvOut.next (num + 1) szx ∨ out = CrcvOut.wait ∨
      ∃ off p total nx, out = CrcvOut.block off p total nx))))
  /-- the next request asks for the following block at the same size -/
  next : ∀ n s, out = CrcvOut.next n s → n = num + 1 ∧ s = szx ∧ num + 1 < nBlocks body.length szx
  noPlain : ∀ p, out ≠ CrcvOut.plain p

/-- a StoreSpec for outputs that neither deliver nor record anything and leave an uninitialised / no state -/
theorem storeSpec_inert (single : Bool) (cap : Nat) (body : Bytes) (sz : Option Nat) (pre : Ranges) (num szx : Nat)
    (payload : Bytes) (st' : Option Crcv) (out : CrcvOut)
    (hst : ∀ s', st' = some s' → s'.initial = true)
    (ho : out = CrcvOut.err402 ∨ out = CrcvOut.err408 ∨ ∃ s, out = CrcvOut.restart s) :
    StoreSpec single cap body sz pre num szx payload st' out := by
  refine { inv := ?_, dBody := ?_, dBlock := ?_, dLast := ?_, complete := ?_, ra := ?_, grow := ?_, next := ?_, noPlain := ?_ }
  · intro s' hs' hi; rw [hst s' hs'] at hi; cases hi
  · intro d l hb; rcases ho with ho | ho | ⟨_, ho⟩ <;> (rw [ho] at hb; cases hb)
  · intro off p total nx hb; rcases ho with ho | ho | ⟨_, ho⟩ <;> (rw [ho] at hb; cases hb)
  · intro off p total hb; rcases ho with ho | ho | ⟨_, ho⟩ <;> (rw [ho] at hb; cases hb)
  · intro hn; rcases ho with ho | ho | ⟨_, ho⟩ <;> (rw [ho] at hn; cases hn)
  · intro off p total hb; rcases ho with ho | ho | ⟨_, ho⟩ <;> (rw [ho] at hb; cases hb)
  · intro s' hs' hi; rw [hst s' hs'] at hi; cases hi
  · intro n s hb; rcases ho with ho | ho | ⟨_, ho⟩ <;> (rw [ho] at hb; cases hb)
  · intro p hb; rcases ho with ho | ho | ⟨_, ho⟩ <;> (rw [ho] at hb; cases hb)

theorem more_cases (len szx k : Nat) (hk : k < nBlocks len szx) :
    (more len szx k = 1 ∧ k + 1 < nBlocks len szx ∧ k * chunkSize szx + chunkSize szx < len) ∨
    (more len szx k = 0 ∧ ¬ (k + 1 < nBlocks len szx) ∧ len ≤ k * chunkSize szx + chunkSize szx) := by
  have hnext := lt_nBlocks_iff len szx (k + 1)
  rw [Nat.succ_mul] at hnext
  unfold more
  by_cases h : k + 1 < nBlocks len szx
  · rw [if_pos h]; exact Or.inl ⟨rfl, h, hnext.mp h⟩
  · rw [if_neg h]
    refine Or.inr ⟨rfl, h, ?_⟩
    have : ¬ (k * chunkSize szx + chunkSize szx < len) := fun hh => h (hnext.mpr hh)
    omega

/-- from the Content-Format test to the end, for a genuine block meeting an initialised, consistent lg_crcv -/
theorem crcvStore_spec (single : Bool) (cap : Nat) (junk : UInt8) (body : Bytes) (sz : Option Nat) (lg : Crcv)
    (num m : Nat) (size2 fmt : Nat) (st' : Option Crcv) (out : CrcvOut)
    (hinv : CrcvInv single cap body sz lg) (hini : lg.initial = false)
    (hnum : num < nBlocks body.length lg.szx) (hm : m = more body.length lg.szx num)
    (hs1 : num * chunkSize lg.szx + (slice body lg.szx num).length ≤ size2)
    (hs2 : ∀ t, sz = some t → t ≤ size2)
    (hs3 : size2 ≤ num * chunkSize lg.szx + (slice body lg.szx num).length + 1 ∨ sz = some size2)
    (hs4 : m = 0 → size2 = body.length)
    (h : crcvStore single cap junk lg num m lg.szx (slice body lg.szx num) (slice body lg.szx num)
      (num * 2 ^ (lg.szx + 4)) size2 fmt = (st', out)) :
    StoreSpec single cap body sz lg.recv num lg.szx (slice body lg.szx num) st' out := by
  have hc := chunk_pos lg.szx
  have hcs : 2 ^ (lg.szx + 4) = chunkSize lg.szx := rfl
  have hoff := (lt_nBlocks_iff body.length lg.szx num).mp hnum
  have hpl := slice_length body lg.szx num
  have hpos : 0 < (slice body lg.szx num).length := by omega
  -- outputs that leave everything as it was
  have same : ∀ o : CrcvOut, (o = CrcvOut.err408 ∨ o = CrcvOut.skip) → (st', out) = (some lg, o) →
      StoreSpec single cap body sz lg.recv num lg.szx (slice body lg.szx num) st' out := by
    intro o ho heq
    cases heq
    refine { inv := ?_, dBody := ?_, dBlock := ?_, dLast := ?_, complete := ?_, ra := ?_, grow := ?_, next := ?_, noPlain := ?_ }
    · intro s' hs' _; cases hs'; exact hinv
    · intro d l hb; rcases ho with ho | ho <;> (rw [ho] at hb; cases hb)
    · intro off p total nx hb; rcases ho with ho | ho <;> (rw [ho] at hb; cases hb)
    · intro off p total hb; rcases ho with ho | ho <;> (rw [ho] at hb; cases hb)
    · intro hn; rcases ho with ho | ho <;> (rw [ho] at hn; cases hn)
    · intro off p total hb; rcases ho with ho | ho <;> (rw [ho] at hb; cases hb)
    · intro s' hs' _ k
      cases hs'
      constructor
      · intro hk; exact Or.inl hk
      · intro hk
        rcases hk with hk | ⟨_, hk⟩
        · exact hk
        · rcases ho with ho | ho <;> rw [ho] at hk <;>
            (rcases hk with hk | hk | ⟨_, _, _, _, hk⟩ <;> cases hk)
    · intro n s hb; rcases ho with ho | ho <;> (rw [ho] at hb; cases hb)
    · intro p hb; rcases ho with ho | ho <;> (rw [ho] at hb; cases hb)
  unfold crcvStore at h
  dsimp only at h
  rw [hcs] at h
  by_cases hf : fmt ≠ lg.fmt
  · rw [if_pos hf] at h
    exact same _ (Or.inl rfl) h.symm
  · rw [if_neg hf] at h
    rw [if_neg (by simp : ¬ (lg.szx ≠ lg.szx))] at h
    by_cases hrcv : checkIfReceived lg.recv num = true
    · rw [if_pos hrcv] at h
      exact same _ (Or.inr rfl) h.symm
    · rw [if_neg hrcv] at h
      have hncov : ¬ Covers lg.recv num := fun hcv => hrcv ((checkIfReceived_iff lg.recv 0 num hinv.wf).mpr hcv)
      have hus := updateReceived_spec cap lg.recv num hinv.wf hinv.cnt
      cases hu : updateReceived cap lg.recv num with
      | mk ok rec' =>
        rw [hu] at h hus
        cases ok with
        | false =>
          simp only at h
          exact same _ (Or.inl rfl) h.symm
        | true =>
          simp only at h
          obtain ⟨w1, w2, w3⟩ := hus.2 rfl
          simp only at w1 w2 w3
          have hne : rec' ≠ [] := by
            intro he
            have : Covers rec' num := (w3 num).mpr (Or.inr rfl)
            rw [he] at this
            exact (covers_nil num).mp this
          have hin' : ∀ k, Covers rec' k → k * chunkSize lg.szx < body.length := by
            intro k hk
            rcases (w3 k).mp hk with hk | hk
            · exact hinv.inRange k hk
            · rw [hk]; exact hoff
          -- the More bit
          have hmc := more_cases body.length lg.szx num hnum
          -- completion test
          have hallin : m = 0 → (checkAllBlocksIn rec' ((size2 + chunkSize lg.szx - 1) / chunkSize lg.szx) = true ↔
              ∀ k, k < nBlocks body.length lg.szx → Covers rec' k) := by
            intro hm0
            rw [hs4 hm0]
            exact checkAllBlocksIn_iff rec' _ w1 hne
              (fun k hk => (lt_nBlocks_iff body.length lg.szx k).mpr (hin' k hk))
          -- the buffer
          cases single with
          | false =>
            simp only [Bool.false_eq_true, if_false] at h
            by_cases hcont : m ≠ 0 ∨ ¬ checkAllBlocksIn rec' ((size2 + chunkSize lg.szx - 1) / chunkSize lg.szx) = true
            · rw [if_pos hcont] at h
              cases h
              refine { inv := ?_, dBody := ?_, dBlock := ?_, dLast := ?_, complete := ?_, ra := ?_, grow := ?_, next := ?_, noPlain := ?_ }
              · intro s' hs' _
                cases hs'
                exact { wf := w1, cnt := w2, inRange := hin', buf := by intro hh; cases hh }
              · intro d l hb; cases hb
              · intro off p total nx hb
                cases hb
                refine ⟨rfl, rfl, rfl, hncov, ?_⟩
                rcases hmc with ⟨e1, e2, _⟩ | ⟨e1, e2, _⟩
                · rw [if_pos e2, if_pos (by rw [hm, e1]; decide)]
                · rw [if_neg e2, if_neg (by rw [hm, e1]; decide)]
              · intro off p total hb; cases hb
              · intro hn; cases hn
              · intro off p total hb; cases hb
              · intro s' hs' _ k
                cases hs'
                rw [w3 k]
                constructor
                · intro hk
                  rcases hk with hk | hk
                  · exact Or.inl hk
                  · exact Or.inr ⟨hk, Or.inr (Or.inr ⟨_, _, _, _, rfl⟩)⟩
                · intro hk
                  rcases hk with hk | ⟨hk, _⟩
                  · exact Or.inl hk
                  · exact Or.inr hk
              · intro n s hb; cases hb
              · intro p hb; cases hb
            · rw [if_neg hcont] at h
              cases h
              have hm0 : m = 0 := by
                apply Classical.byContradiction; intro hh; exact hcont (Or.inl hh)
              have hall : checkAllBlocksIn rec' ((size2 + chunkSize lg.szx - 1) / chunkSize lg.szx) = true := by
                cases hx : checkAllBlocksIn rec' ((size2 + chunkSize lg.szx - 1) / chunkSize lg.szx) with
                | true => rfl
                | false => exact (hcont (Or.inr (by rw [hx]; decide))).elim
              have hcov := (hallin hm0).mp hall
              refine { inv := ?_, dBody := ?_, dBlock := ?_, dLast := ?_, complete := ?_, ra := ?_, grow := ?_, next := ?_, noPlain := ?_ }
              · intro s' hs'; cases hs'
              · intro d l hb; cases hb
              · intro off p total nx hb; cases hb
              · intro off p total hb
                cases hb
                exact ⟨rfl, rfl, rfl, hncov, rfl⟩
              · intro _ k hk
                rcases (w3 k).mp (hcov k hk) with hk | hk
                · exact Or.inr hk
                · exact Or.inl hk
              · intro off p total hb; cases hb
              · intro s' hs'; cases hs'
              · intro n s hb; cases hb
              · intro p hb; cases hb
          | true =>
            simp only [if_true] at h
            obtain ⟨b', hb1, hb2, hb3, hb4, hb5, hb6⟩ :=
              buildBody_spec2 junk lg.body (slice body lg.szx num) (num * chunkSize lg.szx) size2 hpos hs1
            rw [hb1] at h
            simp only at h
            have hbuf' : (∀ t, sz = some t → t ≤ b'.length) ∧
                ∀ k, Covers rec' k → ∀ i, k * chunkSize lg.szx ≤ i → i < k * chunkSize lg.szx + chunkSize lg.szx →
                  i < body.length → b'[i]? = body[i]? := by
              constructor
              · intro t ht
                cases hbody : lg.body with
                | none => rw [hb4 hbody]; exact hs2 t ht
                | some b =>
                  have hbuf := hinv.buf rfl
                  rw [hbody] at hbuf
                  simp only at hbuf
                  have := hbuf.1 t ht
                  have := hb3 b hbody
                  omega
              · intro k hk i hi1 hi2 hi3
                by_cases hw : num * chunkSize lg.szx ≤ i ∧ i < num * chunkSize lg.szx + (slice body lg.szx num).length
                · rw [hb5 i hw.1 hw.2]
                  exact slice_get body lg.szx num i hw.1 hw.2
                · rcases (w3 k).mp hk with hk | hk
                  · cases hbody : lg.body with
                    | none =>
                      have := hinv.buf rfl
                      rw [hbody] at this
                      simp only at this
                      rw [this] at hk
                      exact ((covers_nil k).mp hk).elim
                    | some b =>
                      have hb := hinv.buf rfl
                      rw [hbody] at hb
                      simp only at hb
                      have hget := hb.2 k hk i hi1 hi2 hi3
                      have hil : i < b.length := by
                        apply Classical.byContradiction
                        intro hh
                        have h1 : b[i]? = none := by rw [List.getElem?_eq_none_iff]; omega
                        have h2 : body[i]? = some body[i] := List.getElem?_eq_getElem hi3
                        rw [h1, h2] at hget
                        cases hget
                      rw [hb6 b hbody i hil hw]
                      exact hget
                  · subst hk
                    exact (hw ⟨hi1, by omega⟩).elim
            have hinv' : CrcvInv true cap body sz { lg with recv := rec', body := some b' } :=
              { wf := w1, cnt := w2, inRange := hin', buf := fun _ => hbuf' }
            by_cases hcont : m ≠ 0 ∨ ¬ checkAllBlocksIn rec' ((size2 + chunkSize lg.szx - 1) / chunkSize lg.szx) = true
            · rw [if_pos hcont] at h
              -- the recorded set grows by this block, whatever the output
              have hgrow : ∀ o : CrcvOut, (o = CrcvOut.next (num + 1) lg.szx ∨ o = CrcvOut.wait) →
                  ∀ k, Covers rec' k ↔ (Covers lg.recv k ∨ (k = num ∧ (o = CrcvOut.next (num + 1) lg.szx ∨ o = CrcvOut.wait ∨
                    ∃ off p total nx, o = CrcvOut.block off p total nx))) := by
                intro o ho k
                rw [w3 k]
                constructor
                · intro hk
                  rcases hk with hk | hk
                  · exact Or.inl hk
                  · refine Or.inr ⟨hk, ?_⟩
                    rcases ho with ho | ho
                    · exact Or.inl ho
                    · exact Or.inr (Or.inl ho)
                · intro hk
                  rcases hk with hk | ⟨hk, _⟩
                  · exact Or.inl hk
                  · exact Or.inr hk
              by_cases hm0 : m ≠ 0
              · rw [if_pos hm0] at h
                cases h
                refine { inv := ?_, dBody := ?_, dBlock := ?_, dLast := ?_, complete := ?_, ra := ?_, grow := ?_, next := ?_, noPlain := ?_ }
                · intro s' hs' _
                  cases hs'
                  exact hinv'
                · intro d l hb; cases hb
                · intro off p total nx hb; cases hb
                · intro off p total hb; cases hb
                · intro hn; cases hn
                · intro off p total hb; cases hb
                · intro s' hs' _ k
                  cases hs'
                  exact hgrow _ (Or.inl rfl) k
                · intro n s hb
                  cases hb
                  rcases hmc with ⟨e1, e2, _⟩ | ⟨e1, e2, _⟩
                  · exact ⟨rfl, rfl, e2⟩
                  · exact (hm0 (by rw [hm, e1])).elim
                · intro p hb; cases hb
              · rw [if_neg hm0] at h
                by_cases hsh : (slice body lg.szx num).length % chunkSize lg.szx ≠ 0
                · -- "Short packet is not the end of the body": blocks forgotten (initial), 4.08
                  rw [if_pos hsh] at h
                  cases h
                  exact storeSpec_inert _ _ _ _ _ _ _ _ _ _ (by intro s' hs'; cases hs'; rfl) (Or.inr (Or.inl rfl))
                · rw [if_neg hsh] at h
                  cases h
                  refine { inv := ?_, dBody := ?_, dBlock := ?_, dLast := ?_, complete := ?_, ra := ?_, grow := ?_, next := ?_, noPlain := ?_ }
                  · intro s' hs' _
                    cases hs'
                    exact hinv'
                  · intro d l hb; cases hb
                  · intro off p total nx hb; cases hb
                  · intro off p total hb; cases hb
                  · intro hn; cases hn
                  · intro off p total hb; cases hb
                  · intro s' hs' _ k
                    cases hs'
                    exact hgrow _ (Or.inr rfl) k
                  · intro n s hb; cases hb
                  · intro p hb; cases hb
            · rw [if_neg hcont] at h
              cases h
              have hm0 : m = 0 := by
                apply Classical.byContradiction; intro hh; exact hcont (Or.inl hh)
              have hall : checkAllBlocksIn rec' ((size2 + chunkSize lg.szx - 1) / chunkSize lg.szx) = true := by
                cases hx : checkAllBlocksIn rec' ((size2 + chunkSize lg.szx - 1) / chunkSize lg.szx) with
                | true => rfl
                | false => exact (hcont (Or.inr (by rw [hx]; decide))).elim
              have hcov := (hallin hm0).mp hall
              have hlast : num * chunkSize lg.szx + (slice body lg.szx num).length = body.length := by
                rcases hmc with ⟨e1, _, _⟩ | ⟨_, _, e3⟩
                · rw [hm, e1] at hm0; cases hm0
                · omega
              refine { inv := ?_, dBody := ?_, dBlock := ?_, dLast := ?_, complete := ?_, ra := ?_, grow := ?_, next := ?_, noPlain := ?_ }
              · intro s' hs'; cases hs'
              · intro d l hb
                cases hb
                refine ⟨rfl, ?_, hlast, rfl⟩
                simp only [Option.getD_some]
                rw [hlast]
                apply List.ext_getElem?
                intro i
                by_cases hi : i < body.length
                · have hdm := Nat.div_add_mod i (chunkSize lg.szx)
                  have hml := Nat.mod_lt i hc
                  rw [Nat.mul_comm] at hdm
                  have hk : i / chunkSize lg.szx < nBlocks body.length lg.szx :=
                    (lt_nBlocks_iff body.length lg.szx _).mpr (by omega)
                  rw [List.getElem?_take, if_pos hi]
                  exact hbuf'.2 _ (hcov _ hk) i (by omega) (by omega) hi
                · have h1 : (b'.take body.length)[i]? = none := by
                    rw [List.getElem?_eq_none_iff]; simp; omega
                  have h2 : body[i]? = none := by rw [List.getElem?_eq_none_iff]; omega
                  rw [h1, h2]
              · intro off p total nx hb; cases hb
              · intro off p total hb; cases hb
              · intro _ k hk
                rcases (w3 k).mp (hcov k hk) with hk | hk
                · exact Or.inr hk
                · exact Or.inl hk
              · intro off p total hb; cases hb
              · intro s' hs'; cases hs'
              · intro n s hb; cases hb
              · intro p hb; cases hb


theorem crcvSize2_facts (sz : Option Nat) (m e L : Nat) (hsz : ∀ t, sz = some t → t ≤ L) (he : e ≤ L)
    (hm : m = 0 → e = L) :
    e ≤ crcvSize2 sz m e ∧ (∀ t, sz = some t → t ≤ crcvSize2 sz m e) ∧
    (crcvSize2 sz m e ≤ e + 1 ∨ sz = some (crcvSize2 sz m e)) ∧ (m = 0 → crcvSize2 sz m e = L) := by
  unfold crcvSize2
  cases sz with
  | none =>
    simp only
    by_cases h0 : 0 < e
    · rw [if_pos h0]
      by_cases hm0 : m ≠ 0
      · rw [if_pos hm0]
        exact ⟨by omega, (by intro t ht; cases ht), Or.inl (by omega), fun hh => (hm0 hh).elim⟩
      · rw [if_neg hm0]
        exact ⟨by omega, (by intro t ht; cases ht), Or.inl (by omega), fun hh => hm hh⟩
    · rw [if_neg h0]
      exact ⟨by omega, (by intro t ht; cases ht), Or.inl (by omega), fun hh => by have := hm hh; omega⟩
  | some s =>
    simp only
    have hs := hsz s rfl
    by_cases h0 : s < e
    · rw [if_pos h0]
      by_cases hm0 : m ≠ 0
      · rw [if_pos hm0]
        exact ⟨by omega, (by intro t ht; cases ht; omega), Or.inl (by omega), fun hh => (hm0 hh).elim⟩
      · rw [if_neg hm0]
        exact ⟨by omega, (by intro t ht; cases ht; omega), Or.inl (by omega), fun hh => hm hh⟩
    · rw [if_neg h0]
      exact ⟨by omega, (by intro t ht; cases ht; omega), Or.inr rfl, fun hh => by have := hm hh; omega⟩

theorem crcvInit_facts (lg : Crcv) (szx size2 : Nat) (r : Resp) :
    (crcvInit lg szx size2 r).initial = false ∧
    (crcvInit lg szx size2 r).recv = (if lg.initial then [] else lg.recv) ∧
    (crcvInit lg szx size2 r).body = (if lg.initial then none else lg.body) ∧
    (crcvInit lg szx size2 r).szx = (if lg.initial then szx else lg.szx) ∧
    (lg.initial = false → (crcvInit lg szx size2 r).etag = lg.etag ∧ (crcvInit lg szx size2 r).etagSet = lg.etagSet) := by
  unfold crcvInit
  cases hi : lg.initial with
  | true =>
    simp only [if_true]
    split <;> exact ⟨rfl, rfl, rfl, rfl, by intro hh; cases hh⟩
  | false =>
    simp only [Bool.false_eq_true, if_false]
    split <;> exact ⟨hi, rfl, rfl, rfl, fun _ => ⟨rfl, rfl⟩⟩

/-- the response would pass the ETag tests against the (initialised) lg_crcv `s` -/
def PassesEtag (s : Crcv) (r : Resp) : Prop :=
  (∀ e, r.etag = some e → e = s.etag) ∧ (r.etag = none → s.etagSet = false)

/-- a genuine Block2 response meeting the lg_crcv `lg` (initial or consistent with the body) -/
theorem crcvBlock_spec (single : Bool) (cap : Nat) (junk : UInt8) (body : Bytes) (sz : Option Nat) (lg : Crcv)
    (num szx : Nat) (r : Resp) (st' : Option Crcv) (out : CrcvOut)
    (hsz : ∀ t, sz = some t → t ≤ body.length)
    (hlg : lg.initial = false → CrcvInv single cap body sz lg)
    (hlgs : lg.initial = false → PassesEtag lg r → lg.szx = szx)
    (hnum : num < nBlocks body.length szx) (hpay : r.payload = slice body szx num) (hsize : r.size2 = sz)
    (h : crcvBlock single cap junk lg num (more body.length szx num) szx r = (st', out)) :
    StoreSpec single cap body sz (if lg.initial then [] else lg.recv) num szx r.payload st' out := by
  have hc := chunk_pos szx
  have hcs : 2 ^ (szx + 4) = chunkSize szx := rfl
  have hoff := (lt_nBlocks_iff body.length szx num).mp hnum
  have hpl := slice_length body szx num
  have hmc := more_cases body.length szx num hnum
  unfold crcvBlock at h
  dsimp only at h
  rw [hcs, hpay, hsize] at h
  have hdata : (if (slice body szx num).length > chunkSize szx then (slice body szx num).take (chunkSize szx)
      else slice body szx num) = slice body szx num := by
    rw [if_neg (by omega)]
  rw [hdata] at h
  have hund : ¬ (more body.length szx num ≠ 0 ∧ (slice body szx num).length ≠ chunkSize szx) := by
    intro hh
    rcases hmc with ⟨_, _, e3⟩ | ⟨e1, _, _⟩
    · exact hh.2 (by omega)
    · exact hh.1 e1
  rw [if_neg hund] at h
  -- "More set on the last block number" (fix 70f6ff3): refused, nothing stored, the lg_crcv is gone
  by_cases hlastnum : more body.length szx num ≠ 0 ∧ 0xFFFFF ≤ num
  · rw [if_pos hlastnum] at h
    cases h
    exact storeSpec_inert _ _ _ _ _ _ _ _ _ _ (by intro s' hs'; cases hs') (Or.inl rfl)
  rw [if_neg hlastnum] at h
  have hend : num * chunkSize szx + (slice body szx num).length ≤ body.length := by omega
  have hm0 : more body.length szx num = 0 → num * chunkSize szx + (slice body szx num).length = body.length := by
    intro hh
    rcases hmc with ⟨e1, _, _⟩ | ⟨_, _, e3⟩
    · rw [e1] at hh; cases hh
    · omega
  obtain ⟨f1, f2, f3, f4⟩ := crcvSize2_facts sz (more body.length szx num)
    (num * chunkSize szx + (slice body szx num).length) body.length hsz hend hm0
  generalize crcvSize2 sz (more body.length szx num) (num * chunkSize szx + (slice body szx num).length) = size2 at h f1 f2 f3 f4
  obtain ⟨i1, i2, i3, i4, i5⟩ := crcvInit_facts lg szx size2 r
  generalize crcvInit lg szx size2 r = lg2 at h i1 i2 i3 i4 i5
  -- the (re-)initialised lg_crcv is consistent with the body
  have hinv2 : CrcvInv single cap body sz lg2 := by
    cases hi : lg.initial with
    | true =>
      rw [hi] at i2 i3 i4
      simp only [if_true] at i2 i3 i4
      refine { wf := by rw [i2]; trivial, cnt := by rw [i2]; exact Nat.zero_le _, inRange := ?_, buf := ?_ }
      · intro k hk; rw [i2] at hk; exact ((covers_nil k).mp hk).elim
      · intro _; rw [i3]; exact i2
    | false =>
      rw [hi] at i2 i3 i4
      simp only [Bool.false_eq_true, if_false] at i2 i3 i4
      have hv := hlg hi
      refine { wf := by rw [i2]; exact hv.wf, cnt := by rw [i2]; exact hv.cnt, inRange := ?_, buf := ?_ }
      · intro k hk; rw [i2] at hk; rw [i4]; exact hv.inRange k hk
      · intro hsg; rw [i3, i2, i4]; exact hv.buf hsg
  -- … and tracks this block size whenever the response passes its ETag tests
  have hszx2 : PassesEtag lg2 r → lg2.szx = szx := by
    intro hp
    cases hi : lg.initial with
    | true => rw [hi] at i4; simpa using i4
    | false =>
      rw [hi] at i4
      simp only [Bool.false_eq_true, if_false] at i4
      obtain ⟨e1, e2⟩ := i5 hi
      rw [i4]
      apply hlgs hi
      unfold PassesEtag at *
      rw [← e1, ← e2]
      exact hp
  rw [← i2]
  have hstore : ∀ (hsx : lg2.szx = szx)
      (hh : crcvStore single cap junk lg2 num (more body.length szx num) szx (slice body szx num)
        (slice body szx num) (num * chunkSize szx) size2 r.fmt = (st', out)),
      StoreSpec single cap body sz lg2.recv num szx r.payload st' out := by
    intro hsx hh
    subst hsx
    rw [hpay]
    exact crcvStore_spec single cap junk body sz lg2 num _ size2 r.fmt st' out hinv2 i1 hnum rfl f1 f2 f3
      (fun hm => f4 hm) hh
  have hfail : (st', out) = (some lg2, CrcvOut.err408) →
      StoreSpec single cap body sz lg2.recv num szx r.payload st' out := by
    intro heq
    cases heq
    refine { inv := ?_, dBody := ?_, dBlock := ?_, dLast := ?_, complete := ?_, ra := ?_, grow := ?_, next := ?_, noPlain := ?_ }
    · intro s' hs' _; cases hs'; exact hinv2
    · intro d l hb; cases hb
    · intro off p total nx hb; cases hb
    · intro off p total hb; cases hb
    · intro hn; cases hn
    · intro off p total hb; cases hb
    · intro s' hs' _ k
      cases hs'
      constructor
      · intro hk; exact Or.inl hk
      · intro hk
        rcases hk with hk | ⟨_, hk⟩
        · exact hk
        · rcases hk with hk | hk | ⟨_, _, _, _, hk⟩ <;> cases hk
    · intro n s hb; cases hb
    · intro p hb; cases hb
  cases he : r.etag with
  | some e =>
    rw [he] at h
    simp only at h
    by_cases hne : e ≠ lg2.etag
    · rw [if_pos hne] at h
      cases h
      exact storeSpec_inert _ _ _ _ _ _ _ _ _ _ (by intro s' hs'; cases hs'; rfl) (Or.inr (Or.inr ⟨_, rfl⟩))
    · rw [if_neg hne] at h
      have heq : e = lg2.etag := by
        apply Classical.byContradiction; intro hh; exact hne hh
      exact hstore (hszx2 ⟨fun e' he' => (by rw [he] at he'; cases he'; exact heq), fun hn => (by rw [he] at hn; cases hn)⟩) h
  | none =>
    rw [he] at h
    simp only at h
    by_cases hes : lg2.etagSet = true
    · rw [if_pos hes] at h
      exact hfail h.symm
    · rw [if_neg hes] at h
      have hf : lg2.etagSet = false := by
        cases hx : lg2.etagSet with
        | true => exact (hes hx).elim
        | false => rfl
      exact hstore (hszx2 ⟨fun e' he' => (by rw [he] at he'; cases he'), fun _ => hf⟩) h

/-- the response carries the server's slice for its NUM/SZX with the right More bit, the Size2 option is the same
(`sz`) on every response, and IF the response passes the ETag tests of the initialised lg_crcv it meets, its block size
is the one that lg_crcv tracks the transfer in; ETag and Content-Format are arbitrary -/
def Genuine2 (body : Bytes) (sz : Option Nat) (st : Option Crcv) (r : Resp) (num szx : Nat) : Prop :=
  r.blk = some (num, more body.length szx num, szx) ∧ num < nBlocks body.length szx ∧
  r.payload = slice body szx num ∧ r.size2 = sz ∧
  (∀ s, st = some s → s.initial = false → PassesEtag s r → s.szx = szx)

theorem crcvStep_spec (single : Bool) (cap : Nat) (junk : UInt8) (body : Bytes) (sz : Option Nat) (st : Option Crcv)
    (r : Resp) (num szx : Nat) (st' : Option Crcv) (out : CrcvOut)
    (hsz : ∀ t, sz = some t → t ≤ body.length)
    (hst : ∀ s, st = some s → s.initial = false → CrcvInv single cap body sz s)
    (hg : Genuine2 body sz st r num szx)
    (h : crcvStep single cap junk st r = (st', out)) :
    StoreSpec single cap body sz (effRecv st) num szx r.payload st' out := by
  obtain ⟨g1, g2, g3, g4, g5⟩ := hg
  have hoff := (lt_nBlocks_iff body.length szx num).mp g2
  have hpl := slice_length body szx num
  have hc := chunk_pos szx
  have hnonempty : more body.length szx num ≠ 0 ∨ r.payload.length ≠ 0 := by
    right; rw [g3]; omega
  have hfound : ∀ (lg : Crcv), (lg.initial = false → CrcvInv single cap body sz lg) →
      (lg.initial = false → PassesEtag lg r → lg.szx = szx) →
      crcvFound single cap junk lg r = (st', out) →
      StoreSpec single cap body sz (if lg.initial then [] else lg.recv) num szx r.payload st' out := by
    intro lg hlg hlgs hf
    unfold crcvFound at hf
    rw [g1] at hf
    simp only at hf
    rw [if_pos hnonempty] at hf
    exact crcvBlock_spec single cap junk body sz lg num szx r st' out hsz hlg hlgs g2 g3 g4 hf
  unfold crcvStep at h
  cases st with
  | some lg =>
    simp only at h
    have := hfound lg (fun hi => hst lg rfl hi) (fun hi hp => g5 lg rfl hi hp) h
    unfold effRecv
    exact this
  | none =>
    simp only at h
    rw [g1] at h
    simp only at h
    by_cases hn0 : num ≠ 0
    · rw [if_pos hn0] at h
      cases h
      refine { inv := ?_, dBody := ?_, dBlock := ?_, dLast := ?_, complete := ?_, ra := ?_, grow := ?_, next := ?_, noPlain := ?_ }
      · intro s' hs'; cases hs'
      · intro d l hb; cases hb
      · intro off p total nx hb; cases hb
      · intro off p total hb; cases hb
      · intro hn; cases hn
      · intro off p total hb; cases hb; exact ⟨rfl, rfl⟩
      · intro s' hs'; cases hs'
      · intro n s hb; cases hb
      · intro p hb; cases hb
    · rw [if_neg hn0] at h
      have := hfound {} (by intro hi; cases hi) (by intro hi; cases hi) h
      exact this

/-! ## runs -/

/-- outputs of the client over a sequence of responses -/
def runCrcv (single : Bool) (cap : Nat) (junk : UInt8) : Option Crcv → List Resp → List CrcvOut
  | _, [] => []
  | st, r :: rs =>
    (crcvStep single cap junk st r).2 :: runCrcv single cap junk (crcvStep single cap junk st r).1 rs

/-- every response of the sequence is genuine with respect to the state it meets -/
def Admissible2 (single : Bool) (cap : Nat) (junk : UInt8) (body : Bytes) (sz : Option Nat) :
    Option Crcv → List Resp → Prop
  | _, [] => True
  | st, r :: rs =>
    (∃ num szx, Genuine2 body sz st r num szx) ∧
      Admissible2 single cap junk body sz (crcvStep single cap junk st r).1 rs

/-- what the handler may be given -/
def GoodOut (single : Bool) (body : Bytes) (o : CrcvOut) : Prop :=
  (∀ d l, o = CrcvOut.body d l → single = true ∧ d.take l = body ∧ l = body.length) ∧
  (∀ off p total nx, o = CrcvOut.block off p total nx →
    single = false ∧ ∃ k szx, k < nBlocks body.length szx ∧ off = k * chunkSize szx ∧ p = slice body szx k) ∧
  (∀ off p total, o = CrcvOut.last off p total →
    single = false ∧ ∃ k szx, k < nBlocks body.length szx ∧ off = k * chunkSize szx ∧ p = slice body szx k) ∧
  (∀ off p total, o = CrcvOut.randomAccess off p total →
    ∃ k szx, k < nBlocks body.length szx ∧ off = k * chunkSize szx ∧ p = slice body szx k) ∧
  (∀ p, o ≠ CrcvOut.plain p)

theorem runCrcv_sound (single : Bool) (cap : Nat) (junk : UInt8) (body : Bytes) (sz : Option Nat)
    (hsz : ∀ t, sz = some t → t ≤ body.length) :
    ∀ (rs : List Resp) (st : Option Crcv), (∀ s, st = some s → s.initial = false → CrcvInv single cap body sz s) →
      Admissible2 single cap junk body sz st rs →
      ∀ o, o ∈ runCrcv single cap junk st rs → GoodOut single body o
  | [], _, _, _, o, ho => by simp [runCrcv] at ho
  | r :: rs, st, hst, hadm, o, ho => by
    obtain ⟨⟨num, szx, hg⟩, hrest⟩ := hadm
    have hspec := crcvStep_spec single cap junk body sz st r num szx _ _ hsz hst hg rfl
    unfold runCrcv at ho
    rw [List.mem_cons] at ho
    rcases ho with ho | ho
    · subst ho
      refine ⟨?_, ?_, ?_, ?_, hspec.noPlain⟩
      · intro d l hb
        obtain ⟨a, b, c, _⟩ := hspec.dBody d l hb
        exact ⟨a, b, c⟩
      · intro off p total nx hb
        obtain ⟨a, b, c, _⟩ := hspec.dBlock off p total nx hb
        exact ⟨a, num, szx, hg.2.1, b, by rw [c]; exact hg.2.2.1⟩
      · intro off p total hb
        obtain ⟨a, b, c, _⟩ := hspec.dLast off p total hb
        exact ⟨a, num, szx, hg.2.1, b, by rw [c]; exact hg.2.2.1⟩
      · intro off p total hb
        obtain ⟨b, c⟩ := hspec.ra off p total hb
        exact ⟨num, szx, hg.2.1, b, by rw [c]; exact hg.2.2.1⟩
    · exact runCrcv_sound single cap junk body sz hsz rs _ (fun s hs hi => hspec.inv s hs hi) hrest o ho

/-! ## per-block mode over a run: every block once, and all of them at completion -/

theorem crcvStore_perblock (cap : Nat) (junk : UInt8) (lg : Crcv) (num m szx : Nat) (payload data : Bytes)
    (offset size2 fmt : Nat) :
    (∀ n s, (crcvStore false cap junk lg num m szx payload data offset size2 fmt).2 ≠ CrcvOut.next n s) ∧
    (crcvStore false cap junk lg num m szx payload data offset size2 fmt).2 ≠ CrcvOut.wait := by
  unfold crcvStore
  dsimp only
  by_cases hf : fmt ≠ lg.fmt
  · rw [if_pos hf]; exact ⟨fun n s h => (by cases h), fun h => (by cases h)⟩
  · rw [if_neg hf]
    by_cases hsz : szx ≠ lg.szx
    · rw [if_pos hsz]; exact ⟨fun n s h => (by cases h), fun h => (by cases h)⟩
    rw [if_neg hsz]
    by_cases hr : checkIfReceived lg.recv num = true
    · rw [if_pos hr]; exact ⟨fun n s h => (by cases h), fun h => (by cases h)⟩
    · rw [if_neg hr]
      cases hu : updateReceived cap lg.recv num with
      | mk ok rec' =>
        cases ok with
        | false => exact ⟨fun n s h => (by cases h), fun h => (by cases h)⟩
        | true =>
          simp only [Bool.false_eq_true, if_false]
          by_cases hc : m ≠ 0 ∨ ¬ checkAllBlocksIn rec' ((size2 + 2 ^ (szx + 4) - 1) / 2 ^ (szx + 4)) = true
          · rw [if_pos hc]; exact ⟨fun n s h => (by cases h), fun h => (by cases h)⟩
          · rw [if_neg hc]; exact ⟨fun n s h => (by cases h), fun h => (by cases h)⟩

theorem crcvStep_perblock (cap : Nat) (junk : UInt8) (st : Option Crcv) (r : Resp) :
    (∀ n s, (crcvStep false cap junk st r).2 ≠ CrcvOut.next n s) ∧ (crcvStep false cap junk st r).2 ≠ CrcvOut.wait := by
  have hblock : ∀ lg num m szx, (∀ n s, (crcvBlock false cap junk lg num m szx r).2 ≠ CrcvOut.next n s) ∧
      (crcvBlock false cap junk lg num m szx r).2 ≠ CrcvOut.wait := by
    intro lg num m szx
    unfold crcvBlock
    dsimp only
    generalize (if r.payload.length > 2 ^ (szx + 4) then r.payload.take (2 ^ (szx + 4)) else r.payload) = data
    by_cases hund : m ≠ 0 ∧ data.length ≠ 2 ^ (szx + 4)
    · rw [if_pos hund]; exact ⟨fun n s h => (by cases h), fun h => (by cases h)⟩
    · rw [if_neg hund]
      by_cases hlastnum : m ≠ 0 ∧ 0xFFFFF ≤ num
      · rw [if_pos hlastnum]; exact ⟨fun n s h => (by cases h), fun h => (by cases h)⟩
      rw [if_neg hlastnum]
      cases he : r.etag with
      | some e =>
        simp only
        split
        · exact ⟨fun n s h => (by cases h), fun h => (by cases h)⟩
        · exact crcvStore_perblock _ _ _ _ _ _ _ _ _ _ _
      | none =>
        simp only
        split
        · exact ⟨fun n s h => (by cases h), fun h => (by cases h)⟩
        · exact crcvStore_perblock _ _ _ _ _ _ _ _ _ _ _
  have hfound : ∀ lg, (∀ n s, (crcvFound false cap junk lg r).2 ≠ CrcvOut.next n s) ∧
      (crcvFound false cap junk lg r).2 ≠ CrcvOut.wait := by
    intro lg
    unfold crcvFound
    cases hb : r.blk with
    | none => exact ⟨fun n s h => (by cases h), fun h => (by cases h)⟩
    | some b =>
      obtain ⟨num, m, szx⟩ := b
      simp only
      split
      · exact hblock lg num m szx
      · exact ⟨fun n s h => (by cases h), fun h => (by cases h)⟩
  unfold crcvStep
  cases st with
  | some lg => exact hfound lg
  | none =>
    simp only
    cases hb : r.blk with
    | none => exact ⟨fun n s h => (by cases h), fun h => (by cases h)⟩
    | some b =>
      obtain ⟨num, m, szx⟩ := b
      simp only
      split
      · exact ⟨fun n s h => (by cases h), fun h => (by cases h)⟩
      · exact hfound {}

/-- NUM / SZX of a response's Block2 option -/
def numOf (r : Resp) : Nat := match r.blk with | some (n, _, _) => n | none => 0
def szxOfR (r : Resp) : Nat := match r.blk with | some (_, _, s) => s | none => 0

/-- ghost: the block numbers handed to the handler since the lg_crcv was last (re-)initialised -/
def seenAfter (st' : Option Crcv) (seen : List Nat) (num : Nat) (o : CrcvOut) : List Nat :=
  match st' with
  | none => []
  | some s' =>
    if s'.initial then []
    else
      match o with
      | .block _ _ _ _ => num :: seen
      | _ => seen

/-- along a run in per-block mode: a block handed to the handler was not handed over before (since the last
(re-)initialisation of the lg_crcv), and when the completing block is handed over every other block of the body has
been: the (offset, length) pairs handed over tile the body, each exactly once -/
def TilesOnce (cap : Nat) (junk : UInt8) (body : Bytes) : Option Crcv → List Nat → List Resp → Prop
  | _, _, [] => True
  | st, seen, r :: rs =>
    (∀ off p t nx, (crcvStep false cap junk st r).2 = CrcvOut.block off p t nx → numOf r ∉ seen) ∧
    (∀ off p t, (crcvStep false cap junk st r).2 = CrcvOut.last off p t →
      numOf r ∉ seen ∧ ∀ k, k < nBlocks body.length (szxOfR r) → k = numOf r ∨ k ∈ seen) ∧
    TilesOnce cap junk body (crcvStep false cap junk st r).1
      (seenAfter (crcvStep false cap junk st r).1 seen (numOf r) (crcvStep false cap junk st r).2) rs

theorem tilesOnce_run (cap : Nat) (junk : UInt8) (body : Bytes) (sz : Option Nat)
    (hsz : ∀ t, sz = some t → t ≤ body.length) :
    ∀ (rs : List Resp) (st : Option Crcv) (seen : List Nat),
      (∀ s, st = some s → s.initial = false → CrcvInv false cap body sz s) →
      (∀ k, k ∈ seen ↔ Covers (effRecv st) k) →
      Admissible2 false cap junk body sz st rs → TilesOnce cap junk body st seen rs
  | [], _, _, _, _, _ => trivial
  | r :: rs, st, seen, hst, hG, hadm => by
    obtain ⟨⟨num, szx, hg⟩, hrest⟩ := hadm
    have hnum : numOf r = num := by unfold numOf; rw [hg.1]
    have hszx : szxOfR r = szx := by unfold szxOfR; rw [hg.1]
    obtain ⟨hpn, hpw⟩ := crcvStep_perblock cap junk st r
    unfold TilesOnce
    rw [hnum, hszx]
    generalize hres : crcvStep false cap junk st r = res at hpn hpw hrest ⊢
    obtain ⟨st', out⟩ := res
    have hspec := crcvStep_spec false cap junk body sz st r num szx st' out hsz hst hg hres
    dsimp only at hpn hpw hrest ⊢
    refine ⟨?_, ?_, ?_⟩
    · intro off p t nx hb hmem
      exact (hspec.dBlock off p t nx hb).2.2.2.1 ((hG num).mp hmem)
    · intro off p t hb
      refine ⟨fun hmem => (hspec.dLast off p t hb).2.2.2.1 ((hG num).mp hmem), ?_⟩
      intro k hk
      rcases hspec.complete (by rw [hb]; rfl) k hk with h | h
      · exact Or.inl h
      · exact Or.inr ((hG k).mpr h)
    · apply tilesOnce_run cap junk body sz hsz rs _ _ (fun s hs hi => hspec.inv s hs hi) _ hrest
      intro k
      unfold seenAfter effRecv
      cases st' with
      | none => simp [covers_nil]
      | some s' =>
        simp only
        cases hi : s'.initial with
        | true => simp [covers_nil]
        | false =>
          simp only [Bool.false_eq_true, if_false]
          have hgrow := hspec.grow s' rfl hi k
          rw [hgrow]
          cases out with
          | block off p t nx =>
            simp only [List.mem_cons]
            constructor
            · intro h
              rcases h with h | h
              · exact Or.inr ⟨h, Or.inr (Or.inr ⟨off, p, t, nx, rfl⟩)⟩
              · exact Or.inl ((hG k).mp h)
            · intro h
              rcases h with h | ⟨h, _⟩
              · exact Or.inr ((hG k).mpr h)
              · exact Or.inl h
          | next n s => exact (hpn n s rfl).elim
          | wait => exact (hpw rfl).elim
          | _ =>
            simp only
            constructor
            · intro h; exact Or.inl ((hG k).mp h)
            · intro h
              rcases h with h | ⟨_, h⟩
              · exact (hG k).mpr h
              · rcases h with h | h | ⟨_, _, _, _, h⟩ <;> cases h

end Coap.Block
