import CoapVerif.Lemmas.ObserveBase
/- A finer version of the `ResLe` family of Lemmas/Observe.lean: the primitives outside the notify loop (deletions, touch,
   failed-notify accounting, ACK/RST handling, session loss, retransmission) change NOTHING about an entry except `failCnt`
   (in particular not `nonCnt`, `mid`).  Same proofs, `core` replaced by `coreF`. -/
namespace Coap.Observe
open Coap.Generated

/-- everything about an entry except `failCnt` -/
def coreF (s : Sub) : Sub := { s with failCnt := 0 }

def SubsLeF (a b : List Sub) : Prop := (a.map coreF).Sublist (b.map coreF)

theorem SubsLeF.refl (a : List Sub) : SubsLeF a a := List.Sublist.refl _
theorem SubsLeF.trans {a b c : List Sub} (h1 : SubsLeF a b) (h2 : SubsLeF b c) : SubsLeF a c := List.Sublist.trans h1 h2
theorem SubsLeF.of_sublist {a b : List Sub} (h : a.Sublist b) : SubsLeF a b := h.map coreF

/-- the resource is the same apart from (a sub-list of) its entries, whose counters may have moved, and the handler verdict -/
structure ResLeF (r' r : Res) : Prop where
  id : r'.id = r.id
  alive : r'.alive = r.alive
  fCon : r'.fCon = r.fCon
  fNonAlways : r'.fNonAlways = r.fNonAlways
  dirty : r'.dirty = r.dirty
  pdirty : r'.pdirty = r.pdirty
  ver : r'.ver = r.ver
  observe : r'.observe = r.observe
  err : r'.err = r.err
  subs : SubsLeF r'.subs r.subs

theorem ResLeF.refl (r : Res) : ResLeF r r := ⟨rfl, rfl, rfl, rfl, rfl, rfl, rfl, rfl, rfl, SubsLeF.refl _⟩
theorem ResLeF.trans {a b c : Res} (h1 : ResLeF a b) (h2 : ResLeF b c) : ResLeF a c :=
  ⟨h1.id.trans h2.id, h1.alive.trans h2.alive, h1.fCon.trans h2.fCon, h1.fNonAlways.trans h2.fNonAlways,
   h1.dirty.trans h2.dirty, h1.pdirty.trans h2.pdirty, h1.ver.trans h2.ver, h1.observe.trans h2.observe, h1.err.trans h2.err, h1.subs.trans h2.subs⟩

abbrev AllLeF := All2 ResLeF

theorem AllLeF.refl (a : List Res) : AllLeF a a := All2.refl ResLeF.refl a
theorem AllLeF.trans {a b c : List Res} (h1 : AllLeF a b) (h2 : AllLeF b c) : AllLeF a c := All2.trans (R := ResLeF) (fun _ _ _ h h' => ResLeF.trans h h') h1 h2

theorem AllLeF.map {f : Res → Res} (hf : ∀ x, ResLeF (f x) x) : ∀ (a : List Res), AllLeF (a.map f) a
  | [] => All2.nil
  | x :: xs => All2.cons (hf x) (AllLeF.map hf xs)

theorem mapRes_leF (st : State) {f : Res → Res} (hf : ∀ x, ResLeF (f x) x) : AllLeF (mapRes st f).res st.res :=
  AllLeF.map hf st.res

theorem modRes_leF (st : State) (r : Nat) {f : Res → Res} (hf : ∀ x, ResLeF (f x) x) : AllLeF (modRes st r f).res st.res := by
  apply mapRes_leF; intro x; split
  · exact hf x
  · exact ResLeF.refl x

theorem resLe_subsF (x : Res) {l : List Sub} (h : SubsLeF l x.subs) : ResLeF { x with subs := l } x :=
  ⟨rfl, rfl, rfl, rfl, rfl, rfl, rfl, rfl, rfl, h⟩

theorem modFirst_coreF (p : Sub → Bool) (f : Sub → Sub) (hf : ∀ s, coreF (f s) = coreF s) :
    ∀ l : List Sub, (modFirst p f l).map coreF = l.map coreF
  | [] => rfl
  | s :: r => by
    unfold modFirst; split
    · simp [hf]
    · simp [modFirst_coreF p f hf r]

theorem deleteObserver_leF (st : State) (r c tok : Nat) : AllLeF (deleteObserver st r c tok).res st.res := by
  unfold deleteObserver
  split
  · exact AllLeF.refl _
  · split
    · simp only [refDec_res]
      exact modRes_leF st r fun x => resLe_subsF x (SubsLeF.of_sublist (List.eraseP_sublist))
    · exact AllLeF.refl _

theorem touchObserver_leF (st : State) (c tok : Nat) : AllLeF (touchObserver st c tok).res st.res := by
  apply mapRes_leF; intro x; split
  · apply resLe_subsF; unfold SubsLeF
    rw [modFirst_coreF (matchST c tok) (fun s => { s with failCnt := 0 }) (fun s => rfl) x.subs]; exact List.Sublist.refl _
  · exact ResLeF.refl x

theorem deleteObserverRequest_leF (st : State) (r c tok key : Nat) : AllLeF (deleteObserverRequest st r c tok key).res st.res := by
  unfold deleteObserverRequest
  split
  · exact AllLeF.refl _
  · split
    · exact deleteObserver_leF ..
    · split
      · exact deleteObserver_leF ..
      · exact AllLeF.refl _

theorem foldl_leF {α : Type} (f : State → α → State) (hf : ∀ s x, AllLeF (f s x).res s.res) :
    ∀ (l : List α) (st : State), AllLeF (l.foldl f st).res st.res
  | [], st => AllLeF.refl _
  | x :: xs, st => by
    simp only [List.foldl_cons]
    exact (foldl_leF f hf xs (f st x)).trans (hf st x)

theorem removeFailedOne_leF (st : State) (x : Res) (c tok : Nat) : AllLeF (removeFailedOne st x c tok).res st.res := by
  unfold removeFailedOne
  split
  · exact AllLeF.refl _
  · split
    · exact (deleteObserver_leF ..).trans (by simp only [cancelAllMessages_res]; exact AllLeF.refl _)
    · apply modRes_leF; intro y; apply resLe_subsF; unfold SubsLeF
      rw [modFirst_coreF (matchST c tok) (fun s => { s with failCnt := (s.failCnt + 1) % 256 }) (fun s => rfl) y.subs]
      exact List.Sublist.refl _

theorem handleFailedNotify_leF (st : State) (c tok : Nat) : AllLeF (handleFailedNotify st c tok).res st.res := by
  unfold handleFailedNotify
  apply foldl_leF; intro s rid; split
  · exact removeFailedOne_leF ..
  · exact AllLeF.refl _

theorem cancelSent_leF (st : State) (c tok : Nat) : AllLeF (cancelSent st c tok).res st.res := by
  unfold cancelSent
  apply foldl_leF; intro s rid; split
  · exact (deleteObserver_leF ..).trans (by simp only [cancelAllMessages_res]; exact AllLeF.refl _)
  · exact AllLeF.refl _

theorem handleAck_leF (st : State) (c mid : Nat) : AllLeF (handleAck st c mid).res st.res := by
  unfold handleAck
  dsimp only
  split
  · simp only [rxSession_res]; exact AllLeF.refl _
  · simp only [refDec_res]; split
    · exact (touchObserver_leF ..).trans (by simp only [conDec_res, rxSession_res]; exact AllLeF.refl _)
    · simp only [conDec_res, rxSession_res]; exact AllLeF.refl _

theorem handleRst_leF (st : State) (c mid : Nat) : AllLeF (handleRst st c mid).res st.res := by
  unfold handleRst
  dsimp only
  split
  · simp only [refDec_res]
    exact (cancelSent_leF ..).trans (by simp only [conDec_res, rxSession_res]; exact AllLeF.refl _)
  · split
    · exact (deleteObserver_leF ..).trans (by simp only [conDec_res, rxSession_res]; exact AllLeF.refl _)
    · simp only [conDec_res, rxSession_res]; exact AllLeF.refl _

theorem sessionLost_leF (st : State) (c : Nat) : AllLeF (sessionLost st c).res st.res := by
  unfold sessionLost
  split
  · exact AllLeF.refl _
  · simp only [modSess_res]
    exact mapRes_leF st fun x => resLe_subsF x (SubsLeF.of_sublist List.filter_sublist)

theorem retransmit_leF (st : State) (q : QNode) : AllLeF (retransmit st q).1.res st.res := by
  unfold retransmit
  split
  · simp only [txStamp_res, modSess_res, conDec_res]; exact AllLeF.refl _
  · simp only [refDec_res, conDec_res]; exact handleFailedNotify_leF ..

theorem retransmitDue_leF : ∀ (fuel : Nat) (st : State), AllLeF (retransmitDue fuel st).1.res st.res
  | 0, st => AllLeF.refl _
  | fuel + 1, st => by
    unfold retransmitDue
    split
    · exact AllLeF.refl _
    · split
      · exact (retransmitDue_leF fuel _).trans (retransmit_leF { st with sendq := _ } _)
      · exact AllLeF.refl _


/-! ### the finer relation implies the coarse one -/
theorem core_coreF (s : Sub) : core (coreF s) = core s := rfl

theorem SubsLeF.le {a b : List Sub} (h : SubsLeF a b) : SubsLe a b := by
  unfold SubsLeF at h; unfold SubsLe
  have := h.map core
  simpa [List.map_map, Function.comp_def, core_coreF] using this

theorem ResLeF.le {a b : Res} (h : ResLeF a b) : ResLe a b :=
  ⟨h.id, h.alive, h.fCon, h.fNonAlways, h.dirty, h.pdirty, h.ver, h.observe, h.subs.le⟩

theorem AllLeF.le {a b : List Res} (h : AllLeF a b) : AllLe a b := All2.mono (fun h' => ResLeF.le h') h

/-- an entry of the smaller list is, up to `failCnt`, an entry of the larger one -/
theorem SubsLeF.mem {a b : List Sub} (h : SubsLeF a b) {s : Sub} (hs : s ∈ a) : ∃ s' ∈ b, coreF s' = coreF s := by
  have h1 : coreF s ∈ a.map coreF := List.mem_map_of_mem hs
  have h2 := h.subset h1
  obtain ⟨s', hs', he⟩ := List.mem_map.mp h2
  exact ⟨s', hs', he⟩

end Coap.Observe
