import CoapVerif.Model.PersistList
/- Helper lemmas for C17: the Observe counter of one resource (`Cnt`) and the value `roundUp` reloads. -/
namespace Coap.Persist

/-! ### arithmetic of `((s + f) / f) * f` -/

/-- `t := ((s + f) / f) * f` is the multiple of `f` with `s < t ≤ s + f` -/
theorem top_facts (s f : Nat) (hf : 0 < f) :
    (s + f) / f * f ≤ s + f ∧ s < (s + f) / f * f ∧ ((s + f) / f * f) % f = 0 := by
  refine ⟨Nat.div_mul_le_self _ _, ?_, Nat.mul_mod_left _ _⟩
  have h1 := Nat.div_add_mod (s + f) f
  have h2 := Nat.mod_lt (s + f) hf
  rw [Nat.mul_comm] at h1
  omega

/-- without 32-bit overflow the C expression is the plain rounding -/
theorem roundUp_eq (s f : Nat) (hf : 0 < f) (h : s + f < 2 ^ 32) :
    roundUp s f = mask24 ((s + f) / f * f - 1) := by
  obtain ⟨hA, hB, _⟩ := top_facts s f hf
  unfold roundUp
  rewrite [Nat.mod_eq_of_lt h]
  generalize (s + f) / f * f = t at *
  refine congrArg mask24 ?_
  omega

/-- the counter moves inside the window of the saved value when it does not reach a multiple of `f` -/
theorem top_step (s f obs : Nat) (hf : 0 < f) (h : obs ≤ (s + f) / f * f - 1) (hn : ¬ (obs + 1) % f = 0) :
    obs + 1 ≤ (s + f) / f * f - 1 := by
  obtain ⟨_, hB, hC⟩ := top_facts s f hf
  generalize (s + f) / f * f = t at *
  have hne : obs + 1 ≠ t := fun e => hn (e ▸ hC)
  omega

theorem le_top (s f : Nat) (hf : 0 < f) : s ≤ (s + f) / f * f - 1 := by
  have := (top_facts s f hf).2.1
  omega

/-! ### theorem 1: no wrap -/

theorem Cnt.step_inv (f : Nat) (hf : 0 < f) (c : Cnt) (h : Cnt.Inv f c) (e : CntEv)
    (hw : c.obs + 1 < 2 ^ 24) :
    Cnt.Inv f (Cnt.step f c e) ∧ (Cnt.step f c e).obs ≤ c.obs + 1 := by
  obtain ⟨h1, h2, h3⟩ := h
  have hn : nextObs c.obs = c.obs + 1 := by
    unfold nextObs mask24; exact Nat.mod_eq_of_lt hw
  cases e with
  | notify =>
    simp only [Cnt.step, hn]
    split
    · dsimp only [Cnt.Inv]
      refine ⟨⟨Nat.le_refl _, le_top _ f hf, ?_⟩, Nat.le_refl _⟩
      intro v hv
      simp only [List.mem_append, List.mem_singleton] at hv
      rcases hv with hv | hv
      · have := h3 v hv; omega
      · omega
    · rename_i hm
      dsimp only [Cnt.Inv]
      refine ⟨⟨by omega, top_step _ f _ hf h2 hm, ?_⟩, Nat.le_refl _⟩
      intro v hv
      simp only [List.mem_append, List.mem_singleton] at hv
      rcases hv with hv | hv
      · have := h3 v hv; omega
      · omega
  | register =>
    simp only [Cnt.step]
    dsimp only [Cnt.Inv]
    refine ⟨⟨Nat.le_refl _, le_top _ f hf, ?_⟩, by omega⟩
    intro v hv
    simp only [List.mem_append, List.mem_singleton] at hv
    rcases hv with hv | hv
    · exact h3 v hv
    · omega

theorem Cnt.run_cons (f : Nat) (c : Cnt) (e : CntEv) (r : List CntEv) :
    Cnt.run f c (e :: r) = Cnt.run f (Cnt.step f c e) r := rfl

theorem Cnt.run_snoc (f : Nat) (c : Cnt) (evs : List CntEv) (e : CntEv) :
    Cnt.run f c (evs ++ [e]) = Cnt.step f (Cnt.run f c evs) e := by
  unfold Cnt.run; rw [List.foldl_append]; rfl

theorem Cnt.run_inv (f : Nat) (hf : 0 < f) (evs : List CntEv) (c0 : Cnt) (h0 : Cnt.Inv f c0)
    (hw : c0.obs + evs.length < 2 ^ 24) :
    Cnt.Inv f (Cnt.run f c0 evs) ∧ (Cnt.run f c0 evs).obs ≤ c0.obs + evs.length := by
  induction evs generalizing c0 with
  | nil => exact ⟨h0, Nat.le_refl _⟩
  | cons e r ih =>
    simp only [List.length_cons] at hw ⊢
    obtain ⟨hi, ho⟩ := Cnt.step_inv f hf c0 h0 e (by omega)
    rw [Cnt.run_cons]
    obtain ⟨hi', ho'⟩ := ih (Cnt.step f c0 e) hi (by omega)
    exact ⟨hi', by omega⟩

theorem Cnt.sent_lt_first (f : Nat) (hf : 0 < f) (c0 : Cnt) (h0 : Cnt.Inv f c0) (evs : List CntEv)
    (hw : c0.obs + evs.length + f < 2 ^ 24) :
    ∀ v ∈ (Cnt.run f c0 evs).sent, v < nextObs (roundUp (Cnt.run f c0 evs).saved f) := by
  obtain ⟨⟨h1, h2, h3⟩, ho⟩ := Cnt.run_inv f hf evs c0 h0 (by omega)
  intro v hv
  have hv' := h3 v hv
  generalize Cnt.run f c0 evs = c at *
  obtain ⟨hA, hB, _⟩ := top_facts c.saved f hf
  rw [roundUp_eq _ _ hf (by omega)]
  unfold nextObs mask24
  generalize (c.saved + f) / f * f = t at *
  omega

/-! ### theorem 2: a crash around the next event -/

theorem Cnt.step_sent (f : Nat) (c : Cnt) (e : CntEv) : ∀ v ∈ c.sent, v ∈ (Cnt.step f c e).sent := by
  intro v hv
  cases e with
  | notify =>
    simp only [Cnt.step]
    split <;> exact List.mem_append_left _ hv
  | register => exact List.mem_append_left _ hv

theorem Cnt.sent_lt_first_crash (f : Nat) (hf : 0 < f) (c0 : Cnt) (h0 : Cnt.Inv f c0) (evs : List CntEv)
    (e : CntEv) (hw : c0.obs + (evs.length + 1) + f < 2 ^ 24) (s : Nat)
    (hs : s = (Cnt.run f c0 evs).saved ∨ s = (Cnt.run f c0 (evs ++ [e])).saved) :
    ∀ v ∈ (Cnt.run f c0 evs).sent, v < nextObs (roundUp s f) := by
  intro v hv
  rcases hs with hs | hs
  · subst hs
    exact Cnt.sent_lt_first f hf c0 h0 evs (by omega) v hv
  · subst hs
    refine Cnt.sent_lt_first f hf c0 h0 (evs ++ [e]) (by simp only [List.length_append, List.length_singleton]; omega) v ?_
    rw [Cnt.run_snoc]
    exact Cnt.step_sent f _ e v hv

/-! ### theorem 3: with the 24-bit wrap -/

theorem Cnt.step_invW (f : Nat) (hf : 0 < f) (c : Cnt) (h : Cnt.InvW f c) (e : CntEv) :
    Cnt.InvW f (Cnt.step f c e) := by
  obtain ⟨hb, h1, h2, h3⟩ := h
  cases e with
  | notify =>
    by_cases hwrap : c.obs + 1 = 2 ^ 24
    · have hn : nextObs c.obs = 0 := by
        unfold nextObs mask24; rewrite [hwrap]; exact Nat.mod_self _
      simp only [Cnt.step, hn, Nat.zero_mod, if_true]
      dsimp only [Cnt.InvW]
      refine ⟨by omega, Nat.le_refl _, Nat.zero_le _, ?_⟩
      intro v hv
      simp only [List.mem_singleton] at hv
      omega
    · have hw : c.obs + 1 < 2 ^ 24 := by omega
      have hn : nextObs c.obs = c.obs + 1 := by
        unfold nextObs mask24; exact Nat.mod_eq_of_lt hw
      simp only [Cnt.step, hn]
      split
      · dsimp only [Cnt.InvW]
        refine ⟨hw, Nat.le_refl _, le_top _ f hf, ?_⟩
        intro v hv
        simp only [List.mem_singleton] at hv
        omega
      · rename_i hm
        dsimp only [Cnt.InvW]
        refine ⟨hw, by omega, top_step _ f _ hf h2 hm, ?_⟩
        intro v hv
        simp only [List.mem_append, List.mem_singleton] at hv
        rcases hv with hv | hv
        · have := h3 v hv; omega
        · omega
  | register =>
    simp only [Cnt.step]
    dsimp only [Cnt.InvW]
    refine ⟨hb, Nat.le_refl _, le_top _ f hf, ?_⟩
    intro v hv
    simp only [List.mem_singleton] at hv
    omega

theorem Cnt.run_invW (f : Nat) (hf : 0 < f) (evs : List CntEv) (c0 : Cnt) (h0 : Cnt.InvW f c0) :
    Cnt.InvW f (Cnt.run f c0 evs) := by
  induction evs generalizing c0 with
  | nil => exact h0
  | cons e r ih =>
    rw [Cnt.run_cons]
    exact ih _ (Cnt.step_invW f hf c0 h0 e)

theorem Cnt.recent_serial_lt (f : Nat) (hf : 0 < f) (hf2 : f ≤ 2 ^ 22) (c0 : Cnt) (h0 : Cnt.InvW f c0)
    (evs : List CntEv) :
    ∀ v ∈ (Cnt.run f c0 evs).recent, serialLt v (nextObs (roundUp (Cnt.run f c0 evs).saved f)) := by
  obtain ⟨hb, h1, h2, h3⟩ := Cnt.run_invW f hf evs c0 h0
  intro v hv
  obtain ⟨hv1, hv2⟩ := h3 v hv
  generalize Cnt.run f c0 evs = c at *
  obtain ⟨hA, hB, _⟩ := top_facts c.saved f hf
  rw [roundUp_eq _ _ hf (by omega)]
  unfold nextObs mask24 serialLt
  generalize (c.saved + f) / f * f = t at *
  omega

end Coap.Persist
