import CoapVerif.Lemmas.ObserveInv
/- C11 (5) "the last state is always eventually notified": `observe_pending` bookkeeping (no lost wake-up) as a global invariant,
   and the state of the notify loop at the turn of a given entry (for the explicit fairness hypothesis). -/
namespace Coap.Observe
open Coap.Generated

/-! ### `context->observe_pending`: who touches it -/
@[simp] theorem setSess_pending (st : State) (c : Nat) (s : Sess) : (setSess st c s).pending = st.pending := rfl
@[simp] theorem modSess_pending (st : State) (c : Nat) (f : Sess → Sess) : (modSess st c f).pending = st.pending := rfl
@[simp] theorem rxSession_pending (st : State) (c : Nat) : (rxSession st c).pending = st.pending := rfl
@[simp] theorem refInc_pending (st : State) (c : Nat) : (refInc st c).pending = st.pending := rfl
@[simp] theorem refDec_pending (st : State) (c : Nat) : (refDec st c).pending = st.pending := rfl
@[simp] theorem conDec_pending (st : State) (c : Nat) : (conDec st c).pending = st.pending := rfl
@[simp] theorem txStamp_pending (st : State) (c : Nat) : (txStamp st c).pending = st.pending := rfl
@[simp] theorem newMid_pending (st : State) (c : Nat) : (newMid st c).2.pending = st.pending := rfl
@[simp] theorem addNote_pending (st : State) (c : Nat) (n : Note) : (addNote st c n).pending = st.pending := rfl
@[simp] theorem cancelAllMessages_pending (st : State) (c tok : Nat) : (cancelAllMessages st c tok).pending = st.pending := rfl
@[simp] theorem reclaim_pending (st : State) : (reclaim st).pending = st.pending := rfl
@[simp] theorem mapRes_pending (st : State) (f : Res → Res) : (mapRes st f).pending = st.pending := rfl
@[simp] theorem modRes_pending (st : State) (r : Nat) (f : Res → Res) : (modRes st r f).pending = st.pending := rfl
@[simp] theorem touchObserver_pending (st : State) (c tok : Nat) : (touchObserver st c tok).pending = st.pending := rfl
@[simp] theorem sendNote_pending (st : State) (c tok code : Nat) (obs : Option Nat) (isCon : Bool) (mid rid ver : Nat) :
    (sendNote st c tok code obs isCon mid rid ver).1.pending = st.pending := by
  unfold sendNote; split <;> rfl

@[simp] theorem deleteObserver_pending (st : State) (r c tok : Nat) : (deleteObserver st r c tok).pending = st.pending := by
  unfold deleteObserver; split
  · rfl
  · split <;> rfl

@[simp] theorem addObserver_pending (st : State) (r c tok key : Nat) : (addObserver st r c tok key).pending = st.pending := by
  unfold addObserver; split
  · rfl
  · split
    · rfl
    · dsimp only; split <;> rfl

@[simp] theorem deleteObserverRequest_pending (st : State) (r c tok key : Nat) :
    (deleteObserverRequest st r c tok key).pending = st.pending := by
  unfold deleteObserverRequest; split
  · rfl
  · split
    · simp
    · split
      · simp
      · rfl

theorem foldl_pending {α : Type} (f : State → α → State) (hf : ∀ s x, (f s x).pending = s.pending) :
    ∀ (l : List α) (st : State), (l.foldl f st).pending = st.pending
  | [], _ => rfl
  | x :: xs, st => by simp only [List.foldl_cons]; rw [foldl_pending f hf xs, hf]

@[simp] theorem removeFailedOne_pending (st : State) (x : Res) (c tok : Nat) : (removeFailedOne st x c tok).pending = st.pending := by
  unfold removeFailedOne; split
  · rfl
  · split
    · simp
    · rfl

@[simp] theorem handleFailedNotify_pending (st : State) (c tok : Nat) : (handleFailedNotify st c tok).pending = st.pending := by
  unfold handleFailedNotify
  apply foldl_pending; intro s rid; split
  · simp
  · rfl

@[simp] theorem cancelSent_pending (st : State) (c tok : Nat) : (cancelSent st c tok).pending = st.pending := by
  unfold cancelSent
  apply foldl_pending; intro s rid; split
  · simp
  · rfl

@[simp] theorem handleAck_pending (st : State) (c mid : Nat) : (handleAck st c mid).pending = st.pending := by
  unfold handleAck; dsimp only; split
  · rfl
  · simp only [refDec_pending]; split <;> simp

@[simp] theorem handleRst_pending (st : State) (c mid : Nat) : (handleRst st c mid).pending = st.pending := by
  unfold handleRst; dsimp only; split
  · simp
  · split
    · simp
    · rfl

@[simp] theorem sessionLost_pending (st : State) (c : Nat) : (sessionLost st c).pending = st.pending := by
  unfold sessionLost; split <;> rfl

@[simp] theorem retransmit_pending (st : State) (q : QNode) : (retransmit st q).1.pending = st.pending := by
  unfold retransmit; split
  · rfl
  · simp

theorem retransmitDue_pending : ∀ (fuel : Nat) (st : State), (retransmitDue fuel st).1.pending = st.pending
  | 0, _ => rfl
  | fuel + 1, st => by
    unfold retransmitDue
    split
    · rfl
    · split
      · dsimp only; rw [retransmitDue_pending fuel, retransmit_pending]
      · rfl

theorem releaseAll_pending : ∀ (l : List Sub) (st : State), (releaseAll st l).pending = st.pending
  | [], _ => rfl
  | s :: rest, st => by unfold releaseAll; rw [releaseAll_pending rest]; rfl
/-! ### no lost wake-up: whoever still has something to be told keeps `observe_pending` set -/
/-- some resource is dirty, or some entry of an alive resource is -/
def NeedsWalk (st : State) : Prop :=
  ∃ y ∈ st.res, y.dirty = true ∨ (y.alive = true ∧ ∃ o ∈ y.subs, o.dirty = true)

def WakeInv (st : State) : Prop := NeedsWalk st → st.pending = true

/-- a dirty entry keeps its resource `partiallydirty` -/
def PdAll (st : State) : Prop := ∀ y ∈ st.res, ∀ o ∈ y.subs, o.dirty = true → y.pdirty = true

/-- a primitive that never clears `observe_pending` and creates no new need without setting it -/
def WakeStep (st st' : State) : Prop :=
  (st.pending = true → st'.pending = true) ∧ (NeedsWalk st' → NeedsWalk st ∨ st'.pending = true)

theorem WakeStep.refl (st : State) : WakeStep st st := ⟨id, Or.inl⟩
theorem WakeStep.trans {a b c : State} (h1 : WakeStep a b) (h2 : WakeStep b c) : WakeStep a c := by
  refine ⟨fun h => h2.1 (h1.1 h), ?_⟩
  intro hn
  rcases h2.2 hn with h | h
  · rcases h1.2 h with h' | h'
    · exact Or.inl h'
    · exact Or.inr (h2.1 h')
  · exact Or.inr h

theorem WakeStep.wake {st st' : State} (h : WakeStep st st') (hw : WakeInv st) : WakeInv st' := by
  intro hn
  rcases h.2 hn with h' | h'
  · exact h.1 (hw h')
  · exact h'

theorem needsWalk_of_le {a b : State} (h : AllLeF a.res b.res) (hn : NeedsWalk a) : NeedsWalk b := by
  obtain ⟨y', hy', hd⟩ := hn
  obtain ⟨y, hy, hle⟩ := All2.exists_right h y' hy'
  refine ⟨y, hy, ?_⟩
  rcases hd with hd | ⟨hal, o', ho', hod⟩
  · exact Or.inl (hle.dirty ▸ hd)
  · obtain ⟨o1, ho1, hc⟩ := hle.mem_sub ho'
    exact Or.inr ⟨hle.alive ▸ hal, o1, ho1, (coreF_fields hc).2.2.2.1 ▸ hod⟩

theorem WakeStep.of_le {st st' : State} (h : AllLeF st'.res st.res) (hp : st'.pending = st.pending) : WakeStep st st' :=
  ⟨fun h' => hp ▸ h', fun hn => Or.inl (needsWalk_of_le h hn)⟩

theorem needsWalk_of_map {st : State} {f : Res → Res}
    (hf : ∀ y ∈ st.res, ((f y).dirty = true → y.dirty = true) ∧ ((f y).alive = true → y.alive = true) ∧
      ∀ o ∈ (f y).subs, o.dirty = true → ∃ o1 ∈ y.subs, o1.dirty = true)
    {st' : State} (hres : st'.res = st.res.map f) (hn : NeedsWalk st') : NeedsWalk st := by
  obtain ⟨y', hy', hd⟩ := hn
  rw [hres] at hy'
  obtain ⟨y, hy, rfl⟩ := List.mem_map.mp hy'
  obtain ⟨h1, h2, h3⟩ := hf y hy
  refine ⟨y, hy, ?_⟩
  rcases hd with hd | ⟨hal, o', ho', hod⟩
  · exact Or.inl (h1 hd)
  · exact Or.inr ⟨h2 hal, h3 o' ho' hod⟩

theorem wakeStep_addObserver (st : State) (r c tok key : Nat) (hid : IdsNodup st) : WakeStep st (addObserver st r c tok key) := by
  refine ⟨fun h => by simpa using h, fun hn => Or.inl ?_⟩
  obtain ⟨m, hres⟩ := addObserver_res st r c tok key hid
  refine needsWalk_of_map ?_ hres hn
  intro y _
  unfold addR
  split
  · have hf := addToRes_fields y c tok key m
    refine ⟨fun h => hf.2.2.2.2.1 ▸ h, fun h => hf.2.1 ▸ h, ?_⟩
    intro o ho hod
    rcases mem_addToRes ho with rfl | ho1
    · cases hod
    · exact ⟨o, ho1, hod⟩
  · exact ⟨id, id, fun o ho hod => ⟨o, ho, hod⟩⟩

theorem wakeStep_change (st : State) (r : Nat) : WakeStep st (change st r) := by
  unfold change
  split
  · exact WakeStep.refl _
  · split
    · exact WakeStep.refl _
    · exact ⟨fun _ => rfl, fun _ => Or.inr rfl⟩

theorem wakeStep_errFlag (st : State) (r : Nat) (b : Bool) : WakeStep st (modRes st r fun y => { y with err := b }) := by
  refine ⟨id, fun hn => Or.inl ?_⟩
  refine needsWalk_of_map (f := fun x => if x.id = r then { x with err := b } else x) ?_ rfl hn
  intro y _
  split
  · exact ⟨id, id, fun o ho hod => ⟨o, ho, hod⟩⟩
  · exact ⟨id, id, fun o ho hod => ⟨o, ho, hod⟩⟩

theorem wakeStep_request (st : State) (o : Option Nat) (c r tok key : Nat) (con : Bool) (mid : Nat) (hid : IdsNodup st) :
    WakeStep st (request st o c r tok key con mid).1 := by
  unfold request
  dsimp only
  have h0 : WakeStep st (rxSession st c) := WakeStep.of_le (AllLeF.refl _) rfl
  split
  · exact WakeStep.of_le (AllLeF.refl _) rfl
  · have h1 : WakeStep st (match o with
               | some 0 => touchObserver (addObserver (rxSession st c) r c tok key) c tok
               | some 1 => deleteObserverRequest (rxSession st c) r c tok key
               | _ => rxSession st c) := by
      split
      · exact (h0.trans (wakeStep_addObserver _ r c tok key hid)).trans (WakeStep.of_le (touchObserver_leF ..) rfl)
      · exact h0.trans (WakeStep.of_le (deleteObserverRequest_leF ..) (by simp))
      · exact h0
    split
    · refine h1.trans (WakeStep.of_le ?_ ?_)
      · simp only [txStamp_res]; split
        · exact deleteObserver_leF ..
        · exact AllLeF.refl _
      · simp only [txStamp_pending]; split
        · exact deleteObserver_pending ..
        · rfl
    · exact h1.trans (WakeStep.of_le (AllLeF.refl _) rfl)

/-! the notify loop -/
theorem notifyOne_pending_mono (d : Bool) (r : Res) (o : Sub) (st : State) (h : st.pending = true) :
    (notifyOne d r o st).st.pending = true := by
  unfold notifyOne
  split
  · rfl
  · split
    · rfl
    · dsimp only
      split
      · simpa using h
      · split <;> simpa using h

theorem notifyOne_dirty_pending (d : Bool) (r : Res) (o : Sub) (st : State) :
    ∀ o', (notifyOne d r o st).sub = some o' → o'.dirty = true → (notifyOne d r o st).st.pending = true := by
  unfold notifyOne
  split
  · intro _ _ _; rfl
  · split
    · intro _ _ _; rfl
    · dsimp only
      split
      · intro o' h hd; simp at h; subst h; cases hd
      · split
        · intro o' h; cases h
        · intro o' h hd; simp at h; subst h; cases hd

theorem notifyLoop_pending (d : Bool) (r : Res) : ∀ (subs : List Sub) (st : State),
    (st.pending = true → (notifyLoop d r subs st).st.pending = true) ∧
    (∀ o' ∈ (notifyLoop d r subs st).subs, o'.dirty = true → (notifyLoop d r subs st).st.pending = true)
  | [], st => ⟨id, fun o' ho' => by cases ho'⟩
  | o :: rest, st => by
    unfold notifyLoop
    dsimp only
    obtain ⟨ih1, ih2⟩ := notifyLoop_pending d r rest (notifyOne d r o st).st
    refine ⟨fun h => ih1 (notifyOne_pending_mono d r o st h), ?_⟩
    intro o' ho' hd
    rcases List.mem_append.mp ho' with ho' | ho'
    · cases hs : (notifyOne d r o st).sub with
      | none => rw [hs] at ho'; simp at ho'
      | some o'' =>
        rw [hs] at ho'; simp at ho'; subst ho'
        exact ih1 (notifyOne_dirty_pending d r o st o' hs hd)
    · exact ih2 o' ho' hd

theorem notifyRes_pending (d : Bool) (r : Res) (st : State) (hpd : ∀ o ∈ r.subs, o.dirty = true → r.pdirty = true) :
    (st.pending = true → (notifyRes d r st).2.1.pending = true) ∧ (notifyRes d r st).1.dirty = false ∧
    ((notifyRes d r st).1.alive = true → ∀ o' ∈ (notifyRes d r st).1.subs, o'.dirty = true → (notifyRes d r st).2.1.pending = true) := by
  unfold notifyRes
  by_cases h : (r.alive && (r.dirty || r.pdirty)) = true
  · rw [if_pos h]
    obtain ⟨h1, h2⟩ := notifyLoop_pending d r r.subs st
    exact ⟨h1, rfl, fun _ => h2⟩
  · rw [if_neg h]
    refine ⟨id, rfl, ?_⟩
    intro hal o' ho' hd
    exfalso
    dsimp only at hal ho'
    have := hpd o' ho' hd
    simp [hal, this] at h

theorem notifyAll_pending : ∀ (rs : List Res) (st : State), (∀ y ∈ rs, ∀ o ∈ y.subs, o.dirty = true → y.pdirty = true) →
    (st.pending = true → (notifyAll rs st).2.1.pending = true) ∧
    (∀ y' ∈ (notifyAll rs st).1, y'.dirty = false ∧
      (y'.alive = true → ∀ o' ∈ y'.subs, o'.dirty = true → (notifyAll rs st).2.1.pending = true))
  | [], st, _ => ⟨id, fun y' hy' => by cases hy'⟩
  | r :: rest, st, hpd => by
    unfold notifyAll
    dsimp only
    obtain ⟨h1, h2, h3⟩ := notifyRes_pending false r st (hpd r (List.mem_cons_self ..))
    obtain ⟨ih1, ih2⟩ := notifyAll_pending rest (notifyRes false r st).2.1 (fun y hy => hpd y (List.mem_cons_of_mem _ hy))
    refine ⟨fun h => ih1 (h1 h), ?_⟩
    intro y' hy'
    cases hy' with
    | head => exact ⟨h2, fun hal o' ho' hd => ih1 (h3 hal o' ho' hd)⟩
    | tail _ hy'' => exact ih2 y' hy''

theorem checkNotify_wake (st : State) (hw : WakeInv st) (hpd : PdAll st) : WakeInv (checkNotify st).1 := by
  unfold checkNotify
  by_cases hp : st.pending = true
  · rw [if_pos hp]
    dsimp only
    obtain ⟨_, h2⟩ := notifyAll_pending st.res { st with pending := false } hpd
    intro hn
    obtain ⟨y', hy', hd⟩ := hn
    obtain ⟨h3, h4⟩ := h2 y' hy'
    rcases hd with hd | ⟨hal, o', ho', hod⟩
    · rw [h3] at hd; cases hd
    · exact h4 hal o' ho' hod
  · rw [if_neg hp]
    exact hw
def PdInv (y : Res) : Prop := ∀ o ∈ y.subs, o.dirty = true → y.pdirty = true

theorem PdInv.micro {A : Nat → Nat → Nat → Prop} (y : Res) (o : List Out) (y' : Res) (h : PdInv y) (hm : Micro A y o y') : PdInv y' := by
  cases hm with
  | le hle =>
    intro o' ho' hod
    obtain ⟨o1, ho1, hc⟩ := hle.mem_sub ho'
    rw [hle.pdirty]
    exact h o1 ho1 ((coreF_fields hc).2.2.2.1 ▸ hod)
  | errFlag b => exact h
  | change => exact h
  | register c' tok' key m out =>
    have hf := addToRes_fields y c' tok' key m
    intro o' ho' hod
    rw [hf.2.2.2.2.2.1]
    rcases mem_addToRes ho' with rfl | ho1
    · cases hod
    · exact h o' ho1 hod
  | resp out => exact h
  | notify hal hv =>
    intro o' ho' hod
    obtain ⟨o1, ho1, pd1, po, hvis, _, hpd⟩ := hv.mem_sub' o' ho'
    cases hvis with
    | skip hyd hod1 => rw [hod1] at hod; cases hod
    | defer => exact hpd rfl
    | bye _ _ _ hd => cases hd
    | sent => cases hod
  | bye pd' hal hv => intro o' ho'; cases ho'
  | clean hc => exact h
  | delete pd => intro o' ho'; cases ho'

theorem pdAll_of_rel {A : Nat → Nat → Nat → Prop} {st' st : State} {outs : List Out} (h : StepRel A st' st outs)
    (hp : PdAll st) : PdAll st' := by
  intro y' hy'
  obtain ⟨y, hy, ht⟩ := All2.exists_right h y' hy'
  exact ht.preserves (Q := fun y _ => PdInv y) (fun y o y' _ hq hm => PdInv.micro y o y' hq hm) [] (hp y hy)

theorem io_wake (st : State) (hid : IdsNodup st) (hw : WakeInv st) (hpd : PdAll st) : WakeInv (io st).1 ∧ PdAll (io st).1 := by
  refine ⟨?_, pdAll_of_rel (io_rel (fun _ _ _ => False) st hid) hpd⟩
  unfold io
  dsimp only
  have h1 := checkNotify_wake st hw hpd
  have h2 : WakeStep (checkNotify st).1 (reclaim (retransmitDue ((checkNotify st).1.sendq.length + 1) (checkNotify st).1).1) :=
    WakeStep.of_le (by simp only [reclaim_res]; exact retransmitDue_leF _ _) (by simp only [reclaim_pending]; exact retransmitDue_pending _ _)
  exact h2.wake h1

theorem notifyRes_pending_mono (d : Bool) (r : Res) (st : State) (h : st.pending = true) : (notifyRes d r st).2.1.pending = true := by
  unfold notifyRes
  split
  · exact (notifyLoop_pending d r r.subs st).1 h
  · exact h

theorem wakeStep_deleteResource (st : State) (r : Nat) : WakeStep st (deleteResource st r).1 := by
  unfold deleteResource
  split
  · exact WakeStep.refl _
  · dsimp only
    have hc := wakeStep_change st r
    split
    · exact hc
    · rename_i x1 _
      refine hc.trans ⟨?_, ?_⟩
      · intro h
        simp only [modRes_pending]
        rw [releaseAll_pending]
        exact notifyRes_pending_mono true x1 _ h
      · intro hn
        left
        refine needsWalk_of_map (f := fun x => if x.id = r then
          { x with alive := false, subs := [], dirty := false, pdirty := (notifyRes true x1 (change st r)).1.pdirty } else x) ?_ ?_ hn
        · intro y _
          split
          · exact ⟨(fun h => by cases h), (fun h => by cases h), (fun o ho => by cases ho)⟩
          · exact ⟨id, id, fun o ho hod => ⟨o, ho, hod⟩⟩
        · show (modRes _ r _).res = _
          unfold modRes mapRes
          dsimp only
          rw [releaseAll_res, notifyRes_res]

/-- both halves of the wake-up invariant -/
def Wake (st : State) : Prop := WakeInv st ∧ PdAll st

theorem rxThenIo_wake (p : State × List Out) (hid : IdsNodup p.1) (h : Wake p.1) : Wake (rxThenIo p).1 := by
  unfold rxThenIo
  exact io_wake p.1 hid h.1 h.2

theorem step_wake (st : State) (e : Event) (hid : IdsNodup st) (h : Wake st) : Wake (step st e).1 := by
  obtain ⟨hw, hpd⟩ := h
  cases e with
  | reg c r tok key con mid =>
    exact rxThenIo_wake _ (request_idsNodup st _ c r tok key con mid hid)
      ⟨(wakeStep_request st _ c r tok key con mid hid).wake hw, pdAll_of_rel (request_rel_reg st c r tok key con mid hid) hpd⟩
  | can c r tok key con mid =>
    exact rxThenIo_wake _ (request_idsNodup st _ c r tok key con mid hid)
      ⟨(wakeStep_request st _ c r tok key con mid hid).wake hw,
       pdAll_of_rel (request_rel_other (fun _ _ _ => False) st _ c r tok key con mid (by decide)) hpd⟩
  | get c r tok key con mid =>
    exact rxThenIo_wake _ (request_idsNodup st _ c r tok key con mid hid)
      ⟨(wakeStep_request st _ c r tok key con mid hid).wake hw,
       pdAll_of_rel (request_rel_other (fun _ _ _ => False) st _ c r tok key con mid (by decide)) hpd⟩
  | chg r => exact ⟨(wakeStep_change st r).wake hw, pdAll_of_rel (change_rel (fun _ _ _ => False) st r) hpd⟩
  | adv ms => exact io_wake _ hid hw hpd
  | ack c n =>
    unfold step; dsimp only
    split
    · split
      · refine rxThenIo_wake _ ?_ ⟨(WakeStep.of_le (handleAck_leF ..) (by simp)).wake hw,
          pdAll_of_rel (StepRel.of_le_nil (A := fun _ _ _ => False) (handleAck_leF ..)) hpd⟩
        unfold IdsNodup resIds; dsimp only; rw [(handleAck_leF ..).le.idLe.ids]; exact hid
      · exact ⟨hw, hpd⟩
    · exact ⟨hw, hpd⟩
  | rst c n =>
    unfold step; dsimp only
    split
    · refine rxThenIo_wake _ ?_ ⟨(WakeStep.of_le (handleRst_leF ..) (by simp)).wake hw,
        pdAll_of_rel (StepRel.of_le_nil (A := fun _ _ _ => False) (handleRst_leF ..)) hpd⟩
      unfold IdsNodup resIds; dsimp only; rw [(handleRst_leF ..).le.idLe.ids]; exact hid
    · exact ⟨hw, hpd⟩
  | err r b => exact ⟨(wakeStep_errFlag st r b).wake hw, pdAll_of_rel (errFlag_rel (fun _ _ _ => False) st r b) hpd⟩
  | lost c =>
    exact ⟨(WakeStep.of_le (sessionLost_leF ..) (by simp)).wake hw,
      pdAll_of_rel (StepRel.of_le_nil (A := fun _ _ _ => False) (sessionLost_leF ..)) hpd⟩
  | del r => exact ⟨(wakeStep_deleteResource st r).wake hw, pdAll_of_rel (deleteResource_rel (fun _ _ _ => False) st r hid) hpd⟩

theorem run_wake (st : State) (evs : List Event) (hid : IdsNodup st) (h : Wake st) : Wake (run st evs).1 := by
  induction evs generalizing st with
  | nil => exact h
  | cons e es ih => rw [run_cons]; exact ih _ (step_idsNodup st e hid) (step_wake st e hid h)
/-! ### the state the loop is in when it reaches a given entry -/
theorem notifyLoop_append (d : Bool) (r : Res) : ∀ (a b : List Sub) (st : State),
    (notifyLoop d r (a ++ b) st).st = (notifyLoop d r b (notifyLoop d r a st).st).st ∧
    (notifyLoop d r (a ++ b) st).outs = (notifyLoop d r a st).outs ++ (notifyLoop d r b (notifyLoop d r a st).st).outs
  | [], b, st => ⟨rfl, rfl⟩
  | o :: a, b, st => by
    obtain ⟨h1, h2⟩ := notifyLoop_append d r a b (notifyOne d r o st).st
    constructor
    · simp only [List.cons_append, notifyLoop]; exact h1
    · simp only [List.cons_append, notifyLoop, h2, List.append_assoc]

theorem notifyAll_append : ∀ (a b : List Res) (st : State),
    (notifyAll (a ++ b) st).2.1 = (notifyAll b (notifyAll a st).2.1).2.1 ∧
    (notifyAll (a ++ b) st).2.2 = (notifyAll a st).2.2 ++ (notifyAll b (notifyAll a st).2.1).2.2
  | [], b, st => ⟨rfl, rfl⟩
  | r :: a, b, st => by
    obtain ⟨h1, h2⟩ := notifyAll_append a b (notifyRes false r st).2.1
    constructor
    · simp only [List.cons_append, notifyAll]; exact h1
    · simp only [List.cons_append, notifyAll, h2, List.append_assoc]

/-- the state in which coap_check_notify reaches entry `o` = the one after `spre` in the list of resource `y` = the one after `pre`
    in the table -/
def turnState (st : State) (pre : List Res) (y : Res) (spre : List Sub) : State :=
  (notifyLoop false y spre (notifyAll pre { st with pending := false }).2.1).st

/-- what one I/O step writes contains what the visit of that entry writes -/
theorem io_outs_of_turn (st : State) (pre post : List Res) (y : Res) (spre spost : List Sub) (o : Sub)
    (hres : st.res = pre ++ y :: post) (hsubs : y.subs = spre ++ o :: spost) (hp : st.pending = true) (hal : y.alive = true)
    (hwalk : y.dirty = true ∨ y.pdirty = true) :
    ∀ out ∈ (notifyOne false y o (turnState st pre y spre)).outs, out ∈ (io st).2 := by
  intro out ho
  unfold io
  dsimp only
  apply List.mem_append_left
  unfold checkNotify
  rw [if_pos hp]
  dsimp only
  rw [hres, (notifyAll_append pre (y :: post) _).2]
  apply List.mem_append_right
  unfold notifyAll
  dsimp only
  apply List.mem_append_left
  unfold notifyRes
  have hc : (y.alive && (y.dirty || y.pdirty)) = true := by
    rcases hwalk with h | h <;> simp [hal, h]
  rw [if_pos hc]
  dsimp only
  rw [hsubs, (notifyLoop_append false y spre (o :: spost) _).2]
  apply List.mem_append_right
  unfold notifyLoop
  dsimp only
  apply List.mem_append_left
  unfold turnState at ho
  rw [hres] at ho
  exact ho
theorem wake_init (res : List Res) (stTicks : Nat) (h : ∀ y ∈ res, y.subs = [] ∧ y.dirty = false) : Wake (init res stTicks) := by
  refine ⟨?_, ?_⟩
  · intro hn
    obtain ⟨y, hy, hd⟩ := hn
    obtain ⟨h1, h2⟩ := h y hy
    rcases hd with hd | ⟨_, o, ho, _⟩
    · rw [h2] at hd; cases hd
    · rw [h1] at ho; cases ho
  · intro y hy o ho
    rw [(h y hy).1] at ho; cases ho

theorem liveInv_init (res : List Res) (h : ∀ y ∈ res, y.subs = []) : ∀ y ∈ res, LiveInv y [] := by
  intro y hy
  refine ⟨?_, ?_⟩
  · intro _ _ o ho; rw [h y hy] at ho; cases ho
  · intro o ho; rw [h y hy] at ho; cases ho

/-! ### frame: a walk touches only the sessions of the entries it sends to -/
theorem modSess_sess_ne (st : State) (c' : Nat) (f : Sess → Sess) (c : Nat) (h : c ≠ c') : (modSess st c' f).sess c = st.sess c := by
  unfold modSess setSess; simp [h]

@[simp] theorem modSess_now (st : State) (c : Nat) (f : Sess → Sess) : (modSess st c f).now = st.now := rfl

theorem sendNote_frame (st : State) (c' tok code : Nat) (obs : Option Nat) (isCon : Bool) (mid rid ver c : Nat) (h : c ≠ c') :
    (sendNote st c' tok code obs isCon mid rid ver).1.sess c = st.sess c ∧ (sendNote st c' tok code obs isCon mid rid ver).1.now = st.now := by
  unfold sendNote
  split
  · dsimp only
    refine ⟨?_, rfl⟩
    rw [modSess_sess_ne _ _ _ _ h]
    show (txStamp st c').sess c = _
    exact modSess_sess_ne _ _ _ _ h
  · refine ⟨?_, rfl⟩
    show (txStamp st c').sess c = _
    exact modSess_sess_ne _ _ _ _ h

theorem notifyOne_frame (d : Bool) (r : Res) (o : Sub) (st : State) (c : Nat)
    (h : o.sess ≠ c ∨ (r.dirty = false ∧ o.dirty = false)) :
    (notifyOne d r o st).st.sess c = st.sess c ∧ (notifyOne d r o st).st.now = st.now := by
  unfold notifyOne
  split
  · exact ⟨rfl, rfl⟩
  · rename_i hns
    split
    · exact ⟨rfl, rfl⟩
    · have hne : c ≠ o.sess := by
        rcases h with h | ⟨h1, h2⟩
        · exact fun hh => h hh.symm
        · simp [h1, h2] at hns
      have hm : (newMid st o.sess).2.sess c = st.sess c ∧ (newMid st o.sess).2.now = st.now := by
        refine ⟨?_, rfl⟩
        unfold newMid
        dsimp only
        exact modSess_sess_ne _ _ _ _ hne
      dsimp only
      split
      · have := sendNote_frame (newMid st o.sess).2 o.sess o.token 132 none false (newMid st o.sess).1 r.id r.ver c hne
        exact ⟨this.1.trans hm.1, this.2.trans hm.2⟩
      · split
        · have := sendNote_frame (refDec (newMid st o.sess).2 o.sess) o.sess o.token 132 none (wantCon r o) (newMid st o.sess).1 r.id r.ver c hne
          refine ⟨this.1.trans ?_, this.2.trans hm.2⟩
          exact (modSess_sess_ne _ _ _ _ hne).trans hm.1
        · have := sendNote_frame (newMid st o.sess).2 o.sess o.token 69 (some r.observe) (wantCon r o) (newMid st o.sess).1 r.id r.ver c hne
          exact ⟨this.1.trans hm.1, this.2.trans hm.2⟩

theorem notifyLoop_frame (d : Bool) (r : Res) (c : Nat) : ∀ (subs : List Sub) (st : State),
    (∀ o ∈ subs, o.sess ≠ c ∨ (r.dirty = false ∧ o.dirty = false)) →
    (notifyLoop d r subs st).st.sess c = st.sess c ∧ (notifyLoop d r subs st).st.now = st.now
  | [], _, _ => ⟨rfl, rfl⟩
  | o :: rest, st, h => by
    unfold notifyLoop
    dsimp only
    have h1 := notifyOne_frame d r o st c (h o (List.mem_cons_self ..))
    have h2 := notifyLoop_frame d r c rest (notifyOne d r o st).st (fun o' ho' => h o' (List.mem_cons_of_mem _ ho'))
    exact ⟨h2.1.trans h1.1, h2.2.trans h1.2⟩

theorem notifyRes_frame (d : Bool) (r : Res) (st : State) (c : Nat)
    (h : r.alive = true → ∀ o ∈ r.subs, o.sess ≠ c ∨ (r.dirty = false ∧ o.dirty = false)) :
    (notifyRes d r st).2.1.sess c = st.sess c ∧ (notifyRes d r st).2.1.now = st.now := by
  unfold notifyRes
  split
  · rename_i hc
    simp only [Bool.and_eq_true] at hc
    exact notifyLoop_frame d r c r.subs st (h hc.1)
  · exact ⟨rfl, rfl⟩

theorem notifyAll_frame (c : Nat) : ∀ (rs : List Res) (st : State),
    (∀ y ∈ rs, y.alive = true → ∀ o ∈ y.subs, o.sess ≠ c ∨ (y.dirty = false ∧ o.dirty = false)) →
    (notifyAll rs st).2.1.sess c = st.sess c ∧ (notifyAll rs st).2.1.now = st.now
  | [], _, _ => ⟨rfl, rfl⟩
  | r :: rest, st, h => by
    unfold notifyAll
    dsimp only
    have h1 := notifyRes_frame false r st c (h r (List.mem_cons_self ..))
    have h2 := notifyAll_frame c rest (notifyRes false r st).2.1 (fun y hy => h y (List.mem_cons_of_mem _ hy))
    exact ⟨h2.1.trans h1.1, h2.2.trans h1.2⟩

/-- The fairness hypothesis in terms of the state BEFORE the I/O step: the session has fewer than NSTART Confirmables in flight
    (all earlier ones were acknowledged or given up) and `o` is the first stale entry of its session in walk order. -/
theorem first_stale_entry_not_backPressured (st : State) (pre : List Res) (y : Res) (spre : List Sub) (o : Sub)
    (hcon : (getSess st o.sess).conActive < obsNstart)
    (hpre : ∀ y1 ∈ pre, y1.alive = true → ∀ o1 ∈ y1.subs, o1.sess = o.sess → y1.dirty = false ∧ o1.dirty = false)
    (hspre : ∀ o1 ∈ spre, o1.sess = o.sess → y.dirty = false ∧ o1.dirty = false) :
    backPressured (turnState st pre y spre) y o = false := by
  have h1 := notifyAll_frame o.sess pre { st with pending := false } (fun y1 hy1 hal o1 ho1 => by
    by_cases hs : o1.sess = o.sess
    · exact Or.inr (hpre y1 hy1 hal o1 ho1 hs)
    · exact Or.inl hs)
  have h2 := notifyLoop_frame false y o.sess spre (notifyAll pre { st with pending := false }).2.1 (fun o1 ho1 => by
    by_cases hs : o1.sess = o.sess
    · exact Or.inr (hspre o1 ho1 hs)
    · exact Or.inl hs)
  have hg : getSess (turnState st pre y spre) o.sess = getSess st o.sess := by
    unfold getSess turnState
    rw [h2.1, h2.2, h1.1, h1.2]
  unfold backPressured
  rw [hg]
  simp [Nat.not_le.mpr hcon]

theorem getSess_conActive_now (st : State) (n c : Nat) : (getSess { st with now := n } c).conActive = (getSess st c).conActive := by
  unfold getSess
  cases st.sess c <;> rfl

end Coap.Observe
