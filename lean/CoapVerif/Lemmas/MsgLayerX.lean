import CoapVerif.Model.MsgLayerX
import CoapVerif.Lemmas.MsgLayer
/-
Helper lemmas for the extended message layer (Model/MsgLayerX.lean), used by Props/C08.lean: the accounting
invariant `WF` and the delay-queue step relation `DqStep` of Lemmas/MsgLayer.lean carry over to every event of
`stepX` (explicit tokens and the pointer walk of coap_cancel_all_messages, ICMP errors, keepalive pings and
their RST), and with keepalive off `stepX` is `step`.  Core Lean only.
-/
namespace Coap.MsgX
open Coap.SQ Coap.Msg

/-! ### the keepalive bookkeeping never touches the base layer -/

@[simp] theorem setK_l (lx : LX) (s : Nat) (k : KA) : (lx.setK s k).l = lx.l := rfl
@[simp] theorem setK_pt (lx : LX) (s : Nat) (k : KA) : (lx.setK s k).pingTimeout = lx.pingTimeout := rfl
@[simp] theorem setK_prng (lx : LX) (s : Nat) (k : KA) : (lx.setK s k).prng = lx.prng := rfl

theorem touch_fold (outs : List Out) : ∀ (lx : LX),
    (outs.foldl (fun lx o =>
      match o with
      | .tx t s _ _ _ => lx.setK s { (lx.getK s) with lastRxTx := t }
      | _ => lx) lx).l = lx.l ∧
    (outs.foldl (fun lx o =>
      match o with
      | .tx t s _ _ _ => lx.setK s { (lx.getK s) with lastRxTx := t }
      | _ => lx) lx).pingTimeout = lx.pingTimeout ∧
    (outs.foldl (fun lx o =>
      match o with
      | .tx t s _ _ _ => lx.setK s { (lx.getK s) with lastRxTx := t }
      | _ => lx) lx).prng = lx.prng := by
  induction outs with
  | nil => intro lx; exact ⟨rfl, rfl, rfl⟩
  | cons o os ih =>
    intro lx
    simp only [List.foldl_cons]
    cases o <;> simp only [] <;> first | exact ih _ | (have := ih (lx.setK _ _); simpa using this)

@[simp] theorem touch_l (lx : LX) (old : Nat) : (touch lx old).l = lx.l := (touch_fold _ lx).1
@[simp] theorem touch_pt (lx : LX) (old : Nat) : (touch lx old).pingTimeout = lx.pingTimeout := (touch_fold _ lx).2.1
@[simp] theorem touch_prng (lx : LX) (old : Nat) : (touch lx old).prng = lx.prng := (touch_fold _ lx).2.2
@[simp] theorem lift_l (lx : LX) (l' : L) : (lx.lift l').l = l' := by simp [LX.lift]
@[simp] theorem lift_pt (lx : LX) (l' : L) : (lx.lift l').pingTimeout = lx.pingTimeout := by simp [LX.lift]
@[simp] theorem lift_prng (lx : LX) (l' : L) : (lx.lift l').prng = lx.prng := by simp [LX.lift]
@[simp] theorem read_l (lx : LX) (s : Nat) : (lx.read s).l = lx.l := rfl
@[simp] theorem read_pt (lx : LX) (s : Nat) : (lx.read s).pingTimeout = lx.pingTimeout := rfl
@[simp] theorem read_prng (lx : LX) (s : Nat) : (lx.read s).prng = lx.prng := rfl

/-! ### with the token equal to the message id / keepalive off, the extended functions are the base ones -/

theorem submitT_eq_submit (l : L) (s : Nat) (con : Bool) (mid r : Nat) :
    submitT l s con mid r mid = submit l s con mid r := by
  unfold submitT submit sendCore
  simp only []
  split
  · rfl
  · split
    · split <;> rfl
    · cases con <;> rfl

theorem clampDelay_zero (prng d : Nat) : clampDelay 0 prng d = d := by simp [clampDelay]

theorem retransmitX_zero (prng : Nat) (l : L) (n : Node) : retransmitX 0 prng l n = retransmit l n := by
  unfold retransmitX retransmit
  simp only [clampDelay_zero]

theorem dueLoopX_zero (prng : Nat) : ∀ (fuel : Nat) (l : L), dueLoopX 0 prng fuel l = dueLoop fuel l
  | 0, _ => rfl
  | fuel + 1, l => by
    unfold dueLoopX dueLoop
    cases l.q.nodes with
    | nil => rfl
    | cons h t =>
      simp only []
      split
      · cases popNext (h :: t) with
        | none => rfl
        | some p => simp only [retransmitX_zero, dueLoopX_zero prng fuel]
      · rfl

/-! ### the accounting invariant `WF` (con_active = in flight ≤ NSTART) is kept by the extended functions -/

theorem sendCore_ok (l : L) (s : Nat) (con : Bool) (mid r tok : Nat) :
    Frame s l (sendCore l s con mid r tok).1 ∧ (SInv l s 0 → SInv (sendCore l s con mid r tok).1 s 0) := by
  unfold sendCore
  simp only []
  split
  · split
    · exact ⟨Frame.refl _ _, fun h => h⟩
    · exact ⟨Frame.setS _ _ _, fun h => SInv.setS (fun hlt => h hlt)⟩
  · rename_i hg
    cases con
    · simp only [Bool.false_eq_true, if_false]
      exact ⟨Frame.emit _ _ _, fun h => h⟩
    · simp only [if_true]
      refine ⟨((Frame.emit _ _ _).trans (Frame.setS _ _ _)).trans (Frame.waitAck (s := s) _ rfl rfl), fun h => ?_⟩
      apply SInv.waitAck rfl
      apply SInv.setS
      intro hlt
      have := h hlt
      simp [gate] at hg
      simp only [getS_emit, inflight_emit]
      omega

theorem submitT_ok (l : L) (s : Nat) (con : Bool) (mid r tok : Nat) :
    Frame s l (submitT l s con mid r tok) ∧ (SInv l s 0 → SInv (submitT l s con mid r tok) s 0) := by
  unfold submitT
  split
  · exact ⟨Frame.emit _ _ _, fun h => h⟩
  · have := sendCore_ok l s con mid r tok
    rcases hsc : sendCore l s con mid r tok with ⟨l', res⟩
    rw [hsc] at this
    exact ⟨this.1.trans (Frame.emit _ _ _), fun h => (SInv_emit _ _ _ _).mpr (this.2 h)⟩

theorem wf_submitT (l : L) (s : Nat) (con : Bool) (mid r tok : Nat) (h : WF l) : WF (submitT l s con mid r tok) := by
  have := submitT_ok l s con mid r tok
  exact h.of_frame this.1 (this.2 (h.sinv s))

theorem retransmitX_ok (pt prng : Nat) (l : L) (n : Node) (hc : n.con = true) :
    Frame n.sess l (retransmitX pt prng l n) ∧ (SInv l n.sess 1 → SInv (retransmitX pt prng l n) n.sess 0) := by
  unfold retransmitX
  simp only []
  split
  · split
    · exact delay_path l _ { n with cnt := (n.cnt + 1) % 256 } _ hc (by exact ⟨rfl, rfl⟩)
    · rename_i hg
      refine ⟨((Frame.enq (s := n.sess) (n := { n with cnt := (n.cnt + 1) % 256 }) _ _ _ rfl hc).trans (Frame.emit _ _ _)).trans (Frame.setS _ _ _), fun h => ?_⟩
      apply SInv.setS
      intro hlt
      have h0 := h hlt
      simp [gate, hc] at hg
      rw [inflight_emit, inflight_enq]
      simp only [if_true]
      omega
  · have hr := release_ok l n.sess
    exact ⟨hr.1.trans (Frame.emit _ _ _), fun h => (SInv_emit _ _ _ _).mpr (hr.2 h)⟩

theorem wf_dueLoopX (pt prng : Nat) : ∀ (fuel : Nat) (l : L), WF l → WF (dueLoopX pt prng fuel l)
  | 0, l, h => h
  | fuel + 1, l, h => by
    unfold dueLoopX
    split
    · exact h
    · split
      · split
        · exact h
        · rename_i n rest hp
          apply wf_dueLoopX pt prng fuel
          obtain ⟨hf, hs, hcon⟩ := removed_one l n rest
            (countP_popNext (fun _ => true) (fun _ _ => rfl) _ _ _ hp).1
            (fun p hp' => (countP_popNext p hp' _ _ _ hp).2)
          have hr := retransmitX_ok pt prng { l with q := { l.q with nodes := rest } } n (hcon h.1)
          exact h.of_frame (hf.trans hr.1) (hr.2 (hs 0 (h.sinv _)))
      · exact h

theorem wf_sendPing (lx : LX) (s : Nat) (h : WF lx.l) : WF (sendPing lx s).1.l := by
  unfold sendPing
  simp only []
  split
  · exact h
  · split
    · exact h
    · have := sendCore_ok lx.l s true (((lx.getK s).txMid + 1) % 65536) lx.prng noTok
      simp only [setK_l, setK_prng]
      rcases hsc : sendCore lx.l s true (((lx.getK s).txMid + 1) % 65536) lx.prng noTok with ⟨l', res⟩
      rw [hsc] at this
      exact h.of_frame this.1 (this.2 (h.sinv s))

theorem wf_pingOne (lx : LX) (s t : Nat) (h : WF lx.l) : WF (pingOne lx s t).1.l := by
  unfold pingOne
  simp only []
  split
  · split
    · have := wf_sendPing lx s h
      rcases hsp : sendPing lx s with ⟨lx', res⟩
      rw [hsp] at this
      cases res <;> simpa using this
    · exact h
  · exact h

theorem wf_pingLoop : ∀ (k s : Nat) (lx : LX) (t : Nat), WF lx.l → WF (pingLoop k s lx t).1.l
  | 0, _, _, _, h => h
  | k + 1, s, lx, t, h => by
    unfold pingLoop
    have := wf_pingOne lx s t h
    rcases hp : pingOne lx s t with ⟨lx', t'⟩
    rw [hp] at this
    exact wf_pingLoop k (s + 1) lx' t' this

theorem wf_prepareCoreX (lx : LX) (h : WF lx.l) : WF (prepareCoreX lx).1.l := by
  unfold prepareCoreX
  simp only []
  apply wf_pingLoop
  simpa using wf_dueLoopX lx.pingTimeout lx.prng (dueFuel lx.l) lx.l h

theorem wf_afterRxX (lx : LX) (h : WF lx.l) : WF (afterRxX lx).l := wf_prepareCoreX lx h

theorem wf_prepareX (lx : LX) (h : WF lx.l) : WF (prepareX lx).l := by
  unfold prepareX
  simpa using wf_prepareCoreX lx h

/-- unlinking the node at index `i` removes exactly that node (whatever a `t`-blind predicate counts) -/
theorem removeAt_drop (p : Node → Bool) (hp : ∀ (n : Node) (x : Nat), p { n with t := x } = p n) :
    ∀ (l : List Node) (i : Nat) (q : Node) (rest : List Node), l.drop i = q :: rest →
    q ∈ l ∧ l.countP p = (removeAt l i).countP p + (if p q then 1 else 0)
  | [], i, q, rest, h => by simp at h
  | a :: r, 0, q, rest, h => by
    simp at h; obtain ⟨rfl, rfl⟩ := h
    cases r with
    | nil => simp [removeAt, List.countP_cons]
    | cons b r' => simp only [removeAt, List.countP_cons, hp]; simp
  | a :: r, i + 1, q, rest, h => by
    simp at h
    have := removeAt_drop p hp r i q rest h
    simp only [removeAt, List.countP_cons]
    exact ⟨List.mem_cons_of_mem _ this.1, by omega⟩

theorem wf_cancelWalk : ∀ (fuel : Nat) (l : L) (s tok i : Nat), WF l → WF (cancelWalk fuel l s tok i)
  | 0, _, _, _, _, h => h
  | fuel + 1, l, s, tok, i, h => by
    unfold cancelWalk
    split
    · exact h
    · rename_i q rest hd
      split
      · rename_i hk
        apply wf_cancelWalk fuel
        have hm := removeAt_drop (fun _ => true) (fun _ _ => rfl) _ _ _ _ hd
        have hqs : q.sess = s := hk.1
        subst hqs
        have := wf_remove_release h q (removeAt l.q.nodes i) hm.1 (fun p hp => (removeAt_drop p hp _ _ _ _ hd).2)
        simp only [this.2, if_true]
        exact this.1
      · exact wf_cancelWalk fuel l s tok (i + 1) h

theorem wf_rxNonX (l : L) (s mid tok : Nat) (h : WF l) : WF (rxNonX l s mid tok) := by
  unfold rxNonX
  exact wf_cancelWalk _ _ _ _ _ h

theorem wf_icmp (l : L) (s : Nat) (h : WF l) : WF (icmp l s) := by
  unfold icmp
  split <;> exact h

theorem wf_rxRstX (lx : LX) (s mid : Nat) (h : WF lx.l) : WF (rxRstX lx s mid).l := by
  unfold rxRstX
  simp only []
  split
  · rcases hr : removeNode lx.l.q.nodes s mid with ⟨res, rest⟩
    simp only []
    cases res with
    | none =>
      have := (removeNode_none _ _ _ _ hr).1
      subst this
      simpa using h
    | some n =>
      have hm := removeNode_some (fun _ => true) (fun _ _ => rfl) _ _ _ _ _ hr
      have hns := hm.2.1
      subst hns
      have := (wf_remove_release h n rest hm.1 (fun p hp => (removeNode_some p hp _ _ _ _ _ hr).2.2.2)).1
      simpa using this
  · simpa using wf_rxRst lx.l s mid h

theorem wf_rxAckP (l : L) (s mid : Nat) (dup : Bool) (h : WF l) : WF (rxAckP l s mid dup) := by
  unfold rxAckP
  simp only []
  split
  · exact wf_rxAck l s mid h
  · exact (WF_emit _ _).mpr (wf_rxAck l s mid h)

theorem wf_disconnectP (p : Proto) (l : L) (s : Nat) (h : WF l) : WF (disconnectP p l s) := by
  unfold disconnectP
  have hd := wf_disconnect l s h
  cases p with
  | udp => exact hd
  | dtls => exact hd.of_frame (Frame.setS _ _ _) (SInv.setS (fun hlt => hd.sinv s hlt))

/-- `WF` of the base layer is an invariant of every event of the extended model -/
theorem wfX_step (lx : LX) (e : EvX) (h : WF lx.l) : WF (stepX lx e).l := by
  cases e with
  | base e =>
    cases e with
    | setNow t => exact h
    | submit s con mid r => simpa [stepX, step] using Msg.wf_step lx.l (.submit s con mid r) h
    | prepare => exact wf_prepareX lx h
    | rxAck s mid =>
      simp only [stepX]; split
      · exact wf_afterRxX _ (by simpa using wf_rxAck _ _ _ h)
      · exact h
    | rxRst s mid =>
      simp only [stepX]; split
      · exact wf_afterRxX _ (wf_rxRstX _ _ _ (by simpa using h))
      · exact h
    | rxNon s mid tok =>
      simp only [stepX]; split
      · exact wf_afterRxX _ (by simpa using wf_rxNonX _ _ _ _ h)
      · exact h
    | rxBad s mid =>
      simp only [stepX]; split
      · exact wf_afterRxX _ (by simpa using wf_rxBad _ _ _ h)
      · exact h
    | hold s => simpa [stepX, step] using Msg.wf_step lx.l (.hold s) h
    | connect s => simpa [stepX, step] using Msg.wf_step lx.l (.connect s) h
    | disconnect s =>
      simp only [stepX]; split
      · simpa using wf_disconnectP _ _ _ h
      · exact h
  | submitT s con mid r tok => simpa [stepX] using wf_submitT lx.l s con mid r tok h
  | icmp s =>
    simp only [stepX]; split
    · exact wf_afterRxX _ (by simpa using wf_icmp _ _ h)
    · exact h
  | keepalive secs => exact h
  | rxAckP s mid tok =>
    simp only [stepX]; split
    · exact wf_afterRxX _ (by simpa using wf_rxAckP _ _ _ _ h)
    · exact h

theorem wfX_run (evs : List EvX) : ∀ (lx : LX), WF lx.l → WF (runX lx evs).l := by
  induction evs with
  | nil => intro lx h; exact h
  | cons e es ih => intro lx h; exact ih _ (wfX_step lx e h)

theorem initX_l (t0 : Nat) (ss : List Sess) : (initX t0 ss).l = init t0 ss := rfl

/-! ### the delay queue of every session moves only by `DqStep`s (FIFO, exactly once) under the extended events -/

theorem Star.andThen {s : Nat} {a b c : L} (h1 : Star (DqStep s) a b) (hs : s < a.sess.length)
    (h2 : s < b.sess.length → Star (DqStep s) b c) : Star (DqStep s) a c :=
  h1.trans (h2 (by rw [h1.len]; exact hs))

theorem sendCore_star (l : L) (s' : Nat) (con : Bool) (mid r tok : Nat) (s : Nat) (hs : s < l.sess.length) :
    Star (DqStep s) l (sendCore l s' con mid r tok).1 := by
  unfold sendCore
  simp only []
  split
  · split
    · exact Star.refl
    · exact Star.single (DqStep.setS_push (by exact hs) s' _ (by rfl))
  · cases con
    · simp only [Bool.false_eq_true, if_false]
      exact (DqSame.emit _ _ _).star
    · simp only [if_true]
      exact (((DqSame.emit _ _ _).trans (DqSame.setS_keep (by exact hs) s' (by rfl))).trans
        (DqSame.waitAck _ _ _)).star

theorem submitT_star (l : L) (s' : Nat) (con : Bool) (mid r tok : Nat) (s : Nat) (hs : s < l.sess.length) :
    Star (DqStep s) l (submitT l s' con mid r tok) := by
  unfold submitT
  split
  · exact (DqSame.emit _ _ _).star
  · have := sendCore_star l s' con mid r tok s hs
    rcases hsc : sendCore l s' con mid r tok with ⟨l', res⟩
    rw [hsc] at this
    exact this.trans (DqSame.emit _ _ _).star

theorem retransmitX_star (pt prng : Nat) (l : L) (n : Node) (s : Nat) (hs : s < l.sess.length) :
    Star (DqStep s) l (retransmitX pt prng l n) := by
  unfold retransmitX
  simp only []
  split
  · split
    · refine Star.trans (DqSame.mk_q s l _).star (Star.single (DqStep.setS_push ?_ n.sess _ (by rfl)))
      exact hs
    · refine (((DqSame.mk_q s l _).trans (DqSame.emit _ _ _)).trans (DqSame.setS_keep ?_ n.sess (by rfl))).star
      exact hs
  · split
    · exact (release_star l n.sess s hs).trans (DqSame.emit _ _ _).star
    · exact release_star l n.sess s hs

theorem dueLoopX_star (pt prng : Nat) : ∀ (fuel : Nat) (l : L) (s : Nat), s < l.sess.length →
    Star (DqStep s) l (dueLoopX pt prng fuel l)
  | 0, _, _, _ => Star.refl
  | fuel + 1, l, s, hs => by
    unfold dueLoopX
    split
    · exact Star.refl
    · split
      · split
        · exact Star.refl
        · rename_i n rest hp
          exact Star.andThen ((DqSame.mk_q s l _).star.trans (retransmitX_star pt prng _ n s (by exact hs))) hs
            (fun hs' => dueLoopX_star pt prng fuel _ s hs')
      · exact Star.refl

theorem sendPing_star (lx : LX) (s' s : Nat) (hs : s < lx.l.sess.length) :
    Star (DqStep s) lx.l (sendPing lx s').1.l := by
  unfold sendPing
  simp only []
  split
  · exact Star.refl
  · split
    · exact Star.refl
    · have := sendCore_star lx.l s' true (((lx.getK s').txMid + 1) % 65536) lx.prng noTok s hs
      simp only [setK_l, setK_prng]
      rcases hsc : sendCore lx.l s' true (((lx.getK s').txMid + 1) % 65536) lx.prng noTok with ⟨l', res⟩
      rw [hsc] at this
      exact this

theorem pingOne_star (lx : LX) (s' t s : Nat) (hs : s < lx.l.sess.length) :
    Star (DqStep s) lx.l (pingOne lx s' t).1.l := by
  unfold pingOne
  simp only []
  split
  · split
    · have := sendPing_star lx s' s hs
      rcases hsp : sendPing lx s' with ⟨lx', res⟩
      rw [hsp] at this
      cases res <;> simpa using this
    · exact Star.refl
  · exact Star.refl

theorem pingLoop_star : ∀ (k s' : Nat) (lx : LX) (t s : Nat), s < lx.l.sess.length →
    Star (DqStep s) lx.l (pingLoop k s' lx t).1.l
  | 0, _, _, _, _, _ => Star.refl
  | k + 1, s', lx, t, s, hs => by
    unfold pingLoop
    have := pingOne_star lx s' t s hs
    rcases hp : pingOne lx s' t with ⟨lx', t'⟩
    rw [hp] at this
    exact Star.andThen this hs (fun hs' => pingLoop_star k (s' + 1) lx' t' s hs')

theorem prepareCoreX_star (lx : LX) (s : Nat) (hs : s < lx.l.sess.length) :
    Star (DqStep s) lx.l (prepareCoreX lx).1.l := by
  unfold prepareCoreX
  simp only []
  refine Star.andThen (dueLoopX_star lx.pingTimeout lx.prng (dueFuel lx.l) lx.l s hs) hs (fun hs' => ?_)
  have := pingLoop_star (dueLoopX lx.pingTimeout lx.prng (dueFuel lx.l) lx.l).sess.length 0
    (lx.lift (dueLoopX lx.pingTimeout lx.prng (dueFuel lx.l) lx.l))
    (queueWait (dueLoopX lx.pingTimeout lx.prng (dueFuel lx.l) lx.l)) s (by simpa using hs')
  simpa using this

theorem afterRxX_star (lx : LX) (s : Nat) (hs : s < lx.l.sess.length) :
    Star (DqStep s) lx.l (afterRxX lx).l := prepareCoreX_star lx s hs

theorem prepareX_star (lx : LX) (s : Nat) (hs : s < lx.l.sess.length) :
    Star (DqStep s) lx.l (prepareX lx).l := by
  unfold prepareX
  exact (prepareCoreX_star lx s hs).trans (by simpa using (DqSame.emit s _ _).star)

theorem cancelWalk_star : ∀ (fuel : Nat) (l : L) (s' tok i s : Nat), s < l.sess.length →
    Star (DqStep s) l (cancelWalk fuel l s' tok i)
  | 0, _, _, _, _, _, _ => Star.refl
  | fuel + 1, l, s', tok, i, s, hs => by
    unfold cancelWalk
    split
    · exact Star.refl
    · rename_i q rest hd
      split
      · cases hc : q.con
        · simp only [Bool.false_eq_true, if_false]
          exact (DqSame.mk_q s l _).star.trans (cancelWalk_star fuel _ s' tok _ s (by exact hs))
        · simp only [if_true]
          exact Star.andThen ((DqSame.mk_q s l _).star.trans (release_star _ s' s (by exact hs))) hs
            (fun hs' => cancelWalk_star fuel _ s' tok _ s hs')
      · exact cancelWalk_star fuel l s' tok (i + 1) s hs

theorem rxNonX_star (l : L) (s' mid tok s : Nat) (hs : s < l.sess.length) :
    Star (DqStep s) l (rxNonX l s' mid tok) := by
  unfold rxNonX
  exact (cancelWalk_star _ l s' tok 0 s hs).trans (DqSame.emit _ _ _).star

theorem icmp_star (l : L) (s' s : Nat) : Star (DqStep s) l (icmp l s') := by
  unfold icmp
  split <;> exact (DqSame.emit _ _ _).star

theorem rxRstX_star (lx : LX) (s' mid s : Nat) (hs : s < lx.l.sess.length) :
    Star (DqStep s) lx.l (rxRstX lx s' mid).l := by
  unfold rxRstX
  simp only []
  split
  · rcases removeNode lx.l.q.nodes s' mid with ⟨res, rest⟩
    cases res
    · simpa using ((DqSame.mk_q s lx.l _).trans (DqSame.emit _ _ _)).star
    · simpa using (DqSame.mk_q s lx.l _).star.trans (release_star _ s' s (by exact hs))
  · simpa using rxRst_star lx.l s' mid s hs

theorem afterRxX_setK_star (lx : LX) (s' : Nat) (k : KA) (s : Nat) (hs : s < lx.l.sess.length) :
    Star (DqStep s) lx.l (afterRxX (lx.setK s' k)).l := by
  simpa using afterRxX_star (lx.setK s' k) s (by simpa using hs)

theorem rxAckP_star (l : L) (s' mid : Nat) (dup : Bool) (s : Nat) (hs : s < l.sess.length) :
    Star (DqStep s) l (rxAckP l s' mid dup) := by
  unfold rxAckP
  simp only []
  split
  · exact rxAck_star l s' mid s hs
  · exact (rxAck_star l s' mid s hs).trans (DqSame.emit _ _ _).star

theorem disconnectP_star (p : Proto) (l : L) (s' s : Nat) (hs : s < l.sess.length) :
    Star (DqStep s) l (disconnectP p l s') := by
  unfold disconnectP
  have hd := disconnect_star l s' s hs
  cases p with
  | udp => exact hd
  | dtls =>
    exact hd.trans (DqSame.setS_keep (l := disconnect l s') (by rw [hd.len]; exact hs) s' (by rfl)).star

/-- every event of the extended model moves the delay queue of every session only by `DqStep`s -/
theorem stepX_star (lx : LX) (e : EvX) (s : Nat) (hs : s < lx.l.sess.length) :
    Star (DqStep s) lx.l (stepX lx e).l := by
  cases e with
  | base e =>
    cases e with
    | setNow t => exact (show DqSame s lx.l { lx.l with now := t } from ⟨rfl, rfl⟩).star
    | submit s' con mid r => simpa [stepX] using submit_star lx.l s' con mid r s hs
    | prepare => exact prepareX_star lx s hs
    | rxAck s' mid =>
      simp only [stepX]; split
      · exact Star.andThen (b := ((lx.read s').lift (rxAck lx.l s' mid)).l) (by simpa using rxAck_star lx.l s' mid s hs) hs
          (fun hs' => afterRxX_star _ s hs')
      · exact Star.refl
    | rxRst s' mid =>
      simp only [stepX]; split
      · exact Star.andThen (b := (rxRstX (lx.read s') s' mid).l) (by simpa using rxRstX_star (lx.read s') s' mid s hs) hs
          (fun hs' => afterRxX_star _ s hs')
      · exact Star.refl
    | rxNon s' mid tok =>
      simp only [stepX]; split
      · exact Star.andThen (b := ((lx.read s').lift (rxNonX lx.l s' mid tok)).l) (by simpa using rxNonX_star lx.l s' mid tok s hs) hs
          (fun hs' => afterRxX_star _ s hs')
      · exact Star.refl
    | rxBad s' mid =>
      simp only [stepX]; split
      · exact Star.andThen (b := ((lx.read s').lift (rxBad lx.l s' mid)).l) (by simpa using rxBad_star lx.l s' mid s hs) hs
          (fun hs' => afterRxX_star _ s hs')
      · exact Star.refl
    | hold s' => simpa [stepX, step] using (DqSame.setS_keep (l := lx.l) (by exact hs) s' (by rfl)).star
    | connect s' => simpa [stepX] using connected_star lx.l s' s hs
    | disconnect s' =>
      simp only [stepX]; split
      · simpa using disconnectP_star _ lx.l s' s hs
      · exact Star.refl
  | submitT s' con mid r tok => simpa [stepX] using submitT_star lx.l s' con mid r tok s hs
  | icmp s' =>
    simp only [stepX]; split
    · exact Star.andThen (b := (lx.lift (icmp lx.l s')).l) (by simpa using icmp_star lx.l s' s) hs
        (fun hs' => afterRxX_star _ s hs')
    · exact Star.refl
  | keepalive secs => exact Star.refl
  | rxAckP s' mid tok =>
    simp only [stepX]; split
    · exact Star.andThen (b := ((lx.read s').lift (rxAckP lx.l s' mid (decide ((lx.getK s').lastAckMid = some mid)))).l)
        (by simpa using rxAckP_star lx.l s' mid _ s hs) hs
        (fun hs' => afterRxX_setK_star _ s' _ s hs')
    · exact Star.refl

theorem runX_star (evs : List EvX) : ∀ (lx : LX) (s : Nat), s < lx.l.sess.length →
    Star (DqStep s) lx.l (runX lx evs).l := by
  induction evs with
  | nil => intro lx s _; exact Star.refl
  | cons e es ih =>
    intro lx s hs
    exact Star.andThen (stepX_star lx e s hs) hs (fun hs' => ih (stepX lx e) s hs')

/-! ### with keepalive off the extended model is the base model -/

theorem pingOne_off (lx : LX) (s t : Nat) (h : lx.pingTimeout = 0) : pingOne lx s t = (lx, t) := by
  unfold pingOne; simp [h]

theorem pingLoop_off : ∀ (k s : Nat) (lx : LX) (t : Nat), lx.pingTimeout = 0 → pingLoop k s lx t = (lx, t)
  | 0, _, _, _, _ => rfl
  | k + 1, s, lx, t, h => by
    unfold pingLoop
    rw [pingOne_off lx s t h]
    exact pingLoop_off k (s + 1) lx t h

theorem prepareCoreX_off (lx : LX) (h : lx.pingTimeout = 0) :
    (prepareCoreX lx).1.l = (prepareCore lx.l).1 ∧ (prepareCoreX lx).2 = (prepareCore lx.l).2 ∧
    (prepareCoreX lx).1.pingTimeout = 0 := by
  unfold prepareCoreX prepareCore queueWait
  simp only []
  rw [pingLoop_off _ _ _ _ (by simpa using h), h, dueLoopX_zero]
  cases (dueLoop (dueFuel lx.l) lx.l).q.nodes <;> simp [h]

/-- With keepalive off, every event of the base model other than the arrival of a NON response does to the base
layer of the extended model exactly what `Coap.Msg.step` does (for `rxNon` the extended model walks the send
queue as `coap_cancel_all_messages` does, the base model restarts from its head after every removal: they differ
only when a message carrying the same token is released from the delay queue during the walk). -/
theorem stepX_base (lx : LX) (e : Ev) (h : lx.pingTimeout = 0) (hn : ∀ s mid tok, e ≠ .rxNon s mid tok)
    (hu : ∀ s, lx.proto s = .udp) :
    (stepX lx (.base e)).l = step lx.l e ∧ (stepX lx (.base e)).pingTimeout = 0 := by
  cases e with
  | setNow t => exact ⟨rfl, h⟩
  | submit s con mid r => simp [stepX, step, h]
  | prepare =>
    have := prepareCoreX_off lx h
    simp only [stepX, step, prepareX, prepare]
    rcases hp : prepareCore lx.l with ⟨l', w⟩
    rw [hp] at this
    simp only [] at this ⊢
    rw [this.1, this.2.1]
    exact ⟨rfl, this.2.2⟩
  | rxAck s mid =>
    simp only [stepX, step]; split
    · have := prepareCoreX_off ((lx.read s).lift (rxAck lx.l s mid)) (by simpa using h)
      simp only [afterRxX, afterRx]
      exact ⟨by rw [this.1]; simp, this.2.2⟩
    · exact ⟨rfl, h⟩
  | rxRst s mid =>
    simp only [stepX, step]; split
    · have e1 : rxRstX (lx.read s) s mid = (lx.read s).lift (rxRst lx.l s mid) := by
        unfold rxRstX; simp [h]
      have := prepareCoreX_off ((lx.read s).lift (rxRst lx.l s mid)) (by simpa using h)
      simp only [afterRxX, afterRx, e1]
      exact ⟨by rw [this.1]; simp, this.2.2⟩
    · exact ⟨rfl, h⟩
  | rxNon s mid tok => exact absurd rfl (hn s mid tok)
  | rxBad s mid =>
    simp only [stepX, step]; split
    · have := prepareCoreX_off ((lx.read s).lift (rxBad lx.l s mid)) (by simpa using h)
      simp only [afterRxX, afterRx]
      exact ⟨by rw [this.1]; simp, this.2.2⟩
    · exact ⟨rfl, h⟩
  | hold s => simp [stepX, h]
  | connect s => simp [stepX, step, h]
  | disconnect s =>
    simp only [stepX, step]; split
    · simp [h, hu s, disconnectP]
    · exact ⟨rfl, h⟩

/-! ### a piggy-backed response concludes the message it acknowledges and no other -/

/-- the loop of `coap_session_connected` only ADDS nodes to the send queue -/
theorem drain_countP_ge (p : Node → Bool) (hp : TStable p) : ∀ (fuel : Nat) (l : L) (s k : Nat),
    k ≤ l.q.nodes.countP p → k ≤ (drain fuel l s).q.nodes.countP p
  | 0, l, s, k, h => h
  | fuel + 1, l, s, k, h => by
    unfold drain
    simp only []
    split
    · exact h
    · rename_i n rest hdq
      split
      · exact h
      · split
        · exact h
        · cases hc : n.con
          · simp only [Bool.false_eq_true, if_false]
            exact drain_countP_ge p hp fuel _ s k h
          · simp only [if_true]
            apply drain_countP_ge p hp fuel _ s k
            rw [Msg.waitAck]
            simp only [countP_enqueue p hp]
            exact Nat.le_trans h (Nat.le_add_right _ _)

theorem connected_countP_ge (p : Node → Bool) (hp : TStable p) (l : L) (s k : Nat)
    (h : k ≤ l.q.nodes.countP p) : k ≤ (connected l s).q.nodes.countP p := by
  unfold connected
  exact drain_countP_ge p hp _ _ s k h

theorem release_countP_ge (p : Node → Bool) (hp : TStable p) (l : L) (s k : Nat)
    (h : k ≤ l.q.nodes.countP p) : k ≤ (release l s).q.nodes.countP p := by
  unfold release
  simp only []
  split
  · exact h
  · split
    · exact connected_countP_ge p hp _ s k h
    · exact h

/-- the ACK branch of `coap_dispatch` takes out of the send queue at most the node with that session and message
id: every other message (counted by any predicate `p` that is false on the acknowledged one) stays -/
theorem rxAck_countP_le (p : Node → Bool) (hp : TStable p) (l : L) (s mid : Nat)
    (hn : ∀ n : Node, n.sess = s → n.mid = mid → p n = false) :
    l.q.nodes.countP p ≤ (rxAck l s mid).q.nodes.countP p := by
  unfold rxAck
  rcases hr : removeNode l.q.nodes s mid with ⟨res, rest⟩
  simp only []
  cases res with
  | none => have := (removeNode_none _ _ _ _ hr).1; subst this; exact Nat.le_refl _
  | some n =>
    have hm := removeNode_some p hp _ _ _ _ _ hr
    have hpn := hn n hm.2.1 hm.2.2.1
    have h1 : l.q.nodes.countP p = rest.countP p := by rw [hm.2.2.2, hpn]; simp
    rw [h1]
    exact release_countP_ge p hp { l with q := { l.q with nodes := rest } } s _ (Nat.le_refl _)

theorem rxAckP_countP_le (p : Node → Bool) (hp : TStable p) (l : L) (s mid : Nat) (dup : Bool)
    (hn : ∀ n : Node, n.sess = s → n.mid = mid → p n = false) :
    l.q.nodes.countP p ≤ (rxAckP l s mid dup).q.nodes.countP p := by
  unfold rxAckP
  simp only []
  split
  · exact rxAck_countP_le p hp l s mid hn
  · exact rxAck_countP_le p hp l s mid hn

/-- `coap_session_disconnected_lkd` leaves a UDP session ESTABLISHED -/
theorem disconnect_est (l : L) (s : Nat) (hlt : s < l.sess.length) : ((disconnect l s).getS s).est = true := by
  rw [disconnect_eq]
  have hlt' : s < (discHead l s).sess.length := by rw [(discHead_frame l s).1.len]; exact hlt
  generalize discHead l s = l1 at hlt'
  unfold discTail
  simp only []
  rw [getS_setS_same (by simpa using hlt')]
  have e2 : ∀ (l' : L) ns, (nackAll l' s .undeliv ns).getS s = l'.getS s := fun l' ns => by rw [nackAll_eq]; rfl
  simp only [e2]
  show ((l1.setS s _).getS s).est = true
  rw [getS_setS_same hlt']

/-- a line without DTLS sessions: every session is a UDP session -/
theorem proto_udp_of_nil (lx : LX) (h : lx.dtls = []) (s : Nat) : lx.proto s = .udp := by
  simp [LX.proto, h]

/-- `COAP_PROTO_NOT_RELIABLE` holds for both transports M covers: the guards of the `con_active` updates are open
for a DTLS session exactly as for a UDP session -/
theorem notReliable_datagram (p : Proto) : p.notReliable = true := by cases p <;> rfl

end Coap.MsgX
