import CoapVerif.Lemmas.SessionsInv
/-
C12 helper lemmas, part 3: the idle reclamation of `coap_io_prepare_io_lkd(ctx, …, now)` as a whole pass
(`St.reclaimPass`): what it may delete and what it must keep, for ANY `now` argument — also one that is older than the
clock (`St.now`) or than a session's `last_rx_tx` (a handler that ran earlier in the same pass took time).
-/
namespace Coap.Sessions

/-- `coap_session_reference_lkd(s); … coap_session_release_lkd(s);` around the body of the loop changes nothing -/
theorem refRelease_id (st : St) (sid : Nat) : (st.updSess sid Sess.reference).updSess sid Sess.release = st := by
  rw [updSess_updSess st sid Sess.reference Sess.release (fun _ => rfl)]
  unfold St.updSess
  have : (st.sessions.map fun s => if s.sid = sid then Sess.release (Sess.reference s) else s) = st.sessions := by
    conv => rhs; rw [← List.map_id st.sessions]
    apply List.map_congr_left
    intro s _
    by_cases c : s.sid = sid
    · cases s; simp_all [Sess.reference, Sess.release]
    · simp [c]
  rw [this]

theorem sid_unique {st : St} (h : SInv st) {a b : Sess} (ha : a ∈ st.sessions) (hb : b ∈ st.sessions)
    (e : a.sid = b.sid) : a = b := by
  have hpw := h.pw
  revert ha hb
  generalize st.sessions = l at hpw
  induction l with
  | nil => intro ha; simp at ha
  | cons x t ih =>
    rw [List.pairwise_cons] at hpw
    intro ha hb
    rcases List.mem_cons.mp ha with rfl | ha' <;> rcases List.mem_cons.mp hb with rfl | hb'
    · rfl
    · exact absurd e (hpw.1 b hb').2
    · exact absurd e.symm (hpw.1 a ha').2
    · exact ih hpw.2 ha' hb'

theorem getSess_of_mem {st : St} (h : SInv st) {t : Sess} (ht : t ∈ st.sessions) : st.getSess t.sid = some t := by
  cases hg : st.getSess t.sid with
  | none =>
    unfold St.getSess at hg
    rw [List.find?_eq_none] at hg
    exact absurd (by simp) (hg t ht)
  | some u =>
    obtain ⟨hu, e⟩ := getSess_some hg
    rw [sid_unique h hu ht e]

theorem expired_iff (s : Sess) (T now : Nat) : s.expired T now = true ↔ (s.last + T ≤ now ∨ s.closed = true) := by
  unfold Sess.expired; simp

/-- the loop body either leaves the state as it is, or it found an idle session whose `last_rx_tx + session_timeout`
    is not later than the `now` of the pass or whose connection is closed (`state == NONE`), and ran
    `SESSION_DEL; coap_session_free` on it -/
theorem reclaimStep_cases (st : St) (now sid : Nat) :
    st.reclaimStep now sid = st ∨
    ∃ s, st.getSess sid = some s ∧ s.idle = true ∧ s.expired st.timeoutTicks now = true ∧
      st.reclaimStep now sid = st.reclaim sid := by
  unfold St.reclaimStep
  cases hg : st.getSess sid with
  | none => exact Or.inl rfl
  | some s =>
    dsimp only
    by_cases c : (s.idle && s.expired st.timeoutTicks now) = true
    · rw [if_pos c]
      simp only [Bool.and_eq_true] at c
      exact Or.inr ⟨s, rfl, c.1, c.2, rfl⟩
    · rw [if_neg c]
      exact Or.inl (refRelease_id st sid)

theorem reclaim_sessions_sub (st : St) (sid : Nat) : ∀ u ∈ (st.reclaim sid).sessions, u ∈ st.sessions := by
  unfold St.reclaim
  split
  · intro u hu; exact hu
  · split
    · intro u hu; exact hu
    · intro u hu; exact (List.mem_filter.mp hu).1

theorem reclaim_keeps_other (st : St) (sid : Nat) {t : Sess} (ht : t ∈ st.sessions) (hne : t.sid ≠ sid) :
    t ∈ (st.reclaim sid).sessions := by
  unfold St.reclaim
  split
  · exact ht
  · split
    · exact ht
    · exact List.mem_filter.mpr ⟨ht, by simpa using hne⟩

theorem reclaim_timeout (st : St) (sid : Nat) : (st.reclaim sid).timeout = st.timeout := by
  unfold St.reclaim
  split
  · rfl
  · split <;> rfl

theorem reclaim_eps' (st : St) (sid : Nat) : (st.reclaim sid).eps = st.eps := by
  unfold St.reclaim
  split
  · rfl
  · split <;> rfl

theorem reclaimStep_timeoutTicks (st : St) (now sid : Nat) : (st.reclaimStep now sid).timeoutTicks = st.timeoutTicks := by
  rcases reclaimStep_cases st now sid with e | ⟨_, _, _, _, e⟩
  · rw [e]
  · rw [e]; unfold St.timeoutTicks; rw [reclaim_timeout]

theorem reclaimStep_eps (st : St) (now sid : Nat) : (st.reclaimStep now sid).eps = st.eps := by
  rcases reclaimStep_cases st now sid with e | ⟨_, _, _, _, e⟩
  · rw [e]
  · rw [e, reclaim_eps']

theorem reclaimStep_sessions_sub (st : St) (now sid : Nat) :
    ∀ u ∈ (st.reclaimStep now sid).sessions, u ∈ st.sessions := by
  rcases reclaimStep_cases st now sid with e | ⟨_, _, _, _, e⟩
  · rw [e]; intro u hu; exact hu
  · rw [e]; exact reclaim_sessions_sub st sid

/-- ONE loop body keeps every session that is referenced, has a delayed message, or whose connection is open and whose
    timeout has not expired at the `now` of the pass -/
theorem reclaimStep_keeps {st : St} (hS : SInv st) (now sid : Nat) {t : Sess} (ht : t ∈ st.sessions)
    (hc : ¬ (t.idle = true ∧ t.expired st.timeoutTicks now = true)) : t ∈ (st.reclaimStep now sid).sessions := by
  rcases reclaimStep_cases st now sid with e | ⟨s, hg, hi, hl, e⟩
  · rw [e]; exact ht
  · rw [e]
    apply reclaim_keeps_other st sid ht
    intro hsid
    obtain ⟨hs, hss⟩ := getSess_some hg
    have : t = s := sid_unique hS ht hs (by rw [hsid, hss])
    subst this
    exact hc ⟨hi, hl⟩

/-- ONE loop body deletes the session it is called for if that session is idle and its timeout has expired or its
    connection is closed -/
theorem reclaimStep_deletes {st : St} (hS : SInv st) (now : Nat) {t : Sess} (ht : t ∈ st.sessions)
    (hi : t.idle = true) (hl : t.expired st.timeoutTicks now = true) : t ∉ (st.reclaimStep now t.sid).sessions := by
  have hg := getSess_of_mem hS ht
  have href : t.ref = 0 := by unfold Sess.idle at hi; simp at hi; exact hi.1
  have hcond : (t.idle && t.expired st.timeoutTicks now) = true := by simp [hi, hl]
  unfold St.reclaimStep
  simp only [hg, hcond, if_true]
  unfold St.reclaim
  simp only [hg, href, ne_eq, not_true_eq_false, if_false]
  intro hu
  have hu' : t ∈ st.sessions.filter (fun x => x.sid ≠ t.sid) := hu
  simpa using (List.mem_filter.mp hu').2

/-! ### the whole pass -/

/-- invariant of both loops while a session `t` that must be kept is followed -/
structure PassInv (T : Nat) (E : List (Nat × Nat)) (a : St) : Prop where
  inv : Inv a
  tt : a.timeoutTicks = T
  eps : a.eps = E

theorem PassInv.step {T : Nat} {E : List (Nat × Nat)} {a : St} (h : PassInv T E a) (now sid : Nat) :
    PassInv T E (a.reclaimStep now sid) :=
  ⟨Inv.closed.reclaimStep h.inv now sid, by rw [reclaimStep_timeoutTicks]; exact h.tt,
    by rw [reclaimStep_eps]; exact h.eps⟩

theorem PassInv.inner {T : Nat} {E : List (Nat × Nat)} (now : Nat) (l : List Nat) {a : St} (h : PassInv T E a) :
    PassInv T E (l.foldl (fun a sid => a.reclaimStep now sid) a) :=
  foldl_inv (PassInv T E) _ (fun _ sid hb => hb.step now sid) l a h

theorem inner_keeps {T : Nat} {E : List (Nat × Nat)} (now : Nat) (t : Sess) (hc : ¬ (t.idle = true ∧ t.expired T now = true))
    (l : List Nat) {a : St} (h : PassInv T E a) (ht : t ∈ a.sessions) :
    t ∈ (l.foldl (fun a sid => a.reclaimStep now sid) a).sessions := by
  have := foldl_inv (fun b => PassInv T E b ∧ t ∈ b.sessions) (fun a sid => a.reclaimStep now sid)
    (fun b sid hb => ⟨hb.1.step now sid, reclaimStep_keeps hb.1.inv.S now sid hb.2 (by rw [hb.1.tt]; exact hc)⟩) l a ⟨h, ht⟩
  exact this.2

theorem inner_sub (now : Nat) (l : List Nat) (a : St) :
    ∀ u ∈ (l.foldl (fun a sid => a.reclaimStep now sid) a).sessions, u ∈ a.sessions := by
  induction l generalizing a with
  | nil => intro u hu; exact hu
  | cons x t ih =>
    intro u hu
    exact reclaimStep_sessions_sub a now x u (ih _ u hu)

/-- the whole reclamation loop keeps every session that is referenced, has a delayed message, or whose connection is
    open and whose timeout has not expired at the `now` of the pass -/
theorem reclaimPass_keeps {st : St} (hI : Inv st) (now : Nat) {t : Sess} (ht : t ∈ st.sessions)
    (hc : ¬ (t.idle = true ∧ t.expired st.timeoutTicks now = true)) : t ∈ (st.reclaimPass now).sessions := by
  unfold St.reclaimPass
  have := foldl_inv (fun b => PassInv st.timeoutTicks st.eps b ∧ t ∈ b.sessions)
    (fun acc (ep : Nat × Nat) => ((acc.epSessions ep.1 ep.2).map (·.sid)).foldl (fun a sid => a.reclaimStep now sid) acc)
    (fun b ep hb => ⟨hb.1.inner now _, inner_keeps now t hc _ hb.1 hb.2⟩) st.eps st ⟨⟨hI, rfl, rfl⟩, ht⟩
  exact this.2

theorem reclaimPass_sub (st : St) (now : Nat) : ∀ u ∈ (st.reclaimPass now).sessions, u ∈ st.sessions := by
  unfold St.reclaimPass
  generalize st.eps = E
  induction E generalizing st with
  | nil => intro u hu; exact hu
  | cons e E ih =>
    intro u hu
    exact inner_sub now _ st u (ih _ u hu)

/-- a fold reaches a goal `R` if one element of the list establishes it and every step keeps it -/
theorem foldl_hits {α β : Type} (P R : α → Prop) (f : α → β → α) (hP : ∀ a b, P a → P (f a b))
    (hR : ∀ a b, P a → R a → R (f a b)) (x : β) (hx : ∀ a, P a → R (f a x)) :
    ∀ (l : List β) (a : α), x ∈ l → P a → R (l.foldl f a) := by
  intro l
  induction l with
  | nil => intro a hm; simp at hm
  | cons y t ih =>
    intro a hm ha
    by_cases e : y = x
    · subst e
      have := foldl_inv (fun b => P b ∧ R b) f (fun b c hb => ⟨hP b c hb.1, hR b c hb.1 hb.2⟩) t (f a y)
        ⟨hP a y ha, hx a ha⟩
      exact this.2
    · rcases List.mem_cons.mp hm with h1 | h1
      · exact absurd h1.symm e
      · exact ih (f a y) h1 (hP a y ha)

theorem inner_deletes {T : Nat} {E : List (Nat × Nat)} (now : Nat) (t : Sess) (hi : t.idle = true) (hl : t.expired T now = true)
    (l : List Nat) (hm : t.sid ∈ l) {a : St} (h : PassInv T E a) :
    t ∉ (l.foldl (fun a sid => a.reclaimStep now sid) a).sessions := by
  refine foldl_hits (PassInv T E) (fun b => t ∉ b.sessions) (fun a sid => a.reclaimStep now sid)
    (fun b sid hb => hb.step now sid) ?_ t.sid ?_ l a hm h
  · intro b sid _ hn hu
    exact hn (reclaimStep_sessions_sub b now sid t hu)
  · intro b hb
    by_cases hin : t ∈ b.sessions
    · exact reclaimStep_deletes hb.inv.S now hin hi (by rw [hb.tt]; exact hl)
    · intro hu; exact hin (reclaimStep_sessions_sub b now t.sid t hu)

/-- the whole reclamation loop leaves no idle session whose timeout has expired at the `now` of the pass or whose
    connection is closed -/
theorem reclaimPass_deletes {st : St} (hI : Inv st) (now : Nat) :
    ∀ t ∈ (st.reclaimPass now).sessions, ¬ (t.idle = true ∧ t.expired st.timeoutTicks now = true) := by
  intro t htf ⟨hi, hl⟩
  have ht0 : t ∈ st.sessions := reclaimPass_sub st now t htf
  have hep : (t.peer.lport, t.peer.proto) ∈ st.eps := hI.S.ep t ht0
  revert htf
  unfold St.reclaimPass
  refine foldl_hits (PassInv st.timeoutTicks st.eps) (fun b => t ∉ b.sessions)
    (fun acc (ep : Nat × Nat) => ((acc.epSessions ep.1 ep.2).map (·.sid)).foldl (fun a sid => a.reclaimStep now sid) acc)
    (fun b ep hb => hb.inner now _) ?_ (t.peer.lport, t.peer.proto) ?_ st.eps st hep ⟨hI, rfl, rfl⟩
  · intro b ep _ hn hu
    exact hn (inner_sub now _ b t hu)
  · intro b hb
    by_cases hin : t ∈ b.sessions
    · apply inner_deletes now t hi hl _ _ hb
      refine List.mem_map.mpr ⟨t, ?_, rfl⟩
      unfold St.epSessions
      exact List.mem_filter.mpr ⟨hin, by simp [Sess.onEp]⟩
    · intro hu; exact hin (inner_sub now _ b t hu)

/-! ### the first part of the pass does not touch the configured timeout -/

theorem dropHolder_timeout (st : St) (x : Holder) : (st.dropHolder x).timeout = st.timeout := by
  unfold St.dropHolder; split <;> rfl

theorem clientFree_timeout (st : St) (sid : Nat) : (st.clientFree sid).timeout = st.timeout := by
  unfold St.clientFree
  split
  · rfl
  · split <;> rfl

theorem releaseHolder_timeout (st : St) (x : Holder) : (st.releaseHolder x).timeout = st.timeout := by
  unfold St.releaseHolder; rw [clientFree_timeout, dropHolder_timeout]

theorem promote_timeout (st : St) (x : Nat × Nat) (due : Nat) : (st.promote x due).timeout = st.timeout := by
  unfold St.promote; split <;> rfl

theorem flushDelayed_timeout (st : St) (sid : Nat) : (st.flushDelayed sid).timeout = st.timeout := by
  unfold St.flushDelayed
  split
  · rfl
  · split
    · rfl
    · split
      · rfl
      · rw [promote_timeout]; rfl

theorem retransmit_timeout (st : St) (x : Holder) : (st.retransmit x).timeout = st.timeout := by
  unfold St.retransmit
  split
  · split
    · split
      · rfl
      · rw [releaseHolder_timeout, flushDelayed_timeout]; rfl
    · rfl
  · rfl

theorem notifyOne_timeout (st : St) (x : Holder) : (st.notifyOne x).timeout = st.timeout := by
  unfold St.notifyOne
  split <;> rfl

theorem fireAsync_timeout (st : St) (now : Nat) (x : Holder) : (st.fireAsync now x).timeout = st.timeout := by
  unfold St.fireAsync
  split
  · split
    · rw [releaseHolder_timeout]; rfl
    · rfl
  · rfl

theorem preReclaim_timeout (st : St) (now : Nat) : (st.preReclaim now).timeout = st.timeout := by
  unfold St.preReclaim
  have h1 : st.checkNotify.timeout = st.timeout := by
    unfold St.checkNotify
    show ((st.resAlive.filter (· ∈ st.dirty)).foldl St.notifyRes st).timeout = st.timeout
    refine foldl_inv (fun a => a.timeout = st.timeout) St.notifyRes ?_ _ st rfl
    intro a k ha
    unfold St.notifyRes
    exact foldl_inv (fun b => b.timeout = st.timeout) St.notifyOne
      (fun b x hb => by rw [notifyOne_timeout]; exact hb) _ a ha
  have h2 : (st.checkNotify.checkAsync now).timeout = st.timeout := by
    unfold St.checkAsync
    exact foldl_inv (fun (b : St) => b.timeout = st.timeout) (fun acc h => acc.fireAsync now h)
      (fun b x hb => by rw [fireAsync_timeout]; exact hb) _ _ h1
  exact foldl_inv (fun b => b.timeout = st.timeout) St.retransmit
    (fun b x hb => by rw [retransmit_timeout]; exact hb) _ _ h2

theorem preReclaim_timeoutTicks (st : St) (now : Nat) : (st.preReclaim now).timeoutTicks = st.timeoutTicks := by
  unfold St.timeoutTicks; rw [preReclaim_timeout]

theorem timeoutTicks_pos (st : St) : 0 < st.timeoutTicks := by
  unfold St.timeoutTicks COAP_DEFAULT_SESSION_TIMEOUT TICKS_PER_SECOND
  split <;> omega

end Coap.Sessions
