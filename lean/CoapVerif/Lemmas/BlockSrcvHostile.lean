import CoapVerif.Lemmas.BlockCrcvHostile
/- C09 / C02, server side, Block1, single-body mode against a HOSTILE client: for EVERY sequence of Block1 requests — any
   NUM (< 2^20), More bit, SZX (≤ 6, changing in mid-transfer in both directions), Size1 (absent, too small, too large, up
   to anything), payload length, order, duplicates — whatever body `srcvStep` hands to the request handler consists of
   bytes the client sent for exactly those offsets; no never-written byte of the buffer (`junk`) is delivered.
   Rests on the fixes 11109ea (blocks in a smaller size: ranges rescaled), cb35487 (a short block must be the end of the
   body, nothing follows the block without More), 8abfc44 (block count not truncated to 32 bits), 0b3fb08.
   Core Lean only. -/
set_option linter.unusedSimpArgs false
set_option linter.unusedVariables false
namespace Coap.Block
open Coap.Spec.Block

/-- request `d` carries byte `v` for offset `o` of the body: `o` is not below the offset its Block1 option names and
the payload holds `v` at `o - NUM * 2^(SZX+4)` -/
def SentAt1 (d : Dgram) (o : Nat) (v : UInt8) : Prop :=
  d.num * 2 ^ (d.szx + 4) ≤ o ∧ d.payload[o - d.num * 2 ^ (d.szx + 4)]? = some v

def SentIn1 (hist : List Dgram) (o : Nat) (v : UInt8) : Prop := ∃ d, d ∈ hist ∧ SentAt1 d o v

theorem SentIn1_cons (d : Dgram) (hist : List Dgram) (o : Nat) (v : UInt8) (h : SentIn1 hist o v) :
    SentIn1 (d :: hist) o v := by
  obtain ⟨d', hd', hs⟩ := h
  exact ⟨d', List.mem_cons_of_mem _ hd', hs⟩

theorem SentIn1_mono (h1 h2 : List Dgram) (o : Nat) (v : UInt8) (hsub : ∀ d, d ∈ h1 → d ∈ h2) (h : SentIn1 h1 o v) :
    SentIn1 h2 o v := by
  obtain ⟨d', hd', hs⟩ := h
  exact ⟨d', hsub d' hd', hs⟩

/-- The lg_srcv against ANY client: ranges well formed and bounded, the buffer is as long as the total known, and every
byte of a recorded block that lies below that total is in the buffer and was sent by the client for that offset. -/
structure HSCore (cap : Nat) (hist : List Dgram) (s : Srcv) : Prop where
  wf : WfFrom 0 s.recv
  cnt : s.recv.length ≤ cap - 1
  szxle : s.szx ≤ 6
  bnd : ∀ k, Covers s.recv k → (k + 1) * chunkSize s.szx ≤ 2 ^ 30
  buf : match s.body with
        | none => s.recv = []
        | some b => b.length = s.totalLen ∧ s.recv ≠ [] ∧
            ∀ k, Covers s.recv k → ∀ i, i < chunkSize s.szx → k * chunkSize s.szx + i < s.totalLen →
              ∃ v, b[k * chunkSize s.szx + i]? = some v ∧ SentIn1 hist (k * chunkSize s.szx + i) v

/-- every recorded block lies entirely below the total known (so it is entirely written) -/
def HSFull (s : Srcv) : Prop := ∀ k, Covers s.recv k → (k + 1) * chunkSize s.szx ≤ s.totalLen

/-- … which holds as long as no block without More has been seen; afterwards the total does not grow any more -/
structure HSInv (cap : Nat) (hist : List Dgram) (s : Srcv) : Prop where
  core : HSCore cap hist s
  full : s.noMoreSeen = false → HSFull s

theorem HSCore_cons (cap : Nat) (hist : List Dgram) (d : Dgram) (s : Srcv) (h : HSCore cap hist s) :
    HSCore cap (d :: hist) s := by
  refine { wf := h.wf, cnt := h.cnt, szxle := h.szxle, bnd := h.bnd, buf := ?_ }
  have hb := h.buf
  cases hbody : s.body with
  | none => rw [hbody] at hb; exact hb
  | some b =>
    rw [hbody] at hb
    simp only at hb ⊢
    refine ⟨hb.1, hb.2.1, ?_⟩
    intro k hk i hi ho
    obtain ⟨v, h1, h2⟩ := hb.2.2 k hk i hi ho
    exact ⟨v, h1, SentIn1_cons d hist _ v h2⟩

theorem HSInv_cons (cap : Nat) (hist : List Dgram) (d : Dgram) (s : Srcv) (h : HSInv cap hist s) :
    HSInv cap (d :: hist) s :=
  { core := HSCore_cons cap hist d s h.core, full := h.full }

/-- what a delivery may be -/
def GoodDeliver (hist : List Dgram) (out : SrcvOut) : Prop :=
  ∀ b l, out = SrcvOut.deliver b l → l ≤ b.length ∧ ∀ o, o < l → ∃ v, b[o]? = some v ∧ SentIn1 hist o v

/-- "give_app_data" once `check_all_blocks_in` has said yes -/
theorem srcvGive_hostile (cap : Nat) (hist : List Dgram) (lg1 : Srcv) (hc : HSCore cap hist lg1)
    (hall : checkAllBlocksIn lg1.recv (totalBlocks lg1.totalLen (chunkSize lg1.szx)) = true) :
    GoodDeliver hist (srcvGive lg1) := by
  have hcp := chunk_pos lg1.szx
  intro b l hb
  unfold srcvGive at hb
  have hbuf := hc.buf
  cases hbody : lg1.body with
  | none =>
    rw [hbody] at hb
    simp only at hb
    cases hb
    exact ⟨Nat.zero_le _, fun o ho => by omega⟩
  | some b0 =>
    rw [hbody] at hb hbuf
    simp only at hb hbuf
    cases hb
    obtain ⟨l1, l2, l3⟩ := hbuf
    refine ⟨by omega, ?_⟩
    intro o ho
    rw [totalBlocks_eq _ _ hcp] at hall
    have hcov := checkAllBlocksIn_covers lg1.recv _ hc.wf l2 hall
    have hdm := Nat.div_add_mod o (chunkSize lg1.szx)
    have hml := Nat.mod_lt o hcp
    rw [Nat.mul_comm] at hdm
    have hkT : o / chunkSize lg1.szx + 1 ≤ (lg1.totalLen + chunkSize lg1.szx - 1) / chunkSize lg1.szx := by
      apply (Nat.le_div_iff_mul_le hcp).mpr
      rw [Nat.succ_mul]
      omega
    have := l3 _ (hcov _ hkT) (o % chunkSize lg1.szx) hml (by omega)
    rw [hdm] at this
    exact this

/-- the completion decision, any state that satisfies the core invariant -/
theorem srcvDecide_hostile (cap : Nat) (hist : List Dgram) (lg1 : Srcv) (m : Nat) (st' : Option Srcv) (out : SrcvOut)
    (hc : HSCore cap hist lg1) (hf : m = 1 → lg1.noMoreSeen = false → HSFull lg1)
    (h : srcvDecide lg1 m (2 ^ (lg1.szx + 4)) = (st', out)) :
    (∀ s', st' = some s' → HSInv cap hist s') ∧ GoodDeliver hist out := by
  have hcs : 2 ^ (lg1.szx + 4) = chunkSize lg1.szx := rfl
  rw [hcs] at h
  unfold srcvDecide at h
  dsimp only at h
  by_cases hm1 : m = 1
  · rw [if_pos hm1] at h
    by_cases hcont : ¬ lg1.noMoreSeen = true ∨
        ¬ checkAllBlocksIn lg1.recv (totalBlocks lg1.totalLen (chunkSize lg1.szx)) = true
    · rw [if_pos hcont] at h
      cases h
      refine ⟨fun s' hs => ?_, fun b l hb => (by cases hb)⟩
      cases hs
      exact { core := hc, full := hf hm1 }
    · rw [if_neg hcont] at h
      cases h
      have h2 : checkAllBlocksIn lg1.recv (totalBlocks lg1.totalLen (chunkSize lg1.szx)) = true := by
        cases hx : checkAllBlocksIn lg1.recv (totalBlocks lg1.totalLen (chunkSize lg1.szx)) with
        | true => rfl
        | false => exact (hcont (Or.inr (by rw [hx]; decide))).elim
      exact ⟨fun s' hs => (by cases hs), srcvGive_hostile cap hist lg1 hc h2⟩
  · rw [if_neg hm1] at h
    by_cases hall : ¬ checkAllBlocksIn lg1.recv (totalBlocks lg1.totalLen (chunkSize lg1.szx)) = true
    · rw [if_pos hall] at h
      cases h
      refine ⟨fun s' hs => ?_, fun b l hb => (by cases hb)⟩
      cases hs
      exact { core := { wf := hc.wf, cnt := hc.cnt, szxle := hc.szxle, bnd := hc.bnd, buf := hc.buf },
              full := fun hh => (by cases hh) }
    · rw [if_neg hall] at h
      cases h
      have h2 : checkAllBlocksIn lg1.recv (totalBlocks lg1.totalLen (chunkSize lg1.szx)) = true := by
        cases hx : checkAllBlocksIn lg1.recv (totalBlocks lg1.totalLen (chunkSize lg1.szx)) with
        | true => rfl
        | false => exact (hall (by rw [hx]; decide)).elim
      exact ⟨fun s' hs => (by cases hs), srcvGive_hostile cap hist lg1 hc h2⟩

/-! ## fix 11109ea: the ranges re-expressed in a smaller block size -/

/-- every block number multiplied by `M`: range `[b, e]` becomes `[b * M, (e + 1) * M - 1]` -/
def scaleRanges (rs : Ranges) (M : Nat) : Ranges := rs.map fun r => (r.1 * M, (r.2 + 1) * M - 1)

theorem WfFrom_mem : ∀ (rs : Ranges) (lo : Nat) (r : Nat × Nat), WfFrom lo rs → r ∈ rs → r.1 ≤ r.2 ∧ Covers rs r.2
  | [], _, _, _, hm => by cases hm
  | (b, e) :: rest, lo, r, hw, hm => by
    obtain ⟨h1, h2, h3⟩ := hw
    rw [List.mem_cons] at hm
    rcases hm with hm | hm
    · subst hm
      exact ⟨h2, (covers_cons b e rest e).mpr (Or.inl ⟨h2, Nat.le_refl _⟩)⟩
    · obtain ⟨a, c⟩ := WfFrom_mem rest (e + 2) r h3 hm
      exact ⟨a, (covers_cons b e rest r.2).mpr (Or.inr c)⟩

/-- the uint32_t arithmetic of the rescaling does not wrap as long as the scaled numbers stay below 2^32 -/
theorem rescale_eq_scale (rs : Ranges) (sh : Nat)
    (hb : ∀ r, r ∈ rs → r.1 ≤ r.2 ∧ (r.2 + 1) * 2 ^ sh < 2 ^ 32) : rescaleRanges rs sh = scaleRanges rs (2 ^ sh) := by
  unfold rescaleRanges scaleRanges
  apply List.map_congr_left
  intro r hr
  obtain ⟨h1, h2⟩ := hb r hr
  have hp : 0 < 2 ^ sh := Nat.two_pow_pos _
  have h3 : r.1 * 2 ^ sh ≤ (r.2 + 1) * 2 ^ sh := Nat.mul_le_mul_right _ (by omega)
  have h4 : r.2 + 1 ≤ (r.2 + 1) * 2 ^ sh := Nat.le_mul_of_pos_right _ hp
  have e1 : (r.1 * 2 ^ sh) % 2 ^ 32 = r.1 * 2 ^ sh := Nat.mod_eq_of_lt (by omega)
  have e2 : (r.2 + 1) % 2 ^ 32 = r.2 + 1 := Nat.mod_eq_of_lt (by omega)
  have e3 : ((r.2 + 1) * 2 ^ sh) % 2 ^ 32 = (r.2 + 1) * 2 ^ sh := Nat.mod_eq_of_lt h2
  have e4 : ((r.2 + 1) * 2 ^ sh + (2 ^ 32 - 1)) % 2 ^ 32 = (r.2 + 1) * 2 ^ sh - 1 := by
    generalize (r.2 + 1) * 2 ^ sh = x at *
    omega
  rw [e1, e2, e3, e4]

theorem scale_wf (M : Nat) (hM : 0 < M) : ∀ (rs : Ranges) (lo : Nat), WfFrom lo rs → WfFrom (lo * M) (scaleRanges rs M)
  | [], _, _ => trivial
  | (b, e) :: rest, lo, hw => by
    obtain ⟨h1, h2, h3⟩ := hw
    have ih := scale_wf M hM rest (e + 2) h3
    have a1 : lo * M ≤ b * M := Nat.mul_le_mul_right _ h1
    have a2 : b * M + M ≤ (e + 1) * M := by
      have : (b + 1) * M ≤ (e + 1) * M := Nat.mul_le_mul_right _ (by omega)
      rw [Nat.succ_mul] at this
      exact this
    have a3 : (e + 1) * M + M = (e + 2) * M := (Nat.succ_mul (e + 1) M).symm
    show lo * M ≤ b * M ∧ b * M ≤ (e + 1) * M - 1 ∧ WfFrom ((e + 1) * M - 1 + 2) (scaleRanges rest M)
    refine ⟨a1, by omega, ?_⟩
    exact WfFrom_mono _ _ _ (by omega) ih

theorem scale_covers (M : Nat) (hM : 0 < M) (rs : Ranges) (k : Nat) :
    Covers (scaleRanges rs M) k ↔ Covers rs (k / M) := by
  have key : ∀ r : Nat × Nat, (r.1 * M ≤ k ∧ k ≤ (r.2 + 1) * M - 1) ↔ (r.1 ≤ k / M ∧ k / M ≤ r.2) := by
    intro r
    have h1 : r.1 ≤ k / M ↔ r.1 * M ≤ k := Nat.le_div_iff_mul_le hM
    have h2 : k / M < r.2 + 1 ↔ k < (r.2 + 1) * M := Nat.div_lt_iff_lt_mul hM
    have h3 : 0 < (r.2 + 1) * M := Nat.mul_pos (by omega) hM
    constructor
    · intro ⟨a, b⟩
      exact ⟨h1.mpr a, by have := h2.mpr (by omega); omega⟩
    · intro ⟨a, b⟩
      exact ⟨h1.mp a, by have := h2.mp (by omega); omega⟩
  unfold Covers scaleRanges
  constructor
  · intro ⟨r', hr', h1, h2⟩
    obtain ⟨r, hr, e⟩ := List.mem_map.mp hr'
    subst e
    exact ⟨r, hr, (key r).mp ⟨h1, h2⟩⟩
  · intro ⟨r, hr, h1, h2⟩
    exact ⟨_, List.mem_map.mpr ⟨r, hr, rfl⟩, (key r).mpr ⟨h1, h2⟩⟩

/-- `k' * c' + i` in units `c = M * c'` -/
theorem rescale_index (M c c' k' i : Nat) (hM : 0 < M) (hc : c = M * c') (hi : i < c') :
    k' * c' + i = (k' / M) * c + ((k' % M) * c' + i) ∧ (k' % M) * c' + i < c ∧ (k' + 1) * c' ≤ (k' / M + 1) * c := by
  have hdm := Nat.div_add_mod k' M
  have hml := Nat.mod_lt k' hM
  generalize k' / M = K at *
  generalize k' % M = r at *
  have h1 : k' * c' = K * c + r * c' := by
    rw [← hdm, Nat.add_mul, hc, Nat.mul_comm M K, Nat.mul_assoc]
  have h2 : r * c' + c' ≤ M * c' := by
    have : (r + 1) * c' ≤ M * c' := Nat.mul_le_mul_right _ (by omega)
    rw [Nat.succ_mul] at this
    exact this
  have h3 : (K + 1) * c = K * c + c := Nat.succ_mul _ _
  have h4 : (k' + 1) * c' = k' * c' + c' := Nat.succ_mul _ _
  refine ⟨by omega, by omega, by omega⟩

theorem chunk_scale (a b : Nat) (h : a ≤ b) : chunkSize b = 2 ^ (b - a) * chunkSize a := by
  unfold chunkSize
  rw [← Nat.pow_add]
  congr 1
  omega

/-- the invariant survives the rescaling to a smaller block size -/
theorem HSInv_rescale (cap : Nat) (hist : List Dgram) (lg : Srcv) (szx : Nat) (hlt : szx < lg.szx) (h : HSInv cap hist lg) :
    HSInv cap hist { lg with recv := rescaleRanges lg.recv (lg.szx - szx), szx := szx } := by
  have hM : 0 < 2 ^ (lg.szx - szx) := Nat.two_pow_pos _
  have hc := chunk_scale szx lg.szx (by omega)
  have hc' := chunk_pos szx
  have hcore := h.core
  -- no wrap
  have hres : rescaleRanges lg.recv (lg.szx - szx) = scaleRanges lg.recv (2 ^ (lg.szx - szx)) := by
    apply rescale_eq_scale
    intro r hr
    obtain ⟨a, b⟩ := WfFrom_mem lg.recv 0 r hcore.wf hr
    refine ⟨a, ?_⟩
    have hb := hcore.bnd r.2 b
    rw [hc, ← Nat.mul_assoc] at hb
    have : (r.2 + 1) * 2 ^ (lg.szx - szx) ≤ (r.2 + 1) * 2 ^ (lg.szx - szx) * chunkSize szx :=
      Nat.le_mul_of_pos_right _ hc'
    omega
  rw [hres]
  generalize hMe : 2 ^ (lg.szx - szx) = M at *
  have hcov : ∀ k', Covers (scaleRanges lg.recv M) k' → Covers lg.recv (k' / M) := fun k' hk => (scale_covers M hM lg.recv k').mp hk
  refine { core := { wf := ?_, cnt := ?_, szxle := ?_, bnd := ?_, buf := ?_ }, full := ?_ }
  · have := scale_wf M hM lg.recv 0 hcore.wf
    rw [Nat.zero_mul] at this
    exact this
  · show (scaleRanges lg.recv M).length ≤ cap - 1
    unfold scaleRanges
    rw [List.length_map]
    exact hcore.cnt
  · show szx ≤ 6
    have := hcore.szxle
    omega
  · intro k' hk'
    show (k' + 1) * chunkSize szx ≤ 2 ^ 30
    have hK := hcore.bnd _ (hcov k' hk')
    obtain ⟨_, _, e3⟩ := rescale_index M (chunkSize lg.szx) (chunkSize szx) k' 0 hM hc hc'
    omega
  · have hbuf := hcore.buf
    cases hbody : lg.body with
    | none =>
      rw [hbody] at hbuf
      simp only at hbuf ⊢
      rw [hbuf]
      rfl
    | some b =>
      rw [hbody] at hbuf
      simp only at hbuf ⊢
      obtain ⟨l1, l2, l3⟩ := hbuf
      refine ⟨l1, ?_, ?_⟩
      · intro he
        apply l2
        unfold scaleRanges at he
        exact List.map_eq_nil_iff.mp he
      · intro k' hk' i hi ho
        obtain ⟨e1, e2, _⟩ := rescale_index M (chunkSize lg.szx) (chunkSize szx) k' i hM hc hi
        rw [e1] at ho ⊢
        exact l3 _ (hcov k' hk') _ e2 ho
  · intro hn k' hk'
    show (k' + 1) * chunkSize szx ≤ lg.totalLen
    have hK := h.full hn _ (hcov k' hk')
    obtain ⟨_, _, e3⟩ := rescale_index M (chunkSize lg.szx) (chunkSize szx) k' 0 hM hc hc'
    omega

/-! ## one request -/

theorem nBlocks_zero (szx : Nat) : nBlocks 0 szx = 0 := by
  unfold nBlocks
  have := chunk_pos szx
  exact Nat.div_eq_of_lt (by omega)

/-- a length that is a multiple of the block size is exactly that many blocks -/
theorem nBlocks_mul_exact (len szx : Nat) (h : len % chunkSize szx = 0) : nBlocks len szx * chunkSize szx = len := by
  have hc := chunk_pos szx
  have h1 : nBlocks len szx = totalBlocks len (chunkSize szx) := (totalBlocks_eq len _ hc).symm
  unfold totalBlocks at h1
  rw [if_neg (by omega)] at h1
  have h2 := Nat.div_add_mod len (chunkSize szx)
  rw [h, Nat.add_zero, Nat.mul_comm] at h2
  rw [h1, Nat.add_zero]
  exact h2

/-- record the blocks the payload covers, store it, decide — ANY payload, any state satisfying the invariant.
`q` = how many blocks of the tracked size the request's block size is, `n` = its first block in tracked units. -/
theorem srcvCore_hostile (cap : Nat) (junk : UInt8) (hist : List Dgram) (d : Dgram) (lg : Srcv) (n q : Nat)
    (data : Bytes) (st' : Option Srcv) (out : SrcvOut)
    (hinv : HSInv cap hist lg)
    (hq : 2 ^ (d.szx + 4) = q * chunkSize lg.szx)
    (hn : d.num * 2 ^ (d.szx + 4) = n * chunkSize lg.szx)
    (hbound : (n + q) * chunkSize lg.szx ≤ 2 ^ 30)
    (hdata : data = d.payload.take (2 ^ (d.szx + 4)))
    (hm : d.m = 1 → data.length = 2 ^ (d.szx + 4))
    (h : srcvCore cap junk lg n lg.szx d.m data (d.num * 2 ^ (d.szx + 4)) = (st', out)) :
    (∀ s', st' = some s' → HSInv cap (d :: hist) s') ∧ GoodDeliver (d :: hist) out := by
  have hc := chunk_pos lg.szx
  have hcs : 2 ^ (lg.szx + 4) = chunkSize lg.szx := rfl
  have hcore := hinv.core
  have hdl : data.length ≤ q * chunkSize lg.szx := by
    rw [hdata, List.length_take, ← hq]; exact Nat.min_le_left _ _
  -- the byte at offset `o` of the window is a byte this request carries for `o`
  have hsent : ∀ o, d.num * 2 ^ (d.szx + 4) ≤ o → o < d.num * 2 ^ (d.szx + 4) + data.length →
      ∃ v, data[o - d.num * 2 ^ (d.szx + 4)]? = some v ∧ SentIn1 (d :: hist) o v := by
    intro o h1 h2
    have hj : o - d.num * 2 ^ (d.szx + 4) < data.length := by omega
    refine ⟨data[o - d.num * 2 ^ (d.szx + 4)], List.getElem?_eq_getElem hj, d, List.mem_cons_self, h1, ?_⟩
    have e1 : data[o - d.num * 2 ^ (d.szx + 4)]? = (d.payload.take (2 ^ (d.szx + 4)))[o - d.num * 2 ^ (d.szx + 4)]? := by
      rw [← hdata]
    have hj2 : o - d.num * 2 ^ (d.szx + 4) < 2 ^ (d.szx + 4) := by
      have : data.length ≤ 2 ^ (d.szx + 4) := by rw [hdata, List.length_take]; exact Nat.min_le_left _ _
      omega
    rw [List.getElem?_take, if_pos hj2] at e1
    rw [← e1]
    exact List.getElem?_eq_getElem hj
  generalize hoff : d.num * 2 ^ (d.szx + 4) = off at *
  -- nothing recorded: the decision on the state as it is
  have hsame : srcvDecide lg d.m (chunkSize lg.szx) = (st', out) →
      (∀ s', st' = some s' → HSInv cap (d :: hist) s') ∧ GoodDeliver (d :: hist) out := by
    intro hd
    exact srcvDecide_hostile cap (d :: hist) lg d.m st' out (HSCore_cons cap hist d lg hcore)
      (fun _ hnm => hinv.full hnm) (by rw [hcs]; exact hd)
  unfold srcvCore at h
  dsimp only at h
  rw [hcs] at h
  by_cases hguard : (data.length % chunkSize lg.szx ≠ 0 ∧ off + data.length < lg.totalLen) ∨
      (lg.noMoreSeen = true ∧ off + data.length > lg.totalLen)
  · rw [if_pos hguard] at h
    cases h
    exact ⟨fun s' hs => (by cases hs), fun b l hb => (by cases hb)⟩
  rw [if_neg hguard] at h
  have g1 : data.length % chunkSize lg.szx ≠ 0 → lg.totalLen ≤ off + data.length := by
    intro hh
    apply Classical.byContradiction
    intro hlt
    exact hguard (Or.inl ⟨hh, by omega⟩)
  have g2 : lg.noMoreSeen = true → off + data.length ≤ lg.totalLen := by
    intro hh
    apply Classical.byContradiction
    intro hlt
    exact hguard (Or.inr ⟨hh, by omega⟩)
  have hcnt : (data.length + chunkSize lg.szx - 1) / chunkSize lg.szx = nBlocks data.length lg.szx := rfl
  rw [hcnt] at h
  by_cases hlen0 : data.length = 0
  · -- empty payload: no block is recorded
    rw [hlen0, nBlocks_zero] at h
    simp only [recvLoop, Bool.false_eq_true, if_false] at h
    exact hsame h
  have hD1 : 0 < data.length := by omega
  have hnb : 0 < nBlocks data.length lg.szx := (lt_nBlocks_iff data.length lg.szx 0).mpr (by omega)
  have hF1 : (nBlocks data.length lg.szx - 1) * chunkSize lg.szx < data.length :=
    (lt_nBlocks_iff data.length lg.szx _).mp (by omega)
  have hF2 := nBlocks_mul_ge data.length lg.szx
  generalize hcn : nBlocks data.length lg.szx = cnt at *
  have hcq : cnt ≤ q := by
    have : (cnt - 1) * chunkSize lg.szx < q * chunkSize lg.szx := by omega
    have := Nat.lt_of_mul_lt_mul_right this
    omega
  have hfullwin : data.length % chunkSize lg.szx = 0 → cnt * chunkSize lg.szx = data.length := by
    intro hh
    rw [← hcn]
    exact nBlocks_mul_exact data.length lg.szx hh
  -- block `k` of the window, in bytes
  have hwin : ∀ k, n ≤ k → k < n + cnt → off ≤ k * chunkSize lg.szx ∧
      (k + 1) * chunkSize lg.szx ≤ off + cnt * chunkSize lg.szx ∧ (k + 1) * chunkSize lg.szx ≤ 2 ^ 30 := by
    intro k hk1 hk2
    have e1 : n * chunkSize lg.szx ≤ k * chunkSize lg.szx := Nat.mul_le_mul_right _ hk1
    have e2 : (k + 1) * chunkSize lg.szx ≤ (n + cnt) * chunkSize lg.szx := Nat.mul_le_mul_right _ (by omega)
    have e3 : (n + cnt) * chunkSize lg.szx ≤ (n + q) * chunkSize lg.szx := Nat.mul_le_mul_right _ (by omega)
    have e4 : (n + cnt) * chunkSize lg.szx = n * chunkSize lg.szx + cnt * chunkSize lg.szx := Nat.add_mul _ _ _
    exact ⟨by omega, by omega, by omega⟩
  cases hloop : recvLoop cap cnt lg.recv n false with
  | none =>
    rw [hloop] at h
    cases h
    exact ⟨fun s' hs => (by cases hs), fun b l hb => (by cases hb)⟩
  | some res =>
    obtain ⟨rec', updated⟩ := res
    rw [hloop] at h
    dsimp only at h
    obtain ⟨w1, w2, w3, w4⟩ := recvLoop_spec cap _ lg.recv n false rec' updated hcore.wf hcore.cnt hloop
    cases updated with
    | false =>
      have hrec := w4 rfl
      subst hrec
      simp only [Bool.false_eq_true, if_false] at h
      exact hsame h
    | true =>
      simp only [if_true] at h
      generalize htl : (if lg.totalLen < off + data.length then off + data.length else lg.totalLen) = tl' at h
      have hbufl : ∀ b, lg.body = some b → b.length = lg.totalLen := by
        intro b hb
        have := hcore.buf
        rw [hb] at this
        exact this.1
      obtain ⟨b', hb1, hb2, hb3, hb4⟩ := buildBody_spec junk lg.body data off lg.totalLen tl' hD1 hbufl htl.symm
      rw [hb1] at h
      dsimp only at h
      have ht : lg.totalLen ≤ tl' ∧ off + data.length ≤ tl' ∧ (tl' = lg.totalLen ∨ (tl' = off + data.length ∧ lg.totalLen < tl')) := by
        by_cases hh : lg.totalLen < off + data.length
        · rw [if_pos hh] at htl; omega
        · rw [if_neg hh] at htl; omega
      obtain ⟨t1, t2, t3⟩ := ht
      have hne : rec' ≠ [] := by
        intro he
        have : Covers rec' n := (w3 n).mpr (Or.inr ⟨Nat.le_refl _, by omega⟩)
        rw [he] at this
        exact (covers_nil n).mp this
      have hcore1 : HSCore cap (d :: hist) { lg with recv := rec', totalLen := tl', body := some b' } := by
        refine { wf := w1, cnt := w2, szxle := hcore.szxle, bnd := ?_, buf := ?_ }
        · intro k hk
          show (k + 1) * chunkSize lg.szx ≤ 2 ^ 30
          rcases (w3 k).mp hk with hk | hk
          · exact hcore.bnd k hk
          · exact (hwin k hk.1 hk.2).2.2
        · show b'.length = tl' ∧ rec' ≠ [] ∧ ∀ k, Covers rec' k → ∀ i, i < chunkSize lg.szx → k * chunkSize lg.szx + i < tl' →
              ∃ v, b'[k * chunkSize lg.szx + i]? = some v ∧ SentIn1 (d :: hist) (k * chunkSize lg.szx + i) v
          refine ⟨hb2, hne, ?_⟩
          intro k hk i hi ho
          by_cases hw : off ≤ k * chunkSize lg.szx + i ∧ k * chunkSize lg.szx + i < off + data.length
          · obtain ⟨v, e1, e2⟩ := hsent _ hw.1 hw.2
            exact ⟨v, by rw [hb3 _ hw.1 hw.2]; exact e1, e2⟩
          · by_cases hkw : n ≤ k ∧ k < n + cnt
            · -- inside the window but behind the payload: impossible below the total
              obtain ⟨f1, f2, _⟩ := hwin k hkw.1 hkw.2
              have hsk : (k + 1) * chunkSize lg.szx = k * chunkSize lg.szx + chunkSize lg.szx := Nat.succ_mul _ _
              by_cases hmod : data.length % chunkSize lg.szx = 0
              · have := hfullwin hmod
                exact (hw ⟨by omega, by omega⟩).elim
              · have := g1 hmod
                exact (hw ⟨by omega, by omega⟩).elim
            · -- a block recorded before
              have hkold : Covers lg.recv k := by
                rcases (w3 k).mp hk with hk | hk
                · exact hk
                · exact (hkw hk).elim
              have hlt : k * chunkSize lg.szx + i < lg.totalLen := by
                rcases t3 with t3 | ⟨t3, t4⟩
                · omega
                · cases hnm : lg.noMoreSeen with
                  | false =>
                    have := hinv.full hnm k hkold
                    have hsk : (k + 1) * chunkSize lg.szx = k * chunkSize lg.szx + chunkSize lg.szx := Nat.succ_mul _ _
                    omega
                  | true =>
                    have := g2 hnm
                    omega
              have hbuf := hcore.buf
              cases hbody : lg.body with
              | none =>
                rw [hbody] at hbuf
                simp only at hbuf
                rw [hbuf] at hkold
                exact ((covers_nil k).mp hkold).elim
              | some b =>
                rw [hbody] at hbuf
                simp only at hbuf
                obtain ⟨v, e1, e2⟩ := hbuf.2.2 k hkold i hi hlt
                refine ⟨v, ?_, SentIn1_cons d hist _ v e2⟩
                rw [hb4 b hbody _ hlt hw]
                exact e1
      have hfull1 : d.m = 1 → lg.noMoreSeen = false →
          HSFull { lg with recv := rec', totalLen := tl', body := some b' } := by
        intro hm1 hnm k hk
        show (k + 1) * chunkSize lg.szx ≤ tl'
        rcases (w3 k).mp hk with hk | hk
        · have := hinv.full hnm k hk
          omega
        · obtain ⟨_, f2, _⟩ := hwin k hk.1 hk.2
          have hmod : data.length % chunkSize lg.szx = 0 := by
            rw [hm hm1, hq]; exact Nat.mul_mod_left _ _
          have := hfullwin hmod
          omega
      exact srcvDecide_hostile cap (d :: hist) _ d.m st' out hcore1 hfull1 (by rw [hcs]; exact h)

theorem block_end_bound (num szx : Nat) (hnum : num < 2 ^ 20) (hszx : szx ≤ 6) : (num + 1) * 2 ^ (szx + 4) ≤ 2 ^ 30 := by
  have h1 : num + 1 ≤ 2 ^ 20 := by omega
  have h2 : 2 ^ (szx + 4) ≤ 2 ^ 10 := Nat.pow_le_pow_right (by decide) (by omega)
  have h3 := Nat.mul_le_mul h1 h2
  have h4 : (2 : Nat) ^ 20 * 2 ^ 10 = 2 ^ 30 := by decide
  omega

/-- one Block1 request of ANY kind (NUM < 2^20, SZX ≤ 6: what `coap_get_block_b` lets through, `block_opt_bounds`) -/
theorem srcvStep_hostile (cap : Nat) (junk : UInt8) (maxBlk : Nat) (hist : List Dgram) (d : Dgram)
    (st st' : Option Srcv) (out : SrcvOut)
    (hst : ∀ s, st = some s → HSInv cap hist s) (hnum : d.num < 2 ^ 20) (hszx : d.szx ≤ 6)
    (h : srcvStep cap junk maxBlk st d.num d.m d.szx d.payload d.size1 = (st', out)) :
    (∀ s', st' = some s' → HSInv cap (d :: hist) s') ∧ GoodDeliver (d :: hist) out := by
  have hc0 : 0 < 2 ^ (d.szx + 4) := Nat.two_pow_pos _
  have hkeep : (∀ s', st = some s' → HSInv cap (d :: hist) s') := fun s' hs => HSInv_cons cap hist d s' (hst s' hs)
  unfold srcvStep at h
  dsimp only at h
  by_cases hsingle : d.num = 0 ∧ d.m = 0
  · -- "Not blocked, or a single block": the payload as it is
    rw [if_pos hsingle] at h
    cases h
    refine ⟨hkeep, ?_⟩
    intro b l hb
    cases hb
    refine ⟨Nat.le_refl _, ?_⟩
    intro o ho
    refine ⟨d.payload[o], List.getElem?_eq_getElem ho, d, List.mem_cons_self, ?_, ?_⟩
    · rw [hsingle.1, Nat.zero_mul]; exact Nat.zero_le _
    · rw [hsingle.1, Nat.zero_mul, Nat.sub_zero]; exact List.getElem?_eq_getElem ho
  rw [if_neg hsingle] at h
  by_cases hund : ¬ (d.payload.length > 2 ^ (d.szx + 4)) ∧ d.m = 1 ∧ d.payload.length ≠ 2 ^ (d.szx + 4)
  · rw [if_pos hund] at h
    cases h
    exact ⟨hkeep, fun b l hb => (by cases hb)⟩
  rw [if_neg hund] at h
  have hdata : (if d.payload.length > 2 ^ (d.szx + 4) then d.payload.take (2 ^ (d.szx + 4)) else d.payload) =
      d.payload.take (2 ^ (d.szx + 4)) := by
    by_cases hl : d.payload.length > 2 ^ (d.szx + 4)
    · rw [if_pos hl]
    · rw [if_neg hl, List.take_of_length_le (by omega)]
  rw [hdata] at h
  generalize hdd : d.payload.take (2 ^ (d.szx + 4)) = data at h
  have hm : d.m = 1 → data.length = 2 ^ (d.szx + 4) := by
    intro hm1
    rw [← hdd, List.length_take]
    by_cases hl : d.payload.length > 2 ^ (d.szx + 4)
    · omega
    · have : d.payload.length = 2 ^ (d.szx + 4) := by
        apply Classical.byContradiction
        intro hh
        exact hund ⟨hl, hm1, hh⟩
      omega
  -- the lg_srcv the block is processed against
  generalize hlg : srcvLocate maxBlk st d.num d.szx d.size1 = lg at h
  have hlginv : HSInv cap hist lg := by
    unfold srcvLocate at hlg
    cases st with
    | some s => simp only at hlg; subst hlg; exact hst s rfl
    | none =>
      simp only at hlg
      subst hlg
      refine { core := { wf := trivial, cnt := Nat.zero_le _, szxle := ?_, bnd := ?_, buf := rfl }, full := ?_ }
      · dsimp only; split <;> omega
      · intro k hk; exact ((covers_nil k).mp hk).elim
      · intro _ k hk; exact ((covers_nil k).mp hk).elim
  have hbnd := block_end_bound d.num d.szx hnum hszx
  unfold srcvConv at h
  by_cases hbig : d.szx > lg.szx
  · -- a block in a larger size: several blocks of the tracked size
    rw [if_pos hbig] at h
    have hq := chunk_scale lg.szx d.szx (by omega)
    have hq' : 2 ^ (d.szx + 4) = 2 ^ (d.szx - lg.szx) * chunkSize lg.szx := hq
    have hp6 : 2 ^ (d.szx - lg.szx) ≤ 2 ^ 6 := Nat.pow_le_pow_right (by decide) (by omega)
    have hnw : (d.num * 2 ^ (d.szx - lg.szx)) % 2 ^ 32 = d.num * 2 ^ (d.szx - lg.szx) := by
      apply Nat.mod_eq_of_lt
      have h1 := Nat.mul_le_mul (Nat.le_of_lt hnum) hp6
      have h4 : (2 : Nat) ^ 20 * 2 ^ 6 = 2 ^ 26 := by decide
      omega
    rw [hnw] at h
    have hn : d.num * 2 ^ (d.szx + 4) = d.num * 2 ^ (d.szx - lg.szx) * chunkSize lg.szx := by
      rw [hq', Nat.mul_assoc]
    have hb2 : (d.num * 2 ^ (d.szx - lg.szx) + 2 ^ (d.szx - lg.szx)) * chunkSize lg.szx ≤ 2 ^ 30 := by
      have : (d.num * 2 ^ (d.szx - lg.szx) + 2 ^ (d.szx - lg.szx)) * chunkSize lg.szx = (d.num + 1) * 2 ^ (d.szx + 4) := by
        rw [hq', Nat.succ_mul, Nat.add_mul, Nat.mul_assoc]
      omega
    exact srcvCore_hostile cap junk hist d lg _ _ data st' out hlginv hq' hn hb2 hdd.symm hm h
  · rw [if_neg hbig] at h
    have hq1 : ∀ s : Nat, s = d.szx → 2 ^ (d.szx + 4) = 1 * chunkSize s := by
      intro s hs; rw [hs, Nat.one_mul]; rfl
    by_cases hsmall : d.szx < lg.szx
    · -- a block in a smaller size: the ranges are rescaled, that size is tracked from now on
      rw [if_pos hsmall] at h
      have hinv' := HSInv_rescale cap hist lg d.szx hsmall hlginv
      exact srcvCore_hostile cap junk hist d _ d.num 1 data st' out hinv' (hq1 _ rfl) rfl
        (by show (d.num + 1) * chunkSize d.szx ≤ 2 ^ 30; exact hbnd) hdd.symm hm h
    · rw [if_neg hsmall] at h
      have he : d.szx = lg.szx := by omega
      rw [he] at h
      have h' : srcvCore cap junk lg d.num lg.szx d.m data (d.num * 2 ^ (d.szx + 4)) = (st', out) := by
        rw [he]; exact h
      exact srcvCore_hostile cap junk hist d lg d.num 1 data st' out hlginv (hq1 _ he.symm) (by rw [he]; rfl)
        (by rw [← he]; exact hbnd) hdd.symm hm h'

/-- along EVERY run: the `i`-th output, if it is a delivery, consists of bytes sent in the requests up to the `i`-th -/
theorem runSrcv_hostile (cap : Nat) (junk : UInt8) (maxBlk : Nat) : ∀ (ds : List Dgram) (st : Option Srcv) (hist : List Dgram),
    (∀ s, st = some s → HSInv cap hist s) → (∀ d, d ∈ ds → d.num < 2 ^ 20 ∧ d.szx ≤ 6) →
    ∀ i b l, (runSrcv cap junk maxBlk st ds)[i]? = some (SrcvOut.deliver b l) →
      l ≤ b.length ∧ ∀ o, o < l → ∃ v, b[o]? = some v ∧ SentIn1 (hist ++ ds.take (i + 1)) o v
  | [], _, _, _, _, i, b, l, h => by simp [runSrcv] at h
  | d :: ds, st, hist, hst, hds, i, b, l, h => by
    obtain ⟨hd1, hd2⟩ := hds d List.mem_cons_self
    obtain ⟨hnext, hout⟩ := srcvStep_hostile cap junk maxBlk hist d st _ _ hst hd1 hd2 rfl
    unfold runSrcv at h
    cases i with
    | zero =>
      simp only [List.getElem?_cons_zero, Option.some.injEq] at h
      obtain ⟨a, c⟩ := hout b l h
      refine ⟨a, fun o ho => ?_⟩
      obtain ⟨v, h1, h2⟩ := c o ho
      refine ⟨v, h1, SentIn1_mono _ _ o v ?_ h2⟩
      intro x hx
      simp only [List.take_succ_cons, List.take_zero, List.mem_append, List.mem_cons, List.mem_singleton] at hx ⊢
      rcases hx with hx | hx
      · exact Or.inr (Or.inl hx)
      · exact Or.inl hx
    | succ j =>
      simp only [List.getElem?_cons_succ] at h
      obtain ⟨a, c⟩ := runSrcv_hostile cap junk maxBlk ds _ (d :: hist) hnext
        (fun x hx => hds x (List.mem_cons_of_mem _ hx)) j b l h
      refine ⟨a, fun o ho => ?_⟩
      obtain ⟨v, h1, h2⟩ := c o ho
      refine ⟨v, h1, SentIn1_mono _ _ o v ?_ h2⟩
      intro x hx
      simp only [List.take_succ_cons, List.mem_append, List.mem_cons] at hx ⊢
      rcases hx with (hx | hx) | hx
      · exact Or.inr (Or.inl hx)
      · exact Or.inl hx
      · exact Or.inr (Or.inr hx)

end Coap.Block
