import CoapVerif.Model.WkBlock
import CoapVerif.Lemmas.LinkFormat
/- Helper lemmas for C20's interleaved block-wise GETs: the Block2 response cache, keyed by the query string,
   always serves a transfer from its own listing. -/
namespace Coap.M.LF
open Coap Coap.LF

theorem nblocks_pos (len chunk : Nat) (hc : 0 < chunk) : 1 ≤ nblocks len chunk := by
  unfold nblocks
  split
  · omega
  · rename_i h
    have : chunk ≤ len + chunk - 1 := by omega
    exact Nat.div_pos this hc

theorem nblocks_le_iff (len chunk m : Nat) (hc : 0 < chunk) (hm : 1 ≤ m) :
    nblocks len chunk ≤ m ↔ len ≤ m * chunk := by
  unfold nblocks
  split
  · rename_i h; subst h; simp; omega
  · rw [← Nat.lt_succ_iff, Nat.div_lt_iff_lt_mul hc, Nat.succ_mul]
    omega

theorem valid_of_lt_nblocks (len chunk n : Nat) (hc : 0 < chunk) (h : n < nblocks len chunk) :
    n = 0 ∨ n * chunk < len := by
  by_cases h0 : n = 0
  · exact Or.inl h0
  · right
    apply Nat.lt_of_not_le
    intro hle
    have := (nblocks_le_iff len chunk n hc (by omega)).mpr hle
    omega

/-- the facts about the transfers of a script the cache argument needs -/
structure Keyed (t : Table) (xs : List Xfer) : Prop where
  /-- coap_get_query() returns a string (or NULL) -/
  hq : ∀ xf ∈ xs, ∃ k, MU.getQuery xf.opts = R.ok k
  /-- the handler's body is the transfer's listing -/
  hb : ∀ xf ∈ xs, getBody t xf.opts = R.ok (getListing t xf.opts)
  /-- **the cache is keyed by the query**: transfers whose query strings compare equal have the same listing -/
  hkey : ∀ xf ∈ xs, ∀ yf ∈ xs, ∀ k1 k2, MU.getQuery xf.opts = R.ok k1 → MU.getQuery yf.opts = R.ok k2 →
    keyEq k1 k2 = true → getListing t xf.opts = getListing t yf.opts

/-- invariant of one session's cache: every entry was made with the script's block size and holds the listing of
every transfer whose query string it is keyed by -/
def CInv (t : Table) (szx : Nat) (xs : List Xfer) (c : Cache) : Prop :=
  ∀ e ∈ c, e.szx = szx ∧ ∀ xf ∈ xs, ∀ k, MU.getQuery xf.opts = R.ok k → keyEq e.key k = true →
    e.data = getListing t xf.opts

theorem CInv_eraseP {t : Table} {szx : Nat} {xs : List Xfer} {c : Cache} (p : LgXmit → Bool)
    (h : CInv t szx xs c) : CInv t szx xs (c.eraseP p) :=
  fun e he => h e (List.mem_of_mem_eraseP he)

theorem keyEq_trans {a b c : Option Bytes} (h1 : keyEq a b = true) (h2 : keyEq b c = true) : keyEq a c = true := by
  simp only [keyEq, beq_iff_eq] at *
  rw [h1, h2]

theorem keyEq_symm {a b : Option Bytes} (h1 : keyEq a b = true) : keyEq b a = true := by
  simp only [keyEq, beq_iff_eq] at *
  exact h1.symm

/-- one request of transfer `xf` for a block it may ask for is answered with that block of ITS listing, whatever
else the session's cache holds -/
theorem serve_own_block (t : Table) (szx : Nat) (xs : List Xfer) (K : Keyed t xs) (c : Cache)
    (hc : CInv t szx xs c) (xf : Xfer) (hx : xf ∈ xs) (num : Nat)
    (hv : num = 0 ∨ num * 2 ^ (szx + 4) < (getListing t xf.opts).length) :
    ∃ c', serve t c ⟨xf.opts, num, szx⟩ =
        R.ok (c', Resp.blk (block (getListing t xf.opts) (2 ^ (szx + 4)) num)
                           (decide ((num + 1) * 2 ^ (szx + 4) < (getListing t xf.opts).length))) ∧
      CInv t szx xs c' := by
  obtain ⟨key, hkq⟩ := K.hq xf hx
  have hbody := K.hb xf hx
  generalize hL : getListing t xf.opts = L at *
  generalize hch : 2 ^ (szx + 4) = chunk at *
  have hcpos : 0 < chunk := by rw [← hch]; exact Nat.pow_pos (by omega)
  -- the handler path
  have fresh : ∃ c', serveFresh t c key ⟨xf.opts, num, szx⟩ =
        R.ok (c', Resp.blk (block L chunk num) (decide ((num + 1) * chunk < L.length))) ∧ CInv t szx xs c' := by
    unfold serveFresh
    simp only [hbody, hch]
    by_cases hl0 : L.length = 0
    · have hLn : L = [] := List.eq_nil_of_length_eq_zero hl0
      rw [if_pos hl0]
      refine ⟨c, ?_, hc⟩
      subst hLn
      have : num = 0 := by
        rcases hv with h | h
        · exact h
        · simp at h
      subst this
      simp [block]
    · rw [if_neg hl0]
      have hnot : ¬ (num ≠ 0 ∧ L.length ≤ num * chunk) := by
        rintro ⟨h1, h2⟩; rcases hv with h | h <;> omega
      rw [if_neg hnot]
      by_cases hn : num = 0
      · subst hn
        simp only [ne_eq, not_true_eq_false, if_false]
        by_cases hbig : L.length > chunk
        · rw [if_pos hbig]
          have e1 : block L chunk 0 = L.take chunk := by simp [block]
          have e2 : decide ((0 + 1) * chunk < L.length) = true := by simp; omega
          rw [e1, e2]
          refine ⟨⟨key, L, szx⟩ :: c.eraseP (fun e => keyEq e.key key), rfl, ?_⟩
          · intro e he
            rcases List.mem_cons.mp he with he | he
            · subst he
              refine ⟨rfl, ?_⟩
              intro yf hy k2 hk2 hke
              rw [← hL]
              exact K.hkey xf hx yf hy key k2 hkq hk2 hke
            · exact CInv_eraseP _ hc e he
        · rw [if_neg hbig]
          have e1 : block L chunk 0 = L := by
            simp only [block, Nat.zero_mul, List.drop_zero]
            exact List.take_of_length_le (by omega)
          have e2 : decide ((0 + 1) * chunk < L.length) = false := by simp; omega
          rw [e1, e2]
          exact ⟨c.eraseP (fun e => keyEq e.key key), rfl, CInv_eraseP _ hc⟩
      · simp only [ne_eq, hn, not_false_eq_true, if_true]
        exact ⟨c.eraseP (fun e => keyEq e.key key), rfl, CInv_eraseP _ hc⟩
  unfold serve
  simp only [hkq]
  by_cases hn : num = 0
  · rw [if_pos hn]; exact fresh
  · rw [if_neg hn]
    cases hf : findXmit c key with
    | none => exact fresh
    | some e =>
      simp only []
      have hmem : e ∈ c := List.mem_of_find?_eq_some hf
      have hke : keyEq e.key key = true := by
        have := List.find?_some hf
        simpa using this
      obtain ⟨hsz, hdat⟩ := hc e hmem
      have hd : e.data = L := by rw [← hL]; exact hdat xf hx key hkq hke
      rw [hsz, hch, hd]
      have hlt : num * chunk < L.length := by rcases hv with h | h <;> omega
      rw [if_neg (by omega)]
      refine ⟨c, ?_, hc⟩
      congr 3
      rw [Nat.succ_mul]


/-! ### the script: any interleaving -/

/-- closed form of a transfer's client state after it has been given `k` turns -/
def xAfter (L : Bytes) (chunk k : Nat) : XState :=
  ⟨L.take (min k (nblocks L.length chunk) * chunk), min k (nblocks L.length chunk),
   decide (nblocks L.length chunk ≤ k), false⟩

/-- invariant of a run: every session's cache is sound, every transfer is where `k i` turns of its own would have
brought it had it been alone -/
def SInv (t : Table) (szx : Nat) (xs : List Xfer) (st : SState) (k : Nat → Nat) : Prop :=
  (∀ sid, CInv t szx xs (st.cache sid)) ∧
  ∀ i xf, xs[i]? = some xf → st.x i = xAfter (getListing t xf.opts) (2 ^ (szx + 4)) (k i)

theorem xAfter_done (L : Bytes) (chunk k : Nat) (h : nblocks L.length chunk ≤ k) :
    xAfter L chunk (k + 1) = xAfter L chunk k := by
  simp only [xAfter]
  rw [Nat.min_eq_right h, Nat.min_eq_right (by omega)]
  simp [h]; omega

theorem xAfter_step (L : Bytes) (chunk n : Nat) (hc : 0 < chunk) (h : n < nblocks L.length chunk) :
    (⟨L.take (n * chunk) ++ block L chunk n, n + 1, !decide ((n + 1) * chunk < L.length), false⟩ : XState) =
      xAfter L chunk (n + 1) := by
  simp only [xAfter]
  rw [Nat.min_eq_left (by omega : n + 1 ≤ nblocks L.length chunk)]
  have h1 : L.take (n * chunk) ++ block L chunk n = L.take ((n + 1) * chunk) := by
    rw [Nat.succ_mul, List.take_add]; rfl
  have h2 : (!decide ((n + 1) * chunk < L.length)) = decide (nblocks L.length chunk ≤ n + 1) := by
    rw [Bool.eq_iff_iff]
    simp only [Bool.not_eq_true', decide_eq_false_iff_not, decide_eq_true_eq, Nat.not_lt]
    exact (nblocks_le_iff L.length chunk (n + 1) hc (by omega)).symm
  rw [h1, h2]

theorem stepX_inv (t : Table) (szx : Nat) (xs : List Xfer) (K : Keyed t xs) (st : SState) (k : Nat → Nat)
    (h : SInv t szx xs st k) (i : Nat) : SInv t szx xs (stepX t szx xs st i) (upd k i (k i + 1)) := by
  obtain ⟨hcache, hxs⟩ := h
  have hcpos : 0 < 2 ^ (szx + 4) := Nat.pow_pos (by omega)
  unfold stepX
  cases hx : xs[i]? with
  | none =>
    refine ⟨hcache, ?_⟩
    intro j xf hj
    have hne : j ≠ i := by intro he; subst he; rw [hx] at hj; cases hj
    simp only [upd, hne, if_false]
    exact hxs j xf hj
  | some xf =>
    simp only []
    have hxi := hxs i xf hx
    have hmem : xf ∈ xs := List.mem_of_getElem? hx
    by_cases hd : nblocks (getListing t xf.opts).length (2 ^ (szx + 4)) ≤ k i
    · -- complete: nothing is sent
      have hdone : (st.x i).done = true := by rw [hxi]; simp [xAfter, hd]
      rw [if_pos hdone]
      refine ⟨hcache, ?_⟩
      intro j yf hj
      by_cases hji : j = i
      · subst hji
        rw [hx] at hj; cases hj
        simp only [upd, if_true]
        rw [xAfter_done _ _ _ hd]; exact hxi
      · simp only [upd, hji, if_false]; exact hxs j yf hj
    · have hlt : k i < nblocks (getListing t xf.opts).length (2 ^ (szx + 4)) := by omega
      have hdone : ¬ (st.x i).done = true := by rw [hxi]; simp [xAfter, hd]
      rw [if_neg hdone]
      have hnext : (st.x i).next = k i := by rw [hxi]; simp [xAfter]; omega
      have hbuf : (st.x i).buf = (getListing t xf.opts).take (k i * 2 ^ (szx + 4)) := by
        rw [hxi]; simp only [xAfter]; rw [Nat.min_eq_left (by omega)]
      obtain ⟨c', hserve, hc'⟩ := serve_own_block t szx xs K (st.cache xf.sid) (hcache xf.sid) xf hmem (k i)
        (valid_of_lt_nblocks _ _ _ hcpos hlt)
      rw [hnext, hserve]
      simp only []
      refine ⟨?_, ?_⟩
      · intro sid
        by_cases hs : sid = xf.sid
        · simp only [upd, hs, if_true]; exact hc'
        · simp only [upd, hs, if_false]; exact hcache sid
      · intro j yf hj
        by_cases hji : j = i
        · subst hji
          rw [hx] at hj; cases hj
          simp only [upd, if_true]
          rw [hbuf]
          exact xAfter_step _ _ _ hcpos hlt
        · simp only [upd, hji, if_false]; exact hxs j yf hj

theorem runX_inv (t : Table) (szx : Nat) (xs : List Xfer) (K : Keyed t xs) (order : List Nat) :
    ∀ (st : SState) (k : Nat → Nat), SInv t szx xs st k →
      SInv t szx xs (runX t szx xs st order) (fun j => k j + order.count j) := by
  induction order with
  | nil => intro st k h; simpa [runX] using h
  | cons i r ih =>
    intro st k h
    have h1 := ih _ _ (stepX_inv t szx xs K st k h i)
    have : (fun j => upd k i (k i + 1) j + r.count j) = (fun j => k j + (i :: r).count j) := by
      funext j
      by_cases hji : j = i
      · subst hji; simp [upd]; omega
      · have : ¬ i = j := fun h => hji h.symm
        simp [upd, hji, this]
    rw [this] at h1
    exact h1

theorem SInv_init (t : Table) (szx : Nat) (xs : List Xfer) : SInv t szx xs SState.init (fun _ => 0) := by
  have hcpos : 0 < 2 ^ (szx + 4) := Nat.pow_pos (by omega)
  refine ⟨fun sid e he => by simp [SState.init] at he, ?_⟩
  intro i xf _
  have := nblocks_pos (getListing t xf.opts).length (2 ^ (szx + 4)) hcpos
  simp [SState.init, xAfter]
  omega

/-- a drain is nothing but further turns of the same transfer -/
theorem drainX_eq_runX (t : Table) (szx : Nat) (xs : List Xfer) (i : Nat) :
    ∀ (fuel : Nat) (st : SState), ∃ n, drainX t szx xs fuel st i = runX t szx xs st (List.replicate n i) := by
  intro fuel
  induction fuel with
  | zero => intro st; exact ⟨0, rfl⟩
  | succ f ih =>
    intro st
    unfold drainX
    by_cases hd : (st.x i).done = true
    · rw [if_pos hd]; exact ⟨0, rfl⟩
    · rw [if_neg hd]
      obtain ⟨n, hn⟩ := ih (stepX t szx xs st i)
      exact ⟨n + 1, by rw [hn]; rfl⟩

end Coap.M.LF
