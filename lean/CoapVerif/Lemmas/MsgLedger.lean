import CoapVerif.Lemmas.MsgHold
/-
The LEDGER of a message (C08, round 4): for a session `s` and a message id `mid`,

    led s mid g l  =  number of Confirmables with that id in the send queue that belong to `s`          (in flight)
                    + number of Confirmables with that id in the delay queue of `s`                       (held)
                    + number of `TOO_MANY_RETRIES` NACKs reported for (`s`, `mid`) so far                 (given up)

(`g` is an additional condition on the token, `fun _ => true` unless stated).  Every function of the extended model
keeps or increases it, unless the event is one that CONCLUDES that message: an ACK / RST / invalid-code reply / piggy-backed
response carrying its id, a separate response carrying the token of a message with that id, the failure of its session.
So a Confirmable that has been sent stays in flight (or goes back to the delay queue of a session that is not established)
until it is acknowledged, reset, answered, given up - with a report - or its session fails.  Core Lean only.
-/
namespace Coap.MsgX
open Coap.SQ Coap.Msg

/-- a Confirmable of session `s` with message id `mid` (and a token satisfying `g`) in the send queue -/
def pq (s mid : Nat) (g : Nat → Bool) (n : Node) : Bool :=
  decide (n.sess = s) && (decide (n.mid = mid) && (n.con && g n.tok))

/-- the same in the delay queue of session `s` (a node there belongs to `s`) -/
def pd (mid : Nat) (g : Nat → Bool) (n : Node) : Bool :=
  decide (n.mid = mid) && (n.con && g n.tok)

/-- the report "given up": `COAP_NACK_TOO_MANY_RETRIES` for (`s`, `mid`) with the sent PDU -/
def isGiveUp (s mid : Nat) : Out → Bool
  | .nack _ s' .retries m true => decide (s' = s) && decide (m = mid)
  | _ => false

def led (s mid : Nat) (g : Nat → Bool) (l : L) : Nat :=
  l.q.nodes.countP (pq s mid g) + ((l.getS s).delayq.countP (pd mid g) + l.out.countP (isGiveUp s mid))

theorem pq_tstable (s mid : Nat) (g : Nat → Bool) : TStable (pq s mid g) := fun _ _ => rfl

theorem pq_sess {s mid : Nat} {g : Nat → Bool} {n : Node} (h : pq s mid g n = true) : n.sess = s := by
  simp [pq] at h; exact h.1

theorem pq_of_sess {s mid : Nat} {g : Nat → Bool} {n : Node} (h : n.sess = s) : pq s mid g n = pd mid g n := by
  simp [pq, pd, h]

theorem pq_ne_sess {s mid : Nat} {g : Nat → Bool} {n : Node} (h : n.sess ≠ s) : pq s mid g n = false := by
  simp [pq, h]

/-! ### how the basic state changes move the ledger -/

theorem led_emit (s mid : Nat) (g : Nat → Bool) (l : L) (o : Out) :
    led s mid g (l.emit o) = led s mid g l + (if isGiveUp s mid o then 1 else 0) := by
  simp only [led, emit_q, getS_emit, emit_out, List.countP_cons]
  omega

theorem led_le_emit (s mid : Nat) (g : Nat → Bool) (l : L) (o : Out) (k : Nat) (h : k ≤ led s mid g l) :
    k ≤ led s mid g (l.emit o) := by
  rw [led_emit]; omega

theorem led_setS_other (s mid : Nat) (g : Nat → Bool) (l : L) (s' : Nat) (se : Sess) (h : s' ≠ s) :
    led s mid g (l.setS s' se) = led s mid g l := by
  simp only [led, setS_q, setS_out, getS_setS_other h]

theorem led_setS_same (s mid : Nat) (g : Nat → Bool) (l : L) (se : Sess) (hs : s < l.sess.length) :
    led s mid g (l.setS s se) =
      l.q.nodes.countP (pq s mid g) + (se.delayq.countP (pd mid g) + l.out.countP (isGiveUp s mid)) := by
  simp only [led, setS_q, setS_out, getS_setS_same hs]

/-- a session record with the same delay queue -/
theorem led_setS_dq (s mid : Nat) (g : Nat → Bool) (l : L) (s' : Nat) (se : Sess) (hs : s < l.sess.length)
    (hd : s' = s → se.delayq = (l.getS s).delayq) : led s mid g (l.setS s' se) = led s mid g l := by
  by_cases h : s' = s
  · subst h; rw [led_setS_same _ _ _ _ _ hs, hd rfl]; rfl
  · exact led_setS_other _ _ _ _ _ _ h

theorem led_enq (s mid : Nat) (g : Nat → Bool) (l : L) (now d : Nat) (n : Node) :
    led s mid g { l with q := enqueue l.q now d n } = led s mid g l + (if pq s mid g n then 1 else 0) := by
  simp only [led, countP_enqueue (pq s mid g) (pq_tstable s mid g)]
  show _ + _ + ((l.getS s).delayq.countP _ + _) = _
  omega

theorem led_waitAck (s mid : Nat) (g : Nat → Bool) (l : L) (n : Node) :
    led s mid g (waitAck l n) = led s mid g l + (if pq s mid g n then 1 else 0) := by
  rw [Msg.waitAck]; exact led_enq s mid g l _ _ n

theorem led_now (s mid : Nat) (g : Nat → Bool) (l : L) (t : Nat) : led s mid g { l with now := t } = led s mid g l := rfl

/-- `rest` is the send queue without node `n` -/
theorem led_nodes (s mid : Nat) (g : Nat → Bool) (l : L) (n : Node) (rest : List Node)
    (hc : l.q.nodes.countP (pq s mid g) = rest.countP (pq s mid g) + (if pq s mid g n then 1 else 0)) :
    led s mid g l = led s mid g { l with q := { l.q with nodes := rest } } + (if pq s mid g n then 1 else 0) := by
  simp only [led, hc]
  show _ = rest.countP _ + ((l.getS s).delayq.countP _ + _) + _
  omega

/-! ### the functions that release a slot only add to the queues -/

theorem drain_led (s mid : Nat) (g : Nat → Bool) : ∀ (fuel : Nat) (l : L) (s' k : Nat), s < l.sess.length →
    k ≤ led s mid g l → k ≤ led s mid g (drain fuel l s')
  | 0, _, _, _, _, h => h
  | fuel + 1, l, s', k, hs, h => by
    unfold drain
    simp only []
    split
    · exact h
    · rename_i n rest hdq
      split
      · exact h
      · split
        · exact h
        · by_cases hss : s' = s
          · subst hss
            have hl : led s' mid g l = l.q.nodes.countP (pq s' mid g) +
                ((if pd mid g n then 1 else 0) + rest.countP (pd mid g) + l.out.countP (isGiveUp s' mid)) := by
              simp only [led, hdq, List.countP_cons]; omega
            cases hc : n.con
            · simp only [Bool.false_eq_true, if_false]
              apply drain_led s' mid g fuel _ s' k (by simpa using hs)
              apply led_le_emit
              rw [led_setS_same _ _ _ _ _ hs]
              have : pd mid g n = false := by simp [pd, hc]
              rw [hl, this] at h; simpa using h
            · simp only [if_true]
              apply drain_led s' mid g fuel _ s' k (by simpa using hs)
              rw [led_waitAck]
              have e : ∀ a b c : Nat, pq s' mid g ⟨s', n.mid, a, b, c, n.tok, true⟩ = pd mid g n := by
                intro a b c; simp [pq, pd, hc]
              rw [e, led_emit, led_setS_same _ _ _ _ _ hs]
              rw [hl] at h
              simp only [isGiveUp]
              omega
          · have hn : ∀ m : Node, m.sess = s' → pq s mid g m = false := fun m hm => pq_ne_sess (by rw [hm]; exact hss)
            cases hc : n.con
            · simp only [Bool.false_eq_true, if_false]
              apply drain_led s mid g fuel _ s' k (by simpa using hs)
              apply led_le_emit
              rw [led_setS_other _ _ _ _ _ _ hss]; exact h
            · simp only [if_true]
              apply drain_led s mid g fuel _ s' k (by simpa using hs)
              rw [led_waitAck, hn _ rfl, led_emit, led_setS_other _ _ _ _ _ _ hss]
              simp only [isGiveUp]
              simpa using h

theorem connected_led (s mid : Nat) (g : Nat → Bool) (l : L) (s' k : Nat) (hs : s < l.sess.length)
    (h : k ≤ led s mid g l) : k ≤ led s mid g (connected l s') := by
  unfold connected
  simp only []
  apply drain_led s mid g _ _ s' k (by simpa using hs)
  rw [led_setS_dq _ _ _ _ _ _ hs (fun e => by subst e; rfl)]
  exact h

theorem release_led (s mid : Nat) (g : Nat → Bool) (l : L) (s' k : Nat) (hs : s < l.sess.length)
    (h : k ≤ led s mid g l) : k ≤ led s mid g (release l s') := by
  unfold release
  simp only []
  split
  · exact h
  · split
    · apply connected_led s mid g _ s' k (by simpa using hs)
      rw [led_setS_dq _ _ _ _ _ _ hs (fun e => by subst e; rfl)]
      exact h
    · rw [led_setS_dq _ _ _ _ _ _ hs (fun e => by subst e; rfl)]
      exact h

/-! ### submissions -/

theorem sendCore_led (s mid : Nat) (g : Nat → Bool) (l : L) (s' : Nat) (con : Bool) (m r tok k : Nat)
    (hs : s < l.sess.length) (h : k ≤ led s mid g l) : k ≤ led s mid g (sendCore l s' con m r tok).1 := by
  unfold sendCore
  simp only []
  split
  · split
    · exact h
    · by_cases hss : s' = s
      · subst hss
        rw [led_setS_same _ _ _ _ _ hs]
        simp only [List.countP_append]
        unfold led at h
        omega
      · rw [led_setS_other _ _ _ _ _ _ hss]; exact h
  · cases con
    · simp only [Bool.false_eq_true, if_false]
      exact led_le_emit _ _ _ _ _ _ h
    · simp only [if_true]
      rw [led_waitAck]
      have : k ≤ led s mid g ((l.emit (.tx l.now s' m 0 true)).setS s'
          { (l.getS s') with conActive := ((l.getS s').conActive + 1) % 256 }) := by
        rw [led_setS_dq _ _ _ _ _ _ (by simpa using hs) (fun e => by subst e; rfl)]
        exact led_le_emit _ _ _ _ _ _ h
      exact Nat.le_trans this (Nat.le_add_right _ _)

theorem sendCore_len (l : L) (s' : Nat) (con : Bool) (m r tok : Nat) :
    (sendCore l s' con m r tok).1.sess.length = l.sess.length := (sendCore_ok l s' con m r tok).1.len

theorem submitT_led (s mid : Nat) (g : Nat → Bool) (l : L) (s' : Nat) (con : Bool) (m r tok k : Nat)
    (hs : s < l.sess.length) (h : k ≤ led s mid g l) : k ≤ led s mid g (submitT l s' con m r tok) := by
  unfold submitT
  split
  · exact led_le_emit _ _ _ _ _ _ h
  · have := sendCore_led s mid g l s' con m r tok k hs h
    rcases hsc : sendCore l s' con m r tok with ⟨l', res⟩
    rw [hsc] at this
    exact led_le_emit _ _ _ _ _ _ this

theorem submit_led (s mid : Nat) (g : Nat → Bool) (l : L) (s' : Nat) (con : Bool) (m r k : Nat)
    (hs : s < l.sess.length) (h : k ≤ led s mid g l) : k ≤ led s mid g (submit l s' con m r) := by
  rw [← submitT_eq_submit]; exact submitT_led s mid g l s' con m r m k hs h

/-! ### retransmission: the node is put back, moves to the delay queue (session not established) or is given up WITH a report -/

/-- no condition on the token -/
abbrev gT : Nat → Bool := fun _ => true

theorem pq_cnt (s mid : Nat) (g : Nat → Bool) (n : Node) (c : Nat) : pq s mid g { n with cnt := c } = pq s mid g n := rfl

theorem retransmitX_led (s mid pt prng : Nat) (l : L) (n : Node) (k : Nat) (hs : s < l.sess.length)
    (hc : n.con = true) (h : k ≤ led s mid gT l + (if pq s mid gT n then 1 else 0)) :
    k ≤ led s mid gT (retransmitX pt prng l n) := by
  unfold retransmitX
  simp only []
  split
  · have hcnt := led_enq s mid gT l l.now
      (clampDelay pt prng ((n.timeout * 2 ^ ((n.cnt + 1) % 256)) % 18446744073709551616)) { n with cnt := (n.cnt + 1) % 256 }
    rw [pq_cnt] at hcnt
    split
    · -- the gate is closed: coap_session_delay_pdu(session, pdu, node)
      have hq : ∀ (q1 : Queue), led s mid gT { l with q := q1 } = q1.nodes.countP (pq s mid gT) +
          ((l.getS s).delayq.countP (pd mid gT) + l.out.countP (isGiveUp s mid)) := fun _ => rfl
      rw [hq] at hcnt
      generalize enqueue l.q l.now _ { n with cnt := (n.cnt + 1) % 256 } = q1 at hcnt ⊢
      rcases hr : removeNode q1.nodes n.sess n.mid with ⟨res, rest⟩
      simp only []
      have hrest : q1.nodes.countP (pq s mid gT) ≤ rest.countP (pq s mid gT) + (if pq s mid gT n then 1 else 0) := by
        cases res with
        | none => rw [(removeNode_none _ _ _ _ hr).1]; omega
        | some m =>
          have hm := removeNode_some (pq s mid gT) (pq_tstable s mid gT) _ _ _ _ _ hr
          rw [hm.2.2.2]
          have : pq s mid gT m = true → pq s mid gT n = true := by
            intro hpm
            simp [pq, gT] at hpm ⊢
            exact ⟨hm.2.1.symm.trans hpm.1, hm.2.2.1.symm.trans hpm.2.1, hc⟩
          by_cases hpm : pq s mid gT m = true
          · simp [hpm, this hpm]
          · simp [hpm]
      by_cases hss : n.sess = s
      · subst hss
        rw [led_setS_same _ _ _ _ _ (by simpa using hs)]
        have e2 : ∀ c : Nat, pd mid gT ⟨n.sess, n.mid, 0, n.timeout, c, n.tok, n.con⟩ = pq n.sess mid gT n := by
          intro c; simp [pd, pq]
        simp only [List.countP_append, List.countP_cons, List.countP_nil, e2]
        omega
      · have hpn : pq s mid gT n = false := pq_ne_sess hss
        rw [led_setS_other _ _ _ _ _ _ hss]
        rw [hpn] at h hrest hcnt
        show k ≤ rest.countP (pq s mid gT) + ((l.getS s).delayq.countP (pd mid gT) + l.out.countP (isGiveUp s mid))
        simp at h hrest hcnt
        omega
    · -- retransmitted
      rw [led_setS_dq _ _ _ _ _ _ (by simpa using hs) (fun e => by subst e; rfl)]
      apply led_le_emit
      omega
  · -- given up: the slot is released, the NACK handler is told
    have hr := release_led s mid gT l n.sess (led s mid gT l) hs (Nat.le_refl _)
    rw [led_emit]
    by_cases hp : pq s mid gT n = true
    · have : isGiveUp s mid (Out.nack (release l n.sess).now n.sess Reason.retries n.mid true) = true := by
        simp [pq] at hp; simp [isGiveUp, hp.1, hp.2.1]
      rw [this]; simp [hp] at h; simp; omega
    · simp [hp] at h; omega

theorem dueLoopX_led (s mid pt prng : Nat) : ∀ (fuel : Nat) (l : L) (k : Nat), WF l → s < l.sess.length →
    k ≤ led s mid gT l → k ≤ led s mid gT (dueLoopX pt prng fuel l)
  | 0, _, _, _, _, h => h
  | fuel + 1, l, k, hw, hs, h => by
    unfold dueLoopX
    split
    · exact h
    · split
      · split
        · exact h
        · rename_i n rest hp
          obtain ⟨hf, hsi, hcon⟩ := removed_one l n rest
            (countP_popNext (fun _ => true) (fun _ _ => rfl) _ _ _ hp).1
            (fun p hp' => (countP_popNext p hp' _ _ _ hp).2)
          have hr := retransmitX_ok pt prng { l with q := { l.q with nodes := rest } } n (hcon hw.1)
          have hw' : WF (retransmitX pt prng { l with q := { l.q with nodes := rest } } n) :=
            hw.of_frame (hf.trans hr.1) (hr.2 (hsi 0 (hw.sinv _)))
          apply dueLoopX_led s mid pt prng fuel _ k hw' (by rw [(hf.trans hr.1).len]; exact hs)
          apply retransmitX_led s mid pt prng _ n k (by exact hs) (hcon hw.1)
          rw [← led_nodes s mid gT l n rest (countP_popNext _ (pq_tstable s mid gT) _ _ _ hp).2]
          exact h
      · exact h

/-! ### the I/O loop: retransmissions, then keepalive pings -/

theorem sendPing_led (s mid : Nat) (g : Nat → Bool) (lx : LX) (s' k : Nat) (hs : s < lx.l.sess.length)
    (h : k ≤ led s mid g lx.l) : k ≤ led s mid g (sendPing lx s').1.l := by
  unfold sendPing
  simp only []
  split
  · exact h
  · split
    · exact h
    · have := sendCore_led s mid g lx.l s' true (((lx.getK s').txMid + 1) % 65536) lx.prng noTok k hs h
      simp only [setK_l, setK_prng]
      rcases hsc : sendCore lx.l s' true (((lx.getK s').txMid + 1) % 65536) lx.prng noTok with ⟨l', res⟩
      rw [hsc] at this
      exact this

theorem sendPing_len (lx : LX) (s' : Nat) : (sendPing lx s').1.l.sess.length = lx.l.sess.length := by
  unfold sendPing
  simp only []
  split
  · rfl
  · split
    · rfl
    · have := sendCore_len lx.l s' true (((lx.getK s').txMid + 1) % 65536) lx.prng noTok
      simp only [setK_l, setK_prng]
      rcases hsc : sendCore lx.l s' true (((lx.getK s').txMid + 1) % 65536) lx.prng noTok with ⟨l', res⟩
      rw [hsc] at this
      exact this

theorem pingOne_led (s mid : Nat) (g : Nat → Bool) (lx : LX) (s' t k : Nat) (hs : s < lx.l.sess.length)
    (h : k ≤ led s mid g lx.l) :
    k ≤ led s mid g (pingOne lx s' t).1.l ∧ (pingOne lx s' t).1.l.sess.length = lx.l.sess.length := by
  unfold pingOne
  simp only []
  split
  · split
    · have h1 := sendPing_led s mid g lx s' k hs h
      have h2 := sendPing_len lx s'
      rcases hsp : sendPing lx s' with ⟨lx', res⟩
      rw [hsp] at h1 h2
      cases res <;> exact ⟨by simpa using h1, by simpa using h2⟩
    · exact ⟨h, rfl⟩
  · exact ⟨h, rfl⟩

theorem pingLoop_led (s mid : Nat) (g : Nat → Bool) : ∀ (n s' : Nat) (lx : LX) (t k : Nat), s < lx.l.sess.length →
    k ≤ led s mid g lx.l → k ≤ led s mid g (pingLoop n s' lx t).1.l
  | 0, _, _, _, _, _, h => h
  | n + 1, s', lx, t, k, hs, h => by
    unfold pingLoop
    have := pingOne_led s mid g lx s' t k hs h
    rcases hp : pingOne lx s' t with ⟨lx', t'⟩
    rw [hp] at this
    exact pingLoop_led s mid g n (s' + 1) lx' t' k (by rw [this.2]; exact hs) this.1

theorem dueLoopX_len (pt prng : Nat) (fuel : Nat) (l : L) (hw : WF l) (s : Nat) (hs : s < l.sess.length) :
    (dueLoopX pt prng fuel l).sess.length = l.sess.length := (dueLoopX_star pt prng fuel l s hs).len

theorem prepareCoreX_led (s mid : Nat) (lx : LX) (k : Nat) (hw : WF lx.l) (hs : s < lx.l.sess.length)
    (h : k ≤ led s mid gT lx.l) : k ≤ led s mid gT (prepareCoreX lx).1.l := by
  unfold prepareCoreX
  simp only []
  apply pingLoop_led s mid gT
  · simpa using (by rw [dueLoopX_len _ _ _ _ hw s hs]; exact hs :
      s < (dueLoopX lx.pingTimeout lx.prng (dueFuel lx.l) lx.l).sess.length)
  · simpa using dueLoopX_led s mid lx.pingTimeout lx.prng (dueFuel lx.l) lx.l k hw hs h

theorem afterRxX_led (s mid : Nat) (lx : LX) (k : Nat) (hw : WF lx.l) (hs : s < lx.l.sess.length)
    (h : k ≤ led s mid gT lx.l) : k ≤ led s mid gT (afterRxX lx).l := prepareCoreX_led s mid lx k hw hs h

theorem prepareX_led (s mid : Nat) (lx : LX) (k : Nat) (hw : WF lx.l) (hs : s < lx.l.sess.length)
    (h : k ≤ led s mid gT lx.l) : k ≤ led s mid gT (prepareX lx).l := by
  unfold prepareX
  simp only []
  exact led_le_emit _ _ _ _ _ _ (prepareCoreX_led s mid lx k hw hs h)

/-! ### arrivals -/

/-- a node that is not the message leaves the send queue and its slot is released -/
theorem remove_release_led (s mid : Nat) (g : Nat → Bool) (l : L) (n : Node) (rest : List Node) (s' k : Nat)
    (hs : s < l.sess.length)
    (hc : l.q.nodes.countP (pq s mid g) = rest.countP (pq s mid g) + (if pq s mid g n then 1 else 0))
    (hpn : pq s mid g n = false) (h : k ≤ led s mid g l) :
    k ≤ led s mid g (release { l with q := { l.q with nodes := rest } } s') := by
  apply release_led s mid g _ s' k (by exact hs)
  have := led_nodes s mid g l n rest hc
  rw [hpn] at this
  simp at this
  rw [← this]; exact h

theorem pq_not_key {s mid : Nat} {g : Nat → Bool} {n : Node} {s' m : Nat} (hne : ¬ (s' = s ∧ m = mid))
    (h1 : n.sess = s') (h2 : n.mid = m) : pq s mid g n = false := by
  cases hp : pq s mid g n
  · rfl
  · simp [pq] at hp
    exact absurd ⟨h1.symm.trans hp.1, h2.symm.trans hp.2.1⟩ hne

theorem rxAck_led (s mid : Nat) (g : Nat → Bool) (l : L) (s' m k : Nat) (hs : s < l.sess.length)
    (hne : ¬ (s' = s ∧ m = mid)) (h : k ≤ led s mid g l) : k ≤ led s mid g (rxAck l s' m) := by
  unfold rxAck
  rcases hr : removeNode l.q.nodes s' m with ⟨res, rest⟩
  simp only []
  cases res with
  | none => have := (removeNode_none _ _ _ _ hr).1; subst this; exact h
  | some n =>
    have hm := removeNode_some (pq s mid g) (pq_tstable s mid g) _ _ _ _ _ hr
    exact remove_release_led s mid g l n rest s' k hs hm.2.2.2 (pq_not_key hne hm.2.1 hm.2.2.1) h

theorem rxAckP_led (s mid : Nat) (g : Nat → Bool) (l : L) (s' m : Nat) (dup : Bool) (k : Nat) (hs : s < l.sess.length)
    (hne : ¬ (s' = s ∧ m = mid)) (h : k ≤ led s mid g l) : k ≤ led s mid g (rxAckP l s' m dup) := by
  unfold rxAckP
  simp only []
  split
  · exact rxAck_led s mid g l s' m k hs hne h
  · exact led_le_emit _ _ _ _ _ _ (rxAck_led s mid g l s' m k hs hne h)

theorem rxRst_led (s mid : Nat) (g : Nat → Bool) (l : L) (s' m k : Nat) (hs : s < l.sess.length)
    (hne : ¬ (s' = s ∧ m = mid)) (h : k ≤ led s mid g l) : k ≤ led s mid g (rxRst l s' m) := by
  unfold rxRst
  rcases hr : removeNode l.q.nodes s' m with ⟨res, rest⟩
  simp only []
  cases res with
  | none => have := (removeNode_none _ _ _ _ hr).1; subst this; exact led_le_emit _ _ _ _ _ _ h
  | some n =>
    have hm := removeNode_some (pq s mid g) (pq_tstable s mid g) _ _ _ _ _ hr
    have := remove_release_led s mid g l n rest s' k hs hm.2.2.2 (pq_not_key hne hm.2.1 hm.2.2.1) h
    simp only []
    split
    · exact led_le_emit _ _ _ _ _ _ this
    · exact this

theorem rxBad_led (s mid : Nat) (g : Nat → Bool) (l : L) (s' m k : Nat) (hs : s < l.sess.length)
    (hne : ¬ (s' = s ∧ m = mid)) (h : k ≤ led s mid g l) : k ≤ led s mid g (rxBad l s' m) := by
  unfold rxBad
  rcases hr : removeNode l.q.nodes s' m with ⟨res, rest⟩
  simp only []
  cases res with
  | none => have := (removeNode_none _ _ _ _ hr).1; subst this; exact h
  | some n =>
    have hm := removeNode_some (pq s mid g) (pq_tstable s mid g) _ _ _ _ _ hr
    exact led_le_emit _ _ _ _ _ _ (remove_release_led s mid g l n rest s' k hs hm.2.2.2 (pq_not_key hne hm.2.1 hm.2.2.1) h)

theorem rxRstX_led (s mid : Nat) (g : Nat → Bool) (lx : LX) (s' m k : Nat) (hs : s < lx.l.sess.length)
    (hne : ¬ (s' = s ∧ m = mid)) (h : k ≤ led s mid g lx.l) : k ≤ led s mid g (rxRstX lx s' m).l := by
  unfold rxRstX
  simp only []
  split
  · rcases hr : removeNode lx.l.q.nodes s' m with ⟨res, rest⟩
    simp only []
    cases res with
    | none =>
      have := (removeNode_none _ _ _ _ hr).1; subst this
      simpa using led_le_emit s mid g lx.l (.nack lx.l.now s' .rst m false) k h
    | some n =>
      have hm := removeNode_some (pq s mid g) (pq_tstable s mid g) _ _ _ _ _ hr
      simpa using remove_release_led s mid g lx.l n rest s' k hs hm.2.2.2 (pq_not_key hne hm.2.1 hm.2.2.1) h
  · simpa using rxRst_led s mid g lx.l s' m k hs hne h

theorem icmp_led (s mid : Nat) (g : Nat → Bool) (l : L) (s' k : Nat) (h : k ≤ led s mid g l) :
    k ≤ led s mid g (icmp l s') := by
  unfold icmp
  split <;> exact led_le_emit _ _ _ _ _ _ h

/-! ### a separate response: `coap_cancel_all_messages` removes nodes of that session carrying that token, no others -/

theorem cancelWalk_led (s mid : Nat) (g : Nat → Bool) (s' tok : Nat)
    (hg : ∀ n : Node, n.sess = s' → n.tok = tok → pq s mid g n = false) :
    ∀ (fuel : Nat) (l : L) (i k : Nat), s < l.sess.length → k ≤ led s mid g l →
      k ≤ led s mid g (cancelWalk fuel l s' tok i)
  | 0, _, _, _, _, h => h
  | fuel + 1, l, i, k, hs, h => by
    unfold cancelWalk
    split
    · exact h
    · rename_i q rest hd
      split
      · rename_i hk
        have hm := removeAt_drop (pq s mid g) (pq_tstable s mid g) _ _ _ _ hd
        have hpq : pq s mid g q = false := hg q hk.1 hk.2
        have hl1 : k ≤ led s mid g { l with q := { l.q with nodes := removeAt l.q.nodes i } } := by
          have := led_nodes s mid g l q (removeAt l.q.nodes i) hm.2
          rw [hpq] at this; simp at this
          rw [← this]; exact h
        cases hc : q.con
        · simp only [Bool.false_eq_true, if_false]
          exact cancelWalk_led s mid g s' tok hg fuel _ _ k (by exact hs) hl1
        · simp only [if_true]
          exact cancelWalk_led s mid g s' tok hg fuel _ _ k
            (by rw [release_len]; exact hs) (release_led s mid g _ s' k (by exact hs) hl1)
      · exact cancelWalk_led s mid g s' tok hg fuel l (i + 1) k hs h

theorem rxNonX_led (s mid : Nat) (g : Nat → Bool) (l : L) (s' m tok k : Nat)
    (hg : ∀ n : Node, n.sess = s' → n.tok = tok → pq s mid g n = false) (hs : s < l.sess.length)
    (h : k ≤ led s mid g l) : k ≤ led s mid g (rxNonX l s' m tok) := by
  unfold rxNonX
  simp only []
  exact led_le_emit _ _ _ _ _ _ (cancelWalk_led s mid g s' tok hg _ l 0 k hs h)

/-- dropping the condition on the token can only count more -/
theorem led_gT_ge (s mid : Nat) (g : Nat → Bool) (l : L) : led s mid g l ≤ led s mid gT l := by
  unfold led
  have h1 : l.q.nodes.countP (pq s mid g) ≤ l.q.nodes.countP (pq s mid gT) :=
    List.countP_mono_left (fun n _ hn => by simp [pq, gT] at hn ⊢; exact ⟨hn.1, hn.2.1, hn.2.2.1⟩)
  have h2 : (l.getS s).delayq.countP (pd mid g) ≤ (l.getS s).delayq.countP (pd mid gT) :=
    List.countP_mono_left (fun n _ hn => by simp [pd, gT] at hn ⊢; exact ⟨hn.1, hn.2.1⟩)
  omega

/-- when no message with that id carries the token, the condition "token ≠ tok" changes nothing -/
theorem led_gT_eq (s mid tok : Nat) (l : L)
    (hq : ∀ n ∈ l.q.nodes, n.sess = s → n.mid = mid → n.tok ≠ tok)
    (hd : ∀ n ∈ (l.getS s).delayq, n.mid = mid → n.tok ≠ tok) :
    led s mid gT l = led s mid (fun t => decide (t ≠ tok)) l := by
  unfold led
  have h1 : l.q.nodes.countP (pq s mid gT) = l.q.nodes.countP (pq s mid (fun t => decide (t ≠ tok))) := by
    apply List.countP_congr
    intro n hn
    simp only [pq, gT, Bool.and_true, Bool.and_eq_true, decide_eq_true_eq]
    constructor
    · intro h; exact ⟨h.1, h.2.1, h.2.2, hq n hn h.1 h.2.1⟩
    · intro h; exact ⟨h.1, h.2.1, h.2.2.1⟩
  have h2 : (l.getS s).delayq.countP (pd mid gT) = (l.getS s).delayq.countP (pd mid (fun t => decide (t ≠ tok))) := by
    apply List.countP_congr
    intro n hn
    simp only [pd, gT, Bool.and_true, Bool.and_eq_true, decide_eq_true_eq]
    constructor
    · intro h; exact ⟨h.1, h.2, hd n hn h.1⟩
    · intro h; exact ⟨h.1, h.2.1⟩
  rw [h1, h2]

/-! ### the failure of ANOTHER session -/

theorem nackAll_led (s mid : Nat) (g : Nat → Bool) (l : L) (s' : Nat) (r : Reason) (ns : List Node) (k : Nat)
    (h : k ≤ led s mid g l) : k ≤ led s mid g (nackAll l s' r ns) := by
  rw [nackAll_eq]
  unfold led at *
  show k ≤ l.q.nodes.countP _ + ((l.getS s).delayq.countP _ + (_ ++ l.out).countP _)
  simp only [List.countP_append]
  omega

theorem discHead_led (s mid : Nat) (g : Nat → Bool) (l : L) (s' k : Nat) (h : k ≤ led s mid g l) :
    k ≤ led s mid g (discHead l s') := by
  unfold discHead
  simp only []
  cases l.q.nodes.find? (fun n => decide (n.sess = s')) <;> simp only [] <;> split
  · exact nackAll_led _ _ _ _ _ _ _ _ h
  · exact led_le_emit _ _ _ _ _ _ (nackAll_led _ _ _ _ _ _ _ _ h)
  · exact nackAll_led _ _ _ _ _ _ _ _ (led_le_emit _ _ _ _ _ _ h)
  · exact led_le_emit _ _ _ _ _ _ (nackAll_led _ _ _ _ _ _ _ _ (led_le_emit _ _ _ _ _ _ h))

theorem discTail_led (s mid : Nat) (g : Nat → Bool) (l : L) (s' : Nat) (se : Sess) (k : Nat) (hne : s' ≠ s)
    (h : k ≤ led s mid g l) : k ≤ led s mid g (discTail l s' se) := by
  unfold discTail
  simp only []
  rw [led_setS_other _ _ _ _ _ _ hne]
  apply nackAll_led
  have hc : (cancelSession (l.setS s' { se with est := true, conActive := 0, delayq := [] }).q.nodes s').2.countP (pq s mid g)
      = l.q.nodes.countP (pq s mid g) := by
    simp only [cancelSession, countP_cancelAux (pq s mid g) (pq_tstable s mid g), setS_q]
    apply List.countP_congr
    intro n _
    simp only [Bool.and_eq_true, Bool.not_eq_true', decide_eq_false_iff_not]
    constructor
    · intro hh; exact hh.1
    · intro hh; exact ⟨hh, fun e => hne (e.symm.trans (pq_sess hh))⟩
  have e : led s mid g { (l.setS s' { se with est := true, conActive := 0, delayq := [] }) with
      q := { (l.setS s' { se with est := true, conActive := 0, delayq := [] }).q with
        nodes := (cancelSession (l.setS s' { se with est := true, conActive := 0, delayq := [] }).q.nodes s').2 } }
      = led s mid g l := by
    unfold led
    show _ + (((l.setS s' _).getS s).delayq.countP _ + _) = _
    rw [hc, getS_setS_other hne]
    rfl
  rw [e]; exact h

theorem disconnect_led (s mid : Nat) (g : Nat → Bool) (l : L) (s' k : Nat) (hne : s' ≠ s)
    (h : k ≤ led s mid g l) : k ≤ led s mid g (disconnect l s') := by
  rw [disconnect_eq]
  exact discTail_led s mid g _ s' _ k hne (discHead_led s mid g l s' k h)

theorem disconnectP_led (s mid : Nat) (g : Nat → Bool) (p : Proto) (l : L) (s' k : Nat) (hne : s' ≠ s)
    (h : k ≤ led s mid g l) : k ≤ led s mid g (disconnectP p l s') := by
  unfold disconnectP
  cases p with
  | udp => exact disconnect_led s mid g l s' k hne h
  | dtls =>
    simp only []
    rw [led_setS_other _ _ _ _ _ _ hne]
    exact disconnect_led s mid g l s' k hne h

/-! ### every event -/

/-- the events that CONCLUDE the exchange of the message with id `mid` of session `s`: an ACK (empty, with an invalid
code, or piggy-backed response) or a RST carrying that id; a separate response carrying the token of a message with
that id (in flight or - it may be released and cancelled within the same call - held); the failure of the session -/
def Concludes (l : L) (s mid : Nat) : EvX → Prop
  | .base (.rxAck s' m) => s' = s ∧ m = mid
  | .base (.rxRst s' m) => s' = s ∧ m = mid
  | .base (.rxBad s' m) => s' = s ∧ m = mid
  | .rxAckP s' m _ => s' = s ∧ m = mid
  | .base (.rxNon s' _ tok) => s' = s ∧ ((∃ n ∈ l.q.nodes, n.sess = s ∧ n.mid = mid ∧ n.tok = tok) ∨
      ∃ n ∈ (l.getS s).delayq, n.mid = mid ∧ n.tok = tok)
  | .base (.disconnect s') => s' = s
  | _ => False

theorem led_stepX (s mid : Nat) (lx : LX) (e : EvX) (hw : WF lx.l) (hs : s < lx.l.sess.length)
    (hn : ¬ Concludes lx.l s mid e) : led s mid gT lx.l ≤ led s mid gT (stepX lx e).l := by
  cases e with
  | base e =>
    cases e with
    | setNow t => exact Nat.le_refl _
    | submit s' con m r => simpa [stepX] using submit_led s mid gT lx.l s' con m r _ hs (Nat.le_refl _)
    | prepare => exact prepareX_led s mid lx _ hw hs (Nat.le_refl _)
    | rxAck s' m =>
      simp only [stepX]; split
      · exact afterRxX_led s mid _ _ (by simpa using wf_rxAck _ _ _ hw)
          (by simpa using (rxAck_star lx.l s' m s hs).len ▸ hs)
          (by simpa using rxAck_led s mid gT lx.l s' m _ hs hn (Nat.le_refl _))
      · exact Nat.le_refl _
    | rxRst s' m =>
      simp only [stepX]; split
      · exact afterRxX_led s mid _ _ (wf_rxRstX _ _ _ (by simpa using hw))
          ((rxRstX_star (lx.read s') s' m s (by simpa using hs)).len ▸ (by simpa using hs))
          (rxRstX_led s mid gT (lx.read s') s' m _ (by simpa using hs) hn (by simpa using Nat.le_refl _))
      · exact Nat.le_refl _
    | rxNon s' m tok =>
      simp only [stepX]; split
      · apply afterRxX_led s mid _ _ (by simpa using wf_rxNonX _ _ _ _ hw)
          (by simpa using (rxNonX_star lx.l s' m tok s hs).len ▸ hs)
        simp only [lift_l]
        by_cases hss : s' = s
        · -- no message with that id carries the token: count the messages whose token differs
          have hq : ∀ n ∈ lx.l.q.nodes, n.sess = s → n.mid = mid → n.tok ≠ tok :=
            fun n hn1 h1 h2 h3 => hn ⟨hss, Or.inl ⟨n, hn1, h1, h2, h3⟩⟩
          have hd : ∀ n ∈ (lx.l.getS s).delayq, n.mid = mid → n.tok ≠ tok :=
            fun n hn1 h2 h3 => hn ⟨hss, Or.inr ⟨n, hn1, h2, h3⟩⟩
          rw [led_gT_eq s mid tok lx.l hq hd]
          refine Nat.le_trans ?_ (led_gT_ge s mid (fun t => decide (t ≠ tok)) _)
          apply rxNonX_led s mid _ lx.l s' m tok _ ?_ hs (Nat.le_refl _)
          intro n _ h2
          simp [pq, h2]
        · apply rxNonX_led s mid gT lx.l s' m tok _ ?_ hs (Nat.le_refl _)
          intro n h1 _
          exact pq_ne_sess (by rw [h1]; exact hss)
      · exact Nat.le_refl _
    | rxBad s' m =>
      simp only [stepX]; split
      · exact afterRxX_led s mid _ _ (by simpa using wf_rxBad _ _ _ hw)
          (by simpa using (rxBad_star lx.l s' m s hs).len ▸ hs)
          (by simpa using rxBad_led s mid gT lx.l s' m _ hs hn (Nat.le_refl _))
      · exact Nat.le_refl _
    | hold s' =>
      simp only [stepX, step, lift_l]
      rw [led_setS_dq _ _ _ _ _ _ hs (fun e => by subst e; rfl)]
      exact Nat.le_refl _
    | connect s' => simpa [stepX] using connected_led s mid gT lx.l s' _ hs (Nat.le_refl _)
    | disconnect s' =>
      simp only [stepX]; split
      · simpa using disconnectP_led s mid gT _ lx.l s' _ hn (Nat.le_refl _)
      · exact Nat.le_refl _
  | submitT s' con m r tok => simpa [stepX] using submitT_led s mid gT lx.l s' con m r tok _ hs (Nat.le_refl _)
  | icmp s' =>
    simp only [stepX]; split
    · exact afterRxX_led s mid _ _ (by simpa using wf_icmp _ _ hw)
        (by simpa using (icmp_star lx.l s' s).len ▸ hs)
        (by simpa using icmp_led s mid gT lx.l s' _ (Nat.le_refl _))
    · exact Nat.le_refl _
  | keepalive secs => exact Nat.le_refl _
  | rxAckP s' m tok =>
    simp only [stepX]; split
    · exact afterRxX_led s mid _ _ (by simpa using wf_rxAckP _ _ _ _ hw)
        (by simpa using (rxAckP_star lx.l s' m _ s hs).len ▸ hs)
        (by simpa using rxAckP_led s mid gT lx.l s' m _ _ hs hn (Nat.le_refl _))
    · exact Nat.le_refl _

/-- along a run: as long as no event concludes the message, its ledger never decreases -/
theorem led_runX (s mid : Nat) : ∀ (evs : List EvX) (lx : LX), WF lx.l → s < lx.l.sess.length →
    (∀ (pre : List EvX) (e : EvX) (post : List EvX), evs = pre ++ e :: post → ¬ Concludes (runX lx pre).l s mid e) →
    led s mid gT lx.l ≤ led s mid gT (runX lx evs).l
  | [], _, _, _, _ => Nat.le_refl _
  | e :: es, lx, hw, hs, hn => by
    have h1 := led_stepX s mid lx e hw hs (hn [] e es rfl)
    have hs' : s < (stepX lx e).l.sess.length := by rw [(stepX_star lx e s hs).len]; exact hs
    have h2 := led_runX s mid es (stepX lx e) (wfX_step lx e hw) hs'
      (fun pre e' post he => by
        have := hn (e :: pre) e' post (by rw [he]; rfl)
        simpa [runX] using this)
    exact Nat.le_trans h1 (by simpa [runX] using h2)

end Coap.MsgX
