import CoapVerif.Lemmas.Parse
import CoapVerif.Spec.Encode
/- Lemmas about the encoder side of the specification: round trip, canonicity, abstract edits. -/
namespace Coap

theorem toNat_ofNat_lt (n : Nat) (h : n < 256) : (UInt8.ofNat n).toNat = n := by
  rw [UInt8.toNat_ofNat']; exact Nat.mod_eq_of_lt (by omega)

theorem ofNat_eq_of_toNat {b : UInt8} {n : Nat} (h : b.toNat = n) : b = UInt8.ofNat n := by
  subst h; exact UInt8.ofNat_toNat.symm

theorem nib_lt (v : Nat) : Spec.nib v < 15 := by
  unfold Spec.nib; split
  · omega
  · split <;> omega

theorem nib_of_lt13 {v : Nat} (h : v < 13) : Spec.nib v = v := by simp [Spec.nib, h]
theorem nib_of_lt269 {v : Nat} (h1 : ¬ v < 13) (h2 : v < 269) : Spec.nib v = 13 := by simp [Spec.nib, h1, h2]
theorem nib_of_ge269 {v : Nat} (h2 : ¬ v < 269) : Spec.nib v = 14 := by
  have h1 : ¬ v < 13 := by omega
  simp [Spec.nib, h1, h2]

theorem extBytes_of_lt13 {v : Nat} (h : v < 13) : Spec.extBytes v = [] := by simp [Spec.extBytes, h]
theorem extBytes_of_lt269 {v : Nat} (h1 : ¬ v < 13) (h2 : v < 269) :
    Spec.extBytes v = [UInt8.ofNat (v - 13)] := by simp [Spec.extBytes, h1, h2]
theorem extBytes_of_ge269 {v : Nat} (h2 : ¬ v < 269) :
    Spec.extBytes v = [UInt8.ofNat ((v - 269) / 256), UInt8.ofNat ((v - 269) % 256)] := by
  have h1 : ¬ v < 13 := by omega
  simp [Spec.extBytes, h1, h2]

/-- the 13/14 scheme: decoding the canonical encoding gives the value back -/
theorem ext_roundtrip (v : Nat) (r : Bytes) (h : v ≤ 65804) :
    Spec.ext (Spec.nib v) (Spec.extBytes v ++ r) = some (v, r) := by
  by_cases h1 : v < 13
  · rw [nib_of_lt13 h1, extBytes_of_lt13 h1]; simp [Spec.ext, h1]
  · by_cases h2 : v < 269
    · rw [nib_of_lt269 h1 h2, extBytes_of_lt269 h1 h2]
      have e : (UInt8.ofNat (v - 13)).toNat = v - 13 := toNat_ofNat_lt _ (by omega)
      simp only [Spec.ext, List.cons_append, List.nil_append, e]
      simp; omega
    · rw [nib_of_ge269 h2, extBytes_of_ge269 h2]
      have e1 : (UInt8.ofNat ((v - 269) / 256)).toNat = (v - 269) / 256 := toNat_ofNat_lt _ (by omega)
      have e2 : (UInt8.ofNat ((v - 269) % 256)).toNat = (v - 269) % 256 := toNat_ofNat_lt _ (by omega)
      simp only [Spec.ext, List.cons_append, List.nil_append, e1, e2]
      simp; omega

/-- … and every header that decodes is the canonical encoding of its value -/
theorem ext_canonical {n : Nat} {bs r : Bytes} {v : Nat} (h : Spec.ext n bs = some (v, r)) :
    n = Spec.nib v ∧ bs = Spec.extBytes v ++ r ∧ v ≤ 65804 := by
  unfold Spec.ext at h
  split at h
  · rename_i h13
    simp at h; obtain ⟨rfl, rfl⟩ := h
    rw [nib_of_lt13 h13, extBytes_of_lt13 h13]
    exact ⟨rfl, by simp, by omega⟩
  · split at h
    · split at h
      · simp at h; obtain ⟨rfl, rfl⟩ := h
        rename_i b r'
        have hb := byte_lt b
        have h1 : ¬ (b.toNat + 13 < 13) := by omega
        have h2 : b.toNat + 13 < 269 := by omega
        rw [nib_of_lt269 h1 h2, extBytes_of_lt269 h1 h2]
        refine ⟨by assumption, ?_, by omega⟩
        rw [show b.toNat + 13 - 13 = b.toNat by omega, UInt8.ofNat_toNat]; rfl
      · simp at h
    · split at h
      · split at h
        · simp at h; obtain ⟨rfl, rfl⟩ := h
          rename_i b1 b2 r'
          have hb1 := byte_lt b1
          have hb2 := byte_lt b2
          have h2 : ¬ (b1.toNat * 256 + b2.toNat + 269 < 269) := by omega
          rw [nib_of_ge269 h2, extBytes_of_ge269 h2]
          refine ⟨by assumption, ?_, by omega⟩
          rw [show (b1.toNat * 256 + b2.toNat + 269 - 269) / 256 = b1.toNat by omega,
            show (b1.toNat * 256 + b2.toNat + 269 - 269) % 256 = b2.toNat by omega,
            UInt8.ofNat_toNat, UInt8.ofNat_toNat]; rfl
        · simp at h
      · simp at h

theorem extBytes_length (v : Nat) :
    (Spec.extBytes v).length = if v < 13 then 0 else if v < 269 then 1 else 2 := by
  unfold Spec.extBytes
  split
  · rfl
  · split <;> rfl

theorem encOpt_length (d : Nat) (v : Bytes) :
    (Spec.encOpt d v).length = 1 + (Spec.extBytes d).length + (Spec.extBytes v.length).length + v.length := by
  simp [Spec.encOpt]; omega


theorem lastNum_cons (prev : Nat) (o : Nat × Bytes) (os : List (Nat × Bytes)) :
    (((o :: os).getLast?).map (·.1)).getD prev = ((os.getLast?).map (·.1)).getD o.1 := by
  rcases os with _ | ⟨a, l⟩
  · simp
  · rw [List.getLast?_cons_cons]
    cases h : (a :: l).getLast? with
    | none => simp at h
    | some x => simp

theorem encOpts_app (prev : Nat) (os1 os2 : List (Nat × Bytes)) :
    Spec.encOpts prev (os1 ++ os2) = Spec.encOpts prev os1 ++ Spec.encOpts ((os1.getLast?.map (·.1)).getD prev) os2 := by
  induction os1 generalizing prev with
  | nil => simp [Spec.encOpts]
  | cons o os1 ih =>
    rw [lastNum_cons]
    simp only [List.cons_append, Spec.encOpts, ih, List.append_assoc]

theorem encOpts_append (prev : Nat) (os : List (Nat × Bytes)) (n : Nat) (v : Bytes) :
    Spec.encOpts prev (os ++ [(n, v)]) = Spec.encOpts prev os ++ Spec.encOpt (n - (os.getLast?.map (·.1)).getD prev) v := by
  rw [encOpts_app]; simp [Spec.encOpts]

theorem hdr_byte (d l : Nat) :
    UInt8.ofNat (Spec.nib d * 16 + Spec.nib l) ≠ 0xFF ∧
    (UInt8.ofNat (Spec.nib d * 16 + Spec.nib l)).toNat / 16 = Spec.nib d ∧
    (UInt8.ofNat (Spec.nib d * 16 + Spec.nib l)).toNat % 16 = Spec.nib l := by
  have hd := nib_lt d
  have hl := nib_lt l
  have e := toNat_ofNat_lt (Spec.nib d * 16 + Spec.nib l) (by omega)
  refine ⟨?_, ?_, ?_⟩
  · intro h
    have h' := congrArg UInt8.toNat h
    rw [e] at h'
    have : (0xFF : UInt8).toNat = 255 := rfl
    omega
  · rw [e]; omega
  · rw [e]; omega

theorem optsOk_cons (code prev : Nat) (o : Nat × Bytes) (os : List (Nat × Bytes)) :
    Spec.optsOk code prev (o :: os) = true ↔
      prev ≤ o.1 ∧ o.1 ≤ 65535 ∧ o.2.length ≤ 65804 ∧ Spec.optLenOk code o.1 o.2.length = true ∧
        Spec.optsOk code o.1 os = true := by
  simp [Spec.optsOk, and_assoc]

/-- decoding an encoded, well-formed option list (followed by nothing or by a payload marker) gives the list back -/
theorem opts_encOpts (code : Nat) : ∀ (os : List (Nat × Bytes)) (prev fuel : Nat) (rest : Bytes),
    Spec.optsOk code prev os = true → (rest = [] ∨ ∃ t, rest = 0xFF :: t) → os.length < fuel →
    Spec.opts code fuel prev (Spec.encOpts prev os ++ rest) = some (os, rest) := by
  intro os
  induction os with
  | nil =>
    intro prev fuel rest _ hr hf
    obtain ⟨fuel, rfl⟩ : ∃ f, fuel = f + 1 := ⟨fuel - 1, by simp at hf; omega⟩
    rcases hr with rfl | ⟨t, rfl⟩
    · simp [Spec.encOpts, Spec.opts]
    · simp [Spec.encOpts, Spec.opts]
  | cons o os ih =>
    intro prev fuel rest hok hr hf
    obtain ⟨fuel, rfl⟩ : ∃ f, fuel = f + 1 := ⟨fuel - 1, by simp at hf; omega⟩
    rw [optsOk_cons] at hok
    obtain ⟨hp, hn, hl, hlen, hrest⟩ := hok
    obtain ⟨hff, hdn, hln⟩ := hdr_byte (o.1 - prev) o.2.length
    have hE1 := ext_roundtrip (o.1 - prev)
      (Spec.extBytes o.2.length ++ (o.2 ++ (Spec.encOpts o.1 os ++ rest))) (by omega)
    have hE2 := ext_roundtrip o.2.length (o.2 ++ (Spec.encOpts o.1 os ++ rest)) hl
    have hpd : prev + (o.1 - prev) = o.1 := by omega
    have hih := ih o.1 fuel rest hrest hr (by simp at hf; omega)
    simp only [Spec.encOpts, Spec.encOpt, List.cons_append, List.append_assoc, Spec.opts, hff, if_false,
      hdn, hln, hE1, hE2, hpd, List.length_append, List.take_left', List.drop_left', hih]
    simp [hn, hlen]


/-- whatever the option decoder accepts is the canonical encoding of what it returns -/
theorem opts_canonical (code : Nat) : ∀ (fuel prev : Nat) (bs : Bytes) (os : List (Nat × Bytes)) (rest : Bytes),
    Spec.opts code fuel prev bs = some (os, rest) →
    bs = Spec.encOpts prev os ++ rest ∧ Spec.optsOk code prev os = true ∧ (rest = [] ∨ ∃ t, rest = 0xFF :: t) := by
  intro fuel
  induction fuel with
  | zero => intro prev bs os rest h; simp [Spec.opts] at h
  | succ fuel ih =>
    intro prev bs os rest h
    rcases bs with _ | ⟨b, r0⟩
    · simp [Spec.opts] at h
      obtain ⟨rfl, rfl⟩ := h
      simp [Spec.encOpts, Spec.optsOk]
    · by_cases hff : b = 0xFF
      · simp [Spec.opts, hff] at h
        obtain ⟨rfl, rfl⟩ := h
        simp [Spec.encOpts, Spec.optsOk, hff]
      · simp only [Spec.opts, hff, if_false] at h
        cases hE : Spec.ext (b.toNat / 16) r0 with
        | none => simp [hE] at h
        | some p =>
          obtain ⟨d, r1⟩ := p
          simp only [hE] at h
          cases hL : Spec.ext (b.toNat % 16) r1 with
          | none => simp [hL] at h
          | some q =>
            obtain ⟨l, r2⟩ := q
            simp only [hL] at h
            by_cases hc : prev + d ≤ 65535 ∧ l ≤ r2.length ∧ Spec.optLenOk code (prev + d) l = true
            · simp only [hc, and_self, if_true] at h
              cases hR : Spec.opts code fuel (prev + d) (r2.drop l) with
              | none => simp [hR] at h
              | some w =>
                obtain ⟨os', rest'⟩ := w
                simp only [hR, Option.some.injEq, Prod.mk.injEq] at h
                obtain ⟨rfl, rfl⟩ := h
                obtain ⟨hbs, hok, hrest⟩ := ih _ _ _ _ hR
                obtain ⟨hd1, hd2, hd3⟩ := ext_canonical hE
                obtain ⟨hl1, hl2, hl3⟩ := ext_canonical hL
                obtain ⟨hn, hfit, hlen⟩ := hc
                have htl : (r2.take l).length = l := by simp; omega
                refine ⟨?_, ?_, hrest⟩
                · have hb : b = UInt8.ofNat (Spec.nib d * 16 + Spec.nib l) :=
                    ofNat_eq_of_toNat (by omega)
                  have hr2 : r2 = r2.take l ++ (Spec.encOpts (prev + d) os' ++ rest') := by
                    rw [← hbs, List.take_append_drop]
                  simp only [Spec.encOpts, Spec.encOpt, htl, show prev + d - prev = d by omega,
                    List.cons_append, List.append_assoc]
                  rw [← hr2, ← hl2, ← hd2, ← hb]
                · rw [optsOk_cons]
                  simp only [htl]
                  exact ⟨by omega, hn, hl3, hlen, hok⟩
            · simp [hc] at h


theorem finish_encPayload (pl : Bytes) : Spec.finish (Spec.encPayload pl) = some pl := by
  by_cases h : pl = []
  · simp [Spec.encPayload, Spec.finish, h]
  · simp [Spec.encPayload, Spec.finish, h]

theorem finish_canonical {rest pl : Bytes} (h : Spec.finish rest = some pl) (hr : rest = [] ∨ ∃ t, rest = 0xFF :: t) :
    rest = Spec.encPayload pl := by
  rcases hr with rfl | ⟨t, rfl⟩
  · simp [Spec.finish] at h; subst h; simp [Spec.encPayload]
  · by_cases ht : t = []
    · simp [Spec.finish, ht] at h
    · simp [Spec.finish, ht] at h; subst h; simp [Spec.encPayload, ht]

theorem encPayload_shape (pl : Bytes) : Spec.encPayload pl = [] ∨ ∃ t, Spec.encPayload pl = 0xFF :: t := by
  by_cases h : pl = []
  · left; simp [Spec.encPayload, h]
  · right; exact ⟨pl, by simp [Spec.encPayload, h]⟩

theorem encOpts_length_ge (prev : Nat) (os : List (Nat × Bytes)) : os.length ≤ (Spec.encOpts prev os).length := by
  induction os generalizing prev with
  | nil => simp
  | cons o os ih =>
    have := ih o.1
    simp only [Spec.encOpts, List.length_append, List.length_cons, encOpt_length]
    omega

/-- token + options + payload behind any fixed header -/
theorem body_encode (type code mid : Nat) (tok : Bytes) (os : List (Nat × Bytes)) (pl : Bytes)
    (hc : code ≠ 0) (ht : tok.length ≤ 65804) (ho : Spec.optsOk code 0 os = true) :
    Spec.body type code mid (Spec.nib tok.length) (Spec.encToken tok ++ (Spec.encOpts 0 os ++ Spec.encPayload pl))
      = some ⟨type, code, mid, tok, os, pl⟩ := by
  have hE := ext_roundtrip tok.length (tok ++ (Spec.encOpts 0 os ++ Spec.encPayload pl)) ht
  have hfit : tok.length ≤ (tok ++ (Spec.encOpts 0 os ++ Spec.encPayload pl)).length := by simp
  have hfuel : os.length < (Spec.encToken tok ++ (Spec.encOpts 0 os ++ Spec.encPayload pl)).length + 1 := by
    have := encOpts_length_ge 0 os
    simp only [List.length_append]; omega
  have hO := opts_encOpts code os 0 _ (Spec.encPayload pl) ho (encPayload_shape pl) hfuel
  unfold Spec.body
  simp only [Spec.encToken, List.append_assoc] at hO ⊢
  simp only [hE, hfit, if_true, hc, if_false, List.drop_left, List.take_left, hO, finish_encPayload]

theorem body_canonical {type code mid tkl : Nat} {rest : Bytes} {m : Msg} (hc : code ≠ 0)
    (h : Spec.body type code mid tkl rest = some m) :
    m.type = type ∧ m.code = code ∧ m.mid = mid ∧ tkl = Spec.nib m.token.length ∧ m.token.length ≤ 65804 ∧
    rest = Spec.encToken m.token ++ (Spec.encOpts 0 m.opts ++ Spec.encPayload m.payload) ∧
    Spec.optsOk code 0 m.opts = true := by
  unfold Spec.body at h
  cases hE : Spec.ext tkl rest with
  | none => simp [hE] at h
  | some p =>
    obtain ⟨n, r⟩ := p
    simp only [hE] at h
    by_cases hfit : n ≤ r.length
    · simp only [hfit, if_true, hc, if_false] at h
      cases hO : Spec.opts code (rest.length + 1) 0 (r.drop n) with
      | none => simp [hO] at h
      | some w =>
        obtain ⟨os, rest'⟩ := w
        simp only [hO] at h
        cases hF : Spec.finish rest' with
        | none => simp [hF] at h
        | some pl =>
          simp only [hF, Option.some.injEq] at h
          subst h
          obtain ⟨h1, h2, h3⟩ := ext_canonical hE
          obtain ⟨hbs, hok, hrest⟩ := opts_canonical code _ _ _ _ _ hO
          have hpl := finish_canonical hF hrest
          have htl : (r.take n).length = n := by simp; omega
          refine ⟨rfl, rfl, rfl, ?_, ?_, ?_, hok⟩
          · simp only [htl]; exact h1
          · simp only [htl]; exact h3
          · simp only [Spec.encToken, htl, List.append_assoc]
            rw [← hpl, ← hbs, List.take_append_drop, ← h2]
    · simp [hfit] at h


theorem tcpLen_tcpHdr (tkl len : Nat) (r : Bytes) (htkl : tkl < 16) (hlen : len < 65805 + 4294967296) :
    ∃ b0 r0, Spec.tcpHdr tkl len ++ r = b0 :: r0 ∧ b0.toNat % 16 = tkl ∧
      Spec.tcpLen (b0.toNat / 16) r0 = some (len, r) := by
  unfold Spec.tcpHdr
  by_cases h1 : len < 13
  · have e := toNat_ofNat_lt (len * 16 + tkl) (by omega)
    refine ⟨UInt8.ofNat (len * 16 + tkl), r, by simp [h1], by rw [e]; omega, ?_⟩
    rw [e, show (len * 16 + tkl) / 16 = len by omega]
    simp [Spec.tcpLen, h1]
  · by_cases h2 : len < 269
    · have e := toNat_ofNat_lt (13 * 16 + tkl) (by omega)
      have e1 := toNat_ofNat_lt (len - 13) (by omega)
      refine ⟨UInt8.ofNat (13 * 16 + tkl), UInt8.ofNat (len - 13) :: r, by simp [h1, h2], by rw [e]; omega, ?_⟩
      rw [e, show (13 * 16 + tkl) / 16 = 13 by omega]
      simp only [Spec.tcpLen, e1]
      simp; omega
    · by_cases h3 : len < 65805
      · have e := toNat_ofNat_lt (14 * 16 + tkl) (by omega)
        have e1 := toNat_ofNat_lt ((len - 269) / 256) (by omega)
        have e2 := toNat_ofNat_lt ((len - 269) % 256) (by omega)
        refine ⟨UInt8.ofNat (14 * 16 + tkl), UInt8.ofNat ((len - 269) / 256) :: UInt8.ofNat ((len - 269) % 256) :: r,
          by simp [h1, h2, h3], by rw [e]; omega, ?_⟩
        rw [e, show (14 * 16 + tkl) / 16 = 14 by omega]
        simp only [Spec.tcpLen, e1, e2]
        simp; omega
      · have e := toNat_ofNat_lt (15 * 16 + tkl) (by omega)
        have e1 := toNat_ofNat_lt ((len - 65805) / 16777216) (by omega)
        have e2 := toNat_ofNat_lt ((len - 65805) / 65536 % 256) (by omega)
        have e3 := toNat_ofNat_lt ((len - 65805) / 256 % 256) (by omega)
        have e4 := toNat_ofNat_lt ((len - 65805) % 256) (by omega)
        refine ⟨UInt8.ofNat (15 * 16 + tkl), UInt8.ofNat ((len - 65805) / 16777216) ::
          UInt8.ofNat ((len - 65805) / 65536 % 256) :: UInt8.ofNat ((len - 65805) / 256 % 256) ::
          UInt8.ofNat ((len - 65805) % 256) :: r,
          by simp only [h1, h2, h3, if_false]; rfl, by rw [e]; omega, ?_⟩
        rw [e, show (15 * 16 + tkl) / 16 = 15 by omega]
        have hk : (len - 65805) / 16777216 * 16777216 + (len - 65805) / 65536 % 256 * 65536 +
            (len - 65805) / 256 % 256 * 256 + (len - 65805) % 256 + 65805 = len := by omega
        simp only [Spec.tcpLen, e1, e2, e3, e4, show ¬ (15 < 13) by omega, show ¬ (15 = 13) by omega,
          show ¬ (15 = 14) by omega, if_false, hk]


theorem tokenField_encToken (tok x : Bytes) (ht : tok.length ≤ 65804) :
    Spec.tokenField (Spec.nib tok.length) (Spec.encToken tok ++ x) =
      some ((Spec.extBytes tok.length).length + tok.length) := by
  have hE := ext_roundtrip tok.length (tok ++ x) ht
  unfold Spec.tokenField
  simp only [Spec.encToken, List.append_assoc, hE, List.length_append]
  congr 1; omega

theorem body_wf (type mid : Nat) (m : Msg) (ht : m.token.length ≤ 65804)
    (ho : Spec.optsOk m.code 0 m.opts = true)
    (hz : m.code = 0 → m.token = [] ∧ m.opts = [] ∧ m.payload = []) :
    Spec.body type m.code mid (Spec.nib m.token.length) (Spec.encToken m.token ++ Spec.encRest m)
      = some ⟨type, m.code, mid, m.token, m.opts, m.payload⟩ := by
  by_cases hc : m.code = 0
  · obtain ⟨h1, h2, h3⟩ := hz hc
    simp [Spec.body, Spec.encRest, Spec.encToken, Spec.encOpts, Spec.encPayload, Spec.extBytes, Spec.nib,
      Spec.ext, hc, h1, h2, h3]
  · exact body_encode type m.code mid m.token m.opts m.payload hc ht ho

/-- the round trip, every framing, every well-formed message -/
theorem decode_encode (p : Proto) (m : Msg) (h : Spec.WF p m) :
    Spec.decode p (Spec.encode p m) = some (Spec.onWire p m) := by
  obtain ⟨hty, hcode, hmid, htok, hopts, hz, htcp⟩ := h
  have hnib := nib_lt m.token.length
  have ec := toNat_ofNat_lt m.code hcode
  cases p with
  | udp =>
    have e0 := toNat_ofNat_lt (64 + m.type * 16 + Spec.nib m.token.length) (by omega)
    have e1 := toNat_ofNat_lt (m.mid / 256) (by omega)
    have e2 := toNat_ofNat_lt (m.mid % 256) (by omega)
    have hv : (64 + m.type * 16 + Spec.nib m.token.length) / 64 = 1 := by omega
    have hty' : (64 + m.type * 16 + Spec.nib m.token.length) / 16 % 4 = m.type := by omega
    have htk : (64 + m.type * 16 + Spec.nib m.token.length) % 16 = Spec.nib m.token.length := by omega
    have hm : m.mid / 256 * 256 + m.mid % 256 = m.mid := by omega
    simp only [Spec.encode, Spec.decode, List.cons_append, List.nil_append, e0, e1, e2, ec, hv, hty', htk, hm,
      if_true, body_wf m.type m.mid m htok hopts hz, Spec.onWire]
  | ws =>
    have e0 := toNat_ofNat_lt (Spec.nib m.token.length) (by omega)
    have htk : Spec.nib m.token.length % 16 = Spec.nib m.token.length := by omega
    simp only [Spec.encode, Spec.decode, List.cons_append, List.nil_append, e0, ec, htk,
      body_wf 0 0 m htok hopts hz, Spec.onWire]
  | tcp =>
    obtain ⟨b0, r0, hsplit, hb0, hlen⟩ := tcpLen_tcpHdr (Spec.nib m.token.length) (Spec.encRest m).length
      (UInt8.ofNat m.code :: (Spec.encToken m.token ++ Spec.encRest m)) (by omega) (htcp rfl)
    have htf := tokenField_encToken m.token (Spec.encRest m) htok
    have hD10 : (Spec.encToken m.token ++ Spec.encRest m).length =
        (Spec.extBytes m.token.length).length + m.token.length + (Spec.encRest m).length := by
      simp [Spec.encToken]; omega
    simp only [Spec.encode, Spec.decode, hsplit, hlen, hb0, ec, htf, hD10, if_true,
      body_wf 0 0 m htok hopts hz, Spec.onWire]


theorem body_canonical0 {type mid tkl : Nat} {rest : Bytes} {m : Msg}
    (h : Spec.body type 0 mid tkl rest = some m) :
    tkl = 0 ∧ rest = [] ∧ m = ⟨type, 0, mid, [], [], []⟩ := by
  unfold Spec.body at h
  cases hE : Spec.ext tkl rest with
  | none => simp [hE] at h
  | some p =>
    obtain ⟨n, r⟩ := p
    simp only [hE] at h
    by_cases hfit : n ≤ r.length
    · by_cases hz : tkl = 0 ∧ rest = []
      · simp only [hfit, hz, if_true, and_self, Option.some.injEq] at h
        exact ⟨hz.1, hz.2, h.symm⟩
      · simp [hfit, hz] at h
    · simp [hfit] at h

/-- canonical encoding: on the datagram framing, what decodes to `m` IS `encode m` -/
theorem encode_decode_udp (bs : Bytes) (m : Msg) (h : Spec.decode .udp bs = some m) : Spec.encode .udp m = bs := by
  rcases bs with _ | ⟨b0, _ | ⟨c, _ | ⟨m1, _ | ⟨m2, rest⟩⟩⟩⟩
  · simp [Spec.decode] at h
  · simp [Spec.decode] at h
  · simp [Spec.decode] at h
  · simp [Spec.decode] at h
  · simp only [Spec.decode] at h
    by_cases hv : b0.toNat / 64 = 1
    · simp only [hv, if_true] at h
      have hb0 := byte_lt b0
      have h1 := byte_lt m1
      have h2 := byte_lt m2
      have em1 : UInt8.ofNat ((m1.toNat * 256 + m2.toNat) / 256) = m1 :=
        (ofNat_eq_of_toNat (by omega)).symm
      have em2 : UInt8.ofNat ((m1.toNat * 256 + m2.toNat) % 256) = m2 :=
        (ofNat_eq_of_toNat (by omega)).symm
      by_cases hc : c.toNat = 0
      · rw [hc] at h
        obtain ⟨htk, rfl, rfl⟩ := body_canonical0 h
        have eb : UInt8.ofNat (64 + b0.toNat / 16 % 4 * 16 + 0) = b0 := (ofNat_eq_of_toNat (by omega)).symm
        have ec : UInt8.ofNat 0 = c := (ofNat_eq_of_toNat hc).symm
        simp only [Spec.encode, Spec.encToken, Spec.encRest, Spec.encOpts, Spec.encPayload, Spec.extBytes,
          List.length_nil, show Spec.nib 0 = 0 from rfl, eb, ec, em1, em2]
        simp
      · obtain ⟨hty, hcd, hmid, htk, _, hrest, _⟩ := body_canonical hc h
        have eb : UInt8.ofNat (64 + m.type * 16 + Spec.nib m.token.length) = b0 := by
          rw [hty, ← htk]; exact (ofNat_eq_of_toNat (by omega)).symm
        have ec : UInt8.ofNat m.code = c := by rw [hcd]; exact UInt8.ofNat_toNat
        rw [← hmid] at em1 em2
        simp only [Spec.encode, eb, ec, em1, em2, hrest, Spec.encRest]
        rfl
    · simp [hv] at h


/-! frame facts about the abstract edits -/
theorem insertStable_split (n : Nat) (v : Bytes) (os : List (Nat × Bytes)) :
    ∃ pre post, os = pre ++ post ∧ Spec.insertStable n v os = pre ++ (n, v) :: post ∧
      (∀ o ∈ pre, o.1 ≤ n) ∧ (∀ o, post.head? = some o → n < o.1) := by
  induction os with
  | nil => exact ⟨[], [], by simp [Spec.insertStable]⟩
  | cons o os ih =>
    by_cases h : o.1 ≤ n
    · obtain ⟨pre, post, h1, h2, h3, h4⟩ := ih
      refine ⟨o :: pre, post, by simp [h1], by simp [Spec.insertStable, h, h2], ?_, h4⟩
      intro a ha
      rcases List.mem_cons.mp ha with rfl | ha
      · exact h
      · exact h3 a ha
    · refine ⟨[], o :: os, by simp, by simp [Spec.insertStable, h], by simp, ?_⟩
      intro a ha
      simp at ha; subst ha; omega

theorem hasOpt_cons (n : Nat) (o : Nat × Bytes) (os : List (Nat × Bytes)) :
    Spec.hasOpt n (o :: os) = (o.1 == n || Spec.hasOpt n os) := by
  simp [Spec.hasOpt]

theorem removeFirst_split (n : Nat) (os : List (Nat × Bytes)) (h : Spec.hasOpt n os = true) :
    ∃ pre v post, os = pre ++ (n, v) :: post ∧ Spec.removeFirst n os = pre ++ post ∧ (∀ o ∈ pre, o.1 ≠ n) := by
  induction os with
  | nil => simp [Spec.hasOpt] at h
  | cons o os ih =>
    by_cases ho : o.1 = n
    · refine ⟨[], o.2, os, ?_, by simp [Spec.removeFirst, ho], by simp⟩
      subst ho; rfl
    · rw [hasOpt_cons] at h
      have h' : Spec.hasOpt n os = true := by simpa [ho] using h
      obtain ⟨pre, v, post, h1, h2, h3⟩ := ih h'
      refine ⟨o :: pre, v, post, by simp [h1], by simp [Spec.removeFirst, ho, h2], ?_⟩
      intro a ha
      rcases List.mem_cons.mp ha with rfl | ha
      · exact ho
      · exact h3 a ha

theorem removeFirst_absent (n : Nat) (os : List (Nat × Bytes)) (h : Spec.hasOpt n os = false) :
    Spec.removeFirst n os = os := by
  induction os with
  | nil => rfl
  | cons o os ih =>
    rw [hasOpt_cons] at h
    simp at h
    simp [Spec.removeFirst, h.1, ih h.2]

theorem replaceFirst_split (n : Nat) (v : Bytes) (os : List (Nat × Bytes)) (h : Spec.hasOpt n os = true) :
    ∃ pre w post, os = pre ++ (n, w) :: post ∧ Spec.replaceFirst n v os = pre ++ (n, v) :: post ∧ (∀ o ∈ pre, o.1 ≠ n) := by
  induction os with
  | nil => simp [Spec.hasOpt] at h
  | cons o os ih =>
    by_cases ho : o.1 = n
    · refine ⟨[], o.2, os, ?_, by simp [Spec.replaceFirst, ho], by simp⟩
      subst ho; rfl
    · rw [hasOpt_cons] at h
      have h' : Spec.hasOpt n os = true := by simpa [ho] using h
      obtain ⟨pre, w, post, h1, h2, h3⟩ := ih h'
      refine ⟨o :: pre, w, post, by simp [h1], by simp [Spec.replaceFirst, ho, h2], ?_⟩
      intro a ha
      rcases List.mem_cons.mp ha with rfl | ha
      · exact ho
      · exact h3 a ha

theorem mem_insertStable (n : Nat) (v : Bytes) (os : List (Nat × Bytes)) (a : Nat × Bytes) :
    a ∈ Spec.insertStable n v os ↔ a = (n, v) ∨ a ∈ os := by
  induction os with
  | nil => simp [Spec.insertStable]
  | cons o os ih =>
    by_cases h : o.1 ≤ n
    · simp only [Spec.insertStable, h, if_true, List.mem_cons, ih]
      constructor
      · rintro (h | h | h) <;> simp [h]
      · rintro (h | h | h) <;> simp [h]
    · simp [Spec.insertStable, h]

/-- ascending order is kept by every abstract edit (Pairwise on numbers) -/
theorem insertStable_sorted (n : Nat) (v : Bytes) (os : List (Nat × Bytes)) (h : os.Pairwise (fun a b => a.1 ≤ b.1)) :
    (Spec.insertStable n v os).Pairwise (fun a b => a.1 ≤ b.1) := by
  induction os with
  | nil => simp [Spec.insertStable]
  | cons o os ih =>
    rw [List.pairwise_cons] at h
    obtain ⟨h1, h2⟩ := h
    by_cases ho : o.1 ≤ n
    · simp only [Spec.insertStable, ho, if_true, List.pairwise_cons]
      refine ⟨?_, ih h2⟩
      intro a ha
      rcases (mem_insertStable n v os a).mp ha with rfl | ha
      · exact ho
      · exact h1 a ha
    · simp only [Spec.insertStable, ho, if_false, List.pairwise_cons]
      refine ⟨?_, h1, h2⟩
      intro a ha
      rcases List.mem_cons.mp ha with rfl | ha
      · show n ≤ a.1; omega
      · have := h1 a ha; show n ≤ a.1; omega

theorem removeFirst_sublist (n : Nat) (os : List (Nat × Bytes)) : (Spec.removeFirst n os).Sublist os := by
  induction os with
  | nil => exact List.Sublist.slnil
  | cons o os ih =>
    by_cases ho : o.1 = n
    · simp [Spec.removeFirst, ho]
    · simp only [Spec.removeFirst, ho, if_false]
      exact ih.cons_cons o

theorem removeFirst_sorted (n : Nat) (os : List (Nat × Bytes)) (h : os.Pairwise (fun a b => a.1 ≤ b.1)) :
    (Spec.removeFirst n os).Pairwise (fun a b => a.1 ≤ b.1) :=
  h.sublist (removeFirst_sublist n os)

theorem replaceFirst_map_fst (n : Nat) (v : Bytes) (os : List (Nat × Bytes)) :
    (Spec.replaceFirst n v os).map (·.1) = os.map (·.1) := by
  induction os with
  | nil => rfl
  | cons o os ih =>
    by_cases ho : o.1 = n
    · simp [Spec.replaceFirst, ho]
    · simp [Spec.replaceFirst, ho, ih]

theorem replaceFirst_sorted (n : Nat) (v : Bytes) (os : List (Nat × Bytes)) (h : os.Pairwise (fun a b => a.1 ≤ b.1)) :
    (Spec.replaceFirst n v os).Pairwise (fun a b => a.1 ≤ b.1) := by
  have h' : (os.map (·.1)).Pairwise (· ≤ ·) := List.pairwise_map.mpr h
  rw [← replaceFirst_map_fst n v os] at h'
  exact List.pairwise_map.mp h'


theorem insertStable_filter (n : Nat) (v : Bytes) (k : Nat) (os : List (Nat × Bytes))
    (h : os.Pairwise (fun a b => a.1 ≤ b.1)) :
    (Spec.insertStable n v os).filter (fun o => o.1 == k) =
      os.filter (fun o => o.1 == k) ++ [(n, v)].filter (fun o => o.1 == k) := by
  induction os with
  | nil => simp [Spec.insertStable]
  | cons o os ih =>
    rw [List.pairwise_cons] at h
    obtain ⟨h1, h2⟩ := h
    by_cases ho : o.1 ≤ n
    · simp only [Spec.insertStable, ho, if_true, List.filter_cons, ih h2]
      split <;> simp
    · simp only [Spec.insertStable, ho, if_false]
      by_cases hk : n = k
      · have hnone : (o :: os).filter (fun o => o.1 == k) = [] := by
          rw [List.filter_eq_nil_iff]
          intro a ha
          have : n < a.1 := by
            rcases List.mem_cons.mp ha with rfl | ha
            · omega
            · have := h1 a ha; omega
          simp; omega
        rw [List.filter_cons, hnone]
        simp [hk]
      · rw [List.filter_cons]
        simp [hk]

theorem build_aux (xs : List (Nat × Bytes)) (k : Nat) : ∀ (acc : List (Nat × Bytes)),
    acc.Pairwise (fun a b => a.1 ≤ b.1) →
    (xs.foldl (fun os x => Spec.insertStable x.1 x.2 os) acc).Pairwise (fun a b => a.1 ≤ b.1) ∧
    (xs.foldl (fun os x => Spec.insertStable x.1 x.2 os) acc).filter (fun o => o.1 == k) =
      acc.filter (fun o => o.1 == k) ++ xs.filter (fun o => o.1 == k) := by
  induction xs with
  | nil => intro acc h; simp [h]
  | cons x xs ih =>
    intro acc h
    obtain ⟨i1, i2⟩ := ih (Spec.insertStable x.1 x.2 acc) (insertStable_sorted _ _ _ h)
    refine ⟨i1, ?_⟩
    simp only [List.foldl_cons]
    rw [i2, insertStable_filter _ _ _ _ h, List.append_assoc]
    congr 1
    show _ = List.filter (fun o => o.1 == k) ([x] ++ xs)
    rw [List.filter_append]

theorem build_sorted (xs : List (Nat × Bytes)) :
    (xs.foldl (fun os x => Spec.insertStable x.1 x.2 os) []).Pairwise (fun a b => a.1 ≤ b.1) :=
  (build_aux xs 0 [] List.Pairwise.nil).1

theorem build_stable (xs : List (Nat × Bytes)) (k : Nat) :
    (xs.foldl (fun os x => Spec.insertStable x.1 x.2 os) []).filter (fun o => o.1 == k) = xs.filter (fun o => o.1 == k) := by
  rw [(build_aux xs k [] List.Pairwise.nil).2]; simp

/-- link between the Bool check `optsOk` and sortedness -/
theorem optsOk_sorted (code prev : Nat) (os : List (Nat × Bytes)) (h : Spec.optsOk code prev os = true) :
    os.Pairwise (fun a b => a.1 ≤ b.1) ∧ ∀ o ∈ os, prev ≤ o.1 ∧ o.1 ≤ 65535 ∧ o.2.length ≤ 65804 ∧ Spec.optLenOk code o.1 o.2.length = true := by
  induction os generalizing prev with
  | nil => simp
  | cons o os ih =>
    rw [optsOk_cons] at h
    obtain ⟨h1, h2, h3, h4, h5⟩ := h
    obtain ⟨i1, i2⟩ := ih o.1 h5
    refine ⟨List.pairwise_cons.mpr ⟨fun a ha => (i2 a ha).1, i1⟩, ?_⟩
    intro a ha
    rcases List.mem_cons.mp ha with rfl | ha
    · exact ⟨h1, h2, h3, h4⟩
    · obtain ⟨j1, j2⟩ := i2 a ha
      exact ⟨by omega, j2⟩

theorem optsOk_of_sorted (code prev : Nat) (os : List (Nat × Bytes)) (hs : os.Pairwise (fun a b => a.1 ≤ b.1))
    (ha : ∀ o ∈ os, prev ≤ o.1 ∧ o.1 ≤ 65535 ∧ o.2.length ≤ 65804 ∧ Spec.optLenOk code o.1 o.2.length = true) :
    Spec.optsOk code prev os = true := by
  induction os generalizing prev with
  | nil => rfl
  | cons o os ih =>
    rw [List.pairwise_cons] at hs
    obtain ⟨h1, h2⟩ := hs
    rw [optsOk_cons]
    obtain ⟨a1, a2, a3, a4⟩ := ha o (List.mem_cons_self ..)
    refine ⟨a1, a2, a3, a4, ih o.1 h2 ?_⟩
    intro a hm
    obtain ⟨_, b2⟩ := ha a (List.mem_cons_of_mem _ hm)
    exact ⟨h1 a hm, b2⟩

end Coap
