import CoapVerif.Lemmas.EditWf
import CoapVerif.Model.Duplicate
import CoapVerif.Spec.Duplicate
/-
M-side lemmas for coap_pdu_duplicate_lkd (C04): on the representing PDU of `a` both branches (memcpy of the option
area; re-adding the options the filter does not name) yield NULL or the representing PDU of the abstract copy
`Spec.duplicate`; and the abstract copy is the fold of `Spec.applyEdit` over `Spec.dupEdits` (D16).
-/
namespace Coap
open Coap.M

/-! ### S side: the copy is an edit sequence -/

theorem keep_none (os : List (Nat × Bytes)) : Spec.keep (fun _ => false) os = os := by
  simp [Spec.keep]

theorem keep_cons_drop (drop : Nat → Bool) (o : Nat × Bytes) (os : List (Nat × Bytes)) (h : drop o.1 = true) :
    Spec.keep drop (o :: os) = Spec.keep drop os := by
  simp [Spec.keep, h]

theorem keep_cons_keep (drop : Nat → Bool) (o : Nat × Bytes) (os : List (Nat × Bytes)) (h : drop o.1 = false) :
    Spec.keep drop (o :: os) = o :: Spec.keep drop os := by
  simp [Spec.keep, h]

/-- removing options that do not occur at the head: the head stays -/
theorem foldl_remove_cons (x : Nat × Bytes) : ∀ (ds xs : List (Nat × Bytes)), (∀ d ∈ ds, d.1 ≠ x.1) →
    ds.foldl (fun os d => Spec.removeFirst d.1 os) (x :: xs) = x :: ds.foldl (fun os d => Spec.removeFirst d.1 os) xs := by
  intro ds
  induction ds with
  | nil => intro xs _; rfl
  | cons d ds ih =>
    intro xs h
    have hd : ¬ (x.1 = d.1) := fun e => h d (List.mem_cons_self ..) e.symm
    simp only [List.foldl_cons, Spec.removeFirst, hd, if_false]
    exact ih _ (fun y hy => h y (List.mem_cons_of_mem _ hy))

/-- one `removeFirst` per occurrence of a named option removes exactly the named options -/
theorem foldl_remove_keep (drop : Nat → Bool) : ∀ os : List (Nat × Bytes),
    (os.filter fun o => drop o.1).foldl (fun os d => Spec.removeFirst d.1 os) os = Spec.keep drop os := by
  intro os
  induction os with
  | nil => rfl
  | cons x xs ih =>
    cases hx : drop x.1 with
    | true =>
      rw [keep_cons_drop drop x xs hx]
      simp only [List.filter_cons, hx, if_true, List.foldl_cons, Spec.removeFirst]
      exact ih
    | false =>
      rw [keep_cons_keep drop x xs hx]
      have hf : ((x :: xs).filter fun o => drop o.1) = xs.filter fun o => drop o.1 := by
        simp [hx]
      rw [hf, foldl_remove_cons x _ xs ?_, ih]
      intro d hd e
      have hd2 := (List.mem_filter.mp hd).2
      rw [e, hx] at hd2
      cases hd2

theorem foldl_applyEdit_removes (m : Msg) : ∀ (ds : List (Nat × Bytes)),
    (ds.map fun o => Spec.Edit.remove o.1).foldl (Spec.applyEdit false) m =
      { m with opts := ds.foldl (fun os d => Spec.removeFirst d.1 os) m.opts } := by
  intro ds
  induction ds generalizing m with
  | nil => rfl
  | cons d ds ih =>
    simp only [List.map_cons, List.foldl_cons]
    rw [ih]
    rfl

/-! ### the memcpy branch -/

theorem pduInit_conc (ty code mid size : Nat) (h : size ≤ 8388858) :
    pduInit ty code mid size = some (conc size ⟨ty, code, mid, [], [], []⟩) := by
  unfold pduInit
  rw [if_neg (by omega)]
  rfl

theorem pduInit_none (ty code mid size : Nat) (h : ¬ size ≤ 8388858) : pduInit ty code mid size = none := by
  unfold pduInit
  rw [if_pos (by omega)]

theorem dupTail_conc (ms : Nat) (a : Msg) : dupTail (conc ms a) = R.ok (Spec.encPayload a.payload).length := by
  unfold dupTail
  have hl := conc_buf_length ms a
  by_cases hp : a.payload = []
  · have hd : (conc ms a).data = none := by simp [conc, hp]
    rw [hd]
    simp [Spec.encPayload, hp]
  · have hd : (conc ms a).data =
        some ((Spec.extBytes a.token.length).length + a.token.length + (Spec.encOpts 0 a.opts).length + 1) := by
      simp [conc, hp]
    have hpl : (Spec.encPayload a.payload).length = a.payload.length + 1 := by simp [Spec.encPayload, hp]
    rw [hd]
    simp only []
    rw [if_neg (by omega)]
    congr 1
    omega

/-- the memcpy branch on the representing PDU of `a`, the copy so far being the fresh PDU with its token -/
theorem dupFast_conc (ms ms' : Nat) (a : Msg) (ty code mid : Nat) (t : Bytes) :
    dupFast (conc ms a) (conc ms' ⟨ty, code, mid, t, [], []⟩) =
      R.ok (if ms' = 0 ∨ (Spec.encToken t).length + (Spec.encOpts 0 a.opts).length ≤ ms'
            then some (conc ms' ⟨ty, code, mid, t, a.opts, []⟩) else none) := by
  unfold dupFast
  rw [dupTail_conc]
  have hl := conc_buf_length ms a
  have hetl : (conc ms a).etl = (Spec.extBytes a.token.length).length + a.token.length := rfl
  have hetl' : (conc ms' ⟨ty, code, mid, t, [], []⟩).etl = (Spec.encToken t).length := by
    rw [encToken_length]; rfl
  have hlen : (conc ms a).buf.length - (conc ms a).etl - (Spec.encPayload a.payload).length =
      (Spec.encOpts 0 a.opts).length := by omega
  simp only []
  rw [if_neg (by omega), hlen, hetl']
  have hcopy : ((conc ms a).buf.drop (conc ms a).etl).take (Spec.encOpts 0 a.opts).length = Spec.encOpts 0 a.opts := by
    rw [conc_drop_etl]; exact take_app_len _ _
  rw [hcopy]
  by_cases hfit : ms' = 0 ∨ (Spec.encToken t).length + (Spec.encOpts 0 a.opts).length ≤ ms'
  · have hcr : checkResize (conc ms' ⟨ty, code, mid, t, [], []⟩)
        ((Spec.encOpts 0 a.opts).length + (Spec.encToken t).length) = true :=
      checkResize_true _ _ (by
        rcases hfit with h | h
        · exact Or.inl h
        · exact Or.inr (by show _ ≤ ms'; omega))
    rw [if_pos hfit, hcr]
    simp [conc, Spec.encPayload, Spec.encOpts, Spec.encToken]
  · have hcr : checkResize (conc ms' ⟨ty, code, mid, t, [], []⟩)
        ((Spec.encOpts 0 a.opts).length + (Spec.encToken t).length) = false :=
      checkResize_false _ _ ⟨fun h => hfit (Or.inl h), by
        show _ > ms'
        have : ¬ _ ≤ ms' := fun h => hfit (Or.inr h)
        omega⟩
    rw [if_neg hfit, hcr]
    simp

/-- what the first two steps of coap_pdu_duplicate_lkd (coap_pdu_init, coap_add_token) leave: nothing, or the fresh
PDU carrying the token -/
theorem dup_start (ty code mid ms' : Nat) (t : Bytes) :
    (ms' ≤ 8388858 ∧ t.length ≤ 65804 ∧ (ms' = 0 ∨ (Spec.encToken t).length ≤ ms') ∧
      pduInit ty code mid ms' = some (conc ms' ⟨ty, code, mid, [], [], []⟩) ∧
      addToken (conc ms' ⟨ty, code, mid, [], [], []⟩) t = R.ok (1, conc ms' ⟨ty, code, mid, t, [], []⟩)) ∨
    (¬ (ms' ≤ 8388858) ∧ pduInit ty code mid ms' = none) ∨
    (ms' ≤ 8388858 ∧ (t.length > 65804 ∨ (ms' ≠ 0 ∧ (Spec.encToken t).length > ms')) ∧
      pduInit ty code mid ms' = some (conc ms' ⟨ty, code, mid, [], [], []⟩) ∧
      addToken (conc ms' ⟨ty, code, mid, [], [], []⟩) t = R.ok (0, conc ms' ⟨ty, code, mid, [], [], []⟩)) := by
  have hEt := encToken_length t
  by_cases h0 : ms' ≤ 8388858
  · by_cases hbad : t.length > 65804 ∨ (ms' ≠ 0 ∧ (Spec.encToken t).length > ms')
    · right; right
      refine ⟨h0, hbad, pduInit_conc ty code mid ms' h0, ?_⟩
      apply addToken_refused
      rcases hbad with h | ⟨h1, h2⟩
      · exact Or.inr (Or.inl h)
      · exact Or.inr (Or.inr ⟨h1, by omega⟩)
    · left
      have ht : t.length ≤ 65804 := by
        have : ¬ t.length > 65804 := fun h => hbad (Or.inl h)
        omega
      have hfit : ms' = 0 ∨ (Spec.encToken t).length ≤ ms' := by
        by_cases hz : ms' = 0
        · exact Or.inl hz
        · right
          have : ¬ (Spec.encToken t).length > ms' := fun h => hbad (Or.inr ⟨hz, h⟩)
          omega
      refine ⟨h0, ht, hfit, pduInit_conc ty code mid ms' h0, ?_⟩
      apply addToken_conc ms' ty code mid t ht
      rcases hfit with h | h
      · exact Or.inl h
      · exact Or.inr (by omega)
  · right; left
    exact ⟨h0, pduInit_none ty code mid ms' h0⟩

/-- **the memcpy branch of coap_pdu_duplicate_lkd, closed form**: NULL exactly when the new capacity is above what
coap_pdu_init accepts, the token is longer than 65804 bytes, or token + options do not fit; otherwise the PDU
representing the abstract copy: new message id, new token, ALL options of `a` (same numbers, values, order), no payload -/
theorem duplicate_fast_conc (ms : Nat) (a : Msg) (mid smax : Nat) (t : Bytes) :
    duplicate (conc ms a) mid smax t none =
      R.ok (if max ms smax ≤ 8388858 ∧ t.length ≤ 65804 ∧
               (max ms smax = 0 ∨ (Spec.encToken t).length + (Spec.encOpts 0 a.opts).length ≤ max ms smax)
            then some (conc (max ms smax) (Spec.duplicate false a mid t (fun _ => false))) else none) := by
  have hcopy : Spec.duplicate false a mid t (fun _ => false) = ⟨a.type, a.code, mid, t, a.opts, []⟩ := by
    simp [Spec.duplicate, keep_none]
  rw [hcopy]
  unfold duplicate
  have h1 : (conc ms a).type = a.type := rfl
  have h2 : (conc ms a).code = a.code := rfl
  have h3 : (conc ms a).maxSize = ms := rfl
  rw [h1, h2, h3]
  rcases dup_start a.type a.code mid (max ms smax) t with ⟨k1, k2, k3, k4, k5⟩ | ⟨k1, k2⟩ | ⟨k1, k2, k3, k4⟩
  · rw [k4]
    simp only []
    rw [k5]
    simp only []
    rw [if_neg (by omega), dupFast_conc]
    by_cases hfit : max ms smax = 0 ∨ (Spec.encToken t).length + (Spec.encOpts 0 a.opts).length ≤ max ms smax
    · rw [if_pos hfit, if_pos ⟨k1, k2, hfit⟩]
    · rw [if_neg hfit, if_neg (fun h => hfit h.2.2)]
  · rw [k2]
    simp only []
    rw [if_neg (fun h => k1 h.1)]
  · rw [k3]
    simp only []
    rw [k4]
    simp only []
    rw [if_pos trivial, if_neg]
    rintro ⟨_, j2, j3⟩
    rcases k2 with h | ⟨h1, h2⟩
    · omega
    · rcases j3 with h | h
      · exact h1 h
      · omega

/-! ### the filter branch -/

/-- the value bytes `coap_opt_value` / `coap_opt_length` deliver for an option of the canonical buffer -/
theorem optValue_itemOf (old : Pdu) (pre : Bytes) (prev : Nat) (o : Nat × Bytes) (rest : Bytes)
    (h : old.buf = pre ++ (Spec.encOpt (o.1 - prev) o.2 ++ rest)) :
    optValue old (itemOf pre.length prev o) = o.2 := by
  unfold optValue itemOf
  simp only []
  have e : old.buf = (pre ++ (UInt8.ofNat (Spec.nib (o.1 - prev) * 16 + Spec.nib o.2.length) ::
      (Spec.extBytes (o.1 - prev) ++ Spec.extBytes o.2.length))) ++ (o.2 ++ rest) := by
    rw [h, encOpt_cons]; simp
  rw [e, List.drop_left' (by simp; omega), List.take_left' rfl]

theorem insertStable_snoc (k : Nat) (w : Bytes) (o : Nat × Bytes) (h : k < o.1) : ∀ K : List (Nat × Bytes),
    Spec.insertStable k w (K ++ [o]) = Spec.insertStable k w K ++ [o] := by
  intro K
  induction K with
  | nil =>
    have : ¬ (o.1 ≤ k) := by omega
    simp [Spec.insertStable, this]
  | cons x K ih =>
    by_cases hx : x.1 ≤ k
    · simp only [List.cons_append, Spec.insertStable, hx, if_true, ih]
    · simp only [List.cons_append, Spec.insertStable, hx, if_false]

theorem hasOpt_snoc (n : Nat) (K : List (Nat × Bytes)) (o : Nat × Bytes) :
    Spec.hasOpt n (K ++ [o]) = (Spec.hasOpt n K || o.1 == n) := by
  simp [Spec.hasOpt, List.any_append]

theorem hasOpt_mem {n : Nat} {K : List (Nat × Bytes)} (h : Spec.hasOpt n K = true) : ∃ x ∈ K, x.1 = n := by
  unfold Spec.hasOpt at h
  rw [List.any_eq_true] at h
  obtain ⟨x, hx, he⟩ := h
  exact ⟨x, hx, by simpa using he⟩

/-- what the copy's option list is while the loop runs over a prefix with kept options `K`: `K` itself, or `K` with
the implicit Hop-Limit (only where D13 allows it for a copy) -/
def DupInv (code : Nat) (K bo : List (Nat × Bytes)) : Prop :=
  bo = K ∨ (Spec.dupHopOk code K = true ∧ bo = Spec.insertStable 16 [16] K)

/-- one accepted coap_add_option_internal of the loop keeps `DupInv` -/
theorem dupInv_step (code : Nat) (K bo : List (Nat × Bytes)) (o : Nat × Bytes) (hop : Bool) (prev : Nat)
    (hle : ∀ x ∈ bo, x.1 ≤ prev) (hpo : prev ≤ o.1) (hinv : DupInv code K bo)
    (hh : hop = true → Spec.hopApplies code o.1 bo = true) :
    DupInv code (K ++ [o]) (Spec.addSem hop o.1 o.2 bo) ∧ ∀ x ∈ Spec.addSem hop o.1 o.2 bo, x.1 ≤ o.1 := by
  have ho : (o.1, o.2) = o := rfl
  cases hop with
  | true =>
    have hha := hh rfl
    simp only [Spec.hopApplies, Bool.and_eq_true, Bool.or_eq_true, decide_eq_true_eq, beq_iff_eq,
      Bool.not_eq_true'] at hha
    obtain ⟨⟨⟨c1, c2⟩, c3⟩, c4⟩ := hha
    have hbo : bo = K := by
      rcases hinv with h | ⟨_, h⟩
      · exact h
      · rw [h, hasOpt_insertStable] at c4; cases c4
    subst hbo
    have h16 : 16 < o.1 := by omega
    have hall : ∀ x ∈ Spec.insertStable 16 [16] bo, x.1 ≤ o.1 := by
      intro x hx
      rcases (mem_insertStable 16 [16] bo x).mp hx with rfl | hx
      · show 16 ≤ o.1; omega
      · exact Nat.le_trans (hle x hx) hpo
    have hsem : Spec.addSem true o.1 o.2 bo = Spec.insertStable 16 [16] (bo ++ [o]) := by
      simp only [Spec.addSem, if_true]
      rw [insertStable_all_le o.1 o.2 _ hall, ho, insertStable_snoc 16 [16] o h16]
    refine ⟨Or.inr ⟨?_, hsem⟩, ?_⟩
    · simp only [Spec.dupHopOk, hasOpt_snoc, c4, Bool.and_eq_true, Bool.or_eq_true, decide_eq_true_eq, beq_iff_eq,
        Bool.not_eq_true', Bool.false_or]
      refine ⟨⟨⟨c1, c2⟩, ?_⟩, ?_⟩
      · rcases c3 with h | h
        · exact Or.inl (Or.inr h)
        · exact Or.inr (Or.inr h)
      · cases hb : (o.1 == 16) with
        | false => rfl
        | true => have := beq_iff_eq.mp hb; omega
    · intro x hx
      rw [hsem] at hx
      rcases (mem_insertStable 16 [16] (bo ++ [o]) x).mp hx with rfl | hx
      · show 16 ≤ o.1; omega
      · rcases List.mem_append.mp hx with hx | hx
        · exact Nat.le_trans (hle x hx) hpo
        · simp at hx; subst hx; exact Nat.le_refl _
  | false =>
    have hall : ∀ x ∈ bo, x.1 ≤ o.1 := fun x hx => Nat.le_trans (hle x hx) hpo
    have hsem : Spec.addSem false o.1 o.2 bo = bo ++ [o] := by
      have hf : (false = true) = False := by simp
      simp only [Spec.addSem, hf, if_false]
      rw [insertStable_all_le o.1 o.2 bo hall, ho]
    refine ⟨?_, ?_⟩
    · rcases hinv with h | ⟨hok, h⟩
      · left; rw [hsem, h]
      · right
        have hok' := hok
        simp only [Spec.dupHopOk, Bool.and_eq_true, Bool.or_eq_true, decide_eq_true_eq, Bool.not_eq_true'] at hok'
        obtain ⟨⟨⟨c1, c2⟩, c3⟩, c4⟩ := hok'
        have h35 : 35 ≤ o.1 := by
          rcases c3 with h3 | h3
          · obtain ⟨x, hx, he⟩ := hasOpt_mem h3
            have : x ∈ bo := by rw [h]; exact (mem_insertStable 16 [16] K x).mpr (Or.inr hx)
            have := hall x this
            omega
          · obtain ⟨x, hx, he⟩ := hasOpt_mem h3
            have : x ∈ bo := by rw [h]; exact (mem_insertStable 16 [16] K x).mpr (Or.inr hx)
            have := hall x this
            omega
        refine ⟨?_, ?_⟩
        · simp only [Spec.dupHopOk, hasOpt_snoc, c4, Bool.and_eq_true, Bool.or_eq_true, decide_eq_true_eq, beq_iff_eq,
            Bool.not_eq_true', Bool.false_or]
          refine ⟨⟨⟨c1, c2⟩, ?_⟩, ?_⟩
          · rcases c3 with h3 | h3
            · exact Or.inl (Or.inl h3)
            · exact Or.inr (Or.inl h3)
          · cases hb : (o.1 == 16) with
            | false => rfl
            | true => have := beq_iff_eq.mp hb; omega
        · rw [hsem, h, insertStable_snoc 16 [16] o (by omega)]
    · intro x hx
      rw [hsem] at hx
      rcases List.mem_append.mp hx with hx | hx
      · exact hall x hx
      · simp at hx; subst hx; exact Nat.le_refl _

/-- the copy loop over the canonical option area of `old`: NULL (only for lack of space or a refused repetition), or
the representing PDU of the copy so far extended by the options the filter does not name -/
theorem dupCopy_conc (ms' : Nat) (drop : Nat → Bool) (old : Pdu) (ty code mid : Nat) (t : Bytes) :
    ∀ (os : List (Nat × Bytes)) (pre rest : Bytes) (prev : Nat) (K bo : List (Nat × Bytes)),
      old.buf = pre ++ (Spec.encOpts prev os ++ rest) → optsB prev os →
      Shape ⟨ty, code, mid, t, bo, []⟩ → (∀ x ∈ bo, x.1 ≤ prev) → DupInv code K bo →
      ∃ r, dupCopy drop old (absItems pre.length prev os) (conc ms' ⟨ty, code, mid, t, bo, []⟩) = R.ok r ∧
        ((r = none ∧ (ms' ≠ 0 ∨ ∃ o ∈ os, ¬ repeatable o.1 = true)) ∨
         ∃ bo', r = some (conc ms' ⟨ty, code, mid, t, bo', []⟩) ∧ DupInv code (K ++ Spec.keep drop os) bo' ∧
                Shape ⟨ty, code, mid, t, bo', []⟩) := by
  intro os
  induction os with
  | nil =>
    intro pre rest prev K bo _ _ hs _ hinv
    refine ⟨_, rfl, Or.inr ⟨bo, rfl, ?_, hs⟩⟩
    simpa [Spec.keep] using hinv
  | cons o os ih =>
    intro pre rest prev K bo hbuf hb hs hle hinv
    obtain ⟨b1, b2, b3, b4⟩ := hb
    have hbuf' : old.buf = (pre ++ Spec.encOpt (o.1 - prev) o.2) ++ (Spec.encOpts o.1 os ++ rest) := by
      rw [hbuf]; simp [Spec.encOpts]
    have hplen : (pre ++ Spec.encOpt (o.1 - prev) o.2).length = pre.length + (Spec.encOpt (o.1 - prev) o.2).length := by
      simp
    have hnum : (itemOf pre.length prev o).num = o.1 := rfl
    simp only [absItems, dupCopy, hnum]
    rw [← hplen]
    cases hd : drop o.1 with
    | true =>
      simp only [if_true]
      obtain ⟨r, e1, e2⟩ := ih _ rest o.1 K bo hbuf' b4 hs (fun x hx => Nat.le_trans (hle x hx) b1) hinv
      refine ⟨r, e1, ?_⟩
      rw [keep_cons_drop drop o os hd]
      rcases e2 with ⟨j1, j2⟩ | j
      · left
        refine ⟨j1, ?_⟩
        rcases j2 with h | ⟨x, hx, hr⟩
        · exact Or.inl h
        · exact Or.inr ⟨x, List.mem_cons_of_mem _ hx, hr⟩
      · exact Or.inr j
    | false =>
      have hf : (false = true) = False := by simp
      simp only [hf, if_false]
      have hval : optValue old (itemOf pre.length prev o) = o.2 :=
        optValue_itemOf old pre prev o (Spec.encOpts o.1 os ++ rest) (by rw [hbuf]; simp [Spec.encOpts])
      rw [hval, addOptionInternal_conc ms' ⟨ty, code, mid, t, bo, []⟩ o.1 o.2 hs b2]
      simp only []
      have hshape := absAdd_shape ms' ⟨ty, code, mid, t, bo, []⟩ o.1 o.2 hs b2
      rcases absAdd_cases ms' ⟨ty, code, mid, t, bo, []⟩ o.1 o.2 with ⟨k1, hop, k2, k3⟩ | ⟨k1, _, k3⟩
      · rw [if_neg k1]
        rw [k3] at hshape ⊢
        obtain ⟨i1, i2⟩ := dupInv_step code K bo o hop prev hle b1 hinv k2
        obtain ⟨r, e1, e2⟩ := ih _ rest o.1 (K ++ [o]) (Spec.addSem hop o.1 o.2 bo) hbuf' b4 hshape i2 i1
        refine ⟨r, e1, ?_⟩
        rw [keep_cons_keep drop o os hd]
        rcases e2 with ⟨j1, j2⟩ | ⟨bo', j1, j2, j3⟩
        · left
          refine ⟨j1, ?_⟩
          rcases j2 with h | ⟨x, hx, hr⟩
          · exact Or.inl h
          · exact Or.inr ⟨x, List.mem_cons_of_mem _ hx, hr⟩
        · right
          refine ⟨bo', j1, ?_, j3⟩
          simpa using j2
      · rw [if_pos k1]
        refine ⟨none, rfl, Or.inl ⟨rfl, ?_⟩⟩
        rcases k3 with h | h | h
        · omega
        · exact Or.inr ⟨o, List.mem_cons_self .., h.2⟩
        · exact Or.inl h

/-- **the filter branch of coap_pdu_duplicate_lkd**: NULL (only when the capacity is above what coap_pdu_init accepts,
the token is too long, space is limited, or a non-repeatable option would be repeated), or the PDU representing the
abstract copy: new message id, new token, the options of `a` the filter does not name (numbers, values, order kept),
no payload — D13: with Hop-Limit = 16 only where `dupHopOk` -/
theorem duplicate_filter_conc (ms : Nat) (a : Msg) (mid smax : Nat) (t : Bytes) (drop : Nat → Bool) (hs : Shape a) :
    ∃ r, duplicate (conc ms a) mid smax t (some drop) = R.ok r ∧
      ((r = none ∧ (¬ (max ms smax ≤ 8388858) ∨ t.length > 65804 ∨ max ms smax ≠ 0 ∨
                     ∃ o ∈ a.opts, ¬ repeatable o.1 = true)) ∨
       ∃ hop : Bool, (hop = true → Spec.dupHopOk a.code (Spec.keep drop a.opts) = true) ∧
         r = some (conc (max ms smax) (Spec.duplicate hop a mid t drop)) ∧ Shape (Spec.duplicate hop a mid t drop)) := by
  unfold duplicate
  have h1 : (conc ms a).type = a.type := rfl
  have h2 : (conc ms a).code = a.code := rfl
  have h3 : (conc ms a).maxSize = ms := rfl
  rw [h1, h2, h3]
  rcases dup_start a.type a.code mid (max ms smax) t with ⟨k1, k2, k3, k4, k5⟩ | ⟨k1, k2⟩ | ⟨k1, k2, k3, k4⟩
  · rw [k4]
    simp only []
    rw [k5]
    simp only []
    rw [if_neg (by omega), items_conc ms a hs, ← encToken_length]
    have hbuf : (conc ms a).buf = Spec.encToken a.token ++ (Spec.encOpts 0 a.opts ++ Spec.encPayload a.payload) := rfl
    have hs0 : Shape ⟨a.type, a.code, mid, t, [], []⟩ := ⟨k2, List.Pairwise.nil, fun o ho => by cases ho⟩
    obtain ⟨r, e1, e2⟩ := dupCopy_conc (max ms smax) drop (conc ms a) a.type a.code mid t a.opts
      (Spec.encToken a.token) (Spec.encPayload a.payload) 0 [] [] hbuf (optsB_of_shape hs) hs0
      (fun x hx => by cases hx) (Or.inl rfl)
    refine ⟨r, e1, ?_⟩
    rcases e2 with ⟨j1, j2⟩ | ⟨bo', j1, j2, j3⟩
    · left
      refine ⟨j1, ?_⟩
      rcases j2 with h | h
      · exact Or.inr (Or.inr (Or.inl h))
      · exact Or.inr (Or.inr (Or.inr h))
    · right
      rw [List.nil_append] at j2
      rcases j2 with h | ⟨hok, h⟩
      · refine ⟨false, (fun h => by cases h), ?_, ?_⟩
        · rw [j1, h]; rfl
        · rw [h] at j3; exact j3
      · refine ⟨true, (fun _ => hok), ?_, ?_⟩
        · rw [j1, h]; rfl
        · rw [h] at j3; exact j3
  · rw [k2]
    exact ⟨none, rfl, Or.inl ⟨rfl, Or.inl k1⟩⟩
  · rw [k3]
    simp only []
    rw [k4]
    simp only []
    rw [if_pos trivial]
    refine ⟨none, rfl, Or.inl ⟨rfl, ?_⟩⟩
    rcases k2 with h | ⟨h, _⟩
    · exact Or.inr (Or.inl h)
    · exact Or.inr (Or.inr (Or.inl h))

end Coap
