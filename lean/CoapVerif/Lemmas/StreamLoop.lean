import CoapVerif.Lemmas.Stream
/- C05: one iteration of the TCP reader loop in each of its three states, and the invariant
   "reader state = the state determined by the pending bytes of the current frame" (`stateOf`),
   giving `loop_eq_frames`: the loop run on a chunk = the specification run on pending ++ chunk. -/
namespace Coap
open Coap.M Coap.M.Stream Coap.Spec.Stream

def stateOf (pend : Bytes) : St :=
  match pend with
  | [] => ⟨[], 0, none⟩
  | b0 :: _ =>
    if pend.length < hdrLen b0 then ⟨pend, pend.length, none⟩
    else ⟨[], pend.length, some ⟨headerSize .tcp b0.toNat, declared (pend.take (hdrLen b0)), pend⟩⟩

def outOf : End → Out
  | .open l => .cont (stateOf l)
  | .closed => .closed

def conv (r : List Msg × End) : List Msg × Out := (r.1, outOf r.2)

def Pend (max : Nat) (pend : Bytes) : Prop :=
  match pend with
  | [] => True
  | b0 :: _ => pend.length < hdrLen b0 ∨
      (declared (pend.take (hdrLen b0)) ≤ max ∧ pend.length < fixedLen b0 + declared (pend.take (hdrLen b0)))

def Cap (maxRcv : Nat) : Prop := 0 < maxRcv ∧ maxRcv + maxHdr ≤ maxRx

theorem alloc_iff (maxRcv size : Nat) (hc : Cap maxRcv) :
    (size > maxRx ∨ pduAlloc maxRcv size = false) ↔ maxRcv < size := by
  obtain ⟨h0, h1⟩ := hc
  simp only [maxHdr, maxRx] at h1
  simp only [pduAlloc, maxRx, maxHdr]
  constructor
  · intro h
    rcases h with h | h
    · omega
    · by_cases a : maxRcv > 8388864 - 6
      · omega
      · by_cases b : min maxRcv 256 < size
        · by_cases c : maxRcv ≠ 0 ∧ size > maxRcv
          · exact c.2
          · simp [a, b, c] at h
        · simp [a, b] at h
  · intro h
    right
    have a : ¬ (maxRcv > 8388864 - 6) := by omega
    have b : min maxRcv 256 < size := by omega
    have c : maxRcv ≠ 0 ∧ size > maxRcv := ⟨by omega, h⟩
    simp [a, b, c]

theorem headerSize_pos (x : Nat) : headerSize .tcp x ≠ 0 := by
  simp only [headerSize]; split <;> (try split) <;> (try split) <;> omega

theorem loop_nil (m fuel : Nat) (st : St) : loop m fuel st [] = ([], .cont st) := by
  cases fuel <;> simp [loop]

theorem loop_idle_cons (m f : Nat) (b : UInt8) (r : Bytes) :
    loop m (f + 1) ⟨[], 0, none⟩ (b :: r) = loop m f ⟨[b], 1, none⟩ r := by
  simp [loop, headerSize_pos]

theorem loop_hdr_short (m f : Nat) (b0 : UInt8) (p bs : Bytes) (hp : (b0 :: p).length < hdrLen b0)
    (hbs : bs ≠ []) (hs : bs.length < hdrLen b0 - (b0 :: p).length) :
    loop m (f + 1) ⟨b0 :: p, (b0 :: p).length, none⟩ bs =
      ([], .cont ⟨(b0 :: p) ++ bs, (b0 :: p).length + bs.length, none⟩) := by
  have hl : hdrLen b0 = headerSize .tcp b0.toNat + (if b0.toNat % 16 = 13 then 1 else if b0.toNat % 16 = 14 then 2 else 0) := by
    rw [← fixedLen_eq]; rfl
  have h8 := hdrLen_le b0
  have hne : ¬ bs.length = 0 := by
    intro h; exact hbs (List.eq_nil_of_length_eq_zero h)
  have hpos : (b0 :: p).length > 0 := by simp
  have hmin : min (hdrLen b0 - (b0 :: p).length) bs.length = bs.length := Nat.min_eq_right (by omega)
  have h1 : ¬ ((b0 :: p).length + bs.length > rhCap) := by simp only [rhCap]; omega
  have h2 : ¬ (bs.length = hdrLen b0 - (b0 :: p).length) := by omega
  simp only [loop, if_neg hne, if_pos hpos, rd_cons_zero, ← hl, hmin, if_neg h1, if_neg h2,
    List.take_length, List.drop_length, loop_nil]

theorem loop_hdr_full (m f : Nat) (b0 : UInt8) (p bs : Bytes) (hc : Cap m) (hp : (b0 :: p).length < hdrLen b0)
    (hk : hdrLen b0 - (b0 :: p).length ≤ bs.length) :
    loop m (f + 1) ⟨b0 :: p, (b0 :: p).length, none⟩ bs =
      if m < declared ((b0 :: p) ++ bs.take (hdrLen b0 - (b0 :: p).length)) then ([], .closed)
      else if declared ((b0 :: p) ++ bs.take (hdrLen b0 - (b0 :: p).length)) = 0 then
        (deliverR (parsePdu (headerSize .tcp b0.toNat) ((b0 :: p) ++ bs.take (hdrLen b0 - (b0 :: p).length)))
          (loop m f ⟨[], 0, none⟩ (bs.drop (hdrLen b0 - (b0 :: p).length))).1,
         (loop m f ⟨[], 0, none⟩ (bs.drop (hdrLen b0 - (b0 :: p).length))).2)
      else loop m f ⟨[], hdrLen b0, some ⟨headerSize .tcp b0.toNat,
          declared ((b0 :: p) ++ bs.take (hdrLen b0 - (b0 :: p).length)),
          (b0 :: p) ++ bs.take (hdrLen b0 - (b0 :: p).length)⟩⟩ (bs.drop (hdrLen b0 - (b0 :: p).length)) := by
  have hl : hdrLen b0 = headerSize .tcp b0.toNat + (if b0.toNat % 16 = 13 then 1 else if b0.toNat % 16 = 14 then 2 else 0) := by
    rw [← fixedLen_eq]; rfl
  have h8 := hdrLen_le b0
  have hne : ¬ bs.length = 0 := by omega
  have hpos : (b0 :: p).length > 0 := by simp
  have hmin : min (hdrLen b0 - (b0 :: p).length) bs.length = hdrLen b0 - (b0 :: p).length := Nat.min_eq_left hk
  have h1 : ¬ ((b0 :: p).length + (hdrLen b0 - (b0 :: p).length) > rhCap) := by simp only [rhCap]; omega
  have hlen : ((b0 :: p) ++ bs.take (hdrLen b0 - (b0 :: p).length)).length = hdrLen b0 := by
    rw [List.length_append, List.length_take, Nat.min_eq_left hk]; omega
  have hps : parseSizeTcp ((b0 :: p) ++ bs.take (hdrLen b0 - (b0 :: p).length)) =
      R.ok (declared ((b0 :: p) ++ bs.take (hdrLen b0 - (b0 :: p).length))) := by
    have h := parseSize_eq_declared b0 (p ++ bs.take (hdrLen b0 - (b0 :: p).length)) (by
      rw [← List.cons_append, hlen]; exact Nat.le_refl _)
    have e : List.take (hdrLen b0) (b0 :: (p ++ bs.take (hdrLen b0 - (b0 :: p).length))) =
        b0 :: (p ++ bs.take (hdrLen b0 - (b0 :: p).length)) :=
      List.take_of_length_le (by rw [← List.cons_append, hlen]; exact Nat.le_refl _)
    rw [e] at h; exact h
  simp only [loop, if_neg hne, if_pos hpos, rd_cons_zero, ← hl, hmin, if_neg h1, if_true,
    List.take_length, hps, List.take_of_length_le (Nat.le_of_eq hlen)]
  by_cases hbig : m < declared ((b0 :: p) ++ bs.take (hdrLen b0 - (b0 :: p).length))
  · rw [if_pos hbig]
    rcases (alloc_iff m _ hc).mpr hbig with h | h
    · rw [if_pos h]
    · by_cases h' : declared ((b0 :: p) ++ bs.take (hdrLen b0 - (b0 :: p).length)) > maxRx
      · rw [if_pos h']
      · rw [if_neg h', if_pos h]
  · rw [if_neg hbig]
    have hn := mt (alloc_iff m _ hc).mp hbig
    have h1 : ¬ declared ((b0 :: p) ++ bs.take (hdrLen b0 - (b0 :: p).length)) > maxRx := fun h => hn (Or.inl h)
    have h2 : ¬ pduAlloc m (declared ((b0 :: p) ++ bs.take (hdrLen b0 - (b0 :: p).length))) = false := fun h => hn (Or.inr h)
    rw [if_neg h1, if_neg h2]

theorem loop_body_short (m f hs d : Nat) (pend bs : Bytes) (hbs : bs ≠ [])
    (hk : bs.length < d + hs - pend.length) :
    loop m (f + 1) ⟨[], pend.length, some ⟨hs, d, pend⟩⟩ bs =
      ([], .cont ⟨[], pend.length + bs.length, some ⟨hs, d, pend ++ bs⟩⟩) := by
  have hne : ¬ bs.length = 0 := by
    intro h; exact hbs (List.eq_nil_of_length_eq_zero h)
  have hmin : min (d + hs - pend.length) bs.length = bs.length := Nat.min_eq_right (by omega)
  have h2 : ¬ (bs.length = d + hs - pend.length) := by omega
  simp only [loop, if_neg hne, hmin, if_neg h2, List.take_length, List.drop_length, loop_nil]

theorem loop_body_full (m f hs d : Nat) (pend bs : Bytes) (hL : pend.length < d + hs)
    (hk : d + hs - pend.length ≤ bs.length) :
    loop m (f + 1) ⟨[], pend.length, some ⟨hs, d, pend⟩⟩ bs =
      (deliverR (parsePdu hs (pend ++ bs.take (d + hs - pend.length)))
        (loop m f ⟨[], 0, none⟩ (bs.drop (d + hs - pend.length))).1,
       (loop m f ⟨[], 0, none⟩ (bs.drop (d + hs - pend.length))).2) := by
  have hne : ¬ bs.length = 0 := by omega
  have hmin : min (d + hs - pend.length) bs.length = d + hs - pend.length := Nat.min_eq_left hk
  simp only [loop, if_neg hne, hmin, if_true, List.take_length]

theorem stateOf_hdr (b0 : UInt8) (p : Bytes) (h : (b0 :: p).length < hdrLen b0) :
    stateOf (b0 :: p) = ⟨b0 :: p, (b0 :: p).length, none⟩ := by
  simp only [stateOf, if_pos h]

theorem stateOf_body (b0 : UInt8) (p : Bytes) (h : ¬ (b0 :: p).length < hdrLen b0) :
    stateOf (b0 :: p) = ⟨[], (b0 :: p).length,
      some ⟨headerSize .tcp b0.toNat, declared ((b0 :: p).take (hdrLen b0)), b0 :: p⟩⟩ := by
  simp only [stateOf, if_neg h]

theorem frames_pend (m : Nat) (pend : Bytes) (fS : Nat) (hp : Pend m pend) (hf : pend.length < fS) :
    frames m fS pend = ([], .open pend) := by
  cases fS with
  | zero => omega
  | succ f =>
    cases pend with
    | nil => simp [frames]
    | cons b0 p =>
      simp only [frames]
      rcases hp with h | ⟨h1, h2⟩
      · rw [if_pos h]
      · by_cases hh : (b0 :: p).length < hdrLen b0
        · rw [if_pos hh]
        · rw [if_neg hh, if_neg (Nat.not_lt.mpr h1), if_pos h2]

theorem frames_short (m f : Nat) (b0 : UInt8) (r : Bytes) (h : (b0 :: r).length < hdrLen b0) :
    frames m (f + 1) (b0 :: r) = ([], .open (b0 :: r)) := by
  simp only [frames, if_pos h]

theorem frames_full (m f : Nat) (b0 : UInt8) (r : Bytes) (h : ¬ (b0 :: r).length < hdrLen b0) :
    frames m (f + 1) (b0 :: r) =
      if m < declared ((b0 :: r).take (hdrLen b0)) then ([], .closed) else
      if (b0 :: r).length < fixedLen b0 + declared ((b0 :: r).take (hdrLen b0)) then ([], .open (b0 :: r)) else
      (deliver (Spec.decode .tcp ((b0 :: r).take (fixedLen b0 + declared ((b0 :: r).take (hdrLen b0)))))
        (frames m f ((b0 :: r).drop (fixedLen b0 + declared ((b0 :: r).take (hdrLen b0))))).1,
       (frames m f ((b0 :: r).drop (fixedLen b0 + declared ((b0 :: r).take (hdrLen b0))))).2) := by
  simp only [frames, if_neg h]

theorem stateOf_hdr' (bs : Bytes) (b0 : UInt8) (r : Bytes) (hbs : bs = b0 :: r) (h : bs.length < hdrLen b0) :
    stateOf bs = ⟨bs, bs.length, none⟩ := by subst hbs; exact stateOf_hdr b0 r h

theorem stateOf_body' (bs : Bytes) (b0 : UInt8) (r : Bytes) (hbs : bs = b0 :: r) (h : ¬ bs.length < hdrLen b0) :
    stateOf bs = ⟨[], bs.length, some ⟨headerSize .tcp b0.toNat, declared (bs.take (hdrLen b0)), bs⟩⟩ := by
  subst hbs; exact stateOf_body b0 r h

theorem frames_short' (m f : Nat) (bs : Bytes) (b0 : UInt8) (r : Bytes) (hbs : bs = b0 :: r) (h : bs.length < hdrLen b0) :
    frames m (f + 1) bs = ([], .open bs) := by subst hbs; exact frames_short m f b0 r h

theorem frames_full' (m f : Nat) (bs : Bytes) (b0 : UInt8) (r : Bytes) (hbs : bs = b0 :: r) (h : ¬ bs.length < hdrLen b0) :
    frames m (f + 1) bs =
      if m < declared (bs.take (hdrLen b0)) then ([], .closed) else
      if bs.length < fixedLen b0 + declared (bs.take (hdrLen b0)) then ([], .open bs) else
      (deliver (Spec.decode .tcp (bs.take (fixedLen b0 + declared (bs.take (hdrLen b0)))))
        (frames m f (bs.drop (fixedLen b0 + declared (bs.take (hdrLen b0))))).1,
       (frames m f (bs.drop (fixedLen b0 + declared (bs.take (hdrLen b0))))).2) := by
  subst hbs; exact frames_full m f b0 r h

theorem parsePdu_eq_decode' (bs : Bytes) (b0 : UInt8) (r : Bytes) (hbs : bs = b0 :: r) (hl : hdrLen b0 ≤ bs.length)
    (ht : bs.length = fixedLen b0 + declared (bs.take (hdrLen b0))) :
    (parsePdu (headerSize .tcp b0.toNat) bs).toOption = Spec.decode .tcp bs := by
  subst hbs; exact parsePdu_eq_decode b0 r hl ht

theorem tokExt_lt_declared' (bs : Bytes) (b0 : UInt8) (r : Bytes) (hbs : bs = b0 :: r) (hl : hdrLen b0 ≤ bs.length) :
    tokExtBytes (b0.toNat % 16) = 0 ∨ tokExtBytes (b0.toNat % 16) < declared (bs.take (hdrLen b0)) := by
  subst hbs; exact tokExt_lt_declared b0 r hl

theorem loop_eq_frames (m : Nat) (hc : Cap m) : ∀ (n : Nat) (chunk pend : Bytes) (fM fS : Nat),
    chunk.length ≤ n → chunk.length < fM → (pend ++ chunk).length < fS → Pend m pend →
    loop m fM (stateOf pend) chunk = conv (frames m fS (pend ++ chunk)) := by
  intro n
  induction n with
  | zero =>
    intro chunk pend fM fS h1 h2 h3 hp
    have : chunk = [] := List.eq_nil_of_length_eq_zero (by omega)
    subst this
    rw [loop_nil, List.append_nil, frames_pend m pend fS hp (by simpa using h3)]
    rfl
  | succ n ih =>
    intro chunk pend fM fS h1 h2 h3 hp
    rcases chunk with _ | ⟨c, cs⟩
    · rw [loop_nil, List.append_nil, frames_pend m pend fS hp (by simpa using h3)]
      rfl
    obtain ⟨fM, rfl⟩ : ∃ k, fM = k + 1 := ⟨fM - 1, by simp at h2; omega⟩
    obtain ⟨fS, rfl⟩ : ∃ k, fS = k + 1 := ⟨fS - 1, by simp at h3; omega⟩
    simp only [List.length_cons] at h1 h2
    rcases pend with _ | ⟨b0, p⟩
    · -- idle: the first byte of a frame
      have h2' := fixedLen_ge c
      have hlt : ([c] : Bytes).length < hdrLen c := by
        have := fixedLen_le_hdrLen c; simp only [List.length_singleton]; omega
      have e : stateOf [] = ⟨[], 0, none⟩ := rfl
      have e2 : (⟨[c], 1, none⟩ : St) = stateOf [c] := (stateOf_hdr c [] hlt).symm
      rw [e, loop_idle_cons, e2]
      have := ih cs [c] fM (fS + 1) (by omega) (by omega) (by simpa using h3) (Or.inl hlt)
      rw [this]; rfl
    · by_cases hH : (b0 :: p).length < hdrLen b0
      · -- header incomplete
        rw [stateOf_hdr b0 p hH]
        by_cases hk : (c :: cs).length < hdrLen b0 - (b0 :: p).length
        · -- … and still incomplete after this chunk
          rw [loop_hdr_short m fM b0 p (c :: cs) hH (by simp) hk]
          have hsh : ((b0 :: p) ++ (c :: cs)).length < hdrLen b0 := by
            rw [List.length_append]; omega
          rw [frames_short' m fS ((b0 :: p) ++ (c :: cs)) b0 (p ++ c :: cs) rfl hsh]
          simp only [conv, outOf]
          rw [stateOf_hdr' ((b0 :: p) ++ (c :: cs)) b0 (p ++ c :: cs) rfl hsh, List.length_append]
        · -- header completes inside the chunk
          have hk' : hdrLen b0 - (b0 :: p).length ≤ (c :: cs).length := by omega
          rw [loop_hdr_full m fM b0 p (c :: cs) hc hH hk']
          generalize hkd : hdrLen b0 - (b0 :: p).length = k at hk' ⊢
          have hk1 : 1 ≤ k := by omega
          have hsplit : (b0 :: p) ++ (c :: cs) = ((b0 :: p) ++ (c :: cs).take k) ++ (c :: cs).drop k := by
            rw [List.append_assoc, List.take_append_drop]
          have hlen : ((b0 :: p) ++ (c :: cs).take k).length = hdrLen b0 := by
            rw [List.length_append, List.length_take, Nat.min_eq_left hk']; omega
          have hrest : ((c :: cs).drop k).length ≤ n ∧ ((c :: cs).drop k).length ≤ cs.length := by
            rw [List.length_drop]; simp only [List.length_cons]; omega
          rw [hsplit] at h3 ⊢
          generalize hhdr : (b0 :: p) ++ (c :: cs).take k = hdr at hlen h3 ⊢
          generalize hrs : (c :: cs).drop k = rest at hrest h3 ⊢
          have hcons : hdr ++ rest = b0 :: (p ++ (c :: cs).take k ++ rest) := by rw [← hhdr]; simp
          have hcons' : hdr = b0 :: (p ++ (c :: cs).take k) := by rw [← hhdr]; simp
          rw [List.length_append] at h3
          have hnot : ¬ (hdr ++ rest).length < hdrLen b0 := by rw [List.length_append]; omega
          have htk : (hdr ++ rest).take (hdrLen b0) = hdr := List.take_left' hlen
          rw [frames_full' m fS (hdr ++ rest) b0 _ hcons hnot, htk]
          have h2f := fixedLen_ge b0
          by_cases hbig : m < declared hdr
          · rw [if_pos hbig, if_pos hbig]; rfl
          · rw [if_neg hbig, if_neg hbig]
            have htd := tokExt_lt_declared' hdr b0 _ hcons' (by omega)
            have htake : hdr.take (hdrLen b0) = hdr := List.take_of_length_le (Nat.le_of_eq hlen)
            rw [htake] at htd
            have hHdr : hdrLen b0 = fixedLen b0 + tokExtBytes (b0.toNat % 16) := rfl
            by_cases hz : declared hdr = 0
            · rw [if_pos hz]
              have hfl : hdr.length = fixedLen b0 + declared hdr := by omega
              have hno : ¬ (hdr ++ rest).length < fixedLen b0 + declared hdr := by rw [List.length_append]; omega
              rw [if_neg hno, List.take_left' hfl, List.drop_left' hfl]
              have hih := ih rest [] fM fS hrest.1 (by omega) (by simp only [List.nil_append]; omega) trivial
              have e : stateOf [] = ⟨[], 0, none⟩ := rfl
              rw [e, List.nil_append] at hih
              rw [hih]
              simp only [conv, deliverR]
              rw [parsePdu_eq_decode' hdr b0 _ hcons' (by omega) (by rw [htake]; exact hfl)]
            · rw [if_neg hz]
              have hnH : ¬ hdr.length < hdrLen b0 := by omega
              have hst := stateOf_body' hdr b0 _ hcons' hnH
              rw [htake, hlen] at hst
              rw [← hst]
              have hih := ih rest hdr fM (fS + 1) hrest.1 (by omega) (by rw [List.length_append]; omega) (by
                rw [hcons']; right; rw [← hcons', htake]; exact ⟨by omega, by omega⟩)
              rw [hih, frames_full' m fS (hdr ++ rest) b0 _ hcons hnot, htk, if_neg hbig]
      · -- body incomplete
        have hp' : declared ((b0 :: p).take (hdrLen b0)) ≤ m ∧
            (b0 :: p).length < fixedLen b0 + declared ((b0 :: p).take (hdrLen b0)) := by
          rcases hp with h | h
          · exact absurd h hH
          · exact h
        rw [stateOf_body b0 p hH]
        have hge : hdrLen b0 ≤ (b0 :: p).length := by omega
        have htk : ((b0 :: p) ++ (c :: cs)).take (hdrLen b0) = (b0 :: p).take (hdrLen b0) :=
          List.take_append_of_le_length hge
        have hnot : ¬ ((b0 :: p) ++ (c :: cs)).length < hdrLen b0 := by rw [List.length_append]; omega
        rw [frames_full' m fS ((b0 :: p) ++ (c :: cs)) b0 (p ++ c :: cs) rfl hnot, htk]
        generalize hd : declared ((b0 :: p).take (hdrLen b0)) = d at hp' ⊢
        rw [if_neg (Nat.not_lt.mpr hp'.1), ← fixedLen_eq]
        have h2f := fixedLen_ge b0
        by_cases hk : (c :: cs).length < d + fixedLen b0 - (b0 :: p).length
        · rw [loop_body_short m fM (fixedLen b0) d (b0 :: p) (c :: cs) (by simp) hk]
          have hsh : ((b0 :: p) ++ (c :: cs)).length < fixedLen b0 + d := by rw [List.length_append]; omega
          rw [if_pos hsh]
          simp only [conv, outOf]
          rw [stateOf_body' ((b0 :: p) ++ (c :: cs)) b0 (p ++ c :: cs) rfl hnot, htk, hd, List.length_append,
            fixedLen_eq]
        · have hk' : d + fixedLen b0 - (b0 :: p).length ≤ (c :: cs).length := by omega
          rw [loop_body_full m fM (fixedLen b0) d (b0 :: p) (c :: cs) (by omega) hk']
          generalize hkd : d + fixedLen b0 - (b0 :: p).length = k at hk' ⊢
          have hk1 : 1 ≤ k := by omega
          have hsplit : (b0 :: p) ++ (c :: cs) = ((b0 :: p) ++ (c :: cs).take k) ++ (c :: cs).drop k := by
            rw [List.append_assoc, List.take_append_drop]
          have hlen : ((b0 :: p) ++ (c :: cs).take k).length = fixedLen b0 + d := by
            rw [List.length_append, List.length_take, Nat.min_eq_left hk']; omega
          have hrest : ((c :: cs).drop k).length ≤ n ∧ ((c :: cs).drop k).length ≤ cs.length := by
            rw [List.length_drop]; simp only [List.length_cons]; omega
          have htkf : ((b0 :: p) ++ (c :: cs).take k).take (hdrLen b0) = (b0 :: p).take (hdrLen b0) :=
            List.take_append_of_le_length hge
          rw [hsplit] at h3 ⊢
          generalize hfr : (b0 :: p) ++ (c :: cs).take k = frame at hlen h3 htkf ⊢
          generalize hrs : (c :: cs).drop k = rest at hrest h3 ⊢
          have hcons' : frame = b0 :: (p ++ (c :: cs).take k) := by rw [← hfr]; simp
          rw [List.length_append] at h3
          have hno : ¬ (frame ++ rest).length < fixedLen b0 + d := by rw [List.length_append]; omega
          rw [if_neg hno, List.take_left' hlen, List.drop_left' hlen]
          have hih := ih rest [] fM fS hrest.1 (by omega) (by simp only [List.nil_append]; omega) trivial
          have e : stateOf [] = ⟨[], 0, none⟩ := rfl
          rw [e, List.nil_append] at hih
          rw [hih]
          simp only [conv, deliverR]
          rw [fixedLen_eq, parsePdu_eq_decode' frame b0 _ hcons' (by omega) (by rw [htkf, hd]; exact hlen)]
end Coap
