import CoapVerif.Model.AllocRecv
import CoapVerif.Lemmas.AllocBlock
/-
C18 — helper lemmas for the receive path of a reliable session (Model/AllocRecv.lean): how coap_pdu_init / coap_pdu_resize /
coap_delete_pdu move the ownership invariant `Own o L h` of Lemmas/AllocBlock.lean, and that every step of coap_read_session
keeps "the live objects are exactly the session's partial PDU (buffer + header object, or nothing) plus what was live
before" — for every oracle, every dispatch oracle, every byte stream.
-/
namespace Coap.AllocRecv
open Coap Coap.AllocOracle Coap.AllocBlock

/-- coap_pdu_init: NULL = nothing new is live (the header object is released again when the buffer fails); a PDU = its buffer
and its header object are new -/
theorem pduInit_own {o L : List Nat} {h : Heap} (size : Nat) (hO : Own o L h) :
    match (pduInit size h).1 with
    | none => Own o L (pduInit size h).2
    | some p => Own (p.bufId :: p.id :: o) L (pduInit size h).2 := by
  unfold pduInit
  rcases hA : h.alloc with ⟨_ | pid, h1⟩
  · have := hO.alloc_none (by rw [hA]); rw [hA] at this; simpa using this
  · have h1O := hO.alloc_some (i := pid) (by rw [hA]); rw [hA] at h1O
    simp only
    by_cases hs : size > 8388864 - 6
    · simp only [hs, if_true]; exact Own.free_head h1O
    · simp only [hs, if_false]
      rcases hB : h1.alloc with ⟨_ | b, h2⟩
      · have := h1O.alloc_none (by rw [hB]); rw [hB] at this
        exact Own.free_head this
      · have h2O := h1O.alloc_some (i := b) (by rw [hB]); rw [hB] at h2O
        exact h2O

/-- coap_delete_pdu releases buffer and header object, each once -/
theorem pduDelete_own {o L : List Nat} {h : Heap} {p : OPdu} (hO : Own (p.bufId :: p.id :: o) L h) :
    Own o L (pduDelete p h) := by
  unfold pduDelete
  exact Own.free_head (Own.free_head hO)

/-- coap_pdu_resize: whatever it answers, the PDU keeps its header object and owns exactly one buffer (the old one when the
call fails or need not grow, the new one instead of the old one otherwise) -/
theorem resize_own {o L : List Nat} {h : Heap} {p : OPdu} (n : Nat) (hO : Own (p.bufId :: o) L h) :
    Own ((resize p n h).2.1.bufId :: o) L (resize p n h).2.2 ∧ (resize p n h).2.1.id = p.id := by
  unfold resize
  by_cases h1 : n > p.allocSize
  · rw [if_pos h1]
    by_cases h2 : p.maxSize ≠ 0 ∧ n > p.maxSize
    · rw [if_pos h2]; exact ⟨hO, rfl⟩
    · rw [if_neg h2]
      rcases hR : h.realloc p.bufId with ⟨_ | b, h'⟩
      · have := hO.realloc_none (i := p.bufId) (by rw [hR]); rw [hR] at this
        exact ⟨this, rfl⟩
      · have := hO.realloc_some (j := b) (by rw [hR]); rw [hR] at this
        exact ⟨this, rfl⟩
  · rw [if_neg h1]; exact ⟨hO, rfl⟩

theorem growTo_own {L : List Nat} {h : Heap} {p : OPdu} (n : Nat) (hO : Own [p.bufId, p.id] L h) :
    Own [(growTo p n h).2.1.bufId, (growTo p n h).2.1.id] L (growTo p n h).2.2 := by
  unfold growTo
  by_cases hg : p.allocSize < n
  · rw [if_pos hg]
    have := resize_own (o := [p.id]) n hO
    rw [this.2]; exact this.1
  · rw [if_neg hg]; exact hO

/-- the session's partial PDU (if any) is what it owns, the rest of the live objects are `L` -/
def RInv (L : List Nat) (s : RSess) (w : RW) : Prop := Own (owned s) L w.h

theorem owned_none {s : RSess} (h : s.ppdu = none) : owned s = [] := by simp [owned, h]

theorem owned_length_le (s : RSess) : (owned s).length ≤ 2 := by
  unfold owned; cases s.ppdu <;> simp

/-- coap_session_disconnected_lkd: closed, nothing owned any more, the partial PDU released once -/
theorem disconnected_spec {L : List Nat} {s : RSess} {w : RW} (hI : RInv L s w) :
    (disconnected s w).1.up = false ∧ (disconnected s w).1.ppdu = none ∧ (disconnected s w).1.partialRead = 0 ∧
    Own [] L (disconnected s w).2.h := by
  refine ⟨rfl, rfl, rfl, ?_⟩
  unfold RInv owned at hI
  unfold disconnected
  cases hp : s.ppdu with
  | none => rw [hp] at hI; simpa using hI
  | some p => rw [hp] at hI; simp only; exact pduDelete_own hI

theorem disconnected_inv {L : List Nat} {s : RSess} {w : RW} (hI : RInv L s w) :
    RInv L (disconnected s w).1 (disconnected s w).2 := by
  have := disconnected_spec hI
  unfold RInv
  rw [owned_none this.2.1]; exact this.2.2.2

/-- coap_session_free: whatever the session still has is released -/
theorem sessionFree_own {L : List Nat} {s : RSess} {w : RW} (hI : RInv L s w) : Own [] L (sessionFree s w).h := by
  unfold RInv owned at hI
  unfold sessionFree
  cases hp : s.ppdu with
  | none => rw [hp] at hI; simpa using hI
  | some p => rw [hp] at hI; simp only; exact pduDelete_own hI

/-- a complete PDU, detached from the session (which has no partial PDU then): dispatched or not, session disconnected from
inside coap_dispatch or not, it is released exactly once and the session still owns nothing -/
theorem dispatchDelete_inv {L : List Nat} {parsed : Option Msg} {p : OPdu} {s : RSess} {w : RW} (hs : s.ppdu = none)
    (hO : Own [p.bufId, p.id] L w.h) :
    (dispatchDelete parsed p s w).1.ppdu = none ∧ Own [] L (dispatchDelete parsed p s w).2.h := by
  unfold dispatchDelete
  cases parsed with
  | none => simp only; exact ⟨hs, pduDelete_own hO⟩
  | some m =>
    simp only
    by_cases hd : dcHead w.dcs = true
    · simp only [hd, if_true]
      refine ⟨rfl, ?_⟩
      simp only [disconnected, hs]
      exact pduDelete_own hO
    · simp only [hd, Bool.false_eq_true, if_false]
      exact ⟨hs, pduDelete_own hO⟩

theorem dispatchDelete_rinv {L : List Nat} {parsed : Option Msg} {p : OPdu} {s : RSess} {w : RW} (hs : s.ppdu = none)
    (hO : Own [p.bufId, p.id] L w.h) :
    RInv L (dispatchDelete parsed p s w).1 (dispatchDelete parsed p s w).2 := by
  have := dispatchDelete_inv (parsed := parsed) hs hO
  unfold RInv; rw [owned_none this.1]; exact this.2

/-- the header is complete: whatever the allocator answers, the PDU obtained is the session's or released -/
theorem headerDone_inv (maxRcv : Nat) {L : List Nat} {s : RSess} {w : RW} (rh : Bytes) (hdrSize hl : Nat)
    (hp : s.ppdu = none) (hO : Own [] L w.h) :
    RInv L (headerDone maxRcv s w rh hdrSize hl).2.1 (headerDone maxRcv s w rh hdrSize hl).2.2 := by
  have hI : RInv L s w := by unfold RInv; rw [owned_none hp]; exact hO
  unfold headerDone
  cases hsz : M.parseSizeTcp rh with
  | rej => exact hI
  | oob => exact hI
  | ok size =>
    simp only
    by_cases hm : size > M.Stream.maxRx
    · rw [if_pos hm]; exact hI
    · rw [if_neg hm]
      have hPI := pduInit_own (o := []) maxRcv hO
      rcases hq : AllocOracle.pduInit maxRcv w.h with ⟨_ | p0, h1⟩
      · rw [hq] at hPI
        simp only
        unfold RInv; rw [owned_none hp]; exact hPI
      · rw [hq] at hPI
        simp only at hPI ⊢
        have hR := growTo_own size hPI
        by_cases hz : (growTo p0 size h1).1 = 0
        · rw [if_pos hz]
          unfold RInv owned; exact hR
        · rw [if_neg hz]
          by_cases h0 : size = 0
          · rw [if_pos h0]
            exact dispatchDelete_rinv rfl hR
          · rw [if_neg h0]
            unfold RInv owned; exact hR

/-- the `while (bytes_read > 0)` loop keeps the invariant: every oracle, every dispatch oracle, every byte string -/
theorem loop_inv (maxRcv : Nat) (L : List Nat) : ∀ (fuel : Nat) (s : RSess) (w : RW) (bs : Bytes), RInv L s w →
    RInv L (loop maxRcv fuel s w bs).2.1 (loop maxRcv fuel s w bs).2.2 := by
  intro fuel
  induction fuel with
  | zero => intro s w bs hI; simpa [loop] using hI
  | succ fuel ih =>
    intro s w bs hI
    unfold loop
    by_cases hb : bs.length = 0
    · rw [if_pos hb]; exact hI
    · rw [if_neg hb]
      cases hp : s.ppdu with
      | some p =>
        simp only
        have hO : Own [p.pdu.bufId, p.pdu.id] L w.h := by
          have := hI; unfold RInv owned at this; rw [hp] at this; exact this
        split
        · exact ih _ _ _ (dispatchDelete_rinv rfl hO)
        · apply ih
          unfold RInv owned; exact hO
      | none =>
        simp only
        have hO : Own [] L w.h := by
          have := hI; unfold RInv at this; rw [owned_none hp] at this; exact this
        by_cases hpr : s.partialRead > 0
        · rw [if_pos hpr]
          cases hr : M.rd s.rh 0 with
          | rej => exact hI
          | oob => exact hI
          | ok b0 =>
            simp only
            split
            · exact hI
            · split
              · have hH := headerDone_inv maxRcv (L := L) (s := s) (w := w)
                    (List.take s.partialRead s.rh ++ List.take (min (M.headerSize Proto.tcp b0 + tokExtOf b0 - s.partialRead) bs.length) bs)
                    (M.headerSize Proto.tcp b0) (M.headerSize Proto.tcp b0 + tokExtOf b0) hp hO
                split
                · exact ih _ _ _ hH
                · exact hH
              · apply ih
                unfold RInv; rw [owned_none (by simpa using hp)]; exact hO
        · rw [if_neg hpr]
          cases bs with
          | nil => exact hI
          | cons b r =>
            simp only
            split
            · exact hI
            · apply ih
              unfold RInv; rw [owned_none (by simpa using hp)]; exact hO

/-- one coap_read_session call keeps the invariant, and a call that ends in the failure exit leaves the session closed and
owning NOTHING: the live objects are exactly those that were live before the session allocated anything -/
theorem call_inv (maxRcv : Nat) (L : List Nat) : ∀ (fuel : Nat) (s : RSess) (w : RW) (avail : Bytes), RInv L s w →
    RInv L (call maxRcv fuel s w avail).2.1 (call maxRcv fuel s w avail).2.2 ∧
    ((call maxRcv fuel s w avail).1 = .fail →
      (call maxRcv fuel s w avail).2.1.up = false ∧ (call maxRcv fuel s w avail).2.1.ppdu = none ∧
      Own [] L (call maxRcv fuel s w avail).2.2.h) := by
  intro fuel
  induction fuel with
  | zero => intro s w avail hI; simp [call, hI]
  | succ fuel ih =>
    intro s w avail hI
    unfold call
    have hL := loop_inv maxRcv L ((List.take M.Stream.rxBuf avail).length + 1) s w (List.take M.Stream.rxBuf avail) hI
    simp only
    cases he : (loop maxRcv ((List.take M.Stream.rxBuf avail).length + 1) s w (List.take M.Stream.rxBuf avail)).1 with
    | ok =>
      simp only
      split
      · exact ih _ _ _ hL
      · exact ⟨hL, fun hf => by rw [he] at hf; cases hf⟩
    | fail =>
      simp only
      have hd := disconnected_spec hL
      exact ⟨disconnected_inv hL, fun _ => ⟨hd.1, hd.2.1, hd.2.2.2⟩⟩
    | oob =>
      simp only
      exact ⟨hL, fun hf => by rw [he] at hf; cases hf⟩

/-- the state of a script: the current session (if any) satisfies the invariant -/
def SInv (L : List Nat) (st : RState) : Prop :=
  match st.sess with
  | some s => RInv L s st.w
  | none => Own [] L st.w.h

theorem fresh_inv {L : List Nat} {w : RW} (hO : Own [] L w.h) : RInv L {} w := by
  unfold RInv owned; simpa using hO

theorem recvStep_inv (maxRcv : Nat) {L : List Nat} {st : RState} (e : REv) (hI : SInv L st) :
    SInv L (recvStep maxRcv st e).2 := by
  cases e with
  | chunk bs =>
    unfold recvStep
    cases hs : st.sess with
    | none => simp only; exact hI
    | some s =>
      simp only
      have hI' : RInv L s st.w := by unfold SInv at hI; rw [hs] at hI; exact hI
      split
      · unfold SInv; simp only
        exact (call_inv maxRcv L _ s st.w bs hI').1
      · exact hI
  | eof =>
    unfold recvStep
    cases hs : st.sess with
    | none => simp only; exact hI
    | some s =>
      simp only
      have hI' : RInv L s st.w := by unfold SInv at hI; rw [hs] at hI; exact hI
      split
      · unfold SInv; simp only
        exact disconnected_inv hI'
      · exact hI
  | newSess =>
    unfold recvStep
    cases hs : st.sess with
    | none =>
      simp only
      unfold SInv at hI ⊢; rw [hs] at hI
      simp only; exact fresh_inv hI
    | some s =>
      simp only
      have hI' : RInv L s st.w := by unfold SInv at hI; rw [hs] at hI; exact hI
      unfold SInv; simp only
      exact fresh_inv (sessionFree_own hI')

theorem recvRun_inv (maxRcv : Nat) {L : List Nat} : ∀ (evs : List REv) (st : RState), SInv L st →
    SInv L (recvRun maxRcv st evs).2 := by
  intro evs
  induction evs with
  | nil => intro st hI; simpa [recvRun] using hI
  | cons e es ih =>
    intro st hI
    simp only [recvRun]
    exact ih _ (recvStep_inv maxRcv e hI)

theorem recvCleanup_own {L : List Nat} {st : RState} (hI : SInv L st) : Own [] L (recvCleanup st).h := by
  unfold recvCleanup
  unfold SInv at hI
  cases hs : st.sess with
  | none => rw [hs] at hI; simpa using hI
  | some s => rw [hs] at hI; simp only; exact sessionFree_own hI

end Coap.AllocRecv
