import CoapVerif.Lemmas.BuildDefs
/- M-side theorems of C01: libcoap's PDU builders refine the abstract message operations. -/
namespace Coap
open Coap.M

/-! ### small helpers -/

theorem ofNat_mod256 (n : Nat) : UInt8.ofNat (n % 256) = UInt8.ofNat n := by
  apply UInt8.toNat_inj.mp
  rw [UInt8.toNat_ofNat', UInt8.toNat_ofNat']
  omega

theorem take_app_len (x y : Bytes) : (x ++ y).take x.length = x := by simp
theorem drop_app_len (x y : Bytes) : (x ++ y).drop x.length = y := by simp

theorem ge13_ite (d : Nat) : (if d ≥ 13 then (if d < 269 then 1 else 2) else 0) = (Spec.extBytes d).length := by
  rw [extBytes_length]
  by_cases h1 : d < 13
  · have : ¬ d ≥ 13 := by omega
    simp [h1, this]
  · have : d ≥ 13 := by omega
    simp [h1, this]

theorem optEncodeSize_eq (d l : Nat) :
    optEncodeSize d l = 1 + (Spec.extBytes d).length + (Spec.extBytes l).length + l := by
  unfold optEncodeSize
  rw [ge13_ite, ge13_ite]

theorem optSetHeader_length (d l : Nat) :
    (optSetHeader d l).length = 1 + (Spec.extBytes d).length + (Spec.extBytes l).length := by
  unfold optSetHeader
  rw [extBytes_length, extBytes_length]
  by_cases h1 : d < 13
  · by_cases h3 : l < 13
    · simp [h1, h3]
    · by_cases h4 : l < 269
      · simp [h1, h3, h4]
      · simp [h1, h3, h4]
  · by_cases h2 : d < 269
    · by_cases h3 : l < 13
      · simp [h1, h2, h3]
      · by_cases h4 : l < 269
        · simp [h1, h2, h3, h4]
        · simp [h1, h2, h3, h4]
    · by_cases h3 : l < 13
      · simp [h1, h2, h3]
      · by_cases h4 : l < 269
        · simp [h1, h2, h3, h4]
        · simp [h1, h2, h3, h4]

/-- coap_opt_encode_size = length of what coap_opt_encode writes -/
theorem optEncode_length (d : Nat) (v : Bytes) : (optEncode d v).length = optEncodeSize d v.length := by
  rw [optEncodeSize_eq]
  unfold optEncode
  rw [List.length_append, optSetHeader_length]

theorem optSetHeader_eq (d l : Nat) (hd : d ≤ 65535) (hl : l ≤ 65804) :
    optSetHeader d l = UInt8.ofNat (Spec.nib d * 16 + Spec.nib l) :: (Spec.extBytes d ++ Spec.extBytes l) := by
  unfold optSetHeader
  by_cases h1 : d < 13
  · have e1 : d * 16 % 256 = d * 16 := by omega
    rw [nib_of_lt13 h1, extBytes_of_lt13 h1]
    by_cases h3 : l < 13
    · have e2 : l % 16 = l := by omega
      rw [nib_of_lt13 h3, extBytes_of_lt13 h3]
      simp [h1, h3, e1, e2]
    · by_cases h4 : l < 269
      · rw [nib_of_lt269 h3 h4, extBytes_of_lt269 h3 h4]
        simp [h1, h3, h4, e1, ofNat_mod256]
      · rw [nib_of_ge269 h4, extBytes_of_ge269 h4]
        simp [h1, h3, h4, e1, ofNat_mod256]
  · by_cases h2 : d < 269
    · rw [nib_of_lt269 h1 h2, extBytes_of_lt269 h1 h2]
      by_cases h3 : l < 13
      · have e2 : l % 16 = l := by omega
        rw [nib_of_lt13 h3, extBytes_of_lt13 h3]
        simp [h1, h2, h3, e2, ofNat_mod256]
      · by_cases h4 : l < 269
        · rw [nib_of_lt269 h3 h4, extBytes_of_lt269 h3 h4]
          simp [h1, h2, h3, h4, ofNat_mod256]
        · rw [nib_of_ge269 h4, extBytes_of_ge269 h4]
          simp [h1, h2, h3, h4, ofNat_mod256]
    · rw [nib_of_ge269 h2, extBytes_of_ge269 h2]
      by_cases h3 : l < 13
      · have e2 : l % 16 = l := by omega
        rw [nib_of_lt13 h3, extBytes_of_lt13 h3]
        simp [h1, h2, h3, e2, ofNat_mod256]
      · by_cases h4 : l < 269
        · rw [nib_of_lt269 h3 h4, extBytes_of_lt269 h3 h4]
          simp [h1, h2, h3, h4, ofNat_mod256]
        · rw [nib_of_ge269 h4, extBytes_of_ge269 h4]
          simp [h1, h2, h3, h4, ofNat_mod256]

/-- byte level: libcoap's option header + value IS the RFC encoding (delta fits 16 bits, value fits the length field) -/
theorem optEncode_eq (d : Nat) (v : Bytes) (hd : d ≤ 65535) (hv : v.length ≤ 65804) : optEncode d v = Spec.encOpt d v := by
  unfold optEncode Spec.encOpt
  rw [optSetHeader_eq d v.length hd hv]
  simp

theorem tokBias_eq (len : Nat) (h : len ≤ 65804) : tokBias len = some (Spec.extBytes len).length := by
  unfold tokBias
  rw [extBytes_length]
  by_cases h1 : len < 13
  · simp [h1]
  · by_cases h2 : len < 269
    · simp [h1, h2]
    · simp [h1, h2, h]

theorem tokBias_none (len : Nat) (h : len > 65804) : tokBias len = none := by
  unfold tokBias
  have h1 : ¬ len < 13 := by omega
  have h2 : ¬ len < 269 := by omega
  have h3 : ¬ len ≤ 65804 := by omega
  simp [h1, h2, h3]

theorem tokHdr_eq (len bias : Nat) (h : tokBias len = some bias) : tokHdr len bias = Spec.extBytes len ∧ bias = (Spec.extBytes len).length := by
  by_cases hl : len ≤ 65804
  · rw [tokBias_eq len hl] at h
    injection h with h
    subst h
    refine ⟨?_, rfl⟩
    unfold tokHdr
    by_cases h1 : len < 13
    · rw [extBytes_of_lt13 h1]; simp
    · by_cases h2 : len < 269
      · rw [extBytes_of_lt269 h1 h2]; simp
      · rw [extBytes_of_ge269 h2]; simp
  · rw [tokBias_none len (by omega)] at h
    cases h

/-! ### the representing PDU -/

theorem checkResize_true (pdu : Pdu) (size : Nat) (h : pdu.maxSize = 0 ∨ size ≤ pdu.maxSize) :
    checkResize pdu size = true := by
  unfold checkResize
  rcases h with h | h
  · simp [h]
  · simp [h]

theorem checkResize_false (pdu : Pdu) (size : Nat) (h : pdu.maxSize ≠ 0 ∧ size > pdu.maxSize) :
    checkResize pdu size = false := by
  unfold checkResize
  have h2 : ¬ size ≤ pdu.maxSize := by omega
  simp [h.1, h2]

theorem conc_buf_length (ms : Nat) (a : Msg) :
    (conc ms a).buf.length = (Spec.extBytes a.token.length).length + a.token.length +
      (Spec.encOpts 0 a.opts).length + (Spec.encPayload a.payload).length := by
  simp [conc, Spec.encToken]; omega

/-! ### coap_add_token -/

/-- coap_add_token on a fresh PDU -/
theorem addToken_conc (ms ty code mid : Nat) (t : Bytes) (ht : t.length ≤ 65804)
    (hfit : ms = 0 ∨ (Spec.extBytes t.length).length + t.length ≤ ms) :
    addToken (conc ms ⟨ty, code, mid, [], [], []⟩) t = R.ok (1, conc ms ⟨ty, code, mid, t, [], []⟩) := by
  have hb : (conc ms ⟨ty, code, mid, [], [], []⟩).buf = [] := rfl
  have htb := tokBias_eq t.length ht
  have hth := (tokHdr_eq t.length _ htb).1
  have hcr : checkResize (conc ms ⟨ty, code, mid, [], [], []⟩) (t.length + (Spec.extBytes t.length).length) = true :=
    checkResize_true _ _ (by
      rcases hfit with h | h
      · exact Or.inl h
      · exact Or.inr (by show _ ≤ ms; omega))
  have hmod : (t.length + (Spec.extBytes t.length).length) % 4294967296 =
      (Spec.extBytes t.length).length + t.length := by
    have := extBytes_length t.length
    have h2 : (Spec.extBytes t.length).length ≤ 2 := by
      rw [this]; split
      · omega
      · split <;> omega
    omega
  unfold addToken
  simp only [hb, htb, hcr, hth, hmod]
  simp
  by_cases h0 : t = []
  · subst h0
    simp [conc, Spec.encToken, Spec.encOpts, Spec.encPayload, Spec.extBytes, lastNum]
  · simp [conc, h0, Spec.encToken, Spec.encOpts, Spec.encPayload, lastNum]

/-- … refused: too long, no space, or not first — and then nothing changes -/
theorem addToken_refused (ms : Nat) (a : Msg) (t : Bytes)
    (h : (conc ms a).buf ≠ [] ∨ t.length > 65804 ∨ (ms ≠ 0 ∧ (Spec.extBytes t.length).length + t.length > ms)) :
    addToken (conc ms a) t = R.ok (0, conc ms a) := by
  unfold addToken
  by_cases hb : (conc ms a).buf.length ≠ 0
  · rw [if_pos hb]
  · rw [if_neg hb]
    by_cases hl : t.length ≤ 65804
    · have htb := tokBias_eq t.length hl
      rcases h with h | h | h
      · exact absurd (List.length_eq_zero_iff.mp (by omega)) h
      · omega
      · have hcr := checkResize_false (conc ms a) (t.length + (Spec.extBytes t.length).length)
          ⟨h.1, by show _ > ms; omega⟩
        simp only [htb, hcr]
        simp
    · have htb := tokBias_none t.length (by omega)
      simp only [htb]

/-! ### `lastNum` -/

theorem lastNum_nil : lastNum [] = 0 := rfl

theorem lastNum_concat (os : List (Nat × Bytes)) (n : Nat) (v : Bytes) : lastNum (os ++ [(n, v)]) = n := by
  simp [lastNum]

/-- in an ascending list nothing is above the last number -/
theorem le_lastNum (os : List (Nat × Bytes)) (hs : os.Pairwise (fun x y => x.1 ≤ y.1)) :
    ∀ o ∈ os, o.1 ≤ lastNum os := by
  rcases List.eq_nil_or_concat os with rfl | ⟨init, l, h⟩
  · intro o ho; cases ho
  · rw [List.concat_eq_append] at h
    subst h
    intro o ho
    have hl : lastNum (init ++ [l]) = l.1 := by simp [lastNum]
    rw [hl]
    rw [List.pairwise_append] at hs
    rcases List.mem_append.mp ho with h | h
    · exact hs.2.2 o h l (by simp)
    · simp at h; subst h; exact Nat.le_refl _

theorem insertStable_all_le (n : Nat) (v : Bytes) (os : List (Nat × Bytes)) (h : ∀ o ∈ os, o.1 ≤ n) :
    Spec.insertStable n v os = os ++ [(n, v)] := by
  induction os with
  | nil => rfl
  | cons o os ih =>
    have ho : o.1 ≤ n := h o (List.mem_cons_self ..)
    simp only [Spec.insertStable, ho, if_true, List.cons_append]
    rw [ih (fun a ha => h a (List.mem_cons_of_mem _ ha))]

/-- append path of coap_add_option_internal (number ≥ max_opt), without and with a payload present -/
theorem appendOption_conc (ms : Nat) (a : Msg) (n : Nat) (v : Bytes) (hs : Shape a)
    (hn : lastNum a.opts ≤ n) (hn2 : n ≤ 65535) (hv : v.length ≤ 65804)
    (hfit : ms = 0 ∨ (conc ms a).buf.length + (Spec.encOpt (n - lastNum a.opts) v).length ≤ ms) :
    appendOption (conc ms a) n v =
      R.ok ((Spec.encOpt (n - lastNum a.opts) v).length, conc ms { a with opts := a.opts ++ [(n, v)] }) := by
  have _ := hs
  have hδ : (n - lastNum a.opts) % 65536 = n - lastNum a.opts := Nat.mod_eq_of_lt (by omega)
  have henc : optEncode (n - lastNum a.opts) v = Spec.encOpt (n - lastNum a.opts) v :=
    optEncode_eq _ _ (by omega) hv
  have hsz : optEncodeSize (n - lastNum a.opts) v.length = (Spec.encOpt (n - lastNum a.opts) v).length := by
    rw [← optEncode_length, henc]
  have hcr : checkResize (conc ms a) ((conc ms a).buf.length + (Spec.encOpt (n - lastNum a.opts) v).length) = true :=
    checkResize_true _ _ hfit
  have hopts : Spec.encOpts 0 (a.opts ++ [(n, v)]) = Spec.encOpts 0 a.opts ++ Spec.encOpt (n - lastNum a.opts) v :=
    encOpts_append 0 a.opts n v
  have hmo : (conc ms a).maxOpt = lastNum a.opts := rfl
  unfold appendOption
  simp only [hmo, hδ, hsz, hcr, henc]
  by_cases hp : a.payload = []
  · have hd : (conc ms a).data = none := by simp [conc, hp]
    rw [hd]
    simp
    simp [conc, hp, hopts, lastNum_concat, Spec.encPayload]
  · have hd : (conc ms a).data = some ((Spec.extBytes a.token.length).length + a.token.length + (Spec.encOpts 0 a.opts).length + 1) := by
      simp [conc, hp]
    rw [hd]
    have hbl := conc_buf_length ms a
    have hpl : (Spec.encPayload a.payload).length = a.payload.length + 1 := by simp [Spec.encPayload, hp]
    have hbuf : (conc ms a).buf = (Spec.encToken a.token ++ Spec.encOpts 0 a.opts) ++ Spec.encPayload a.payload := by
      simp [conc]
    have hlen : (Spec.extBytes a.token.length).length + a.token.length + (Spec.encOpts 0 a.opts).length =
        (Spec.encToken a.token ++ Spec.encOpts 0 a.opts).length := by simp [Spec.encToken]; omega
    have htake : List.take ((Spec.extBytes a.token.length).length + a.token.length + (Spec.encOpts 0 a.opts).length)
        (conc ms a).buf = Spec.encToken a.token ++ Spec.encOpts 0 a.opts := by
      rw [hbuf, hlen, take_app_len]
    have hdrop : List.drop ((Spec.extBytes a.token.length).length + a.token.length + (Spec.encOpts 0 a.opts).length)
        (conc ms a).buf = Spec.encPayload a.payload := by
      rw [hbuf, hlen, drop_app_len]
    have hlt : ¬ ((conc ms a).buf.length <
        (Spec.extBytes a.token.length).length + a.token.length + (Spec.encOpts 0 a.opts).length + 1) := by omega
    simp
    rw [if_neg hlt, htake, hdrop]
    simp [conc, hp, hopts, lastNum_concat]
    omega

theorem appendOption_refused (ms : Nat) (a : Msg) (n : Nat) (v : Bytes)
    (hfull : ms ≠ 0 ∧ (conc ms a).buf.length + optEncodeSize ((n - lastNum a.opts) % 65536) v.length > ms) :
    appendOption (conc ms a) n v = R.ok (0, conc ms a) := by
  have hmo : (conc ms a).maxOpt = lastNum a.opts := rfl
  have hcr := checkResize_false (conc ms a)
    ((conc ms a).buf.length + optEncodeSize ((n - lastNum a.opts) % 65536) v.length) hfull
  unfold appendOption
  simp only [hmo, hcr]
  simp

/-- appending behind the highest number is the abstract stable insertion -/
theorem insertStable_append (n : Nat) (v : Bytes) (os : List (Nat × Bytes)) (hs : os.Pairwise (fun x y => x.1 ≤ y.1))
    (hn : lastNum os ≤ n) : Spec.insertStable n v os = os ++ [(n, v)] :=
  insertStable_all_le n v os (fun o ho => Nat.le_trans (le_lastNum os hs o ho) hn)

theorem Shape_append (a : Msg) (n : Nat) (v : Bytes) (hs : Shape a) (hn : lastNum a.opts ≤ n) (hn2 : n ≤ 65535)
    (hv : v.length ≤ 65804) : Shape { a with opts := a.opts ++ [(n, v)] } := by
  obtain ⟨h1, h2, h3⟩ := hs
  refine ⟨h1, ?_, ?_⟩
  · show (a.opts ++ [(n, v)]).Pairwise (fun x y => x.1 ≤ y.1)
    rw [List.pairwise_append]
    refine ⟨h2, by simp, ?_⟩
    intro x hx y hy
    simp at hy; subst hy
    exact Nat.le_trans (le_lastNum a.opts h2 x hx) hn
  · intro o ho
    have ho' : o ∈ a.opts ++ [(n, v)] := ho
    rcases List.mem_append.mp ho' with h | h
    · exact h3 o h
    · simp at h; subst h; exact ⟨hn2, hv⟩

/-! ### coap_add_data -/

/-- coap_add_data -/
theorem addData_conc (ms : Nat) (a : Msg) (d : Bytes) (hp : a.payload = []) (hd : d ≠ [])
    (hfit : ms = 0 ∨ (conc ms a).buf.length + d.length + 1 ≤ ms) :
    addData (conc ms a) d = R.ok (1, conc ms { a with payload := d }) := by
  have hcr := checkResize_true (conc ms a) ((conc ms a).buf.length + d.length + 1) hfit
  have hdat : (conc ms a).data = none := by simp [conc, hp]
  have hlen : d.length ≠ 0 := by
    intro h; exact hd (List.length_eq_zero_iff.mp h)
  have hbl := conc_buf_length ms a
  unfold addData
  simp only [hcr, hdat, hlen]
  simp
  simp [conc, hp, hd, Spec.encPayload, Spec.encToken]
  omega

theorem addData_empty (ms : Nat) (a : Msg) : addData (conc ms a) [] = R.ok (1, conc ms a) := by
  simp [addData]

theorem addData_refused (ms : Nat) (a : Msg) (d : Bytes) (hd : d ≠ [])
    (h : a.payload ≠ [] ∨ (ms ≠ 0 ∧ (conc ms a).buf.length + d.length + 1 > ms)) :
    addData (conc ms a) d = R.ok (0, conc ms a) := by
  have hlen : d.length ≠ 0 := by
    intro h; exact hd (List.length_eq_zero_iff.mp h)
  unfold addData
  rcases h with h | h
  · have hdat : (conc ms a).data.isSome = true := by simp [conc, h]
    simp [hlen, hdat]
  · have hcr := checkResize_false (conc ms a) ((conc ms a).buf.length + d.length + 1) h
    simp only [hcr, hlen]
    simp

/-- the decoder's view of the representing PDU is the abstract message (the caller respects the RFC length limits) -/
theorem view_conc (ms : Nat) (a : Msg) (hc : a.code ≠ 0) (ht : a.token.length ≤ 65804)
    (ho : Spec.optsOk a.code 0 a.opts = true) : view (conc ms a) = some a := by
  unfold view
  exact body_encode a.type a.code a.mid a.token a.opts a.payload hc ht ho

/-! ### coap_pdu_encode_header -/

theorem tklOf_eq (n : Nat) (h : n ≤ 65804) :
    (if n < 13 then some (n % 256) else if n < 269 then some 13 else if n ≤ 65804 then some 14 else none) =
      some (Spec.nib n) := by
  by_cases h1 : n < 13
  · have e : n % 256 = n := by omega
    rw [nib_of_lt13 h1]; simp [h1, e]
  · by_cases h2 : n < 269
    · rw [nib_of_lt269 h1 h2]; simp [h1, h2]
    · rw [nib_of_ge269 h2]; simp [h1, h2, h]

theorem conc_rest_length (ms : Nat) (a : Msg) :
    (conc ms a).buf.length = (conc ms a).etl + (Spec.encRest a).length := by
  simp [conc, Spec.encToken, Spec.encRest]; omega

theorem encodeHeader_tcp (pdu : Pdu) (L : Nat) (ht : pdu.tokLen ≤ 65804) (hb : pdu.buf.length = pdu.etl + L) :
    encodeHeader .tcp pdu = some (Spec.tcpHdr (Spec.nib pdu.tokLen) L ++ [UInt8.ofNat pdu.code]) := by
  have hk := tklOf_eq pdu.tokLen ht
  have hnlt : ¬ pdu.buf.length < pdu.etl := by omega
  have hL : pdu.buf.length - pdu.etl = L := by omega
  unfold encodeHeader
  simp only [hk, hnlt, hL]
  by_cases h1 : L ≤ 12
  · have h1' : L < 13 := by omega
    have e : L % 256 = L := by omega
    simp [Spec.tcpHdr, h1, h1', e]
  · have h1' : ¬ L < 13 := by omega
    by_cases h2 : L ≤ 268
    · have h2' : L < 269 := by omega
      simp [Spec.tcpHdr, h1, h1', h2, h2']
    · have h2' : ¬ L < 269 := by omega
      by_cases h3 : L ≤ 65804
      · have h3' : L < 65805 := by omega
        simp [Spec.tcpHdr, h1, h1', h2, h2', h3, h3', ofNat_mod256]
      · have h3' : ¬ L < 65805 := by omega
        simp [Spec.tcpHdr, h1, h1', h2, h2', h3, h3', ofNat_mod256]

/-- M's bytes = S's bytes: coap_pdu_encode_header + buffer is Spec.encode, every framing -/
theorem serialise_conc (p : Proto) (ms : Nat) (a : Msg) (hty : a.type < 4) (hcode : a.code < 256) (hmid : a.mid < 65536)
    (ht : a.token.length ≤ 65804) (hlen : p = .tcp → (Spec.encRest a).length < 65805 + 4294967296) :
    serialise p (conc ms a) = some (Spec.encode p a) := by
  have _ := hty; have _ := hcode; have _ := hmid; have _ := hlen
  have htl : (conc ms a).tokLen = a.token.length := rfl
  have hk := tklOf_eq a.token.length ht
  have hbl := conc_rest_length ms a
  have hnlt : ¬ (conc ms a).buf.length < (conc ms a).etl := by omega
  have hL : (conc ms a).buf.length - (conc ms a).etl = (Spec.encRest a).length := by omega
  have hbuf : (conc ms a).buf = Spec.encToken a.token ++ Spec.encRest a := rfl
  have hf1 : (conc ms a).type = a.type := rfl
  have hf2 : (conc ms a).code = a.code := rfl
  have hf3 : (conc ms a).mid = a.mid := rfl
  cases p with
  | udp =>
    unfold serialise encodeHeader
    simp only [htl, hk]
    simp [Spec.encode, hbuf, hf1, hf2, hf3, ofNat_mod256]
  | ws =>
    unfold serialise encodeHeader
    simp only [htl, hk, hnlt]
    simp [Spec.encode, hbuf, hf2]
  | tcp =>
    unfold serialise
    rw [encodeHeader_tcp (conc ms a) (Spec.encRest a).length ht hbl]
    simp [Spec.encode, hbuf, hf2, htl]

end Coap
