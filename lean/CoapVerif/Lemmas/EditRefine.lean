import CoapVerif.Lemmas.EditPatch
/-
M-side lemmas for the editors (C04), part 3: coap_insert_option / coap_remove_option / coap_update_option on the
representing PDU are the abstract edits (`*_conc`), for every abstract message satisfying `Shape`, every capacity.
-/
namespace Coap
open Coap.M

theorem extBytes_len_mono {d1 d2 : Nat} (h : d1 ≤ d2) : (Spec.extBytes d1).length ≤ (Spec.extBytes d2).length := by
  rw [extBytes_length, extBytes_length]
  split <;> split <;> (try split) <;> (try split) <;> omega

/-- the PDU representing `a` with its option list replaced: `M`'s field updates seen abstractly -/
theorem conc_upd (ms : Nat) (a : Msg) (os' : List (Nat × Bytes)) (B : Bytes) (mo : Nat) (f : Nat → Nat)
    (hB : B = Spec.encToken a.token ++ (Spec.encOpts 0 os' ++ Spec.encPayload a.payload))
    (hmo : mo = lastNum os')
    (hf : f ((Spec.extBytes a.token.length).length + a.token.length + (Spec.encOpts 0 a.opts).length + 1) =
          (Spec.extBytes a.token.length).length + a.token.length + (Spec.encOpts 0 os').length + 1) :
    ({ conc ms a with buf := B, maxOpt := mo, data := (conc ms a).data.map f } : Pdu) = conc ms { a with opts := os' } := by
  subst hB hmo
  by_cases hp : a.payload = []
  · simp [conc, hp]
  · simp [conc, hp, hf]

theorem rd_app_cons (A : Bytes) (b : UInt8) (T : Bytes) : rd (A ++ b :: T) A.length = R.ok b.toNat := by
  rw [rd_app0, rd_cons_zero]

theorem hdrB_cons (d nl : Nat) : hdrB d nl = UInt8.ofNat (Spec.nib d * 16 + nl) :: Spec.extBytes d := rfl

theorem hdrB_length (d nl : Nat) : (hdrB d nl).length = 1 + (Spec.extBytes d).length := by
  simp [hdrB]; omega

/-- `coap_insert_option` below its first test, on the representing PDU: refused for lack of space, else the
abstract stable insertion -/
theorem insertBody_conc (ms : Nat) (a : Msg) (n : Nat) (v : Bytes) (hs : Shape a) (hn : n < lastNum a.opts)
    (hv : v.length ≤ 65804) :
    insertBody (conc ms a) n v =
      if ms = 0 ∨ (conc ms a).buf.length + (Spec.encOpt (n - prevNum n a.opts) v).length ≤ ms then
        R.ok ((Spec.encOpt (n - prevNum n a.opts) v).length, conc ms { a with opts := Spec.insertStable n v a.opts })
      else R.ok (0, conc ms a) := by
  have hB := optsB_of_shape hs
  have hex : ∃ o ∈ a.opts, n < o.1 := by
    rcases List.eq_nil_or_concat a.opts with h | ⟨init, l, h⟩
    · rw [h] at hn; simp [lastNum] at hn
    · rw [List.concat_eq_append] at h
      refine ⟨l, by rw [h]; simp, ?_⟩
      rw [h, lastNum_eq_lastD, lastD_append_cons, lastD_nil] at hn
      exact hn
  obtain ⟨pre, nx, post, e1, e2, e3, e4, e5, e6⟩ :=
    findInsert_abs n v a.opts ((Spec.extBytes a.token.length).length + a.token.length) 0 hex
  have hpv : prevNum n a.opts = lastD 0 pre := by unfold prevNum; rw [← e6]
  rw [hpv]
  clear e6 hpv
  rw [e1] at hB
  obtain ⟨b1, b2, b3, b4, b5, _⟩ := optsB_split hB
  -- p = number of the option before the insertion point
  have hpn : lastD 0 pre ≤ n := by
    rcases List.eq_nil_or_concat pre with h | ⟨init, l, h⟩
    · rw [h]; simp [lastD]
    · rw [List.concat_eq_append] at h
      rw [h, lastD_append_cons, lastD_nil]
      exact e2 l (by rw [h]; simp)
  generalize hp : lastD 0 pre = p at *
  have hδ : (n - p) % 65536 = n - p := Nat.mod_eq_of_lt (by omega)
  have henc : optEncode (n - p) v = Spec.encOpt (n - p) v := optEncode_eq _ _ (by omega) hv
  have hsz : optEncodeSize (n - p) v.length = (Spec.encOpt (n - p) v).length := by rw [← optEncode_length, henc]
  rw [insertBody_eq, items_conc ms a hs, e4]
  have hne : ¬ (nx.1 - n = 0 ∧ ¬ repeatable n = true) := by omega
  simp only [itemOf, hne, if_false, hδ, hsz]
  by_cases hfit : ms = 0 ∨ (conc ms a).buf.length + (Spec.encOpt (n - p) v).length ≤ ms
  · rw [if_pos hfit]
    have hcr : checkResize (conc ms a) ((conc ms a).buf.length + (Spec.encOpt (n - p) v).length) = true :=
      checkResize_true _ _ hfit
    simp only [hcr, not_true_eq_false, if_false]
    -- the buffer, split at the insertion point
    have hbuf : (conc ms a).buf = (Spec.encToken a.token ++ Spec.encOpts 0 pre) ++
        (hdrB (nx.1 - p) (Spec.nib nx.2.length) ++
          ((Spec.extBytes nx.2.length ++ nx.2) ++ (Spec.encOpts nx.1 post ++ Spec.encPayload a.payload))) := by
      simp only [conc, e1, encOpts_split, hp, Spec.encOpts, encOpt_hdrB, List.append_assoc]
    have hofs : (Spec.extBytes a.token.length).length + a.token.length + (Spec.encOpts 0 pre).length =
        (Spec.encToken a.token ++ Spec.encOpts 0 pre).length := by
      simp [Spec.encToken]; omega
    obtain ⟨A, hA⟩ : ∃ A, A = Spec.encToken a.token ++ Spec.encOpts 0 pre := ⟨_, rfl⟩
    obtain ⟨T, hT⟩ : ∃ T, T = (Spec.extBytes nx.2.length ++ nx.2) ++ (Spec.encOpts nx.1 post ++ Spec.encPayload a.payload) := ⟨_, rfl⟩
    rw [← hA, ← hT] at hbuf
    rw [← hA] at hofs
    rw [hbuf, hofs]
    rw [hdrB_cons, List.cons_append, rd_app_cons, R.bind_ok, ← List.cons_append, ← hdrB_cons]
    obtain ⟨J, hJ, hpatch⟩ := insPatch_spec A T (nx.1 - p) (nx.1 - n) (Spec.nib nx.2.length)
      (UInt8.ofNat (Spec.nib (nx.1 - p) * 16 + Spec.nib nx.2.length)).toNat (hdr_byte _ _).2.2 (by omega)
    rw [hpatch, R.bind_ok]
    refine congrArg R.ok (Prod.ext rfl ?_)
    have htake : List.take A.length (A ++ (J ++ (hdrB (nx.1 - n) (Spec.nib nx.2.length) ++ T))) = A := take_app_len _ _
    have hdrop : List.drop (A.length + J.length) (A ++ (J ++ (hdrB (nx.1 - n) (Spec.nib nx.2.length) ++ T))) =
        hdrB (nx.1 - n) (Spec.nib nx.2.length) ++ T := by
      rw [← List.append_assoc, ← List.length_append, drop_app_len]
    have hmono := extBytes_len_mono (show nx.1 - n ≤ nx.1 - p by omega)
    refine conc_upd ms a (Spec.insertStable n v a.opts) _ _ _ ?_ ?_ ?_
    · rw [htake, hdrop, henc]
      simp only [hA, hT, e5, encOpts_split, hp, Spec.encOpts, encOpt_hdrB, List.append_assoc]
    · show lastNum a.opts = _
      rw [e5, e1, lastNum_eq_lastD, lastNum_eq_lastD, lastD_append_cons, lastD_append_cons, lastD_cons]
    · rw [e5, e1]
      simp only [encOpts_split, hp, Spec.encOpts, List.length_append, encOpt_length] at hJ ⊢
      omega
  · rw [if_neg hfit]
    have hcr : checkResize (conc ms a) ((conc ms a).buf.length + (Spec.encOpt (n - p) v).length) = false :=
      checkResize_false _ _ (by
        have h1 : ¬ ms = 0 := fun h => hfit (Or.inl h)
        have h2 : ¬ (conc ms a).buf.length + (Spec.encOpt (n - p) v).length ≤ ms := fun h => hfit (Or.inr h)
        exact ⟨h1, by show _ > ms; omega⟩)
    simp only [hcr]
    simp

theorem ext_growth (d1 d2 : Nat) :
    (Spec.extBytes (d1 + d2)).length - (Spec.extBytes d2).length ≤ 1 + (Spec.extBytes d1).length := by
  rw [extBytes_length, extBytes_length, extBytes_length]
  split <;> split <;> (try split) <;> (try split) <;> (try split) <;> (try split) <;> omega

/-- `coap_remove_option` on the representing PDU: the first option with that number goes, nothing else changes -/
theorem removeOption_conc (ms : Nat) (a : Msg) (n : Nat) (hs : Shape a) :
    removeOption (conc ms a) n =
      if Spec.hasOpt n a.opts = true then R.ok (1, conc ms { a with opts := Spec.removeFirst n a.opts })
      else R.ok (0, conc ms a) := by
  have hB := optsB_of_shape hs
  rw [removeOption_eq, items_conc ms a hs]
  cases hh : Spec.hasOpt n a.opts with
  | false => rw [findEq_none n a.opts _ _ hh]; simp
  | true =>
    obtain ⟨pre, w, post, e1, _, e3, e4, _⟩ :=
      findEq_abs n a.opts ((Spec.extBytes a.token.length).length + a.token.length) 0 hh
    rw [e1] at hB
    obtain ⟨b1, b2, b3, b4, b5, _⟩ := optsB_split hB
    simp only at b2 b3 b4 b5
    generalize hp : lastD 0 pre = p at *
    rw [e3]
    simp only [if_true]
    obtain ⟨A, hA⟩ : ∃ A, A = Spec.encToken a.token ++ Spec.encOpts 0 pre := ⟨_, rfl⟩
    have hofs : (Spec.extBytes a.token.length).length + a.token.length + (Spec.encOpts 0 pre).length = A.length := by
      rw [hA]; simp [Spec.encToken]; omega
    rw [hofs]
    rcases post with _ | ⟨nx, post⟩
    · -- last option: cut it off, max_opt falls back to the previous number
      have hbuf : (conc ms a).buf = A ++ (Spec.encOpt (n - p) w ++ Spec.encPayload a.payload) := by
        simp only [conc, e1, encOpts_split, hp, Spec.encOpts, hA, List.append_assoc, List.append_nil]
      have hsz : optEncodeSize (n - p) w.length = (Spec.encOpt (n - p) w).length := by
        rw [optEncodeSize_eq, encOpt_length]
      simp only [absItems, List.head?_nil, itemOf, hsz]
      refine congrArg R.ok (Prod.ext rfl ?_)
      refine conc_upd ms a (Spec.removeFirst n a.opts) _ _ _ ?_ ?_ ?_
      · rw [hbuf, take_app_len, ← List.append_assoc, ← List.length_append, drop_app_len, e4, hA]
        simp
      · show (lastNum a.opts + 65536 - (n - p)) % 65536 = _
        rw [e4, e1, lastNum_eq_lastD, lastNum_eq_lastD, lastD_append_cons, lastD_nil, List.append_nil, hp]
        show (n + 65536 - (n - p)) % 65536 = p
        omega
      · rw [e4, e1]
        simp only [encOpts_split, hp, Spec.encOpts, List.length_append, List.append_nil]
        omega
    · -- an option follows: its delta absorbs the removed one's
      obtain ⟨c1, c2, c3, c4⟩ := b5
      obtain ⟨T, hT⟩ : ∃ T, T = (Spec.extBytes nx.2.length ++ nx.2) ++ (Spec.encOpts nx.1 post ++ Spec.encPayload a.payload) := ⟨_, rfl⟩
      obtain ⟨Tw, hTw⟩ : ∃ Tw, Tw = Spec.encOpt (n - p) w := ⟨_, rfl⟩
      have hTwl : Tw.length = 1 + (Spec.extBytes (n - p)).length + (Spec.extBytes w.length).length + w.length := by
        rw [hTw, encOpt_length]
      have hbuf : (conc ms a).buf = A ++ (Tw ++ (hdrB (nx.1 - n) (Spec.nib nx.2.length) ++ T)) := by
        simp only [conc, e1, encOpts_split, hp, Spec.encOpts, hA, hT, hTw, encOpt_hdrB, List.append_assoc]
      have hk := ext_growth (n - p) (nx.1 - n)
      have hsum : n - p + (nx.1 - n) = nx.1 - p := by omega
      rw [hsum] at hk
      obtain ⟨k, hkdef⟩ : ∃ k, k = (Spec.extBytes (nx.1 - p)).length - (Spec.extBytes (nx.1 - n)).length := ⟨_, rfl⟩
      have hkle : k ≤ Tw.length := by omega
      have hbuf2 : (conc ms a).buf = (A ++ Tw.take (Tw.length - k)) ++
          (Tw.drop (Tw.length - k) ++ (hdrB (nx.1 - n) (Spec.nib nx.2.length) ++ T)) := by
        rw [hbuf]; simp only [List.append_assoc]
        rw [← List.append_assoc (List.take _ Tw), List.take_append_drop]
      have hPl : (A ++ Tw.take (Tw.length - k)).length = A.length + (Tw.length - k) := by
        simp
      have hJl : (Tw.drop (Tw.length - k)).length = k := by simp; omega
      have hnofs : A.length + (Spec.encOpt (n - p) w).length =
          (A ++ Tw.take (Tw.length - k)).length + (Tw.drop (Tw.length - k)).length := by
        rw [hPl, hJl, ← hTw]; omega
      simp only [absItems, List.head?_cons, itemOf, hsum, hnofs]
      have hrd : rd (conc ms a).buf ((A ++ Tw.take (Tw.length - k)).length + (Tw.drop (Tw.length - k)).length) =
          R.ok (UInt8.ofNat (Spec.nib (nx.1 - n) * 16 + Spec.nib nx.2.length)).toNat := by
        rw [hbuf2, ← List.append_assoc, ← List.length_append, hdrB_cons, List.cons_append, rd_app_cons]
      rw [hrd, R.bind_ok]
      rw [remPatch_spec (conc ms a) _ _ T A.length (nx.1 - n) (nx.1 - p) (Spec.nib nx.2.length) _ hbuf2
        (hdr_byte _ _).2.2 (by rw [hJl, hkdef]) (by omega) (by rw [hPl]; omega)]
      rw [R.bind_ok]
      have hnlt : ¬ ((A ++ Tw.take (Tw.length - k)).length < A.length) := by rw [hPl]; omega
      simp only [hnlt, if_false]
      refine congrArg R.ok (Prod.ext rfl ?_)
      refine conc_upd ms a (Spec.removeFirst n a.opts) _ _ _ ?_ ?_ ?_
      · rw [List.append_assoc, take_app_len, ← List.append_assoc, drop_app_len, e4, hA]
        simp only [encOpts_split, hp, Spec.encOpts, hT, encOpt_hdrB, List.append_assoc]
      · show lastNum a.opts = _
        rw [e4, e1, lastNum_eq_lastD, lastNum_eq_lastD, lastD_append_cons, lastD_append_cons, lastD_cons]
      · rw [e4, e1, hPl]
        have hmono := extBytes_len_mono (show nx.1 - n ≤ nx.1 - p by omega)
        simp only [encOpts_split, hp, Spec.encOpts, List.length_append, encOpt_length] at hTwl ⊢
        omega
/-- `coap_update_option` when the option is present: the value of the first one is replaced in place; capacity is
only needed when the encoding grows -/
theorem updateOption_found (ms : Nat) (a : Msg) (n : Nat) (v : Bytes) (hs : Shape a) (hv : v.length ≤ 65804)
    (hh : Spec.hasOpt n a.opts = true) :
    updateOption (conc ms a) n v =
      if (conc ms { a with opts := Spec.replaceFirst n v a.opts }).buf.length ≤ (conc ms a).buf.length ∨ ms = 0 ∨
         (conc ms { a with opts := Spec.replaceFirst n v a.opts }).buf.length ≤ ms
      then R.ok (1, conc ms { a with opts := Spec.replaceFirst n v a.opts })
      else R.ok (0, conc ms a) := by
  have hB := optsB_of_shape hs
  obtain ⟨pre, w, post, e1, _, e3, _, e5⟩ :=
    findEq_abs n a.opts ((Spec.extBytes a.token.length).length + a.token.length) 0 hh
  rw [e1] at hB
  obtain ⟨b1, b2, b3, b4, b5, _⟩ := optsB_split hB
  simp only at b2 b3 b4 b5
  generalize hp : lastD 0 pre = p at *
  have hnv : ¬ (v.length > 65804) := by omega
  unfold updateOption
  simp only [hnv, if_false, items_conc ms a hs, e3, itemOf]
  obtain ⟨A, hA⟩ : ∃ A, A = Spec.encToken a.token ++ Spec.encOpts 0 pre := ⟨_, rfl⟩
  obtain ⟨Z, hZ⟩ : ∃ Z, Z = Spec.encOpts n post ++ Spec.encPayload a.payload := ⟨_, rfl⟩
  have hofs : (Spec.extBytes a.token.length).length + a.token.length + (Spec.encOpts 0 pre).length = A.length := by
    rw [hA]; simp [Spec.encToken]; omega
  have hbuf : (conc ms a).buf = A ++ (Spec.encOpt (n - p) w ++ Z) := by
    simp only [conc, e1, encOpts_split, hp, Spec.encOpts, hA, hZ, List.append_assoc]
  have hbuf' : (conc ms { a with opts := Spec.replaceFirst n v a.opts }).buf = A ++ (Spec.encOpt (n - p) v ++ Z) := by
    simp only [conc, e5 v, encOpts_split, hp, Spec.encOpts, hA, hZ, List.append_assoc]
  have henc : optEncode (n - p) v = Spec.encOpt (n - p) v := optEncode_eq _ _ (by omega) hv
  have hsz : optEncodeSize (n - p) v.length = (Spec.encOpt (n - p) v).length := by rw [← optEncode_length, henc]
  have hold : ¬ ((Spec.encOpt (n - p) w).length = 0) := by rw [encOpt_length]; omega
  simp only [hold, if_false, hsz, henc, hofs]
  have hl : (conc ms a).buf.length = A.length + ((Spec.encOpt (n - p) w).length + Z.length) := by rw [hbuf]; simp
  have hl' : (conc ms { a with opts := Spec.replaceFirst n v a.opts }).buf.length =
      A.length + ((Spec.encOpt (n - p) v).length + Z.length) := by rw [hbuf']; simp
  by_cases hfit : (conc ms { a with opts := Spec.replaceFirst n v a.opts }).buf.length ≤ (conc ms a).buf.length ∨ ms = 0 ∨
         (conc ms { a with opts := Spec.replaceFirst n v a.opts }).buf.length ≤ ms
  · rw [if_pos hfit]
    have hc : ¬ ((Spec.encOpt (n - p) v).length > (Spec.encOpt (n - p) w).length ∧
        ¬ checkResize (conc ms a) ((conc ms a).buf.length + (Spec.encOpt (n - p) v).length - (Spec.encOpt (n - p) w).length) = true) := by
      rintro ⟨h1, h2⟩
      apply h2
      apply checkResize_true
      rcases hfit with h | h | h
      · omega
      · exact Or.inl h
      · right; show _ ≤ ms; omega
    rw [if_neg hc]
    refine congrArg R.ok (Prod.ext rfl ?_)
    refine conc_upd ms a (Spec.replaceFirst n v a.opts) _ _ _ ?_ ?_ ?_
    · rw [hbuf, take_app_len, ← List.append_assoc, ← List.length_append, drop_app_len, e5 v, hA, hZ]
      simp only [encOpts_split, hp, Spec.encOpts, List.append_assoc]
    · show lastNum a.opts = _
      rw [e5 v, e1, lastNum_eq_lastD, lastNum_eq_lastD, lastD_append_cons, lastD_append_cons]
    · rw [e5 v, e1]
      simp only [encOpts_split, hp, Spec.encOpts, List.length_append]
      omega
  · rw [if_neg hfit]
    have hc : (Spec.encOpt (n - p) v).length > (Spec.encOpt (n - p) w).length ∧
        ¬ checkResize (conc ms a) ((conc ms a).buf.length + (Spec.encOpt (n - p) v).length - (Spec.encOpt (n - p) w).length) = true := by
      have h1 : ¬ _ ≤ _ := fun h => hfit (Or.inl h)
      have h2 : ¬ ms = 0 := fun h => hfit (Or.inr (Or.inl h))
      have h3 : ¬ _ ≤ ms := fun h => hfit (Or.inr (Or.inr h))
      refine ⟨by omega, ?_⟩
      rw [checkResize_false _ _ ⟨h2, by show _ > ms; omega⟩]
      simp
    rw [if_pos hc]

end Coap
