import CoapVerif.Lemmas.TlsGate
/-
C19 helper lemmas: the FIRST-TRANSMISSION ledger of a DTLS session, over whole histories — before, at and AFTER the
establishment (ACK-driven flushes of the delay queue, retransmissions, give-ups, teardown).

`Out.tx` carries the node's retransmit_cnt: a first transmission is a `tx` with a message serial and count 0.  `Ord N` is
preserved by every function of M on a DTLS session, whatever the TLS library answers: the serials below `N` of the first
transmissions so far, followed by the serials of the never-transmitted messages of the delay queue, are STRICTLY INCREASING
(each message at most once, in submission order), and a tracked serial is still queued, or was transmitted, or the session
failed / was freed.
-/
namespace Coap.TlsGate
open Ctx

/-- the message serial if this output is a FIRST transmission (retransmit_cnt 0) of a message (not an acknowledgement) -/
def Out.firstSn : Out → Option Nat
  | .tx _ _ (some j) cnt => if cnt = 0 then some j else none
  | _ => none

/-- the serials below `N` of the first transmissions in a trace, in trace order -/
def firsts (N : Nat) (l : List Out) : List Nat := (l.filterMap Out.firstSn).filter (· < N)

/-- a NACK other than the advisory ICMP notification: the session was given up (coap_session_disconnected_lkd), a message
was given up (retransmissions exhausted, RST) -/
def Out.isFail : Out → Bool
  | .nack r _ _ => r != .icmp
  | _ => false

/-- the serials of the messages in the delay queue that have never been transmitted (retransmit_cnt 0), in queue order -/
def fresh0 (dq : List QMsg) : List Nat := (dq.filter (·.cnt == 0)).map (·.sn)

theorem firsts_append (N : Nat) (a b : List Out) : firsts N (a ++ b) = firsts N a ++ firsts N b := by
  simp [firsts, List.filterMap_append]

@[simp] theorem firsts_nil (N : Nat) : firsts N [] = [] := rfl

theorem firsts_quiet (N : Nat) (l : List Out) (h : ∀ o ∈ l, ∀ j, o.firstSn = some j → N ≤ j) : firsts N l = [] := by
  unfold firsts
  rw [List.filter_eq_nil_iff]
  intro j hj
  simp only [List.mem_filterMap] at hj
  obtain ⟨o, ho, hoj⟩ := hj
  have := h o ho j hoj
  simp; omega

theorem fresh0_append (a b : List QMsg) : fresh0 (a ++ b) = fresh0 a ++ fresh0 b := by simp [fresh0]

structure Ord (N : Nat) (f0 : List Nat) (g0 t : Bool) (k : Nat) (c : Ctx) : Prop where
  /-- earlier first transmissions, this event's, then the never-transmitted part of the delay queue: strictly increasing -/
  srt : (f0 ++ firsts N c.out ++ fresh0 c.s.delayq).Pairwise (· < ·)
  lt : ∀ j ∈ fresh0 c.s.delayq, j < c.s.next
  nx : N ≤ c.s.next
  f0lt : ∀ j ∈ f0, j < N
  proto : c.s.proto = .dtls
  /-- the tracked message: still queued and never transmitted, or transmitted, or the session was given up / freed -/
  trk : t = true → k < N ∧ (k ∈ fresh0 c.s.delayq ∨ k ∈ f0 ++ firsts N c.out ∨ g0 = true ∨ c.out.any Out.isFail = true ∨
                             c.s.freed = true)

section
variable {N : Nat} {f0 : List Nat} {g0 t : Bool} {k : Nat} {c : Ctx}

/-- a step that transmits nothing below `N` for the first time and leaves the never-transmitted part of the queue alone -/
theorem ord_keep {c' : Ctx} (h : Ord N f0 g0 t k c) (hf : firsts N c'.out = firsts N c.out)
    (hdq : fresh0 c'.s.delayq = fresh0 c.s.delayq) (hnx : c.s.next ≤ c'.s.next) (hp : c'.s.proto = c.s.proto)
    (hfl : c.out.any Out.isFail = true → c'.out.any Out.isFail = true) (hfr : c.s.freed = true → c'.s.freed = true) :
    Ord N f0 g0 t k c' := by
  obtain ⟨a1, a2, a3, a4, a5, a6⟩ := h
  refine ⟨by rw [hf, hdq]; exact a1, ?_, by omega, a4, by rw [hp]; exact a5, ?_⟩
  · intro j hj; rw [hdq] at hj; have := a2 j hj; omega
  · intro ht
    obtain ⟨b1, b2⟩ := a6 ht
    refine ⟨b1, ?_⟩
    rw [hf, hdq]
    rcases b2 with b | b | b | b | b
    · exact Or.inl b
    · exact Or.inr (Or.inl b)
    · exact Or.inr (Or.inr (Or.inl b))
    · exact Or.inr (Or.inr (Or.inr (Or.inl (hfl b))))
    · exact Or.inr (Or.inr (Or.inr (Or.inr (hfr b))))

/-- outputs none of which is a first transmission of a serial below `N` -/
theorem ord_outs (l : List Out) (hl : ∀ o ∈ l, ∀ j, o.firstSn = some j → N ≤ j) (h : Ord N f0 g0 t k c) :
    Ord N f0 g0 t k { c with out := c.out ++ l } :=
  ord_keep h (by simp [firsts_append, firsts_quiet N l hl]) rfl (Nat.le_refl _) rfl
    (fun hb => by simp only [List.any_append, hb, Bool.true_or]) id

theorem ord_emit (o : Out) (ho : ∀ j, o.firstSn = some j → N ≤ j) (h : Ord N f0 g0 t k c) : Ord N f0 g0 t k (c.emit o) :=
  ord_outs [o] (by simpa using ho) h

/-- an output that is not a PDU written -/
theorem ord_emit_q (o : Out) (ho : o.firstSn = none) (h : Ord N f0 g0 t k c) : Ord N f0 g0 t k (c.emit o) :=
  ord_emit o (by simp [ho]) h

theorem ord_outs_q (l : List Out) (hl : ∀ o ∈ l, o.firstSn = none) (h : Ord N f0 g0 t k c) :
    Ord N f0 g0 t k { c with out := c.out ++ l } :=
  ord_outs l (fun o ho j hj => by rw [hl o ho] at hj; cases hj) h

theorem ord_ite {p : Prop} [Decidable p] {x y : Ctx} (hx : p → Ord N f0 g0 t k x) (hy : ¬p → Ord N f0 g0 t k y) :
    Ord N f0 g0 t k (if p then x else y) := by
  split
  · exact hx ‹_›
  · exact hy ‹_›

theorem ord_ite_emit_q (p : Prop) [Decidable p] (o : Out) (ho : o.firstSn = none) (h : Ord N f0 g0 t k c) :
    Ord N f0 g0 t k (if p then c.emit o else c) :=
  ord_ite (fun _ => ord_emit_q o ho h) fun _ => h

theorem ord_setRet (r : Int) (h : Ord N f0 g0 t k c) : Ord N f0 g0 t k (c.setRet r) :=
  ord_keep h rfl rfl (Nat.le_refl _) rfl id id
theorem ord_setFlag (f : Bool) (h : Ord N f0 g0 t k c) : Ord N f0 g0 t k (c.setFlag f) :=
  ord_keep h rfl rfl (Nat.le_refl _) rfl id id
theorem ord_setFound (q : Option QMsg) (h : Ord N f0 g0 t k c) : Ord N f0 g0 t k (c.setFound q) :=
  ord_keep h rfl rfl (Nat.le_refl _) rfl id id

/-- a session update that keeps the delay queue and the protocol; the serial counter may grow -/
theorem ord_upd (f : Sess → Sess) (hdq : (f c.s).delayq = c.s.delayq) (hnx : c.s.next ≤ (f c.s).next)
    (hp : (f c.s).proto = c.s.proto) (hfr : c.s.freed = true → (f c.s).freed = true) (h : Ord N f0 g0 t k c) :
    Ord N f0 g0 t k (c.upd f) :=
  ord_keep h rfl (by show fresh0 (f c.s).delayq = _; rw [hdq]) hnx hp id hfr

theorem popHs_ord (h : Ord N f0 g0 t k c) : Ord N f0 g0 t k c.popHs := by
  unfold Ctx.popHs; split
  · exact ord_keep h rfl rfl (Nat.le_refl _) rfl id id
  · exact ord_keep (ord_emit_q .orcMissing rfl h) rfl rfl (Nat.le_refl _) rfl id id
theorem popRec_ord (h : Ord N f0 g0 t k c) : Ord N f0 g0 t k c.popRec := by
  unfold Ctx.popRec; split
  · exact ord_keep h rfl rfl (Nat.le_refl _) rfl id id
  · exact ord_keep (ord_emit_q .orcMissing rfl h) rfl rfl (Nat.le_refl _) rfl id id
theorem popSnd_ord (h : Ord N f0 g0 t k c) : Ord N f0 g0 t k c.popSnd := by
  unfold Ctx.popSnd; split
  · exact ord_keep h rfl rfl (Nat.le_refl _) rfl id id
  · exact ord_keep (ord_emit_q .orcMissing rfl h) rfl rfl (Nat.le_refl _) rfl id id
theorem popEnv_ord (h : Ord N f0 g0 t k c) : Ord N f0 g0 t k c.popEnv := by
  unfold Ctx.popEnv; split
  · exact ord_keep h rfl rfl (Nat.le_refl _) rfl id id
  · exact ord_keep (ord_emit_q .orcMissing rfl h) rfl rfl (Nat.le_refl _) rfl id id
theorem popCk_ord (h : Ord N f0 g0 t k c) : Ord N f0 g0 t k c.popCk := by
  unfold Ctx.popCk; split
  · exact ord_keep h rfl rfl (Nat.le_refl _) rfl id id
  · exact ord_keep (ord_emit_q .orcMissing rfl h) rfl rfl (Nat.le_refl _) rfl id id

/-- the delay queue is given up (coap_session_disconnected_lkd, coap_session_mfree) -/
theorem ord_dropq (f : Sess → Sess) (hdq : (f c.s).delayq = []) (hnx : c.s.next ≤ (f c.s).next)
    (hp : (f c.s).proto = c.s.proto) (_hfr : c.s.freed = true → (f c.s).freed = true)
    (hg : c.out.any Out.isFail = true ∨ (f c.s).freed = true) (h : Ord N f0 g0 t k c) : Ord N f0 g0 t k (c.upd f) := by
  obtain ⟨a1, a2, a3, a4, a5, a6⟩ := h
  refine ⟨?_, ?_, by show N ≤ (f c.s).next; omega, a4, by show (f c.s).proto = _; rw [hp]; exact a5, ?_⟩
  · show (f0 ++ firsts N c.out ++ fresh0 (f c.s).delayq).Pairwise (· < ·)
    rw [hdq]
    exact List.Pairwise.sublist (by simp [fresh0]) a1
  · intro j hj
    have : fresh0 (f c.s).delayq = [] := by rw [hdq]; rfl
    simp [Ctx.upd, this] at hj
  · intro ht
    refine ⟨(a6 ht).1, Or.inr (Or.inr (Or.inr ?_))⟩
    rcases hg with hg | hg
    · exact Or.inl hg
    · exact Or.inr hg

/-- a message that may be handed to coap_send_pdu: a retransmission, or a message whose serial has just been handed out -/
def Adm (N : Nat) (m : QMsg) (c : Ctx) : Prop :=
  m.cnt ≠ 0 ∨ (N ≤ m.sn ∧ (∀ j ∈ fresh0 c.s.delayq, j < m.sn) ∧ m.sn < c.s.next)

/-- coap_session_delay_pdu appends an admissible message -/
theorem ord_enq (m : QMsg) (f : Sess → Sess) (hm : Adm N m c) (hdq : (f c.s).delayq = c.s.delayq ++ [m])
    (hnx : (f c.s).next = c.s.next) (hp : (f c.s).proto = c.s.proto) (hfr : (f c.s).freed = c.s.freed)
    (h : Ord N f0 g0 t k c) : Ord N f0 g0 t k (c.upd f) := by
  rcases hm with hm | ⟨m1, m2, m3⟩
  · refine ord_keep h rfl ?_ (by show c.s.next ≤ (f c.s).next; omega) hp id (by show _ → (f c.s).freed = true; rw [hfr]; exact id)
    show fresh0 (f c.s).delayq = _
    rw [hdq, fresh0_append]
    simp [fresh0, hm]
  · obtain ⟨a1, a2, a3, a4, a5, a6⟩ := h
    have hfa : fresh0 (f c.s).delayq = fresh0 c.s.delayq ++ (if m.cnt = 0 then [m.sn] else []) := by
      rw [hdq, fresh0_append]
      by_cases hc : m.cnt = 0 <;> simp [fresh0, hc]
    have hsub : (fresh0 (f c.s).delayq).Sublist (fresh0 c.s.delayq ++ [m.sn]) := by
      rw [hfa]; split <;> simp
    refine ⟨?_, ?_, by show N ≤ (f c.s).next; omega, a4, by show (f c.s).proto = _; rw [hp]; exact a5, ?_⟩
    · show (f0 ++ firsts N c.out ++ fresh0 (f c.s).delayq).Pairwise (· < ·)
      refine List.Pairwise.sublist (List.Sublist.append (List.Sublist.refl _) hsub) ?_
      rw [← List.append_assoc, List.pairwise_append]
      refine ⟨a1, by simp, ?_⟩
      intro x hx y hy
      simp at hy; subst hy
      simp only [List.mem_append] at hx
      rcases hx with (hx | hx) | hx
      · have := a4 x hx; omega
      · have : x < N := by
          unfold firsts at hx
          simpa using (List.mem_filter.mp hx).2
        omega
      · exact m2 x hx
    · intro j hj
      show j < (f c.s).next
      rw [hnx]
      have := hsub.subset hj
      simp only [List.mem_append, List.mem_singleton] at this
      rcases this with hj | rfl
      · exact a2 j hj
      · exact m3
    · intro ht
      obtain ⟨b1, b2⟩ := a6 ht
      refine ⟨b1, ?_⟩
      rcases b2 with b | b | b | b | b
      · left; show k ∈ fresh0 (f c.s).delayq; rw [hfa]; simp [b]
      · exact Or.inr (Or.inl b)
      · exact Or.inr (Or.inr (Or.inl b))
      · exact Or.inr (Or.inr (Or.inr (Or.inl b)))
      · refine Or.inr (Or.inr (Or.inr (Or.inr ?_))); show (f c.s).freed = true; rw [hfr]; exact b

/-- coap_session_connected takes the head of the delay queue off and hands it to the transport: if it has never been
transmitted this is its first transmission, and it moves from the queue part of the ledger to the transmitted part -/
theorem ord_pop_emit (q : QMsg) (rest : List QMsg) (f : Sess → Sess) (tls : Bool) (v : View) (hd : c.s.delayq = q :: rest)
    (hdq : (f c.s).delayq = rest) (hnx : (f c.s).next = c.s.next) (hp : (f c.s).proto = c.s.proto)
    (hfr : (f c.s).freed = c.s.freed) (h : Ord N f0 g0 t k c) :
    Ord N f0 g0 t k ((c.upd f).emit (.tx tls v (some q.sn) q.cnt)) := by
  obtain ⟨a1, a2, a3, a4, a5, a6⟩ := h
  have hout : firsts N ((c.upd f).emit (.tx tls v (some q.sn) q.cnt)).out =
      firsts N c.out ++ (if q.cnt = 0 ∧ q.sn < N then [q.sn] else []) := by
    show firsts N (c.out ++ [_]) = _
    rw [firsts_append]
    congr 1
    by_cases h1 : q.cnt = 0 <;> by_cases h2 : q.sn < N <;> simp [firsts, Out.firstSn, h1, h2]
  have hq0 : fresh0 c.s.delayq = (if q.cnt = 0 then [q.sn] else []) ++ fresh0 rest := by
    rw [hd]; by_cases h1 : q.cnt = 0 <;> simp [fresh0, h1]
  have hsub : (f0 ++ (firsts N c.out ++ (if q.cnt = 0 ∧ q.sn < N then [q.sn] else [])) ++ fresh0 rest).Sublist
      (f0 ++ firsts N c.out ++ fresh0 c.s.delayq) := by
    rw [hq0]
    simp only [List.append_assoc]
    refine List.Sublist.append (List.Sublist.refl _) (List.Sublist.append (List.Sublist.refl _) ?_)
    refine List.Sublist.append ?_ (List.Sublist.refl _)
    by_cases h1 : q.cnt = 0 <;> by_cases h2 : q.sn < N <;> simp [h1, h2]
  refine ⟨?_, ?_, by show N ≤ (f c.s).next; omega, a4, by show (f c.s).proto = _; rw [hp]; exact a5, ?_⟩
  · rw [hout]
    show (f0 ++ _ ++ fresh0 (f c.s).delayq).Pairwise (· < ·)
    rw [hdq]
    exact List.Pairwise.sublist hsub a1
  · intro j hj
    show j < (f c.s).next
    rw [hnx]
    have hj' : j ∈ fresh0 rest := by simpa [Ctx.emit, Ctx.upd, hdq] using hj
    exact a2 j (by rw [hq0]; simp [hj'])
  · intro ht
    obtain ⟨b1, b2⟩ := a6 ht
    refine ⟨b1, ?_⟩
    rw [hout]
    rcases b2 with b | b | b | b | b
    · rw [hq0] at b
      simp only [List.mem_append] at b
      rcases b with b | b
      · by_cases h1 : q.cnt = 0
        · simp only [h1, if_true, List.mem_singleton] at b
          subst b
          right; left
          simp [h1, b1]
        · simp [h1] at b
      · left; show k ∈ fresh0 (f c.s).delayq; rw [hdq]; exact b
    · right; left
      simp only [List.mem_append] at b ⊢
      rcases b with b | b
      · exact Or.inl b
      · exact Or.inr (Or.inl b)
    · exact Or.inr (Or.inr (Or.inl b))
    · refine Or.inr (Or.inr (Or.inr (Or.inl ?_)))
      show (c.out ++ [_]).any Out.isFail = true
      simp only [List.any_append, b, Bool.true_or]
    · refine Or.inr (Or.inr (Or.inr (Or.inr ?_))); show (f c.s).freed = true; rw [hfr]; exact b


/-- a session update of fields the ledger does not look at -/
macro "oupd! " h:term:max : term => `(ord_upd _ rfl (Nat.le_refl _) rfl id $h)

theorem nackOf_q (r : Nack) (l : List QMsg) : ∀ o ∈ l.map (nackOf r), o.firstSn = none := by
  intro o ho
  simp only [List.mem_map] at ho
  obtain ⟨q, _, rfl⟩ := ho
  rfl

theorem discOuts_q (r : Nack) (c : Ctx) : ∀ o ∈ c.discOuts r, o.firstSn = none := by
  intro o ho
  unfold Ctx.discOuts at ho
  simp only [List.mem_append] at ho
  rcases ho with ((ho | ho) | ho) | ho
  · obtain ⟨q, rfl⟩ := discFirst_nack r c o ho; rfl
  · obtain ⟨q, rfl⟩ := discDq_nack r c o ho; rfl
  · obtain ⟨q, rfl⟩ := discLg_nack r c o ho; rfl
  · split at ho
    · simp at ho; subst ho; rfl
    · simp at ho

/-- coap_session_disconnected_lkd for a reason other than ICMP always raises a NACK -/
theorem discOuts_fail (r : Nack) (hr : r ≠ .icmp) (c : Ctx) : (c.discOuts r).any Out.isFail = true := by
  have hall : ∀ o ∈ c.discFirst r ++ c.discDq r ++ c.discLg r, o.isFail = true := by
    intro o ho
    simp only [List.mem_append] at ho
    rcases ho with (ho | ho) | ho
    · obtain ⟨q, rfl⟩ := discFirst_nack r c o ho; simp [nackOf, Out.isFail, hr]
    · obtain ⟨q, rfl⟩ := discDq_nack r c o ho; simp [nackOf, Out.isFail, hr]
    · obtain ⟨q, rfl⟩ := discLg_nack r c o ho; simp [nackOf, Out.isFail, hr]
  unfold Ctx.discOuts
  simp only
  generalize c.discFirst r ++ c.discDq r ++ c.discLg r = l at hall
  cases l with
  | nil => simp [Out.isFail, hr]
  | cons o t => simp [hall o (by simp)]

theorem doHandshake_ord (h : Ord N f0 g0 t k c) : Ord N f0 g0 t k c.doHandshake := by
  have h' := popHs_ord h
  unfold Ctx.doHandshake
  generalize c.popHs = c' at h'
  simp only
  split <;> (try split) <;>
    first
    | exact ord_setRet _ h'
    | exact ord_setRet _ (oupd! h')
    | exact ord_setRet _ (ord_emit_q _ rfl (oupd! h'))
    | exact ord_setRet _ (oupd! (oupd! h'))
    | exact ord_setRet _ (oupd! (oupd! (ord_emit_q _ rfl h')))

theorem freeEnv_ord (sb : Bool) (h : Ord N f0 g0 t k c) : Ord N f0 g0 t k (c.freeEnv sb) := by
  unfold Ctx.freeEnv; simp only
  split
  · exact oupd! (ord_emit_q .bye rfl h)
  · exact oupd! h

theorem dtlsFreeSession_ord (h : Ord N f0 g0 t k c) : Ord N f0 g0 t k c.dtlsFreeSession := by
  unfold Ctx.dtlsFreeSession
  split
  · exact ord_emit_q _ rfl (oupd! (freeEnv_ord _ h))
  · exact h

theorem sessionClose_ord (h : Ord N f0 g0 t k c) : Ord N f0 g0 t k c.sessionClose := by
  unfold Ctx.sessionClose
  split
  · exact h
  · exact dtlsFreeSession_ord h
  · exact oupd! (dtlsFreeSession_ord h)

theorem relTail_ord (st0 : SState) (h : Ord N f0 g0 t k c) : Ord N f0 g0 t k (c.relTail st0) := by
  unfold Ctx.relTail
  refine ord_ite (fun _ => ?_) fun _ => h
  simp only
  have h1 := ord_ite_emit_q (c.s.sockOpen = true) (.evTcp (if st0 = .connecting then .failed else .closed)) rfl h
  exact oupd! (ord_ite_emit_q (st0 ≠ .none) (.evTcp (if st0 = .established then .sessClosed else .sessFailed)) rfl h1)

theorem disconnected_ord (r : Nack) (h : Ord N f0 g0 t k c) : Ord N f0 g0 t k (c.disconnected r) := by
  unfold Ctx.disconnected
  simp only
  have h1 := ord_outs_q _ (discOuts_q r c) h
  split
  · exact h1
  · rename_i hr
    apply sessionClose_ord
    apply relTail_ord
    refine oupd! (ord_outs_q _ (nackOf_q _ _) ?_)
    refine ord_dropq _ rfl (Nat.le_refl _) rfl id (Or.inl ?_) h1
    show (c.out ++ c.discOuts r).any Out.isFail = true
    simp only [List.any_append, discOuts_fail r hr c, Bool.or_true]

theorem delayPdu_ord (m : QMsg) (fn : Bool) (hm : Adm N m c) (h : Ord N f0 g0 t k c) : Ord N f0 g0 t k (c.delayPdu m fn) := by
  unfold Ctx.delayPdu
  split
  · exact ord_setRet _ (ord_enq m _ hm rfl rfl rfl rfl h)
  · split
    · exact ord_setRet _ h
    · exact ord_setRet _ (ord_enq m _ hm rfl rfl rfl rfl h)

theorem sndResult_ord (h : Ord N f0 g0 t k c) : Ord N f0 g0 t k c.sndResult := by
  have h' := popSnd_ord h
  unfold Ctx.sndResult
  simp only
  split
  · exact ord_setRet _ h'
  · exact ord_setRet _ h'
  · exact ord_setRet _ (oupd! h')
  · exact ord_setRet _ h'
  · exact ord_setRet _ h'
  · exact ord_setRet _ h'

/-- coap_dtls_send after the PDU has been logged -/
theorem dtlsSendCore_ord (m : QMsg) (ack : Bool) (h : Ord N f0 g0 t k (c.emit (.tx true (m.view ack) (m.snOf ack) m.cnt))) :
    Ord N f0 g0 t k (c.dtlsSendCore m ack) := by
  unfold Ctx.dtlsSendCore
  simp only
  have h1 := ord_upd (fun s => { s with dtlsEvent := none }) rfl (Nat.le_refl _) rfl id h
  split
  · exact sndResult_ord h1
  · have h2 := doHandshake_ord h1
    split
    · exact sndResult_ord (oupd! h2)
    · exact ord_setRet _ h2

theorem sendTail_ord (h : Ord N f0 g0 t k c) : Ord N f0 g0 t k c.sendTail := by
  unfold Ctx.sendTail
  split
  · simp only
    have h1 := ord_emit_q (.ev ‹DEv›) rfl h
    split
    · exact ord_setRet _ (disconnected_ord _ h1)
    · exact h1
  · exact h

theorem sessionSendPdu_ord (m : QMsg) (ack : Bool) (h : Ord N f0 g0 t k (c.emit (.tx true (m.view ack) (m.snOf ack) m.cnt))) :
    Ord N f0 g0 t k (c.sessionSendPdu m ack) := by
  have hp : c.s.proto = .dtls := h.proto
  unfold Ctx.sessionSendPdu
  split
  · simp_all
  · exact sendTail_ord (dtlsSendCore_ord m ack h)
  · simp_all

/-- the PDU of an admissible message is not a first transmission of a serial below `N` -/
theorem adm_tx (tls : Bool) (v : View) (m : QMsg) (ack : Bool) (hm : Adm N m c) :
    ∀ j, (Out.tx tls v (m.snOf ack) m.cnt).firstSn = some j → N ≤ j := by
  intro j hj
  unfold QMsg.snOf at hj
  cases ack
  · simp only [Bool.false_eq_true, if_false, Out.firstSn] at hj
    rcases hm with hm | ⟨hm, _⟩
    · simp [hm] at hj
    · split at hj
      · cases hj; exact hm
      · cases hj
  · simp [Out.firstSn] at hj

theorem sendPdu_ord (m : QMsg) (ack fn : Bool) (hm : Adm N m c) (h : Ord N f0 g0 t k c) : Ord N f0 g0 t k (c.sendPdu m ack fn) := by
  unfold Ctx.sendPdu
  split
  · exact ord_setRet _ h
  · split
    · exact delayPdu_ord _ _ hm h
    · have h2 := sessionSendPdu_ord m ack (ord_emit _ (adm_tx true (m.view ack) m ack hm) h)
      simp only
      split
      · exact oupd! h2
      · exact h2

theorem flushOne_ord (q : QMsg) (rest : List QMsg) (hd : c.s.delayq = q :: rest) (h : Ord N f0 g0 t k c) :
    Ord N f0 g0 t k (c.flushOne q rest) := by
  unfold Ctx.flushOne
  simp only
  refine oupd! (sessionSendPdu_ord q false ?_)
  exact ord_pop_emit q rest _ true (q.view false) hd rfl rfl rfl rfl h

theorem flushLoop_ord (fuel : Nat) (h : Ord N f0 g0 t k c) : Ord N f0 g0 t k (flushLoop fuel c) := by
  induction fuel generalizing c with
  | zero => exact h
  | succ n ih =>
    unfold Ctx.flushLoop
    split
    · exact h
    · rename_i q rest hd
      split
      · exact h
      · split
        · exact h
        · simp only
          have h1 := flushOne_ord q rest hd h
          have hp := h1.proto
          refine ord_ite (fun hp' => absurd hp' (by rw [hp]; decide)) fun _ => ord_ite (fun _ => h1) fun _ => ih h1

theorem sessionConnected_ord (h : Ord N f0 g0 t k c) : Ord N f0 g0 t k c.sessionConnected := by
  unfold Ctx.sessionConnected
  simp only
  have h1 : Ord N f0 g0 t k (if c.s.state = .csm then (c.emit (.evTcp .sessConnected)).upd fun s => { s with doingFirst := false } else c) :=
    ord_ite (fun _ => oupd! (ord_emit_q _ rfl h)) fun _ => h
  exact flushLoop_ord _ (oupd! h1)

theorem sessionFree_ord (h : Ord N f0 g0 t k c) : Ord N f0 g0 t k c.sessionFree := by
  unfold Ctx.sessionFree
  simp only
  exact ord_dropq _ rfl (Nat.le_refl _) rfl (fun _ => rfl) (Or.inr rfl)
    (ord_outs_q _ (nackOf_q _ _) (sessionClose_ord (oupd! h)))

theorem maybeFree_ord (h : Ord N f0 g0 t k c) : Ord N f0 g0 t k c.maybeFree := by
  unfold Ctx.maybeFree
  split
  · exact sessionFree_ord h
  · exact h

theorem sendInternal_ord (m : QMsg) (ack : Bool) (hm : Adm N m c) (h : Ord N f0 g0 t k c) : Ord N f0 g0 t k (c.sendInternal m ack) := by
  unfold Ctx.sendInternal
  simp only
  have h1 := sendPdu_ord m ack false hm h
  split
  · exact h1
  · split
    · exact ord_emit_q _ rfl h1
    · split
      · exact h1
      · exact oupd! h1

/-- the message made from the next serial is admissible -/
theorem adm_next (m : QMsg) (hm : m.sn = c.s.next) (h : Ord N f0 g0 t k c) :
    Adm N m (c.upd fun s => { s with next := s.next + 1 }) :=
  Or.inr ⟨by rw [hm]; exact h.nx, fun j hj => by rw [hm]; exact h.lt j hj, by simp [Ctx.upd, hm]⟩

theorem ord_next (h : Ord N f0 g0 t k c) : Ord N f0 g0 t k (c.upd fun s => { s with next := s.next + 1 }) :=
  ord_upd _ rfl (Nat.le_succ _) rfl id h

theorem appSend_ord (con : Bool) (code mid : Nat) (tok : String) (h : Ord N f0 g0 t k c) : Ord N f0 g0 t k (c.appSend con code mid tok) := by
  unfold Ctx.appSend
  exact sendInternal_ord _ _ (adm_next _ rfl h) (ord_next h)

theorem adm_upd (m : QMsg) (f : Sess → Sess) (hdq : (f c.s).delayq = c.s.delayq) (hnx : (f c.s).next = c.s.next) (hm : Adm N m c) :
    Adm N m (c.upd f) := by
  rcases hm with hm | ⟨a, b, d⟩
  · exact Or.inl hm
  · exact Or.inr ⟨a, by show ∀ j ∈ fresh0 (f c.s).delayq, _; rw [hdq]; exact b, by show _ < (f c.s).next; rw [hnx]; exact d⟩

theorem adm_emit (m : QMsg) (o : Out) (hm : Adm N m c) : Adm N m (c.emit o) := hm

theorem sendLkdTail_ord (m : QMsg) (obs : Bool) (hm : Adm N m c) (h : Ord N f0 g0 t k c) : Ord N f0 g0 t k (c.sendLkdTail m obs) := by
  unfold Ctx.sendLkdTail
  refine ord_ite (fun _ => sendInternal_ord _ _ hm h) fun _ => ord_ite (fun _ => ?_) fun _ => sendInternal_ord _ _ hm h
  simp only
  have h1 := sendInternal_ord m false (adm_upd m (fun s => { s with lgCrcv := eraseTok m.tok s.lgCrcv }) rfl rfl hm)
    (ord_upd (fun s => { s with lgCrcv := eraseTok m.tok s.lgCrcv }) rfl (Nat.le_refl _) rfl id h)
  exact ord_ite (fun _ => oupd! h1) fun _ => h1

theorem appSendL_ord (con obs : Bool) (code mid : Nat) (tok : String) (h : Ord N f0 g0 t k c) :
    Ord N f0 g0 t k (c.appSendL con obs code mid tok) := by
  unfold Ctx.appSendL
  exact sendLkdTail_ord _ _ (adm_next _ rfl h) (ord_next h)

theorem lgResponse_ord (v : View) (h : Ord N f0 g0 t k c) : Ord N f0 g0 t k (c.lgResponse v) := by
  unfold Ctx.lgResponse
  exact ord_ite (fun _ => h) fun _ => ord_ite (fun _ => ord_emit_q _ rfl h) fun _ => oupd! h

theorem lgExpire_ord (keep : List String) (h : Ord N f0 g0 t k c) : Ord N f0 g0 t k (c.lgExpire keep) := by
  unfold Ctx.lgExpire
  exact oupd! h

theorem removeInflight_ord (mid : Nat) (h : Ord N f0 g0 t k c) : Ord N f0 g0 t k (c.removeInflight mid) := by
  unfold Ctx.removeInflight
  split
  · exact ord_setFound _ (oupd! h)
  · exact ord_setFound _ h

theorem handleResponse_ord (v : View) (h : Ord N f0 g0 t k c) : Ord N f0 g0 t k (c.handleResponse v) := by
  unfold Ctx.handleResponse
  simp only
  have h1 := ord_upd (fun s =>
    if v.kind ≠ 2 then
      { s with inflight := s.inflight.filter (fun q => q.tok ≠ v.tok),
               conActive := s.conActive - (s.inflight.filter fun q => q.tok = v.tok ∧ q.con).length }
    else s) (by by_cases hk : v.kind ≠ 2 <;> simp [hk]) (by by_cases hk : v.kind ≠ 2 <;> simp [hk])
      (by by_cases hk : v.kind ≠ 2 <;> simp [hk]) (by by_cases hk : v.kind ≠ 2 <;> simp [hk]) h
  refine ord_ite (fun _ => ord_emit_q _ rfl h1) fun _ => ord_ite (fun _ => h1) fun _ => ?_
  refine ord_emit_q _ rfl (lgResponse_ord v (ord_upd _ ?_ ?_ ?_ ?_ h1)) <;> (by_cases hk : v.kind = 2 <;> simp [hk])

theorem handleRequest_ord (v : View) (h : Ord N f0 g0 t k c) : Ord N f0 g0 t k (c.handleRequest v) := by
  unfold Ctx.handleRequest
  simp only
  have h1 := ord_emit_q (.req v.tok v.payload) rfl h
  exact sendInternal_ord _ _ (adm_next _ rfl h1) (ord_next h1)

theorem ackFlush_ord (h : Ord N f0 g0 t k c) : Ord N f0 g0 t k c.ackFlush := by
  unfold Ctx.ackFlush
  refine ord_ite (fun _ => ?_) fun _ => h
  simp only
  have h1 := ord_upd (fun s => { s with conActive := s.conActive - 1 }) rfl (Nat.le_refl _) rfl id h
  exact ord_ite (fun _ => sessionConnected_ord h1) fun _ => h1

theorem dispatch_ord (v : View) (h : Ord N f0 g0 t k c) : Ord N f0 g0 t k (c.dispatch v) := by
  unfold Ctx.dispatch
  refine ord_ite (fun _ => ?_) fun _ => ord_ite (fun _ => ?_) fun _ => ?_
  · simp only
    have h1 := removeInflight_ord v.mid h
    have h2 : Ord N f0 g0 t k (if (c.removeInflight v.mid).found.isSome then (c.removeInflight v.mid).ackFlush else c.removeInflight v.mid) :=
      ord_ite (fun _ => ackFlush_ord h1) fun _ => h1
    exact ord_ite (fun _ => h2) fun _ => ord_ite (fun _ => h2) fun _ => handleResponse_ord v h2
  · simp only
    have h1 := removeInflight_ord v.mid (ackFlush_ord h)
    split
    · exact ord_ite (fun _ => ord_emit_q _ rfl h1) fun _ => h1
    · exact ord_emit_q _ rfl h1
  · simp only
    have h1 : Ord N f0 g0 t k (if v.kind = 1 then c.removeInflight v.mid else c) :=
      ord_ite (fun _ => removeInflight_ord v.mid h) fun _ => h
    exact ord_ite (fun _ => ord_emit_q _ rfl h1) fun _ => ord_ite (fun _ => handleRequest_ord v h1) fun _ =>
      ord_ite (fun _ => handleResponse_ord v h1) fun _ => ord_emit_q _ rfl h1

theorem receiveTail_ord (h : Ord N f0 g0 t k c) : Ord N f0 g0 t k c.receiveTail := by
  unfold Ctx.receiveTail
  split
  · simp only
    rename_i e _
    have h1 : Ord N f0 g0 t k (if e ≠ .closed then c.emit (.ev e) else c) := ord_ite (fun _ => ord_emit_q _ rfl h) fun _ => h
    exact ord_ite (fun _ => disconnected_ord _ h1) fun _ => h1
  · exact h

theorem hsThenConnect_ord (h : Ord N f0 g0 t k c) : Ord N f0 g0 t k c.hsThenConnect := by
  unfold Ctx.hsThenConnect
  simp only
  exact ord_ite (fun _ => ord_setFlag _ (sessionConnected_ord (doHandshake_ord h))) fun _ => ord_setFlag _ (doHandshake_ord h)

theorem recvEst_ord (h : Ord N f0 g0 t k c) : Ord N f0 g0 t k c.recvEst := by
  unfold Ctx.recvEst
  simp only
  have h1 : Ord N f0 g0 t k (if c.s.state = .handshake then (c.emit (.ev .connected)).sessionConnected else c) :=
    ord_ite (fun _ => sessionConnected_ord (ord_emit_q _ rfl h)) fun _ => h
  have h2 := popRec_ord h1
  split
  · exact dispatch_ord _ h2
  · exact h2
  · exact receiveTail_ord (oupd! h2)
  · exact receiveTail_ord (oupd! h2)
  · exact receiveTail_ord (oupd! h2)
  · exact receiveTail_ord h2
  · exact receiveTail_ord h2
  · exact receiveTail_ord h2

theorem recvHs_ord (h : Ord N f0 g0 t k c) : Ord N f0 g0 t k c.recvHs := by
  unfold Ctx.recvHs
  simp only
  have h1 := hsThenConnect_ord h
  apply receiveTail_ord
  refine ord_ite (fun _ => h1) fun _ => ?_
  split
  · exact ord_ite (fun _ => hsThenConnect_ord h1) fun _ => h1
  · exact h1

theorem dtlsReceive_ord (h : Ord N f0 g0 t k c) : Ord N f0 g0 t k c.dtlsReceive := by
  unfold Ctx.dtlsReceive
  simp only
  have h1 := ord_upd (fun s => { s with dtlsEvent := none }) rfl (Nat.le_refl _) rfl id h
  exact ord_ite (fun _ => recvEst_ord h1) fun _ => recvHs_ord h1

theorem tlsTimeout_ord (h : Ord N f0 g0 t k c) : Ord N f0 g0 t k c.tlsTimeout := by
  unfold Ctx.tlsTimeout
  refine ord_ite (fun _ => h) fun _ => ?_
  simp only
  have h1 := ord_upd (fun s => { s with tmoCount := s.tmoCount + 1 }) rfl (Nat.le_refl _) rfl id h
  refine ord_ite (fun _ => disconnected_ord _ h1) fun _ => ?_
  exact ord_ite (fun _ => disconnected_ord _ (doHandshake_ord h1)) fun _ => doHandshake_ord h1

/-- coap_retransmit: the PDU goes out (or to the delay queue) with retransmit_cnt ≥ 1 — never a first transmission -/
theorem retransmit_ord (mid : Nat) (h : Ord N f0 g0 t k c) : Ord N f0 g0 t k (c.retransmit mid) := by
  unfold Ctx.retransmit
  split
  · exact h
  · rename_i q _
    refine ord_ite (fun _ => ?_) fun _ => ?_
    · simp only
      exact sendPdu_ord _ _ _ (Or.inl (by simp)) (oupd! (ord_emit_q _ rfl h))
    · simp only
      have h0 := ord_upd (fun s => { s with inflight := s.inflight.filter (·.sn ≠ q.sn) }) rfl (Nat.le_refl _) rfl id h
      exact ord_ite (fun _ => ord_emit_q _ rfl (ackFlush_ord h0)) fun _ => ackFlush_ord h0

theorem dtlsEstablishClient_ord (h : Ord N f0 g0 t k c) : Ord N f0 g0 t k c.dtlsEstablishClient := by
  unfold Ctx.dtlsEstablishClient
  simp only
  have h1 := popEnv_ord (ord_upd (fun s => { s with state := .handshake }) rfl (Nat.le_refl _) rfl id h)
  generalize (c.upd fun s => { s with state := .handshake }).popEnv = c1 at h1
  have h2 : Ord N f0 g0 t k (if c1.flag = true then
      (if c1.doHandshake.ret = -1 then c1.doHandshake.freeEnv true else c1.doHandshake.upd fun s => { s with tls := true }) else c1) :=
    ord_ite (fun _ => ord_ite (fun _ => freeEnv_ord _ (doHandshake_ord h1)) fun _ => oupd! (doHandshake_ord h1)) fun _ => h1
  exact ord_ite (fun _ => disconnected_ord _ h2) fun _ => h2

theorem dtlsHello_ord (h : Ord N f0 g0 t k c) : Ord N f0 g0 t k c.dtlsHello := by
  unfold Ctx.dtlsHello
  simp only
  have h1 : Ord N f0 g0 t k (if (!c.s.tls) = true then
      (if c.popEnv.flag = true then c.popEnv.upd fun s => { s with tls := true } else c.popEnv) else c) :=
    ord_ite (fun _ => ord_ite (fun _ => oupd! (popEnv_ord h)) fun _ => popEnv_ord h) fun _ => h
  generalize (if (!c.s.tls) = true then
      (if c.popEnv.flag = true then c.popEnv.upd fun s => { s with tls := true } else c.popEnv) else c) = c1 at h1
  refine ord_ite (fun _ => ord_setRet _ h1) fun _ => ?_
  have h2 := popCk_ord h1
  refine ord_ite (fun _ => ord_setRet _ (ord_emit_q _ rfl h2)) fun _ => ?_
  have h3 := doHandshake_ord h2
  refine ord_ite (fun _ => ?_) fun _ => ord_setRet _ h3
  exact ord_setRet _ (oupd! (freeEnv_ord _ h3))

theorem handleDgramForProto_ord (h : Ord N f0 g0 t k c) : Ord N f0 g0 t k c.handleDgramForProto := by
  unfold Ctx.handleDgramForProto
  split
  · exact ord_emit_q _ rfl h
  · exact h
  · refine ord_ite (fun _ => ?_) fun _ => ord_ite (fun _ => dtlsReceive_ord h) fun _ => h
    simp only
    have h1 := dtlsHello_ord h
    refine ord_ite (fun _ => ?_) fun _ => h1
    have h2 := ord_upd (fun s => { s with typ := .server, state := .handshake }) rfl (Nat.le_refl _) rfl id h1
    exact ord_ite (fun _ => disconnected_ord _ h2) fun _ => h2

/-! the functions of the TLS-over-TCP part, run on a DTLS session (an event of the wrong kind): same pieces -/

theorem tlsTail_ord (h : Ord N f0 g0 t k c) : Ord N f0 g0 t k c.tlsTail := by
  unfold Ctx.tlsTail
  split
  · simp only
    rename_i e _
    have h1 := ord_ite_emit_q (e ≠ .closed) (.ev e) rfl h
    exact ord_ite (fun _ => ord_setRet _ (disconnected_ord _ h1)) fun _ => h1
  · exact h

theorem tlsRecordSend_ord (m : QMsg) (ack : Bool) (hm : Adm N m c) (h : Ord N f0 g0 t k c) : Ord N f0 g0 t k (c.tlsRecordSend m ack) := by
  unfold Ctx.tlsRecordSend
  simp only
  have h1 := popSnd_ord (ord_upd (fun s => { s with dtlsEvent := none }) rfl (Nat.le_refl _) rfl id
    (ord_emit _ (adm_tx true m.strmView m ack hm) h))
  apply tlsTail_ord
  split
  · exact ord_setRet _ h1
  · exact ord_setRet _ h1
  · exact ord_setRet _ (oupd! h1)
  · exact ord_setRet _ (oupd! h1)
  · exact ord_setRet _ h1
  · exact ord_setRet _ (ord_emit_q _ rfl h1)

theorem sendCsm_ord (h : Ord N f0 g0 t k c) : Ord N f0 g0 t k c.sendCsm := by
  unfold Ctx.sendCsm
  simp only
  have h0 := ord_upd (fun s => { s with state := .csm }) rfl (Nat.le_refl _) rfl id h
  have h1 := ord_next h0
  have key : ∀ X : Ctx, Ord N f0 g0 t k X → Ord N f0 g0 t k (if X.ret ≠ 1 then X.disconnected .undeliv else X) :=
    fun X hX => ord_ite (fun _ => disconnected_ord _ hX) fun _ => hX
  apply key
  exact ord_ite (fun _ => tlsRecordSend_ord _ false (adm_next _ rfl h0) h1) fun _ =>
    ord_setRet (-1) (ord_emit_q (.unmodelled "csm-before-established") rfl h1)

theorem tlsEstablish_ord (h : Ord N f0 g0 t k c) : Ord N f0 g0 t k c.tlsEstablish := by
  unfold Ctx.tlsEstablish
  simp only
  have h1 := popEnv_ord (ord_upd (fun s => { s with state := .handshake }) rfl (Nat.le_refl _) rfl id h)
  refine ord_ite (fun _ => disconnected_ord _ h1) fun _ => ?_
  have h2 := ord_upd (fun s => { s with tls := true }) rfl (Nat.le_refl _) rfl id h1
  exact ord_ite (fun _ => sendCsm_ord (ord_emit_q _ rfl (doHandshake_ord h2))) fun _ => doHandshake_ord h2

theorem dispatchStrm_ord (v : View) (h : Ord N f0 g0 t k c) : Ord N f0 g0 t k (c.dispatchStrm v) := by
  unfold Ctx.dispatchStrm
  refine ord_ite (fun _ => ord_ite (fun _ => sessionConnected_ord h) fun _ => h) fun _ => ?_
  refine ord_ite (fun _ => ord_emit_q _ rfl h) fun _ => ord_ite (fun _ => ord_emit_q _ rfl h) fun _ => ?_
  refine ord_ite (fun _ => ?_) fun _ => ord_ite (fun _ => ord_emit_q _ rfl (lgResponse_ord v h)) fun _ => ord_emit_q _ rfl h
  simp only
  have h1 := ord_emit_q (.req v.tok v.payload) rfl h
  exact sendPdu_ord _ _ _ (adm_next _ rfl h1) (ord_next h1)

theorem tlsReadHs_ord (h : Ord N f0 g0 t k c) : Ord N f0 g0 t k c.tlsReadHs := by
  unfold Ctx.tlsReadHs
  refine ord_ite (fun _ => ?_) fun _ => ord_setRet _ h
  simp only
  exact ord_ite (fun _ => ord_setRet _ (sendCsm_ord (ord_emit_q _ rfl (doHandshake_ord h)))) fun _ => doHandshake_ord h

theorem readEnd_ord (h : Ord N f0 g0 t k c) : Ord N f0 g0 t k c.readEnd := by
  unfold Ctx.readEnd
  simp only
  exact ord_ite (fun _ => disconnected_ord _ (tlsTail_ord h)) fun _ => tlsTail_ord h

theorem strmRead_ord (h : Ord N f0 g0 t k c) : Ord N f0 g0 t k c.strmRead := by
  unfold Ctx.strmRead
  refine ord_ite (fun _ => disconnected_ord _ h) fun _ => ?_
  simp only
  have h1 := tlsReadHs_ord (ord_upd (fun s => { s with dtlsEvent := none }) rfl (Nat.le_refl _) rfl id h)
  generalize (c.upd fun s => { s with dtlsEvent := none }).tlsReadHs = c1 at h1
  refine ord_ite (fun _ => ?_) fun _ => readEnd_ord h1
  have h2 := popRec_ord h1
  split
  · have h3 := tlsTail_ord (ord_setRet 1 h2)
    exact ord_ite (fun _ => dispatchStrm_ord _ h3) fun _ => ord_ite (fun _ => disconnected_ord _ h3) fun _ => h3
  · exact ord_emit_q _ rfl h2
  · exact readEnd_ord (ord_setRet _ (oupd! h2))
  · exact readEnd_ord (ord_setRet _ h2)
  · exact readEnd_ord (ord_setRet _ (oupd! h2))
  · exact readEnd_ord (ord_setRet _ (oupd! h2))
  · exact readEnd_ord (ord_setRet _ (oupd! h2))
  · exact readEnd_ord (ord_setRet _ h2)

theorem tcpConnect_ord (ok : Bool) (h : Ord N f0 g0 t k c) : Ord N f0 g0 t k (c.tcpConnect ok) := by
  unfold Ctx.tcpConnect
  exact ord_ite (fun _ => tlsEstablish_ord (ord_emit_q _ rfl h)) fun _ => disconnected_ord _ (ord_emit_q _ rfl h)

theorem strmWrite_ord (h : Ord N f0 g0 t k c) : Ord N f0 g0 t k c.strmWrite := by
  unfold Ctx.strmWrite
  exact ord_ite (fun _ => h) fun _ => ord_emit_q _ rfl h

theorem appSendStrm_ord (w : Bool) (code mid : Nat) (tok : String) (h : Ord N f0 g0 t k c) : Ord N f0 g0 t k (c.appSendStrm w code mid tok) := by
  unfold Ctx.appSendStrm
  refine ord_ite (fun _ => ord_emit_q _ rfl h) fun _ => ord_ite (fun _ => ord_emit_q _ rfl h) fun _ => ?_
  simp only
  have h0 := ord_upd (fun s => { s with doingFirst := false }) rfl (Nat.le_refl _) rfl id h
  have h1 : Ord N f0 g0 t k (if c.s.doingFirst = true then
      (if (c.upd fun s => { s with doingFirst := false }).s.state = .csm
       then (c.upd fun s => { s with doingFirst := false }).emit (.unmodelled "csm-timeout")
       else c.upd fun s => { s with doingFirst := false }) else c) :=
    ord_ite (fun _ => ord_ite (fun _ => ord_emit_q _ rfl h0) fun _ => h0) fun _ => h
  exact sendLkdTail_ord _ _ (adm_next _ rfl h1) (ord_next h1)

/-- one whole event keeps the first-transmission ledger -/
theorem stepCtx_ord (s : Sess) (e : Ev) (orc : List Orc) (h : Ord N f0 g0 t k { s := s, orc := orc }) :
    Ord N f0 g0 t k (s.stepCtx e orc) := by
  unfold Sess.stepCtx
  simp only
  refine ord_ite (fun _ => h) fun _ => ?_
  split
  · exact appSend_ord _ _ _ _ h
  · exact maybeFree_ord (handleDgramForProto_ord h)
  · exact tlsTimeout_ord h
  · exact maybeFree_ord (retransmit_ord _ h)
  · exact disconnected_ord _ h
  · exact maybeFree_ord (oupd! h)
  · exact sessionFree_ord (ord_emit_q _ rfl h)
  · exact maybeFree_ord (tcpConnect_ord _ h)
  · exact maybeFree_ord (strmRead_ord h)
  · exact maybeFree_ord (strmWrite_ord h)
  · exact appSendStrm_ord _ _ _ _ h
  · exact appSendL_ord _ _ _ _ _ h
  · exact lgExpire_ord _ h


/-! ## from one event to the next, whole histories -/

/-- the ledger at the start of the next event: this event's first transmissions join the earlier ones -/
theorem ord_rebase (orc : List Orc) (h : Ord N f0 g0 t k c) :
    Ord N (f0 ++ firsts N c.out) (g0 || c.out.any Out.isFail) t k { s := c.s, orc := orc } := by
  obtain ⟨a1, a2, a3, a4, a5, a6⟩ := h
  refine ⟨by simpa using a1, a2, a3, ?_, a5, ?_⟩
  · intro j hj
    simp only [List.mem_append] at hj
    rcases hj with hj | hj
    · exact a4 j hj
    · unfold firsts at hj
      simpa using (List.mem_filter.mp hj).2
  · intro ht
    obtain ⟨b1, b2⟩ := a6 ht
    refine ⟨b1, ?_⟩
    rcases b2 with b | b | b | b | b
    · exact Or.inl b
    · exact Or.inr (Or.inl (by simpa using b))
    · exact Or.inr (Or.inr (Or.inl (by simp [b])))
    · exact Or.inr (Or.inr (Or.inl (by simp [b])))
    · exact Or.inr (Or.inr (Or.inr (Or.inr b)))

theorem step_ord (s : Sess) (e : Ev) (orc : List Orc) (h : Ord N f0 g0 t k { s := s }) :
    Ord N (f0 ++ firsts N (s.step e orc).2) (g0 || (s.step e orc).2.any Out.isFail) t k { s := (s.step e orc).1 } :=
  ord_rebase [] (stepCtx_ord s e orc ⟨h.srt, h.lt, h.nx, h.f0lt, h.proto, h.trk⟩)

theorem run_ord (s : Sess) (evs : List (Ev × List Orc)) (h : Ord N f0 g0 t k { s := s }) :
    Ord N (f0 ++ firsts N (s.run evs).2) (g0 || (s.run evs).2.any Out.isFail) t k { s := (s.run evs).1 } := by
  induction evs generalizing s f0 g0 with
  | nil => simpa [Sess.run] using h
  | cons eo tl ih =>
    obtain ⟨e, o⟩ := eo
    have h2 := ih _ (step_ord s e o h)
    simp only [Sess.run]
    rw [firsts_append, List.any_append, ← List.append_assoc, ← Bool.or_assoc]
    exact h2

end
end Coap.TlsGate
