import CoapVerif.Model.PersistList
/- C17: induction over histories — the save files (as record lists) mirror the server's memory, which follows the
abstract state; what the loaders re-create from any stage of an interrupted event. -/
namespace Coap.Persist

theorem sameReq_iff (c : Nat) (n : Bytes) (x : ORec) : sameReq c n x = true ↔ x.client = c ∧ x.name = n := by
  simp [sameReq]

theorem sameReq_false_iff (c : Nat) (n : Bytes) (x : ORec) : sameReq c n x = false ↔ ¬(x.client = c ∧ x.name = n) := by
  rw [← sameReq_iff]; cases sameReq c n x <;> simp

structure L.Inv (s : L) (a : Abs) : Prop where
  res : s.res = a.res
  obs : ∀ c n v, (∃ k, (⟨k, c, n, v⟩ : ORec) ∈ s.subs) ↔ (c, n, v) ∈ a.obs
  dyn : ∀ n, n ∈ s.files.dyn ↔ n ∈ s.res
  mir : ∀ r, r ∈ s.files.obs ↔ r ∈ s.subs
  fresh : ∀ r ∈ s.subs, r.key < s.nextKey
  keyU : ∀ x ∈ s.subs, ∀ y ∈ s.subs, x.key = y.key → x = y
  reqU : ∀ x ∈ s.subs, ∀ y ∈ s.subs, x.client = y.client → x.name = y.name → x = y
  live : ∀ r ∈ s.subs, r.name ∈ s.res

theorem restore_of_inv {s : L} {a : Abs} (h : L.Inv s a) : RestoreEq s.files a := by
  refine ⟨fun n => ?_, fun c n v => ?_⟩
  · simp only [Files.restoredRes]; rw [h.dyn, h.res]
  · rw [← h.obs]
    simp only [Files.restoredObs, List.mem_map, List.mem_filter, decide_eq_true_eq]
    constructor
    · rintro ⟨r, ⟨hr, _⟩, he⟩
      refine ⟨r.key, ?_⟩
      have hm := (h.mir r).1 hr
      cases r; simp only [Prod.mk.injEq] at he; rcases he with ⟨rfl, rfl, rfl⟩; exact hm
    · rintro ⟨k, hk⟩
      exact ⟨⟨k, c, n, v⟩, ⟨(h.mir _).2 hk, (h.dyn _).2 (h.live _ hk)⟩, rfl⟩

/-- files after removing the record of the subscription with the same request, if there is one -/
def removedFiles (s : L) (c : Nat) (n : Bytes) : Files :=
  match s.subs.find? (sameReq c n) with
  | some old => s.files.obsDeleted old.key
  | none => s.files

theorem removed_dyn (s : L) (c : Nat) (n : Bytes) : (removedFiles s c n).dyn = s.files.dyn := by
  simp only [removedFiles]; split <;> rfl

theorem removed_mir {s : L} {a : Abs} (h : L.Inv s a) (c : Nat) (n : Bytes) (r : ORec) :
    r ∈ (removedFiles s c n).obs ↔ r ∈ s.subs.filter (fun x => !sameReq c n x) := by
  simp only [removedFiles]
  cases hf : s.subs.find? (sameReq c n) with
  | none =>
    simp only [List.mem_filter, h.mir]
    have := List.find?_eq_none.1 hf
    constructor
    · intro hr; exact ⟨hr, by simpa using this r hr⟩
    · exact fun hr => hr.1
  | some old =>
    have hold : old ∈ s.subs := List.mem_of_find?_eq_some hf
    have hsame : sameReq c n old = true := List.find?_some hf
    have ho := (sameReq_iff c n old).1 hsame
    simp only [Files.obsDeleted, List.mem_filter, h.mir, decide_eq_true_eq, Bool.not_eq_true']
    constructor
    · rintro ⟨hr, hk⟩
      refine ⟨hr, ?_⟩
      rw [sameReq_false_iff]
      rintro ⟨h1, h2⟩
      exact hk (by rw [h.reqU r hr old hold (by rw [h1, ho.1]) (by rw [h2, ho.2])])
    · rintro ⟨hr, hk⟩
      refine ⟨hr, fun hke => ?_⟩
      have := h.keyU r hr old hold hke
      rw [this, hsame] at hk; exact absurd hk (by simp)

theorem foldl_obsDeleted (ds : List ORec) : ∀ (f : Files),
    ((ds.map fun (d : ORec) => fun (f : Files) => f.obsDeleted d.key).foldl (fun f u => u f) f).dyn = f.dyn ∧
    ∀ r, r ∈ ((ds.map fun (d : ORec) => fun (f : Files) => f.obsDeleted d.key).foldl (fun f u => u f) f).obs ↔
      r ∈ f.obs ∧ ∀ d ∈ ds, r.key ≠ d.key := by
  induction ds with
  | nil => intro f; simp
  | cons d ds ih =>
    intro f
    simp only [List.map_cons, List.foldl_cons]
    have := ih (f.obsDeleted d.key)
    refine ⟨this.1, fun r => ?_⟩
    rw [this.2 r]
    simp only [Files.obsDeleted, List.mem_filter, decide_eq_true_eq, List.mem_cons, forall_eq_or_imp]
    constructor
    · rintro ⟨⟨h1, h2⟩, h3⟩; exact ⟨h1, h2, h3⟩
    · rintro ⟨h1, h2, h3⟩; exact ⟨⟨h1, h2⟩, h3⟩

theorem doomed_iff {s : L} {a : Abs} (h : L.Inv s a) (n : Bytes) (r : ORec) (hr : r ∈ s.subs) :
    (∀ d ∈ s.subs.filter (·.name = n), r.key ≠ d.key) ↔ r.name ≠ n := by
  constructor
  · intro hd hn
    exact hd r (by simp [hr, hn]) rfl
  · intro hn d hd hk
    simp only [List.mem_filter, decide_eq_true_eq] at hd
    have := h.keyU r hr d hd.1 hk
    exact hn (by rw [this]; exact hd.2)

theorem inv_step {s : L} {a : Abs} (h : L.Inv s a) (e : HEv) : L.Inv (s.step e) (a.step e) := by
  cases e with
  | create n =>
    by_cases hn : n ∈ s.res
    · have hn' : n ∈ a.res := h.res ▸ hn
      simp only [L.step, Abs.step, hn, hn', if_true]; exact h
    · have hn' : n ∉ a.res := h.res ▸ hn
      simp only [L.step, Abs.step, L.updates, hn, hn', if_false, List.foldl_cons, List.foldl_nil]
      refine ⟨by simp [h.res], h.obs, fun m => ?_, h.mir, h.fresh, h.keyU, h.reqU, fun r hr => ?_⟩
      · simp only [Files.dynAdded, List.mem_append, List.mem_filter, decide_eq_true_eq, List.mem_singleton, h.dyn]
        constructor
        · rintro (⟨h1, _⟩ | h1); exact Or.inl h1; exact Or.inr h1
        · rintro (h1 | h1)
          · by_cases hm : m = n
            · exact Or.inr hm
            · exact Or.inl ⟨h1, hm⟩
          · exact Or.inr h1
      · simp only [List.mem_append]; exact Or.inl (h.live r hr)
  | delete n =>
    have hobs : ∀ c m v, (∃ k, (⟨k, c, m, v⟩ : ORec) ∈ s.subs.filter (·.name ≠ n)) ↔
        (c, m, v) ∈ a.obs.filter (·.2.1 ≠ n) := by
      intro c m v
      simp only [List.mem_filter, decide_eq_true_eq, ← h.obs]
      constructor
      · rintro ⟨k, h1, h2⟩; exact ⟨⟨k, h1⟩, h2⟩
      · rintro ⟨⟨k, h1⟩, h2⟩; exact ⟨k, h1, h2⟩
    have hsub : ∀ r, r ∈ s.subs.filter (·.name ≠ n) → r ∈ s.subs := fun r hr => (List.mem_filter.1 hr).1
    simp only [L.step, Abs.step]
    refine ⟨by simp [h.res], hobs, ?_, ?_, fun r hr => h.fresh r (hsub r hr),
      fun x hx y hy => h.keyU x (hsub x hx) y (hsub y hy), fun x hx y hy => h.reqU x (hsub x hx) y (hsub y hy), ?_⟩
    · intro m
      by_cases hn : n ∈ s.res
      · simp only [L.updates, hn, if_true, List.foldl_cons]
        rw [(foldl_obsDeleted _ _).1]
        simp only [Files.dynDeleted, List.mem_filter, decide_eq_true_eq, h.dyn]
      · simp only [L.updates, hn, if_false, List.foldl_nil, List.mem_filter, decide_eq_true_eq, h.dyn]
        constructor
        · intro hm; exact ⟨hm, fun he => hn (he ▸ hm)⟩
        · exact fun hm => hm.1
    · intro r
      by_cases hn : n ∈ s.res
      · simp only [L.updates, hn, if_true, List.foldl_cons]
        rw [(foldl_obsDeleted _ _).2 r]
        simp only [Files.dynDeleted, List.mem_filter, decide_eq_true_eq, h.mir]
        constructor
        · rintro ⟨hr, hd⟩; exact ⟨hr, (doomed_iff h n r hr).1 (by simpa [List.mem_filter] using hd)⟩
        · rintro ⟨hr, hd⟩; exact ⟨hr, by simpa [List.mem_filter] using (doomed_iff h n r hr).2 hd⟩
      · simp only [L.updates, hn, if_false, List.foldl_nil, List.mem_filter, decide_eq_true_eq, h.mir]
        constructor
        · intro hr; exact ⟨hr, fun he => hn (he ▸ h.live r hr)⟩
        · exact fun hr => hr.1
    · intro r hr
      simp only [List.mem_filter, decide_eq_true_eq] at hr ⊢
      exact ⟨h.live r hr.1, hr.2⟩
  | cancel c n =>
    have hsub : ∀ r, r ∈ s.subs.filter (fun x => !sameReq c n x) → r ∈ s.subs := fun r hr => (List.mem_filter.1 hr).1
    have hfiles : (s.updates (.cancel c n)).foldl (fun f u => u f) s.files = removedFiles s c n := by
      simp only [L.updates, removedFiles]; cases s.subs.find? (sameReq c n) <;> rfl
    simp only [L.step, Abs.step, hfiles]
    refine ⟨h.res, ?_, by rw [removed_dyn]; exact h.dyn, removed_mir h c n, fun r hr => h.fresh r (hsub r hr),
      fun x hx y hy => h.keyU x (hsub x hx) y (hsub y hy), fun x hx y hy => h.reqU x (hsub x hx) y (hsub y hy),
      fun r hr => h.live r (hsub r hr)⟩
    intro c' m v
    simp only [List.mem_filter, decide_eq_true_eq, ← h.obs, Bool.not_eq_true', sameReq_false_iff, decide_not,
      Bool.not_eq_eq_eq_not, Bool.not_true, decide_eq_false_iff_not]
    constructor
    · rintro ⟨k, h1, h2⟩; exact ⟨⟨k, h1⟩, h2⟩
    · rintro ⟨⟨k, h1⟩, h2⟩; exact ⟨k, h1, h2⟩
  | observe c n v =>
    by_cases hn : n ∈ s.res
    · have hn' : n ∈ a.res := h.res ▸ hn
      by_cases hany : s.subs.any (fun x => sameReq c n x && x.ver = v) = true
      · -- the very same registration: memory and files stay
        simp only [L.step, Abs.step, hn, hn', hany, if_true]
        rcases List.any_eq_true.1 hany with ⟨x, hx, hxp⟩
        simp only [Bool.and_eq_true, decide_eq_true_eq, sameReq_iff] at hxp
        refine ⟨h.res, fun c' m v' => ?_, h.dyn, h.mir, h.fresh, h.keyU, h.reqU, h.live⟩
        simp only [List.mem_cons, Prod.mk.injEq, List.mem_filter, decide_eq_true_eq, ← h.obs, decide_not,
          Bool.not_eq_eq_eq_not, Bool.not_true, decide_eq_false_iff_not]
        constructor
        · rintro ⟨k, hk⟩
          by_cases hs : c' = c ∧ m = n
          · left
            have := h.reqU _ hk x hx (by simp [hs.1, hxp.1.1]) (by simp [hs.2, hxp.1.2])
            refine ⟨hs.1, hs.2, ?_⟩
            rw [← hxp.2, ← this]
          · exact Or.inr ⟨⟨k, hk⟩, hs⟩
        · rintro (⟨rfl, rfl, rfl⟩ | ⟨hk, _⟩)
          · refine ⟨x.key, ?_⟩
            have : (⟨x.key, x.client, x.name, x.ver⟩ : ORec) = x := by cases x; rfl
            rw [← hxp.1.1, ← hxp.1.2, ← hxp.2, this]; exact hx
          · exact hk
      · -- a new subscription (possibly replacing the one with the same request)
        have hsub : ∀ r, r ∈ s.subs.filter (fun x => !sameReq c n x) → r ∈ s.subs := fun r hr => (List.mem_filter.1 hr).1
        have hany' : s.subs.any (fun x => sameReq c n x && x.ver = v) = false := Bool.eq_false_iff.2 hany
        have hfiles : (s.updates (.observe c n v)).foldl (fun f u => u f) s.files =
            (removedFiles s c n).obsAdded ⟨s.nextKey, c, n, v⟩ := by
          simp only [L.updates, hn, hany', if_true, Bool.false_eq_true, if_false, removedFiles, List.foldl_append,
            List.foldl_cons, List.foldl_nil]
          cases s.subs.find? (sameReq c n) <;> rfl
        simp only [L.step, Abs.step, hn, hn', hany', if_true, Bool.false_eq_true, if_false, hfiles]
        refine ⟨h.res, fun c' m v' => ?_, ?_, fun r => ?_, fun r hr => ?_, fun x hx y hy hk => ?_,
          fun x hx y hy h1 h2 => ?_, fun r hr => ?_⟩
        · simp only [List.mem_cons, Prod.mk.injEq, List.mem_filter, decide_eq_true_eq, ← h.obs, decide_not,
            Bool.not_eq_eq_eq_not, Bool.not_true, decide_eq_false_iff_not, Bool.not_eq_true', sameReq_false_iff,
            ORec.mk.injEq]
          constructor
          · rintro ⟨k, (⟨_, rfl, rfl, rfl⟩ | ⟨hk, hs⟩)⟩
            · exact Or.inl ⟨rfl, rfl, rfl⟩
            · exact Or.inr ⟨⟨k, hk⟩, hs⟩
          · rintro (⟨rfl, rfl, rfl⟩ | ⟨⟨k, hk⟩, hs⟩)
            · exact ⟨s.nextKey, Or.inl ⟨rfl, rfl, rfl, rfl⟩⟩
            · exact ⟨k, Or.inr ⟨hk, hs⟩⟩
        · simp only [Files.obsAdded, removed_dyn]; exact h.dyn
        · simp only [Files.obsAdded, List.mem_append, List.mem_filter, decide_eq_true_eq,
            List.mem_cons, List.not_mem_nil, or_false, removed_mir h c n r]
          constructor
          · rintro (⟨h1, _⟩ | h1)
            · exact Or.inr (by simpa [List.mem_filter] using h1)
            · exact Or.inl h1
          · rintro (h1 | h1)
            · exact Or.inr h1
            · refine Or.inl ⟨by simpa [List.mem_filter] using h1, ?_⟩
              have := h.fresh r (hsub r (by simpa [List.mem_filter] using h1))
              omega
        · simp only [List.mem_cons] at hr
          rcases hr with rfl | hr
          · show s.nextKey < s.nextKey + 1; omega
          · have := h.fresh r (hsub r hr); show r.key < s.nextKey + 1; omega
        · simp only [List.mem_cons] at hx hy
          rcases hx with rfl | hx <;> rcases hy with rfl | hy
          · rfl
          · have := h.fresh y (hsub y hy); simp at hk; omega
          · have := h.fresh x (hsub x hx); simp at hk; omega
          · exact h.keyU x (hsub x hx) y (hsub y hy) hk
        · simp only [List.mem_cons] at hx hy
          rcases hx with rfl | hx <;> rcases hy with rfl | hy
          · rfl
          · have := (List.mem_filter.1 hy).2
            simp only [Bool.not_eq_true', sameReq_false_iff] at this
            exact absurd ⟨h1.symm, h2.symm⟩ this
          · have := (List.mem_filter.1 hx).2
            simp only [Bool.not_eq_true', sameReq_false_iff] at this
            exact absurd ⟨h1, h2⟩ this
          · exact h.reqU x (hsub x hx) y (hsub y hy) h1 h2
        · simp only [List.mem_cons] at hr
          rcases hr with rfl | hr
          · exact hn
          · exact h.live r (hsub r hr)
    · have hn' : n ∉ a.res := h.res ▸ hn
      simp only [L.step, Abs.step, hn, hn', if_false]; exact h

theorem inv_init : L.Inv L.init ⟨[], []⟩ := by
  refine ⟨rfl, ?_, ?_, ?_, ?_, ?_, ?_, ?_⟩ <;> simp [L.init]

theorem inv_foldl (h : List HEv) : ∀ (s : L) (a : Abs), L.Inv s a → L.Inv (h.foldl L.step s) (h.foldl Abs.step a) := by
  induction h with
  | nil => intro s a hi; exact hi
  | cons e r ih => intro s a hi; exact ih _ _ (inv_step hi e)

theorem inv_run (h : List HEv) : L.Inv (L.run h) (Abs.run h) := inv_foldl h _ _ inv_init

theorem L.restore_run (h : List HEv) :
    (∀ n, n ∈ (L.run h).restoredRes ↔ n ∈ (Abs.run h).res) ∧
    (∀ c n v, (c, n, v) ∈ (L.run h).restoredObs ↔ (c, n, v) ∈ (Abs.run h).obs) :=
  restore_of_inv (inv_run h)

/-! ### stages of an interrupted event -/

theorem run_snoc (h : List HEv) (e : HEv) : L.run (h ++ [e]) = (L.run h).step e := by
  simp [L.run, List.foldl_append]

theorem abs_run_snoc (h : List HEv) (e : HEv) : Abs.run (h ++ [e]) = (Abs.run h).step e := by
  simp [Abs.run, List.foldl_append]

/-- stages of a resource deletion after the dyn file was rewritten: the dyn list is final, the observe list is
between the initial and the final one -/
theorem stages_obsDeleted (ds : List ORec) : ∀ (g : Files), ∀ fl ∈ stagesFrom g (ds.map fun (d : ORec) => fun (f : Files) => f.obsDeleted d.key),
    fl.dyn = g.dyn ∧ (∀ r, r ∈ fl.obs → r ∈ g.obs) ∧ (∀ r, r ∈ g.obs → (∀ d ∈ ds, r.key ≠ d.key) → r ∈ fl.obs) := by
  induction ds with
  | nil => intro g fl hfl; simp [stagesFrom] at hfl; subst hfl; exact ⟨rfl, fun _ h => h, fun _ h _ => h⟩
  | cons d ds ih =>
    intro g fl hfl
    simp only [List.map_cons, stagesFrom, List.mem_cons] at hfl
    rcases hfl with rfl | hfl
    · exact ⟨rfl, fun _ h => h, fun _ h _ => h⟩
    · have := ih (g.obsDeleted d.key) fl hfl
      refine ⟨this.1, fun r hr => ?_, fun r hr hd => ?_⟩
      · have := this.2.1 r hr
        simp only [Files.obsDeleted, List.mem_filter] at this; exact this.1
      · apply this.2.2 r
        · simp only [Files.obsDeleted, List.mem_filter, decide_eq_true_eq]
          exact ⟨hr, hd d (by simp)⟩
        · exact fun d' hd' => hd d' (by simp [hd'])

theorem stages_of_inv {s : L} {a : Abs} (h : L.Inv s a) (e : HEv) (fl : Files) (hfl : fl ∈ s.stages e) :
    RestoreEq fl a ∨ RestoreEq fl (a.step e) ∨
    (∃ c n v, e = .observe c n v ∧ RestoreEq fl (a.step (.cancel c n))) := by
  have hb := restore_of_inv h
  have ha := restore_of_inv (inv_step h e)
  cases e with
  | create n =>
    by_cases hn : n ∈ s.res
    · simp [L.stages, L.updates, hn, stagesFrom] at hfl; subst hfl; exact Or.inl hb
    · simp only [L.stages, L.updates, hn, if_false, stagesFrom, List.mem_cons, List.not_mem_nil, or_false] at hfl
      rcases hfl with rfl | rfl
      · exact Or.inl hb
      · right; left
        simpa [L.step, L.updates, hn] using ha
  | cancel c n =>
    simp only [L.stages, L.updates] at hfl
    cases hf : s.subs.find? (sameReq c n) with
    | none => simp [hf, stagesFrom] at hfl; subst hfl; exact Or.inl hb
    | some old =>
      simp only [hf, stagesFrom, List.mem_cons, List.not_mem_nil, or_false] at hfl
      rcases hfl with rfl | rfl
      · exact Or.inl hb
      · right; left
        simpa [L.step, L.updates, hf] using ha
  | delete n =>
    by_cases hn : n ∈ s.res
    · simp only [L.stages, L.updates, hn, if_true, stagesFrom, List.mem_cons] at hfl
      rcases hfl with rfl | hfl
      · exact Or.inl hb
      · right; left
        have hst := stages_obsDeleted _ _ fl hfl
        refine ⟨fun m => ?_, fun c m v => ?_⟩
        · simp only [Files.restoredRes, hst.1, Files.dynDeleted, Abs.step, List.mem_filter, decide_eq_true_eq,
            h.dyn, h.res]
        · simp only [Files.restoredObs, hst.1, Files.dynDeleted, Abs.step, List.mem_map, List.mem_filter,
            decide_eq_true_eq, ← h.obs]
          constructor
          · rintro ⟨r, ⟨hr, _, hne⟩, he⟩
            have hr0 := hst.2.1 r hr
            simp only [Files.dynDeleted] at hr0
            have hm := (h.mir r).1 hr0
            cases r; simp only [Prod.mk.injEq] at he; rcases he with ⟨rfl, rfl, rfl⟩
            exact ⟨⟨_, hm⟩, hne⟩
          · rintro ⟨⟨k, hk⟩, hne⟩
            refine ⟨⟨k, c, m, v⟩, ⟨?_, (h.dyn _).2 (h.live _ hk), hne⟩, rfl⟩
            apply hst.2.2
            · exact (h.mir _).2 hk
            · exact (doomed_iff h n _ hk).2 hne
    · simp [L.stages, L.updates, hn, stagesFrom] at hfl; subst hfl; exact Or.inl hb
  | observe c n v =>
    by_cases hn : n ∈ s.res
    · by_cases hany : s.subs.any (fun x => sameReq c n x && x.ver = v) = true
      · simp [L.stages, L.updates, hn, hany, stagesFrom] at hfl; subst hfl; exact Or.inl hb
      · have hany' : s.subs.any (fun x => sameReq c n x && x.ver = v) = false := Bool.eq_false_iff.2 hany
        have hafter : RestoreEq ((removedFiles s c n).obsAdded ⟨s.nextKey, c, n, v⟩) (a.step (.observe c n v)) := by
          have : (s.step (.observe c n v)).files = (removedFiles s c n).obsAdded ⟨s.nextKey, c, n, v⟩ := by
            simp only [L.step, hn, hany', if_true, Bool.false_eq_true, if_false, L.updates, removedFiles,
              List.foldl_append, List.foldl_cons, List.foldl_nil]
            cases s.subs.find? (sameReq c n) <;> rfl
          rw [← this]; exact ha
        simp only [L.stages, L.updates, hn, hany', if_true, Bool.false_eq_true, if_false] at hfl
        cases hf : s.subs.find? (sameReq c n) with
        | none =>
          simp only [hf, List.nil_append, stagesFrom, List.mem_cons, List.not_mem_nil, or_false] at hfl
          rcases hfl with rfl | rfl
          · exact Or.inl hb
          · right; left
            simpa [removedFiles, hf] using hafter
        | some old =>
          simp only [hf, List.cons_append, List.nil_append, stagesFrom, List.mem_cons, List.not_mem_nil,
            or_false] at hfl
          rcases hfl with rfl | rfl | rfl
          · exact Or.inl hb
          · right; right
            refine ⟨c, n, v, rfl, ?_⟩
            have := restore_of_inv (inv_step h (.cancel c n))
            simpa [L.step, L.updates, hf] using this
          · right; left
            simpa [removedFiles, hf] using hafter
    · simp [L.stages, L.updates, hn, stagesFrom] at hfl; subst hfl; exact Or.inl hb

theorem L.stages_restore (h : List HEv) (e : HEv) (fl : Files) (hfl : fl ∈ L.stages (L.run h) e) :
    RestoreEq fl (Abs.run h) ∨ RestoreEq fl (Abs.run (h ++ [e])) ∨
    (∃ c n v, e = .observe c n v ∧ RestoreEq fl ((Abs.run h).step (.cancel c n))) := by
  rw [abs_run_snoc]
  exact stages_of_inv (inv_run h) e fl hfl

/-! ### the endpoint search of `coap_persist_observe_add_lkd` -/

theorem epWalk_some {proto : Nat} {listen : Bytes} {eps : List Ep} {e : Ep} (h : epWalk proto listen eps = some e) :
    e ∈ eps ∧ e.proto = proto ∧ e.addr = listen := by
  induction eps with
  | nil => simp [epWalk] at h
  | cons x r ih =>
    simp only [epWalk] at h
    by_cases hx : x.proto = proto ∧ x.addr = listen
    · simp only [hx, and_self, if_true, Option.some.injEq] at h
      subst h; exact ⟨by simp, hx.1, hx.2⟩
    · simp only [hx, if_false] at h
      have := ih h
      exact ⟨by simp [this.1], this.2⟩

theorem epWalk_none {proto : Nat} {listen : Bytes} {eps : List Ep} :
    epWalk proto listen eps = none ↔ ∀ e ∈ eps, ¬(e.proto = proto ∧ e.addr = listen) := by
  induction eps with
  | nil => simp [epWalk]
  | cons x r ih =>
    simp only [epWalk, List.mem_cons, forall_eq_or_imp]
    by_cases hx : x.proto = proto ∧ x.addr = listen
    · simp [hx]
    · simp only [hx, if_false, not_false_eq_true, true_and]; exact ih

theorem findEp_mem {eps : List Ep} {e : Ep} (he : e ∈ eps) (hp : e.proto = protoUdp) :
    ∃ e', findEp eps e.proto e.addr = some e' ∧ e' ∈ eps ∧ e'.proto = e.proto ∧ e'.addr = e.addr := by
  simp only [findEp, hp, ne_eq, not_true_eq_false, if_false]
  cases hw : epWalk protoUdp e.addr eps with
  | none => exact absurd ⟨hp, rfl⟩ (epWalk_none.1 hw e he)
  | some e' => have := epWalk_some hw; exact ⟨e', rfl, this.1, this.2.1, this.2.2⟩

theorem restoredObsVia_eq (eps : List Ep) (via : Nat → Ep) (hvia : ∀ c, via c ∈ eps ∧ (via c).proto = protoUdp)
    (f : Files) : f.restoredObsVia eps via = f.restoredObs := by
  simp only [Files.restoredObsVia, Files.restoredObs]
  congr 1
  apply List.filter_congr
  intro r _
  rcases findEp_mem (hvia r.client).1 (hvia r.client).2 with ⟨e', h, _⟩
  simp [h]

end Coap.Persist
