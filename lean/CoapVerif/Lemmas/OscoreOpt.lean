import CoapVerif.Lemmas.OscoreNonce
/- Helper lemmas for C14 (M = S): libcoap's `oscore_encode_option_value` / `oscore_decode_option_value` are the §6.1
compression / decompression; the option split of the protect loop and the merge of the decrypt loop
(`coap_insert_option` one option at a time) are the class E / U filter and the ordered merge of S. -/
namespace Coap
open Coap.Spec.Crypto Coap.Spec.Oscore Coap.M.Oscore

/-! ### option value -/

theorem flag_bits : ∀ n, n ≤ 5 → (0 ||| (7 &&& n)) = n ∧ (n ||| 0x10) = n + 16 ∧ (n ||| 0x08) = n + 8 ∧ ((n + 16) ||| 0x08) = n + 16 + 8 := by decide

theorem encodeOptionValue_eq (bufLen : Nat) (piv : Bytes) (kidctx kid : Option Bytes)
    (hp : piv.length ≤ 5) (hc : ∀ c, kidctx = some c → 0 < c.length ∧ c.length ≤ 255)
    (hfit : 1 + piv.length + (match kidctx with | some c => 1 + c.length | none => 0) + (kid.getD []).length ≤ bufLen) :
    encodeOptionValue bufLen piv kidctx kid = R.ok (optEncode ⟨piv, kidctx, kid⟩) := by
  obtain ⟨b1, b2, b3, b4⟩ := flag_bits piv.length hp
  have h1 : ¬ piv.length > 5 := by omega
  have h2 : ¬ bufLen < 1 := by omega
  unfold encodeOptionValue
  simp only [h1, h2, if_false]
  by_cases hp0 : piv.length > 0
  · have hne : piv ≠ [] := by intro e; subst e; simp at hp0
    simp only [hp0, if_true]
    cases kidctx with
    | none =>
      cases kid with
      | none =>
        have h3 : ¬ 1 + piv.length > bufLen := by simp at hfit; omega
        have h4 : ¬ (piv.length = 0 ∧ piv.length = 0) := by omega
        simp [h3, b1, optEncode, hne]
      | some k =>
        have h3 : ¬ 1 + piv.length > bufLen := by simp at hfit; omega
        have h4 : ¬ 1 + piv.length + k.length > bufLen := by simp at hfit; omega
        simp [h3, h4, b1, b3, optEncode]
    | some c =>
      obtain ⟨c0, c1⟩ := hc c rfl
      have cm : c.length % 256 = c.length := by omega
      cases kid with
      | none =>
        have h3 : ¬ 1 + piv.length > bufLen := by simp at hfit; omega
        have h4 : ¬ (c.length > 255 ∨ 1 + piv.length + 1 + c.length > bufLen) := by simp at hfit; omega
        simp [h3, h4, c0, b1, b2, cm, optEncode]
      | some k =>
        have h3 : ¬ 1 + piv.length > bufLen := by simp at hfit; omega
        have h4 : ¬ (c.length > 255 ∨ 1 + piv.length + 1 + c.length > bufLen) := by simp at hfit; omega
        have h5 : ¬ 1 + (piv.length + (c.length + 1)) + k.length > bufLen := by simp at hfit; omega
        simp [h3, h4, h5, c0, b1, b2, b4, cm, optEncode]
  · have he : piv = [] := by cases piv; rfl; simp at hp0
    subst he
    simp only [List.length_nil, Nat.lt_irrefl, if_false, gt_iff_lt]
    cases kidctx with
    | none =>
      cases kid with
      | none => simp [h2, optEncode]
      | some k =>
        have h4 : ¬ 1 + k.length > bufLen := by simp at hfit; omega
        simp [h2, h4, optEncode]
    | some c =>
      obtain ⟨c0, c1⟩ := hc c rfl
      have cm : c.length % 256 = c.length := by omega
      cases kid with
      | none =>
        have h4 : ¬ (c.length > 255 ∨ 1 + 0 + 1 + c.length > bufLen) := by simp at hfit; omega
        simp [h2, h4, c0, cm, optEncode]
      | some k =>
        have h4 : ¬ (c.length > 255 ∨ 1 + 0 + 1 + c.length > bufLen) := by simp at hfit; omega
        have h5 : ¬ 1 + (c.length + 1) + k.length > bufLen := by simp at hfit; omega
        simp [h2, h4, h5, c0, cm, optEncode]

set_option maxRecDepth 8000 in
theorem flag_tests : ∀ f, f < 256 → (f &&& 0x07 = f % 8) ∧ (((f &&& 0xC0) ≠ 0 ∨ (f &&& 0x20) ≠ 0) ↔ f / 32 ≠ 0) ∧
    ((f &&& 0x10) ≠ 0 ↔ f / 16 % 2 = 1) ∧ ((f &&& 0x08) ≠ 0 ↔ f / 8 % 2 = 1) := by decide

theorem decodeOptionValue_eq (v : Bytes) :
    decodeOptionValue v = match optDecode v with | some o => R.ok ⟨o.piv, o.kidctx, o.kid⟩ | none => R.rej := by
  cases v with
  | nil => rfl
  | cons b0 r =>
    have hf : b0.toNat < 256 := UInt8.toNat_lt b0
    obtain ⟨t1, t2, t3, t4⟩ := flag_tests b0.toNat hf
    have hn : b0.toNat % 8 < 8 := by omega
    unfold decodeOptionValue optDecode
    simp only [t1, t3, t4]
    generalize b0.toNat % 8 = n at hn ⊢
    have e1 : (if n ≠ 0 then 1 + n else 1) = n + 1 := by split <;> omega
    have e2 : (if n ≠ 0 then List.take n (List.drop 1 (b0 :: r)) else []) = List.take n r := by
      split
      · simp
      · rename_i h; simp at h; subst h; simp
    simp only [e1, e2]
    simp only [List.length_cons, List.drop_succ_cons, List.getD_cons_succ]
    by_cases c1 : r.length ≥ 255
    · have : r.length + 1 > 255 := by omega
      simp [c1, this]
    · have c1' : ¬ r.length + 1 > 255 := by omega
      by_cases c2 : b0.toNat / 32 ≠ 0
      · have c2' := t2.mpr c2
        rcases c2' with c2' | c2'
        · simp [c1, c2, c2']
        · by_cases c3 : (r.length + 1 > 255 ∨ n = 6 ∨ n = 7 ∨ b0.toNat &&& 192 ≠ 0)
          · simp only [c3, if_true]; simp [c1, c2]
          · rw [if_neg c3, if_pos c2']; simp [c1, c2]
      · have c2' : ¬ (b0.toNat &&& 192 ≠ 0 ∨ b0.toNat &&& 32 ≠ 0) := fun h => c2 (t2.mp h)
        have c2a : ¬ b0.toNat &&& 192 ≠ 0 := fun h => c2' (Or.inl h)
        have c2b : ¬ b0.toNat &&& 32 ≠ 0 := fun h => c2' (Or.inr h)
        by_cases c3 : n > 5
        · have : n = 6 ∨ n = 7 := by omega
          have c3' : (r.length + 1 > 255 ∨ n = 6 ∨ n = 7 ∨ b0.toNat &&& 192 ≠ 0) := by
            rcases this with h | h
            · exact Or.inr (Or.inl h)
            · exact Or.inr (Or.inr (Or.inl h))
          simp only [c3', if_true]; simp [c1, c3]
        · have c3' : ¬ (r.length + 1 > 255 ∨ n = 6 ∨ n = 7 ∨ b0.toNat &&& 192 ≠ 0) := by
            intro h; rcases h with h | h | h | h
            · exact c1' h
            · omega
            · omega
            · exact c2a h
          simp only [c3', c2b, if_false]
          by_cases c4 : n > r.length
          · have : n ≠ 0 ∧ 1 + n > r.length + 1 := by omega
            rw [if_pos this]; simp [c1, c4]
          · have c4' : ¬ (n ≠ 0 ∧ 1 + n > r.length + 1) := by omega
            have c5 : ¬ (b0.toNat / 32 ≠ 0 ∨ n > 5 ∨ n > r.length) := by
              intro h; rcases h with h | h | h
              · exact c2 h
              · exact c3 h
              · exact c4 h
            simp only [c4', c1, c5, if_false]
            by_cases hh : b0.toNat / 16 % 2 = 1
            · simp only [hh, if_true]
              cases hd : List.drop n r with
              | nil =>
                have : r.length ≤ n := by simpa using hd
                have : n + 1 ≥ r.length + 1 := by omega
                simp [this]
              | cons s r2 =>
                have hl : r.length = n + (r2.length + 1) := by
                  have := congrArg List.length hd
                  simp at this; omega
                have hg : r.getD n 0 = s := by
                  rw [List.getD_eq_getElem?_getD, ← List.head?_drop, hd]; rfl
                have hdd : List.drop (n + 1) r = r2 := by
                  rw [← List.drop_drop, hd]; rfl
                have c6 : ¬ n + 1 ≥ r.length + 1 := by omega
                simp only [c6, if_false, hg]
                by_cases c7 : s.toNat > r2.length
                · have : n + 1 + 1 + s.toNat > r.length + 1 := by omega
                  simp [this, c7]
                · have c7' : ¬ n + 1 + 1 + s.toNat > r.length + 1 := by omega
                  have hd3 : List.drop (n + 1 + 1 + s.toNat) (b0 :: r) = List.drop s.toNat r2 := by
                    rw [show n + 1 + 1 + s.toNat = ((n + 1) + s.toNat) + 1 by omega, List.drop_succ_cons,
                      ← List.drop_drop, hdd]
                  simp only [c7, c7', if_false, hdd, hd3]
            · simp only [hh, if_false]

/-! ### option split (protect) -/

theorem insertOpt_append (l : List Opt) (o : Opt) (h : ∀ x ∈ l, x.1 ≤ o.1) : insertOpt l o = l ++ [o] := by
  induction l with
  | nil => rfl
  | cons x r ih =>
    have hx : ¬ x.1 > o.1 := by have := h x (by simp); omega
    simp only [insertOpt, hx, if_false, List.cons_append, ih (fun y hy => h y (by simp [hy]))]

theorem innerOpts_num_le (req : Bool) (pre : List Opt) (k : Nat) (h : ∀ x ∈ pre, x.1 ≤ k) : ∀ x ∈ innerOpts req pre, x.1 ≤ k := by
  intro x hx
  unfold innerOpts at hx
  rw [List.mem_map] at hx
  obtain ⟨y, hy, rfl⟩ := hx
  have := h y (List.mem_filter.mp hy).1
  split <;> simpa using this

theorem outerOpts_num_le (pre : List Opt) (k : Nat) (h : ∀ x ∈ pre, x.1 ≤ k) : ∀ x ∈ outerOpts pre, x.1 ≤ k := by
  intro x hx
  exact h x (List.mem_filter.mp hx).1

theorem outerOpts_append (a b : List Opt) : outerOpts (a ++ b) = outerOpts a ++ outerOpts b := by
  simp [outerOpts]

theorem innerOpts_append (req : Bool) (a b : List Opt) : innerOpts req (a ++ b) = innerOpts req a ++ innerOpts req b := by
  simp [innerOpts]

theorem protectSplit_aux (req : Bool) : ∀ (rest pre : List Opt), (pre ++ rest).Pairwise (fun a b => a.1 ≤ b.1) →
    (∀ o ∈ rest, o.1 ≠ 9 ∧ o.1 ≠ 35) →
    rest.foldl (fun (acc : List (Nat × Bytes) × List (Nat × Bytes)) o =>
      match protectClass o.1 with
      | 0 => (insertOpt acc.1 o, acc.2)
      | 1 => (insertOpt acc.1 o, insertOpt acc.2 (if req then o else (o.1, [])))
      | 2 => acc
      | _ => (acc.1, insertOpt acc.2 o)) (outerOpts pre, innerOpts req pre) =
    (outerOpts (pre ++ rest), innerOpts req (pre ++ rest)) := by
  intro rest
  induction rest with
  | nil => intro pre _ _; simp
  | cons o rest ih =>
    intro pre hs hno
    have hle : ∀ x ∈ pre, x.1 ≤ o.1 := by
      intro x hx
      rw [List.pairwise_append] at hs
      exact hs.2.2 x hx o (by simp)
    obtain ⟨h9, h35⟩ := hno o (by simp)
    have hs' : ((pre ++ [o]) ++ rest).Pairwise (fun a b => a.1 ≤ b.1) := by simpa using hs
    have ih' := ih (pre ++ [o]) hs' (fun x hx => hno x (by simp [hx]))
    rw [List.foldl_cons]
    have e : pre ++ o :: rest = (pre ++ [o]) ++ rest := by simp
    rw [e, ← ih']
    congr 1
    rw [outerOpts_append, innerOpts_append]
    have io := insertOpt_append (outerOpts pre) o (outerOpts_num_le pre o.1 hle)
    by_cases c0 : o.1 = 3 ∨ o.1 = 7 ∨ o.1 = 39 ∨ o.1 = 16
    · have hu : classUOnly o.1 = true := by simp [classUOnly]; omega
      have hc : protectClass o.1 = 0 := by simp only [protectClass, c0, if_true]
      simp only [hc, io]
      simp [outerOpts, innerOpts, optObserve, optOscore, hu, h9]
    · by_cases c1 : o.1 = 6
      · have hu : classUOnly o.1 = false := by simp [classUOnly]; omega
        have ii := insertOpt_append (innerOpts req pre) (if req then o else (o.1, [])) (by
          have := innerOpts_num_le req pre o.1 hle
          split <;> simpa using this)
        have hc : protectClass o.1 = 1 := by simp [protectClass, c1]
        simp only [hc, io, ii]
        have hu6 : classUOnly 6 = false := by decide
        cases req <;> simp [outerOpts, innerOpts, optObserve, optOscore, hu6, c1]
      · have hu : classUOnly o.1 = false := by simp [classUOnly]; omega
        have ii := insertOpt_append (innerOpts req pre) o (innerOpts_num_le req pre o.1 hle)
        have hc : protectClass o.1 = 3 := by simp only [protectClass, c0, c1, h35, if_false]
        simp only [hc, ii]
        simp [outerOpts, innerOpts, optObserve, optOscore, hu, c1]

theorem protectSplit_eq (req : Bool) (os : List Opt) (hs : os.Pairwise (fun a b => a.1 ≤ b.1))
    (hno : ∀ o ∈ os, o.1 ≠ 9 ∧ o.1 ≠ 35) : protectSplit req os = (outerOpts os, innerOpts req os) := by
  have := protectSplit_aux req os [] (by simpa using hs) hno
  simp only [List.nil_append] at this
  exact this

/-! ### option merge (decrypt) -/

theorem merge_insertOpt : ∀ (acc rest : List Opt) (o : Opt), (∀ r ∈ rest, o.1 ≤ r.1) →
    List.merge (insertOpt acc o) rest (fun a b => decide (a.1 ≤ b.1)) = List.merge acc (o :: rest) (fun a b => decide (a.1 ≤ b.1)) := by
  intro acc
  induction acc with
  | nil =>
    intro rest o h
    cases rest with
    | nil => simp [insertOpt]
    | cons r rest' =>
      have := h r (by simp)
      simp [insertOpt, this]
  | cons x acc ih =>
    intro rest o h
    by_cases hx : x.1 > o.1
    · have hx' : ¬ x.1 ≤ o.1 := by omega
      simp only [insertOpt, hx, if_true]
      cases rest with
      | nil => simp [hx']
      | cons r rest' =>
        have := h r (by simp)
        simp only [List.cons_merge_cons, this, hx', decide_true, decide_false, if_true, if_false, Bool.false_eq_true]
    · have hx' : x.1 ≤ o.1 := by omega
      simp only [insertOpt, hx, if_false]
      cases rest with
      | nil =>
        have := ih [] o (by simp)
        rw [List.cons_merge_cons]
        simp only [hx', decide_true, if_true]
        rw [← this]; simp
      | cons r rest' =>
        have hr := h r (by simp)
        have hxr : x.1 ≤ r.1 := by omega
        rw [List.cons_merge_cons, List.cons_merge_cons]
        simp only [hxr, hx', decide_true, if_true]
        rw [ih (r :: rest') o h]

theorem foldl_insertOpt_merge : ∀ (inner acc : List Opt), inner.Pairwise (fun a b => a.1 ≤ b.1) →
    inner.foldl insertOpt acc = List.merge acc inner (fun a b => decide (a.1 ≤ b.1)) := by
  intro inner
  induction inner with
  | nil => intro acc _; simp
  | cons o rest ih =>
    intro acc hs
    rw [List.pairwise_cons] at hs
    rw [List.foldl_cons, ih _ hs.2, merge_insertOpt acc rest o hs.1]

/-- what the recipient does with the inner options: OSCORE dropped, Observe of a response replaced -/
def innerSeen (req : Bool) (pivObs : Bytes) (inner : List Opt) : List Opt :=
  (inner.filter fun o => o.1 ≠ 9).map fun o => if o.1 = 6 ∧ ¬ req then (6, last3 pivObs) else o

theorem decryptMerge_fold (req : Bool) (pivObs : Bytes) : ∀ (inner acc : List Opt),
    inner.foldl (fun acc o =>
      if o.1 = 9 then acc
      else if o.1 = 6 ∧ ¬ req then insertOpt acc (6, pivObs.drop (pivObs.length - 3))
      else insertOpt acc o) acc = (innerSeen req pivObs inner).foldl insertOpt acc := by
  intro inner
  induction inner with
  | nil => intro acc; rfl
  | cons o rest ih =>
    intro acc
    rw [List.foldl_cons, ih]
    by_cases h9 : o.1 = 9
    · simp [innerSeen, h9]
    · by_cases h6 : o.1 = 6
      · cases req <;> simp [innerSeen, h6, last3]
      · simp [innerSeen, h9, h6]

theorem innerSeen_sorted (req : Bool) (pivObs : Bytes) (inner : List Opt) (hs : inner.Pairwise (fun a b => a.1 ≤ b.1)) :
    (innerSeen req pivObs inner).Pairwise (fun a b => a.1 ≤ b.1) := by
  unfold innerSeen
  rw [List.pairwise_map]
  refine List.Pairwise.imp ?_ (List.Pairwise.filter _ hs)
  intro a b hab
  have hf : ∀ c : Opt, (if c.1 = 6 ∧ ¬ req then ((6, last3 pivObs) : Opt) else c).1 = c.1 := by
    intro c; split
    · rename_i h; exact h.1.symm
    · rfl
  rw [hf a, hf b]; exact hab

theorem decryptSkips_eq (n : Nat) : (!decryptSkips n) = (!classE n && decide (n ≠ optOscore)) := by
  simp only [decryptSkips, classE, optOscore]
  by_cases h9 : n = 9 <;> by_cases h19 : n = 19 <;> by_cases h31 : n = 31 <;> simp [h9, h19, h31, Bool.not_or]

theorem decryptMerge_eq (req : Bool) (pivObs : Bytes) (outer inner : List Opt) (hs : inner.Pairwise (fun a b => a.1 ≤ b.1)) :
    decryptMerge req pivObs outer inner = mergeOpts outer (innerSeen req pivObs inner) := by
  unfold decryptMerge mergeOpts
  rw [decryptMerge_fold, foldl_insertOpt_merge _ _ (innerSeen_sorted req pivObs inner hs)]
  congr 1
  apply List.filter_congr
  intro o _
  exact decryptSkips_eq o.1

end Coap
