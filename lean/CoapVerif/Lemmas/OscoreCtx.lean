import CoapVerif.Spec.OscoreCtx
import CoapVerif.Model.OscoreCtx
/- Helper definitions and lemmas for the context-lookup theorems of C14 (Props/C14.lean): libcoap's
`oscore_find_context` (Model/OscoreCtx.lean) against "the context the request names" (Spec/OscoreCtx.lean). -/
namespace Coap
open Coap.Spec.Oscore

/-! ### membership in `positions` -/

theorem mem_rcpPositions (i : Nat) (idctx : Option Bytes) (rcps : List Bytes) (k : Nat) (p : Pos) :
    p ∈ rcpPositions i idctx rcps k ↔ p.i = i ∧ p.idctx = idctx ∧ k ≤ p.j ∧ rcps[p.j - k]? = some p.rid := by
  induction rcps generalizing k with
  | nil => simp [rcpPositions]
  | cons r rest ih =>
    simp only [rcpPositions, List.mem_cons, ih]
    constructor
    · rintro (h | ⟨h1, h2, h3, h4⟩)
      · subst h; simp
      · refine ⟨h1, h2, by omega, ?_⟩
        have : p.j - k = (p.j - (k + 1)) + 1 := by omega
        rw [this]; simpa using h4
    · rintro ⟨h1, h2, h3, h4⟩
      by_cases hj : p.j = k
      · left
        have h0 : p.j - k = 0 := by omega
        rw [h0] at h4
        simp only [List.getElem?_cons_zero, Option.some.injEq] at h4
        cases p; simp_all
      · right
        refine ⟨h1, h2, by omega, ?_⟩
        have : p.j - k = (p.j - (k + 1)) + 1 := by omega
        rw [this] at h4; simpa using h4

theorem mem_positionsFrom (cs : M.Oscore.CtxStore) (k : Nat) (p : Pos) :
    p ∈ positionsFrom cs k ↔
      ∃ c, k ≤ p.i ∧ cs[p.i - k]? = some c ∧ p.idctx = c.idctx ∧ c.rcps[p.j]? = some p.rid := by
  induction cs generalizing k with
  | nil => simp [positionsFrom]
  | cons c rest ih =>
    simp only [positionsFrom, List.mem_append, mem_rcpPositions, ih]
    constructor
    · rintro (⟨h1, h2, _, h4⟩ | ⟨c', h1, h2, h3, h4⟩)
      · exact ⟨c, by omega, by simp [h1], h2, by simpa using h4⟩
      · refine ⟨c', by omega, ?_, h3, h4⟩
        have : p.i - k = (p.i - (k + 1)) + 1 := by omega
        rw [this]; simpa using h2
    · rintro ⟨c', h1, h2, h3, h4⟩
      by_cases hi : p.i = k
      · left
        have h0 : p.i - k = 0 := by omega
        rw [h0] at h2
        simp only [List.getElem?_cons_zero, Option.some.injEq] at h2
        subst h2
        exact ⟨hi, h3, Nat.zero_le _, by simpa using h4⟩
      · right
        refine ⟨c', by omega, ?_, h3, h4⟩
        have : p.i - k = (p.i - (k + 1)) + 1 := by omega
        rw [this] at h2; simpa using h2

/-- `positions` lists exactly the (context, recipient) pairs of the store -/
theorem mem_positions (cs : M.Oscore.CtxStore) (p : Pos) :
    p ∈ positions cs ↔ ∃ c, cs[p.i]? = some c ∧ p.idctx = c.idctx ∧ c.rcps[p.j]? = some p.rid := by
  unfold positions
  rw [mem_positionsFrom]
  simp

/-! ### the test `oscore_find_context` applies to one recipient -/

/-- with `ctxkey_id` given and no `oscore_r2`: lengths equal and `ok == 0` iff the Recipient ID is the kid and the
ID Context (NULL = empty) is the kid context -/
theorem mismatch_zero_iff (kid rid : Bytes) (idctx : Option Bytes) (kc : Bytes) :
    (kid.length = rid.length ∧ M.Oscore.mismatch kid rid idctx (some kc) none = 0) ↔
      (rid = kid ∧ idctx.getD [] = kc) := by
  unfold M.Oscore.mismatch M.Oscore.b2n
  by_cases hr : rid = kid
  · subst hr
    cases idctx with
    | none =>
      cases kc with
      | nil => simp
      | cons a b => simp
    | some c =>
      by_cases hc : c = kc
      · subst hc; simp
      · by_cases hl : kc.length = c.length
        · simp [hl, hc]
        · simp [hl, hc]
  · have hr' : ¬ kid = rid := fun h => hr h.symm
    by_cases hk : kid.length = 0
    · have hk0 : kid = [] := List.length_eq_zero_iff.mp hk
      subst hk0
      constructor
      · rintro ⟨hl, _⟩
        have : rid = [] := List.length_eq_zero_iff.mp hl.symm
        exact absurd this hr
      · rintro ⟨h, _⟩; exact absurd h hr
    · constructor
      · rintro ⟨_, h⟩
        exfalso
        simp only [hk, hr, ne_eq, not_false_eq_true, decide_true, if_true] at h
        cases idctx with
        | none => by_cases h0 : kc.length > 0 <;> simp [h0] at h
        | some c => by_cases hl : kc.length = c.length <;> simp [hl] at h <;> omega
      · rintro ⟨h, _⟩; exact absurd h hr

/-- without `ctxkey_id` (the Appendix B.2 call) only the Recipient ID counts -/
theorem mismatch_zero_iff_nokc (kid rid : Bytes) (idctx : Option Bytes) :
    (kid.length = rid.length ∧ M.Oscore.mismatch kid rid idctx none none = 0) ↔ rid = kid := by
  unfold M.Oscore.mismatch M.Oscore.b2n
  by_cases hr : rid = kid
  · subst hr; simp
  · by_cases hk : kid.length = 0
    · have hk0 : kid = [] := List.length_eq_zero_iff.mp hk
      subst hk0
      constructor
      · rintro ⟨hl, _⟩
        exact List.length_eq_zero_iff.mp hl.symm
      · intro h; exact absurd h hr
    · simp [hk, hr]

/-! ### the two loops are a `find?` over `positions` -/

theorem findRcp_eq (kid : Bytes) (idctx ctxkey : Option Bytes) (P : Pos → Bool) (i : Nat)
    (hP : ∀ rid j, (kid.length = rid.length ∧ M.Oscore.mismatch kid rid idctx ctxkey none = 0) ↔ P ⟨i, j, rid, idctx⟩ = true)
    (rcps : List Bytes) (k : Nat) :
    M.Oscore.findRcp kid idctx ctxkey none rcps k = ((rcpPositions i idctx rcps k).find? P).map (·.j) := by
  induction rcps generalizing k with
  | nil => simp [M.Oscore.findRcp, rcpPositions]
  | cons r rest ih =>
    simp only [M.Oscore.findRcp, rcpPositions, List.find?_cons]
    by_cases h : P ⟨i, k, r, idctx⟩ = true
    · have := (hP r k).mpr h
      simp [this, h]
    · have h' : ¬ (kid.length = r.length ∧ M.Oscore.mismatch kid r idctx ctxkey none = 0) := fun x => h ((hP r k).mp x)
      have hf : P ⟨i, k, r, idctx⟩ = false := by simpa using h
      rw [if_neg h', hf]
      exact ih (k + 1)

theorem rcpPositions_i (i : Nat) (idctx : Option Bytes) (rcps : List Bytes) (k : Nat) :
    ∀ p ∈ rcpPositions i idctx rcps k, p.i = i := by
  intro p hp
  exact ((mem_rcpPositions i idctx rcps k p).mp hp).1

theorem findFrom_eq (kid : Bytes) (ctxkey : Option Bytes) (P : Pos → Bool)
    (hP : ∀ p : Pos, (kid.length = p.rid.length ∧ M.Oscore.mismatch kid p.rid p.idctx ctxkey none = 0) ↔ P p = true)
    (cs : M.Oscore.CtxStore) (k : Nat) :
    M.Oscore.findFrom kid ctxkey none cs k = ((positionsFrom cs k).find? P).map fun p => (p.i, p.j) := by
  induction cs generalizing k with
  | nil => simp [M.Oscore.findFrom, positionsFrom]
  | cons c rest ih =>
    simp only [M.Oscore.findFrom, positionsFrom, List.find?_append]
    rw [findRcp_eq kid c.idctx ctxkey P k (fun rid j => hP ⟨k, j, rid, c.idctx⟩) c.rcps 0]
    cases h : (rcpPositions k c.idctx c.rcps 0).find? P with
    | none => simp [ih (k + 1)]
    | some p =>
      have := rcpPositions_i k c.idctx c.rcps 0 p (List.mem_of_find?_eq_some h)
      simp [this]

/-! ### uniqueness of the first match on an unambiguous list -/

theorem find?_of_pairwise {α : Type} (P : α → Bool) (R : α → α → Prop) (l : List α) (a : α)
    (hpw : l.Pairwise R) (ha : a ∈ l) (hPa : P a = true)
    (hex : ∀ x y, P x = true → P y = true → R x y → False) :
    l.find? P = some a := by
  induction l with
  | nil => simp at ha
  | cons x xs ih =>
    rw [List.pairwise_cons] at hpw
    rw [List.find?_cons]
    rcases List.mem_cons.mp ha with h | h
    · subst h; simp [hPa]
    · cases hx : P x with
      | true => exact absurd (hpw.1 a h) (fun r => hex x a hx hPa r)
      | false => exact ih hpw.2 h

/-! ### S: the context a request names -/

theorem selectCtx_some (cs : List Ctx) (v : OptVal) (c : Ctx) (h : selectCtx cs v = some c) :
    c ∈ cs ∧ names v c = true :=
  ⟨List.mem_of_find?_eq_some h, List.find?_some h⟩

theorem selectCtx_of_unambiguous (cs : List Ctx) (v : OptVal) (c : Ctx) (hu : Unambiguous cs) (hc : c ∈ cs)
    (hn : names v c = true) : selectCtx cs v = some c := by
  unfold selectCtx
  refine find?_of_pairwise (names v) _ cs c hu hc hn ?_
  intro x y hx hy hr
  apply hr
  simp only [names, namesId, Bool.and_eq_true, decide_eq_true_eq] at hx hy
  refine ⟨?_, hx.2.symm.trans hy.2⟩
  have := hx.1.symm.trans hy.1
  simpa using this

/-- a request that context `c` accepts names `c` -/
theorem unprotectRequest_ok_names (cipher : Bytes → Bytes → Bytes) (c : Ctx) (m x : Msg) (b : Binding)
    (h : unprotectRequest cipher c m = .ok x b) :
    ∃ ov v, oscoreValue m.opts = some ov ∧ m.payload ≠ [] ∧ optDecode ov = some v ∧ names v c = true := by
  unfold unprotectRequest at h
  cases hov : oscoreValue m.opts with
  | none => simp [hov] at h
  | some ov =>
    simp only [hov] at h
    by_cases hp : m.payload = []
    · simp [hp] at h
    · simp only [hp, if_false] at h
      cases hd : optDecode ov with
      | none => simp [hd] at h
      | some v =>
        simp only [hd] at h
        by_cases hn : v.kid ≠ some c.rid ∨ v.kidctx.getD [] ≠ c.idctx.getD []
        · simp [hn] at h
        · refine ⟨ov, v, rfl, hp, hd, ?_⟩
          simp only [names, namesId, Bool.and_eq_true, decide_eq_true_eq]
          constructor
          · apply Classical.byContradiction; intro h1; exact hn (Or.inl h1)
          · apply Classical.byContradiction; intro h1; exact hn (Or.inr h1)

end Coap
