import CoapVerif.Lemmas.SchedInv
/-
Helper definitions and lemmas for C06, part 4: conservation proved DIRECTLY on the code model M for the whole C06
alphabet including the NSTART gate: for every (session, mid)
  accepted `coap_send`s = outcome NACKs + silent completions by ACK + nodes in the send queue + nodes in the delay queue
and a message that is neither queued nor delayed is never transmitted again.  Core Lean only.
-/
namespace Coap.Sched
open Coap Coap.SQ Coap.Msg Coap.Timer Coap.Sim

/-- number of nodes with message id `mid` in a delay queue -/
def midC (mid : Nat) : List Node → Nat
  | [] => 0
  | n :: r => (if n.mid = mid then 1 else 0) + midC mid r

/-- outcome NACKs + nodes in the send queue + nodes in the delay queue, of (s, mid) -/
def Phi (s mid : Nat) (l : L) : Nat :=
  nackC s mid l.out + pendC s mid l.q.nodes + midC mid (l.getS s).delayq

/-- 1 if the event is a `coap_send` of (s, mid) that is accepted (it is refused only when the same message id is
already waiting in the session's delay queue) -/
def accW (s mid : Nat) (l : L) : Ev → Nat
  | .submit s' true m' _ =>
    if (s' = s ∧ m' = mid) ∧ ¬ (gate (l.getS s') true = true ∧ (l.getS s').delayq.any (fun x => x.mid = m') = true)
    then 1 else 0
  | _ => 0

/-- number of accepted `coap_send`s of (s, mid) along the run -/
def accC (s mid : Nat) : L → List Ev → Nat
  | _, [] => 0
  | l, ev :: evs => accW s mid l ev + accC s mid (Msg.step l ev) evs

/-- number of nodes of (s, mid) that `coap_cancel_all_messages(session s', token)` removes (mirrors `cancelToken`) -/
def cancelCount (s mid : Nat) : Nat → L → Nat → Nat → Nat
  | 0, _, _, _ => 0
  | fuel + 1, l, s', tok =>
    match removeTok l.q.nodes s' tok with
    | (none, _) => 0
    | (some n, rest) =>
      (if n.sess = s ∧ n.mid = mid then 1 else 0) +
        cancelCount s mid fuel
          (if n.con then release { l with q := { l.q with nodes := rest } } s'
           else { l with q := { l.q with nodes := rest } }) s' tok

/-- number of nodes of (s, mid) the event takes out of the send queue WITHOUT an outcome NACK (TOO_MANY_RETRIES / RST):
an ACK that finds the message (the silent completion), an invalid-code ACK that finds it (reported as NACK "bad
response"), a response carrying its token (`coap_cancel_all_messages`) -/
def remW (s mid : Nat) (l : L) : Ev → Nat
  | .rxAck s' m' => if (s' = s ∧ m' = mid) ∧ (removeNode l.q.nodes s' m').1 ≠ none then 1 else 0
  | .rxBad s' m' => if (s' = s ∧ m' = mid) ∧ (removeNode l.q.nodes s' m').1 ≠ none then 1 else 0
  | .rxNon s' _ tok => if (l.getS s').sockOpen then cancelCount s mid (l.q.nodes.length + 1) l s' tok else 0
  | _ => 0

/-- `remW` along the run -/
def remC (s mid : Nat) : L → List Ev → Nat
  | _, [] => 0
  | l, ev :: evs => remW s mid l ev + remC s mid (Msg.step l ev) evs

theorem midC_append (mid : Nat) (a b : List Node) : midC mid (a ++ b) = midC mid a + midC mid b := by
  induction a with
  | nil => simp [midC]
  | cons x a ih => simp only [List.cons_append, midC, ih]; omega

theorem pendC_enqueue (s mid : Nat) (q : Queue) (now d : Nat) (n : Node) (h : q.nodes = [] ∨ q.base ≤ now) :
    pendC s mid (enqueue q now d n).nodes = pendC s mid q.nodes + (if n.sess = s ∧ n.mid = mid then 1 else 0) := by
  rw [← pc_absP s mid (fun _ => 0) (enqueue q now d n).base, absP_enqueue _ _ _ _ _ h, pc_pinsert, pc_absP]
  exact Nat.add_comm _ _

theorem pendC_popNext (s mid : Nat) (l : List Node) (n : Node) (rest : List Node) (h : popNext l = some (n, rest)) :
    pendC s mid l = pendC s mid rest + (if n.sess = s ∧ n.mid = mid then 1 else 0) := by
  rw [← pc_absP s mid (fun _ => 0) 0 l, absP_popNext _ _ _ _ _ h]
  simp only [pc, pc_absP]
  exact Nat.add_comm _ _

theorem pendC_removeNode (s mid : Nat) (l : List Node) (s' m' : Nat) :
    pendC s mid l = pendC s mid (removeNode l s' m').2 +
      (if (s' = s ∧ m' = mid) ∧ (removeNode l s' m').1 ≠ none then 1 else 0) := by
  have h1 := absP_removeNode (fun _ => 0) 0 l s' m'
  have h2 := pc_premove s mid s' m' (absP (fun _ => 0) 0 l)
  rw [pc_absP, ← h1.1, pc_absP, ← h1.2] at h2
  rw [h2]
  cases hr : (removeNode l s' m').1 with
  | none => simp
  | some x => by_cases hk : s' = s ∧ m' = mid <;> simp [hk]

theorem getS_default {l : L} {s : Nat} (h : ¬ s < l.sess.length) : l.getS s = {} := by
  simp [L.getS, List.getD_eq_getElem?_getD, Nat.le_of_not_lt h]

theorem getS_setS_in {l : L} {s : Nat} (se : Sess) (h : s < l.sess.length) : (l.setS s se).getS s = se := by
  simp [L.getS, L.setS, List.getD_eq_getElem?_getD, h]

theorem getS_setS_ne {l : L} {s s' : Nat} (se : Sess) (h : s ≠ s') : (l.setS s se).getS s' = l.getS s' := by
  simp [L.getS, L.setS, List.getD_eq_getElem?_getD, h]

/-- a `setS` that keeps the delay queue keeps every delay queue -/
theorem delayq_setS_keep (l : L) (s s' : Nat) (se : Sess) (h : se.delayq = (l.getS s).delayq) :
    ((l.setS s se).getS s').delayq = (l.getS s').delayq := by
  rcases getS_setS l s s' se with ⟨h1, rfl⟩ | h1
  · rw [h1, h]
  · rw [h1]

theorem nackC_cons_other (s mid : Nat) (o : Out) (out : List Out) (h : obsM o = none ∨ ∃ t s' m' k c, o = .tx t s' m' k c) :
    nackC s mid (o :: out) = nackC s mid out := by
  simp only [nackC, nackW]
  rcases h with h | ⟨t, s', m', k, c, rfl⟩
  · rw [h]; simp
  · simp [obsM]

/-- nodes of (s, mid) in the send queue + in the delay queue -/
def Psi (s mid : Nat) (l : L) : Nat := pendC s mid l.q.nodes + midC mid (l.getS s).delayq

theorem phi_eq (s mid : Nat) (l : L) : Phi s mid l = nackC s mid l.out + Psi s mid l := by
  simp only [Phi, Psi]; omega

theorem txC_cons_other (s mid : Nat) (o : Out) (out : List Out) (h : ∀ t s' m' k, o ≠ .tx t s' m' k true) :
    txC s mid (o :: out) = txC s mid out := by
  cases o with
  | tx t s' m' k c =>
    cases c with
    | true => exact absurd rfl (h t s' m' k)
    | false => simp [txC]
  | _ => simp [txC]

/-- what a function of the model does to the counters of (s, mid): outcome NACKs + queued + delayed is conserved,
queued + delayed does not grow, and while it is 0 nothing of (s, mid) is transmitted -/
structure Keeps (s mid : Nat) (l l' : L) : Prop where
  phi : Phi s mid l' = Phi s mid l
  psi : Psi s mid l' ≤ Psi s mid l
  tx : Psi s mid l = 0 → txC s mid l'.out = txC s mid l.out

theorem Keeps.refl (s mid : Nat) (l : L) : Keeps s mid l l := ⟨rfl, Nat.le_refl _, fun _ => rfl⟩

theorem Keeps.trans {s mid : Nat} {l l' l'' : L} (h1 : Keeps s mid l l') (h2 : Keeps s mid l' l'') :
    Keeps s mid l l'' :=
  ⟨h2.phi.trans h1.phi, Nat.le_trans h2.psi h1.psi, fun h0 => by
    rw [h2.tx (by have := h1.psi; omega), h1.tx h0]⟩

theorem drain_succ {pu : Prop} {par : Nat → Sess} {P : Nat → Nat → Nat → Prop} (hp : GPar par) (f : Nat) (l : L) (s : Nat)
    (ca : Nat) (n : Node) (rest : List Node)
    (hg : l.getS s = { par s with conActive := ca, delayq := n :: rest }) (hgate : ¬ ca ≥ (par s).nstart)
    (hn : DNodeOk par P s n) (_hi : FInv pu par P l) :
    drain (f + 1) l s = drain f
      { ((l.setS s { par s with conActive := (ca + 1) % 256, delayq := rest }).emit (.tx l.now s n.mid 0 true)) with
        q := enqueue l.q l.now n.timeout { n with sess := s } } s := by
  obtain ⟨hcon, htok, hT, hT32, hcnt, h64, hP⟩ := hn
  have hest := (hp s).1
  simp [drain, hg, hest, hcon, hgate, waitAck, hcnt, Nat.mod_eq_of_lt hT32, L.emit, L.setS]

theorem futF (l : L) : Fut False l := fun h => h.elim

theorem delayq_in_range {l : L} {s : Nat} {n : Node} {rest : List Node} (h : (l.getS s).delayq = n :: rest) :
    s < l.sess.length := by
  apply Classical.byContradiction
  intro hn
  rw [getS_default hn] at h
  cases h

theorem drain_keeps {par : Nat → Sess} {P : Nat → Nat → Nat → Prop} (hp : GPar par) (s mid : Nat) :
    ∀ (fuel : Nat) (l : L) (s' : Nat), FInv False par P l → Keeps s mid l (drain fuel l s') := by
  intro fuel
  induction fuel with
  | zero => intro l s' _; exact Keeps.refl _ _ _
  | succ f ih =>
    intro l s' hi
    obtain ⟨ca, dq, hg, hle, hdq⟩ := hi.sess s'
    obtain ⟨hest, hopen, hns, h256⟩ := hp s'
    cases dq with
    | nil =>
      have : drain (f + 1) l s' = l := by simp [drain, hg]
      rw [this]; exact Keeps.refl _ _ _
    | cons n rest =>
      obtain ⟨hcon, htok, hT, hT32, hcnt, h64, hP⟩ := hdq n (by simp)
      by_cases hgate : ca ≥ (par s').nstart
      · have : drain (f + 1) l s' = l := by simp [drain, hg, hest, hcon, hgate]
        rw [this]; exact Keeps.refl _ _ _
      · rw [drain_succ hp f l s' ca n rest hg hgate (hdq n (by simp)) hi]
        have hi2 : FInv False par P ((l.setS s' { par s' with conActive := (ca + 1) % 256, delayq := rest }).emit
            (.tx l.now s' n.mid 0 true)) := by
          refine ⟨hi.base, gsess_congr rfl (gsess_setS hi.sess s' _ rest ?_ (fun x hx => hdq x (by simp [hx]))),
            hi.nodes, fun p hp' => pendOk_mono _ (hi.pend p hp'), ?_⟩
          · have : (ca + 1) % 256 ≤ ca + 1 := Nat.mod_le _ _
            omega
          · exact outOk_cons_tx _ _ _ _ hi.outs (fun h => h.elim)
        have hn' : NodeOk par P { n with sess := s' } := ⟨hcon, htok, hT, by simp [hcnt], h64, hP⟩
        have hi3 := (finv_enq_fresh _ { n with sess := s' } hi2 (futF _) hn' hcnt (by simp [L.emit])).1
        refine Keeps.trans ?_ (ih _ s' hi3)
        -- one round of the loop
        have hdl : (l.getS s').delayq = n :: rest := by rw [hg]
        have hin := delayq_in_range hdl
        have hpq := pendC_enqueue s mid l.q l.now n.timeout { n with sess := s' } (Or.inr hi.base)
        have hd : midC mid ((l.setS s' { par s' with conActive := (ca + 1) % 256, delayq := rest }).getS s).delayq +
            (if s' = s ∧ n.mid = mid then 1 else 0) = midC mid (l.getS s).delayq := by
          by_cases hss : s' = s
          · subst hss
            rw [getS_setS_in _ hin, hdl]
            simp only [midC, true_and]
            omega
          · rw [getS_setS_ne _ hss]
            simp [hss]
        refine ⟨?_, ?_, ?_⟩
        · simp only [Phi]
          show nackC s mid (_ :: l.out) + pendC s mid (enqueue l.q l.now n.timeout _).nodes + midC mid (L.getS (l.setS s' _) s).delayq = _
          rw [nackC_cons_other _ _ _ _ (Or.inr ⟨_, _, _, _, _, rfl⟩), hpq]
          simp only [] at hd ⊢
          omega
        · simp only [Psi]
          show pendC s mid (enqueue l.q l.now n.timeout _).nodes + midC mid (L.getS (l.setS s' _) s).delayq ≤ _
          rw [hpq]
          simp only [] at hd ⊢
          omega
        · intro h0
          simp only [Psi] at h0
          have hne : ¬ (s' = s ∧ n.mid = mid) := by
            intro hk
            simp only [hk, and_self, if_true] at hd
            omega
          show txC s mid (_ :: l.out) = _
          simp [txC, hne]

theorem keeps_setS_keep (s mid : Nat) (l : L) (s' : Nat) (se : Sess) (h : se.delayq = (l.getS s').delayq) :
    Keeps s mid l (l.setS s' se) := by
  have hd := delayq_setS_keep l s' s se h
  refine ⟨?_, ?_, fun _ => rfl⟩
  · simp only [Phi]; rw [hd]; rfl
  · simp only [Psi]; rw [hd]; exact Nat.le_refl _

theorem keeps_emit_other (s mid : Nat) (l : L) (o : Out) (h1 : nackW s mid o = 0)
    (h2 : ∀ t s' m' k, o ≠ .tx t s' m' k true) : Keeps s mid l (l.emit o) := by
  refine ⟨?_, Nat.le_refl _, fun _ => txC_cons_other s mid o l.out h2⟩
  simp only [Phi]
  show nackC s mid (o :: l.out) + _ + _ = _
  simp only [nackC, h1, Nat.zero_add]
  rfl

theorem connected_keeps {par : Nat → Sess} {P : Nat → Nat → Nat → Prop} (hp : GPar par) (s mid : Nat) (l : L)
    (s' : Nat) (hi : FInv False par P l) : Keeps s mid l (connected l s') := by
  obtain ⟨ca, dq, hg, hle, hdq⟩ := hi.sess s'
  have e : ({ (l.getS s') with est := true } : Sess) = { par s' with conActive := ca, delayq := dq } := by
    rw [hg]
    have := (hp s').1
    cases hps : par s'
    rw [hps] at this
    simp_all
  unfold connected
  simp only []
  have hk : Keeps s mid l (l.setS s' { (l.getS s') with est := true }) := keeps_setS_keep s mid l s' _ rfl
  refine Keeps.trans hk ?_
  rw [e]
  exact drain_keeps hp s mid _ _ s' ⟨hi.base, gsess_setS hi.sess s' ca dq hle hdq, hi.nodes, hi.pend, hi.outs⟩

theorem release_keeps {par : Nat → Sess} {P : Nat → Nat → Nat → Prop} (hp : GPar par) (s mid : Nat) (l : L)
    (s' : Nat) (hi : FInv False par P l) : Keeps s mid l (release l s') := by
  obtain ⟨ca, dq, hg, hle, hdq⟩ := hi.sess s'
  unfold release
  simp only []
  split
  · exact Keeps.refl _ _ _
  · have hk : Keeps s mid l (l.setS s' { (l.getS s') with conActive := (l.getS s').conActive - 1 }) :=
      keeps_setS_keep s mid l s' _ rfl
    have h1 : FInv False par P (l.setS s' { (l.getS s') with conActive := (l.getS s').conActive - 1 }) := by
      rw [hg]
      exact ⟨hi.base, gsess_setS hi.sess s' (ca - 1) dq (by omega) hdq, hi.nodes, hi.pend, hi.outs⟩
    split
    · exact Keeps.trans hk (connected_keeps hp s mid _ s' h1)
    · exact hk

/-- `coap_retransmit` of a popped node: it comes back (re-queued, or as its NACK) -/
theorem retransmit_keeps {par : Nat → Sess} {P : Nat → Nat → Nat → Prop} (hp : GPar par) (s mid : Nat) (l : L)
    (n : Node) (hi : FInv False par P l) (hn : NodeOk par P n) :
    Phi s mid (retransmit l n) = Phi s mid l + (if n.sess = s ∧ n.mid = mid then 1 else 0) ∧
    Psi s mid (retransmit l n) ≤ Psi s mid l + (if n.sess = s ∧ n.mid = mid then 1 else 0) ∧
    (Psi s mid l = 0 → ¬ (n.sess = s ∧ n.mid = mid) → txC s mid (retransmit l n).out = txC s mid l.out) := by
  obtain ⟨hcon, htok, hT, hcnt, h64, hP⟩ := hn
  obtain ⟨ca, dq, hg, hle, hdq⟩ := hi.sess n.sess
  obtain ⟨hest, hopen, hns, h256⟩ := hp n.sess
  have hnowR := retransmit_now l n
  by_cases hc : n.cnt < (par n.sess).maxRtx
  · have hle2 : n.timeout * 2 ^ (n.cnt + 1) ≤ n.timeout * 2 ^ (par n.sess).maxRtx :=
      Nat.mul_le_mul_left _ (Nat.pow_le_pow_right (by decide) hc)
    have hroom : ca - 1 < (par n.sess).nstart := by omega
    have hres := retransmit_resend l n (by rw [hg]; exact hc) (by rw [hg]; exact hest) (by rw [hg]; exact hroom)
      (by omega) (by omega) (Or.inr hi.base)
    have hsess := retransmit_resend_sess l n (by rw [hg]; exact hc) (by rw [hg]; exact hest)
      (by rw [hg]; exact hroom) (by omega) (by omega) hcon
    have hpq := pendC_enqueue s mid l.q l.now (n.timeout * 2 ^ (n.cnt + 1)) { n with cnt := n.cnt + 1 }
      (Or.inr hi.base)
    have hd : ((retransmit l n).getS s).delayq = (l.getS s).delayq := by
      have : (retransmit l n).getS s = (l.setS n.sess { (l.getS n.sess) with
          conActive := ((l.getS n.sess).conActive - 1 + 1) % 256 }).getS s := by
        simp only [L.getS, hsess]
      rw [this]
      exact delayq_setS_keep l n.sess s _ rfl
    have ho : (retransmit l n).out = Out.tx l.now n.sess n.mid (n.cnt + 1) true :: l.out := by rw [hres.1, hcon]
    have hq : (retransmit l n).q.nodes = (enqueue l.q l.now (n.timeout * 2 ^ (n.cnt + 1)) { n with cnt := n.cnt + 1 }).nodes := by
      rw [hres.2.2]
    simp only [Phi, Psi, ho, hq, hd, hpq, nackC_cons_other s mid _ l.out (Or.inr ⟨_, _, _, _, _, rfl⟩)]
    refine ⟨by omega, by omega, ?_⟩
    intro _ hne
    simp [txC, hne]
  · have hc' : ¬ n.cnt < (l.getS n.sess).maxRtx := by rw [hg]; exact hc
    have heq : retransmit l n = (release l n.sess).emit (.nack (release l n.sess).now n.sess .retries n.mid true) := by
      unfold retransmit
      simp [hc', hcon]
    rw [heq]
    have hk := release_keeps hp s mid l n.sess hi
    have hw : nackW s mid (.nack (release l n.sess).now n.sess .retries n.mid true) =
        (if n.sess = s ∧ n.mid = mid then 1 else 0) := by simp [nackW, obsM]
    refine ⟨?_, ?_, ?_⟩
    · have := hk.phi
      simp only [Phi] at this ⊢
      show nackC s mid (_ :: (release l n.sess).out) + pendC s mid (release l n.sess).q.nodes +
        midC mid ((release l n.sess).getS s).delayq = _
      simp only [nackC, hw]
      omega
    · have := hk.psi
      simp only [Psi] at this ⊢
      show pendC s mid (release l n.sess).q.nodes + midC mid ((release l n.sess).getS s).delayq ≤ _
      omega
    · intro h0 _
      show txC s mid (_ :: (release l n.sess).out) = _
      rw [txC_cons_other _ _ _ _ (by intros; simp)]
      exact hk.tx h0

theorem dueLoop_keeps {par : Nat → Sess} {P : Nat → Nat → Nat → Prop} (hp : GPar par) (s mid : Nat) :
    ∀ (f : Nat) (l : L), FInv False par P l → Keeps s mid l (dueLoop f l) := by
  intro f
  induction f with
  | zero => intro l _; exact Keeps.refl _ _ _
  | succ f ih =>
    intro l hi
    cases hn : l.q.nodes with
    | nil =>
      have hnd : NothingDue l := by rw [nothingDue_iff]; intro h r hh; rw [hn] at hh; cases hh
      rw [dueLoop_not_due _ l hnd]; exact Keeps.refl _ _ _
    | cons hd r =>
      by_cases hdue : l.q.base + hd.t ≤ l.now
      · obtain ⟨rest, hpop, _, hloop⟩ := dueLoop_due f l hd r hn hi.base hdue
        rw [hloop]
        have hab := absP_popNext (mxOf par) l.q.base l.q.nodes hd rest hpop
        have hall := all_popNext (nodeOk_tfree par P) l.q.nodes hd rest hpop hi.nodes
        have hi1 : FInv False par P { l with q := { l.q with nodes := rest } } :=
          ⟨hi.base, hi.sess, hall.2, fun p hp' => hi.pend p (by rw [hab]; exact List.mem_cons_of_mem _ hp'), hi.outs⟩
        have hpc := pendC_popNext s mid l.q.nodes hd rest hpop
        have hr := retransmit_keeps hp s mid _ hd hi1 hall.1
        have hi2 := (retransmit_finv hp _ hd hi1 (futF _) hall.1 (fun h => h.elim)).1
        refine Keeps.trans ?_ (ih _ hi2)
        have e1 : Phi s mid ({ l with q := { l.q with nodes := rest } } : L) +
            (if hd.sess = s ∧ hd.mid = mid then 1 else 0) = Phi s mid l := by
          simp only [Phi]
          show nackC s mid l.out + pendC s mid rest + midC mid (l.getS s).delayq + _ = _
          omega
        have e2 : Psi s mid ({ l with q := { l.q with nodes := rest } } : L) +
            (if hd.sess = s ∧ hd.mid = mid then 1 else 0) = Psi s mid l := by
          simp only [Psi]
          show pendC s mid rest + midC mid (l.getS s).delayq + _ = _
          omega
        refine ⟨by omega, by omega, ?_⟩
        intro h0
        have hne : ¬ (hd.sess = s ∧ hd.mid = mid) := by
          intro hk; simp only [hk, and_self, if_true] at e2; omega
        exact hr.2.2 (by omega) hne
      · have hnd : NothingDue l := by
          rw [nothingDue_iff]; intro h r' hh; rw [hn] at hh; cases hh; omega
        rw [dueLoop_not_due _ l hnd]; exact Keeps.refl _ _ _

theorem pendC_removeTok_some (s mid : Nat) : ∀ (l : List Node) (s' tok : Nat) (n : Node) (rest : List Node),
    removeTok l s' tok = (some n, rest) →
    pendC s mid l = pendC s mid rest + (if n.sess = s ∧ n.mid = mid then 1 else 0)
  | [], s', tok, n, rest, h => by simp [removeTok] at h
  | a :: r, s', tok, n, rest, h => by
    unfold removeTok at h
    split at h
    · split at h
      · simp at h; obtain ⟨rfl, rfl⟩ := h; simp [pendC]
      · simp at h; obtain ⟨rfl, rfl⟩ := h
        simp only [pendC]; omega
    · rcases hr : removeTok r s' tok with ⟨res, r'⟩
      simp only [hr] at h
      simp at h; obtain ⟨rfl, rfl⟩ := h
      have := pendC_removeTok_some s mid r s' tok n r' hr
      simp only [pendC]; omega

theorem removedTok_finv {par : Nat → Sess} {P : Nat → Nat → Nat → Prop} (l : L) (s' tok : Nat) (n : Node)
    (rest : List Node) (hrm : removeTok l.q.nodes s' tok = (some n, rest)) (hi : FInv False par P l) :
    FInv False par P { l with q := { l.q with nodes := rest } } := by
  have hsub := absP_removeTok_sub (mxOf par) l.q.base l.q.nodes s' tok
  have hall := Coap.Pdu.all_removeTok (nodeOk_tfree par P) l.q.nodes s' tok hi.nodes
  rw [hrm] at hsub hall
  exact ⟨hi.base, hi.sess, hall, fun p hp' => hi.pend p (hsub p hp'), hi.outs⟩

theorem cancelToken_keeps {par : Nat → Sess} {P : Nat → Nat → Nat → Prop} (hp : GPar par) (s mid : Nat) :
    ∀ (fuel : Nat) (l : L) (s' tok : Nat), FInv False par P l →
      Phi s mid (cancelToken fuel l s' tok) + cancelCount s mid fuel l s' tok = Phi s mid l ∧
      Psi s mid (cancelToken fuel l s' tok) ≤ Psi s mid l ∧
      (Psi s mid l = 0 → txC s mid (cancelToken fuel l s' tok).out = txC s mid l.out) := by
  intro fuel
  induction fuel with
  | zero => intro l s' tok _; exact ⟨rfl, Nat.le_refl _, fun _ => rfl⟩
  | succ f ih =>
    intro l s' tok hi
    rcases hrm : removeTok l.q.nodes s' tok with ⟨_ | n, rest⟩
    · have h1 : cancelToken (f + 1) l s' tok = l := by simp only [cancelToken, hrm]
      have h2 : cancelCount s mid (f + 1) l s' tok = 0 := by simp only [cancelCount, hrm]
      rw [h1, h2]
      exact ⟨rfl, Nat.le_refl _, fun _ => rfl⟩
    · obtain ⟨l1, hl1⟩ : ∃ l1, l1 = ({ l with q := { l.q with nodes := rest } } : L) := ⟨_, rfl⟩
      obtain ⟨l2, hl2⟩ : ∃ l2, l2 = (if n.con then release l1 s' else l1) := ⟨_, rfl⟩
      have h1 : cancelToken (f + 1) l s' tok = cancelToken f l2 s' tok := by
        simp only [cancelToken, hrm, hl2, hl1]
      have h2 : cancelCount s mid (f + 1) l s' tok =
          (if n.sess = s ∧ n.mid = mid then 1 else 0) + cancelCount s mid f l2 s' tok := by
        simp only [cancelCount, hrm, hl2, hl1]
      rw [h1, h2]
      have hi1 : FInv False par P l1 := by rw [hl1]; exact removedTok_finv l s' tok n rest hrm hi
      have hpc := pendC_removeTok_some s mid l.q.nodes s' tok n rest hrm
      have e1 : Phi s mid l1 + (if n.sess = s ∧ n.mid = mid then 1 else 0) = Phi s mid l := by
        rw [hl1]
        simp only [Phi]
        show nackC s mid l.out + pendC s mid rest + midC mid (l.getS s).delayq + _ = _
        omega
      have e2 : Psi s mid l1 + (if n.sess = s ∧ n.mid = mid then 1 else 0) = Psi s mid l := by
        rw [hl1]
        simp only [Psi]
        show pendC s mid rest + midC mid (l.getS s).delayq + _ = _
        omega
      have hk : Keeps s mid l1 l2 ∧ FInv False par P l2 := by
        rw [hl2]
        split
        · exact ⟨release_keeps hp s mid _ s' hi1, (release_finv hp _ s' hi1 (futF _)).1⟩
        · exact ⟨Keeps.refl _ _ _, hi1⟩
      have h3 := ih l2 s' tok hk.2
      have h4p := hk.1.phi
      have h4s := hk.1.psi
      refine ⟨by omega, by omega, ?_⟩
      intro h0
      rw [h3.2.2 (by omega), hk.1.tx (by omega)]
      have : txC s mid l1.out = txC s mid l.out := by rw [hl1]
      exact this

/-! ### events -/

/-- what one event does to the counters of (s, mid) -/
def StepKeeps (s mid : Nat) (l : L) (ev : Ev) : Prop :=
  Phi s mid (Msg.step l ev) + remW s mid l ev = Phi s mid l + accW s mid l ev ∧
  Psi s mid (Msg.step l ev) ≤ Psi s mid l + accW s mid l ev ∧
  (Psi s mid l = 0 → accW s mid l ev = 0 → txC s mid (Msg.step l ev).out = txC s mid l.out)

theorem afterRx_keeps {par : Nat → Sess} {P : Nat → Nat → Nat → Prop} (hp : GPar par) (s mid : Nat) (l : L)
    (hi : FInv False par P l) : Keeps s mid l (afterRx l) := by
  unfold afterRx
  rw [prepareCore_fst]
  exact dueLoop_keeps hp s mid _ l hi

/-- removal of a node from the send queue, then anything that keeps the counters -/
theorem removed_then {s mid : Nat} {l l' : L} (s' m' : Nat)
    (hk : Keeps s mid { l with q := { l.q with nodes := (removeNode l.q.nodes s' m').2 } } l') (extra : Nat)
    (hx : extra = (if (s' = s ∧ m' = mid) ∧ (removeNode l.q.nodes s' m').1 ≠ none then 1 else 0)) :
    Phi s mid l' + extra = Phi s mid l ∧ Psi s mid l' ≤ Psi s mid l ∧
    (Psi s mid l = 0 → txC s mid l'.out = txC s mid l.out) := by
  have hpc := pendC_removeNode s mid l.q.nodes s' m'
  rw [← hx] at hpc
  have e1 : Phi s mid ({ l with q := { l.q with nodes := (removeNode l.q.nodes s' m').2 } } : L) + extra =
      Phi s mid l := by
    simp only [Phi]
    show nackC s mid l.out + pendC s mid (removeNode l.q.nodes s' m').2 + midC mid (l.getS s).delayq + _ = _
    omega
  have e2 : Psi s mid ({ l with q := { l.q with nodes := (removeNode l.q.nodes s' m').2 } } : L) + extra =
      Psi s mid l := by
    simp only [Psi]
    show pendC s mid (removeNode l.q.nodes s' m').2 + midC mid (l.getS s).delayq + _ = _
    omega
  refine ⟨by have := hk.phi; omega, by have := hk.psi; omega, ?_⟩
  intro h0
  exact hk.tx (by omega)

theorem step_keeps {par : Nat → Sess} {P : Nat → Nat → Nat → Prop} (hp : GPar par) (s mid : Nat) (l : L) (ev : Ev)
    (hi : FInv False par P l) (hok : EvG l ev) : StepKeeps s mid l ev := by
  unfold StepKeeps
  cases ev with
  | setNow t => exact ⟨rfl, Nat.le_refl _, fun _ _ => rfl⟩
  | prepare =>
    have hk := dueLoop_keeps hp s mid (dueFuel l) l hi
    simp only [Msg.step, prepare, remW, accW, Nat.add_zero]
    rcases hpc : prepareCore l with ⟨l', w⟩
    have e : l' = dueLoop (dueFuel l) l := by rw [← prepareCore_fst, hpc]
    subst e
    have hk2 := Keeps.trans hk (keeps_emit_other s mid _ (.wait (dueLoop (dueFuel l) l).now w) rfl (by intros; simp))
    exact ⟨hk2.phi, hk2.psi, fun h0 _ => hk2.tx h0⟩
  | submit s' con m' r =>
    obtain ⟨ca, dq, hg, hle, hdq⟩ := hi.sess s'
    obtain ⟨hest, hopen, hns, h256⟩ := hp s'
    have hso : (l.getS s').sockOpen = true := by rw [hg]; exact hopen
    simp only [remW, Nat.add_zero]
    cases con with
    | false =>
      have he : (l.getS s').est = true := by rw [hg]; exact hest
      have hM : Msg.step l (.submit s' false m' r) =
          (l.emit (.tx l.now s' m' 0 false)).emit (.sub (some m')) := by
        simp [Msg.step, submit, hso, gate, he]
      rw [hM]
      have hk := Keeps.trans (keeps_emit_other s mid l (.tx l.now s' m' 0 false) rfl (by intros; simp))
        (keeps_emit_other s mid _ (.sub (some m')) rfl (by intros; simp))
      simp only [accW, Nat.add_zero]
      exact ⟨hk.phi, hk.psi, fun h0 _ => hk.tx h0⟩
    | true =>
    by_cases hroom : ca < (par s').nstart
    · have hgt : gate (l.getS s') true = false := by
        have : ¬ ((l.getS s').conActive ≥ (l.getS s').nstart) := by rw [hg]; simp only []; omega
        have he : (l.getS s').est = true := by rw [hg]; exact hest
        simp [gate, he, this]
      have hM : Msg.step l (.submit s' true m' r) =
          (waitAck ((l.emit (.tx l.now s' m' 0 true)).setS s'
              { (l.getS s') with conActive := ((l.getS s').conActive + 1) % 256 })
            { sess := s', mid := m', t := 0,
              timeout := calcTimeout (l.getS s').atI (l.getS s').atF (l.getS s').arfI (l.getS s').arfF r,
              cnt := 0, tok := m', con := true }).emit (.sub (some m')) := by
        simp only [Msg.step, submit, hso, hgt]
        simp
      have hacc : accW s mid l (.submit s' true m' r) = (if s' = s ∧ m' = mid then 1 else 0) := by
        simp [accW, hgt]
      rw [hM, hacc]
      generalize calcTimeout (l.getS s').atI (l.getS s').atF (l.getS s').arfI (l.getS s').arfF r = T
      have hpq := pendC_enqueue s mid l.q l.now (T * 2 ^ 0 % 4294967296)
        { sess := s', mid := m', t := 0, timeout := T, cnt := 0, tok := m', con := true } (Or.inr hi.base)
      have hd : (L.getS (L.setS (l.emit (.tx l.now s' m' 0 true)) s'
          { (l.getS s') with conActive := ((l.getS s').conActive + 1) % 256 }) s).delayq = (l.getS s).delayq :=
        delayq_setS_keep (l.emit (.tx l.now s' m' 0 true)) s' s
          { (l.getS s') with conActive := ((l.getS s').conActive + 1) % 256 } rfl
      simp only [] at hpq
      simp only [Phi, Psi]
      refine ⟨?_, ?_, ?_⟩
      · show nackC s mid (_ :: _ :: l.out) + pendC s mid (enqueue l.q l.now _ _).nodes +
          midC mid (L.getS (L.setS (l.emit _) s' _) s).delayq = _
        rw [nackC_cons_other s mid _ _ (Or.inl rfl), nackC_cons_other s mid _ _ (Or.inr ⟨_, _, _, _, _, rfl⟩), hpq, hd]
        show _ = nackC s mid l.out + pendC s mid l.q.nodes + midC mid (l.getS s).delayq + _
        omega
      · show pendC s mid (enqueue l.q l.now _ _).nodes + midC mid (L.getS (L.setS (l.emit _) s' _) s).delayq ≤ _
        rw [hpq, hd]
        show _ ≤ pendC s mid l.q.nodes + midC mid (l.getS s).delayq + _
        omega
      · intro _ h0
        have hne : ¬ (s' = s ∧ m' = mid) := by
          intro hk; simp [hk] at h0
        show txC s mid (_ :: _ :: l.out) = _
        simp [txC, hne]
    · have hgt : gate (l.getS s') true = true := by
        have : (l.getS s').conActive ≥ (l.getS s').nstart := by rw [hg]; simp only []; omega
        simp [gate, this]
      by_cases hany : (l.getS s').delayq.any (fun x => x.mid = m') = true
      · have hM : Msg.step l (.submit s' true m' r) = l.emit (.sub none) := by
          simp only [Msg.step, submit, hso, hgt]
          simp only [Bool.not_true, Bool.false_eq_true, if_false, if_true]
          rw [if_pos]
          simpa using hany
        have hacc : accW s mid l (.submit s' true m' r) = 0 := by
          simp only [accW, hgt, hany, and_self, not_true_eq_false, and_false, if_false]
        rw [hM, hacc]
        have hk := keeps_emit_other s mid l (.sub none) rfl (by intros; simp)
        exact ⟨hk.phi, hk.psi, fun h0 _ => hk.tx h0⟩
      · have hM : Msg.step l (.submit s' true m' r) =
            (l.setS s' { (l.getS s') with delayq := (l.getS s').delayq ++
              [{ sess := s', mid := m', t := 0,
                 timeout := calcTimeout (l.getS s').atI (l.getS s').atF (l.getS s').arfI (l.getS s').arfF r,
                 cnt := 0, tok := m', con := true }] }).emit (.sub (some m')) := by
          simp only [Msg.step, submit, hso, hgt]
          simp only [Bool.not_true, Bool.false_eq_true, if_false, if_true]
          rw [if_neg]
          simpa using hany
        have hacc : accW s mid l (.submit s' true m' r) = (if s' = s ∧ m' = mid then 1 else 0) := by
          simp [accW, hgt, hany]
        rw [hM, hacc]
        generalize calcTimeout (l.getS s').atI (l.getS s').atF (l.getS s').arfI (l.getS s').arfF r = T
        -- gated ⇒ con_active ≥ 1 ⇒ the session exists
        have hin : s' < l.sess.length := by
          apply Classical.byContradiction
          intro hn
          have hdflt := getS_default hn
          rw [hdflt] at hgt
          simp [gate] at hgt
        have hd : midC mid ((l.setS s' { (l.getS s') with delayq := (l.getS s').delayq ++
              [{ sess := s', mid := m', t := 0, timeout := T, cnt := 0, tok := m', con := true }] }).getS s).delayq =
            midC mid (l.getS s).delayq + (if s' = s ∧ m' = mid then 1 else 0) := by
          by_cases hss : s' = s
          · subst hss
            rw [getS_setS_in _ hin]
            simp only [midC_append, midC, true_and, Nat.add_zero]
          · rw [getS_setS_ne _ hss]
            simp [hss]
        simp only [Phi, Psi]
        refine ⟨?_, ?_, ?_⟩
        · show nackC s mid (_ :: l.out) + pendC s mid l.q.nodes + midC mid (L.getS (L.setS l s' _) s).delayq = _
          rw [nackC_cons_other s mid _ _ (Or.inl rfl), hd]
          omega
        · show pendC s mid l.q.nodes + midC mid (L.getS (L.setS l s' _) s).delayq ≤ _
          rw [hd]
          omega
        · intro _ _
          show txC s mid (_ :: l.out) = _
          simp [txC]
  | rxAck s' m' =>
    obtain ⟨ca, dq, hg, hle, hdq⟩ := hi.sess s'
    have hso : (l.getS s').sockOpen = true := by rw [hg]; exact (hp s').2.1
    obtain ⟨hi1, _, _⟩ := removed_finv l s' m' hi (futF l)
    simp only [Msg.step, hso, if_true, accW, Nat.add_zero]
    have hk1 : Keeps s mid { l with q := { l.q with nodes := (removeNode l.q.nodes s' m').2 } } (rxAck l s' m') ∧
        FInv False par P (rxAck l s' m') := by
      unfold rxAck
      rcases hrm : removeNode l.q.nodes s' m' with ⟨sent, rest⟩
      rw [hrm] at hi1
      cases sent with
      | none => exact ⟨Keeps.refl _ _ _, hi1⟩
      | some n => exact ⟨release_keeps hp s mid _ s' hi1, (release_finv hp _ s' hi1 (futF _)).1⟩
    have hk := Keeps.trans hk1.1 (afterRx_keeps hp s mid _ hk1.2)
    have := removed_then s' m' hk (remW s mid l (.rxAck s' m')) rfl
    exact ⟨this.1, this.2.1, fun h0 _ => this.2.2 h0⟩
  | rxRst s' m' =>
    obtain ⟨ca, dq, hg, hle, hdq⟩ := hi.sess s'
    have hso : (l.getS s').sockOpen = true := by rw [hg]; exact (hp s').2.1
    obtain ⟨hi1, _, hkey⟩ := removed_finv l s' m' hi (futF l)
    simp only [Msg.step, hso, if_true, accW, remW, Nat.add_zero]
    -- the removed node comes back as its NACK
    have hmain : Phi s mid (rxRst l s' m') = Phi s mid l ∧ Psi s mid (rxRst l s' m') ≤ Psi s mid l ∧
        (Psi s mid l = 0 → txC s mid (rxRst l s' m').out = txC s mid l.out) ∧ FInv False par P (rxRst l s' m') := by
      have hrt := fun l' hk => @removed_then s mid l l' s' m' hk
      unfold rxRst
      rcases hrm : removeNode l.q.nodes s' m' with ⟨sent, rest⟩
      rw [hrm] at hi1 hkey hrt
      simp only [] at hi1 hkey hrt ⊢
      cases sent with
      | none =>
        have hk := keeps_emit_other s mid { l with q := { l.q with nodes := rest } }
          (.nack l.now s' .rst m' false) rfl (by intros; simp)
        have := hrt _ hk 0 (by simp)
        exact ⟨this.1, this.2.1, this.2.2, finv_emit_other _ hi1 ⟨by intros; simp, by intros; simp⟩⟩
      | some n =>
        obtain ⟨hcon, hmid⟩ := hkey n rfl
        simp only [hcon, if_true]
        have hk := release_keeps hp s mid _ s' hi1
        have hf := (release_finv hp _ s' hi1 (futF _)).1
        have := hrt _ hk (if s' = s ∧ m' = mid then 1 else 0) (by simp)
        have hw : nackW s mid (.nack (release { l with q := { l.q with nodes := rest } } s').now s' .rst n.mid true) =
            (if s' = s ∧ m' = mid then 1 else 0) := by simp [nackW, obsM, hmid]
        refine ⟨?_, ?_, ?_, finv_emit_other _ hf ⟨by intros; simp, by intros; simp⟩⟩
        · have h1 := this.1
          simp only [Phi] at h1 ⊢
          show nackC s mid (_ :: (release _ s').out) + pendC s mid (release _ s').q.nodes +
            midC mid ((release _ s').getS s).delayq = _
          simp only [nackC, hw]
          omega
        · exact this.2.1
        · intro h0
          show txC s mid (_ :: (release _ s').out) = _
          rw [txC_cons_other _ _ _ _ (by intros; simp)]
          exact this.2.2 h0
    have hk := afterRx_keeps hp s mid _ hmain.2.2.2
    refine ⟨by rw [hk.phi, hmain.1], Nat.le_trans hk.psi hmain.2.1, fun h0 _ => ?_⟩
    rw [hk.tx (by have := hmain.2.1; omega), hmain.2.2.1 h0]
  | rxNon s' m' tok =>
    obtain ⟨ca, dq, hg, hle, hdq⟩ := hi.sess s'
    have hso : (l.getS s').sockOpen = true := by rw [hg]; exact (hp s').2.1
    simp only [Msg.step, hso, if_true, accW, remW, Nat.add_zero]
    have hc := cancelToken_keeps hp s mid (l.q.nodes.length + 1) l s' tok hi
    have hcf := (cancelToken_finv hp (l.q.nodes.length + 1) l s' tok hi (futF l)).1
    have hke := keeps_emit_other s mid (cancelToken (l.q.nodes.length + 1) l s' tok)
      (.rsp (cancelToken (l.q.nodes.length + 1) l s' tok).now s' m') rfl (by intros; simp)
    have hfe : FInv False par P (rxNon l s' m' tok) := finv_emit_other _ hcf ⟨by intros; simp, by intros; simp⟩
    have hk := Keeps.trans hke (afterRx_keeps hp s mid _ hfe)
    have hp1 : Phi s mid (afterRx (rxNon l s' m' tok)) = Phi s mid (cancelToken (l.q.nodes.length + 1) l s' tok) :=
      hk.phi
    have hp2 : Psi s mid (afterRx (rxNon l s' m' tok)) ≤ Psi s mid (cancelToken (l.q.nodes.length + 1) l s' tok) :=
      hk.psi
    have hc1 := hc.1
    have hc2 := hc.2.1
    refine ⟨by omega, by omega, fun h0 _ => ?_⟩
    have h3 : txC s mid (afterRx (rxNon l s' m' tok)).out =
        txC s mid (cancelToken (l.q.nodes.length + 1) l s' tok).out := hk.tx (by omega)
    rw [h3, hc.2.2 h0]
  | rxBad s' m' =>
    obtain ⟨ca, dq, hg, hle, hdq⟩ := hi.sess s'
    have hso : (l.getS s').sockOpen = true := by rw [hg]; exact (hp s').2.1
    obtain ⟨hi1, _, _⟩ := removed_finv l s' m' hi (futF l)
    simp only [Msg.step, hso, if_true, accW, Nat.add_zero]
    have hk1 : Keeps s mid { l with q := { l.q with nodes := (removeNode l.q.nodes s' m').2 } } (rxBad l s' m') ∧
        FInv False par P (rxBad l s' m') := by
      unfold rxBad
      rcases hrm : removeNode l.q.nodes s' m' with ⟨sent, rest⟩
      rw [hrm] at hi1
      cases sent with
      | none => exact ⟨Keeps.refl _ _ _, hi1⟩
      | some n =>
        exact ⟨Keeps.trans (release_keeps hp s mid _ s' hi1)
            (keeps_emit_other s mid _ _ (by simp [nackW, obsM]) (by intros; simp)),
          finv_emit_other _ (release_finv hp _ s' hi1 (futF _)).1 ⟨by intros; simp, by intros; simp⟩⟩
    have hk := Keeps.trans hk1.1 (afterRx_keeps hp s mid _ hk1.2)
    have := removed_then s' m' hk (remW s mid l (.rxBad s' m')) rfl
    exact ⟨this.1, this.2.1, fun h0 _ => this.2.2 h0⟩
  | hold s' => exact absurd hok (by simp [EvG])
  | connect s' =>
    have hk := connected_keeps hp s mid l s' hi
    exact ⟨hk.phi, hk.psi, fun h0 _ => hk.tx h0⟩
  | disconnect s' => exact absurd hok (by simp [EvG])

/-! ### whole runs -/

theorem run_conserve_M {par : Nat → Sess} {P : Nat → Nat → Nat → Prop} (hp : GPar par) (s mid : Nat) :
    ∀ (evs : List Ev) (l : L), FInv False par P l → RunG l evs →
      (∀ s mid r, Ev.submit s true mid r ∈ evs → P s mid (calcTimeout (par s).atI (par s).atF (par s).arfI (par s).arfF r)) →
      Phi s mid (Msg.run l evs) + remC s mid l evs = Phi s mid l + accC s mid l evs := by
  intro evs
  induction evs with
  | nil => intro l _ _ _; rfl
  | cons ev evs ih =>
    intro l hi hin hP
    have hi1 := step_finv (pu := False) hp l ev hi hin.1 (fun h => h.elim) (fun s mid r h => hP s mid r (by simp [h]))
    have h1 := (step_keeps hp s mid l ev hi hin.1).1
    have h2 := ih _ hi1 hin.2 (fun s mid r h => hP s mid r (by simp [h]))
    simp only [Msg.run, List.foldl_cons, remC, accC] at h2 ⊢
    omega

theorem run_quiet_M {par : Nat → Sess} {P : Nat → Nat → Nat → Prop} (hp : GPar par) (s mid : Nat) :
    ∀ (evs : List Ev) (l : L), FInv False par P l → RunG l evs →
      (∀ s mid r, Ev.submit s true mid r ∈ evs → P s mid (calcTimeout (par s).atI (par s).atF (par s).arfI (par s).arfF r)) →
      Psi s mid l = 0 → accC s mid l evs = 0 →
      txC s mid (Msg.run l evs).out = txC s mid l.out ∧ Psi s mid (Msg.run l evs) = 0 := by
  intro evs
  induction evs with
  | nil => intro l _ _ _ h0 _; exact ⟨rfl, h0⟩
  | cons ev evs ih =>
    intro l hi hin hP h0 hacc
    simp only [accC] at hacc
    have hi1 := step_finv (pu := False) hp l ev hi hin.1 (fun h => h.elim) (fun s mid r h => hP s mid r (by simp [h]))
    have h1 := step_keeps hp s mid l ev hi hin.1
    have h2 := ih _ hi1 hin.2 (fun s mid r h => hP s mid r (by simp [h])) (by have := h1.2.1; omega) (by omega)
    simp only [Msg.run, List.foldl_cons] at h2 ⊢
    exact ⟨by rw [h2.1, h1.2.2 h0 (by omega)], h2.2⟩

theorem runG_append (l : L) (a b : List Ev) : RunG l (a ++ b) ↔ RunG l a ∧ RunG (Msg.run l a) b := by
  induction a generalizing l with
  | nil => simp [RunG, Msg.run]
  | cons e a ih =>
    simp only [List.cons_append, RunG, Msg.run, List.foldl_cons]
    rw [ih]
    simp only [Msg.run, and_assoc]

theorem phi_init (s mid now0 : Nat) (sess : List Sess) (h : ∀ se ∈ sess, SessOk se) :
    Phi s mid (Msg.init now0 sess) = 0 := by
  have := (parOf_ok sess h s).2.1
  simp only [Phi, Msg.init, nackC, pendC]
  show 0 + 0 + midC mid (parOf sess s).delayq = 0
  rw [this]; rfl

/-! ### after the due loop nothing is due (the loop has fuel for every due node, delayed messages included) -/

/-- number of queued nodes that are due -/
def dueC (par : Nat → Sess) (l : L) : Nat := dc l.now (absP (mxOf par) l.q.base l.q.nodes)

theorem dueC_enq {par : Nat → Sess} (l : L) (n : Node) (d : Nat) (hb : l.q.base ≤ l.now) (hd : 0 < d) :
    dueC par { l with q := enqueue l.q l.now d n } = dueC par l := by
  simp only [dueC]
  rw [absP_enqueue _ _ _ _ _ (Or.inr hb), dc_pinsert]
  have : ¬ (l.now + d ≤ l.now) := by omega
  simp [this]

theorem dueC_congr {par : Nat → Sess} {l l' : L} (h1 : l'.now = l.now) (h2 : l'.q = l.q) : dueC par l' = dueC par l := by
  simp only [dueC, h1, h2]

theorem drain_dueC {par : Nat → Sess} {P : Nat → Nat → Nat → Prop} (hp : GPar par) :
    ∀ (fuel : Nat) (l : L) (s' : Nat), FInv False par P l → dueC par (drain fuel l s') = dueC par l := by
  intro fuel
  induction fuel with
  | zero => intro l s' _; rfl
  | succ f ih =>
    intro l s' hi
    obtain ⟨ca, dq, hg, hle, hdq⟩ := hi.sess s'
    obtain ⟨hest, hopen, hns, h256⟩ := hp s'
    cases dq with
    | nil =>
      have : drain (f + 1) l s' = l := by simp [drain, hg]
      rw [this]
    | cons n rest =>
      obtain ⟨hcon, htok, hT, hT32, hcnt, h64, hP⟩ := hdq n (by simp)
      by_cases hgate : ca ≥ (par s').nstart
      · have : drain (f + 1) l s' = l := by simp [drain, hg, hest, hcon, hgate]
        rw [this]
      · rw [drain_succ hp f l s' ca n rest hg hgate (hdq n (by simp)) hi]
        have hi2 : FInv False par P ((l.setS s' { par s' with conActive := (ca + 1) % 256, delayq := rest }).emit
            (.tx l.now s' n.mid 0 true)) := by
          refine ⟨hi.base, gsess_congr rfl (gsess_setS hi.sess s' _ rest ?_ (fun x hx => hdq x (by simp [hx]))),
            hi.nodes, fun p hp' => pendOk_mono _ (hi.pend p hp'), ?_⟩
          · have : (ca + 1) % 256 ≤ ca + 1 := Nat.mod_le _ _
            omega
          · exact outOk_cons_tx _ _ _ _ hi.outs (fun h => h.elim)
        have hn' : NodeOk par P { n with sess := s' } := ⟨hcon, htok, hT, by simp [hcnt], h64, hP⟩
        have hi3 := (finv_enq_fresh _ { n with sess := s' } hi2 (futF _) hn' hcnt (by simp [L.emit])).1
        exact (ih _ s' hi3).trans (dueC_enq (par := par)
          ((l.setS s' { par s' with conActive := (ca + 1) % 256, delayq := rest }).emit
            (.tx l.now s' n.mid 0 true)) { n with sess := s' } n.timeout hi.base hT)

theorem release_dueC {par : Nat → Sess} {P : Nat → Nat → Nat → Prop} (hp : GPar par) (l : L) (s' : Nat)
    (hi : FInv False par P l) : dueC par (release l s') = dueC par l := by
  obtain ⟨ca, dq, hg, hle, hdq⟩ := hi.sess s'
  have hconn : ∀ l1 : L, FInv False par P l1 → dueC par (connected l1 s') = dueC par l1 := by
    intro l1 hi1
    obtain ⟨ca1, dq1, hg1, hle1, hdq1⟩ := hi1.sess s'
    have e : ({ (l1.getS s') with est := true } : Sess) = { par s' with conActive := ca1, delayq := dq1 } := by
      rw [hg1]
      have := (hp s').1
      cases hps : par s'
      rw [hps] at this
      simp_all
    unfold connected
    simp only []
    rw [e]
    have hi2 : FInv False par P (l1.setS s' { par s' with conActive := ca1, delayq := dq1 }) :=
      ⟨hi1.base, gsess_setS hi1.sess s' ca1 dq1 hle1 hdq1, hi1.nodes, hi1.pend, hi1.outs⟩
    exact (drain_dueC hp _ _ s' hi2).trans rfl
  unfold release
  simp only []
  split
  · rfl
  · have h1 : FInv False par P (l.setS s' { (l.getS s') with conActive := (l.getS s').conActive - 1 }) := by
      rw [hg]
      exact ⟨hi.base, gsess_setS hi.sess s' (ca - 1) dq (by omega) hdq, hi.nodes, hi.pend, hi.outs⟩
    split
    · rw [hconn _ h1]; rfl
    · rfl

theorem retransmit_dueC {par : Nat → Sess} {P : Nat → Nat → Nat → Prop} (hp : GPar par) (l : L) (n : Node)
    (hi : FInv False par P l) (hn : NodeOk par P n) : dueC par (retransmit l n) = dueC par l := by
  obtain ⟨hcon, htok, hT, hcnt, h64, hP⟩ := hn
  obtain ⟨ca, dq, hg, hle, hdq⟩ := hi.sess n.sess
  obtain ⟨hest, hopen, hns, h256⟩ := hp n.sess
  have hnowR := retransmit_now l n
  by_cases hc : n.cnt < (par n.sess).maxRtx
  · have hle2 : n.timeout * 2 ^ (n.cnt + 1) ≤ n.timeout * 2 ^ (par n.sess).maxRtx :=
      Nat.mul_le_mul_left _ (Nat.pow_le_pow_right (by decide) hc)
    have hroom : ca - 1 < (par n.sess).nstart := by omega
    have hres := retransmit_resend l n (by rw [hg]; exact hc) (by rw [hg]; exact hest) (by rw [hg]; exact hroom)
      (by omega) (by omega) (Or.inr hi.base)
    have hpos : 0 < n.timeout * 2 ^ (n.cnt + 1) := Nat.mul_pos hT (Nat.two_pow_pos _)
    rw [← dueC_enq (par := par) l { n with cnt := n.cnt + 1 } _ hi.base hpos]
    exact dueC_congr hnowR hres.2.2
  · have hc' : ¬ n.cnt < (l.getS n.sess).maxRtx := by rw [hg]; exact hc
    have heq : retransmit l n = (release l n.sess).emit (.nack (release l n.sess).now n.sess .retries n.mid true) := by
      unfold retransmit
      simp [hc', hcon]
    rw [heq, ← release_dueC hp l n.sess hi]
    rfl

theorem dueLoop_nothingDue {par : Nat → Sess} {P : Nat → Nat → Nat → Prop} (hp : GPar par) :
    ∀ (f : Nat) (l : L), FInv False par P l → dueC par l ≤ f → NothingDue (dueLoop f l) := by
  intro f
  induction f with
  | zero =>
    intro l hi h0
    show NothingDue l
    rw [nothingDue_iff]
    intro h r hn
    simp only [dueC, hn, absP, dc] at h0
    by_cases hd : l.q.base + h.t ≤ l.now
    · simp [hd] at h0
    · omega
  | succ f ih =>
    intro l hi hf
    cases hn : l.q.nodes with
    | nil =>
      have hnd : NothingDue l := by rw [nothingDue_iff]; intro h r hh; rw [hn] at hh; cases hh
      rw [dueLoop_not_due _ l hnd]; exact hnd
    | cons hd r =>
      by_cases hdue : l.q.base + hd.t ≤ l.now
      · obtain ⟨rest, hpop, _, hloop⟩ := dueLoop_due f l hd r hn hi.base hdue
        rw [hloop]
        have hab := absP_popNext (mxOf par) l.q.base l.q.nodes hd rest hpop
        have hall := all_popNext (nodeOk_tfree par P) l.q.nodes hd rest hpop hi.nodes
        have hi1 : FInv False par P { l with q := { l.q with nodes := rest } } :=
          ⟨hi.base, hi.sess, hall.2, fun p hp' => hi.pend p (by rw [hab]; exact List.mem_cons_of_mem _ hp'), hi.outs⟩
        have hi2 := (retransmit_finv hp _ hd hi1 (futF _) hall.1 (fun h => h.elim)).1
        apply ih _ hi2
        rw [retransmit_dueC hp _ hd hi1 hall.1]
        have : dueC par l = 1 + dueC par ({ l with q := { l.q with nodes := rest } } : L) := by
          simp only [dueC]
          rw [hab]
          simp [dc, hdue]
        omega
      · have hnd : NothingDue l := by
          rw [nothingDue_iff]; intro h r' hh; rw [hn] at hh; cases hh; omega
        rw [dueLoop_not_due _ l hnd]; exact hnd

theorem prepareCore_nothingDue {par : Nat → Sess} {P : Nat → Nat → Nat → Prop} (hp : GPar par) (l : L)
    (hi : FInv False par P l) : NothingDue (prepareCore l).1 := by
  rw [prepareCore_fst]
  apply dueLoop_nothingDue hp _ l hi
  have h1 := dc_le_length l.now (absP (mxOf par) l.q.base l.q.nodes)
  rw [absP_length] at h1
  unfold dueC dueFuel
  omega

/-! ### the retransmission budget: at most MAX_RETRANSMIT + 1 transmissions per accepted `coap_send` -/

/-- transmissions a queued node of (s, mid) may still make -/
def budC (s mid mx : Nat) : List Node → Nat
  | [] => 0
  | n :: r => (if n.sess = s ∧ n.mid = mid then mx - n.cnt else 0) + budC s mid mx r

def bc (s mid mx : Nat) : List (Nat × PMsg) → Nat
  | [] => 0
  | p :: r => (if p.2.sess = s ∧ p.2.mid = mid then mx - p.2.cnt else 0) + bc s mid mx r

theorem bc_absP (s mid mx : Nat) (mxf : Nat → Nat) (b : Nat) (ns : List Node) :
    bc s mid mx (absP mxf b ns) = budC s mid mx ns := by
  induction ns generalizing b with
  | nil => rfl
  | cons n r ih => simp only [absP, bc, budC, ih]; rfl

theorem bc_pinsert (s mid mx : Nat) (l : List (Nat × PMsg)) (e : Nat × PMsg) :
    bc s mid mx (pinsert l e) = (if e.2.sess = s ∧ e.2.mid = mid then mx - e.2.cnt else 0) + bc s mid mx l := by
  induction l with
  | nil => simp [pinsert, bc]
  | cons x r ih =>
    by_cases h : x.1 ≤ e.1
    · simp only [pinsert, h, if_true, bc, ih]; omega
    · simp only [pinsert, h, if_false, bc]

theorem bc_premove_le (s mid mx : Nat) (l : List (Nat × PMsg)) (s' m' : Nat) :
    bc s mid mx (premove l s' m').2 ≤ bc s mid mx l := by
  induction l with
  | nil => simp [premove, bc]
  | cons x r ih =>
    by_cases h : x.2.sess = s' ∧ x.2.mid = m'
    · simp only [premove, h, and_self, if_true, bc]; omega
    · rcases hr : premove r s' m' with ⟨res, r'⟩
      rw [hr] at ih
      simp only [premove, h, if_false, hr, bc]
      simp only [] at ih
      omega

theorem budC_enqueue (s mid mx : Nat) (q : Queue) (now d : Nat) (n : Node) (h : q.nodes = [] ∨ q.base ≤ now) :
    budC s mid mx (enqueue q now d n).nodes =
      (if n.sess = s ∧ n.mid = mid then mx - n.cnt else 0) + budC s mid mx q.nodes := by
  rw [← bc_absP s mid mx (fun _ => 0) (enqueue q now d n).base, absP_enqueue _ _ _ _ _ h, bc_pinsert, bc_absP]
  rfl

theorem budC_popNext (s mid mx : Nat) (l : List Node) (n : Node) (rest : List Node) (h : popNext l = some (n, rest)) :
    budC s mid mx l = (if n.sess = s ∧ n.mid = mid then mx - n.cnt else 0) + budC s mid mx rest := by
  rw [← bc_absP s mid mx (fun _ => 0) 0 l, absP_popNext _ _ _ _ _ h]
  simp only [bc, bc_absP]
  rfl

theorem budC_removeNode_le (s mid mx : Nat) (l : List Node) (s' m' : Nat) :
    budC s mid mx (removeNode l s' m').2 ≤ budC s mid mx l := by
  have h1 := absP_removeNode (fun _ => 0) 0 l s' m'
  have h2 := bc_premove_le s mid mx (absP (fun _ => 0) 0 l) s' m'
  rw [← h1.1, bc_absP, bc_absP] at h2
  exact h2

/-- transmissions made + transmissions the queued and the delayed nodes of (s, mid) may still make -/
def W (s mid mx : Nat) (l : L) : Nat :=
  txC s mid l.out + budC s mid mx l.q.nodes + (mx + 1) * midC mid (l.getS s).delayq

theorem W_setS_keep (s mid mx : Nat) (l : L) (s' : Nat) (se : Sess) (h : se.delayq = (l.getS s').delayq) :
    W s mid mx (l.setS s' se) = W s mid mx l := by
  have hd := delayq_setS_keep l s' s se h
  simp only [W]; rw [hd]; rfl

theorem W_emit_other (s mid mx : Nat) (l : L) (o : Out) (h2 : ∀ t s' m' k, o ≠ .tx t s' m' k true) :
    W s mid mx (l.emit o) = W s mid mx l := by
  simp only [W]
  show txC s mid (o :: l.out) + _ + _ = _
  rw [txC_cons_other s mid o l.out h2]
  rfl

theorem drain_W {par : Nat → Sess} {P : Nat → Nat → Nat → Prop} (hp : GPar par) (s mid : Nat) :
    ∀ (fuel : Nat) (l : L) (s' : Nat), FInv False par P l →
      W s mid (par s).maxRtx (drain fuel l s') = W s mid (par s).maxRtx l := by
  intro fuel
  induction fuel with
  | zero => intro l s' _; rfl
  | succ f ih =>
    intro l s' hi
    obtain ⟨ca, dq, hg, hle, hdq⟩ := hi.sess s'
    obtain ⟨hest, hopen, hns, h256⟩ := hp s'
    cases dq with
    | nil =>
      have : drain (f + 1) l s' = l := by simp [drain, hg]
      rw [this]
    | cons n rest =>
      obtain ⟨hcon, htok, hT, hT32, hcnt, h64, hP⟩ := hdq n (by simp)
      by_cases hgate : ca ≥ (par s').nstart
      · have : drain (f + 1) l s' = l := by simp [drain, hg, hest, hcon, hgate]
        rw [this]
      · rw [drain_succ hp f l s' ca n rest hg hgate (hdq n (by simp)) hi]
        have hi2 : FInv False par P ((l.setS s' { par s' with conActive := (ca + 1) % 256, delayq := rest }).emit
            (.tx l.now s' n.mid 0 true)) := by
          refine ⟨hi.base, gsess_congr rfl (gsess_setS hi.sess s' _ rest ?_ (fun x hx => hdq x (by simp [hx]))),
            hi.nodes, fun p hp' => pendOk_mono _ (hi.pend p hp'), ?_⟩
          · have : (ca + 1) % 256 ≤ ca + 1 := Nat.mod_le _ _
            omega
          · exact outOk_cons_tx _ _ _ _ hi.outs (fun h => h.elim)
        have hn' : NodeOk par P { n with sess := s' } := ⟨hcon, htok, hT, by simp [hcnt], h64, hP⟩
        have hi3 := (finv_enq_fresh _ { n with sess := s' } hi2 (futF _) hn' hcnt (by simp [L.emit])).1
        refine (ih _ s' hi3).trans ?_
        have hdl : (l.getS s').delayq = n :: rest := by rw [hg]
        have hin := delayq_in_range hdl
        have hbq : budC s mid (par s).maxRtx (enqueue l.q l.now n.timeout { n with sess := s' }).nodes =
            (if s' = s ∧ n.mid = mid then (par s).maxRtx else 0) + budC s mid (par s).maxRtx l.q.nodes := by
          rw [budC_enqueue s mid (par s).maxRtx l.q l.now n.timeout { n with sess := s' } (Or.inr hi.base)]
          show (if s' = s ∧ n.mid = mid then (par s).maxRtx - n.cnt else 0) + _ = _
          rw [hcnt, Nat.sub_zero]
        simp only [W]
        show txC s mid (_ :: l.out) + budC s mid (par s).maxRtx (enqueue l.q l.now n.timeout _).nodes +
          ((par s).maxRtx + 1) * midC mid (L.getS (l.setS s' _) s).delayq = _
        rw [hbq]
        by_cases hss : s' = s
        · subst hss
          rw [getS_setS_in _ hin, hdl]
          by_cases hm : n.mid = mid
          · simp only [txC, midC, hm, and_self, if_true, Nat.mul_add, Nat.mul_one]
            omega
          · simp only [txC, midC, hm, and_false, if_false, Nat.zero_add]
        · rw [getS_setS_ne _ hss]
          simp only [txC, hss, false_and, if_false, Nat.zero_add]

theorem connected_W {par : Nat → Sess} {P : Nat → Nat → Nat → Prop} (hp : GPar par) (s mid : Nat) (l1 : L) (s' : Nat)
    (hi1 : FInv False par P l1) : W s mid (par s).maxRtx (connected l1 s') = W s mid (par s).maxRtx l1 := by
  obtain ⟨ca1, dq1, hg1, hle1, hdq1⟩ := hi1.sess s'
  have e : ({ (l1.getS s') with est := true } : Sess) = { par s' with conActive := ca1, delayq := dq1 } := by
    rw [hg1]
    have := (hp s').1
    cases hps : par s'
    rw [hps] at this
    simp_all
  have hk := W_setS_keep s mid (par s).maxRtx l1 s' { (l1.getS s') with est := true } rfl
  unfold connected
  simp only []
  rw [e] at hk ⊢
  have hi2 : FInv False par P (l1.setS s' { par s' with conActive := ca1, delayq := dq1 }) :=
    ⟨hi1.base, gsess_setS hi1.sess s' ca1 dq1 hle1 hdq1, hi1.nodes, hi1.pend, hi1.outs⟩
  exact (drain_W hp s mid _ _ s' hi2).trans hk

theorem release_W {par : Nat → Sess} {P : Nat → Nat → Nat → Prop} (hp : GPar par) (s mid : Nat) (l : L) (s' : Nat)
    (hi : FInv False par P l) : W s mid (par s).maxRtx (release l s') = W s mid (par s).maxRtx l := by
  obtain ⟨ca, dq, hg, hle, hdq⟩ := hi.sess s'
  unfold release
  simp only []
  split
  · rfl
  · have hk := W_setS_keep s mid (par s).maxRtx l s' { (l.getS s') with conActive := (l.getS s').conActive - 1 } rfl
    have h1 : FInv False par P (l.setS s' { (l.getS s') with conActive := (l.getS s').conActive - 1 }) := by
      rw [hg]
      exact ⟨hi.base, gsess_setS hi.sess s' (ca - 1) dq (by omega) hdq, hi.nodes, hi.pend, hi.outs⟩
    split
    · exact (connected_W hp s mid _ s' h1).trans hk
    · exact hk

theorem budC_removeTok_le (s mid mx : Nat) : ∀ (l : List Node) (s' tok : Nat),
    budC s mid mx (removeTok l s' tok).2 ≤ budC s mid mx l
  | [], s', tok => by simp [removeTok]
  | a :: r, s', tok => by
    unfold removeTok
    split
    · split
      · simp [budC]
      · simp only [budC]; omega
    · rcases hr : removeTok r s' tok with ⟨res, r'⟩
      have := budC_removeTok_le s mid mx r s' tok
      rw [hr] at this
      simp only [budC]
      simp only [] at this
      omega

theorem cancelToken_W {par : Nat → Sess} {P : Nat → Nat → Nat → Prop} (hp : GPar par) (s mid : Nat) :
    ∀ (fuel : Nat) (l : L) (s' tok : Nat), FInv False par P l →
      W s mid (par s).maxRtx (cancelToken fuel l s' tok) ≤ W s mid (par s).maxRtx l := by
  intro fuel
  induction fuel with
  | zero => intro l s' tok _; exact Nat.le_refl _
  | succ f ih =>
    intro l s' tok hi
    rcases hrm : removeTok l.q.nodes s' tok with ⟨_ | n, rest⟩
    · have h1 : cancelToken (f + 1) l s' tok = l := by simp only [cancelToken, hrm]
      rw [h1]; exact Nat.le_refl _
    · obtain ⟨l1, hl1⟩ : ∃ l1, l1 = ({ l with q := { l.q with nodes := rest } } : L) := ⟨_, rfl⟩
      obtain ⟨l2, hl2⟩ : ∃ l2, l2 = (if n.con then release l1 s' else l1) := ⟨_, rfl⟩
      have h1 : cancelToken (f + 1) l s' tok = cancelToken f l2 s' tok := by
        simp only [cancelToken, hrm, hl2, hl1]
      rw [h1]
      have hi1 : FInv False par P l1 := by rw [hl1]; exact removedTok_finv l s' tok n rest hrm hi
      have hb := budC_removeTok_le s mid (par s).maxRtx l.q.nodes s' tok
      rw [hrm] at hb
      have e1 : W s mid (par s).maxRtx l1 ≤ W s mid (par s).maxRtx l := by
        rw [hl1]
        simp only [W]
        show txC s mid l.out + budC s mid (par s).maxRtx rest + ((par s).maxRtx + 1) * midC mid (l.getS s).delayq ≤ _
        simp only [] at hb
        omega
      have hk : W s mid (par s).maxRtx l2 = W s mid (par s).maxRtx l1 ∧ FInv False par P l2 := by
        rw [hl2]
        split
        · exact ⟨release_W hp s mid _ s' hi1, (release_finv hp _ s' hi1 (futF _)).1⟩
        · exact ⟨rfl, hi1⟩
      have h3 := ih l2 s' tok hk.2
      omega

/-- `coap_retransmit` of a popped node spends one transmission of its budget, or gives up when none is left -/
theorem retransmit_W {par : Nat → Sess} {P : Nat → Nat → Nat → Prop} (hp : GPar par) (s mid : Nat) (l : L) (n : Node)
    (hi : FInv False par P l) (hn : NodeOk par P n) :
    W s mid (par s).maxRtx (retransmit l n) =
      W s mid (par s).maxRtx l + (if n.sess = s ∧ n.mid = mid then (par s).maxRtx - n.cnt else 0) := by
  obtain ⟨hcon, htok, hT, hcnt, h64, hP⟩ := hn
  obtain ⟨ca, dq, hg, hle, hdq⟩ := hi.sess n.sess
  obtain ⟨hest, hopen, hns, h256⟩ := hp n.sess
  by_cases hc : n.cnt < (par n.sess).maxRtx
  · have hle2 : n.timeout * 2 ^ (n.cnt + 1) ≤ n.timeout * 2 ^ (par n.sess).maxRtx :=
      Nat.mul_le_mul_left _ (Nat.pow_le_pow_right (by decide) hc)
    have hroom : ca - 1 < (par n.sess).nstart := by omega
    have hres := retransmit_resend l n (by rw [hg]; exact hc) (by rw [hg]; exact hest) (by rw [hg]; exact hroom)
      (by omega) (by omega) (Or.inr hi.base)
    have hsess := retransmit_resend_sess l n (by rw [hg]; exact hc) (by rw [hg]; exact hest)
      (by rw [hg]; exact hroom) (by omega) (by omega) hcon
    have hbq : budC s mid (par s).maxRtx
        (enqueue l.q l.now (n.timeout * 2 ^ (n.cnt + 1)) { n with cnt := n.cnt + 1 }).nodes =
        (if n.sess = s ∧ n.mid = mid then (par s).maxRtx - (n.cnt + 1) else 0) + budC s mid (par s).maxRtx l.q.nodes :=
      budC_enqueue s mid (par s).maxRtx l.q l.now _ { n with cnt := n.cnt + 1 } (Or.inr hi.base)
    have hd : ((retransmit l n).getS s).delayq = (l.getS s).delayq := by
      have : (retransmit l n).getS s = (l.setS n.sess { (l.getS n.sess) with
          conActive := ((l.getS n.sess).conActive - 1 + 1) % 256 }).getS s := by
        simp only [L.getS, hsess]
      rw [this]
      exact delayq_setS_keep l n.sess s _ rfl
    have ho : (retransmit l n).out = Out.tx l.now n.sess n.mid (n.cnt + 1) true :: l.out := by rw [hres.1, hcon]
    have hq : (retransmit l n).q.nodes =
        (enqueue l.q l.now (n.timeout * 2 ^ (n.cnt + 1)) { n with cnt := n.cnt + 1 }).nodes := by rw [hres.2.2]
    simp only [W, ho, hq, hd, hbq]
    by_cases hm : n.sess = s ∧ n.mid = mid
    · have hmx : (par s).maxRtx = (par n.sess).maxRtx := by rw [hm.1]
      simp only [txC, hm, and_self, if_true]
      omega
    · simp only [txC, hm, if_false]
      omega
  · have hc' : ¬ n.cnt < (l.getS n.sess).maxRtx := by rw [hg]; exact hc
    have heq : retransmit l n = (release l n.sess).emit (.nack (release l n.sess).now n.sess .retries n.mid true) := by
      unfold retransmit
      simp [hc', hcon]
    rw [heq, W_emit_other _ _ _ _ _ (by intros; simp), release_W hp s mid l n.sess hi]
    by_cases hm : n.sess = s ∧ n.mid = mid
    · have hmx : (par s).maxRtx = (par n.sess).maxRtx := by rw [hm.1]
      simp only [hm, and_self, if_true]
      omega
    · simp only [hm, if_false, Nat.add_zero]

theorem dueLoop_W {par : Nat → Sess} {P : Nat → Nat → Nat → Prop} (hp : GPar par) (s mid : Nat) :
    ∀ (f : Nat) (l : L), FInv False par P l →
      W s mid (par s).maxRtx (dueLoop f l) = W s mid (par s).maxRtx l := by
  intro f
  induction f with
  | zero => intro l _; rfl
  | succ f ih =>
    intro l hi
    cases hn : l.q.nodes with
    | nil =>
      have hnd : NothingDue l := by rw [nothingDue_iff]; intro h r hh; rw [hn] at hh; cases hh
      rw [dueLoop_not_due _ l hnd]
    | cons hd r =>
      by_cases hdue : l.q.base + hd.t ≤ l.now
      · obtain ⟨rest, hpop, _, hloop⟩ := dueLoop_due f l hd r hn hi.base hdue
        rw [hloop]
        have hab := absP_popNext (mxOf par) l.q.base l.q.nodes hd rest hpop
        have hall := all_popNext (nodeOk_tfree par P) l.q.nodes hd rest hpop hi.nodes
        have hi1 : FInv False par P { l with q := { l.q with nodes := rest } } :=
          ⟨hi.base, hi.sess, hall.2, fun p hp' => hi.pend p (by rw [hab]; exact List.mem_cons_of_mem _ hp'), hi.outs⟩
        have hpc := budC_popNext s mid (par s).maxRtx l.q.nodes hd rest hpop
        have hr := retransmit_W hp s mid _ hd hi1 hall.1
        have hi2 := (retransmit_finv hp _ hd hi1 (futF _) hall.1 (fun h => h.elim)).1
        have e1 : W s mid (par s).maxRtx ({ l with q := { l.q with nodes := rest } } : L) +
            (if hd.sess = s ∧ hd.mid = mid then (par s).maxRtx - hd.cnt else 0) = W s mid (par s).maxRtx l := by
          simp only [W]
          show txC s mid l.out + budC s mid (par s).maxRtx rest +
            ((par s).maxRtx + 1) * midC mid (l.getS s).delayq + _ = _
          omega
        rw [ih _ hi2, hr]
        exact e1
      · have hnd : NothingDue l := by
          rw [nothingDue_iff]; intro h r' hh; rw [hn] at hh; cases hh; omega
        rw [dueLoop_not_due _ l hnd]

theorem afterRx_W {par : Nat → Sess} {P : Nat → Nat → Nat → Prop} (hp : GPar par) (s mid : Nat) (l : L)
    (hi : FInv False par P l) : W s mid (par s).maxRtx (afterRx l) = W s mid (par s).maxRtx l := by
  unfold afterRx
  rw [prepareCore_fst]
  exact dueLoop_W hp s mid _ l hi

theorem W_removed_le (s mid mx : Nat) (l : L) (s' m' : Nat) :
    W s mid mx ({ l with q := { l.q with nodes := (removeNode l.q.nodes s' m').2 } } : L) ≤ W s mid mx l := by
  have := budC_removeNode_le s mid mx l.q.nodes s' m'
  simp only [W]
  show txC s mid l.out + budC s mid mx (removeNode l.q.nodes s' m').2 + (mx + 1) * midC mid (l.getS s).delayq ≤ _
  omega

theorem step_W {par : Nat → Sess} {P : Nat → Nat → Nat → Prop} (hp : GPar par) (s mid : Nat) (l : L) (ev : Ev)
    (hi : FInv False par P l) (hok : EvG l ev) :
    W s mid (par s).maxRtx (Msg.step l ev) ≤ W s mid (par s).maxRtx l + ((par s).maxRtx + 1) * accW s mid l ev := by
  cases ev with
  | setNow t => exact Nat.le_add_right _ _
  | prepare =>
    have hk := dueLoop_W hp s mid (dueFuel l) l hi
    simp only [Msg.step, prepare, accW, Nat.mul_zero, Nat.add_zero]
    rcases hpc : prepareCore l with ⟨l', w⟩
    have e : l' = dueLoop (dueFuel l) l := by rw [← prepareCore_fst, hpc]
    subst e
    rw [W_emit_other _ _ _ _ _ (by intros; simp), hk]
    exact Nat.le_refl _
  | submit s' con m' r =>
    obtain ⟨ca, dq, hg, hle, hdq⟩ := hi.sess s'
    obtain ⟨hest, hopen, hns, h256⟩ := hp s'
    have hso : (l.getS s').sockOpen = true := by rw [hg]; exact hopen
    cases con with
    | false =>
      have he : (l.getS s').est = true := by rw [hg]; exact hest
      have hM : Msg.step l (.submit s' false m' r) =
          (l.emit (.tx l.now s' m' 0 false)).emit (.sub (some m')) := by
        simp [Msg.step, submit, hso, gate, he]
      rw [hM, W_emit_other _ _ _ _ _ (by intros; simp), W_emit_other _ _ _ _ _ (by intros; simp)]
      exact Nat.le_add_right _ _
    | true =>
    by_cases hroom : ca < (par s').nstart
    · have hgt : gate (l.getS s') true = false := by
        have : ¬ ((l.getS s').conActive ≥ (l.getS s').nstart) := by rw [hg]; simp only []; omega
        have he : (l.getS s').est = true := by rw [hg]; exact hest
        simp [gate, he, this]
      have hM : Msg.step l (.submit s' true m' r) =
          (waitAck ((l.emit (.tx l.now s' m' 0 true)).setS s'
              { (l.getS s') with conActive := ((l.getS s').conActive + 1) % 256 })
            { sess := s', mid := m', t := 0,
              timeout := calcTimeout (l.getS s').atI (l.getS s').atF (l.getS s').arfI (l.getS s').arfF r,
              cnt := 0, tok := m', con := true }).emit (.sub (some m')) := by
        simp only [Msg.step, submit, hso, hgt]
        simp
      have hacc : accW s mid l (.submit s' true m' r) = (if s' = s ∧ m' = mid then 1 else 0) := by
        simp [accW, hgt]
      rw [hM, hacc, W_emit_other _ _ _ _ _ (by intros; simp)]
      generalize calcTimeout (l.getS s').atI (l.getS s').atF (l.getS s').arfI (l.getS s').arfF r = T
      have hbq : budC s mid (par s).maxRtx (enqueue l.q l.now (T * 2 ^ 0 % 4294967296)
          { sess := s', mid := m', t := 0, timeout := T, cnt := 0, tok := m', con := true }).nodes =
          (if s' = s ∧ m' = mid then (par s).maxRtx else 0) + budC s mid (par s).maxRtx l.q.nodes :=
        budC_enqueue s mid (par s).maxRtx l.q l.now _ _ (Or.inr hi.base)
      have hd : (L.getS (L.setS (l.emit (.tx l.now s' m' 0 true)) s'
          { (l.getS s') with conActive := ((l.getS s').conActive + 1) % 256 }) s).delayq = (l.getS s).delayq :=
        delayq_setS_keep (l.emit (.tx l.now s' m' 0 true)) s' s
          { (l.getS s') with conActive := ((l.getS s').conActive + 1) % 256 } rfl
      simp only [W]
      show txC s mid (_ :: l.out) + budC s mid (par s).maxRtx (enqueue l.q l.now _ _).nodes +
        ((par s).maxRtx + 1) * midC mid (L.getS (L.setS (l.emit _) s' _) s).delayq ≤ _
      rw [hbq, hd]
      by_cases hm : s' = s ∧ m' = mid
      · simp only [txC, hm, and_self, if_true, Nat.mul_one]
        omega
      · simp only [txC, hm, if_false, Nat.mul_zero]
        omega
    · have hgt : gate (l.getS s') true = true := by
        have : (l.getS s').conActive ≥ (l.getS s').nstart := by rw [hg]; simp only []; omega
        simp [gate, this]
      by_cases hany : (l.getS s').delayq.any (fun x => x.mid = m') = true
      · have hM : Msg.step l (.submit s' true m' r) = l.emit (.sub none) := by
          simp only [Msg.step, submit, hso, hgt]
          simp only [Bool.not_true, Bool.false_eq_true, if_false, if_true]
          rw [if_pos]
          simpa using hany
        rw [hM, W_emit_other _ _ _ _ _ (by intros; simp)]
        exact Nat.le_add_right _ _
      · have hM : Msg.step l (.submit s' true m' r) =
            (l.setS s' { (l.getS s') with delayq := (l.getS s').delayq ++
              [{ sess := s', mid := m', t := 0,
                 timeout := calcTimeout (l.getS s').atI (l.getS s').atF (l.getS s').arfI (l.getS s').arfF r,
                 cnt := 0, tok := m', con := true }] }).emit (.sub (some m')) := by
          simp only [Msg.step, submit, hso, hgt]
          simp only [Bool.not_true, Bool.false_eq_true, if_false, if_true]
          rw [if_neg]
          simpa using hany
        have hacc : accW s mid l (.submit s' true m' r) = (if s' = s ∧ m' = mid then 1 else 0) := by
          simp [accW, hgt, hany]
        rw [hM, hacc, W_emit_other _ _ _ _ _ (by intros; simp)]
        generalize calcTimeout (l.getS s').atI (l.getS s').atF (l.getS s').arfI (l.getS s').arfF r = T
        have hin : s' < l.sess.length := by
          apply Classical.byContradiction
          intro hn
          have hdflt := getS_default hn
          rw [hdflt] at hgt
          simp [gate] at hgt
        have hd : midC mid ((l.setS s' { (l.getS s') with delayq := (l.getS s').delayq ++
              [{ sess := s', mid := m', t := 0, timeout := T, cnt := 0, tok := m', con := true }] }).getS s).delayq =
            midC mid (l.getS s).delayq + (if s' = s ∧ m' = mid then 1 else 0) := by
          by_cases hss : s' = s
          · subst hss
            rw [getS_setS_in _ hin]
            simp only [midC_append, midC, true_and, Nat.add_zero]
          · rw [getS_setS_ne _ hss]
            simp [hss]
        simp only [W]
        show txC s mid l.out + budC s mid (par s).maxRtx l.q.nodes +
          ((par s).maxRtx + 1) * midC mid (L.getS (L.setS l s' _) s).delayq ≤ _
        rw [hd, Nat.mul_add]
        omega
  | rxAck s' m' =>
    obtain ⟨ca, dq, hg, hle, hdq⟩ := hi.sess s'
    have hso : (l.getS s').sockOpen = true := by rw [hg]; exact (hp s').2.1
    obtain ⟨hi1, _, _⟩ := removed_finv l s' m' hi (futF l)
    have hle1 := W_removed_le s mid (par s).maxRtx l s' m'
    simp only [Msg.step, hso, if_true, accW, Nat.mul_zero, Nat.add_zero]
    have hk1 : W s mid (par s).maxRtx (rxAck l s' m') =
        W s mid (par s).maxRtx ({ l with q := { l.q with nodes := (removeNode l.q.nodes s' m').2 } } : L) ∧
        FInv False par P (rxAck l s' m') := by
      unfold rxAck
      rcases hrm : removeNode l.q.nodes s' m' with ⟨sent, rest⟩
      rw [hrm] at hi1
      cases sent with
      | none => exact ⟨rfl, hi1⟩
      | some n => exact ⟨release_W hp s mid _ s' hi1, (release_finv hp _ s' hi1 (futF _)).1⟩
    rw [afterRx_W hp s mid _ hk1.2, hk1.1]
    exact hle1
  | rxRst s' m' =>
    obtain ⟨ca, dq, hg, hle, hdq⟩ := hi.sess s'
    have hso : (l.getS s').sockOpen = true := by rw [hg]; exact (hp s').2.1
    obtain ⟨hi1, _, hkey⟩ := removed_finv l s' m' hi (futF l)
    have hle1 := W_removed_le s mid (par s).maxRtx l s' m'
    simp only [Msg.step, hso, if_true, accW, Nat.mul_zero, Nat.add_zero]
    have hk1 : W s mid (par s).maxRtx (rxRst l s' m') =
        W s mid (par s).maxRtx ({ l with q := { l.q with nodes := (removeNode l.q.nodes s' m').2 } } : L) ∧
        FInv False par P (rxRst l s' m') := by
      unfold rxRst
      rcases hrm : removeNode l.q.nodes s' m' with ⟨sent, rest⟩
      rw [hrm] at hi1 hkey
      simp only [] at hi1 hkey ⊢
      cases sent with
      | none =>
        exact ⟨W_emit_other _ _ _ _ _ (by intros; simp), finv_emit_other _ hi1 ⟨by intros; simp, by intros; simp⟩⟩
      | some n =>
        simp only [(hkey n rfl).1, if_true]
        have hf := (release_finv hp _ s' hi1 (futF _)).1
        exact ⟨(W_emit_other _ _ _ _ _ (by intros; simp)).trans (release_W hp s mid _ s' hi1),
          finv_emit_other _ hf ⟨by intros; simp, by intros; simp⟩⟩
    rw [afterRx_W hp s mid _ hk1.2, hk1.1]
    exact hle1
  | rxNon s' m' tok =>
    obtain ⟨ca, dq, hg, hle, hdq⟩ := hi.sess s'
    have hso : (l.getS s').sockOpen = true := by rw [hg]; exact (hp s').2.1
    simp only [Msg.step, hso, if_true, accW, Nat.mul_zero, Nat.add_zero]
    have hc := cancelToken_W hp s mid (l.q.nodes.length + 1) l s' tok hi
    have hcf := (cancelToken_finv hp (l.q.nodes.length + 1) l s' tok hi (futF l)).1
    have hfe : FInv False par P (rxNon l s' m' tok) := finv_emit_other _ hcf ⟨by intros; simp, by intros; simp⟩
    have he : W s mid (par s).maxRtx (rxNon l s' m' tok) =
        W s mid (par s).maxRtx (cancelToken (l.q.nodes.length + 1) l s' tok) :=
      W_emit_other _ _ _ _ _ (by intros; simp)
    rw [afterRx_W hp s mid _ hfe, he]
    exact hc
  | rxBad s' m' =>
    obtain ⟨ca, dq, hg, hle, hdq⟩ := hi.sess s'
    have hso : (l.getS s').sockOpen = true := by rw [hg]; exact (hp s').2.1
    obtain ⟨hi1, _, _⟩ := removed_finv l s' m' hi (futF l)
    have hle1 := W_removed_le s mid (par s).maxRtx l s' m'
    simp only [Msg.step, hso, if_true, accW, Nat.mul_zero, Nat.add_zero]
    have hk1 : W s mid (par s).maxRtx (rxBad l s' m') =
        W s mid (par s).maxRtx ({ l with q := { l.q with nodes := (removeNode l.q.nodes s' m').2 } } : L) ∧
        FInv False par P (rxBad l s' m') := by
      unfold rxBad
      rcases hrm : removeNode l.q.nodes s' m' with ⟨sent, rest⟩
      rw [hrm] at hi1
      cases sent with
      | none => exact ⟨rfl, hi1⟩
      | some n =>
        exact ⟨(W_emit_other _ _ _ _ _ (by intros; simp)).trans (release_W hp s mid _ s' hi1),
          finv_emit_other _ (release_finv hp _ s' hi1 (futF _)).1 ⟨by intros; simp, by intros; simp⟩⟩
    rw [afterRx_W hp s mid _ hk1.2, hk1.1]
    exact hle1
  | hold s' => exact absurd hok (by simp [EvG])
  | connect s' =>
    simp only [Msg.step, accW, Nat.mul_zero, Nat.add_zero]
    rw [connected_W hp s mid l s' hi]
    exact Nat.le_refl _
  | disconnect s' => exact absurd hok (by simp [EvG])

theorem run_W {par : Nat → Sess} {P : Nat → Nat → Nat → Prop} (hp : GPar par) (s mid : Nat) :
    ∀ (evs : List Ev) (l : L), FInv False par P l → RunG l evs →
      (∀ s mid r, Ev.submit s true mid r ∈ evs → P s mid (calcTimeout (par s).atI (par s).atF (par s).arfI (par s).arfF r)) →
      W s mid (par s).maxRtx (Msg.run l evs) ≤ W s mid (par s).maxRtx l + ((par s).maxRtx + 1) * accC s mid l evs := by
  intro evs
  induction evs with
  | nil => intro l _ _ _; exact Nat.le_add_right _ _
  | cons ev evs ih =>
    intro l hi hin hP
    have hi1 := step_finv (pu := False) hp l ev hi hin.1 (fun h => h.elim) (fun s mid r h => hP s mid r (by simp [h]))
    have h1 := step_W hp s mid l ev hi hin.1
    have h2 := ih _ hi1 hin.2 (fun s mid r h => hP s mid r (by simp [h]))
    simp only [Msg.run, List.foldl_cons, accC, Nat.mul_add] at h2 ⊢
    omega

theorem W_init (s mid mx now0 : Nat) (sess : List Sess) (h : ∀ se ∈ sess, SessOk se) :
    W s mid mx (Msg.init now0 sess) = 0 := by
  have := (parOf_ok sess h s).2.1
  simp only [W, Msg.init, txC, budC]
  show 0 + 0 + (mx + 1) * midC mid (parOf sess s).delayq = 0
  rw [this]; rfl

end Coap.Sched

/-! ### counting the distinct retransmission numbers of a message -/
namespace Coap.Sched
open Coap Coap.SQ Coap.Msg Coap.Timer Coap.Sim

/-- the retransmission numbers of the Confirmable (s, mid) transmitted so far -/
def txKs (s mid : Nat) : List Out → List Nat
  | [] => []
  | o :: r => (match o with
      | .tx _ s' m' k true => if s' = s ∧ m' = mid then [k] else []
      | _ => []) ++ txKs s mid r

theorem txKs_length (s mid : Nat) (out : List Out) : (txKs s mid out).length = txC s mid out := by
  induction out with
  | nil => rfl
  | cons o r ih =>
    cases o with
    | tx t s' m' k c =>
      cases c with
      | true => by_cases h : s' = s ∧ m' = mid <;> simp [txKs, txC, h, ih] <;> omega
      | false => simp [txKs, txC, ih]
    | _ => simp [txKs, txC, ih]

theorem mem_txKs {s mid : Nat} {out : List Out} {t k : Nat} (h : Out.tx t s mid k true ∈ out) : k ∈ txKs s mid out := by
  induction out with
  | nil => cases h
  | cons o r ih =>
    simp only [List.mem_cons] at h
    rcases h with rfl | h
    · simp [txKs]
    · simp only [txKs, List.mem_append]
      exact Or.inr (ih h)

/-- if transmissions number 0 … c of (s, mid) have all been made, at least c + 1 transmissions have been made -/
theorem txC_ge (s mid c : Nat) (out : List Out) (f : Nat → Nat)
    (h : ∀ j, j ≤ c → Out.tx (f j) s mid j true ∈ out) : c + 1 ≤ txC s mid out := by
  rw [← txKs_length]
  have hsub : List.range (c + 1) ⊆ txKs s mid out := by
    intro j hj
    exact mem_txKs (h j (by simpa [Nat.lt_succ_iff] using hj))
  have := List.Nodup.length_le_of_subset List.nodup_range hsub
  simpa using this

theorem mem_absP_of_mem (mx : Nat → Nat) (b : Nat) (l : List Node) (n : Node) (h : n ∈ l) :
    ∃ d, (d, toP mx n) ∈ absP mx b l := by
  induction l generalizing b with
  | nil => cases h
  | cons a r ih =>
    simp only [List.mem_cons] at h
    rcases h with rfl | h
    · exact ⟨b + n.t, by simp [absP]⟩
    · obtain ⟨d, hd⟩ := ih (b + a.t) h
      exact ⟨d, by simp [absP, hd]⟩

theorem pendC_pos_mem (s mid : Nat) (l : List Node) (n : Node) (h : n ∈ l) (hs : n.sess = s) (hm : n.mid = mid) :
    1 ≤ pendC s mid l := by
  induction l with
  | nil => cases h
  | cons a r ih =>
    simp only [List.mem_cons] at h
    rcases h with rfl | h
    · simp [pendC, hs, hm]
    · have := ih h
      simp only [pendC]; omega

theorem budC_ge_mem (s mid mx : Nat) (l : List Node) (n : Node) (h : n ∈ l) (hs : n.sess = s) (hm : n.mid = mid) :
    mx - n.cnt ≤ budC s mid mx l := by
  induction l with
  | nil => cases h
  | cons a r ih =>
    simp only [List.mem_cons] at h
    rcases h with rfl | h
    · simp [budC, hs, hm]
    · have := ih h
      simp only [budC]; omega

end Coap.Sched
