import CoapVerif.Lemmas.ObserveWake
/- C11 (1), the hypothesis "fewer than 2^23 changes" tied to the EVENTS of a run: the ghost version moves by at most one per
   `chg` / `del` event, and a notification never reports a version older than the resource had at the start. -/
namespace Coap.Observe
open Coap.Generated

/-! ### the ghost version counter moves only with `chg` / `del` events, by at most one per event -/
/-- 1 for the events that signal a change (coap_resource_notify_observers; coap_delete_resource signals one more), else 0 -/
def chgCount : Event → Nat
  | .chg _ => 1
  | .del _ => 1
  | _ => 0

def VerLe (k : Nat) (a b : List Res) : Prop := All2 (fun y' y => y'.id = y.id ∧ y'.ver ≤ y.ver + k) a b

theorem VerLe.refl (a : List Res) : VerLe 0 a a := All2.refl (fun _ => ⟨rfl, Nat.le_refl _⟩) a

theorem VerLe.trans {k1 k2 : Nat} {a b c : List Res} (h1 : VerLe k1 a b) (h2 : VerLe k2 b c) : VerLe (k1 + k2) a c := by
  refine All2.trans' ?_ h1 h2
  intro x y z hxy hyz
  exact ⟨hxy.1.trans hyz.1, by have := hxy.2; have := hyz.2; omega⟩

theorem VerLe.of_le {a b : List Res} (h : AllLeF a b) : VerLe 0 a b :=
  All2.mono (fun h' => ⟨h'.id, by rw [h'.ver]; exact Nat.le_refl _⟩) h

theorem VerLe.of_eq {a b : List Res} (h : a = b) : VerLe 0 a b := h ▸ VerLe.refl a

theorem VerLe.of_map {k : Nat} (l : List Res) (f : Res → Res) (hf : ∀ y, (f y).id = y.id ∧ (f y).ver ≤ y.ver + k) :
    VerLe k (l.map f) l := All2.of_map f l (fun y _ => hf y)

theorem VerLe.mono {k k' : Nat} {a b : List Res} (h : VerLe k a b) (hk : k ≤ k') : VerLe k' a b :=
  All2.mono (fun h' => ⟨h'.1, by have := h'.2; omega⟩) h

theorem notifyRes_idver (d : Bool) (r : Res) (st : State) : (notifyRes d r st).1.id = r.id ∧ (notifyRes d r st).1.ver = r.ver := by
  unfold notifyRes; split <;> exact ⟨rfl, rfl⟩

theorem notifyAll_verLe : ∀ (rs : List Res) (st : State), VerLe 0 (notifyAll rs st).1 rs
  | [], _ => All2.nil
  | r :: rest, st => by
    unfold notifyAll
    have := notifyRes_idver false r st
    exact All2.cons ⟨this.1, by rw [this.2]; exact Nat.le_refl _⟩ (notifyAll_verLe rest _)

theorem io_verLe (st : State) : VerLe 0 (io st).1.res st.res := by
  unfold io
  dsimp only
  have h1 : VerLe 0 (checkNotify st).1.res st.res := by
    unfold checkNotify
    split
    · exact notifyAll_verLe _ _
    · exact VerLe.refl _
  have h2 : VerLe 0 (reclaim (retransmitDue ((checkNotify st).1.sendq.length + 1) (checkNotify st).1).1).res (checkNotify st).1.res := by
    simp only [reclaim_res]; exact VerLe.of_le (retransmitDue_leF _ _)
  exact h2.trans h1

theorem request_verLe (st : State) (o : Option Nat) (c r tok key : Nat) (con : Bool) (mid : Nat) (hid : IdsNodup st) :
    VerLe 0 (request st o c r tok key con mid).1.res st.res := by
  unfold request
  dsimp only
  split
  · exact VerLe.refl _
  · have h1 : VerLe 0 (match o with
               | some 0 => touchObserver (addObserver (rxSession st c) r c tok key) c tok
               | some 1 => deleteObserverRequest (rxSession st c) r c tok key
               | _ => rxSession st c).res st.res := by
      split
      · obtain ⟨m, hm⟩ := addObserver_res (rxSession st c) r c tok key hid
        have ha : VerLe 0 (addObserver (rxSession st c) r c tok key).res st.res := by
          rw [hm]
          refine VerLe.of_map _ _ (fun y => ?_)
          unfold addR
          split
          · have hf := addToRes_fields y c tok key m
            exact ⟨hf.1, by rw [hf.2.2.2.2.2.2.1]; exact Nat.le_refl _⟩
          · exact ⟨rfl, Nat.le_refl _⟩
        exact (VerLe.of_le (touchObserver_leF ..)).trans ha
      · exact VerLe.of_le (deleteObserverRequest_leF ..)
      · exact VerLe.refl _
    split
    · split
      · simp only [txStamp_res]; exact (VerLe.of_le (deleteObserver_leF ..)).trans h1
      · exact h1
    · exact h1

theorem change_verLe (st : State) (r : Nat) : VerLe 1 (change st r).res st.res := by
  unfold change
  split
  · exact (VerLe.refl _).mono (by omega)
  · split
    · exact (VerLe.refl _).mono (by omega)
    · show VerLe 1 (modRes st r _).res st.res
      unfold modRes mapRes
      refine VerLe.of_map _ _ (fun y => ?_)
      split
      · exact ⟨rfl, Nat.le_refl _⟩
      · exact ⟨rfl, by omega⟩

theorem deleteResource_verLe (st : State) (r : Nat) : VerLe 1 (deleteResource st r).1.res st.res := by
  unfold deleteResource
  split
  · exact (VerLe.refl _).mono (by omega)
  · dsimp only
    split
    · exact change_verLe st r
    · rename_i x1 _
      have : VerLe 0 (modRes (releaseAll (notifyRes true x1 (change st r)).2.1 (notifyRes true x1 (change st r)).1.subs) r
          fun y => { y with alive := false, subs := [], dirty := false, pdirty := (notifyRes true x1 (change st r)).1.pdirty }).res
          (change st r).res := by
        unfold modRes mapRes
        dsimp only
        rw [releaseAll_res, notifyRes_res]
        refine VerLe.of_map _ _ (fun y => ?_)
        split <;> exact ⟨rfl, Nat.le_refl _⟩
      exact this.trans (change_verLe st r)

theorem step_verLe (st : State) (e : Event) (hid : IdsNodup st) : VerLe (chgCount e) (step st e).1.res st.res := by
  cases e with
  | reg c r tok key con mid => exact (io_verLe _).trans (request_verLe st _ c r tok key con mid hid)
  | can c r tok key con mid => exact (io_verLe _).trans (request_verLe st _ c r tok key con mid hid)
  | get c r tok key con mid => exact (io_verLe _).trans (request_verLe st _ c r tok key con mid hid)
  | chg r => exact change_verLe st r
  | adv ms => exact io_verLe _
  | ack c n =>
    show VerLe 0 _ _
    unfold step; dsimp only
    split
    · split
      · exact (io_verLe _).trans (VerLe.of_le (handleAck_leF ..))
      · exact VerLe.refl _
    · exact VerLe.refl _
  | rst c n =>
    show VerLe 0 _ _
    unfold step; dsimp only
    split
    · exact (io_verLe _).trans (VerLe.of_le (handleRst_leF ..))
    · exact VerLe.refl _
  | err r b =>
    show VerLe 0 (modRes st r _).res st.res
    unfold modRes mapRes
    refine VerLe.of_map _ _ (fun y => ?_)
    split <;> exact ⟨rfl, Nat.le_refl _⟩
  | lost c => exact VerLe.of_le (sessionLost_leF ..)
  | del r => exact deleteResource_verLe st r

/-- number of change-signalling events of a run -/
def chgTotal (evs : List Event) : Nat := (evs.map chgCount).sum

theorem run_verLe : ∀ (evs : List Event) (st : State), IdsNodup st → VerLe (chgTotal evs) (run st evs).1.res st.res
  | [], st, _ => VerLe.refl _
  | e :: es, st, hid => by
    rw [run_cons]
    have h1 := step_verLe st e hid
    have h2 := run_verLe es (step st e).1 (step_idsNodup st e hid)
    have := h2.trans h1
    unfold chgTotal
    simp only [List.map_cons, List.sum_cons]
    unfold chgTotal at this
    rw [Nat.add_comm]
    exact this

/-- versions only grow, and a notification never reports an older version than the resource had at the start -/
structure LowInv (v0 : Nat) (y : Res) (acc : List Out) : Prop where
  cur : v0 ≤ y.ver
  outs : ∀ a ∈ acc, isNotif a = true → v0 ≤ a.ver

theorem LowInv.micro {A : Nat → Nat → Nat → Prop} (v0 : Nat) (y : Res) (o : List Out) (y' : Res) (acc : List Out)
    (h : LowInv v0 y acc) (hm : Micro A y o y') : LowInv v0 y' (acc ++ o) := by
  cases hm with
  | le hle => rw [List.append_nil]; exact ⟨by rw [hle.ver]; exact h.cur, h.outs⟩
  | errFlag b' => rw [List.append_nil]; exact ⟨h.cur, h.outs⟩
  | change => rw [List.append_nil]; exact ⟨Nat.le_succ_of_le h.cur, h.outs⟩
  | register c' tok' key m out hA hal herr htag =>
    have hf := addToRes_fields y c' tok' key m
    refine ⟨by rw [hf.2.2.2.2.2.2.1]; exact h.cur, ?_⟩
    intro a ha hn
    rcases List.mem_append.mp ha with ha | ha
    · exact h.outs a ha hn
    · simp at ha; subst ha; simp [isNotif, htag] at hn
  | resp out htag _ =>
    refine ⟨h.cur, ?_⟩
    intro a ha hn
    rcases List.mem_append.mp ha with ha | ha
    · exact h.outs a ha hn
    · simp at ha; subst ha; simp [isNotif, htag] at hn
  | notify hal hv =>
    refine ⟨h.cur, ?_⟩
    intro a ha hn
    rcases List.mem_append.mp ha with ha | ha
    · exact h.outs a ha hn
    · rw [(hv.notif_fields a ha hn).2]; exact h.cur
  | bye pd' hal hv =>
    refine ⟨h.cur, ?_⟩
    intro a ha hn
    rcases List.mem_append.mp ha with ha | ha
    · exact h.outs a ha hn
    · rw [hv.bye_outs a ha] at hn; cases hn
  | clean hc => rw [List.append_nil]; exact ⟨h.cur, h.outs⟩
  | delete pd => rw [List.append_nil]; exact ⟨h.cur, h.outs⟩

theorem run_lowInv (st : State) (evs : List Event) (hid : IdsNodup st) (v0 : Nat → Nat) (h0 : ∀ y ∈ st.res, v0 y.id ≤ y.ver) :
    ResInv (fun y acc => LowInv (v0 y.id) y acc) (run st evs).1 (run st evs).2 := by
  have := run_resInv (Q := fun y acc => LowInv (v0 y.id) y acc) (fun _ => True)
    (fun e _ y o y' a hq hm => by
      show LowInv (v0 y'.id) y' (a ++ o)
      rw [hm.fixed.1]; exact LowInv.micro (v0 y.id) y o y' a hq hm)
    evs st [] hid (fun _ _ => trivial) (fun y hy => ⟨h0 y hy, fun a ha => by cases ha⟩)
  simpa using this
end Coap.Observe
