import CoapVerif.Model.ObserveWait
/- Helper lemmas for C06 section (12): the wait `coap_io_prepare_io_lkd` returns on C11's server model (Model/ObserveWait.lean). -/
namespace Coap.ObsWait
open Coap.Observe

/-- no unreferenced server session is past its idle timeout (what the session loop of `coap_io_prepare_io_lkd` — `reclaim` —
leaves behind) -/
def NoExpired (st : State) : Prop :=
  ∀ c s, st.sess c = some s → s.ref = 0 → st.now < s.lastRxTx + st.stTicks

theorem reclaim_noExpired (st : State) : NoExpired (reclaim st) := by
  intro c s hs hr
  simp only [reclaim] at hs ⊢
  cases h : st.sess c with
  | none => simp [h] at hs
  | some s0 =>
    simp only [h] at hs
    split at hs
    · cases hs
    · rename_i hne
      cases hs
      omega

theorem idleStep_bounds (st : State) (hid : NoExpired st) (t c : Nat) (ht : 0 < t) :
    0 < idleStep st t c ∧ idleStep st t c ≤ t := by
  unfold idleStep
  cases h : st.sess c with
  | none => exact ⟨ht, Nat.le_refl _⟩
  | some s =>
    simp only
    by_cases hr : s.ref = 0
    · have := hid c s h hr
      simp only [hr, if_true]
      by_cases hc : t = 0 ∨ s.lastRxTx + st.stTicks - st.now < t
      · simp only [hc, if_true]
        rcases hc with hc | hc
        · omega
        · omega
      · simp only [hc, if_false]
        exact ⟨ht, Nat.le_refl _⟩
    · simp only [hr, if_false]
      exact ⟨ht, Nat.le_refl _⟩

theorem idleFold_bounds (st : State) (hid : NoExpired st) :
    ∀ (l : List Nat) (t : Nat), 0 < t → 0 < l.foldl (idleStep st) t ∧ l.foldl (idleStep st) t ≤ t
  | [], t, ht => ⟨ht, Nat.le_refl _⟩
  | c :: cs, t, ht => by
    have h1 := idleStep_bounds st hid t c ht
    have h2 := idleFold_bounds st hid cs (idleStep st t c) h1.1
    simp only [List.foldl_cons]
    exact ⟨h2.1, Nat.le_trans h2.2 h1.2⟩

theorem wait_le_every_deadline_of (st : State) (ncli : Nat)
    (hsorted : st.sendq.Pairwise (fun a b => a.due ≤ b.due))
    (hnd : ∀ q ∈ st.sendq, st.now < q.due) (hid : NoExpired st) :
    ∀ q ∈ st.sendq, 0 < tickWait st ncli ∧ tickWait st ncli ≤ q.due - st.now ∧
      waitOf st ncli ≤ q.due - st.now ∧ (tickWait st ncli < 4294967296 → waitOf st ncli = tickWait st ncli) := by
  intro q hq
  have hw : waitOf st ncli = tickWait st ncli % 4294967296 := by
    unfold waitOf
    have : (tickWait st ncli * 1000 + 999) / 1000 = tickWait st ncli := by omega
    rw [this]
  cases hsq : st.sendq with
  | nil => rw [hsq] at hq; cases hq
  | cons h rest =>
    rw [hsq] at hq hsorted hnd
    have hh : st.now < h.due := hnd h (List.mem_cons_self ..)
    have hqw : qWait st = h.due - st.now := by simp [qWait, hsq]
    have hb := idleFold_bounds st hid (List.range ncli) (qWait st) (by omega)
    have hle : h.due ≤ q.due := by
      rcases List.mem_cons.mp hq with he | hm
      · rw [he]; exact Nat.le_refl _
      · exact (List.pairwise_cons.mp hsorted).1 q hm
    have ht : tickWait st ncli ≤ q.due - st.now := by
      unfold tickWait; omega
    refine ⟨hb.1, ht, ?_, ?_⟩
    · rw [hw]; exact Nat.le_trans (Nat.mod_le _ _) ht
    · intro hlt; rw [hw]; exact Nat.mod_eq_of_lt hlt

theorem io_noExpired (st : State) : NoExpired (io st).1 := by
  rcases h1 : checkNotify st with ⟨st1, o1⟩
  rcases h2 : retransmitDue (st1.sendq.length + 1) st1 with ⟨st2, o2⟩
  have : (io st).1 = reclaim st2 := by simp only [io, h1, h2]
  rw [this]
  exact reclaim_noExpired _

end Coap.ObsWait
