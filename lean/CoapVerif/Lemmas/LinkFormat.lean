import CoapVerif.Model.LinkFormat
/- Helper lemmas for C20: the output macros write exactly a window; the filter loop is the specification's filter. -/
namespace Coap.M.LF
open Coap Coap.LF

/-! ### the writer: closed form of COPY_COND_WITH_OFFSET from any state -/

theorem copy_nil (w : W) : copy w [] = w := rfl
theorem copy_cons (w : W) (c : UInt8) (s : Bytes) : copy w (c :: s) = copy (putc w c) s := rfl
theorem copy_append (w : W) (a b : Bytes) : copy w (a ++ b) = copy (copy w a) b := by
  simp [copy, List.foldl_append]
theorem putc_eq_copy (w : W) (c : UInt8) : putc w c = copy w [c] := rfl

/-- one byte through PRINT_COND_WITH_OFFSET, the three cases -/
theorem putc_full (w : W) (c : UInt8) (h : w.room = 0) : putc w c = { w with result := w.result + 1 } := by
  simp [putc, h]
theorem putc_store (w : W) (c : UInt8) (r : Nat) (h : w.room = r + 1) (ho : w.offset = 0) :
    putc w c = ⟨w.out ++ [c], r, 0, w.result + 1⟩ := by
  simp [putc, h, ho]
theorem putc_skip (w : W) (c : UInt8) (r o : Nat) (h : w.room = r + 1) (ho : w.offset = o + 1) :
    putc w c = ⟨w.out, r + 1, o, w.result + 1⟩ := by
  simp [putc, h, ho]

/-- **key lemma**: sending the bytes `s` through the macros from state `w` appends exactly the
window `(s.drop offset).take room`, consumes `offset` (only while there is room) and counts `s`. -/
theorem copy_closed (s : Bytes) (w : W) :
    copy w s = ⟨w.out ++ (s.drop w.offset).take w.room,
                w.room - ((s.drop w.offset).take w.room).length,
                if w.room = 0 then w.offset else w.offset - s.length,
                w.result + s.length⟩ := by
  induction s generalizing w with
  | nil => cases w; simp [copy]
  | cons c s ih =>
    rw [copy_cons, ih]
    rcases w with ⟨out, room, offset, result⟩
    cases room with
    | zero => simp [putc]; omega
    | succ r =>
      cases offset with
      | zero =>
        rw [putc_store _ c r rfl rfl]
        simp
        omega
      | succ o =>
        rw [putc_skip _ c r o rfl rfl]
        simp
        omega


/-- from the initial state of a call: the window, and the whole length counted -/
theorem copy_init (s : Bytes) (n off : Nat) :
    copy ⟨[], n, off, 0⟩ s = ⟨window s off n, n - (window s off n).length,
                               if n = 0 then off else off - s.length, s.length⟩ := by
  rw [copy_closed]; simp [window]

/-- a nested call on the rest of the buffer (`coap_print_link(r, p, &left, &offset)`) composes:
advancing `p` by what it wrote and adding what it counted is the same as writing in place -/
theorem copy_nested (w : W) (s : Bytes) :
    let v := copy ⟨[], w.room, w.offset, 0⟩ s
    copy w s = ⟨w.out ++ v.out, w.room - v.out.length, v.offset, w.result + v.result⟩ := by
  simp only [copy_closed]; simp

theorem copy_out_length_le (w : W) (s : Bytes) : (copy ⟨[], w.room, w.offset, 0⟩ s).out.length ≤ w.room := by
  rw [copy_closed]; simp; omega

theorem copy_room_le (w : W) (s : Bytes) : (copy w s).room ≤ w.room := by
  rw [copy_closed]; simp

/-! ### coap_print_link writes the RFC 6690 link -/

theorem putAttr_eq (w : W) (a : Attr) : putAttr w a = copy w (attrBytes a) := by
  unfold putAttr attrBytes
  cases a.value with
  | none => simp only [putc_eq_copy, ← copy_append]; congr 1; simp
  | some v => simp only [putc_eq_copy, ← copy_append]; congr 1; simp

theorem foldl_putAttr_eq (as : List Attr) (w : W) :
    as.foldl putAttr w = copy w (as.map attrBytes).flatten := by
  induction as generalizing w with
  | nil => rfl
  | cons a as ih => simp [List.foldl_cons, ih, putAttr_eq, copy_append]

theorem printBody_eq (r : Resource) (w : W) : printBody r w = copy w (link r) := by
  unfold printBody link
  simp only [foldl_putAttr_eq, putc_eq_copy]
  cases r.observable <;> cases r.oscoreOnly <;> simp only [← copy_append, if_true, if_false, Bool.false_eq_true] <;>
    congr 1 <;> simp


theorem printLink_eq (r : Resource) (n off : Nat) :
    printLink r n off =
      (let v := copy ⟨[], n, off, 0⟩ (link r); ⟨v.out, v.result, v.offset, finish v off⟩) := by
  simp [printLink, printBody_eq]

theorem finish_ok (w : W) (off : Nat) (h : w.out.length ≤ STATUS_MAX) :
    finish w off = ⟨w.out.length, decide (w.out.length + off - w.offset < w.result), false⟩ := by
  have h2 : w.out.length % 2 ^ 32 = w.out.length := Nat.mod_eq_of_lt (by simp [STATUS_MAX] at h; omega)
  simp only [finish, h2]
  rw [if_neg (by omega)]

/-! ### the RESOURCES_ITER loop prints the comma-joined links of the selected resources -/

/-- `joinComma` continued after `sub` links have already been written -/
def joinFrom : Bool → List Bytes → Bytes
  | _, [] => []
  | false, x :: r => x ++ joinFrom true r
  | true, x :: r => 0x2C :: x ++ joinFrom true r

theorem joinComma_cons (x : Bytes) (r : List Bytes) : joinComma (x :: r) = x ++ joinFrom true r := by
  induction r generalizing x with
  | nil => simp [joinComma, joinFrom]
  | cons y r ih => simp [joinComma, joinFrom, ih]

theorem joinComma_eq (l : List Bytes) : joinComma l = joinFrom false l := by
  cases l with
  | nil => rfl
  | cons x r => simp [joinComma_cons, joinFrom]

theorem isWk_eq (p : Bytes) : isWk p = (p == wkPath) := by
  by_cases h : p = wkPath
  · subst h; decide
  · have h1 : (p == wkPath) = false := by simpa using h
    rw [h1]
    by_cases hl : p.length = wkPath.length
    · have : p.length ≠ 0 := by rw [hl]; decide
      simp [isWk, h, this]
    · simp [isWk, hl]

theorem wkLoop_eq (fp : FP) (sel : Resource → Bool) (hsel : ∀ r, selectsM fp r = R.ok (sel r)) :
    ∀ (t : Table) (w : W) (sub : Bool), w.room ≤ STATUS_MAX →
      wkLoop fp t w sub =
        R.ok (copy w (joinFrom sub ((t.filter (fun r => r.path != wkPath && sel r)).map link))) := by
  intro t
  induction t with
  | nil => intro w sub _; simp [wkLoop, joinFrom, copy_nil]
  | cons r rs ih =>
    intro w sub hroom
    unfold wkLoop
    rw [isWk_eq]
    by_cases hwk : (r.path == wkPath) = true
    · simp only [hwk, if_true]
      rw [ih w sub hroom]
      have hp : r.path = wkPath := by simpa using hwk
      simp [hp]
    · have hwk' : (r.path == wkPath) = false := by simpa using hwk
      have hp : ¬ r.path = wkPath := by simpa using hwk
      simp only [hwk', Bool.false_eq_true, if_false]
      rw [hsel r]
      cases hs : sel r with
      | false =>
        simp only []
        rw [ih w sub hroom]
        simp [hs]
      | true =>
        simp only []
        have hfil : (List.filter (fun r => r.path != wkPath && sel r) (r :: rs)) =
            r :: List.filter (fun r => r.path != wkPath && sel r) rs := by
          simp [hp, hs]
        rw [hfil]
        -- the state before the nested call
        have hw1 : (if sub = true then putc w 0x2C else w) = copy w (if sub then [0x2C] else []) := by
          cases sub <;> simp [putc_eq_copy, copy_nil]
        rw [hw1]
        generalize hw1d : copy w (if sub then [0x2C] else []) = w1
        have hr1 : w1.room ≤ STATUS_MAX := by
          rw [← hw1d]; exact Nat.le_trans (copy_room_le _ _) hroom
        rw [printLink_eq]
        simp only []
        have hlen := copy_out_length_le w1 (link r)
        rw [finish_ok _ _ (Nat.le_trans hlen hr1)]
        simp only [Bool.false_eq_true, if_false]
        have hnest := copy_nested w1 (link r)
        simp only [] at hnest
        rw [← hnest]
        rw [ih _ true (Nat.le_trans (copy_room_le _ _) hr1)]
        rw [← hw1d, ← copy_append, ← copy_append]
        congr 2
        cases sub <;> simp [joinFrom]

/-! ### match() is the specification's matching -/

theorem memcmpEq_ok (a b : Bytes) (n : Nat) (ha : n ≤ a.length) (hb : n ≤ b.length) :
    memcmpEq a b n = R.ok (a.take n == b.take n) := by
  unfold memcmpEq
  rw [if_neg (by omega)]

theorem matchOne_take (pfx : Bool) (pat tok : Bytes) (plen tl : Nat) (hp : plen ≤ pat.length) (ht : tl ≤ tok.length) :
    matchOne pfx (pat.take plen) (tok.take tl) =
      (decide (if pfx = true then plen ≤ tl else plen = tl) && (tok.take plen == pat.take plen)) := by
  rw [Bool.eq_iff_iff]
  cases pfx with
  | true =>
    simp only [matchOne, if_true, List.isPrefixOf_iff_prefix, Bool.and_eq_true, decide_eq_true_eq, beq_iff_eq]
    constructor
    · intro h
      have hl := h.length_le
      simp only [List.length_take] at hl
      have hle : plen ≤ tl := by omega
      refine ⟨hle, ?_⟩
      have := List.prefix_iff_eq_take.mp h
      simp only [List.length_take, List.take_take] at this
      rw [Nat.min_eq_left hp, Nat.min_eq_left hle] at this
      exact this.symm
    · rintro ⟨hle, he⟩
      rw [← he]
      have : tok.take plen = (tok.take tl).take plen := by rw [List.take_take, Nat.min_eq_left hle]
      rw [this]
      exact List.take_prefix _ _
  | false =>
    simp only [matchOne, Bool.false_eq_true, if_false, Bool.and_eq_true, decide_eq_true_eq, beq_iff_eq]
    constructor
    · intro h
      have hl := congrArg List.length h
      simp only [List.length_take] at hl
      have hle : plen = tl := by omega
      subst hle
      exact ⟨rfl, h.symm⟩
    · rintro ⟨hle, he⟩
      subst hle
      exact he.symm


theorem tokens_cons_sp (r : Bytes) : tokens (0x20 :: r) = [] :: tokens r := by simp [tokens]

theorem tokens_cons_ne_nil (b : UInt8) (r : Bytes) (h : b ≠ 0x20) (hr : tokens r = []) :
    tokens (b :: r) = [[b]] := by
  simp [tokens, h, hr]

theorem tokens_cons_ne_cons (b : UInt8) (r t : Bytes) (ts : List Bytes) (h : b ≠ 0x20) (hr : tokens r = t :: ts) :
    tokens (b :: r) = (b :: t) :: ts := by
  simp [tokens, h, hr]

/-- what `memchr(p, ' ', n)` finds is where the first token of the first `n` bytes ends -/
theorem memchr_tokens : ∀ (n : Nat) (p : Bytes), n ≤ p.length → 0 < n →
    (memchrSp p n = R.ok none ∧ tokens (p.take n) = [p.take n]) ∨
    (∃ k, memchrSp p n = R.ok (some k) ∧ k < n ∧
          tokens (p.take n) = p.take k :: tokens ((p.drop (k + 1)).take (n - (k + 1)))) := by
  intro n
  induction n with
  | zero => intro p _ h; omega
  | succ m ih =>
    intro p hp _
    cases p with
    | nil => simp at hp
    | cons b r =>
      have hr : m ≤ r.length := by simpa using hp
      by_cases hb : b = 0x20
      · right
        refine ⟨0, by simp [memchrSp, hb], by omega, ?_⟩
        subst hb
        simp [tokens_cons_sp]
      · rw [List.take_succ_cons]
        cases m with
        | zero =>
          left
          simp [memchrSp, hb, tokens]
        | succ m' =>
          rcases ih r hr (by omega) with ⟨h1, h2⟩ | ⟨k, h1, h2, h3⟩
          · left
            rw [tokens_cons_ne_cons b _ _ _ hb h2]
            simp [memchrSp, hb, h1]
          · right
            refine ⟨k + 1, by simp [memchrSp, hb, h1], by omega, ?_⟩
            rw [tokens_cons_ne_cons b _ _ _ hb h3]
            simp

theorem tokens_length_le : ∀ (v : Bytes) (t : Bytes), t ∈ tokens v → t.length ≤ v.length := by
  intro v
  induction v with
  | nil => intro t h; simp [tokens] at h
  | cons b r ih =>
    intro t h
    by_cases hb : b = 0x20
    · subst hb
      rw [tokens_cons_sp] at h
      rcases List.mem_cons.mp h with h | h
      · subst h; simp
      · have := ih t h; simp; omega
    · cases hr : tokens r with
      | nil =>
        rw [tokens_cons_ne_nil b r hb hr] at h
        simp at h; subst h; simp
      | cons t0 ts =>
        rw [tokens_cons_ne_cons b r t0 ts hb hr] at h
        rcases List.mem_cons.mp h with h | h
        · subst h
          have := ih t0 (by rw [hr]; simp)
          simp; omega
        · have := ih t (by rw [hr]; simp [h])
          simp; omega

theorem matchTokens_eq (pat : Bytes) (plen : Nat) (pfx : Bool) (hp : plen ≤ pat.length) :
    ∀ (fuel : Nat) (tok : Bytes) (remaining : Nat), remaining < fuel → remaining ≤ tok.length →
      matchTokens fuel tok remaining pat plen pfx =
        R.ok ((tokens (tok.take remaining)).any (matchOne pfx (pat.take plen))) := by
  intro fuel
  induction fuel with
  | zero => intro tok remaining h; omega
  | succ fuel ih =>
    intro tok remaining hf hr
    unfold matchTokens
    by_cases h0 : remaining = 0
    · simp [h0, tokens]
    · rw [if_neg h0]
      rcases memchr_tokens remaining tok hr (by omega) with ⟨h1, h2⟩ | ⟨k, h1, h2, h3⟩
      · rw [h1, h2]
        simp only [List.any_cons, List.any_nil, Bool.or_false]
        rw [matchOne_take pfx pat tok plen remaining hp hr]
        have hrec : matchTokens fuel [] 0 pat plen pfx = R.ok false := by
          cases fuel <;> simp [matchTokens]
        by_cases hc : (if pfx = true then plen ≤ remaining else plen = remaining)
        · rw [if_pos hc]
          have hpl : plen ≤ tok.length := by split at hc <;> omega
          rw [memcmpEq_ok tok pat plen hpl hp]
          cases he : (tok.take plen == pat.take plen) <;> simp [hc, hrec]
        · rw [if_neg hc]
          simp [hc, hrec]
      · rw [h1, h3]
        simp only [List.any_cons]
        have hk : k ≤ tok.length := by omega
        rw [matchOne_take pfx pat tok plen k hp hk]
        have hrec := ih (tok.drop (k + 1)) (remaining - (k + 1)) (by omega) (by simp; omega)
        by_cases hc : (if pfx = true then plen ≤ k else plen = k)
        · rw [if_pos hc]
          have hpl : plen ≤ tok.length := by split at hc <;> omega
          rw [memcmpEq_ok tok pat plen hpl hp]
          cases he : (tok.take plen == pat.take plen) <;> simp [hc, hrec]
        · rw [if_neg hc]
          simp [hc, hrec]

/-- `match()` = the specification, and it never reads outside `text[0..tlen)` / `pattern[0..plen)` -/
theorem matchM_eq (text pat : Bytes) (tlen plen : Nat) (pfx sub : Bool)
    (ht : tlen ≤ text.length) (hp : plen ≤ pat.length) :
    matchM text tlen (some pat) plen pfx sub = R.ok (matchSpec pfx sub (pat.take plen) (text.take tlen)) := by
  unfold matchM matchSpec
  by_cases hlt : tlen < plen
  · rw [if_pos hlt]
    cases sub with
    | true =>
      simp only [if_true]
      have : (tokens (text.take tlen)).any (matchOne pfx (pat.take plen)) = false := by
        rw [List.any_eq_false]
        intro t htm
        have hl := tokens_length_le _ t htm
        simp only [List.length_take] at hl
        have htl : t.length ≤ t.length := Nat.le_refl _
        have := matchOne_take pfx pat t plen t.length hp htl
        rw [List.take_length] at this
        rw [this]
        have : ¬ (if pfx = true then plen ≤ t.length else plen = t.length) := by split <;> omega
        simp [this]
      rw [this]
    | false =>
      simp only [Bool.false_eq_true, if_false]
      rw [matchOne_take pfx pat text plen tlen hp ht]
      have : ¬ (if pfx = true then plen ≤ tlen else plen = tlen) := by split <;> omega
      simp [this]
  · rw [if_neg hlt]
    simp only []
    cases sub with
    | true =>
      simp only [if_true]
      exact matchTokens_eq pat plen pfx hp (tlen + 1) text tlen (by omega) ht
    | false =>
      simp only [Bool.false_eq_true, if_false]
      rw [matchOne_take pfx pat text plen tlen hp ht]
      cases pfx with
      | true =>
        simp only [Bool.true_or, if_true]
        rw [memcmpEq_ok text pat plen (by omega) hp]
        have : plen ≤ tlen := by omega
        simp [this]
      | false =>
        simp only [Bool.false_or, Bool.false_eq_true, if_false]
        by_cases he : plen = tlen
        · have : (plen == tlen) = true := by simpa using he
          rw [this, if_pos rfl, memcmpEq_ok text pat plen (by omega) hp]
          simp [he]
        · have : (plen == tlen) = false := by simpa using he
          rw [this]
          simp [he]

/-! ### the query splitter and the per-resource filter are the specification's `selects` -/

theorem scanEq_eq (q : Bytes) : scanEq q = (q.takeWhile (· != 0x3D)).length := by
  induction q with
  | nil => rfl
  | cons b r ih =>
    by_cases h : (b != 0x3D) = true
    · simp [scanEq, h, ih]
    · simp [scanEq, h]

theorem scanEq_le (q : Bytes) : scanEq q ≤ q.length := by
  induction q with
  | nil => simp [scanEq]
  | cons b r ih => simp only [scanEq]; split <;> simp <;> omega

theorem take_scanEq (q : Bytes) : q.take (scanEq q) = q.takeWhile (· != 0x3D) := by
  induction q with
  | nil => rfl
  | cons b r ih =>
    by_cases h : (b != 0x3D) = true
    · simp [scanEq, h, ih]
    · simp [scanEq, h]

theorem nameIs_eq (q : Bytes) (n : Nat) (lit : Bytes) (hn : n ≤ q.length) :
    nameIs q n lit = R.ok (q.take n == lit) := by
  unfold nameIs
  by_cases h : n = lit.length
  · rw [if_pos h, memcmpEq_ok q lit lit.length (by omega) (Nat.le_refl _), List.take_length, h]
  · rw [if_neg h]
    have : (q.take n == lit) = false := by
      rw [beq_eq_false_iff_ne]
      intro he
      have := congrArg List.length he
      simp at this; omega
    rw [this]

theorem isListAttrM_eq (q : Bytes) (n : Nat) (hn : n ≤ q.length) (l : List Bytes) :
    isListAttrM q n l = R.ok (l.any (q.take n == ·)) := by
  induction l with
  | nil => rfl
  | cons a rest ih =>
    unfold isListAttrM
    rw [nameIs_eq q n a hn]
    cases h : (q.take n == a) <;> simp only [List.any_cons, h, ih, Bool.false_or, Bool.true_or]

theorem findAttrM_eq (q : Bytes) (n : Nat) (hn : n ≤ q.length) (as : List Attr) :
    findAttrM q n as = R.ok (findAttr (q.take n) as) := by
  induction as with
  | nil => rfl
  | cons a rest ih =>
    unfold findAttrM findAttr
    by_cases h : a.name.length = n
    · rw [if_pos h, memcmpEq_ok a.name q n (by omega) hn]
      have : a.name.take n = a.name := by rw [← h, List.take_length]
      rw [this]
      cases he : (a.name == q.take n) <;> simp [ih]
    · rw [if_neg h]
      have : (a.name == q.take n) = false := by
        rw [beq_eq_false_iff_ne]
        intro he
        have := congrArg List.length he
        simp at this; omega
      simp [this, ih]

theorem firstIs_eq (p : Bytes) (c : UInt8) : firstIs p p.length c = R.ok (p.head? == some c) := by
  cases p with
  | nil => simp [firstIs]
  | cons b r => simp [firstIs, rd]

theorem lastIs_eq (p : Bytes) (c : UInt8) : lastIs p p.length c = R.ok (p.getLast? == some c) := by
  cases p with
  | nil => simp [lastIs]
  | cons b r =>
    have : (b :: r)[(b :: r).length - 1]? = (b :: r).getLast? := (List.getLast?_eq_getElem? (l := b :: r)).symm
    simp only [lastIs, rd, this]
    cases h : (b :: r).getLast? with
    | none => simp at h
    | some x => simp

theorem isQuoted_eq (v : Bytes) :
    isQuoted v = R.ok (decide (2 ≤ v.length ∧ v.head? = some 0x22 ∧ v.getLast? = some 0x22)) := by
  unfold isQuoted
  by_cases h : v.length < 2
  · rw [if_pos h]; simp; intro h2; omega
  · rw [if_neg h, firstIs_eq]
    have h2 : 2 ≤ v.length := by omega
    cases hf : (v.head? == some 0x22) with
    | false =>
      have : ¬ v.head? = some 0x22 := by simpa using hf
      simp [this]
    | true =>
      have : v.head? = some 0x22 := by simpa using hf
      simp only [lastIs_eq]
      congr 1
      rw [Bool.eq_iff_iff]
      simp [this, h2]


theorem stripSlash_eq (tok : Bytes) :
    stripSlash tok = if (tok.head? == some 0x2F) = true then tok.drop 1 else tok := by
  unfold stripSlash
  by_cases h : tok.head? = some 0x2F
  · simp [h]
  · simp [h]

theorem starSplit_eq (p : Bytes) :
    starSplit p = (p.getLast? == some 0x2A,
                   p.take (if (p.getLast? == some 0x2A) = true then p.length - 1 else p.length)) := by
  unfold starSplit
  by_cases h : p.getLast? = some 0x2A
  · simp [h, List.dropLast_eq_take]
  · simp [h]

theorem unquote_eq (v : Bytes) :
    unquote v = if 2 ≤ v.length ∧ v.head? = some 0x22 ∧ v.getLast? = some 0x22
                then (v.drop 1).take (v.length - 2) else v := by
  unfold unquote
  split
  · rw [List.dropLast_eq_take, List.length_tail, ← List.drop_one]
    congr 1
  · rfl

theorem isListAttr_any (name : Bytes) : ([sRt, sIf, sRel].any (name == ·)) = isListAttr name := by
  simp [isListAttr, List.any, Bool.or_assoc]

/-- what the splitter computes: name length, the three flags, and the pattern as the specification cuts it -/
theorem parseFilter_some (q : Bytes) (hlt : scanEq q < q.length) :
    ∃ p1 plen st,
      parseFilter (some q) =
        R.ok ⟨scanEq q, q, some p1, plen, q.take (scanEq q) == sHref, st, isListAttr (q.take (scanEq q))⟩ ∧
      plen ≤ p1.length ∧
      starSplit (if (q.take (scanEq q) == sHref) = true then stripSlash (q.drop (scanEq q + 1))
                 else q.drop (scanEq q + 1)) = (st, p1.take plen) := by
  have hn := scanEq_le q
  unfold parseFilter
  simp only []
  rw [if_pos hlt, nameIs_eq q _ _ hn, isListAttrM_eq q _ hn, isListAttr_any]
  simp only []
  have hl0 : q.length - (scanEq q + 1) = (q.drop (scanEq q + 1)).length := by simp
  rw [hl0, firstIs_eq]
  simp only []
  generalize q.drop (scanEq q + 1) = tok
  generalize (q.take (scanEq q) == sHref) = uri
  cases hsl : (tok.head? == some 0x2F && uri) with
  | false =>
    simp only [Bool.false_eq_true, if_false]
    rw [lastIs_eq]
    refine ⟨_, _, _, rfl, by split <;> omega, ?_⟩
    have : (if uri = true then stripSlash tok else tok) = tok := by
      cases uri with
      | false => rfl
      | true =>
        simp only [Bool.and_true] at hsl
        simp [stripSlash_eq, hsl]
    rw [this, starSplit_eq]
  | true =>
    simp only [if_true]
    have : tok.length - 1 = (tok.drop 1).length := by simp
    rw [this, lastIs_eq]
    refine ⟨_, _, _, rfl, by split <;> omega, ?_⟩
    have h1 : (tok.head? == some 0x2F) = true := by
      cases h : (tok.head? == some 0x2F) <;> simp [h] at hsl ⊢
    have h2 : uri = true := by cases uri <;> simp at hsl ⊢
    rw [h2]
    simp only [if_true]
    rw [stripSlash_eq, if_pos h1, starSplit_eq]

theorem selectsM_eq (qf : Option Bytes) :
    ∃ fp, parseFilter qf = R.ok fp ∧ ∀ r, selectsM fp r = R.ok (selects (qf.getD []) r) := by
  cases qf with
  | none => exact ⟨noFilter, rfl, fun r => by simp [selectsM, noFilter, selects]⟩
  | some q =>
    have hn := scanEq_le q
    have hname : q.takeWhile (· != 0x3D) = q.take (scanEq q) := (take_scanEq q).symm
    have hlen : (q.take (scanEq q)).length = scanEq q := by simp; omega
    by_cases hlt : scanEq q < q.length
    · obtain ⟨p1, plen, st, hpf, hple, hss⟩ := parseFilter_some q hlt
      refine ⟨_, hpf, ?_⟩
      intro r
      unfold selectsM selects
      simp only [Option.getD_some, hname, hlen]
      by_cases h0 : scanEq q = 0
      · simp [h0]
      · have hne : ¬ scanEq q = q.length := by omega
        simp only [if_neg h0, if_neg hne]
        cases huri : (q.take (scanEq q) == sHref) with
        | true =>
          rw [huri] at hss
          simp only [if_true] at hss
          simp only [if_true]
          rw [hss]
          simp only []
          have hsub : isListAttr (q.take (scanEq q)) = false := by
            have : q.take (scanEq q) = sHref := by simpa using huri
            rw [this]; decide
          rw [hsub, matchM_eq _ _ _ _ _ _ (Nat.le_refl _) hple, List.take_length]
        | false =>
          rw [huri] at hss
          simp only [Bool.false_eq_true, if_false] at hss
          simp only [Bool.false_eq_true, if_false]
          rw [findAttrM_eq q _ hn, hss]
          simp only []
          cases hfa : findAttr (q.take (scanEq q)) r.attrs with
          | none => rfl
          | some a =>
            simp only []
            cases hv : a.value with
            | none => rfl
            | some v =>
              simp only []
              rw [isQuoted_eq, unquote_eq]
              by_cases hq : 2 ≤ v.length ∧ v.head? = some 0x22 ∧ v.getLast? = some 0x22
              · simp only [hq, and_self, decide_true, if_true]
                rw [matchM_eq _ _ _ _ _ _ (by simp; omega) hple]
              · simp only [hq, decide_false, if_false]
                rw [matchM_eq _ _ _ _ _ _ (Nat.le_refl _) hple, List.take_length]
    · have heq : scanEq q = q.length := by omega
      refine ⟨⟨scanEq q, q, none, 0, false, false, false⟩, by simp [parseFilter, hlt], ?_⟩
      intro r
      unfold selectsM selects
      simp only [Option.getD_some, hname, hlen]
      by_cases h0 : scanEq q = 0
      · simp [h0]
      · simp only [if_neg h0, if_pos heq, Bool.false_eq_true, if_false]
        rw [findAttrM_eq q _ hn]
        cases hfa : findAttr (q.take (scanEq q)) r.attrs with
        | none => rfl
        | some a =>
          simp only []
          cases hv : a.value with
          | none => rfl
          | some v =>
            simp only []
            rw [isQuoted_eq]
            by_cases hq : 2 ≤ v.length ∧ v.head? = some 0x22 ∧ v.getLast? = some 0x22
            · simp [hq, matchM]
            · simp [hq, matchM]

end Coap.M.LF
