import CoapVerif.Model.LinkFormat
/- Helper lemmas for C20: the output macros write exactly a window; the filter loop is the specification's filter. -/
namespace Coap.M.LF
open Coap Coap.LF

/-! ### the writer: closed form of COPY_COND_WITH_OFFSET from any state -/

theorem copy_nil (w : W) : copy w [] = w := rfl
theorem copy_cons (w : W) (c : UInt8) (s : Bytes) : copy w (c :: s) = copy (putc w c) s := rfl
theorem copy_append (w : W) (a b : Bytes) : copy w (a ++ b) = copy (copy w a) b := by
  simp [copy, List.foldl_append]
theorem putc_eq_copy (w : W) (c : UInt8) : putc w c = copy w [c] := rfl

/-- one byte through PRINT_COND_WITH_OFFSET, the three cases -/
theorem putc_full (w : W) (c : UInt8) (h : w.room = 0) : putc w c = { w with result := w.result + 1 } := by
  simp [putc, h]
theorem putc_store (w : W) (c : UInt8) (r : Nat) (h : w.room = r + 1) (ho : w.offset = 0) :
    putc w c = ⟨w.out ++ [c], r, 0, w.result + 1⟩ := by
  simp [putc, h, ho]
theorem putc_skip (w : W) (c : UInt8) (r o : Nat) (h : w.room = r + 1) (ho : w.offset = o + 1) :
    putc w c = ⟨w.out, r + 1, o, w.result + 1⟩ := by
  simp [putc, h, ho]

/-- **key lemma**: sending the bytes `s` through the macros from state `w` appends exactly the
window `(s.drop offset).take room`, consumes `offset` (only while there is room) and counts `s`. -/
theorem copy_closed (s : Bytes) (w : W) :
    copy w s = ⟨w.out ++ (s.drop w.offset).take w.room,
                w.room - ((s.drop w.offset).take w.room).length,
                if w.room = 0 then w.offset else w.offset - s.length,
                w.result + s.length⟩ := by
  induction s generalizing w with
  | nil => cases w; simp [copy]
  | cons c s ih =>
    rw [copy_cons, ih]
    rcases w with ⟨out, room, offset, result⟩
    cases room with
    | zero => simp [putc]; omega
    | succ r =>
      cases offset with
      | zero =>
        rw [putc_store _ c r rfl rfl]
        simp
        omega
      | succ o =>
        rw [putc_skip _ c r o rfl rfl]
        simp
        omega


/-- from the initial state of a call: the window, and the whole length counted -/
theorem copy_init (s : Bytes) (n off : Nat) :
    copy ⟨[], n, off, 0⟩ s = ⟨window s off n, n - (window s off n).length,
                               if n = 0 then off else off - s.length, s.length⟩ := by
  rw [copy_closed]; simp [window]

/-- a nested call on the rest of the buffer (`coap_print_link(r, p, &left, &offset)`) composes:
advancing `p` by what it wrote and adding what it counted is the same as writing in place -/
theorem copy_nested (w : W) (s : Bytes) :
    let v := copy ⟨[], w.room, w.offset, 0⟩ s
    copy w s = ⟨w.out ++ v.out, w.room - v.out.length, v.offset, w.result + v.result⟩ := by
  simp only [copy_closed]; simp

theorem copy_out_length_le (w : W) (s : Bytes) : (copy ⟨[], w.room, w.offset, 0⟩ s).out.length ≤ w.room := by
  rw [copy_closed]; simp; omega

theorem copy_room_le (w : W) (s : Bytes) : (copy w s).room ≤ w.room := by
  rw [copy_closed]; simp

/-! ### coap_print_link writes the RFC 6690 link -/

theorem putAttr_eq (w : W) (a : Attr) : putAttr w a = copy w (attrBytes a) := by
  unfold putAttr attrBytes
  cases a.value with
  | none => simp only [putc_eq_copy, ← copy_append]; congr 1; simp
  | some v => simp only [putc_eq_copy, ← copy_append]; congr 1; simp

theorem foldl_putAttr_eq (as : List Attr) (w : W) :
    as.foldl putAttr w = copy w (as.map attrBytes).flatten := by
  induction as generalizing w with
  | nil => rfl
  | cons a as ih => simp [List.foldl_cons, ih, putAttr_eq, copy_append]

theorem printBody_eq (r : Resource) (w : W) : printBody r w = copy w (link r) := by
  unfold printBody link
  simp only [foldl_putAttr_eq, putc_eq_copy]
  cases r.observable <;> cases r.oscoreOnly <;> simp only [← copy_append, if_true, if_false, Bool.false_eq_true] <;>
    congr 1 <;> simp


theorem printLink_eq (r : Resource) (n off : Nat) :
    printLink r n off =
      (let v := copy ⟨[], n, off, 0⟩ (link r); ⟨v.out, v.result, v.offset, finish v off⟩) := by
  simp [printLink, printBody_eq]

theorem finish_ok (w : W) (off : Nat) (h : w.out.length ≤ STATUS_MAX) :
    finish w off = ⟨w.out.length, decide (w.out.length + off - w.offset < w.result), false⟩ := by
  have h2 : w.out.length % 2 ^ 32 = w.out.length := Nat.mod_eq_of_lt (by simp [STATUS_MAX] at h; omega)
  simp only [finish, h2]
  rw [if_neg (by omega)]

/-! ### the RESOURCES_ITER loop prints the comma-joined links of the selected resources -/

/-- `joinComma` continued after `sub` links have already been written -/
def joinFrom : Bool → List Bytes → Bytes
  | _, [] => []
  | false, x :: r => x ++ joinFrom true r
  | true, x :: r => 0x2C :: x ++ joinFrom true r

theorem joinComma_cons (x : Bytes) (r : List Bytes) : joinComma (x :: r) = x ++ joinFrom true r := by
  induction r generalizing x with
  | nil => simp [joinComma, joinFrom]
  | cons y r ih => simp [joinComma, joinFrom, ih]

theorem joinComma_eq (l : List Bytes) : joinComma l = joinFrom false l := by
  cases l with
  | nil => rfl
  | cons x r => simp [joinComma_cons, joinFrom]

theorem isWk_eq (p : Bytes) : isWk p = (p == wkPath) := by
  by_cases h : p = wkPath
  · subst h; decide
  · have h1 : (p == wkPath) = false := by simpa using h
    rw [h1]
    by_cases hl : p.length = wkPath.length
    · have : p.length ≠ 0 := by rw [hl]; decide
      simp [isWk, h, this]
    · simp [isWk, hl]

theorem wkLoop_eq (fp : FP) (sel : Resource → Bool) (hsel : ∀ r, selectsM fp r = R.ok (sel r)) :
    ∀ (t : Table) (w : W) (sub : Bool), w.room ≤ STATUS_MAX →
      wkLoop fp t w sub =
        R.ok (copy w (joinFrom sub ((t.filter (fun r => r.path != wkPath && sel r)).map link))) := by
  intro t
  induction t with
  | nil => intro w sub _; simp [wkLoop, joinFrom, copy_nil]
  | cons r rs ih =>
    intro w sub hroom
    unfold wkLoop
    rw [isWk_eq]
    by_cases hwk : (r.path == wkPath) = true
    · simp only [hwk, if_true]
      rw [ih w sub hroom]
      have hp : r.path = wkPath := by simpa using hwk
      simp [hp]
    · have hwk' : (r.path == wkPath) = false := by simpa using hwk
      have hp : ¬ r.path = wkPath := by simpa using hwk
      simp only [hwk', Bool.false_eq_true, if_false]
      rw [hsel r]
      cases hs : sel r with
      | false =>
        simp only []
        rw [ih w sub hroom]
        simp [hs]
      | true =>
        simp only []
        have hfil : (List.filter (fun r => r.path != wkPath && sel r) (r :: rs)) =
            r :: List.filter (fun r => r.path != wkPath && sel r) rs := by
          simp [hp, hs]
        rw [hfil]
        -- the state before the nested call
        have hw1 : (if sub = true then putc w 0x2C else w) = copy w (if sub then [0x2C] else []) := by
          cases sub <;> simp [putc_eq_copy, copy_nil]
        rw [hw1]
        generalize hw1d : copy w (if sub then [0x2C] else []) = w1
        have hr1 : w1.room ≤ STATUS_MAX := by
          rw [← hw1d]; exact Nat.le_trans (copy_room_le _ _) hroom
        rw [printLink_eq]
        simp only []
        have hlen := copy_out_length_le w1 (link r)
        rw [finish_ok _ _ (Nat.le_trans hlen hr1)]
        simp only [Bool.false_eq_true, if_false]
        have hnest := copy_nested w1 (link r)
        simp only [] at hnest
        rw [← hnest]
        rw [ih _ true (Nat.le_trans (copy_room_le _ _) hr1)]
        rw [← hw1d, ← copy_append, ← copy_append]
        congr 2
        cases sub <;> simp [joinFrom]

/-! ### match() is the specification's matching -/

theorem memcmpEq_ok (a b : Bytes) (n : Nat) (ha : n ≤ a.length) (hb : n ≤ b.length) :
    memcmpEq a b n = R.ok (a.take n == b.take n) := by
  unfold memcmpEq
  rw [if_neg (by omega)]

theorem matchOne_take (pfx : Bool) (pat tok : Bytes) (plen tl : Nat) (hp : plen ≤ pat.length) (ht : tl ≤ tok.length) :
    matchOne pfx (pat.take plen) (tok.take tl) =
      (decide (if pfx = true then plen ≤ tl else plen = tl) && (tok.take plen == pat.take plen)) := by
  rw [Bool.eq_iff_iff]
  cases pfx with
  | true =>
    simp only [matchOne, if_true, List.isPrefixOf_iff_prefix, Bool.and_eq_true, decide_eq_true_eq, beq_iff_eq]
    constructor
    · intro h
      have hl := h.length_le
      simp only [List.length_take] at hl
      have hle : plen ≤ tl := by omega
      refine ⟨hle, ?_⟩
      have := List.prefix_iff_eq_take.mp h
      simp only [List.length_take, List.take_take] at this
      rw [Nat.min_eq_left hp, Nat.min_eq_left hle] at this
      exact this.symm
    · rintro ⟨hle, he⟩
      rw [← he]
      have : tok.take plen = (tok.take tl).take plen := by rw [List.take_take, Nat.min_eq_left hle]
      rw [this]
      exact List.take_prefix _ _
  | false =>
    simp only [matchOne, Bool.false_eq_true, if_false, Bool.and_eq_true, decide_eq_true_eq, beq_iff_eq]
    constructor
    · intro h
      have hl := congrArg List.length h
      simp only [List.length_take] at hl
      have hle : plen = tl := by omega
      subst hle
      exact ⟨rfl, h.symm⟩
    · rintro ⟨hle, he⟩
      subst hle
      exact he.symm


theorem tokens_cons_sp (r : Bytes) : tokens (0x20 :: r) = [] :: tokens r := by simp [tokens]

theorem tokens_cons_ne_nil (b : UInt8) (r : Bytes) (h : b ≠ 0x20) (hr : tokens r = []) :
    tokens (b :: r) = [[b]] := by
  simp [tokens, h, hr]

theorem tokens_cons_ne_cons (b : UInt8) (r t : Bytes) (ts : List Bytes) (h : b ≠ 0x20) (hr : tokens r = t :: ts) :
    tokens (b :: r) = (b :: t) :: ts := by
  simp [tokens, h, hr]

/-- what `memchr(p, ' ', n)` finds is where the first token of the first `n` bytes ends -/
theorem memchr_tokens : ∀ (n : Nat) (p : Bytes), n ≤ p.length → 0 < n →
    (memchrSp p n = R.ok none ∧ tokens (p.take n) = [p.take n]) ∨
    (∃ k, memchrSp p n = R.ok (some k) ∧ k < n ∧
          tokens (p.take n) = p.take k :: tokens ((p.drop (k + 1)).take (n - (k + 1)))) := by
  intro n
  induction n with
  | zero => intro p _ h; omega
  | succ m ih =>
    intro p hp _
    cases p with
    | nil => simp at hp
    | cons b r =>
      have hr : m ≤ r.length := by simpa using hp
      by_cases hb : b = 0x20
      · right
        refine ⟨0, by simp [memchrSp, hb], by omega, ?_⟩
        subst hb
        simp [tokens_cons_sp]
      · rw [List.take_succ_cons]
        cases m with
        | zero =>
          left
          simp [memchrSp, hb, tokens]
        | succ m' =>
          rcases ih r hr (by omega) with ⟨h1, h2⟩ | ⟨k, h1, h2, h3⟩
          · left
            rw [tokens_cons_ne_cons b _ _ _ hb h2]
            simp [memchrSp, hb, h1]
          · right
            refine ⟨k + 1, by simp [memchrSp, hb, h1], by omega, ?_⟩
            rw [tokens_cons_ne_cons b _ _ _ hb h3]
            simp

theorem tokens_length_le : ∀ (v : Bytes) (t : Bytes), t ∈ tokens v → t.length ≤ v.length := by
  intro v
  induction v with
  | nil => intro t h; simp [tokens] at h
  | cons b r ih =>
    intro t h
    by_cases hb : b = 0x20
    · subst hb
      rw [tokens_cons_sp] at h
      rcases List.mem_cons.mp h with h | h
      · subst h; simp
      · have := ih t h; simp; omega
    · cases hr : tokens r with
      | nil =>
        rw [tokens_cons_ne_nil b r hb hr] at h
        simp at h; subst h; simp
      | cons t0 ts =>
        rw [tokens_cons_ne_cons b r t0 ts hb hr] at h
        rcases List.mem_cons.mp h with h | h
        · subst h
          have := ih t0 (by rw [hr]; simp)
          simp; omega
        · have := ih t (by rw [hr]; simp [h])
          simp; omega

theorem matchTokens_eq (pat : Bytes) (plen : Nat) (pfx : Bool) (hp : plen ≤ pat.length) :
    ∀ (fuel : Nat) (tok : Bytes) (remaining : Nat), remaining < fuel → remaining ≤ tok.length →
      matchTokens fuel tok remaining pat plen pfx =
        R.ok ((tokens (tok.take remaining)).any (matchOne pfx (pat.take plen))) := by
  intro fuel
  induction fuel with
  | zero => intro tok remaining h; omega
  | succ fuel ih =>
    intro tok remaining hf hr
    unfold matchTokens
    by_cases h0 : remaining = 0
    · simp [h0, tokens]
    · rw [if_neg h0]
      rcases memchr_tokens remaining tok hr (by omega) with ⟨h1, h2⟩ | ⟨k, h1, h2, h3⟩
      · rw [h1, h2]
        simp only [List.any_cons, List.any_nil, Bool.or_false]
        rw [matchOne_take pfx pat tok plen remaining hp hr]
        have hrec : matchTokens fuel [] 0 pat plen pfx = R.ok false := by
          cases fuel <;> simp [matchTokens]
        by_cases hc : (if pfx = true then plen ≤ remaining else plen = remaining)
        · rw [if_pos hc]
          have hpl : plen ≤ tok.length := by split at hc <;> omega
          rw [memcmpEq_ok tok pat plen hpl hp]
          cases he : (tok.take plen == pat.take plen) <;> simp [hc, hrec]
        · rw [if_neg hc]
          simp [hc, hrec]
      · rw [h1, h3]
        simp only [List.any_cons]
        have hk : k ≤ tok.length := by omega
        rw [matchOne_take pfx pat tok plen k hp hk]
        have hrec := ih (tok.drop (k + 1)) (remaining - (k + 1)) (by omega) (by simp; omega)
        by_cases hc : (if pfx = true then plen ≤ k else plen = k)
        · rw [if_pos hc]
          have hpl : plen ≤ tok.length := by split at hc <;> omega
          rw [memcmpEq_ok tok pat plen hpl hp]
          cases he : (tok.take plen == pat.take plen) <;> simp [hc, hrec]
        · rw [if_neg hc]
          simp [hc, hrec]

/-- `match()` = the specification, and it never reads outside `text[0..tlen)` / `pattern[0..plen)` -/
theorem matchM_eq (text pat : Bytes) (tlen plen : Nat) (pfx sub : Bool)
    (ht : tlen ≤ text.length) (hp : plen ≤ pat.length) :
    matchM text tlen (some pat) plen pfx sub = R.ok (matchSpec pfx sub (pat.take plen) (text.take tlen)) := by
  unfold matchM matchSpec
  by_cases hlt : tlen < plen
  · rw [if_pos hlt]
    cases sub with
    | true =>
      simp only [if_true]
      have : (tokens (text.take tlen)).any (matchOne pfx (pat.take plen)) = false := by
        rw [List.any_eq_false]
        intro t htm
        have hl := tokens_length_le _ t htm
        simp only [List.length_take] at hl
        have htl : t.length ≤ t.length := Nat.le_refl _
        have := matchOne_take pfx pat t plen t.length hp htl
        rw [List.take_length] at this
        rw [this]
        have : ¬ (if pfx = true then plen ≤ t.length else plen = t.length) := by split <;> omega
        simp [this]
      rw [this]
    | false =>
      simp only [Bool.false_eq_true, if_false]
      rw [matchOne_take pfx pat text plen tlen hp ht]
      have : ¬ (if pfx = true then plen ≤ tlen else plen = tlen) := by split <;> omega
      simp [this]
  · rw [if_neg hlt]
    simp only []
    cases sub with
    | true =>
      simp only [if_true]
      exact matchTokens_eq pat plen pfx hp (tlen + 1) text tlen (by omega) ht
    | false =>
      simp only [Bool.false_eq_true, if_false]
      rw [matchOne_take pfx pat text plen tlen hp ht]
      cases pfx with
      | true =>
        simp only [Bool.true_or, if_true]
        rw [memcmpEq_ok text pat plen (by omega) hp]
        have : plen ≤ tlen := by omega
        simp [this]
      | false =>
        simp only [Bool.false_or, Bool.false_eq_true, if_false]
        by_cases he : plen = tlen
        · have : (plen == tlen) = true := by simpa using he
          rw [this, if_pos rfl, memcmpEq_ok text pat plen (by omega) hp]
          simp [he]
        · have : (plen == tlen) = false := by simpa using he
          rw [this]
          simp [he]

end Coap.M.LF
