import CoapVerif.Lemmas.Exchange
/-
Helper lemmas for C07: the retransmission loop on the layer `Wt n` in explicit form (what one call of
coap_io_prepare_io does to the single waiting request: nothing before the deadline, one retransmission with the
doubled timeout while `retransmit_cnt < MAX_RETRANSMIT`, the NACK after that), the transmissions it makes, and the
arithmetic of the give-up time.
-/
namespace Coap.Exch

namespace Layer

/-- one unfolding of the due-node loop on the layer `Wt n` -/
theorem tick_Wt_succ (now f : Nat) (n : Node) (hc : n.d.type = .con) :
    tick now (f + 1) (Wt n) =
      if n.due ≤ now then
        if n.cnt < maxRetransmit then
          ((tick now f (Wt { n with cnt := n.cnt + 1, due := now + n.timeout * 2 ^ (n.cnt + 1) })).1,
           Out.tx n.d :: (tick now f (Wt { n with cnt := n.cnt + 1, due := now + n.timeout * 2 ^ (n.cnt + 1) })).2)
        else (Idle, [Out.callNack .retries n.d.mid])
      else (Wt n, []) := by
  by_cases hdue : n.due ≤ now
  · by_cases hcnt : n.cnt < maxRetransmit
    · have hret : retransmit { sendq := [], delayq := [], conActive := 1 } now n =
          (Wt { n with cnt := n.cnt + 1, due := now + n.timeout * 2 ^ (n.cnt + 1) }, [Out.tx n.d]) := by
        simp [retransmit, hcnt, insertNode, hc, nstart, Wt]
      conv => lhs; unfold tick
      simp only [Wt, hdue, hcnt, if_true]
      rw [show ({ sendq := [], delayq := [], conActive := 1 } : Layer) = { sendq := [], delayq := [], conActive := 1 } from rfl]
      simp [hret, Wt]
    · have hret : retransmit { sendq := [], delayq := [], conActive := 1 } now n =
          (Idle, [Out.callNack .retries n.d.mid]) := by
        simp [retransmit, hcnt, release_Wt_removed, hc]
      conv => lhs; unfold tick
      simp [Wt, hdue, hcnt, hret, tick_Idle]
  · simp [tick, Wt, hdue]

/-- everything the loop emits for the waiting request is a transmission of that request or its NACK, and the layer
    stays `Wt` with the same PDU or becomes idle -/
theorem tick_Wt_outs (now : Nat) :
    ∀ (fuel : Nat) (n : Node), n.d.type = .con →
      (∀ o ∈ (tick now fuel (Wt n)).2, o = Out.tx n.d ∨ o = Out.callNack .retries n.d.mid) := by
  intro fuel
  induction fuel with
  | zero => intro n _ o ho; simp [tick] at ho
  | succ f ih =>
    intro n hc o ho
    rw [tick_Wt_succ now f n hc] at ho
    by_cases hdue : n.due ≤ now
    · by_cases hcnt : n.cnt < maxRetransmit
      · simp only [hdue, hcnt, if_true, List.mem_cons] at ho
        rcases ho with rfl | ho
        · exact Or.inl rfl
        · exact ih { n with cnt := n.cnt + 1, due := now + n.timeout * 2 ^ (n.cnt + 1) } hc o ho
      · simp only [hdue, hcnt, if_true, if_false, List.mem_singleton] at ho
        exact Or.inr ho
    · simp [hdue] at ho

theorem tick_Wt_not_due (now f : Nat) (n : Node) (h : ¬ n.due ≤ now) : tick now f (Wt n) = (Wt n, []) := by
  cases f <;> simp [tick, Wt, h]

/-- with a positive timeout one call does at most one thing: the re-armed deadline lies in the future -/
theorem tickAll_Wt_explicit (now : Nat) (n : Node) (hc : n.d.type = .con) (hT : 0 < n.timeout) :
    tickAll now (Wt n) =
      if n.due ≤ now then
        if n.cnt < maxRetransmit then
          (Wt { n with cnt := n.cnt + 1, due := now + n.timeout * 2 ^ (n.cnt + 1) }, [Out.tx n.d])
        else (Idle, [Out.callNack .retries n.d.mid])
      else (Wt n, []) := by
  have hf : tickAll now (Wt n) = tick now (11 + 1) (Wt n) := by simp [tickAll, Wt]
  rw [hf, tick_Wt_succ now 11 n hc]
  by_cases hdue : n.due ≤ now
  · by_cases hcnt : n.cnt < maxRetransmit
    · simp only [hdue, hcnt, if_true]
      have hpos : 0 < n.timeout * 2 ^ (n.cnt + 1) := Nat.mul_pos hT (Nat.two_pow_pos _)
      have hnd : ¬ (now + n.timeout * 2 ^ (n.cnt + 1) ≤ now) := by omega
      rw [tick_Wt_not_due now 11 _ hnd]
    · simp [hdue, hcnt]
  · simp [hdue]

end Layer

namespace Layer

theorem Wt_inj {a b : Node} (h : Wt a = Wt b) : a = b := by
  simp [Wt] at h; exact h

/-- the retransmission counter never decreases, and it increases when the deadline has passed -/
theorem tick_Wt_cnt (now : Nat) :
    ∀ (fuel : Nat) (n : Node), n.d.type = .con → ∀ n', (tick now fuel (Wt n)).1 = Wt n' →
      n.cnt ≤ n'.cnt ∧ (n.due ≤ now → 0 < fuel → n.cnt < n'.cnt) := by
  intro fuel
  induction fuel with
  | zero =>
    intro n _ n' h
    simp only [tick] at h
    have := Wt_inj h
    subst this
    exact ⟨Nat.le_refl _, fun _ h0 => absurd h0 (Nat.lt_irrefl 0)⟩
  | succ f ih =>
    intro n hc n' h
    rw [tick_Wt_succ now f n hc] at h
    by_cases hdue : n.due ≤ now
    · by_cases hcnt : n.cnt < maxRetransmit
      · simp only [hdue, hcnt, if_true] at h
        have := (ih { n with cnt := n.cnt + 1, due := now + n.timeout * 2 ^ (n.cnt + 1) } hc n' h).1
        simp only at this
        exact ⟨by omega, fun _ _ => by omega⟩
      · simp only [hdue, hcnt, if_true, if_false] at h
        simp [Idle, Wt] at h
    · simp only [hdue, if_false] at h
      have := Wt_inj h
      subst this
      exact ⟨Nat.le_refl _, fun h1 => absurd h1 hdue⟩

/-- a node that has used up its retransmissions is given up when its deadline has passed -/
theorem tick_Wt_giveup (now f : Nat) (n : Node) (hc : n.d.type = .con) (hdue : n.due ≤ now) (hcnt : maxRetransmit ≤ n.cnt) :
    tick now (f + 1) (Wt n) = (Idle, [Out.callNack .retries n.d.mid]) := by
  rw [tick_Wt_succ now f n hc]
  have : ¬ n.cnt < maxRetransmit := by omega
  simp [hdue, this]

end Layer

/-- the client's timer on the layer `Wt n` -/
theorem tick_Wt_explicit (c : Client) (now : Nat) (n : Node) (hL : c.L = Wt n) (hc : n.d.type = .con) (hT : 0 < n.timeout) :
    c.tick now =
      if n.due ≤ now then
        if n.cnt < maxRetransmit then
          ({ c with L := Wt { n with cnt := n.cnt + 1, due := now + n.timeout * 2 ^ (n.cnt + 1) } }, [Out.tx n.d])
        else ({ c with L := Idle }, [Out.callNack .retries n.d.mid])
      else (c, []) := by
  cases c with
  | mk L lc la lr =>
    simp only at hL; subst hL
    simp only [Client.tick, Layer.tickAll_Wt_explicit now n hc hT]
    by_cases hdue : n.due ≤ now
    · by_cases hcnt : n.cnt < maxRetransmit <;> simp [hdue, hcnt]
    · simp [hdue]

theorem tick_Idle_client (c : Client) (now : Nat) (hL : c.L = Idle) : c.tick now = (c, []) := by
  cases c with
  | mk L lc la lr =>
    simp only at hL; subst hL
    simp [Client.tick, Layer.tickAll, Layer.tick_Idle]

/-- coap_calc_timeout with the default parameters never yields less than ACK_TIMEOUT (nor more than 1.5 times it) -/
theorem calcTimeout_ge (r : Nat) : ackTimeout ≤ calcTimeout r ∧ calcTimeout r ≤ 3000 := by
  simp only [calcTimeout, ackTimeout]
  omega

end Coap.Exch
