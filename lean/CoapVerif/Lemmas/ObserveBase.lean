import CoapVerif.Lemmas.Observe
/- Shared base for the run-level (global) C11 theorems: induction principle over `run`, resource ids are fixed. -/
namespace Coap.Observe
open Coap.Generated

/-! ### induction over runs with the outputs written so far -/
theorem run_nil (st : State) : run st [] = (st, []) := rfl
theorem run_cons (st : State) (e : Event) (es : List Event) :
    run st (e :: es) = ((run (step st e).1 es).1, (step st e).2 ++ (run (step st e).1 es).2) := rfl

theorem run_append (st : State) (a b : List Event) :
    run st (a ++ b) = ((run (run st a).1 b).1, (run st a).2 ++ (run (run st a).1 b).2) := by
  induction a generalizing st with
  | nil => simp [run_nil]
  | cons e es ih => simp only [List.cons_append, run_cons, ih, List.append_assoc]

/-- the invariant principle: `P st acc` relates a state to everything written before it was reached -/
theorem run_inv {P : State → List Out → Prop}
    (hstep : ∀ st acc e, P st acc → P (step st e).1 (acc ++ (step st e).2)) :
    ∀ (evs : List Event) (st : State) (acc : List Out), P st acc → P (run st evs).1 (acc ++ (run st evs).2)
  | [], st, acc, h => by simpa [run_nil] using h
  | e :: es, st, acc, h => by
    rw [run_cons]
    dsimp only
    rw [← List.append_assoc]
    exact run_inv hstep es _ _ (hstep st acc e h)

theorem run_inv_state {P : State → Prop} (hstep : ∀ st e, P st → P (step st e).1) :
    ∀ (evs : List Event) (st : State), P st → P (run st evs).1
  | [], _, h => h
  | e :: es, st, h => by rw [run_cons]; exact run_inv_state hstep es _ (hstep st e h)

/-! ### resource ids never change -/
def resIds (st : State) : List Nat := st.res.map (·.id)

/-- the resources of a state carry pairwise different ids (they are the keys of the context's resource table) -/
def IdsNodup (st : State) : Prop := (resIds st).Nodup

theorem AllIdLe.ids {a b : List Res} (h : AllIdLe a b) : a.map (·.id) = b.map (·.id) := by
  induction h with
  | nil => rfl
  | cons h _ ih => simp [h.id, ih]

theorem map_ids (l : List Res) (f : Res → Res) (hf : ∀ x, (f x).id = x.id) : (l.map f).map (·.id) = l.map (·.id) := by
  induction l with
  | nil => rfl
  | cons x xs ih => simp [hf x, ih]

theorem addToRes_id (y : Res) (c tok key m : Nat) : (addToRes y c tok key m).id = y.id := by
  unfold addToRes; split <;> rfl

theorem addObserver_ids (st : State) (r c tok key : Nat) : resIds (addObserver st r c tok key) = resIds st := by
  unfold addObserver resIds
  split
  · rfl
  · split
    · rfl
    · dsimp only
      simp only [refInc_res, mapRes]
      rw [map_ids]
      · split <;> simp
      · intro x; split
        · exact addToRes_id ..
        · rfl

theorem request_ids (st : State) (o : Option Nat) (c r tok key : Nat) (con : Bool) (mid : Nat) :
    resIds (request st o c r tok key con mid).1 = resIds st := by
  unfold request
  dsimp only
  split
  · rfl
  · have h1 : resIds (match o with
               | some 0 => touchObserver (addObserver (rxSession st c) r c tok key) c tok
               | some 1 => deleteObserverRequest (rxSession st c) r c tok key
               | _ => rxSession st c) = resIds st := by
      split
      · exact ((touchObserver_le ..).idLe.ids).trans (addObserver_ids ..)
      · exact (deleteObserverRequest_le ..).idLe.ids
      · rfl
    split
    · split
      · exact ((deleteObserver_le ..).idLe.ids).trans h1
      · exact h1
    · exact h1

theorem step_ids (st : State) (e : Event) : resIds (step st e).1 = resIds st := by
  cases e with
  | reg c r tok key con mid => exact ((io_idLe _).ids).trans (request_ids st _ c r tok key con mid)
  | can c r tok key con mid => exact ((io_idLe _).ids).trans (request_ids st _ c r tok key con mid)
  | get c r tok key con mid => exact ((io_idLe _).ids).trans (request_ids st _ c r tok key con mid)
  | chg r => exact (change_idLe st r).ids
  | adv ms => exact (io_idLe _).ids
  | ack c n =>
    unfold step; dsimp only
    split
    · split
      · exact ((io_idLe _).ids).trans (handleAck_le ..).idLe.ids
      · rfl
    · rfl
  | rst c n =>
    unfold step; dsimp only
    split
    · exact ((io_idLe _).ids).trans (handleRst_le ..).idLe.ids
    · rfl
  | err r b =>
    show resIds (modRes st r _) = _
    unfold modRes mapRes resIds
    apply map_ids; intro x; split <;> rfl
  | lost c => exact (sessionLost_le ..).idLe.ids
  | del r => exact (deleteResource_idLe st r).ids

theorem step_idsNodup (st : State) (e : Event) (h : IdsNodup st) : IdsNodup (step st e).1 := by
  unfold IdsNodup; rw [step_ids]; exact h

theorem run_ids (st : State) (evs : List Event) : resIds (run st evs).1 = resIds st := by
  induction evs generalizing st with
  | nil => rfl
  | cons e es ih => rw [run_cons]; exact (ih _).trans (step_ids st e)

theorem run_idsNodup (st : State) (evs : List Event) (h : IdsNodup st) : IdsNodup (run st evs).1 := by
  unfold IdsNodup; rw [run_ids]; exact h

/-- with distinct ids, a resource found by id is THE resource with that id -/
theorem eq_of_id_eq {l : List Res} (hn : (l.map (·.id)).Nodup) {x y : Res} (hx : x ∈ l) (hy : y ∈ l) (h : x.id = y.id) : x = y := by
  induction l with
  | nil => cases hx
  | cons a t ih =>
    rw [List.map_cons, List.nodup_cons] at hn
    cases hx with
    | head =>
      cases hy with
      | head => rfl
      | tail _ hy' => exact absurd (List.mem_map_of_mem (f := (·.id)) hy') (h ▸ hn.1)
    | tail _ hx' =>
      cases hy with
      | head => exact absurd (List.mem_map_of_mem (f := (·.id)) hx') (h ▸ hn.1)
      | tail _ hy' => exact ih hn.2 hx' hy'

theorem findRes_mem {st : State} {r : Nat} {x : Res} (h : findRes st r = some x) : x ∈ st.res ∧ x.id = r ∧ x.alive = true := by
  unfold findRes at h
  have h1 := List.mem_of_find?_eq_some h
  have h2 := List.find?_some h
  simp at h2
  exact ⟨h1, h2.1, h2.2⟩

theorem findRes_of_mem {st : State} (hn : IdsNodup st) {x : Res} (hx : x ∈ st.res) (ha : x.alive = true) :
    findRes st x.id = some x := by
  unfold findRes
  cases hf : st.res.find? (fun y => y.id == x.id && y.alive) with
  | none =>
    have := List.find?_eq_none.mp hf x hx
    simp [ha] at this
  | some y =>
    have h1 := List.mem_of_find?_eq_some hf
    have h2 := List.find?_some hf
    simp at h2
    rw [eq_of_id_eq hn h1 hx h2.1]

end Coap.Observe
