import CoapVerif.Lemmas.UriSplit
/- Helper lemmas for C16, third part: coap_uri_into_optlist against RFC 7252 §6.4 steps 5–9 (Spec.Uri.uriOptions),
   what an accepted URI looks like (inversion of Spec.Uri.splitUri), well-formed escapes survive the splitting. -/
namespace Coap.UriL
open Coap Coap.MU Coap.Spec.Uri

/-! ### coap_uri_into_optlist -/

theorem hostIsUnix_eq (h : Bytes) : hostIsUnix h = unixHost h := by
  unfold hostIsUnix unixHost unixStart
  cases h with
  | nil => simp
  | cons a r =>
    cases r with
    | nil => simp
    | cons b r1 =>
      cases r1 with
      | nil => simp
      | cons c r2 => simp

theorem lowerC_eq : lowerC = lowerAscii := rfl

set_option maxRecDepth 10000 in
theorem dflt_tab : ∀ id, id < 8 →
    schemeDefaultPort Generated.Uri.schemes id =
      (if id = 4 || id = 6 then 80 else if id = 5 || id = 7 then 443 else if id % 2 = 1 then 5684 else 5683) := by
  decide

theorem encodeVar_port (p : Nat) (h : p < 65536) : encodeVar (p % 65536) = portBytes p := by
  rw [Nat.mod_eq_of_lt h]
  unfold encodeVar portBytes
  by_cases h0 : p = 0
  · simp [h0]
  · by_cases h1 : p < 256
    · simp [h0, h1]
    · simp [h0, h1, h]

theorem hostCmp (dst cmp : Bytes) : (dst.length ≠ cmp.length || dst != cmp) = decide (cmp ≠ dst) := by
  by_cases h : cmp = dst
  · subst h; simp
  · have : dst ≠ cmp := fun e => h e.symm
    simp [h, this]


theorem pathRes_eq (path : Bytes) (ps : List Bytes) (h : pathOptions path = some ps) :
    (if path.length ≠ 0 then pathOpts path else R.ok []) = R.ok ps := by
  unfold pathOptions at h
  by_cases hp : path = []
  · subst hp; simp at h; subst h; simp
  · have : path.length ≠ 0 := by simpa using hp
    simp only [hp, if_false] at h
    simp only [this, ne_eq, not_false_eq_true, if_true]
    exact pathOpts_eq path ps h

theorem queryRes_eq (query : Bytes) (qs : List Bytes) (h : queryOptions query = some qs) :
    (if query.length ≠ 0 then queryOpts query else R.ok []) = R.ok qs := by
  unfold queryOptions at h
  by_cases hp : query = []
  · subst hp; simp at h; subst h; simp
  · have : query.length ≠ 0 := by simpa using hp
    simp only [hp, if_false] at h
    simp only [this, ne_eq, not_false_eq_true, if_true]
    exact queryOpts_eq query qs h

theorem hostOpt_eq (dst host : Bytes) (ho : List (Nat × Bytes)) (h : hostOption dst host = some ho) :
    (if host.length ≠ 0 then
        (if dst.length ≠ (spanWhile (· != 0x25) host).1.length || dst != (spanWhile (· != 0x25) host).1 then
          [(3, (replacePercents host).map lowerC)]
        else [])
      else []) = ho := by
  unfold hostOption at h
  rw [spanWhile_eq_breakAt _ _ (fun c => bne_not c 0x25) host, hostCmp]
  by_cases hh : host = []
  · subst hh; simp at h; subst h; simp
  · have hl : host.length ≠ 0 := by simpa using hh
    simp only [hl, ne_eq, not_false_eq_true, if_true]
    by_cases ha : hostAddr host = dst
    · simp only [ha, or_true, if_true, Option.some.injEq] at h
      unfold hostAddr at ha
      simp [ha, h]
    · simp only [hh, ha, or_self, if_false] at h
      unfold hostAddr at ha
      cases hd : pctDecode host with
      | none => simp [hd] at h
      | some d =>
        simp only [hd, Option.some.injEq] at h
        simp [ha, replacePercents_eq host d hd, lowerC_eq, h]

/-- coap_uri_into_optlist = RFC 7252 §6.4 steps 5–9 wherever S is defined -/
theorem uriIntoOptlist_eq (dst : Bytes) (v : MU.Uri) (opts : List (Nat × Bytes)) (hs : v.scheme < 8)
    (hp : v.port < 65536) (h : uriOptions Generated.Uri.schemes dst (partsOf v) = some opts) :
    uriIntoOptlist dst v = R.ok opts := by
  unfold uriOptions at h
  dsimp only [partsOf] at h
  by_cases hux : unixHost v.host = true
  · simp [hux] at h
  · simp only [hux, Bool.false_eq_true, if_false] at h
    cases hho : hostOption dst v.host with
    | none => simp [hho] at h
    | some ho =>
      cases hps : pathOptions v.path with
      | none => simp [hho, hps] at h
      | some ps =>
        cases hqs : queryOptions v.query with
        | none => simp [hho, hps, hqs] at h
        | some qs =>
          simp only [hho, hps, hqs, Option.some.injEq] at h
          unfold uriIntoOptlist
          simp only [hostIsUnix_eq, hux, Bool.not_false, if_true]
          rw [pathRes_eq _ _ hps, queryRes_eq _ _ hqs, hostOpt_eq dst v.host ho hho]
          simp only
          rw [encodeVar_port _ hp, ← dflt_tab _ hs, ← h]
          rfl

theorem partsOf_uriOf (u : UriParts) : partsOf (uriOf u) = u := rfl

/-! ### what an accepted URI looks like -/

theorem schemes_range : ∀ e ∈ Generated.Uri.schemes, e.2.2.2 < 8 ∧ e.2.1 < 65536 := by decide

/-- the last step of `pathQuery` -/
def pqFin (pr : Bytes × Bytes) : Option (Bytes × Bytes) :=
  match pr.2 with
  | [] => if Spec.Uri.escapesOk pr.1 then some (pr.1, []) else none
  | c :: q => if c = 0x3f ∧ Spec.Uri.escapesOk pr.1 ∧ Spec.Uri.escapesOk q then some (pr.1, q) else none

theorem pathQuery_fin (r : Bytes) : ∃ pr, pathQuery r = pqFin pr := ⟨_, rfl⟩

theorem pathQuery_inv (r p q : Bytes) (h : pathQuery r = some (p, q)) :
    Spec.Uri.escapesOk p = true ∧ Spec.Uri.escapesOk q = true := by
  obtain ⟨pr, e⟩ := pathQuery_fin r
  rw [e] at h
  unfold pqFin at h
  obtain ⟨p1, p2⟩ := pr
  cases p2 with
  | nil =>
    by_cases h1 : Spec.Uri.escapesOk p1 = true
    · simp only [h1, if_true, Option.some.injEq, Prod.mk.injEq] at h
      rw [← h.1, ← h.2]; exact ⟨h1, rfl⟩
    · simp [h1] at h
  | cons d qq =>
    by_cases h1 : d = 0x3f ∧ Spec.Uri.escapesOk p1 = true ∧ Spec.Uri.escapesOk qq = true
    · simp only [h1, and_self, if_true, Option.some.injEq, Prod.mk.injEq] at h
      rw [← h.1, ← h.2]; exact ⟨h1.2.1, h1.2.2⟩
    · simp only [h1, if_false] at h
      cases h

theorem portPart_inv (r rest : Bytes) (n : Nat) (h : portPart r = some (some n, rest)) : n ≤ 65535 := by
  unfold portPart at h
  split at h
  · split at h
    · simp only at h
      split at h
      · simp at h
      · split at h
        · simp only [Option.some.injEq, Prod.mk.injEq] at h
          rw [← h.1]; assumption
        · cases h
    · simp at h
  · simp at h

theorem hostPart_unix (rest h r1 : Bytes) (hu : unixStart rest = true) (hh : hostPart rest = some (h, r1)) :
    unixStart h = true := by
  unfold unixStart at hu
  split at hu
  · rename_i a b c t
    simp only [Bool.and_eq_true, beq_iff_eq, Bool.or_eq_true] at hu
    obtain ⟨⟨ha, hb⟩, hc⟩ := hu
    subst ha; subst hb
    unfold hostPart at hh
    simp only [show ¬ ((0x25 : UInt8) = 0x5b) by decide, if_false] at hh
    have e : breakAt (fun c => c == 0x3a || c == 0x2f || c == 0x3f) (0x25 :: 0x32 :: c :: t) =
        (0x25 :: 0x32 :: c :: (breakAt (fun c => c == 0x3a || c == 0x2f || c == 0x3f) t).1,
         (breakAt (fun c => c == 0x3a || c == 0x2f || c == 0x3f) t).2) := by
      rcases hc with hc | hc <;> subst hc <;> simp [breakAt]
    rw [e] at hh
    simp only [List.isEmpty_cons, Bool.false_eq_true, if_false, Option.some.injEq, Prod.mk.injEq] at hh
    rw [← hh.1]
    rcases hc with hc | hc <;> subst hc <;> rfl
  · cases hu

theorem splitUri_inv (proxy : Bool) (s : Bytes) (parts : UriParts)
    (h : splitUri Generated.Uri.schemes proxy s = some parts) :
    parts.scheme < 8 ∧ parts.port < 65536 ∧ Spec.Uri.escapesOk parts.path = true ∧
    Spec.Uri.escapesOk parts.query = true ∧ (unixAuthority s = true → unixStart parts.host = true) := by
  cases s with
  | nil => simp [splitUri] at h
  | cons c0 t =>
    unfold splitUri at h
    by_cases hc : c0 = 0x2f
    · simp only [hc, if_true] at h
      cases proxy with
      | true => simp at h
      | false =>
        simp only [Bool.false_eq_true, if_false] at h
        cases hpq : pathQuery (0x2f :: t) with
        | none => simp [hpq] at h
        | some pq =>
          obtain ⟨p, q⟩ := pq
          simp only [hpq, Option.some.injEq] at h
          have ⟨e1, e2⟩ := pathQuery_inv _ _ _ hpq
          subst h
          refine ⟨by simp, by simp, e1, e2, ?_⟩
          intro hu
          simp [unixAuthority, hc] at hu
    · simp only [hc, if_false] at h
      cases hf : findSchemeEnd (c0 :: t) with
      | none => simp [hf] at h
      | some nr =>
        obtain ⟨n, rest⟩ := nr
        simp only [hf] at h
        cases hfind : Generated.Uri.schemes.find? (fun e => e.1 == n) with
        | none => simp [hfind] at h
        | some e =>
          obtain ⟨nm, dport, proxyOnly, id⟩ := e
          have hr := schemes_range _ (List.mem_of_find?_eq_some hfind)
          simp only at hr
          simp only [hfind] at h
          split at h
          · cases h
          · cases hh : hostPart rest with
            | none => simp [hh] at h
            | some hr1 =>
              obtain ⟨ho, rest1⟩ := hr1
              simp only [hh] at h
              cases hpp : portPart rest1 with
              | none => simp [hpp] at h
              | some pr =>
                obtain ⟨port, rest2⟩ := pr
                simp only [hpp] at h
                cases hpq : pathQuery rest2 with
                | none => simp [hpq] at h
                | some pq =>
                  obtain ⟨p, q⟩ := pq
                  simp only [hpq, Option.some.injEq] at h
                  have ⟨e1, e2⟩ := pathQuery_inv _ _ _ hpq
                  subst h
                  refine ⟨hr.1, ?_, e1, e2, ?_⟩
                  · cases port with
                    | none => exact hr.2
                    | some n => have := portPart_inv _ _ _ hpp; simp only; omega
                  · intro hu
                    simp only [unixAuthority, hc, if_false, hf] at hu
                    exact hostPart_unix rest ho rest1 hu hh

/-! ### a component with well-formed escapes splits into segments with well-formed escapes -/

theorem pctDecode_append (n : Nat) : ∀ (a b x y : Bytes), a.length ≤ n → pctDecode a = some x → pctDecode b = some y →
    pctDecode (a ++ b) = some (x ++ y) := by
  induction n with
  | zero =>
    intro a b x y hn ha hb
    have : a = [] := List.eq_nil_of_length_eq_zero (by omega)
    subst this
    simp [pctDecode] at ha; subst ha; simpa using hb
  | succ n ih =>
    intro a b x y hn ha hb
    cases a with
    | nil => simp [pctDecode] at ha; subst ha; simpa using hb
    | cons c r =>
      rcases pctDecode_cons_inv _ _ _ ha with ⟨hc, t, ht, hd⟩ | ⟨hc, a', b', r', x', y', t, hr, hx, hy, ht, hd⟩
      · have := ih r b t y (by simp at hn; omega) ht hb
        subst hd
        exact pctDecode_cons_plain _ _ _ hc this
      · subst hr; subst hc
        have := ih r' b t y (by simp at hn; omega) ht hb
        subst hd
        exact pctDecode_esc _ _ _ _ _ _ hx hy this

/-- neither '%' nor a hex digit ends a component or separates segments -/
structure HexSafe (stop sep : UInt8 → Bool) : Prop where
  pct : stop 0x25 = false ∧ sep 0x25 = false
  hex : ∀ n, n < 256 → (hexDigitVal (UInt8.ofNat n)).isSome = true → stop (UInt8.ofNat n) = false ∧ sep (UInt8.ofNat n) = false

theorem HexSafe.hex' {stop sep : UInt8 → Bool} (hs : HexSafe stop sep) (c : UInt8) (x : Nat) (h : hexDigitVal c = some x) :
    stop c = false ∧ sep c = false := by
  have := hs.hex c.toNat c.toNat_lt (by simp [h])
  simpa using this

set_option maxRecDepth 100000 in
theorem pathHexSafe : HexSafe pathStop pathSep := ⟨by decide, by decide⟩
set_option maxRecDepth 100000 in
theorem queryHexSafe : HexSafe queryStop querySep := ⟨by decide, by decide⟩

theorem splits_decode {stop sep : UInt8 → Bool} (hs : HexSafe stop sep) (n : Nat) :
    ∀ (s cur d dc : Bytes), s.length ≤ n → pctDecode s = some d → pctDecode cur = some dc →
      ∃ ds, decodeAll (splitAcc stop sep s cur) = some ds := by
  induction n with
  | zero =>
    intro s cur d dc hn h hcur
    have : s = [] := List.eq_nil_of_length_eq_zero (by omega)
    subst this
    exact ⟨[dc], by simp [splitAcc, decodeAll, hcur]⟩
  | succ n ih =>
    intro s cur d dc hn h hcur
    cases s with
    | nil => exact ⟨[dc], by simp [splitAcc, decodeAll, hcur]⟩
    | cons c r =>
      rcases pctDecode_cons_inv _ _ _ h with ⟨hc, t, ht, hd⟩ | ⟨hc, a, b, r', x, y, t, hr, hx, hy, ht, hd⟩
      · by_cases h1 : stop c = true
        · exact ⟨[dc], by simp [splitAcc, h1, decodeAll, hcur]⟩
        · by_cases h2 : sep c = true
          · obtain ⟨ds, hds⟩ := ih r [] t [] (by simp at hn; omega) ht rfl
            exact ⟨dc :: ds, by simp [splitAcc, h1, h2, decodeAll, hcur, hds]⟩
          · have hc1 : pctDecode [c] = some [c] := pctDecode_cons_plain _ _ _ hc rfl
            have := pctDecode_append cur.length cur [c] dc [c] (Nat.le_refl _) hcur hc1
            obtain ⟨ds, hds⟩ := ih r (cur ++ [c]) t _ (by simp at hn; omega) ht this
            exact ⟨ds, by simp [splitAcc, h1, h2, hds]⟩
      · subst hr; subst hc
        have ⟨p1, p2⟩ := hs.pct
        have ⟨a1, a2⟩ := hs.hex' a x hx
        have ⟨b1, b2⟩ := hs.hex' b y hy
        have he : pctDecode [0x25, a, b] = some [UInt8.ofNat (x * 16 + y)] := pctDecode_esc _ _ _ _ _ _ hx hy rfl
        have := pctDecode_append cur.length cur [0x25, a, b] dc _ (Nat.le_refl _) hcur he
        obtain ⟨ds, hds⟩ := ih r' (cur ++ [0x25, a, b]) t _ (by simp at hn; omega) ht this
        refine ⟨ds, ?_⟩
        simp only [splitAcc, p1, p2, a1, a2, b1, b2, Bool.false_eq_true, if_false]
        simpa using hds

theorem splitPath_defined (s : Bytes) (h : Spec.Uri.escapesOk s = true) : ∃ segs, Spec.Uri.splitPath s = some segs := by
  unfold Spec.Uri.escapesOk at h
  cases hd : pctDecode s with
  | none => simp [hd] at h
  | some d =>
    obtain ⟨ds, hds⟩ := splits_decode pathHexSafe s.length s [] d [] (Nat.le_refl _) hd rfl
    exact ⟨resolve ds, by simp [Spec.Uri.splitPath, rawSegs, hds]⟩

theorem splitQuery_defined (s : Bytes) (h : Spec.Uri.escapesOk s = true) : ∃ segs, Spec.Uri.splitQuery s = some segs := by
  unfold Spec.Uri.escapesOk at h
  cases hd : pctDecode s with
  | none => simp [hd] at h
  | some d =>
    obtain ⟨ds, hds⟩ := splits_decode queryHexSafe s.length s [] d [] (Nat.le_refl _) hd rfl
    exact ⟨ds, by simp [Spec.Uri.splitQuery, rawSegs, hds]⟩

/-! ### reading the option list back -/

/-- the values of the options with number `num`, in order -/
def valuesOf (num : Nat) (opts : List (Nat × Bytes)) : List Bytes := (opts.filter (fun o => o.1 == num)).map (·.2)

theorem valuesOf_append (num : Nat) (a b : List (Nat × Bytes)) : valuesOf num (a ++ b) = valuesOf num a ++ valuesOf num b := by
  simp [valuesOf]

theorem valuesOf_map_same (num : Nat) (l : List Bytes) : valuesOf num (l.map (fun v => (num, v))) = l := by
  induction l with
  | nil => rfl
  | cons a r ih => simp [valuesOf] at ih ⊢; exact ih

theorem valuesOf_map_other (num k : Nat) (h : k ≠ num) (l : List Bytes) : valuesOf num (l.map (fun v => (k, v))) = [] := by
  induction l with
  | nil => rfl
  | cons a r ih => simp [valuesOf, h] at ih ⊢

theorem valuesOf_none (num : Nat) (l : List (Nat × Bytes)) (h : ∀ o ∈ l, o.1 ≠ num) : valuesOf num l = [] := by
  induction l with
  | nil => rfl
  | cons a r ih =>
    have h1 := h a (by simp)
    have := ih (fun o ho => h o (by simp [ho]))
    simp [valuesOf, h1] at this ⊢
    exact this

theorem mem_ite_single {α : Type} (c : Prop) [Decidable c] (x o : α) (h : o ∈ (if c then [x] else [])) : o = x := by
  split at h
  · simpa using h
  · cases h

theorem mem_ite_nil {α : Type} (c : Prop) [Decidable c] (l : List α) (o : α) (h : o ∈ (if c then l else [])) : o ∈ l := by
  split at h
  · exact h
  · cases h

/-- shape of coap_uri_into_optlist's result: Uri-Host / Uri-Port first, then the Uri-Path and the Uri-Query values -/
theorem uriIntoOptlist_shape (dst : Bytes) (u : MU.Uri) (ps qs : List Bytes)
    (hp : (if u.path.length ≠ 0 then pathOpts u.path else R.ok []) = R.ok ps)
    (hq : (if u.query.length ≠ 0 then queryOpts u.query else R.ok []) = R.ok qs) :
    ∃ hpo, (∀ o ∈ hpo, o.1 = 3 ∨ o.1 = 7) ∧
      uriIntoOptlist dst u = R.ok (hpo ++ ps.map (fun v => (11, v)) ++ qs.map (fun v => (15, v))) := by
  unfold uriIntoOptlist
  rw [hp, hq]
  refine ⟨_, ?_, rfl⟩
  intro o ho
  have ho := mem_ite_nil _ _ _ ho
  simp only [List.mem_append] at ho
  rcases ho with ho | ho
  · have ho := mem_ite_single _ _ _ (mem_ite_nil _ _ _ ho)
    left; rw [ho]
  · have ho := mem_ite_single _ _ _ ho
    right; rw [ho]

theorem uriIntoOptlist_values (dst : Bytes) (u : MU.Uri) (ps qs : List Bytes) (opts : List (Nat × Bytes))
    (hp : (if u.path.length ≠ 0 then pathOpts u.path else R.ok []) = R.ok ps)
    (hq : (if u.query.length ≠ 0 then queryOpts u.query else R.ok []) = R.ok qs)
    (h : uriIntoOptlist dst u = R.ok opts) : valuesOf 11 opts = ps ∧ valuesOf 15 opts = qs := by
  obtain ⟨hpo, hnum, e⟩ := uriIntoOptlist_shape dst u ps qs hp hq
  rw [e] at h
  have h := (R.ok.inj h).symm
  subst h
  have n11 : valuesOf 11 hpo = [] := valuesOf_none _ _ (fun o ho => by rcases hnum o ho with h | h <;> omega)
  have n15 : valuesOf 15 hpo = [] := valuesOf_none _ _ (fun o ho => by rcases hnum o ho with h | h <;> omega)
  constructor
  · rw [valuesOf_append, valuesOf_append, n11, valuesOf_map_same, valuesOf_map_other 11 15 (by omega)]; simp
  · rw [valuesOf_append, valuesOf_append, n15, valuesOf_map_same, valuesOf_map_other 15 11 (by omega)]; simp

theorem decodeAll_length (raws ds : List Bytes) (h : decodeAll raws = some ds) : ds.length = raws.length := by
  induction raws generalizing ds with
  | nil => simp [decodeAll] at h; subst h; rfl
  | cons r rs ih =>
    simp only [decodeAll] at h
    cases hd : pctDecode r with
    | none => simp [hd] at h
    | some d =>
      cases ht : decodeAll rs with
      | none => simp [hd, ht] at h
      | some t => simp [hd, ht] at h; subst h; simp [ih t ht]

theorem splitQuery_ne_nil (input : Bytes) (qs : List Bytes) (h : Spec.Uri.splitQuery input = some qs) : qs ≠ [] := by
  intro e
  have := decodeAll_length _ _ h
  have h1 := (splitAcc_len queryStop querySep input []).2
  subst e
  unfold rawSegs at this
  simp at this
  omega

/-! ### below the minimum: segments are omitted, never altered -/

theorem writeS_cases (seg d : Bytes) (st : Cnt) (hd : pctDecode seg = some d) :
    writeS seg st = st ∨ writeS seg st = { st with segs := st.segs ++ [d] } := by
  unfold writeS
  rw [hd]
  simp only
  split
  · left; rfl
  · split
    · left; rfl
    · split
      · left; rfl
      · right; rfl

/-- whatever the buffer size, the path writer returns S's resolution of a sublist of the decoded segments -/
theorem fold_buf_path_sub (raws ds : List Bytes) (st : Cnt) (h : decodeAll raws = some ds) :
    ∃ ds' : List Bytes, ds'.Sublist ds ∧
      raws.foldl (fun s seg => pathStepBuf seg s) st = ⟨st.buflen, ds'.foldl resolveStep st.segs⟩ := by
  induction raws generalizing ds st with
  | nil => simp [decodeAll] at h; subst h; exact ⟨[], List.Sublist.refl _, rfl⟩
  | cons r rs ih =>
    simp only [decodeAll] at h
    cases hd : pctDecode r with
    | none => simp [hd] at h
    | some d =>
      cases ht : decodeAll rs with
      | none => simp [hd, ht] at h
      | some t =>
        simp [hd, ht] at h
        subst h
        simp only [List.foldl_cons]
        have hstep : pathStepBuf r st = st ∨ pathStepBuf r st = ⟨st.buflen, resolveStep st.segs d⟩ := by
          unfold pathStepBuf resolveStep
          rw [dotKind_decode r d hd]
          by_cases e1 : d = dot1
          · left; simp [e1]
          · by_cases e2 : d = dot2
            · have hne : dot2 ≠ dot1 := by decide
              subst e2
              right; simp [hne, backupSegment]
            · have h01 : ¬ ((0 : Nat) = 1) := by omega
              have h02 : ¬ ((0 : Nat) = 2) := by omega
              simp only [e1, e2, if_false, h01, h02]
              exact writeS_cases r d st hd
        rcases hstep with e | e
        · rw [e]
          obtain ⟨ds', hsub, hf⟩ := ih t st ht
          exact ⟨ds', List.Sublist.cons _ hsub, hf⟩
        · rw [e]
          obtain ⟨ds', hsub, hf⟩ := ih t ⟨st.buflen, resolveStep st.segs d⟩ ht
          exact ⟨d :: ds', List.Sublist.cons_cons _ hsub, by simpa using hf⟩

theorem fold_buf_query_sub (raws ds : List Bytes) (st : Cnt) (h : decodeAll raws = some ds) :
    ∃ ds' : List Bytes, ds'.Sublist ds ∧ raws.foldl (fun s seg => writeS seg s) st = ⟨st.buflen, st.segs ++ ds'⟩ := by
  induction raws generalizing ds st with
  | nil => simp [decodeAll] at h; subst h; exact ⟨[], List.Sublist.refl _, by simp⟩
  | cons r rs ih =>
    simp only [decodeAll] at h
    cases hd : pctDecode r with
    | none => simp [hd] at h
    | some d =>
      cases ht : decodeAll rs with
      | none => simp [hd, ht] at h
      | some t =>
        simp [hd, ht] at h
        subst h
        simp only [List.foldl_cons]
        rcases writeS_cases r d st hd with e | e
        · rw [e]
          obtain ⟨ds', hsub, hf⟩ := ih t st ht
          exact ⟨ds', List.Sublist.cons _ hsub, hf⟩
        · rw [e]
          obtain ⟨ds', hsub, hf⟩ := ih t { st with segs := st.segs ++ [d] } ht
          exact ⟨d :: ds', List.Sublist.cons_cons _ hsub, by simpa using hf⟩

/-! ### coap_split_uri_sub / coap_uri_into_optlist never leave the input, Unix-socket authorities included -/

theorem ite_not_oob {α : Type} (c : Prop) [Decidable c] (a b : R α) (ha : a ≠ R.oob) (hb : b ≠ R.oob) :
    (if c then a else b) ≠ R.oob := by
  split <;> assumption

theorem pathAndQuery_not_oob (u : MU.Uri) (q : Bytes) : pathAndQuery u q ≠ R.oob := by
  cases q with
  | nil => exact ite_not_oob _ _ _ (by simp) (by simp)
  | cons c r =>
    unfold pathAndQuery
    dsimp only
    generalize (if c = 0x2f then spanWhile (· != 0x3f) r else ([], c :: r)) = pq
    obtain ⟨p1, p2⟩ := pq
    cases p2 with
    | nil => exact ite_not_oob _ _ _ (by simp) (by simp)
    | cons d qr => exact ite_not_oob _ _ _ (ite_not_oob _ _ _ (by simp) (by simp)) (by simp)

theorem hostM_not_oob (u1 : MU.Uri) (p : Bytes) : hostM u1 p ≠ R.oob := by
  cases p with
  | nil => simp [hostM]
  | cons c r =>
    unfold hostM
    dsimp only
    apply ite_not_oob
    · generalize spanWhile (· != 0x5d) r = hq
      obtain ⟨h1, h2⟩ := hq
      cases h2 with
      | nil => simp
      | cons d q' => exact ite_not_oob _ _ _ (by simp) (by simp)
    · exact ite_not_oob _ _ _ (by simp) (by simp)

theorem portM_not_oob (u2 : MU.Uri) (q : Bytes) (unix : Bool) : portM u2 q unix ≠ R.oob := by
  cases q with
  | nil => simp [portM]
  | cons c r =>
    unfold portM
    dsimp only
    apply ite_not_oob
    · apply ite_not_oob
      · simp
      · apply ite_not_oob
        · simp
        · exact ite_not_oob _ _ _ (by simp) (by simp)
    · simp

theorem afterScheme_not_oob (u1 : MU.Uri) (p : Bytes) : afterScheme u1 p ≠ R.oob := by
  unfold afterScheme
  have h1 := hostM_not_oob u1 p
  cases hh : hostM u1 p with
  | oob => exact absurd hh h1
  | rej => simp
  | ok r =>
    obtain ⟨u2, q, unix⟩ := r
    dsimp only
    have h2 := portM_not_oob u2 q unix
    cases hp : portM u2 q unix with
    | oob => exact absurd hp h2
    | rej => simp
    | ok r2 =>
      obtain ⟨u3, q2⟩ := r2
      exact pathAndQuery_not_oob u3 q2

theorem splitUriSub_not_oob (proxy : Bool) (s : Bytes) : splitUriSub proxy s ≠ R.oob := by
  rw [splitUriSub_unfold]
  cases s with
  | nil => simp
  | cons c0 t =>
    dsimp only
    apply ite_not_oob
    · exact ite_not_oob _ _ _ (by simp) (pathAndQuery_not_oob _ _)
    · apply ite_not_oob
      · simp
      · cases Generated.Uri.schemes.find? (fun e => e.1 == (findScheme (c0 :: t)).1) with
        | none => simp
        | some e =>
          obtain ⟨nm, dport, proxyOnly, id⟩ := e
          dsimp only
          exact ite_not_oob _ _ _ (by simp) (ite_not_oob _ _ _ (by simp) (afterScheme_not_oob _ _))

theorem uriIntoOptlist_not_oob (dst : Bytes) (u : MU.Uri) : uriIntoOptlist dst u ≠ R.oob := by
  unfold uriIntoOptlist
  dsimp only
  have hp : (if u.path.length ≠ 0 then pathOpts u.path else R.ok []) ≠ R.oob := by
    split
    · rw [pathOpts_fold]; simp
    · simp
  have hq : (if u.query.length ≠ 0 then queryOpts u.query else R.ok []) ≠ R.oob := by
    split
    · rw [queryOpts_fold]; simp
    · simp
  cases h1 : (if u.path.length ≠ 0 then pathOpts u.path else R.ok []) with
  | oob => exact absurd h1 hp
  | rej => simp
  | ok ps =>
    cases h2 : (if u.query.length ≠ 0 then queryOpts u.query else R.ok []) with
    | oob => exact absurd h2 hq
    | rej => simp
    | ok qs => simp

/-! ### S recognises what it should: composing a URI text from its parts and splitting it again -/

theorem findSchemeEnd_append (n x : Bytes) (h : (0x3a : UInt8) ∉ n) :
    findSchemeEnd (n ++ 0x3a :: 0x2f :: 0x2f :: x) = some (n, x) := by
  induction n with
  | nil => simp [findSchemeEnd]
  | cons c r ih =>
    simp only [List.mem_cons, not_or] at h
    have hc : ¬ (c = 0x3a) := fun e => h.1 e.symm
    simp only [List.cons_append, findSchemeEnd, hc, false_and, if_false, ih h.2]

/-- breaking a string at the first byte satisfying `p`: the part before has none, the rest is empty or starts with one -/
theorem breakAt_append (p : UInt8 → Bool) (a b : Bytes) (ha : ∀ c ∈ a, p c = false)
    (hb : b = [] ∨ ∃ c t, b = c :: t ∧ p c = true) : breakAt p (a ++ b) = (a, b) := by
  induction a with
  | nil =>
    rcases hb with e | ⟨c, t, e, hc⟩
    · subst e; rfl
    · subst e; simp [breakAt, hc]
  | cons c r ih =>
    have h1 := ha c (by simp)
    have h2 := ih (fun x hx => ha x (by simp [hx]))
    simp [breakAt, h1, h2]

/-- text of the host part of an authority -/
def hostText (h : Bytes) (v6 : Bool) : Bytes := if v6 then 0x5b :: h ++ [0x5d] else h
/-- text of the port part: nothing, or ':' and digits (possibly none) -/
def portText : Option Bytes → Bytes
  | none => []
  | some d => 0x3a :: d

/-- what may follow the authority: nothing, a path, or a query -/
def TailStart (rest : Bytes) : Prop := rest = [] ∨ ∃ t, rest = 0x2f :: t ∨ rest = 0x3f :: t

/-- a host as S takes it: non-empty; inside brackets anything but ']', else no ':' '/' '?' and not starting with '[' -/
def HostOk (h : Bytes) (v6 : Bool) : Prop :=
  h ≠ [] ∧ (if v6 then (0x5d : UInt8) ∉ h else h.head? ≠ some 0x5b ∧ ∀ c ∈ h, c ≠ 0x3a ∧ c ≠ 0x2f ∧ c ≠ 0x3f)

def PortOk : Option Bytes → Prop
  | none => True
  | some d => (∀ c ∈ d, Spec.Uri.isDigit c = true) ∧ decimal d ≤ 65535

def portValue (dflt : Nat) : Option Bytes → Nat
  | none => dflt
  | some d => if d = [] then dflt else decimal d

theorem hostPart_text (h : Bytes) (v6 : Bool) (r : Bytes) (hh : HostOk h v6)
    (hr : r = [] ∨ ∃ c t, r = c :: t ∧ (c = 0x3a ∨ c = 0x2f ∨ c = 0x3f)) :
    hostPart (hostText h v6 ++ r) = some (h, r) := by
  obtain ⟨hne, hc⟩ := hh
  have hemp : h.isEmpty = false := by cases h with | nil => exact absurd rfl hne | cons _ _ => rfl
  cases v6 with
  | true =>
    simp only [if_true] at hc
    have hb : breakAt (· == 0x5d) (h ++ 0x5d :: r) = (h, 0x5d :: r) :=
      breakAt_append _ h _ (fun c hcm => by
        have : c ≠ 0x5d := fun e => hc (e ▸ hcm)
        simpa using this) (Or.inr ⟨0x5d, r, rfl, by simp⟩)
    simp only [hostText, if_true, List.cons_append, List.append_assoc, List.nil_append, hostPart, hb, hemp]
    simp
  | false =>
    simp only [Bool.false_eq_true, if_false] at hc
    obtain ⟨hhead, hall⟩ := hc
    cases h with
    | nil => exact absurd rfl hne
    | cons c0 t =>
      have hc0 : ¬ (c0 = 0x5b) := by simpa using hhead
      have hb : breakAt (fun c => c == 0x3a || c == 0x2f || c == 0x3f) ((c0 :: t) ++ r) = (c0 :: t, r) := by
        apply breakAt_append
        · intro c hcm
          have ⟨a1, a2, a3⟩ := hall c hcm
          simp [a1, a2, a3]
        · rcases hr with e | ⟨c, t', e, hcc⟩
          · exact Or.inl e
          · refine Or.inr ⟨c, t', e, ?_⟩
            rcases hcc with e | e | e <;> subst e <;> rfl
      simp only [hostText, Bool.false_eq_true, if_false, List.cons_append] at hb ⊢
      simp only [hostPart, hc0, if_false, hb]
      simp

theorem portPart_text (ds : Option Bytes) (rest : Bytes) (hp : PortOk ds) (hr : TailStart rest) :
    portPart (portText ds ++ rest) = some ((match ds with | none => none | some d => if d = [] then none else some (decimal d)), rest) := by
  have hrest : rest = [] ∨ ∃ c t, rest = c :: t ∧ (!Spec.Uri.isDigit c) = true := by
    rcases hr with e | ⟨t, e | e⟩
    · exact Or.inl e
    · exact Or.inr ⟨0x2f, t, e, by decide⟩
    · exact Or.inr ⟨0x3f, t, e, by decide⟩
  cases ds with
  | none =>
    simp only [portText, List.nil_append]
    rcases hr with e | ⟨t, e | e⟩ <;> subst e <;> simp [portPart]
  | some d =>
    obtain ⟨hd, hle⟩ := hp
    have hb : breakAt (fun c => !Spec.Uri.isDigit c) (d ++ rest) = (d, rest) :=
      breakAt_append _ d rest (fun c hc => by simp [hd c hc]) hrest
    simp only [portText, List.cons_append, portPart, if_true, hb]
    cases d with
    | nil => simp
    | cons c t => simp [hle]


/-- the scheme names of the table (T1): non-empty, not starting with '/', without ':', and unique -/
theorem schemes_names : ∀ e ∈ Generated.Uri.schemes,
    e.1.head? ≠ none ∧ e.1.head? ≠ some 0x2f ∧ (0x3a : UInt8) ∉ e.1 ∧
    Generated.Uri.schemes.find? (fun x => x.1 == e.1) = some e := by decide

theorem splitUri_compose (proxy : Bool) (e : Bytes × Nat × Bool × Nat) (he : e ∈ Generated.Uri.schemes)
    (hpx : e.2.2.1 = true → proxy = true) (h : Bytes) (v6 : Bool) (ds : Option Bytes) (rest path query : Bytes)
    (hh : HostOk h v6) (hp : PortOk ds) (hr : TailStart rest) (hpq : pathQuery rest = some (path, query)) :
    splitUri Generated.Uri.schemes proxy (e.1 ++ [0x3a, 0x2f, 0x2f] ++ hostText h v6 ++ portText ds ++ rest) =
      some ⟨e.2.2.2, h, portValue e.2.1 ds, path, query⟩ := by
  obtain ⟨n1, n2, n3, n4⟩ := schemes_names e he
  obtain ⟨name, dport, proxyOnly, id⟩ := e
  dsimp only at *
  have hs : name ++ [0x3a, 0x2f, 0x2f] ++ hostText h v6 ++ portText ds ++ rest =
      name ++ 0x3a :: 0x2f :: 0x2f :: (hostText h v6 ++ (portText ds ++ rest)) := by simp
  rw [hs]
  have hfe := findSchemeEnd_append name (hostText h v6 ++ (portText ds ++ rest)) n3
  cases name with
  | nil => simp at n1
  | cons c0 t =>
    have hc0 : ¬ (c0 = 0x2f) := by simpa using n2
    have hr2 : portText ds ++ rest = [] ∨ ∃ c t, portText ds ++ rest = c :: t ∧ (c = 0x3a ∨ c = 0x2f ∨ c = 0x3f) := by
      cases ds with
      | none =>
        rcases hr with e | ⟨t, e | e⟩
        · left; simp [portText, e]
        · right; exact ⟨0x2f, t, by simp [portText, e], Or.inr (Or.inl rfl)⟩
        · right; exact ⟨0x3f, t, by simp [portText, e], Or.inr (Or.inr rfl)⟩
      | some d => right; exact ⟨0x3a, d ++ rest, by simp [portText], Or.inl rfl⟩
    have hpo : (proxyOnly && !proxy) = false := by
      cases proxyOnly with
      | false => rfl
      | true => simp [hpx rfl]
    rw [List.cons_append] at hfe ⊢
    simp only [splitUri, hc0, if_false, hfe, n4, hpo, Bool.false_eq_true,
      hostPart_text h v6 _ hh hr2, portPart_text ds rest hp hr, hpq]
    cases ds with
    | none => rfl
    | some d =>
      by_cases hd : d = [] <;> simp [portValue, hd]

theorem unixStart_append (h r : Bytes) (hu : unixStart h = false)
    (hr : r = [] ∨ ∃ c t, r = c :: t ∧ (c = 0x3a ∨ c = 0x2f ∨ c = 0x3f)) : unixStart (h ++ r) = false := by
  cases h with
  | nil =>
    rcases hr with e | ⟨c, t, e, hc⟩
    · subst e; rfl
    · subst e
      cases t with
      | nil => rfl
      | cons d t' =>
        cases t' with
        | nil => rfl
        | cons d' t'' => rcases hc with e | e | e <;> subst e <;> simp [unixStart]
  | cons a h1 =>
    cases h1 with
    | nil =>
      rcases hr with e | ⟨c, t, e, hc⟩
      · subst e; rfl
      · subst e
        cases t with
        | nil => rfl
        | cons d t' => rcases hc with e | e | e <;> subst e <;> simp [unixStart]
    | cons b h2 =>
      cases h2 with
      | nil =>
        rcases hr with e | ⟨c, t, e, hc⟩
        · subst e; rfl
        · subst e
          rcases hc with e | e | e <;> subst e <;> simp [unixStart]
      | cons c h3 => exact hu

theorem unixAuthority_compose (e : Bytes × Nat × Bool × Nat) (he : e ∈ Generated.Uri.schemes) (h : Bytes) (v6 : Bool)
    (ds : Option Bytes) (rest : Bytes) (hr : TailStart rest) (hu : v6 = true ∨ unixStart h = false) :
    unixAuthority (e.1 ++ [0x3a, 0x2f, 0x2f] ++ hostText h v6 ++ portText ds ++ rest) = false := by
  obtain ⟨n1, n2, n3, _⟩ := schemes_names e he
  have hs : e.1 ++ [0x3a, 0x2f, 0x2f] ++ hostText h v6 ++ portText ds ++ rest =
      e.1 ++ 0x3a :: 0x2f :: 0x2f :: (hostText h v6 ++ (portText ds ++ rest)) := by simp
  rw [hs]
  have hfe := findSchemeEnd_append e.1 (hostText h v6 ++ (portText ds ++ rest)) n3
  cases hn : e.1 with
  | nil => simp [hn] at n1
  | cons c0 t =>
    rw [hn] at hfe n2
    have hc0 : ¬ (c0 = 0x2f) := by simpa using n2
    rw [List.cons_append] at hfe ⊢
    simp only [unixAuthority, hc0, if_false, hfe]
    rcases hu with e1 | e1
    · subst e1
      simp only [hostText, if_true, List.cons_append]
      cases h ++ [0x5d] ++ (portText ds ++ rest) with
      | nil => rfl
      | cons a r1 =>
        cases r1 with
        | nil => rfl
        | cons b r2 => simp [unixStart]
    · cases v6 with
      | true =>
        simp only [hostText, if_true, List.cons_append]
        cases h ++ [0x5d] ++ (portText ds ++ rest) with
        | nil => rfl
        | cons a r1 =>
          cases r1 with
          | nil => rfl
          | cons b r2 => simp [unixStart]
      | false =>
        simp only [hostText, Bool.false_eq_true, if_false]
        apply unixStart_append h _ e1
        cases ds with
        | none =>
          rcases hr with e | ⟨t, e | e⟩
          · left; simp [portText, e]
          · right; exact ⟨0x2f, t, by simp [portText, e], Or.inr (Or.inl rfl)⟩
          · right; exact ⟨0x3f, t, by simp [portText, e], Or.inr (Or.inr rfl)⟩
        | some d => right; exact ⟨0x3a, d ++ rest, by simp [portText], Or.inl rfl⟩

end Coap.UriL
