import CoapVerif.Model.OptFilter
import CoapVerif.Spec.OptFilter
/-!
Helper lemmas for the option filter and the filtered iterator (used by Props/C03.lean).
-/
namespace Coap.M.OptFilter

/-- the values held by the slots in use -/
def usedVals : Slots → List Nat
  | [] => []
  | (u, x) :: r => if u then x :: usedVals r else usedVals r

@[simp] theorem usedVals_nil : usedVals [] = [] := rfl
theorem usedVals_cons_true (x : Nat) (r : Slots) : usedVals ((true, x) :: r) = x :: usedVals r := by simp [usedVals]
theorem usedVals_cons_false (x : Nat) (r : Slots) : usedVals ((false, x) :: r) = usedVals r := by simp [usedVals]

theorem usedVals_length_le (sl : Slots) : (usedVals sl).length ≤ sl.length := by
  induction sl with
  | nil => simp
  | cons h r ih => rcases h with ⟨u, x⟩; cases u <;> simp [usedVals] <;> omega

/-! ### findIdx -/

theorem findIdx_none_iff (sl : Slots) (v : Nat) : findIdx sl v = none ↔ v ∉ usedVals sl := by
  induction sl with
  | nil => simp [findIdx]
  | cons h r ih =>
    rcases h with ⟨u, x⟩
    cases u
    · simp [findIdx, usedVals, ih]
    · by_cases hx : x = v
      · simp [findIdx, usedVals, hx]
      · have hx' : ¬ v = x := fun h => hx h.symm
        simp [findIdx, usedVals, hx, hx', ih]

theorem findIdx_some (sl : Slots) (v i : Nat) (h : findIdx sl v = some i) :
    i < sl.length ∧ sl[i]? = some (true, v) := by
  induction sl generalizing i with
  | nil => simp [findIdx] at h
  | cons hd r ih =>
    rcases hd with ⟨u, x⟩
    by_cases hc : u = true ∧ x = v
    · simp [findIdx, hc] at h; subst h; simp [hc.1, hc.2]
    · simp only [findIdx, hc, if_false] at h
      cases hf : findIdx r v with
      | none => simp [hf] at h
      | some j =>
        simp [hf] at h; subst h
        have := ih j hf
        refine ⟨by simp; omega, ?_⟩
        simpa using this.2

theorem findIdx_isSome_iff (sl : Slots) (v : Nat) : (findIdx sl v).isSome ↔ v ∈ usedVals sl := by
  cases h : findIdx sl v with
  | none => simp [(findIdx_none_iff sl v).1 h]
  | some i =>
    have : ¬ findIdx sl v = none := by simp [h]
    rw [findIdx_none_iff] at this
    simpa using this

/-! ### lastFree -/

theorem lastFree_none_iff (sl : Slots) : lastFree sl = none ↔ (usedVals sl).length = sl.length := by
  induction sl with
  | nil => simp [lastFree]
  | cons h r ih =>
    rcases h with ⟨u, x⟩
    have hle := usedVals_length_le r
    cases hr : lastFree r with
    | some i =>
      have : ¬ (usedVals r).length = r.length := by rw [← ih]; simp [hr]
      cases u <;> simp [lastFree, hr, usedVals] <;> omega
    | none =>
      have : (usedVals r).length = r.length := ih.1 hr
      cases u <;> simp [lastFree, hr, usedVals] <;> omega

theorem lastFree_some (sl : Slots) (i : Nat) (h : lastFree sl = some i) :
    i < sl.length ∧ ∃ x, sl[i]? = some (false, x) := by
  induction sl generalizing i with
  | nil => simp [lastFree] at h
  | cons hd r ih =>
    rcases hd with ⟨u, x⟩
    cases hr : lastFree r with
    | some j =>
      simp [lastFree, hr] at h; subst h
      have := ih j hr
      simpa using this
    | none =>
      cases u
      · simp [lastFree, hr] at h; subst h; simp
      · simp [lastFree, hr] at h

/-! ### effect of writing a slot on the used values -/

theorem usedVals_set_fresh (sl : Slots) (i v x : Nat) (h : sl[i]? = some (false, x)) :
    (usedVals (sl.set i (true, v))).Perm (v :: usedVals sl) := by
  induction sl generalizing i with
  | nil => simp at h
  | cons hd r ih =>
    rcases hd with ⟨u, y⟩
    cases i with
    | zero =>
      simp at h; obtain ⟨hu, _⟩ := h; subst hu
      simp [usedVals]
    | succ j =>
      have hj : r[j]? = some (false, x) := by simpa using h
      have := ih j hj
      cases u
      · simpa [usedVals] using this
      · simp only [List.set_cons_succ, usedVals, if_true]
        exact (List.Perm.cons y this).trans (List.Perm.swap v y _)

theorem usedVals_set_clear (sl : Slots) (i v : Nat) (h : sl[i]? = some (true, v)) :
    (v :: usedVals (sl.set i (false, v))).Perm (usedVals sl) := by
  induction sl generalizing i with
  | nil => simp at h
  | cons hd r ih =>
    rcases hd with ⟨u, y⟩
    cases i with
    | zero =>
      simp at h; obtain ⟨hu, hy⟩ := h; subst hu; subst hy
      simp [usedVals]
    | succ j =>
      have hj : r[j]? = some (true, v) := by simpa using h
      have := ih j hj
      cases u
      · simpa [usedVals] using this
      · simp only [List.set_cons_succ, usedVals, if_true]
        exact (List.Perm.swap y v _).trans (List.Perm.cons y this)

theorem set_length (sl : Slots) (i : Nat) (p : Bool × Nat) : (sl.set i p).length = sl.length := by simp

/-! ### `opOn`: the three operations against a bounded set -/

/-- FILTER_GET / the search of any operation: found iff the value is held by a slot in use; the slots do not change -/
theorem opOn_get (sl : Slots) (v : Nat) :
    opOn sl v Op.get = (sl, if v ∈ usedVals sl then 1 else 0) := by
  unfold opOn
  cases h : findIdx sl v with
  | none => have := (findIdx_none_iff sl v).1 h; simp [this]
  | some i =>
    have : v ∈ usedVals sl := (findIdx_isSome_iff sl v).1 (by simp [h])
    simp [this]

/-- FILTER_SET: present → 1, unchanged; absent and a free slot → 1 and the value is added; absent and full → 0, unchanged -/
theorem opOn_set (sl : Slots) (v : Nat) :
    (v ∈ usedVals sl → opOn sl v Op.set = (sl, 1)) ∧
    (v ∉ usedVals sl → (usedVals sl).length < sl.length →
        (opOn sl v Op.set).2 = 1 ∧ (opOn sl v Op.set).1.length = sl.length ∧
        (usedVals (opOn sl v Op.set).1).Perm (v :: usedVals sl)) ∧
    (v ∉ usedVals sl → (usedVals sl).length = sl.length → opOn sl v Op.set = (sl, 0)) := by
  refine ⟨?_, ?_, ?_⟩
  · intro hm
    unfold opOn
    cases h : findIdx sl v with
    | none => exact absurd hm ((findIdx_none_iff sl v).1 h)
    | some i => simp
  · intro hm hlt
    have hf : findIdx sl v = none := (findIdx_none_iff sl v).2 hm
    unfold opOn
    cases hl : lastFree sl with
    | none => have := (lastFree_none_iff sl).1 hl; omega
    | some i =>
      obtain ⟨_, x, hx⟩ := lastFree_some sl i hl
      simp only [hf]
      exact ⟨trivial, by simp, usedVals_set_fresh sl i v x hx⟩
  · intro hm hfull
    have hf : findIdx sl v = none := (findIdx_none_iff sl v).2 hm
    have hl : lastFree sl = none := (lastFree_none_iff sl).2 hfull
    unfold opOn
    simp [hf, hl]

/-- FILTER_CLEAR: absent → 0, unchanged; present → 1 and exactly that value leaves -/
theorem opOn_clr (sl : Slots) (v : Nat) :
    (v ∉ usedVals sl → opOn sl v Op.clr = (sl, 0)) ∧
    (v ∈ usedVals sl → (opOn sl v Op.clr).2 = 1 ∧ (opOn sl v Op.clr).1.length = sl.length ∧
        (v :: usedVals (opOn sl v Op.clr).1).Perm (usedVals sl)) := by
  refine ⟨?_, ?_⟩
  · intro hm
    have hf : findIdx sl v = none := (findIdx_none_iff sl v).2 hm
    unfold opOn; simp [hf]
  · intro hm
    unfold opOn
    cases h : findIdx sl v with
    | none => exact absurd hm ((findIdx_none_iff sl v).1 h)
    | some i =>
      obtain ⟨_, hi⟩ := findIdx_some sl v i h
      simp only []
      exact ⟨trivial, by simp, usedVals_set_clear sl i v hi⟩

theorem optParse_nil (len : Nat) : optParse [] len = R.rej ∨ optParse [] len = R.oob := by
  unfold optParse
  by_cases h : len < 1
  · simp [h]
  · simp [h, rd]

theorem optParse_marker (r : Bytes) (len : Nat) : optParse ((0xFF : UInt8) :: r) len = R.rej := by
  unfold optParse
  by_cases h : len < 1
  · simp [h]
  · simp [h, rd, deltaExt]


/-! ### one class of slots refines a bounded duplicate-free list -/

theorem opOn_refines (sl : Slots) (l : List Nat) (hp : l.Perm (usedVals sl)) (hn : l.Nodup) (v : Nat) :
    opOn sl v Op.get = (sl, if v ∈ l then 1 else 0) ∧
    ((opOn sl v Op.set).1.length = sl.length ∧
      (v ∈ l → opOn sl v Op.set = (sl, 1)) ∧
      (v ∉ l → l.length < sl.length → (opOn sl v Op.set).2 = 1 ∧ (v :: l).Perm (usedVals (opOn sl v Op.set).1)) ∧
      (v ∉ l → ¬ l.length < sl.length → opOn sl v Op.set = (sl, 0))) ∧
    ((opOn sl v Op.clr).1.length = sl.length ∧
      (opOn sl v Op.clr).2 = (if v ∈ l then 1 else 0) ∧
      (l.erase v).Perm (usedVals (opOn sl v Op.clr).1)) := by
  have hmem : v ∈ l ↔ v ∈ usedVals sl := hp.mem_iff
  have hlen : l.length = (usedVals sl).length := hp.length_eq
  have hle := usedVals_length_le sl
  obtain ⟨hs1, hs2, hs3⟩ := opOn_set sl v
  obtain ⟨hc1, hc2⟩ := opOn_clr sl v
  refine ⟨?_, ⟨?_, ?_, ?_, ?_⟩, ?_⟩
  · rw [opOn_get]; by_cases h : v ∈ l <;> simp [h, hmem.symm]
  · by_cases h : v ∈ usedVals sl
    · rw [hs1 h]
    · by_cases hl : (usedVals sl).length < sl.length
      · exact (hs2 h hl).2.1
      · rw [hs3 h (by omega)]
  · intro h; exact hs1 (hmem.1 h)
  · intro h hl
    have h' : v ∉ usedVals sl := fun x => h (hmem.2 x)
    obtain ⟨a, _, c⟩ := hs2 h' (by omega)
    exact ⟨a, (List.Perm.cons v hp).trans c.symm⟩
  · intro h hl
    have h' : v ∉ usedVals sl := fun x => h (hmem.2 x)
    exact hs3 h' (by omega)
  · by_cases h : v ∈ l
    · obtain ⟨a, b, c⟩ := hc2 (hmem.1 h)
      refine ⟨b, by simp [h, a], ?_⟩
      -- l ~ usedVals sl ~ v :: new  ⇒  l.erase v ~ new
      have h1 : l.Perm (v :: usedVals (opOn sl v Op.clr).1) := hp.trans c.symm
      have h2 := List.Perm.erase v h1
      simpa using h2
    · have h' : v ∉ usedVals sl := fun x => h (hmem.2 x)
      rw [hc1 h']
      refine ⟨rfl, by simp [h], ?_⟩
      rw [List.erase_of_not_mem h]; exact hp

/-! ### the filtered iterator is the unfiltered one followed by the filter -/

def mapR {α β} (f : α → β) : R α → R β
  | R.ok a => R.ok (f a)
  | R.rej => R.rej
  | R.oob => R.oob

theorem iterF_eq_filter (flt : Nat → Bool) : ∀ (fuel : Nat) (bs : Bytes) (n : Nat) (fresh : Bool),
    iterF flt fuel bs n fresh = mapR (List.filter (fun o => flt o.1)) (iter fuel bs n) := by
  intro fuel
  induction fuel with
  | zero => intro bs n fresh; simp [iterF, iter, mapR]
  | succ fuel ih =>
    intro bs n fresh
    rcases bs with _ | ⟨b, r⟩
    · cases fresh
      · simp [iterF, iter, mapR, finished, optParse]
      · simp [iterF, iter, mapR, finished]
    · by_cases hff : b = 0xFF
      · subst hff
        cases fresh
        · simp [iterF, iter, mapR, finished, optParse_marker]
        · simp [iterF, iter, mapR, finished]
      · have hfin : finished (b :: r) = false := by simp [finished, hff]
        simp only [iterF, iter, hfin, Bool.and_false, hff, if_false, Bool.false_eq_true, List.length_cons]
        cases hO : optParse (b :: r) (r.length + 1) with
        | oob => simp [mapR]
        | rej => simp [mapR]
        | ok p =>
          simp only []
          by_cases hf : flt ((n + p.delta) % 65536) = true
          · simp only [hf, if_true]
            rw [ih]
            cases hi : iter fuel (List.drop p.size (b :: r)) ((n + p.delta) % 65536) with
            | oob => simp [mapR]
            | rej => simp [mapR]
            | ok os => simp [mapR, List.filter, hf]
          · simp only [hf, if_false, Bool.false_eq_true]
            rw [ih]
            cases hi : iter fuel (List.drop p.size (b :: r)) ((n + p.delta) % 65536) with
            | oob => simp [mapR]
            | rej => simp [mapR]
            | ok os => simp [mapR, List.filter, hf]

theorem firstF_eq_find (flt : Nat → Bool) : ∀ (fuel : Nat) (bs : Bytes) (n : Nat) (fresh : Bool) (os : List (Nat × Bytes)),
    iter fuel bs n = R.ok os → firstF flt fuel bs n fresh = R.ok (os.find? (fun o => flt o.1)) := by
  intro fuel
  induction fuel with
  | zero => intro bs n fresh os h; simp [iter] at h; subst h; simp [firstF]
  | succ fuel ih =>
    intro bs n fresh os h
    rcases bs with _ | ⟨b, r⟩
    · simp [iter] at h; subst h
      cases fresh
      · simp [firstF, finished, optParse]
      · simp [firstF, finished]
    · by_cases hff : b = 0xFF
      · subst hff
        simp [iter] at h; subst h
        cases fresh
        · simp [firstF, finished, optParse_marker]
        · simp [firstF, finished]
      · have hfin : finished (b :: r) = false := by simp [finished, hff]
        simp only [iter, hff, if_false, List.length_cons] at h
        simp only [firstF, hfin, Bool.and_false, Bool.false_eq_true, if_false, List.length_cons]
        cases hO : optParse (b :: r) (r.length + 1) with
        | oob => simp [hO] at h
        | rej => simp [hO] at h; subst h; simp
        | ok p =>
          simp only [hO] at h
          simp only []
          cases hi : iter fuel (List.drop p.size (b :: r)) ((n + p.delta) % 65536) with
          | oob => simp [hi] at h
          | rej => simp [hi] at h
          | ok os' =>
            simp only [hi, R.ok.injEq] at h
            subst h
            by_cases hf : flt ((n + p.delta) % 65536) = true
            · simp [hf, List.find?]
            · simp only [hf, if_false, Bool.false_eq_true]
              rw [ih _ _ false os' hi]
              simp [List.find?, hf]

end Coap.M.OptFilter
