import CoapVerif.Model.Observe
/- Helper lemmas for C11: how every primitive of the Observe model acts on the resource table. -/
namespace Coap.Observe
open Coap.Generated

/-! ### primitives that never touch the resource table -/
@[simp] theorem setSess_res (st : State) (c : Nat) (s : Sess) : (setSess st c s).res = st.res := rfl
@[simp] theorem modSess_res (st : State) (c : Nat) (f : Sess → Sess) : (modSess st c f).res = st.res := rfl
@[simp] theorem rxSession_res (st : State) (c : Nat) : (rxSession st c).res = st.res := rfl
@[simp] theorem refInc_res (st : State) (c : Nat) : (refInc st c).res = st.res := rfl
@[simp] theorem refDec_res (st : State) (c : Nat) : (refDec st c).res = st.res := rfl
@[simp] theorem conDec_res (st : State) (c : Nat) : (conDec st c).res = st.res := rfl
@[simp] theorem txStamp_res (st : State) (c : Nat) : (txStamp st c).res = st.res := rfl
@[simp] theorem newMid_res (st : State) (c : Nat) : (newMid st c).2.res = st.res := rfl
@[simp] theorem addNote_res (st : State) (c : Nat) (n : Note) : (addNote st c n).res = st.res := rfl
@[simp] theorem cancelAllMessages_res (st : State) (c tok : Nat) : (cancelAllMessages st c tok).res = st.res := rfl
@[simp] theorem reclaim_res (st : State) : (reclaim st).res = st.res := rfl
@[simp] theorem sendNote_res (st : State) (c tok code : Nat) (obs : Option Nat) (isCon : Bool) (mid rid ver : Nat) :
    (sendNote st c tok code obs isCon mid rid ver).1.res = st.res := by
  unfold sendNote; split <;> rfl

/-- what identifies an entry and what the ordering argument needs; `failCnt`, `nonCnt`, `mid` are erased -/
def core (s : Sub) : Sub := { s with failCnt := 0, nonCnt := 0, mid := 0 }

def SubsLe (a b : List Sub) : Prop := (a.map core).Sublist (b.map core)

theorem SubsLe.refl (a : List Sub) : SubsLe a a := List.Sublist.refl _
theorem SubsLe.trans {a b c : List Sub} (h1 : SubsLe a b) (h2 : SubsLe b c) : SubsLe a c := List.Sublist.trans h1 h2
theorem SubsLe.of_sublist {a b : List Sub} (h : a.Sublist b) : SubsLe a b := h.map core

/-- the resource is the same apart from (a sub-list of) its entries, whose counters may have moved, and the handler verdict -/
structure ResLe (r' r : Res) : Prop where
  id : r'.id = r.id
  alive : r'.alive = r.alive
  fCon : r'.fCon = r.fCon
  fNonAlways : r'.fNonAlways = r.fNonAlways
  dirty : r'.dirty = r.dirty
  pdirty : r'.pdirty = r.pdirty
  ver : r'.ver = r.ver
  observe : r'.observe = r.observe
  subs : SubsLe r'.subs r.subs

theorem ResLe.refl (r : Res) : ResLe r r := ⟨rfl, rfl, rfl, rfl, rfl, rfl, rfl, rfl, SubsLe.refl _⟩
theorem ResLe.trans {a b c : Res} (h1 : ResLe a b) (h2 : ResLe b c) : ResLe a c :=
  ⟨h1.id.trans h2.id, h1.alive.trans h2.alive, h1.fCon.trans h2.fCon, h1.fNonAlways.trans h2.fNonAlways,
   h1.dirty.trans h2.dirty, h1.pdirty.trans h2.pdirty, h1.ver.trans h2.ver, h1.observe.trans h2.observe, h1.subs.trans h2.subs⟩

inductive All2 (R : Res → Res → Prop) : List Res → List Res → Prop where
  | nil : All2 R [] []
  | cons {x y : Res} {xs ys : List Res} : R x y → All2 R xs ys → All2 R (x :: xs) (y :: ys)

theorem All2.refl {R : Res → Res → Prop} (hR : ∀ x, R x x) : ∀ (a : List Res), All2 R a a
  | [] => All2.nil
  | x :: xs => All2.cons (hR x) (All2.refl hR xs)

theorem All2.trans {R : Res → Res → Prop} (hR : ∀ x y z, R x y → R y z → R x z) {a b c : List Res}
    (h1 : All2 R a b) (h2 : All2 R b c) : All2 R a c := by
  induction h1 generalizing c with
  | nil => cases h2; exact All2.nil
  | cons h t ih => cases h2 with
    | cons h' t' => exact All2.cons (hR _ _ _ h h') (ih t')

theorem All2.mono {R S : Res → Res → Prop} (hRS : ∀ {x y}, R x y → S x y) {a b : List Res} (h : All2 R a b) : All2 S a b := by
  induction h with
  | nil => exact All2.nil
  | cons h _ ih => exact All2.cons (hRS h) ih

theorem All2.forall {R : Res → Res → Prop} {P : Res → Prop} (hRP : ∀ {x y}, R x y → P y → P x) {a b : List Res}
    (h : All2 R a b) (hb : ∀ y ∈ b, P y) : ∀ x ∈ a, P x := by
  induction h with
  | nil => intro x hx; cases hx
  | cons h _ ih =>
    intro x hx
    cases hx with
    | head => exact hRP h (hb _ (List.mem_cons_self ..))
    | tail _ hx' => exact ih (fun y hy => hb y (List.mem_cons_of_mem _ hy)) x hx'

abbrev AllLe := All2 ResLe

theorem AllLe.refl (a : List Res) : AllLe a a := All2.refl ResLe.refl a
theorem AllLe.trans {a b c : List Res} (h1 : AllLe a b) (h2 : AllLe b c) : AllLe a c := All2.trans (R := ResLe) (fun _ _ _ h h' => ResLe.trans h h') h1 h2

theorem AllLe.map {f : Res → Res} (hf : ∀ x, ResLe (f x) x) : ∀ (a : List Res), AllLe (a.map f) a
  | [] => All2.nil
  | x :: xs => All2.cons (hf x) (AllLe.map hf xs)

theorem mapRes_le (st : State) {f : Res → Res} (hf : ∀ x, ResLe (f x) x) : AllLe (mapRes st f).res st.res :=
  AllLe.map hf st.res

theorem modRes_le (st : State) (r : Nat) {f : Res → Res} (hf : ∀ x, ResLe (f x) x) : AllLe (modRes st r f).res st.res := by
  apply mapRes_le; intro x; split
  · exact hf x
  · exact ResLe.refl x

theorem resLe_subs (x : Res) {l : List Sub} (h : SubsLe l x.subs) : ResLe { x with subs := l } x :=
  ⟨rfl, rfl, rfl, rfl, rfl, rfl, rfl, rfl, h⟩

theorem modFirst_core (p : Sub → Bool) (f : Sub → Sub) (hf : ∀ s, core (f s) = core s) :
    ∀ l : List Sub, (modFirst p f l).map core = l.map core
  | [] => rfl
  | s :: r => by
    unfold modFirst; split
    · simp [hf]
    · simp [modFirst_core p f hf r]

theorem deleteObserver_le (st : State) (r c tok : Nat) : AllLe (deleteObserver st r c tok).res st.res := by
  unfold deleteObserver
  split
  · exact AllLe.refl _
  · split
    · simp only [refDec_res]
      exact modRes_le st r fun x => resLe_subs x (SubsLe.of_sublist (List.eraseP_sublist))
    · exact AllLe.refl _

theorem touchObserver_le (st : State) (c tok : Nat) : AllLe (touchObserver st c tok).res st.res := by
  apply mapRes_le; intro x; split
  · apply resLe_subs; unfold SubsLe
    rw [modFirst_core (matchST c tok) (fun s => { s with failCnt := 0 }) (fun s => rfl) x.subs]; exact List.Sublist.refl _
  · exact ResLe.refl x

theorem deleteObserverRequest_le (st : State) (r c tok key : Nat) : AllLe (deleteObserverRequest st r c tok key).res st.res := by
  unfold deleteObserverRequest
  split
  · exact AllLe.refl _
  · split
    · exact deleteObserver_le ..
    · split
      · exact deleteObserver_le ..
      · exact AllLe.refl _

theorem foldl_le {α : Type} (f : State → α → State) (hf : ∀ s x, AllLe (f s x).res s.res) :
    ∀ (l : List α) (st : State), AllLe (l.foldl f st).res st.res
  | [], st => AllLe.refl _
  | x :: xs, st => by
    simp only [List.foldl_cons]
    exact (foldl_le f hf xs (f st x)).trans (hf st x)

theorem removeFailedOne_le (st : State) (x : Res) (c tok : Nat) : AllLe (removeFailedOne st x c tok).res st.res := by
  unfold removeFailedOne
  split
  · exact AllLe.refl _
  · split
    · exact (deleteObserver_le ..).trans (by simp only [cancelAllMessages_res]; exact AllLe.refl _)
    · apply modRes_le; intro y; apply resLe_subs; unfold SubsLe
      rw [modFirst_core (matchST c tok) (fun s => { s with failCnt := (s.failCnt + 1) % 256 }) (fun s => rfl) y.subs]
      exact List.Sublist.refl _

theorem handleFailedNotify_le (st : State) (c tok : Nat) : AllLe (handleFailedNotify st c tok).res st.res := by
  unfold handleFailedNotify
  apply foldl_le; intro s rid; split
  · exact removeFailedOne_le ..
  · exact AllLe.refl _

theorem cancelSent_le (st : State) (c tok : Nat) : AllLe (cancelSent st c tok).res st.res := by
  unfold cancelSent
  apply foldl_le; intro s rid; split
  · exact (deleteObserver_le ..).trans (by simp only [cancelAllMessages_res]; exact AllLe.refl _)
  · exact AllLe.refl _

theorem handleAck_le (st : State) (c mid : Nat) : AllLe (handleAck st c mid).res st.res := by
  unfold handleAck
  dsimp only
  split
  · simp only [rxSession_res]; exact AllLe.refl _
  · simp only [refDec_res]; split
    · exact (touchObserver_le ..).trans (by simp only [conDec_res, rxSession_res]; exact AllLe.refl _)
    · simp only [conDec_res, rxSession_res]; exact AllLe.refl _

theorem handleRst_le (st : State) (c mid : Nat) : AllLe (handleRst st c mid).res st.res := by
  unfold handleRst
  dsimp only
  split
  · simp only [refDec_res]
    exact (cancelSent_le ..).trans (by simp only [conDec_res, rxSession_res]; exact AllLe.refl _)
  · split
    · exact (deleteObserver_le ..).trans (by simp only [conDec_res, rxSession_res]; exact AllLe.refl _)
    · simp only [conDec_res, rxSession_res]; exact AllLe.refl _

theorem sessionLost_le (st : State) (c : Nat) : AllLe (sessionLost st c).res st.res := by
  unfold sessionLost
  split
  · exact AllLe.refl _
  · simp only [modSess_res]
    exact mapRes_le st fun x => resLe_subs x (SubsLe.of_sublist List.filter_sublist)

theorem retransmit_le (st : State) (q : QNode) : AllLe (retransmit st q).1.res st.res := by
  unfold retransmit
  split
  · simp only [txStamp_res, modSess_res, conDec_res]; exact AllLe.refl _
  · simp only [refDec_res, conDec_res]; exact handleFailedNotify_le ..

theorem retransmitDue_le : ∀ (fuel : Nat) (st : State), AllLe (retransmitDue fuel st).1.res st.res
  | 0, st => AllLe.refl _
  | fuel + 1, st => by
    unfold retransmitDue
    split
    · exact AllLe.refl _
    · split
      · exact (retransmitDue_le fuel _).trans (retransmit_le { st with sendq := _ } _)
      · exact AllLe.refl _

/-! ### the notify loop never touches the resource table of the state it threads -/
theorem notifyOne_res (d : Bool) (r : Res) (o : Sub) (st : State) : (notifyOne d r o st).st.res = st.res := by
  unfold notifyOne
  split
  · rfl
  · split
    · rfl
    · dsimp only
      split
      · simp
      · split <;> simp

theorem notifyLoop_res (d : Bool) (r : Res) : ∀ (subs : List Sub) (st : State), (notifyLoop d r subs st).st.res = st.res
  | [], st => rfl
  | o :: rest, st => by
    unfold notifyLoop
    dsimp only
    rw [notifyLoop_res d r rest, notifyOne_res]

/-! ### identity of entries -/
def ident (s : Sub) : Nat × Nat × Nat := (s.sess, s.token, s.key)

def IdLe (a b : List Sub) : Prop := (a.map ident).Sublist (b.map ident)
theorem IdLe.refl (a : List Sub) : IdLe a a := List.Sublist.refl _
theorem IdLe.trans {a b c : List Sub} (h1 : IdLe a b) (h2 : IdLe b c) : IdLe a c := List.Sublist.trans h1 h2

theorem ident_core (s : Sub) : ident (core s) = ident s := rfl

theorem SubsLe.idLe {a b : List Sub} (h : SubsLe a b) : IdLe a b := by
  unfold SubsLe at h; unfold IdLe
  have := h.map ident
  simpa [List.map_map, Function.comp_def, ident_core] using this

structure ResIdLe (r' r : Res) : Prop where
  id : r'.id = r.id
  subs : IdLe r'.subs r.subs

theorem ResIdLe.refl (r : Res) : ResIdLe r r := ⟨rfl, IdLe.refl _⟩
theorem ResIdLe.trans {a b c : Res} (h1 : ResIdLe a b) (h2 : ResIdLe b c) : ResIdLe a c := ⟨h1.id.trans h2.id, h1.subs.trans h2.subs⟩
theorem ResLe.idLe {a b : Res} (h : ResLe a b) : ResIdLe a b := ⟨h.id, h.subs.idLe⟩

abbrev AllIdLe := All2 ResIdLe
theorem AllIdLe.refl (a : List Res) : AllIdLe a a := All2.refl ResIdLe.refl a
theorem AllIdLe.trans {a b c : List Res} (h1 : AllIdLe a b) (h2 : AllIdLe b c) : AllIdLe a c := All2.trans (R := ResIdLe) (fun _ _ _ h h' => ResIdLe.trans h h') h1 h2
theorem AllLe.idLe {a b : List Res} (h : AllLe a b) : AllIdLe a b := All2.mono (fun h => ResLe.idLe h) h

theorem notifyOne_ident (d : Bool) (r : Res) (o : Sub) (st : State) :
    ((notifyOne d r o st).sub.toList.map ident).Sublist [ident o] := by
  unfold notifyOne
  split
  · simp
  · split
    · simp [ident]
    · dsimp only
      split
      · simp [ident]
      · split
        · simp
        · simp [ident]

theorem notifyLoop_idLe (d : Bool) (r : Res) : ∀ (subs : List Sub) (st : State), IdLe (notifyLoop d r subs st).subs subs
  | [], st => List.Sublist.refl _
  | o :: rest, st => by
    unfold notifyLoop IdLe
    dsimp only
    rw [List.map_append, List.map_cons]
    exact List.Sublist.append (notifyOne_ident d r o st) (notifyLoop_idLe d r rest _)

theorem notifyRes_idLe (d : Bool) (r : Res) (st : State) : ResIdLe (notifyRes d r st).1 r := by
  unfold notifyRes
  split
  · exact ⟨rfl, notifyLoop_idLe ..⟩
  · exact ⟨rfl, IdLe.refl _⟩

theorem notifyRes_res (d : Bool) (r : Res) (st : State) : (notifyRes d r st).2.1.res = st.res := by
  unfold notifyRes
  split
  · exact notifyLoop_res ..
  · rfl

theorem notifyAll_idLe : ∀ (rs : List Res) (st : State), AllIdLe (notifyAll rs st).1 rs
  | [], st => All2.nil
  | r :: rest, st => by
    unfold notifyAll
    exact All2.cons (notifyRes_idLe false r st) (notifyAll_idLe rest _)

theorem checkNotify_idLe (st : State) : AllIdLe (checkNotify st).1.res st.res := by
  unfold checkNotify
  split
  · exact notifyAll_idLe ..
  · exact AllIdLe.refl _

theorem io_idLe (st : State) : AllIdLe (io st).1.res st.res := by
  unfold io
  simp only [reclaim_res]
  exact (retransmitDue_le _ _).idLe.trans (checkNotify_idLe st)

/-! ### no duplicate entries -/
/-- two entries of one session differ in token AND in cache key -/
def Distinct (a b : Nat × Nat × Nat) : Prop := a.1 = b.1 → a.2.1 ≠ b.2.1 ∧ a.2.2 ≠ b.2.2

def NoDup (r : Res) : Prop := (r.subs.map ident).Pairwise Distinct

theorem NoDup.of_idLe {r' r : Res} (h : ResIdLe r' r) (hr : NoDup r) : NoDup r' := List.Pairwise.sublist h.subs hr

theorem noDup_of_allIdLe {a b : List Res} (h : AllIdLe a b) (hb : ∀ y ∈ b, NoDup y) : ∀ x ∈ a, NoDup x :=
  All2.forall (fun h' hy => NoDup.of_idLe h' hy) h hb

theorem erase_key_unique (c key : Nat) : ∀ (l : List Sub) (old : Sub), (l.map ident).Pairwise Distinct →
    l.find? (matchSK c key) = some old → ∀ s ∈ l.eraseP (matchST c old.token), matchSK c key s = false
  | [], _, _, h => by simp at h
  | a :: t, old, hp, hf => by
    rw [List.map_cons, List.pairwise_cons] at hp
    obtain ⟨ha, ht⟩ := hp
    by_cases hm : matchSK c key a = true
    · -- the head is the entry found
      rw [List.find?_cons_of_pos hm] at hf
      cases hf
      have hmt : matchST c a.token a = true := by
        unfold matchSK at hm; unfold matchST; simp at hm ⊢; exact hm.1
      rw [List.eraseP_cons_of_pos hmt]
      intro s hs
      have hd := ha (ident s) (List.mem_map_of_mem hs)
      unfold matchSK at hm ⊢
      simp at hm ⊢
      intro hsc hk
      have := hd (by simp [ident, hm.1, hsc])
      simp [ident] at this
      exact this.2 (by rw [hm.2, hk])
    · have hm' : matchSK c key a = false := by simpa using hm
      rw [List.find?_cons_of_neg (by simpa using hm)] at hf
      have hold_mem : old ∈ t := List.mem_of_find?_eq_some hf
      have hold_m : matchSK c key old = true := List.find?_some hf
      have hna : matchST c old.token a = false := by
        by_cases hx : matchST c old.token a = true
        · exfalso
          have hd := ha (ident old) (List.mem_map_of_mem hold_mem)
          unfold matchST at hx; unfold matchSK at hold_m
          simp at hx hold_m
          have := hd (by simp [ident, hx.1, hold_m.1])
          simp [ident] at this
          exact this.1 hx.2
        · simpa using hx
      rw [List.eraseP_cons_of_neg (by simp [hna])]
      intro s hs
      cases hs with
      | head => exact hm'
      | tail _ hs' => exact erase_key_unique c key t old ht hf s hs'

theorem addToRes_noDup (y : Res) (c tok key m : Nat) (hy : NoDup y) : NoDup (addToRes y c tok key m) := by
  unfold addToRes
  split
  · exact hy
  · rename_i hany
    have hany' : ∀ s ∈ y.subs, matchST c tok s = false := by
      intro s hs
      by_cases hx : matchST c tok s = true
      · exact absurd (List.any_eq_true.mpr ⟨s, hs, hx⟩) hany
      · simpa using hx
    unfold NoDup
    dsimp only
    rw [List.map_cons, List.pairwise_cons]
    -- the remaining list
    have key_free : ∀ s ∈ (match y.subs.find? (matchSK c key) with
                           | some old => y.subs.eraseP (matchST c old.token)
                           | none => y.subs), matchSK c key s = false ∧ matchST c tok s = false ∧ s ∈ y.subs := by
      intro s hs
      split at hs
      · rename_i old hf
        exact ⟨erase_key_unique c key y.subs old hy hf s hs, hany' s (List.mem_of_mem_eraseP hs), List.mem_of_mem_eraseP hs⟩
      · rename_i hf
        refine ⟨?_, hany' s hs, hs⟩
        have := List.find?_eq_none.mp hf s hs
        simpa using this
    constructor
    · intro b hb
      obtain ⟨s, hs, rfl⟩ := List.mem_map.mp hb
      obtain ⟨hk, ht, _⟩ := key_free s hs
      intro hsess
      unfold matchSK at hk; unfold matchST at ht
      simp [ident] at hsess hk ht ⊢
      exact ⟨fun h => ht hsess.symm h.symm, fun h => hk hsess.symm h.symm⟩
    · have hsub : List.Sublist (match y.subs.find? (matchSK c key) with
                           | some old => y.subs.eraseP (matchST c old.token)
                           | none => y.subs) y.subs := by
        split
        · exact List.eraseP_sublist
        · exact List.Sublist.refl _
      exact List.Pairwise.sublist (hsub.map ident) hy

def NoDupSt (st : State) : Prop := ∀ y ∈ st.res, NoDup y

theorem noDupSt_of_le {st' st : State} (h : AllIdLe st'.res st.res) (hs : NoDupSt st) : NoDupSt st' := noDup_of_allIdLe h hs

theorem addObserver_noDup (st : State) (r c tok key : Nat) (hs : NoDupSt st) : NoDupSt (addObserver st r c tok key) := by
  unfold addObserver
  split
  · exact hs
  · split
    · exact hs
    · dsimp only
      intro y hy
      simp only [refInc_res, mapRes] at hy
      have hres : ∀ (st1 : State), st1.res = st.res → ∀ y ∈ (newMid st1 c).2.res.map
          (fun y => if y.id = r ∧ y.alive = true then addToRes y c tok key (newMid st1 c).1 else y), NoDup y := by
        intro st1 h1 y hy
        rw [newMid_res, h1] at hy
        obtain ⟨z, hz, rfl⟩ := List.mem_map.mp hy
        split
        · exact addToRes_noDup z c tok key _ (hs z hz)
        · exact hs z hz
      split at hy
      · exact hres _ (refDec_res st c) y hy
      · exact hres _ rfl y hy

theorem map_idLe (l : List Res) (f : Res → Res) (hf : ∀ x, ResIdLe (f x) x) : AllIdLe (l.map f) l := by
  induction l with
  | nil => exact All2.nil
  | cons x xs ih => exact All2.cons (hf x) ih

theorem change_idLe (st : State) (r : Nat) : AllIdLe (change st r).res st.res := by
  unfold change
  split
  · exact AllIdLe.refl _
  · split
    · exact AllIdLe.refl _
    · show AllIdLe (modRes st r _).res st.res
      unfold modRes mapRes
      dsimp only
      apply map_idLe; intro x; split
      · exact ⟨rfl, IdLe.refl _⟩
      · exact ResIdLe.refl x

theorem releaseAll_res : ∀ (l : List Sub) (st : State), (releaseAll st l).res = st.res
  | [], st => rfl
  | s :: rest, st => by unfold releaseAll; rw [releaseAll_res rest]; rfl

theorem deleteResource_idLe (st : State) (r : Nat) : AllIdLe (deleteResource st r).1.res st.res := by
  unfold deleteResource
  split
  · exact AllIdLe.refl _
  · dsimp only
    split
    · exact change_idLe st r
    · refine AllIdLe.trans ?_ (change_idLe st r)
      show AllIdLe (modRes _ r _).res _
      unfold modRes mapRes
      dsimp only
      rw [releaseAll_res, notifyRes_res]
      apply map_idLe
      intro x; split
      · exact ⟨rfl, by unfold IdLe; simp⟩
      · exact ResIdLe.refl x

theorem request_noDup (st : State) (o : Option Nat) (c r tok key : Nat) (con : Bool) (mid : Nat) (hs : NoDupSt st) :
    NoDupSt (request st o c r tok key con mid).1 := by
  unfold request
  dsimp only
  have h0 : NoDupSt (rxSession st c) := hs
  split
  · exact h0
  · have h1 : NoDupSt (match o with
               | some 0 => touchObserver (addObserver (rxSession st c) r c tok key) c tok
               | some 1 => deleteObserverRequest (rxSession st c) r c tok key
               | _ => rxSession st c) := by
      split
      · exact noDupSt_of_le (touchObserver_le ..).idLe (addObserver_noDup _ r c tok key h0)
      · exact noDupSt_of_le (deleteObserverRequest_le ..).idLe h0
      · exact h0
    split
    · split
      · exact noDupSt_of_le (by simp only [txStamp_res]; exact (deleteObserver_le ..).idLe) h1
      · exact h1
    · exact h1

theorem rxThenIo_noDup (p : State × List Out) (hs : NoDupSt p.1) : NoDupSt (rxThenIo p).1 := by
  unfold rxThenIo
  exact noDupSt_of_le (io_idLe p.1) hs

theorem step_noDup (st : State) (e : Event) (hs : NoDupSt st) : NoDupSt (step st e).1 := by
  cases e with
  | reg c r tok key con mid => exact rxThenIo_noDup _ (request_noDup st _ c r tok key con mid hs)
  | can c r tok key con mid => exact rxThenIo_noDup _ (request_noDup st _ c r tok key con mid hs)
  | get c r tok key con mid => exact rxThenIo_noDup _ (request_noDup st _ c r tok key con mid hs)
  | chg r => exact noDupSt_of_le (change_idLe st r) hs
  | adv ms => exact noDupSt_of_le (io_idLe _) hs
  | ack c n =>
    unfold step; dsimp only
    split
    · split
      · exact rxThenIo_noDup _ (noDupSt_of_le (handleAck_le ..).idLe hs)
      · exact hs
    · exact hs
  | rst c n =>
    unfold step; dsimp only
    split
    · exact rxThenIo_noDup _ (noDupSt_of_le (handleRst_le ..).idLe hs)
    · exact hs
  | err r b =>
    refine noDupSt_of_le ?_ hs
    show AllIdLe (modRes st r _).res st.res
    unfold modRes mapRes
    apply map_idLe; intro x; split
    · exact ⟨rfl, IdLe.refl _⟩
    · exact ResIdLe.refl x
  | lost c => exact noDupSt_of_le (sessionLost_le ..).idLe hs
  | del r => exact noDupSt_of_le (deleteResource_idLe st r) hs

theorem run_noDup : ∀ (evs : List Event) (st : State), NoDupSt st → NoDupSt (run st evs).1
  | [], st, hs => hs
  | e :: es, st, hs => by
    unfold run
    exact run_noDup es _ (step_noDup st e hs)
