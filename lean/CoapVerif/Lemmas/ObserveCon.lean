import CoapVerif.Lemmas.ObserveRef
/-
C11, clause "the last state is always eventually notified", the part that concerns NSTART: the back-pressure test of the notify
loop reads `session->con_active`.  As a GLOBAL invariant of M (Model/Observe.lean), for every state reachable by ANY event
sequence,
    con_active(c) = #Confirmable notifications of c in the retransmission queue                               (ConInv)
(a missing session object counts as 0).  So the counter says "busy" exactly while a Confirmable is really outstanding: once
every Confirmable of a session has been acknowledged, reset or given up, the counter is 0 and nothing holds the session's next
notification back — whatever OTHER sessions did in between, in particular with EQUAL token values (coap_cancel_all_messages
looks at the session AND the token; `cancelAllMessages_other` is the frame statement).

Proof architecture as in ObserveRef.lean: `CBal st c K` : con_active(c) = nodes(c) + K (K = nodes held by the code that is
running: the node popped by coap_retransmit), `CPres st st'` : every balance of st is one of st'.  Primitives that touch neither
the queue nor the counter are `CQuiet`.  coap_session_disconnected (`con_active = 0`, all nodes dropped) and the idle reclaim
(needs RefInv: an unreferenced session has no node) are shown on ConInv itself.
-/
namespace Coap.Observe
open Coap.Generated

/-- `session->con_active`; 0 when the server holds no session object -/
def scon (st : State) (c : Nat) : Nat := match st.sess c with | some s => s.conActive | none => 0

def ConInv (st : State) : Prop := ∀ c, (getSess st c).conActive = nodesOf st c

theorem getSess_con (st : State) (c : Nat) : (getSess st c).conActive = scon st c := by
  unfold getSess scon; cases st.sess c <;> rfl

theorem scon_setSess (st : State) (c : Nat) (s : Sess) (c' : Nat) :
    scon (setSess st c s) c' = if c' = c then s.conActive else scon st c' := by
  unfold scon setSess; dsimp only
  by_cases h : c' = c <;> simp [h]

theorem scon_modSess (st : State) (c : Nat) (f : Sess → Sess) (c' : Nat) :
    scon (modSess st c f) c' = if c' = c then (f (getSess st c)).conActive else scon st c' := by
  unfold modSess; exact scon_setSess ..

theorem scon_modSess_same (st : State) (c : Nat) (f : Sess → Sess) (hf : ∀ s, (f s).conActive = s.conActive) (c' : Nat) :
    scon (modSess st c f) c' = scon st c' := by
  rw [scon_modSess]; split
  · rename_i h; rw [hf, getSess_con, h]
  · rfl

theorem scon_of_sess {st st' : State} (h : st'.sess = st.sess) (c : Nat) : scon st' c = scon st c := by
  unfold scon; rw [h]

/-! ### primitives that touch neither the queue nor the counter -/
def CQuiet (st st' : State) : Prop := st'.sendq = st.sendq ∧ ∀ c, scon st' c = scon st c

theorem CQuiet.refl (st : State) : CQuiet st st := ⟨rfl, fun _ => rfl⟩
theorem CQuiet.trans {a b c : State} (h1 : CQuiet a b) (h2 : CQuiet b c) : CQuiet a c :=
  ⟨h2.1.trans h1.1, fun x => (h2.2 x).trans (h1.2 x)⟩
theorem CQuiet.of_eq {st st' : State} (hq : st'.sendq = st.sendq) (hs : st'.sess = st.sess) : CQuiet st st' :=
  ⟨hq, scon_of_sess hs⟩

theorem cquiet_modSess_same (st : State) (c : Nat) (f : Sess → Sess) (hf : ∀ s, (f s).conActive = s.conActive) :
    CQuiet st (modSess st c f) := ⟨rfl, scon_modSess_same st c f hf⟩
theorem cquiet_rxSession (st : State) (c : Nat) : CQuiet st (rxSession st c) := cquiet_modSess_same _ _ _ (fun _ => rfl)
theorem cquiet_txStamp (st : State) (c : Nat) : CQuiet st (txStamp st c) := cquiet_modSess_same _ _ _ (fun _ => rfl)
theorem cquiet_refInc (st : State) (c : Nat) : CQuiet st (refInc st c) := cquiet_modSess_same _ _ _ (fun _ => rfl)
theorem cquiet_refDec (st : State) (c : Nat) : CQuiet st (refDec st c) := cquiet_modSess_same _ _ _ (fun _ => rfl)
theorem cquiet_newMid (st : State) (c : Nat) : CQuiet st (newMid st c).2 := by
  unfold newMid; exact cquiet_modSess_same _ _ _ (fun _ => rfl)
theorem cquiet_addNote (st : State) (c : Nat) (n : Note) : CQuiet st (addNote st c n) := CQuiet.of_eq rfl rfl
theorem cquiet_mapRes (st : State) (f : Res → Res) : CQuiet st (mapRes st f) := CQuiet.of_eq rfl rfl
theorem cquiet_modRes (st : State) (r : Nat) (f : Res → Res) : CQuiet st (modRes st r f) := CQuiet.of_eq rfl rfl

theorem cquiet_deleteObserver (st : State) (r c tok : Nat) : CQuiet st (deleteObserver st r c tok) := by
  unfold deleteObserver
  split
  · exact CQuiet.refl _
  · split
    · exact (cquiet_modRes st r _).trans (cquiet_refDec _ c)
    · exact CQuiet.refl _

theorem cquiet_touchObserver (st : State) (c tok : Nat) : CQuiet st (touchObserver st c tok) := cquiet_mapRes ..

theorem cquiet_addObserver (st : State) (r c tok key : Nat) : CQuiet st (addObserver st r c tok key) := by
  unfold addObserver
  split
  · exact CQuiet.refl _
  · split
    · exact CQuiet.refl _
    · dsimp only
      have h1 : CQuiet st (match (‹Res›).subs.find? (matchSK c key) with
                          | some _ => refDec st c
                          | none => st) := by
        split
        · exact cquiet_refDec st c
        · exact CQuiet.refl _
      exact ((h1.trans (cquiet_newMid _ c)).trans (cquiet_mapRes _ _)).trans (cquiet_refInc _ c)

theorem cquiet_deleteObserverRequest (st : State) (r c tok key : Nat) : CQuiet st (deleteObserverRequest st r c tok key) := by
  unfold deleteObserverRequest
  split
  · exact CQuiet.refl _
  · split
    · exact cquiet_deleteObserver ..
    · split
      · exact cquiet_deleteObserver ..
      · exact CQuiet.refl _

theorem cquiet_change (st : State) (r : Nat) : CQuiet st (change st r) := by
  unfold change
  split
  · exact CQuiet.refl _
  · split
    · exact CQuiet.refl _
    · exact CQuiet.of_eq rfl rfl

theorem cquiet_releaseAll : ∀ (l : List Sub) (st : State), CQuiet st (releaseAll st l)
  | [], st => CQuiet.refl _
  | s :: rest, st => by
    unfold releaseAll
    exact (cquiet_refDec st s.sess).trans (cquiet_releaseAll rest _)

/-! ### the balance `con_active = queued nodes + K` -/
def CBal (st : State) (c K : Nat) : Prop := scon st c = qcnt c st.sendq + K
def CPres (st st' : State) : Prop := ∀ c K, CBal st c K → CBal st' c K

theorem conInv_iff (st : State) : ConInv st ↔ ∀ c, CBal st c 0 := by
  unfold ConInv CBal
  simp only [getSess_con, nodesOf_eq, Nat.add_zero]

theorem CBal.cast {st : State} {c K K' : Nat} (h : CBal st c K) (hk : K = K') : CBal st c K' := hk ▸ h
theorem CPres.refl (st : State) : CPres st st := fun _ _ h => h
theorem CPres.trans {a b c : State} (h1 : CPres a b) (h2 : CPres b c) : CPres a c := fun x K h => h2 x K (h1 x K h)
theorem CPres.conInv {st st' : State} (h : CPres st st') (hi : ConInv st) : ConInv st' := by
  rw [conInv_iff] at hi ⊢; exact fun c => h c 0 (hi c)
theorem CQuiet.cpres {st st' : State} (h : CQuiet st st') : CPres st st' := by
  intro c K hb; unfold CBal at hb ⊢; rw [h.1, h.2]; exact hb

/-- coap_cancel_all_messages(context, session, token): only nodes of THAT session leave the queue, its counter goes down by
    their number -/
theorem cpres_cancelAllMessages (st : State) (c tok : Nat) : CPres st (cancelAllMessages st c tok) := by
  intro c' K h
  unfold CBal at h ⊢
  unfold cancelAllMessages
  simp only [modSess_sendq, scon_modSess, getSess_con]
  have h1 := qcnt_filter_not c c' (matchQT c tok) (by intro q hq; unfold matchQT at hq; simp at hq; exact hq.1) st.sendq
  by_cases hc : c' = c
  · subst hc; simp only [if_true] at h1 ⊢
    show scon st c' - _ = _
    omega
  · simp only [hc, if_false] at h1 ⊢
    show scon st c' = _
    omega

theorem cbal_insert (st : State) (n : QNode) (c' K : Nat) (h : CBal st c' (K + if n.sess = c' then 1 else 0)) :
    CBal { st with sendq := insertNode n st.sendq } c' K := by
  unfold CBal at h ⊢
  dsimp only
  rw [qcnt_insertNode, show scon { st with sendq := insertNode n st.sendq } c' = scon st c' from rfl]
  omega

theorem cbal_conInc (st : State) (c c' K : Nat) (h : CBal st c' K) :
    CBal (modSess st c fun s => { s with conActive := s.conActive + 1, ref := s.ref + 1 }) c' (K + if c = c' then 1 else 0) := by
  unfold CBal at h ⊢
  simp only [modSess_sendq, scon_modSess, getSess_con]
  by_cases hc : c' = c
  · subst hc; simp only [if_true]; omega
  · have : ¬ c = c' := by omega
    simp only [hc, this, if_false]; omega

theorem cpres_sendNote (st : State) (c tok code : Nat) (obs : Option Nat) (isCon : Bool) (mid rid ver : Nat) :
    CPres st (sendNote st c tok code obs isCon mid rid ver).1 := by
  intro c' K h
  have h1 : CBal (addNote (txStamp st c) c { mid := mid, con := isCon }) c' K :=
    ((cquiet_txStamp st c).trans (cquiet_addNote _ c _)).cpres c' K h
  unfold sendNote
  dsimp only
  split
  · exact cbal_insert _ _ c' K (cbal_conInc _ c c' K h1)
  · exact h1

/-! ### the notify loop -/
theorem cpres_notifyOne (d : Bool) (r : Res) (o : Sub) (st : State) : CPres st (notifyOne d r o st).st := by
  unfold notifyOne
  split
  · exact (CQuiet.of_eq rfl rfl : CQuiet st { st with pending := true }).cpres
  · split
    · exact (CQuiet.of_eq rfl rfl : CQuiet st { st with pending := true }).cpres
    · dsimp only
      have h1 : CPres st (newMid st o.sess).2 := (cquiet_newMid st o.sess).cpres
      split
      · exact h1.trans (cpres_sendNote _ _ _ _ _ _ _ _ _)
      · split
        · exact (h1.trans (cquiet_refDec _ o.sess).cpres).trans (cpres_sendNote _ _ _ _ _ _ _ _ _)
        · exact h1.trans (cpres_sendNote _ _ _ _ _ _ _ _ _)

theorem cpres_notifyLoop (d : Bool) (r : Res) : ∀ (subs : List Sub) (st : State), CPres st (notifyLoop d r subs st).st
  | [], st => CPres.refl _
  | o :: rest, st => by
    unfold notifyLoop
    dsimp only
    exact (cpres_notifyOne d r o st).trans (cpres_notifyLoop d r rest _)

theorem cpres_notifyRes (d : Bool) (r : Res) (st : State) : CPres st (notifyRes d r st).2.1 := by
  unfold notifyRes
  split
  · exact cpres_notifyLoop d r r.subs st
  · exact CPres.refl _

theorem cpres_notifyAll : ∀ (rs : List Res) (st : State), CPres st (notifyAll rs st).2.1
  | [], st => CPres.refl _
  | r :: rest, st => by
    have e1 : (notifyAll (r :: rest) st).2.1 = (notifyAll rest (notifyRes false r st).2.1).2.1 := rfl
    rw [e1]
    exact (cpres_notifyRes false r st).trans (cpres_notifyAll rest _)

theorem cpres_checkNotify (st : State) : CPres st (checkNotify st).1 := by
  unfold checkNotify
  split
  · have h0 : CPres st { st with pending := false } := (CQuiet.of_eq rfl rfl : CQuiet st { st with pending := false }).cpres
    have h1 := cpres_notifyAll st.res { st with pending := false }
    exact (h0.trans h1).trans (CQuiet.of_eq rfl rfl : CQuiet (notifyAll st.res { st with pending := false }).2.1
      { (notifyAll st.res { st with pending := false }).2.1 with res := (notifyAll st.res { st with pending := false }).1 }).cpres
  · exact CPres.refl _

/-! ### failed notifications, retransmission -/
theorem foldl_cpres {α : Type} (f : State → α → State) (hf : ∀ s x, CPres s (f s x)) :
    ∀ (l : List α) (st : State), CPres st (l.foldl f st)
  | [], st => CPres.refl _
  | x :: xs, st => by
    simp only [List.foldl_cons]
    exact (hf st x).trans (foldl_cpres f hf xs _)

theorem cpres_removeFailedOne (st : State) (x : Res) (c tok : Nat) : CPres st (removeFailedOne st x c tok) := by
  unfold removeFailedOne
  split
  · exact CPres.refl _
  · split
    · exact (cpres_cancelAllMessages st c tok).trans (cquiet_deleteObserver _ x.id c tok).cpres
    · exact (cquiet_modRes st x.id _).cpres

theorem cpres_handleFailedNotify (st : State) (c tok : Nat) : CPres st (handleFailedNotify st c tok) := by
  unfold handleFailedNotify
  apply foldl_cpres
  intro s rid; split
  · exact cpres_removeFailedOne _ _ _ _
  · exact CPres.refl _

theorem cpres_cancelSent (st : State) (c tok : Nat) : CPres st (cancelSent st c tok) := by
  unfold cancelSent
  apply foldl_cpres
  intro s rid; split
  · exact (cpres_cancelAllMessages s c tok).trans (cquiet_deleteObserver _ rid c tok).cpres
  · exact CPres.refl _

/-- `if (con_active) con_active--` for a node that is accounted for in the offset -/
theorem conDec_cbal (st : State) (c c' K : Nat) (h : CBal st c' (K + if c' = c then 1 else 0)) : CBal (conDec st c) c' K := by
  unfold CBal at h ⊢
  unfold conDec
  simp only [modSess_sendq, scon_modSess, getSess_con]
  by_cases hc : c' = c
  · subst hc; simp only [if_true] at h ⊢; omega
  · simp only [hc, if_false] at h ⊢; omega

/-- coap_retransmit on the node popped from the queue (the node is in the offset) -/
theorem retransmit_cbal (st : State) (q : QNode) (c K : Nat)
    (h : CBal st c (K + if q.sess = c then 1 else 0)) : CBal (retransmit st q).1 c K := by
  unfold retransmit
  split
  · dsimp only
    refine (cquiet_txStamp _ _).cpres c K ?_
    -- insertNode: the node is back in the queue; con_active-- (it is ≥ 1), con_active++
    have h1 : CBal { st with sendq := insertNode { q with cnt := q.cnt + 1, due := st.now + obsAckTimeoutTicks * 2 ^ (q.cnt + 1) } st.sendq } c K :=
      cbal_insert st _ c K h
    unfold CBal at h1 ⊢
    unfold conDec
    simp only [modSess_sendq, scon_modSess, getSess_con] at h1 ⊢
    by_cases hc : c = q.sess
    · subst hc
      simp only [if_true]
      rw [qcnt_insertNode] at h1 ⊢
      simp only [if_true] at h1 ⊢
      omega
    · simp only [hc, if_false]
      exact h1
  · dsimp only
    refine (cquiet_refDec _ _).cpres c K ?_
    apply conDec_cbal
    refine cpres_handleFailedNotify st q.sess q.token c _ (h.cast ?_)
    by_cases hc : c = q.sess
    · simp [hc]
    · have : ¬ q.sess = c := by omega
      simp [hc, this]

theorem cpres_retransmitDue : ∀ (fuel : Nat) (st : State), CPres st (retransmitDue fuel st).1
  | 0, st => CPres.refl _
  | fuel + 1, st => by
    unfold retransmitDue
    split
    · exact CPres.refl _
    · rename_i q qs hq
      split
      · intro c K h
        have h1 : CBal { st with sendq := qs } c (K + if q.sess = c then 1 else 0) := by
          unfold CBal at h ⊢
          rw [hq, qcnt_cons] at h
          show scon st c = qcnt c qs + _
          omega
        exact cpres_retransmitDue fuel _ c K (retransmit_cbal { st with sendq := qs } q c K h1)
      · exact CPres.refl _

/-! ### ACK / RST -/
theorem cbal_erase (st : State) (c mid : Nat) (q : QNode) (hf : st.sendq.find? (matchQ c mid) = some q) (c' K : Nat) (h : CBal st c' K) :
    CBal { st with sendq := st.sendq.eraseP (matchQ c mid) } c' (K + if c' = c then 1 else 0) := by
  unfold CBal at h ⊢
  have := qcnt_eraseP_Q c mid c' _ q hf
  show scon st c' = qcnt c' (st.sendq.eraseP (matchQ c mid)) + _
  omega

theorem cpres_handleAck (st : State) (c mid : Nat) : CPres st (handleAck st c mid) := by
  unfold handleAck
  dsimp only
  split
  · exact (cquiet_rxSession st c).cpres
  · rename_i q hf
    intro c' K h
    refine (cquiet_refDec _ c).cpres c' K ?_
    have h1 := cbal_erase _ c mid q hf c' K ((cquiet_rxSession st c).cpres c' K h)
    have h2 := conDec_cbal _ c c' K h1
    split
    · exact (cquiet_touchObserver _ c q.token).cpres c' K h2
    · exact h2

theorem cpres_handleRst (st : State) (c mid : Nat) : CPres st (handleRst st c mid) := by
  unfold handleRst
  dsimp only
  split
  · rename_i q hf
    intro c' K h
    refine (cquiet_refDec _ c).cpres c' K ?_
    have h1 := cbal_erase _ c mid q hf c' K ((cquiet_rxSession st c).cpres c' K h)
    have h2 := conDec_cbal _ c c' K h1
    exact cpres_cancelSent _ c q.token c' K h2
  · split
    · exact ((cquiet_rxSession st c).trans (cquiet_deleteObserver _ _ _ _)).cpres
    · exact (cquiet_rxSession st c).cpres

/-! ### resource deletion, requests -/
theorem cpres_deleteResource (st : State) (r : Nat) : CPres st (deleteResource st r).1 := by
  unfold deleteResource
  split
  · exact CPres.refl _
  · dsimp only
    split
    · exact (cquiet_change st r).cpres
    · rename_i x1 hx1
      refine (cquiet_change st r).cpres.trans ?_
      refine (cpres_notifyRes true x1 (change st r)).trans ?_
      exact ((cquiet_releaseAll _ _).trans (cquiet_modRes _ r _)).cpres

theorem cquiet_request (st : State) (o : Option Nat) (c r tok key : Nat) (con : Bool) (mid : Nat) :
    CQuiet st (request st o c r tok key con mid).1 := by
  unfold request
  dsimp only
  split
  · exact (cquiet_rxSession st c).trans (cquiet_txStamp _ c)
  · have h1 : CQuiet st (match o with
               | some 0 => touchObserver (addObserver (rxSession st c) r c tok key) c tok
               | some 1 => deleteObserverRequest (rxSession st c) r c tok key
               | _ => rxSession st c) := by
      split
      · exact ((cquiet_rxSession st c).trans (cquiet_addObserver _ r c tok key)).trans (cquiet_touchObserver _ c tok)
      · exact (cquiet_rxSession st c).trans (cquiet_deleteObserverRequest _ r c tok key)
      · exact cquiet_rxSession st c
    split
    · split
      · exact (h1.trans (cquiet_deleteObserver _ r c tok)).trans (cquiet_txStamp _ c)
      · exact h1.trans (cquiet_txStamp _ c)
    · exact h1.trans (cquiet_txStamp _ c)

/-! ### session loss, idle reclaim: on the invariant itself -/
theorem conInv_sessionLost (st : State) (c : Nat) (h : ConInv st) : ConInv (sessionLost st c) := by
  unfold sessionLost
  split
  · exact h
  · rw [conInv_iff] at h ⊢
    intro c'
    have hc' := h c'
    unfold CBal at hc' ⊢
    dsimp only
    simp only [modSess_sendq, mapRes_sendq, scon_modSess]
    rw [qcnt_filter_ne]
    by_cases hc : c' = c
    · simp only [hc, if_true]
    · simp only [hc, if_false]
      exact hc'

theorem scon_reclaim_le (st : State) (c : Nat) : scon (reclaim st) c = scon st c ∨ (scon (reclaim st) c = 0 ∧ sref st c = 0) := by
  unfold scon sref reclaim; dsimp only
  cases h : st.sess c with
  | none => exact Or.inl rfl
  | some s =>
    dsimp only
    split
    · rename_i h1; split at h1
      · cases h1
      · cases h1; exact Or.inl rfl
    · rename_i h1; split at h1
      · rename_i h2; exact Or.inr ⟨rfl, h2.1⟩
      · cases h1

/-- the idle reclaim frees only unreferenced sessions, and those have no node in the queue (RefInv) -/
theorem conInv_reclaim (st : State) (hr : RefInv st) (h : ConInv st) : ConInv (reclaim st) := by
  rw [conInv_iff] at h ⊢
  intro c
  have hc := h c
  unfold CBal at hc ⊢
  rw [reclaim_sendq]
  rcases scon_reclaim_le st c with h1 | ⟨h1, h2⟩
  · rw [h1]; exact hc
  · rw [h1]
    have := (refInv_iff st).mp hr c
    unfold Bal at this
    omega

theorem conInv_io (st : State) (hn : IdsNodup st) (hr : RefInv st) (h : ConInv st) : ConInv (io st).1 := by
  unfold io
  dsimp only
  have hn1 : IdsNodup (checkNotify st).1 := IdsNodup.of_le (checkNotify_idLe st) hn
  apply conInv_reclaim
  · exact ((pres_checkNotify st).trans (pres_retransmitDue _ _ hn1)).refInv hr
  · exact ((cpres_checkNotify st).trans (cpres_retransmitDue _ _)).conInv h

theorem conInv_rxThenIo (p : State × List Out) (hn : IdsNodup p.1) (hr : RefInv p.1) (h : ConInv p.1) : ConInv (rxThenIo p).1 := by
  unfold rxThenIo; exact conInv_io p.1 hn hr h

/-! ### one event, all runs -/
theorem step_conInv (st : State) (e : Event) (hn : IdsNodup st) (hr : RefInv st) (h : ConInv st) : ConInv (step st e).1 := by
  have hreq : ∀ o c r tok key con mid, ConInv (rxThenIo (request st o c r tok key con mid)).1 := fun o c r tok key con mid =>
    conInv_rxThenIo _ (by unfold IdsNodup; rw [request_ids]; exact hn) ((pres_request st o c r tok key con mid hn).refInv hr)
      ((cquiet_request st o c r tok key con mid).cpres.conInv h)
  cases e with
  | reg c r tok key con mid => exact hreq _ c r tok key con mid
  | can c r tok key con mid => exact hreq _ c r tok key con mid
  | get c r tok key con mid => exact hreq _ c r tok key con mid
  | chg r => exact (cquiet_change st r).cpres.conInv h
  | adv ms =>
    show ConInv (io { st with now := st.now + ms }).1
    exact conInv_io { st with now := st.now + ms } hn
      ((Pres.of_eq rfl rfl (fun c => sref_of_sess rfl c) : Pres st { st with now := st.now + ms }).refInv hr)
      ((CQuiet.of_eq rfl rfl : CQuiet st { st with now := st.now + ms }).cpres.conInv h)
  | ack c n =>
    unfold step; dsimp only
    split
    · split
      · exact conInv_rxThenIo (handleAck st c _, []) (IdsNodup.of_le (handleAck_le ..).idLe hn) ((pres_handleAck st c _).refInv hr)
          ((cpres_handleAck st c _).conInv h)
      · exact h
    · exact h
  | rst c n =>
    unfold step; dsimp only
    split
    · exact conInv_rxThenIo (handleRst st c _, []) (IdsNodup.of_le (handleRst_le ..).idLe hn) ((pres_handleRst st c _ hn).refInv hr)
        ((cpres_handleRst st c _).conInv h)
    · exact h
  | err r b => exact (cquiet_modRes st r _).cpres.conInv h
  | lost c => exact conInv_sessionLost st c h
  | del r => exact (cpres_deleteResource st r).conInv h

theorem run_conInv (st : State) (evs : List Event) (hid : IdsNodup st) (hr : RefInv st) (h : ConInv st) : ConInv (run st evs).1 := by
  induction evs generalizing st with
  | nil => exact h
  | cons e es ih =>
    rw [run_cons]
    exact ih _ (step_idsNodup st e hid) (step_refInv st e hid hr) (step_conInv st e hid hr h)

theorem init_conInv (res : List Res) (stTicks : Nat) : ConInv (init res stTicks) := by
  intro c
  rfl

/-! ### frame: what one session's cancellation does to the others -/
/-- coap_cancel_all_messages(context, session c, token): the nodes and the counter of every OTHER session are untouched,
    whatever their tokens are -/
theorem cancelAllMessages_other (st : State) (c tok c' : Nat) (hc : c' ≠ c) :
    (cancelAllMessages st c tok).sess c' = st.sess c' ∧
    (cancelAllMessages st c tok).sendq.filter (fun q => q.sess == c') = st.sendq.filter (fun q => q.sess == c') := by
  unfold cancelAllMessages
  constructor
  · unfold modSess setSess; dsimp only; simp [hc]
  · simp only [modSess_sendq]
    rw [List.filter_filter]
    apply List.filter_congr
    intro q _
    unfold matchQT
    by_cases h : q.sess = c'
    · simp [h, hc]
    · simp [h]

end Coap.Observe
