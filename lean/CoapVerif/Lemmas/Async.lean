import CoapVerif.Model.Async
/-
Lemmas for C10 about the deferred-response machine (Model/Async.lean), for EVERY pair of decision procedures `Dec`:
what coap_check_async hands to the application, its return value, the invariants of the entry list and of the session
reference counts over arbitrary event sequences.
-/
namespace Coap.Async.L
open Coap Coap.Server Coap.Async

/-- the entry's time has come: `async->delay != 0 && async->delay <= now` -/
def due (now : Nat) (e : Entry) : Bool := decide (e.delay ≠ 0 ∧ e.delay ≤ now)

/-! ### coap_check_async -/
theorem check_pos (dec : Dec) (v : Verdict) (now : Nat) (a : Entry) (r : List Entry) (ss : List Sess) (nd : Nat)
    (h : a.delay ≠ 0 ∧ a.delay ≤ now) :
    checkAsync dec v now (a :: r) ss nd =
      (⟨a, dec.again a.req v⟩ :: (checkAsync dec v now r (release (if (dec.again a.req v).replies.isEmpty then ss else
          updSess ss a.sess (fun s => { s with last := now })) a.sess) nd).1,
       (checkAsync dec v now r (release (if (dec.again a.req v).replies.isEmpty then ss else
          updSess ss a.sess (fun s => { s with last := now })) a.sess) nd).2.1,
       (checkAsync dec v now r (release (if (dec.again a.req v).replies.isEmpty then ss else
          updSess ss a.sess (fun s => { s with last := now })) a.sess) nd).2.2.1,
       (checkAsync dec v now r (release (if (dec.again a.req v).replies.isEmpty then ss else
          updSess ss a.sess (fun s => { s with last := now })) a.sess) nd).2.2.2) := by
  rw [checkAsync, if_pos h]

theorem check_neg (dec : Dec) (v : Verdict) (now : Nat) (a : Entry) (r : List Entry) (ss : List Sess) (nd : Nat)
    (h : ¬ (a.delay ≠ 0 ∧ a.delay ≤ now)) :
    checkAsync dec v now (a :: r) ss nd =
      ((checkAsync dec v now r ss (if nd = 0 ∨ nd > (a.delay + W - now) % W then (a.delay + W - now) % W else nd)).1,
       a :: (checkAsync dec v now r ss (if nd = 0 ∨ nd > (a.delay + W - now) % W then (a.delay + W - now) % W else nd)).2.1,
       (checkAsync dec v now r ss (if nd = 0 ∨ nd > (a.delay + W - now) % W then (a.delay + W - now) % W else nd)).2.2.1,
       (checkAsync dec v now r ss (if nd = 0 ∨ nd > (a.delay + W - now) % W then (a.delay + W - now) % W else nd)).2.2.2) := by
  rw [checkAsync, if_neg h]

theorem due_pos {now : Nat} {a : Entry} (h : a.delay ≠ 0 ∧ a.delay ≤ now) : due now a = true := by simp [due, h]
theorem due_neg {now : Nat} {a : Entry} (h : ¬ (a.delay ≠ 0 ∧ a.delay ≤ now)) : due now a = false := by
  unfold due; exact decide_eq_false h
theorem check_fired (dec : Dec) (v : Verdict) (now : Nat) : ∀ (l : List Entry) (ss : List Sess) (nd : Nat),
    (checkAsync dec v now l ss nd).1.map (·.entry) = l.filter (due now) := by
  intro l
  induction l with
  | nil => intro ss nd; simp [checkAsync]
  | cons a r ih =>
    intro ss nd
    by_cases h : a.delay ≠ 0 ∧ a.delay ≤ now
    · rw [check_pos _ _ _ _ _ _ _ h]; simp only [List.map_cons, ih, List.filter_cons, due_pos h, if_true]
    · rw [check_neg _ _ _ _ _ _ _ h]; simp only [ih, List.filter_cons, due_neg h, Bool.false_eq_true, if_false]

theorem check_kept (dec : Dec) (v : Verdict) (now : Nat) : ∀ (l : List Entry) (ss : List Sess) (nd : Nat),
    (checkAsync dec v now l ss nd).2.1 = l.filter (fun e => !due now e) := by
  intro l
  induction l with
  | nil => intro ss nd; simp [checkAsync]
  | cons a r ih =>
    intro ss nd
    by_cases h : a.delay ≠ 0 ∧ a.delay ≤ now
    · rw [check_pos _ _ _ _ _ _ _ h]; simp only [ih, List.filter_cons, due_pos h, Bool.not_true, Bool.false_eq_true, if_false]
    · rw [check_neg _ _ _ _ _ _ _ h]; simp only [ih, List.filter_cons, due_neg h, Bool.not_false, if_true]

theorem check_out (dec : Dec) (v : Verdict) (now : Nat) : ∀ (l : List Entry) (ss : List Sess) (nd : Nat),
    ∀ f ∈ (checkAsync dec v now l ss nd).1, f.out = dec.again f.entry.req v := by
  intro l
  induction l with
  | nil => intro ss nd f hf; simp [checkAsync] at hf
  | cons a r ih =>
    intro ss nd f hf
    by_cases h : a.delay ≠ 0 ∧ a.delay ≤ now
    · rw [check_pos _ _ _ _ _ _ _ h] at hf
      simp only [List.mem_cons] at hf
      rcases hf with rfl | hf
      · rfl
      · exact ih _ _ f hf
    · rw [check_neg _ _ _ _ _ _ _ h] at hf
      exact ih _ _ f hf

/-- the distance `async->delay - now` (uint64_t) of an entry that is not due is not 0 when the clock is not 0 -/
theorem dist_ne_zero {now : Nat} {a : Entry} (hnow : 0 < now ∧ now < W) (ha : a.delay < W)
    (h : ¬ (a.delay ≠ 0 ∧ a.delay ≤ now)) : (a.delay + W - now) % W ≠ 0 := by
  unfold W at *
  by_cases h0 : a.delay = 0
  · omega
  · have : now < a.delay := by
      apply Nat.lt_of_not_le
      intro hle
      exact h ⟨h0, hle⟩
    omega

theorem dist_eq {now : Nat} {a : Entry} (hnow : now < W) (ha : a.delay < W) (h : now < a.delay) :
    (a.delay + W - now) % W = a.delay - now := by
  unfold W at *
  omega

/-- next_due: never 0 once set, never above what it was, never above the distance of an entry that stays -/
theorem check_wait (dec : Dec) (v : Verdict) (now : Nat) (hnow : 0 < now ∧ now < W) :
    ∀ (l : List Entry) (ss : List Sess) (nd : Nat), (∀ e ∈ l, e.delay < W) →
    (nd ≠ 0 → (checkAsync dec v now l ss nd).2.2.2 ≠ 0 ∧ (checkAsync dec v now l ss nd).2.2.2 ≤ nd) ∧
    (∀ e ∈ l, due now e = false →
      (checkAsync dec v now l ss nd).2.2.2 ≠ 0 ∧ (checkAsync dec v now l ss nd).2.2.2 ≤ (e.delay + W - now) % W) := by
  intro l
  induction l with
  | nil => intro ss nd _; simp [checkAsync]
  | cons a r ih =>
    intro ss nd hl
    have hr : ∀ e ∈ r, e.delay < W := fun e he => hl e (List.mem_cons_of_mem _ he)
    by_cases h : a.delay ≠ 0 ∧ a.delay ≤ now
    · have ih' := ih (release (if (dec.again a.req v).replies.isEmpty then ss else updSess ss a.sess (fun s => { s with last := now })) a.sess) nd hr
      rw [check_pos _ _ _ _ _ _ _ h]
      refine ⟨ih'.1, ?_⟩
      intro e he hd
      rcases List.mem_cons.mp he with rfl | he
      · rw [due_pos h] at hd; exact absurd hd (by decide)
      · exact ih'.2 e he hd
    · rw [check_neg _ _ _ _ _ _ _ h]
      have hz : (a.delay + W - now) % W ≠ 0 := dist_ne_zero hnow (hl a (List.mem_cons_self ..)) h
      dsimp only
      by_cases hc : nd = 0 ∨ nd > (a.delay + W - now) % W
      · rw [if_pos hc]
        have ih' := ih ss ((a.delay + W - now) % W) hr
        have h1 := ih'.1 hz
        constructor
        · intro hnd
          rcases hc with hc | hc
          · exact absurd hc hnd
          · exact ⟨h1.1, by omega⟩
        · intro e he hd
          rcases List.mem_cons.mp he with rfl | he
          · exact h1
          · exact ih'.2 e he hd
      · rw [if_neg hc]
        have ih' := ih ss nd hr
        have hnd : nd ≠ 0 := fun h0 => hc (Or.inl h0)
        have h1 := ih'.1 hnd
        constructor
        · intro _; exact h1
        · intro e he hd
          rcases List.mem_cons.mp he with rfl | he
          · exact ⟨h1.1, by omega⟩
          · exact ih'.2 e he hd

/-! ### the I/O step -/
theorem prepare_fired (c : Async.Cfg) (dec : Dec) (v : Verdict) (st : St) :
    (prepare c dec v st).2.fired.map (·.entry) = st.async.filter (due st.now) ∧
    (prepare c dec v st).1.async = st.async.filter (fun e => !due st.now e) ∧
    (∀ f ∈ (prepare c dec v st).2.fired, f.out = dec.again f.entry.req v) ∧
    (prepare c dec v st).1.now = st.now := by
  unfold prepare
  exact ⟨check_fired .., check_kept .., fun f hf => check_out _ _ _ _ _ _ f hf, rfl⟩

/-! ### at most one entry per (session, token) -/
def key (e : Entry) : Nat × Bytes := (e.sess, e.req.token)
def Uniq (l : List Entry) : Prop := (l.map key).Nodup

theorem uniq_sublist {l l' : List Entry} (h : l'.Sublist l) (hu : Uniq l) : Uniq l' :=
  List.Nodup.sublist (h.map key) hu

theorem setNth_key (f : Entry → Entry) (hf : ∀ e, key (f e) = key e) : ∀ (l : List Entry) (k : Nat),
    (setNth l k f).map key = l.map key := by
  intro l
  induction l with
  | nil => intro k; simp [setNth]
  | cons a r ih =>
    intro k
    cases k with
    | zero => simp [setNth, hf]
    | succ k => simp [setNth, ih]

theorem register_uniq (st : St) (p : Nat) (call : Call) (type : Nat) (tok : Bytes) (d : Nat) (hu : Uniq st.async) :
    Uniq (register st p call type tok d).1.async := by
  unfold register
  split
  · exact hu
  · split
    · exact hu
    · rename_i hf
      split
      · exact hu
      · dsimp only
        unfold Uniq
        rw [List.map_cons, List.nodup_cons]
        refine ⟨?_, hu⟩
        intro hmem
        rcases List.mem_map.mp hmem with ⟨x, hx, hk⟩
        have := List.find?_eq_none.mp hf x hx
        apply this
        simp only [key, Prod.mk.injEq] at hk
        simp [hits, hk.1, hk.2]

theorem prepare_uniq (c : Async.Cfg) (dec : Dec) (v : Verdict) (st : St) (hu : Uniq st.async) :
    Uniq (prepare c dec v st).1.async := by
  rw [(prepare_fired c dec v st).2.1]
  exact uniq_sublist List.filter_sublist hu

theorem register_async (st : St) (p : Nat) (call : Call) (type : Nat) (tok : Bytes) (d : Nat) :
    (register st p call type tok d).1.now = st.now ∧
    (((register st p call type tok d).1.async = st.async ∧ (register st p call type tok d).2 = none) ∨
     ∃ e, (register st p call type tok d).2 = some e ∧ (register st p call type tok d).1.async = e :: st.async) := by
  unfold register
  split
  · exact ⟨rfl, Or.inl ⟨rfl, rfl⟩⟩
  · split
    · exact ⟨rfl, Or.inl ⟨rfl, rfl⟩⟩
    · split
      · exact ⟨rfl, Or.inl ⟨rfl, rfl⟩⟩
      · exact ⟨rfl, Or.inr ⟨_, rfl, rfl⟩⟩

/-- the datagram's own processing leaves the clock alone and adds at most the entry it reports -/
theorem rxOwn_async (c : Async.Cfg) (dec : Dec) (st : St) (p : Nat) (defer : Option Nat) (rq : Request) :
    (rxOwn c dec st p defer rq).1.1.now = st.now ∧
    (((rxOwn c dec st p defer rq).1.1.async = st.async ∧ (rxOwn c dec st p defer rq).1.2 = none) ∨
     ∃ e, (rxOwn c dec st p defer rq).1.2 = some e ∧ (rxOwn c dec st p defer rq).1.1.async = e :: st.async) := by
  unfold rxOwn
  dsimp only
  split
  · exact register_async ..
  · exact ⟨rfl, Or.inl ⟨rfl, rfl⟩⟩

theorem rxOwn_uniq (c : Async.Cfg) (dec : Dec) (st : St) (p : Nat) (defer : Option Nat) (rq : Request) (hu : Uniq st.async) :
    Uniq (rxOwn c dec st p defer rq).1.1.async := by
  unfold rxOwn
  dsimp only
  split
  · exact register_uniq _ _ _ _ _ _ hu
  · exact hu

theorem step_uniq (c : Async.Cfg) (dec : Dec) (st : St) (ev : Async.Ev) (hu : Uniq st.async) :
    Uniq (step c dec st ev).1.async := by
  cases ev with
  | rx p defer rq =>
    simp only [step]
    exact prepare_uniq _ _ _ _ (rxOwn_uniq c dec st p defer rq hu)
  | io dt v => simp only [step]; exact prepare_uniq _ _ _ _ hu
  | trigger k =>
    simp only [step]; unfold Uniq; rw [setNth_key _ (by intro e; rfl)]; exact hu
  | setDelay k d =>
    simp only [step]; unfold Uniq; rw [setNth_key _ (by intro e; rfl)]; exact hu
  | free k =>
    simp only [step]
    split
    · exact uniq_sublist (List.eraseIdx_sublist ..) hu
    · exact hu

theorem final_uniq (c : Async.Cfg) (dec : Dec) : ∀ (evs : List Async.Ev) (st : St), Uniq st.async →
    Uniq (final c dec st evs).async := by
  intro evs
  induction evs with
  | nil => intro st h; exact h
  | cons ev r ih => intro st h; exact ih _ (step_uniq c dec st ev h)

/-- a request that finds an entry of its session with its token registers nothing -/
theorem register_hit (st : St) (p : Nat) (call : Call) (type : Nat) (tok : Bytes) (d : Nat) (e : Entry)
    (h : find st.async p tok = some e) : register st p call type tok d = (st, none) := by
  unfold register
  split
  · rfl
  · rw [h]

theorem rxOwn_hit (c : Async.Cfg) (dec : Dec) (st : St) (p : Nat) (defer : Option Nat) (rq : Request) (e : Entry)
    (h : find st.async p rq.msg.token = some e) :
    (rxOwn c dec st p defer rq).1 = ({ st with sess := touch c st.sess p st.now }, none) ∧
    (rxOwn c dec st p defer rq).2 = dec.first true (if defer.isSome then { rq with verdict := ⟨0, []⟩ } else rq) := by
  unfold rxOwn
  simp only [h, Option.isSome_some]
  refine ⟨?_, trivial⟩
  split
  · exact register_hit _ _ _ _ _ _ e h
  · rfl

end Coap.Async.L
