import CoapVerif.Model.Block
import CoapVerif.Spec.Block
import CoapVerif.Generated.BlockConst
/- Helper lemmas for C09 (Layer A): tiling, flsll, setup_block_b, received ranges, reassembly.  Core Lean only. -/
set_option linter.unusedSimpArgs false
namespace Coap.Block
open Coap.Spec.Block

theorem chunk_pos (szx : Nat) : 0 < chunkSize szx := Nat.two_pow_pos _

theorem flatten_range_succ (f : Nat → Bytes) (n : Nat) :
    ((List.range (n + 1)).map f).flatten = ((List.range n).map f).flatten ++ f n := by
  simp [List.range_succ]

theorem flatten_slices_take (body : Bytes) (szx n : Nat) :
    ((List.range n).map (slice body szx)).flatten = body.take (n * chunkSize szx) := by
  induction n with
  | zero => simp
  | succ n ih =>
    rw [flatten_range_succ, ih, slice, Nat.succ_mul, List.take_add]

theorem nBlocks_mul_ge (len szx : Nat) : len ≤ nBlocks len szx * chunkSize szx := by
  unfold nBlocks
  have hc := chunk_pos szx
  generalize chunkSize szx = c at *
  have h := Nat.lt_mul_div_succ (len + c - 1) hc
  rw [Nat.mul_add, Nat.mul_comm] at h
  omega

theorem slices_flatten (body : Bytes) (szx : Nat) : (slices body szx).flatten = body := by
  unfold slices
  rw [flatten_slices_take]
  exact List.take_of_length_le (nBlocks_mul_ge _ _)

/-- `k < nBlocks ↔ k * chunk < len` -/
theorem lt_nBlocks_iff (len szx k : Nat) : k < nBlocks len szx ↔ k * chunkSize szx < len := by
  unfold nBlocks
  have hc := chunk_pos szx
  generalize chunkSize szx = c at *
  rw [Nat.lt_div_iff_mul_lt hc]
  omega

theorem addBlock_eq_slice (body : Bytes) (szx k : Nat) :
    addBlock body k szx = if k < nBlocks body.length szx then some (slice body szx k) else none := by
  unfold addBlock blockOffset slice
  have h := lt_nBlocks_iff body.length szx k
  unfold chunkSize at h ⊢
  by_cases hk : k < nBlocks body.length szx
  · have := h.mp hk
    simp [hk, Nat.not_le.mpr this]
  · have : body.length ≤ k * 2 ^ (szx + 4) := Nat.le_of_not_lt (fun hh => hk (h.mpr hh))
    simp [hk, this]

theorem slice_length (body : Bytes) (szx k : Nat) :
    (slice body szx k).length = min (chunkSize szx) (body.length - k * chunkSize szx) := by
  simp [slice]

theorem blockOffset_succ (k szx : Nat) : blockOffset (k + 1) szx = blockOffset k szx + chunkSize szx := by
  unfold blockOffset chunkSize; rw [Nat.succ_mul]

theorem moreBit_eq_spec (len szx k : Nat) : moreBit len k szx = more len szx k := by
  unfold moreBit more blockOffset
  have h := lt_nBlocks_iff len szx (k + 1)
  unfold chunkSize at h
  rw [Nat.succ_mul] at h
  by_cases hk : k + 1 < nBlocks len szx
  · simp [hk, h.mp hk]
  · have : ¬ (k * 2 ^ (szx + 4) + 2 ^ (szx + 4) < len) := fun hh => hk (h.mpr hh)
    simp [hk, this]

theorem reduce_same_offset (num szx nsz : Nat) (h : nsz ≤ szx) :
    blockOffset (num * 2 ^ (szx - nsz)) nsz = blockOffset num szx := by
  unfold blockOffset
  rw [Nat.mul_assoc, ← Nat.pow_add]
  congr 2
  omega

theorem flsllLoop_zero (fuel n : Nat) : flsllLoop fuel 0 n = n := by
  cases fuel <;> simp [flsllLoop]

theorem flsllLoop_spec : ∀ (fuel i n : Nat), i < 2 ^ fuel → 0 < i →
    n + 1 ≤ flsllLoop fuel i n ∧ 2 ^ (flsllLoop fuel i n - n - 1) ≤ i ∧ i < 2 ^ (flsllLoop fuel i n - n) := by
  intro fuel
  induction fuel with
  | zero => intro i n h1 h2; simp at h1; omega
  | succ fuel ih =>
    intro i n h1 h2
    have hi : i ≠ 0 := by omega
    simp only [flsllLoop, hi, if_false]
    by_cases h : i / 2 = 0
    · have : i = 1 := by omega
      subst this
      rw [h, flsllLoop_zero]
      simp
    · have hlt : i / 2 < 2 ^ fuel := by rw [Nat.pow_succ] at h1; omega
      obtain ⟨a, b, c⟩ := ih (i / 2) (n + 1) hlt (by omega)
      generalize flsllLoop fuel (i / 2) (n + 1) = r at *
      have e1 : r - n - 1 = (r - (n + 1) - 1) + 1 := by omega
      have e2 : r - n = (r - (n + 1)) + 1 := by omega
      refine ⟨by omega, ?_, ?_⟩
      · rw [e1, Nat.pow_succ]; omega
      · rw [e2, Nat.pow_succ]; omega

theorem flsll_spec (i : Nat) (h0 : 0 < i) (h : i < 2 ^ 64) :
    1 ≤ flsll i ∧ 2 ^ (flsll i - 1) ≤ i ∧ i < 2 ^ (flsll i) := by
  unfold flsll
  rw [Nat.mod_eq_of_lt h]
  have := flsllLoop_spec 64 i 0 h h0
  simpa using this

/-- for `16 ≤ avail`, `flsll avail - 5` is a block size whose chunk fits into `avail`, and it is the largest -/
theorem flsll_chunk (a : Nat) (h16 : 16 ≤ a) (h : a < 2 ^ 64) :
    5 ≤ flsll a ∧ 2 ^ (flsll a - 5 + 4) ≤ a ∧ a < 2 ^ (flsll a - 5 + 5) := by
  obtain ⟨h1, h2, h3⟩ := flsll_spec a (by omega) h
  have h5 : 5 ≤ flsll a := by
    apply Nat.le_of_not_lt
    intro hlt
    have : 2 ^ flsll a ≤ 2 ^ 4 := Nat.pow_le_pow_right (by decide) (by omega)
    omega
  have e1 : flsll a - 5 + 4 = flsll a - 1 := by omega
  have e2 : flsll a - 5 + 5 = flsll a := by omega
  rw [e1, e2]
  exact ⟨h5, h2, h3⟩

theorem pow_lt_imp (a b : Nat) (h : 2 ^ a < 2 ^ b) : a < b := by
  apply Nat.lt_of_not_le
  intro hle
  have := Nat.pow_le_pow_right (n := 2) (by decide) hle
  omega



theorem setup_sound (maxSize tokOpts num blk total : Nat) (b : BlockB)
    (hsz : maxSize < 2 ^ 63) (htok : tokOpts ≤ maxSize) (hstart : num * 2 ^ (blk + 4) ≤ total)
    (htot : total < 2 ^ 32) (h : setupBlockB maxSize tokOpts num blk total = some b) :
    b.szx ≤ blk ∧ b.aszx = b.szx ∧ b.chunk = 2 ^ (b.szx + 4) ∧
    blockOffset b.num b.szx = blockOffset num blk ∧
    b.m = moreBit total b.num b.szx ∧
    min b.chunk (total - blockOffset num blk) ≤ maxSize - tokOpts := by
  unfold setupBlockB at h
  have havail : (maxSize + 2 ^ 64 - tokOpts % 2 ^ 64) % 2 ^ 64 = maxSize - tokOpts := by omega
  have hst : (num * 2 ^ (blk + 4)) % 2 ^ 32 = num * 2 ^ (blk + 4) := Nat.mod_eq_of_lt (by omega)
  have hrest : (total + 2 ^ 64 - num * 2 ^ (blk + 4)) % 2 ^ 64 = total - num * 2 ^ (blk + 4) := by omega
  simp only [havail, hst, hrest] at h
  generalize hav : maxSize - tokOpts = avail at *
  have havlt : avail < 2 ^ 64 := by omega
  split at h
  · rename_i hc
    split at h
    · cases h
    · rename_i h16
      have h16' : 16 ≤ avail := by omega
      obtain ⟨f5, f1, f2⟩ := flsll_chunk avail h16' havlt
      have hnsz : flsll avail - 5 < blk := by
        have : 2 ^ (flsll avail - 5 + 4) < 2 ^ (blk + 4) := by omega
        have := pow_lt_imp _ _ this
        omega
      have hle : flsll avail - 5 ≤ blk := by omega
      have hoff := reduce_same_offset num blk (flsll avail - 5) hle
      have hnowrap : (num * 2 ^ (blk - (flsll avail - 5))) % 2 ^ 32 = num * 2 ^ (blk - (flsll avail - 5)) := by
        apply Nat.mod_eq_of_lt
        have : num * 2 ^ (blk - (flsll avail - 5)) ≤ num * 2 ^ (blk + 4) :=
          Nat.mul_le_mul_left _ (Nat.pow_le_pow_right (by decide) (by omega))
        omega
      cases h
      dsimp only
      rw [hnowrap]
      refine ⟨hle, rfl, rfl, hoff, ?_, ?_⟩
      · unfold moreBit
        rw [hoff]
        unfold blockOffset
        by_cases hh : 2 ^ (flsll avail - 5 + 4) < total - num * 2 ^ (blk + 4)
        · have : num * 2 ^ (blk + 4) + 2 ^ (flsll avail - 5 + 4) < total := by omega
          simp [hh, this]
        · have : ¬ (num * 2 ^ (blk + 4) + 2 ^ (flsll avail - 5 + 4) < total) := by omega
          simp [hh, this]
      · unfold blockOffset
        have : 2 ^ (flsll avail - 5 + 4) ≤ avail := f1
        omega
  · rename_i hc
    cases h
    dsimp only
    refine ⟨Nat.le_refl _, rfl, rfl, rfl, ?_, ?_⟩
    · unfold moreBit blockOffset
      by_cases hh : 2 ^ (blk + 4) < total - num * 2 ^ (blk + 4)
      · have : num * 2 ^ (blk + 4) + 2 ^ (blk + 4) < total := by omega
        simp [hh, this]
      · have : ¬ (num * 2 ^ (blk + 4) + 2 ^ (blk + 4) < total) := by omega
        simp [hh, this]
    · unfold blockOffset
      omega

/-- sorted, disjoint, non-adjacent, every range non-empty, all ≥ `lo` -/
def WfFrom : Nat → Ranges → Prop
  | _, [] => True
  | lo, (b, e) :: rest => lo ≤ b ∧ b ≤ e ∧ WfFrom (e + 2) rest

theorem covers_nil (n : Nat) : Covers [] n ↔ False := by simp [Covers]

theorem covers_cons (b e : Nat) (rest : Ranges) (n : Nat) :
    Covers ((b, e) :: rest) n ↔ (b ≤ n ∧ n ≤ e) ∨ Covers rest n := by
  simp [Covers]

theorem WfFrom_mono : ∀ (rs : Ranges) (lo lo' : Nat), lo' ≤ lo → WfFrom lo rs → WfFrom lo' rs
  | [], _, _, _, _ => trivial
  | (b, e) :: rest, lo, lo', h, hw => by
    obtain ⟨h1, h2, h3⟩ := hw
    exact ⟨by omega, h2, h3⟩

theorem WfFrom_lb : ∀ (rs : Ranges) (lo n : Nat), WfFrom lo rs → Covers rs n → lo ≤ n
  | [], _, _, _, hc => by simp [Covers] at hc
  | (b, e) :: rest, lo, n, hw, hc => by
    obtain ⟨h1, h2, h3⟩ := hw
    rw [covers_cons] at hc
    rcases hc with hc | hc
    · omega
    · have := WfFrom_lb rest (e + 2) n h3 hc
      omega

theorem checkIfReceived_iff : ∀ (rs : Ranges) (lo n : Nat), WfFrom lo rs →
    (checkIfReceived rs n = true ↔ Covers rs n)
  | [], _, _, _ => by simp [checkIfReceived, Covers]
  | (b, e) :: rest, lo, n, hw => by
    obtain ⟨h1, h2, h3⟩ := hw
    simp only [covers_cons]
    unfold checkIfReceived
    by_cases hb : n < b
    · rw [if_pos hb]
      constructor
      · intro h; cases h
      · intro h
        rcases h with h | h
        · omega
        · have := WfFrom_lb rest (e + 2) n h3 h
          omega
    · rw [if_neg hb]
      by_cases he : n ≤ e
      · rw [if_pos he]
        constructor
        · intro _; exact Or.inl ⟨by omega, he⟩
        · intro _; rfl
      · rw [if_neg he, checkIfReceived_iff rest (e + 2) n h3]
        constructor
        · intro h; exact Or.inr h
        · intro h
          rcases h with h | h
          · omega
          · exact h

theorem updateLoop_spec (cap used : Nat) : ∀ (rs : Ranges) (lo n : Nat) (r : Ranges),
    WfFrom lo rs → lo ≤ n → updateLoop cap used rs n = some r →
    WfFrom lo r ∧ (∀ k, Covers r k ↔ (Covers rs k ∨ k = n)) ∧ r.length ≤ rs.length + 1 ∧
      (r.length = rs.length + 1 → used ≠ cap - 1)
  | [], lo, n, r, _, hlo, h => by
    unfold updateLoop at h
    split at h
    · cases h
    · rename_i hu
      cases h
      refine ⟨⟨hlo, Nat.le_refl _, trivial⟩, ?_, by simp, fun _ => hu⟩
      intro k
      simp only [covers_cons, covers_nil]
      constructor
      · intro h; rcases h with h | h
        · exact Or.inr (by omega)
        · exact h.elim
      · intro h; rcases h with h | h
        · exact h.elim
        · exact Or.inl (by omega)
  | (b, e) :: rest, lo, n, r, hw, hlo, h => by
    obtain ⟨h1, h2, h3⟩ := hw
    unfold updateLoop at h
    split at h
    · -- already inside
      rename_i hin
      cases h
      refine ⟨⟨h1, h2, h3⟩, ?_, by simp, by simp⟩
      intro k
      constructor
      · intro h; exact Or.inl h
      · intro h; rcases h with h | h
        · exact h
        · rw [covers_cons]; exact Or.inl (by omega)
    · rename_i hin
      split at h
      · rename_i hlt
        split at h
        · -- extend begin
          rename_i hadj
          cases h
          refine ⟨⟨hlo, by omega, h3⟩, ?_, by simp, by simp⟩
          intro k
          simp only [covers_cons]
          by_cases hP : Covers rest k <;> simp only [hP, or_true, true_or, or_false, false_or] <;> omega
        · rename_i hadj
          split at h
          · cases h
          · rename_i hu
            cases h
            refine ⟨⟨hlo, Nat.le_refl _, by omega, h2, h3⟩, ?_, by simp, fun _ => hu⟩
            intro k
            simp only [covers_cons]
            by_cases hP : Covers rest k <;> simp only [hP, or_true, true_or, or_false, false_or] <;> omega
      · rename_i hlt
        split at h
        · -- n = e + 1
          rename_i hn
          split at h
          · rename_i b2 e2 rest2
            obtain ⟨g1, g2, g3⟩ := h3
            split at h
            · rename_i hm
              cases h
              refine ⟨⟨h1, by omega, g3⟩, ?_, by simp, by simp⟩
              intro k
              simp only [covers_cons]
              by_cases hP : Covers rest2 k <;> simp only [hP, or_true, true_or, or_false, false_or] <;> omega
            · rename_i hm
              cases h
              refine ⟨⟨h1, by omega, by omega, g2, g3⟩, ?_, by simp, by simp⟩
              intro k
              simp only [covers_cons]
              by_cases hP : Covers rest2 k <;> simp only [hP, or_true, true_or, or_false, false_or] <;> omega
          · cases h
            refine ⟨⟨h1, by omega, trivial⟩, ?_, by simp, by simp⟩
            intro k
            simp only [covers_cons, covers_nil, or_false]
            omega
        · rename_i hn
          split at h
          · cases h
          · rename_i r' hr
            cases h
            obtain ⟨w1, w2, w3, w4⟩ := updateLoop_spec cap used rest (e + 2) n r' h3 (by omega) hr
            refine ⟨⟨h1, h2, w1⟩, ?_, by simp; omega, ?_⟩
            · intro k
              simp only [covers_cons, w2 k]
              by_cases hP : Covers rest k <;> simp only [hP, or_true, true_or, or_false, false_or] <;> omega
            · intro hl
              apply w4
              simp at hl
              omega


theorem checkAllBlocksIn_iff (rs : Ranges) (t : Nat) (hw : WfFrom 0 rs) (hne : rs ≠ [])
    (hlt : ∀ k, Covers rs k → k < t) :
    (checkAllBlocksIn rs t = true ↔ ∀ k, k < t → Covers rs k) := by
  match rs, hw, hne, hlt with
  | [], _, hne, _ => exact (hne rfl).elim
  | (b, e) :: rest, hw, _, hlt =>
    obtain ⟨_, h2, h3⟩ := hw
    have hbt : b < t := hlt b ((covers_cons b e rest b).mpr (Or.inl ⟨Nat.le_refl _, h2⟩))
    unfold checkAllBlocksIn allInLoop
    by_cases hb : 0 < b
    · rw [if_pos hb]
      constructor
      · intro h; cases h
      · intro h
        have h0 := h 0 (by omega)
        have := WfFrom_lb ((b, e) :: rest) b 0 ⟨Nat.le_refl _, h2, h3⟩ h0
        omega
    · rw [if_neg hb]
      have hb0 : b = 0 := by omega
      subst hb0
      have hblk : (if 0 < e then e else 0) = e := by
        by_cases he : 0 < e
        · rw [if_pos he]
        · rw [if_neg he]; omega
      rw [hblk]
      match rest, h3, hlt with
      | [], _, _ =>
        simp only [allInLoop, covers_cons, covers_nil, or_false]
        constructor
        · intro h k hk
          have : ¬ (e + 1 < t) := by simpa using h
          omega
        · intro h
          have : ¬ (e + 1 < t) := by
            intro hh
            have := h (e + 1) hh
            omega
          simpa using this
      | (b2, e2) :: rest2, h3, hlt =>
        obtain ⟨g1, g2, g3⟩ := h3
        have hb2 : b2 < t := hlt b2 (by simp only [covers_cons]; exact Or.inr (Or.inl ⟨Nat.le_refl _, g2⟩))
        have : e < b2 := by omega
        simp only [allInLoop, this, if_true]
        constructor
        · intro h; cases h
        · intro h
          have hc := h (e + 1) (by omega)
          simp only [covers_cons] at hc
          rcases hc with hc | hc | hc
          · omega
          · omega
          · have := WfFrom_lb rest2 (e2 + 2) (e + 1) g3 hc
            omega

/-- the receiver's bookkeeping: ranges + the list of block numbers accepted so far -/
def insertStep (cap : Nat) (st : Ranges × List Nat) (n : Nat) : Ranges × List Nat :=
  match updateReceived cap st.1 n with
  | (true, r) => (r, n :: st.2)
  | (false, r) => (r, st.2)

theorem updateReceived_spec (cap : Nat) (rs : Ranges) (n : Nat) (hw : WfFrom 0 rs) (hl : rs.length ≤ cap - 1) :
    ((updateReceived cap rs n).1 = false → (updateReceived cap rs n).2 = rs) ∧
    ((updateReceived cap rs n).1 = true →
      WfFrom 0 (updateReceived cap rs n).2 ∧ (updateReceived cap rs n).2.length ≤ cap - 1 ∧
      ∀ k, Covers (updateReceived cap rs n).2 k ↔ (Covers rs k ∨ k = n)) := by
  unfold updateReceived
  cases hu : updateLoop cap rs.length rs n with
  | none => simp
  | some r =>
    obtain ⟨w1, w2, w3, w4⟩ := updateLoop_spec cap rs.length rs 0 n r hw (Nat.zero_le _) hu
    simp only [true_and, Bool.true_eq_false, false_implies, forall_const]
    refine ⟨w1, ?_, w2⟩
    by_cases hg : r.length = rs.length + 1
    · have := w4 hg
      omega
    · omega

theorem insertAll_inv (cap : Nat) (ns : List Nat) : ∀ (st : Ranges × List Nat),
    WfFrom 0 st.1 → st.1.length ≤ cap - 1 → (∀ k, Covers st.1 k ↔ k ∈ st.2) →
    WfFrom 0 (ns.foldl (insertStep cap) st).1 ∧ (ns.foldl (insertStep cap) st).1.length ≤ cap - 1 ∧
    (∀ k, Covers (ns.foldl (insertStep cap) st).1 k ↔ k ∈ (ns.foldl (insertStep cap) st).2) := by
  induction ns with
  | nil => intro st a b c; exact ⟨a, b, c⟩
  | cons n ns ih =>
    intro st a b c
    rw [List.foldl_cons]
    apply ih
    all_goals
      have hs := updateReceived_spec cap st.1 n a b
      unfold insertStep
      cases hu : updateReceived cap st.1 n with
      | mk ok r =>
        rw [hu] at hs
        cases ok with
        | false =>
          have := hs.1 rfl
          simp only at this
          subst this
          first | exact a | exact b | exact c
        | true =>
          obtain ⟨x, y, z⟩ := hs.2 rfl
          first
            | exact x
            | exact y
            | (intro k; simp only [List.mem_cons]; rw [z k, c k]; constructor <;> intro h <;> rcases h with h | h <;> first | exact Or.inl h | exact Or.inr h)
theorem toNat_ofNat_lt (n : Nat) (h : n < 256) : (UInt8.ofNat n).toNat = n := by
  rw [UInt8.toNat_ofNat']; exact Nat.mod_eq_of_lt h

theorem block_roundtrip (num m szx : Nat) (hn : num < 2 ^ 20) (hm : m ≤ 1) (hs : szx ≤ 6) :
    getBlockB (encodeBlock num m szx) =
      some { num := num, m := m, szx := szx, aszx := szx, chunk := 2 ^ (szx + 4) } := by
  have hv : blockValue num m szx = num * 16 + m * 8 + szx := by
    unfold blockValue; omega
  unfold encodeBlock encodeVar
  rw [hv]
  generalize hvv : num * 16 + m * 8 + szx = v
  have hlt : v < 2 ^ 24 := by omega
  have hmod : v % 2 ^ 32 = v := Nat.mod_eq_of_lt (by omega)
  rw [hmod]
  unfold varLen
  by_cases h0 : v = 0
  · have : num = 0 ∧ m = 0 ∧ szx = 0 := by omega
    obtain ⟨rfl, rfl, rfl⟩ := this
    simp [h0, encodeVarAux, getBlockB, optBlockNum]
  · have hszx : v % 8 = szx := by omega
    by_cases h1 : v < 256
    · simp only [h0, h1, if_true, if_false, encodeVarAux]
      simp [getBlockB, optBlockNum, endByte, h1]
      refine ⟨by omega, by omega, by omega, by omega, by omega, by rw [hszx]⟩
    · by_cases h2 : v < 65536
      · simp only [h0, h1, h2, if_true, if_false, encodeVarAux]
        simp [getBlockB, optBlockNum, endByte, decodeVar]
        refine ⟨by omega, by omega, by omega, by omega, by omega, by rw [hszx]⟩
      · have h3 : v < 16777216 := by omega
        simp only [h0, h1, h2, h3, if_true, if_false, encodeVarAux]
        simp [getBlockB, optBlockNum, endByte, decodeVar]
        refine ⟨by omega, by omega, by omega, by omega, by omega, by rw [hszx]⟩


theorem memcpyAt_length (buf : Bytes) (off : Nat) (data : Bytes) (h : off + data.length ≤ buf.length) :
    (memcpyAt buf off data).length = buf.length := by
  simp [memcpyAt]; omega

theorem memcpyAt_get (buf : Bytes) (off : Nat) (data : Bytes) (h : off + data.length ≤ buf.length) (i : Nat) :
    (memcpyAt buf off data)[i]? = if off ≤ i ∧ i < off + data.length then data[i - off]? else buf[i]? := by
  unfold memcpyAt
  rw [List.append_assoc, List.getElem?_append]
  have hl : (buf.take off).length = off := by simp; omega
  rw [hl]
  by_cases h1 : i < off
  · have : ¬ (off ≤ i ∧ i < off + data.length) := by omega
    rw [if_pos h1, if_neg this, List.getElem?_take, if_pos h1]
  · rw [if_neg h1, List.getElem?_append]
    by_cases h2 : i - off < data.length
    · have : off ≤ i ∧ i < off + data.length := by omega
      rw [if_pos h2, if_pos this]
    · have : ¬ (off ≤ i ∧ i < off + data.length) := by omega
      rw [if_neg h2, if_neg this, List.getElem?_drop]
      congr 1
      omega

theorem resizeBin_length (junk : UInt8) (buf : Bytes) (n : Nat) : (resizeBin junk buf n).length = n := by
  simp [resizeBin]; omega

theorem resizeBin_get (junk : UInt8) (buf : Bytes) (n i : Nat) (h : i < buf.length) (hn : i < n) :
    (resizeBin junk buf n)[i]? = buf[i]? := by
  unfold resizeBin
  rw [List.getElem?_append]
  have : i < (buf.take n).length := by simp; omega
  rw [if_pos this, List.getElem?_take, if_pos hn]

theorem slice_get (body : Bytes) (szx k i : Nat) (h1 : k * chunkSize szx ≤ i)
    (h2 : i < k * chunkSize szx + (slice body szx k).length) :
    (slice body szx k)[i - k * chunkSize szx]? = body[i]? := by
  have hl := slice_length body szx k
  unfold slice at *
  rw [List.getElem?_take, List.getElem?_drop]
  have : i - k * chunkSize szx < chunkSize szx := by omega
  rw [if_pos this]
  congr 1
  omega

/-- what the receiver does with an accepted block: `total_len = max(total_len, offset + length)`, then
`coap_block_build_body(body_data, length, data, offset, total_len)` (see `srcvStep`) -/
def storeStep (junk : UInt8) (body : Bytes) (szx : Nat) (st : Nat × Option Bytes) (k : Nat) : Nat × Option Bytes :=
  let data := slice body szx k
  let off := k * chunkSize szx
  let tl := if st.1 < off + data.length then off + data.length else st.1
  (tl, buildBody junk st.2 data off tl)

/-- end offset of block `k` -/
def blockEnd (body : Bytes) (szx k : Nat) : Nat := k * chunkSize szx + (slice body szx k).length

def StoreInv (body : Bytes) (szx : Nat) (K : List Nat) (st : Nat × Option Bytes) : Prop :=
  st.1 ≤ body.length ∧ (∀ k, k ∈ K → blockEnd body szx k ≤ st.1) ∧
  match st.2 with
  | none => K = []
  | some b => b.length = st.1 ∧
      ∀ k, k ∈ K → ∀ i, k * chunkSize szx ≤ i → i < blockEnd body szx k → b[i]? = body[i]?

theorem blockEnd_le (body : Bytes) (szx k : Nat) (hk : k < nBlocks body.length szx) :
    k * chunkSize szx < blockEnd body szx k ∧ blockEnd body szx k ≤ body.length := by
  have h := (lt_nBlocks_iff body.length szx k).mp hk
  have hl := slice_length body szx k
  have hc := chunk_pos szx
  unfold blockEnd
  omega

theorem storeStep_inv (junk : UInt8) (body : Bytes) (szx : Nat) (K : List Nat) (st : Nat × Option Bytes) (k : Nat)
    (hk : k < nBlocks body.length szx) (hinv : StoreInv body szx K st) :
    StoreInv body szx (k :: K) (storeStep junk body szx st k) := by
  obtain ⟨tl, buf⟩ := st
  obtain ⟨i1, i2, i3⟩ := hinv
  obtain ⟨e1, e2⟩ := blockEnd_le body szx k hk
  unfold storeStep
  simp only
  have hbe : k * chunkSize szx + (slice body szx k).length = blockEnd body szx k := rfl
  rw [hbe]
  generalize htl : (if tl < blockEnd body szx k then blockEnd body szx k else tl) = tl'
  have htl1 : tl ≤ tl' ∧ blockEnd body szx k ≤ tl' ∧ tl' ≤ body.length ∧ (tl' = tl ∨ tl' = blockEnd body szx k) := by
    simp only at i1
    by_cases hh : tl < blockEnd body szx k
    · rw [if_pos hh] at htl; omega
    · rw [if_neg hh] at htl; omega
  obtain ⟨t1, t2, t3, t4⟩ := htl1
  -- the buffer the memcpy goes into, with its two properties
  have key : ∃ b0 : Bytes, buildBody junk buf (slice body szx k) (k * chunkSize szx) tl' =
      some (memcpyAt b0 (k * chunkSize szx) (slice body szx k)) ∧ b0.length = tl' ∧
      (∀ b, buf = some b → ∀ i, i < b.length → b0[i]? = b[i]?) := by
    unfold buildBody
    cases buf with
    | none =>
      have hne : tl' ≠ 0 := by omega
      simp only [hne, ne_eq, not_false_eq_true, if_true]
      refine ⟨List.replicate tl' junk, ?_, by simp, by intro b hb; cases hb⟩
      have : k * chunkSize szx + (slice body szx k).length ≤ tl' ∧ (List.replicate tl' junk).length ≥ tl' := by
        simp; omega
      rw [if_pos this]
    | some b =>
      simp only at i3
      obtain ⟨l1, _⟩ := i3
      simp only
      by_cases hc : k * chunkSize szx + (slice body szx k).length ≤ tl' ∧ b.length ≥ tl'
      · rw [if_pos hc]
        exact ⟨b, rfl, by omega, by intro b' hb' i hi; cases hb'; rfl⟩
      · rw [if_neg hc]
        have hgrow : tl' = blockEnd body szx k := by omega
        have hnl : ¬ (k * chunkSize szx + (slice body szx k).length < b.length) := by omega
        simp only [if_neg hnl]
        refine ⟨resizeBin junk b (k * chunkSize szx + (slice body szx k).length), rfl, ?_, ?_⟩
        · rw [resizeBin_length]; omega
        · intro b' hb' i hi
          cases hb'
          exact resizeBin_get junk b _ i hi (by omega)
  obtain ⟨b0, hb0, hlen0, hold⟩ := key
  rw [hb0]
  have hfit : k * chunkSize szx + (slice body szx k).length ≤ b0.length := by omega
  refine ⟨t3, ?_, ?_⟩
  · intro k' hk'
    simp only [List.mem_cons] at hk'
    rcases hk' with rfl | hk'
    · exact t2
    · have := i2 k' hk'
      simp only at this
      omega
  · simp only
    refine ⟨by rw [memcpyAt_length _ _ _ hfit]; exact hlen0, ?_⟩
    intro k' hk' i hi1 hi2
    rw [memcpyAt_get _ _ _ hfit]
    by_cases hw : k * chunkSize szx ≤ i ∧ i < k * chunkSize szx + (slice body szx k).length
    · rw [if_pos hw]
      exact slice_get body szx k i hw.1 hw.2
    · rw [if_neg hw]
      simp only [List.mem_cons] at hk'
      rcases hk' with rfl | hk'
      · exact (hw ⟨hi1, hi2⟩).elim
      · cases buf with
        | none => simp only at i3; subst i3; cases hk'
        | some b =>
          simp only at i3
          obtain ⟨l1, l2⟩ := i3
          have hle := i2 k' hk'
          simp only at hle
          rw [hold b rfl i (by omega)]
          exact l2 k' hk' i hi1 hi2


theorem store_fold_inv (junk : UInt8) (body : Bytes) (szx : Nat) : ∀ (ks K : List Nat) (st : Nat × Option Bytes),
    StoreInv body szx K st → (∀ k, k ∈ ks → k < nBlocks body.length szx) →
    StoreInv body szx (ks.reverse ++ K) (ks.foldl (storeStep junk body szx) st)
  | [], K, st, h, _ => by simpa using h
  | k :: ks, K, st, h, hks => by
    rw [List.foldl_cons]
    have h1 := storeStep_inv junk body szx K st k (hks k (by simp)) h
    have h2 := store_fold_inv junk body szx ks (k :: K) _ h1 (fun k' hk' => hks k' (by simp [hk']))
    simpa using h2

theorem store_all (junk : UInt8) (body : Bytes) (szx : Nat) (ks : List Nat) (t0 : Nat)
    (hne : body ≠ []) (ht0 : t0 ≤ body.length)
    (hks : ∀ k, k ∈ ks → k < nBlocks body.length szx)
    (hall : ∀ j, j < nBlocks body.length szx → j ∈ ks) :
    ks.foldl (storeStep junk body szx) (t0, none) = (body.length, some body) := by
  have hinv0 : StoreInv body szx [] (t0, none) := by
    refine ⟨ht0, ?_, rfl⟩
    intro k hk; cases hk
  have hinv := store_fold_inv junk body szx ks [] (t0, none) hinv0 hks
  generalize ks.foldl (storeStep junk body szx) (t0, none) = st at hinv
  obtain ⟨tl, buf⟩ := st
  obtain ⟨i1, i2, i3⟩ := hinv
  simp only at i1 i2 i3
  have hlen : 0 < body.length := by
    cases body with
    | nil => exact (hne rfl).elim
    | cons a t => simp
  have hc := chunk_pos szx
  have hmem : ∀ j, j < nBlocks body.length szx → j ∈ ks.reverse ++ [] := by
    intro j hj; simpa using hall j hj
  have hnb : 0 < nBlocks body.length szx := (lt_nBlocks_iff body.length szx 0).mpr (by omega)
  -- the last block ends at the end of the body
  have hlast : blockEnd body szx (nBlocks body.length szx - 1) = body.length := by
    have hk : nBlocks body.length szx - 1 < nBlocks body.length szx := by omega
    have h1 := (lt_nBlocks_iff body.length szx _).mp hk
    have h2 := nBlocks_mul_ge body.length szx
    have h3 := slice_length body szx (nBlocks body.length szx - 1)
    have h4 : nBlocks body.length szx * chunkSize szx =
        (nBlocks body.length szx - 1) * chunkSize szx + chunkSize szx := by
      have : nBlocks body.length szx = (nBlocks body.length szx - 1) + 1 := by omega
      rw [this, Nat.succ_mul]; simp
    unfold blockEnd
    omega
  have htl : tl = body.length := by
    have := i2 _ (hmem _ (by omega : nBlocks body.length szx - 1 < nBlocks body.length szx))
    omega
  cases buf with
  | none =>
    simp only at i3
    have := hmem 0 hnb
    rw [i3] at this
    cases this
  | some b =>
    simp only at i3
    obtain ⟨l1, l2⟩ := i3
    subst htl
    congr 2
    apply List.ext_getElem?
    intro i
    by_cases hi : i < body.length
    · have hdm := Nat.div_add_mod i (chunkSize szx)
      have hml := Nat.mod_lt i hc
      rw [Nat.mul_comm] at hdm
      have hk : i / chunkSize szx < nBlocks body.length szx :=
        (lt_nBlocks_iff body.length szx _).mpr (by omega)
      have hsl := slice_length body szx (i / chunkSize szx)
      apply l2 _ (hmem _ hk) i (by omega)
      unfold blockEnd
      omega
    · have h1 : b[i]? = none := by rw [List.getElem?_eq_none_iff]; omega
      have h2 : body[i]? = none := by rw [List.getElem?_eq_none_iff]; omega
      rw [h1, h2]


theorem echoReserve_eq : echoReserve = 43 := by decide

theorem adlAvail_eq (m t l : Nat) : adlAvail m t l = (m : Int) - t - 43 - ((8 - l : Nat) : Int) := by
  unfold adlAvail
  rw [echoReserve_eq]
  split <;> omega

theorem adlBlkSize_chunk (a : Int) (h16 : 16 ≤ a) (hlt : a < 2 ^ 63) : ((2 ^ (adlBlkSize a + 4) : Nat) : Int) ≤ a := by
  unfold adlBlkSize
  have hneg : ¬ a < 0 := by omega
  simp only [hneg, if_false]
  obtain ⟨f5, f1, f2⟩ := flsll_chunk a.toNat (by omega) (by omega)
  generalize hf : flsll a.toNat = f at *
  have hb : (((f : Int) - 5) % 256).toNat = f - 5 ∨ 256 ≤ f := by omega
  have hf64 : f ≤ 64 := by
    apply Nat.le_of_not_lt
    intro hgt
    have : 2 ^ 64 ≤ 2 ^ (f - 5 + 4) := Nat.pow_le_pow_right (by decide) (by omega)
    omega
  have hb' : (((f : Int) - 5) % 256).toNat = f - 5 := by omega
  rw [hb']
  have hmono : ∀ x, x ≤ f - 5 → (2 ^ (x + 4) : Nat) ≤ a.toNat := by
    intro x hx
    have : 2 ^ (x + 4) ≤ 2 ^ (f - 5 + 4) := Nat.pow_le_pow_right (by decide) (by omega)
    omega
  split
  · have := hmono 6 (by omega); omega
  · have := hmono (f - 5) (Nat.le_refl _); omega

theorem blkOptLen_bound (d v w : Nat) : optEncodeSize d (varLen v) ≤ optEncodeSize d (varLen w) + 4 := by
  have h : ∀ x, varLen x ≤ 4 := by
    intro x; unfold varLen; split <;> (try split) <;> (try split) <;> (try split) <;> omega
  have hv := h v
  have hw := h w
  unfold optEncodeSize
  have e1 : ¬ (varLen v ≥ 13) := by omega
  have e2 : ¬ (varLen w ≥ 13) := by omega
  simp only [e1, e2, if_false]
  omega


/-- slack the first-stage arithmetic leaves for every follow-up block: 8-byte token, Block option value growing
to 3 bytes, payload marker, a full chunk -/
def followUpBound (r : AdlRes) (tokLen : Nat) : Nat := r.hdr + (8 - tokLen) + 3 + 1 + 2 ^ (r.blkSize + 4)

def AdlOk (maxSize tokLen : Nat) (r : AdlRes) : Prop :=
  (r.payload ≠ 0 → r.used ≤ maxSize) ∧ r.used = r.hdr + (if r.payload = 0 then 0 else 1 + r.payload) ∧
  (r.lgXmit = true → followUpBound r tokLen ≤ maxSize ∧ r.payload ≤ 2 ^ (r.blkSize + 4))

theorem adlFinish_spec (maxSize tokOpts rem : Nat) (lg : Bool) (b : Nat) (bv : Option Nat) (r : AdlRes)
    (h : adlFinish maxSize tokOpts rem lg b bv = some r) :
    r.lgXmit = lg ∧ r.blkSize = b ∧ r.payload = rem ∧ r.hdr = tokOpts ∧
    r.used = tokOpts + (if rem = 0 then 0 else 1 + rem) ∧ (rem ≠ 0 → r.used ≤ maxSize) := by
  unfold adlFinish at h
  by_cases hc : rem ≠ 0 ∧ tokOpts + 1 + rem > maxSize
  · rw [if_pos hc] at h; cases h
  · rw [if_neg hc] at h
    cases h
    refine ⟨rfl, rfl, rfl, rfl, rfl, ?_⟩
    intro hr
    simp only [hr, if_false]
    omega

theorem adlLgTail_fits (maxSize tokLen base d b2 length extra : Nat) (sb : BlockB) (r : AdlRes)
    (hms : maxSize < 2 ^ 62) (hsb : sb.chunk ≤ 2 ^ (b2 + 4))
    (h : adlLgTail maxSize tokLen base d b2 length extra sb = some r) : AdlOk maxSize tokLen r := by
  unfold adlLgTail at h
  dsimp only at h
  generalize hA : adlAvail maxSize (base + optEncodeSize d (varLen (blockValue sb.num sb.m sb.aszx)) + extra) tokLen = A at h
  rw [adlAvail_eq] at hA
  by_cases hred : A < ↑(2 ^ (b2 + 4) : Nat)
  · rw [if_pos hred] at h
    by_cases h16 : A < 16
    · rw [if_pos h16] at h; cases h
    · rw [if_neg h16] at h
      have hch := adlBlkSize_chunk A (by omega) (by omega)
      generalize adlBlkSize A = b3 at *
      have hb := blkOptLen_bound d (blockValue (sb.num * 2 ^ (b2 - b3) % 2 ^ 32) sb.m b3) (blockValue sb.num sb.m sb.aszx)
      obtain ⟨s1, s2, s3, s4, s5, s6⟩ := adlFinish_spec _ _ _ _ _ _ _ h
      unfold AdlOk followUpBound
      rw [s1, s2, s3, s4, s5]
      refine ⟨by intro hh; have := s6 hh; omega, rfl, fun _ => ⟨by omega, Nat.min_le_left _ _⟩⟩
  · rw [if_neg hred] at h
    obtain ⟨s1, s2, s3, s4, s5, s6⟩ := adlFinish_spec _ _ _ _ _ _ _ h
    unfold AdlOk followUpBound
    rw [s1, s2, s3, s4, s5]
    refine ⟨by intro hh; have := s6 hh; omega, rfl, fun _ => ⟨by omega, ?_⟩⟩
    have := Nat.min_le_left sb.chunk length
    omega

theorem adlNoBlock_fits (maxSize tokLen base d b2 length : Nat) (blk : Option Nat) (r : AdlRes)
    (h : adlNoBlock maxSize base d b2 length blk = some r) : AdlOk maxSize tokLen r := by
  unfold adlNoBlock at h
  obtain ⟨s1, s2, s3, s4, s5, s6⟩ := adlFinish_spec _ _ _ _ _ _ _ h
  unfold AdlOk
  rw [s1, s3, s4, s5]
  refine ⟨by intro hh; have := s6 hh; omega, rfl, by intro hh; cases hh⟩

theorem setup_chunk_le (maxSize tokOpts num blk total : Nat) (b : BlockB)
    (h : setupBlockB maxSize tokOpts num blk total = some b) : b.chunk ≤ 2 ^ (blk + 4) := by
  unfold setupBlockB at h
  dsimp only at h
  generalize (maxSize + 2 ^ 64 - tokOpts % 2 ^ 64) % 2 ^ 64 = avail at h
  by_cases hc : avail < 2 ^ (blk + 4) ∧ (total + 2 ^ 64 - num * 2 ^ (blk + 4) % 2 ^ 32) % 2 ^ 64 ≥ avail
  · rw [if_pos hc] at h
    by_cases h16 : avail < 16
    · rw [if_pos h16] at h; cases h
    · rw [if_neg h16] at h
      cases h
      dsimp only
      by_cases hlt : avail < 2 ^ 64
      · obtain ⟨_, f1, _⟩ := flsll_chunk avail (by omega) hlt
        omega
      · -- flsll reads the low 64 bits only; then 2^(blk+4) > avail ≥ 2^64 still bounds the chunk
        have hm : avail % 2 ^ 64 < 2 ^ 64 := Nat.mod_lt _ (by decide)
        have : flsll avail = flsll (avail % 2 ^ 64) := by unfold flsll; rw [Nat.mod_mod]
        rw [this]
        by_cases h16' : 16 ≤ avail % 2 ^ 64
        · obtain ⟨_, f1, _⟩ := flsll_chunk (avail % 2 ^ 64) h16' hm
          have := Nat.mod_le avail (2 ^ 64)
          omega
        · have hf : flsll (avail % 2 ^ 64) - 5 = 0 := by
            by_cases hz : avail % 2 ^ 64 = 0
            · rw [hz]; decide
            · obtain ⟨_, g1, g2⟩ := flsll_spec (avail % 2 ^ 64) (by omega) hm
              apply Nat.sub_eq_zero_of_le
              apply Nat.le_of_not_lt
              intro hgt
              have : 2 ^ 5 ≤ 2 ^ (flsll (avail % 2 ^ 64) - 1) := Nat.pow_le_pow_right (by decide) (by omega)
              omega
          rw [hf]
          omega
  · rw [if_neg hc] at h
    cases h
    exact Nat.le_refl _

theorem adlBody_fits (maxSize tokLen base d tokOpts0 b2 length extra : Nat) (blk : Option Nat) (r : AdlRes)
    (hms : maxSize < 2 ^ 62)
    (h : adlBody maxSize tokLen base d tokOpts0 b2 length extra blk = some r) : AdlOk maxSize tokLen r := by
  unfold adlBody at h
  dsimp only at h
  by_cases h1 : adlAvail maxSize tokOpts0 tokLen < 16 ∧ ((length : Int) > adlAvail maxSize tokOpts0 tokLen ∨ blk.isSome)
  · rw [if_pos h1] at h; cases h
  · rw [if_neg h1] at h
    by_cases h2 : (blk.isSome ∧ length > 2 ^ (b2 + 4)) ∨ (length : Int) > adlAvail maxSize tokOpts0 tokLen
    · rw [if_pos h2] at h
      cases hsb : setupBlockB maxSize (tokOpts0 + extra) 0 b2 length with
      | none => rw [hsb] at h; cases h
      | some sb =>
        rw [hsb] at h
        exact adlLgTail_fits _ _ _ _ _ _ _ sb r hms (setup_chunk_le _ _ _ _ _ _ hsb) h
    · rw [if_neg h2] at h
      exact adlNoBlock_fits _ _ _ _ _ _ _ r h

theorem adl_fits (maxSize tokLen optBytes lastOpt : Nat) (blk : Option Nat) (maxBlk length rtagLen : Nat) (r : AdlRes)
    (hms : maxSize < 2 ^ 62)
    (h : addDataLarge maxSize tokLen optBytes lastOpt blk maxBlk length rtagLen = some r) : AdlOk maxSize tokLen r :=
  adlBody_fits _ _ _ _ _ _ _ _ _ r hms h



end Coap.Block
