import CoapVerif.Lemmas.StreamLoop
/- C05: the specification is an online parser (`frames_append`), its leftover is a proper frame prefix,
   and therefore one call / a whole sequence of calls of the reader equals the specification on the
   concatenation of the chunks (`call_eq_frames`, `feed_eq_frames`). -/
namespace Coap
open Coap.M Coap.M.Stream Coap.Spec.Stream

/-- the result of the specification does not depend on the fuel once it exceeds the length -/
theorem frames_fuel (m : Nat) : ∀ (f1 f2 : Nat) (bs : Bytes), bs.length < f1 → bs.length < f2 →
    frames m f1 bs = frames m f2 bs := by
  intro f1
  induction f1 with
  | zero => intro f2 bs h; omega
  | succ f1 ih =>
    intro f2 bs h1 h2
    obtain ⟨f2, rfl⟩ : ∃ k, f2 = k + 1 := ⟨f2 - 1, by omega⟩
    rcases bs with _ | ⟨b0, r⟩
    · simp [frames]
    · by_cases hH : (b0 :: r).length < hdrLen b0
      · rw [frames_short m f1 b0 r hH, frames_short m f2 b0 r hH]
      · rw [frames_full m f1 b0 r hH, frames_full m f2 b0 r hH]
        have h2f := fixedLen_ge b0
        have hd : ((b0 :: r).drop (fixedLen b0 + declared ((b0 :: r).take (hdrLen b0)))).length < (b0 :: r).length := by
          rw [List.length_drop]; simp only [List.length_cons]; omega
        rw [ih f2 _ (by omega) (by omega)]

theorem deliver_append (x : Option Msg) (a b : List Msg) : deliver x (a ++ b) = deliver x a ++ b := by
  cases x <;> rfl

/-- how the specification continues after a prefix: S is an online parser -/
def after (m : Nat) (r : List Msg × End) (b : Bytes) : List Msg × End :=
  match r.2 with
  | .open l => (r.1 ++ (framesOf m (l ++ b)).1, (framesOf m (l ++ b)).2)
  | .closed => (r.1, .closed)

theorem frames_append (m : Nat) : ∀ (fa : Nat) (a b : Bytes), a.length < fa →
    framesOf m (a ++ b) = after m (frames m fa a) b := by
  intro fa
  induction fa with
  | zero => intro a b h; omega
  | succ f ih =>
    intro a b h
    rcases a with _ | ⟨b0, r⟩
    · simp [frames, after]
    · by_cases hH : (b0 :: r).length < hdrLen b0
      · rw [frames_short m f b0 r hH]; simp [after]
      · rw [frames_full m f b0 r hH]
        have hge : hdrLen b0 ≤ (b0 :: r).length := by omega
        have htk : ((b0 :: r) ++ b).take (hdrLen b0) = (b0 :: r).take (hdrLen b0) :=
          List.take_append_of_le_length hge
        have hnot : ¬ ((b0 :: r) ++ b).length < hdrLen b0 := by rw [List.length_append]; omega
        have hL : framesOf m ((b0 :: r) ++ b) = frames m (((b0 :: r) ++ b).length + 1) ((b0 :: r) ++ b) := rfl
        have h2f := fixedLen_ge b0
        generalize hd : declared ((b0 :: r).take (hdrLen b0)) = d
        by_cases hbig : m < d
        · rw [if_pos hbig, hL, frames_full' m _ ((b0 :: r) ++ b) b0 (r ++ b) rfl hnot, htk, hd, if_pos hbig]; rfl
        · rw [if_neg hbig]
          by_cases hsh : (b0 :: r).length < fixedLen b0 + d
          · rw [if_pos hsh]; simp [after]
          · rw [if_neg hsh, hL, frames_full' m _ ((b0 :: r) ++ b) b0 (r ++ b) rfl hnot, htk, hd, if_neg hbig]
            have hle : fixedLen b0 + d ≤ (b0 :: r).length := by omega
            have hno : ¬ ((b0 :: r) ++ b).length < fixedLen b0 + d := by rw [List.length_append]; omega
            rw [if_neg hno, List.take_append_of_le_length hle, List.drop_append_of_le_length hle]
            have hdl : ((b0 :: r).drop (fixedLen b0 + d)).length < f := by
              rw [List.length_drop]; simp only [List.length_cons] at h ⊢; omega
            have hih := ih ((b0 :: r).drop (fixedLen b0 + d)) b hdl
            have hfu : frames m ((b0 :: r) ++ b).length ((b0 :: r).drop (fixedLen b0 + d) ++ b) =
                framesOf m ((b0 :: r).drop (fixedLen b0 + d) ++ b) := by
              apply frames_fuel
              · rw [List.length_append, List.length_append, List.length_drop]; simp only [List.length_cons]; omega
              · exact Nat.lt_succ_self _
            rw [hfu, hih]
            generalize frames m f ((b0 :: r).drop (fixedLen b0 + d)) = rr
            obtain ⟨ms, e⟩ := rr
            cases e with
            | «open» l => simp only [after]; rw [deliver_append]
            | closed => simp only [after]

/-- what the specification leaves pending is a proper prefix of a frame -/
theorem frames_leftover_pend (m : Nat) : ∀ (f : Nat) (a : Bytes) (ms : List Msg) (l : Bytes),
    a.length < f → frames m f a = (ms, .open l) → Pend m l := by
  intro f
  induction f with
  | zero => intro a ms l h; omega
  | succ f ih =>
    intro a ms l h he
    rcases a with _ | ⟨b0, r⟩
    · simp [frames] at he; rw [he.2]; trivial
    · by_cases hH : (b0 :: r).length < hdrLen b0
      · rw [frames_short m f b0 r hH] at he
        simp only [Prod.mk.injEq, End.open.injEq] at he
        rw [← he.2]; exact Or.inl hH
      · rw [frames_full m f b0 r hH] at he
        have h2f := fixedLen_ge b0
        by_cases hbig : m < declared ((b0 :: r).take (hdrLen b0))
        · rw [if_pos hbig] at he; simp at he
        · rw [if_neg hbig] at he
          by_cases hsh : (b0 :: r).length < fixedLen b0 + declared ((b0 :: r).take (hdrLen b0))
          · rw [if_pos hsh] at he
            simp only [Prod.mk.injEq, End.open.injEq] at he
            rw [← he.2]; exact Or.inr ⟨by omega, hsh⟩
          · rw [if_neg hsh] at he
            simp only [Prod.mk.injEq] at he
            have hdl : ((b0 :: r).drop (fixedLen b0 + declared ((b0 :: r).take (hdrLen b0)))).length < f := by
              rw [List.length_drop]; simp only [List.length_cons] at h ⊢; omega
            exact ih _ _ l hdl (Prod.ext rfl he.2)

theorem framesOf_pend (m : Nat) (pend : Bytes) (hp : Pend m pend) : framesOf m pend = ([], .open pend) :=
  frames_pend m pend _ hp (Nat.lt_succ_self _)

theorem conv_after_closed (m : Nat) (ms : List Msg) (b : Bytes) : conv (after m (ms, .closed) b) = (ms, .closed) := rfl

/-- one `coap_read_session` call (with its retry loop) = the specification on pending ++ available bytes -/
theorem call_eq_frames (m : Nat) (hc : Cap m) : ∀ (fuel : Nat) (avail pend : Bytes), avail.length < fuel → Pend m pend →
    call m fuel (stateOf pend) avail = conv (framesOf m (pend ++ avail)) := by
  intro fuel
  induction fuel with
  | zero => intro avail pend h; omega
  | succ f ih =>
    intro avail pend h hp
    have hloop := loop_eq_frames m hc (avail.take rxBuf).length (avail.take rxBuf) pend
      ((avail.take rxBuf).length + 1) ((pend ++ avail.take rxBuf).length + 1) (Nat.le_refl _) (Nat.lt_succ_self _)
      (Nat.lt_succ_self _) hp
    have hsplit : pend ++ avail = (pend ++ avail.take rxBuf) ++ avail.drop rxBuf := by
      rw [List.append_assoc, List.take_append_drop]
    have happ := frames_append m ((pend ++ avail.take rxBuf).length + 1) (pend ++ avail.take rxBuf) (avail.drop rxBuf)
      (Nat.lt_succ_self _)
    rw [← hsplit] at happ
    have hpend := frames_leftover_pend m ((pend ++ avail.take rxBuf).length + 1) (pend ++ avail.take rxBuf)
    simp only [call]
    rw [hloop, happ]
    generalize frames m ((pend ++ avail.take rxBuf).length + 1) (pend ++ avail.take rxBuf) = rr at hpend ⊢
    obtain ⟨ms, e⟩ := rr
    cases e with
    | closed => rfl
    | «open» l =>
      have hpl : Pend m l := hpend ms l (Nat.lt_succ_self _) rfl
      simp only [conv, outOf, after]
      by_cases hfull : (avail.take rxBuf).length = rxBuf
      · rw [if_pos hfull]
        have hdl : (avail.drop rxBuf).length < f := by
          rw [List.length_take] at hfull
          rw [List.length_drop]; simp only [rxBuf] at hfull ⊢; omega
        rw [ih (avail.drop rxBuf) l hdl hpl]
        rfl
      · rw [if_neg hfull]
        have hlt : avail.length < rxBuf := by
          rw [List.length_take] at hfull; omega
        have hd0 : avail.drop rxBuf = [] := List.drop_eq_nil_of_le (by omega)
        rw [hd0, List.append_nil, framesOf_pend m l hpl]
        simp

/-- the whole sequence of calls = the specification on pending ++ all chunks -/
theorem feed_eq_frames (m : Nat) (hc : Cap m) : ∀ (chunks : List Bytes) (pend : Bytes), Pend m pend →
    feed m (stateOf pend) chunks = conv (framesOf m (pend ++ chunks.flatten)) := by
  intro chunks
  induction chunks with
  | nil =>
    intro pend hp
    simp only [feed, List.flatten_nil, List.append_nil]
    rw [framesOf_pend m pend hp]; rfl
  | cons c cs ih =>
    intro pend hp
    have hcall := call_eq_frames m hc (c.length + 1) c pend (Nat.lt_succ_self _) hp
    have happ := frames_append m ((pend ++ c).length + 1) (pend ++ c) cs.flatten (Nat.lt_succ_self _)
    have hpend := frames_leftover_pend m ((pend ++ c).length + 1) (pend ++ c)
    simp only [feed, List.flatten_cons]
    rw [hcall, ← List.append_assoc, happ]
    have hfo : framesOf m (pend ++ c) = frames m ((pend ++ c).length + 1) (pend ++ c) := rfl
    rw [hfo]
    generalize frames m ((pend ++ c).length + 1) (pend ++ c) = rr at hpend ⊢
    obtain ⟨ms, e⟩ := rr
    cases e with
    | closed => rfl
    | «open» l =>
      have hpl : Pend m l := hpend ms l (Nat.lt_succ_self _) rfl
      simp only [conv, outOf, after]
      rw [ih l hpl]
      rfl
end Coap
