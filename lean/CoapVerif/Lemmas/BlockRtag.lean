import CoapVerif.Lemmas.BlockRecv
import CoapVerif.Model.BlockRtag
/- Helper lemmas for the Request-Tag keyed lg_srcv list (Model/BlockRtag.lean).  Core Lean only. -/
set_option linter.unusedSimpArgs false
set_option linter.unusedVariables false
namespace Coap.Block

/-- the key an lg_srcv is filed under: Request-Tag presence AND value -/
def LgSrcv.key (lg : LgSrcv) : Option Bytes := if lg.rtagSet then some lg.rtag else none

theorem rtagMatch_iff (o : Option Bytes) (lg : LgSrcv) : rtagMatch o lg = true ↔ lg.key = o := by
  unfold rtagMatch LgSrcv.key
  cases o with
  | none =>
    cases lg.rtagSet with
    | true => simp
    | false => simp
  | some t =>
    cases lg.rtagSet with
    | true => simp
    | false => simp

theorem srcvFind_some : ∀ (lgs : List LgSrcv) (o : Option Bytes) (i : Nat), srcvFind lgs o = some i →
    ∃ lg, lgs[i]? = some lg ∧ lg.key = o ∧ ∀ j lg', j < i → lgs[j]? = some lg' → lg'.key ≠ o
  | [], _, _, h => by simp [srcvFind] at h
  | lg :: rest, o, i, h => by
    unfold srcvFind at h
    by_cases hm : rtagMatch o lg = true
    · rw [if_pos hm] at h
      cases h
      exact ⟨lg, rfl, (rtagMatch_iff o lg).mp hm, fun j lg' hj _ => by omega⟩
    · rw [if_neg hm] at h
      cases hr : srcvFind rest o with
      | none => rw [hr] at h; cases h
      | some k =>
        rw [hr] at h
        simp only [Option.map_some] at h
        cases h
        obtain ⟨lg2, h1, h2, h3⟩ := srcvFind_some rest o k hr
        refine ⟨lg2, by simpa using h1, h2, ?_⟩
        intro j lg' hj hget
        cases j with
        | zero =>
          simp at hget
          rw [← hget]
          exact fun hk => hm ((rtagMatch_iff o lg).mpr hk)
        | succ j => exact h3 j lg' (by omega) (by simpa using hget)

theorem srcvFind_none : ∀ (lgs : List LgSrcv) (o : Option Bytes), srcvFind lgs o = none →
    ∀ lg, lg ∈ lgs → lg.key ≠ o
  | [], _, _, lg, hl => by cases hl
  | x :: rest, o, h, lg, hl => by
    unfold srcvFind at h
    by_cases hm : rtagMatch o x = true
    · rw [if_pos hm] at h; cases h
    · rw [if_neg hm] at h
      have hr : srcvFind rest o = none := by
        cases hr : srcvFind rest o with
        | none => rfl
        | some k => rw [hr] at h; cases h
      rw [List.mem_cons] at hl
      rcases hl with hl | hl
      · subst hl
        exact fun hk => hm ((rtagMatch_iff o lg).mpr hk)
      · exact srcvFind_none rest o hr lg hl

/-- a request only ever touches the lg_srcv filed under its own key: every element with another key survives the step
unchanged, and whatever is new or changed carries exactly the request's key -/
theorem srcvMultiStep_keys (cap : Nat) (junk : UInt8) (maxBlk : Nat) (lgs : List LgSrcv) (o : Option Bytes)
    (num m szx : Nat) (payload : Bytes) (size1 : Option Nat) :
    (∀ lg, lg ∈ lgs → lg.key ≠ o → lg ∈ (srcvMultiStep cap junk maxBlk lgs o num m szx payload size1).1) ∧
    (∀ lg, lg ∈ (srcvMultiStep cap junk maxBlk lgs o num m szx payload size1).1 → lg ∈ lgs ∨ lg.key = o) := by
  unfold srcvMultiStep
  cases hf : srcvFind lgs o with
  | none =>
    simp only
    cases hs : srcvStep cap junk maxBlk none num m szx payload size1 with
    | mk st' out =>
      cases st' with
      | none => exact ⟨fun lg h _ => h, fun lg h => Or.inl h⟩
      | some s' =>
        simp only
        refine ⟨fun lg h _ => List.mem_cons_of_mem _ h, ?_⟩
        intro lg h
        rw [List.mem_cons] at h
        rcases h with h | h
        · right
          subst h
          unfold LgSrcv.key
          cases o <;> simp
        · exact Or.inl h
  | some i =>
    simp only
    obtain ⟨lg0, h1, h2, _⟩ := srcvFind_some lgs o i hf
    rw [h1]
    simp only
    cases hs : srcvStep cap junk maxBlk (some lg0.s) num m szx payload size1 with
    | mk st' out =>
      cases st' with
      | none =>
        simp only
        constructor
        · intro lg hl hk
          obtain ⟨j, hj⟩ := List.mem_iff_getElem?.mp hl
          refine List.mem_eraseIdx_iff_getElem?.mpr ⟨j, ?_, hj⟩
          intro hji
          subst hji
          rw [h1] at hj
          cases hj
          exact hk h2
        · intro lg hl
          obtain ⟨j, _, hj⟩ := List.mem_eraseIdx_iff_getElem?.mp hl
          exact Or.inl (List.mem_iff_getElem?.mpr ⟨j, hj⟩)
      | some s' =>
        simp only
        constructor
        · intro lg hl hk
          obtain ⟨j, hj⟩ := List.mem_iff_getElem?.mp hl
          have hne : i ≠ j := by
            intro hji
            subst hji
            rw [h1] at hj
            cases hj
            exact hk h2
          exact List.mem_iff_getElem?.mpr ⟨j, by rw [List.getElem?_set_ne hne]; exact hj⟩
        · intro lg hl
          obtain ⟨j, hj⟩ := List.mem_iff_getElem?.mp hl
          rw [List.getElem?_set] at hj
          by_cases hij : i = j
          · rw [if_pos hij] at hj
            split at hj
            · cases hj
              right
              show (if lg0.rtagSet then some lg0.rtag else none) = o
              exact h2
            · cases hj
          · rw [if_neg hij] at hj
            exact Or.inl (List.mem_iff_getElem?.mpr ⟨j, hj⟩)

end Coap.Block
