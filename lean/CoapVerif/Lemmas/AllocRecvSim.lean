import CoapVerif.Lemmas.AllocRecv
/-
C18 — simulation of the allocation skeleton of the receive path (Model/AllocRecv.lean) by C05's byte-level reader
(Model/StreamReader.lean) when MEMORY IS AVAILABLE (the oracle is exhausted: every request is granted) and no coap_dispatch
disconnects the session: same exits, same reader state, and the messages handed to coap_dispatch (ghost `msgs`, one `dsp`
record each) are the messages the reader delivers, in order.
-/
namespace Coap.AllocRecv
open Coap Coap.M Coap.AllocOracle Coap.Sessions

/-- what C05's reader keeps of `session->partial_pdu` -/
def toPdu (p : RPdu) : Stream.Pdu := ⟨p.hdrSize, p.usedSize, p.buf⟩

/-- C05's reader state of a session -/
def toSt (s : RSess) : Stream.St := ⟨s.rh, s.partialRead, s.ppdu.map toPdu⟩

/-- memory is available from here on and no dispatch disconnects -/
def Avail (w : RW) : Prop := w.h.orc = [] ∧ w.dcs = []

/-- the result `r` of the skeleton corresponds to the result `q` of the reader, started from world `w` -/
def Sim (w : RW) (r : Exit × RSess × RW) (q : List Msg × Stream.Out) : Prop :=
  Avail r.2.2 ∧ r.2.2.msgs = w.msgs ++ q.1 ∧ r.2.2.dsp.length = w.dsp.length + q.1.length ∧
  match q.2 with
  | .cont st => r.1 = .ok ∧ r.2.1.up = true ∧ toSt r.2.1 = st
  | .closed => r.1 = .fail
  | .oob => r.1 = .oob

theorem alloc_avail {h : Heap} (ho : h.orc = []) : ∃ h1, h.alloc = (some h.next, h1) ∧ h1.orc = [] := by
  unfold Heap.alloc; rw [ho]; exact ⟨_, rfl, rfl⟩

theorem free_orc (h : Heap) (i : Nat) : (h.free i).orc = h.orc := rfl

theorem pduDelete_orc (p : OPdu) (h : Heap) : (pduDelete p h).orc = h.orc := rfl

/-- with memory available the receive PDU is obtained exactly when the size limit allows it (C05's `pduAlloc`) -/
theorem pduInit_avail_big (maxRcv : Nat) {h : Heap} (ho : h.orc = []) (hm : maxRcv > 8388864 - 6) :
    (AllocOracle.pduInit maxRcv h).1 = none ∧ (AllocOracle.pduInit maxRcv h).2.orc = [] := by
  unfold AllocOracle.pduInit
  obtain ⟨h1, e1, o1⟩ := alloc_avail ho
  rw [e1]; simp only
  rw [if_pos hm]; exact ⟨rfl, o1⟩

theorem pduInit_avail (maxRcv : Nat) {h : Heap} (ho : h.orc = []) (hm : ¬ maxRcv > 8388864 - 6) :
    ∃ p0 h1, AllocOracle.pduInit maxRcv h = (some p0, h1) ∧ h1.orc = [] ∧ p0.allocSize = min maxRcv 256 ∧ p0.maxSize = maxRcv := by
  unfold AllocOracle.pduInit
  obtain ⟨h1, e1, o1⟩ := alloc_avail ho
  rw [e1]; simp only
  rw [if_neg hm]
  obtain ⟨h2, e2, o2⟩ := alloc_avail o1
  rw [e2]
  exact ⟨_, _, rfl, o2, rfl, rfl⟩

theorem growTo_avail {p0 : OPdu} {h1 : Heap} (size : Nat) (ho : h1.orc = []) :
    (growTo p0 size h1).2.2.orc = [] ∧
    ((growTo p0 size h1).1 = 0 ↔ (p0.allocSize < size ∧ p0.maxSize ≠ 0 ∧ size > p0.maxSize)) := by
  unfold growTo
  by_cases hs : p0.allocSize < size
  · rw [if_pos hs]
    unfold resize
    rw [if_pos hs]
    by_cases hx : p0.maxSize ≠ 0 ∧ size > p0.maxSize
    · rw [if_pos hx]; exact ⟨ho, by simp [hs, hx]⟩
    · rw [if_neg hx]
      unfold Heap.realloc
      rw [ho]
      simp only [Oracle.head, if_true]
      refine ⟨rfl, ?_⟩
      constructor
      · intro h; cases h
      · intro h; exact absurd h.2 hx
  · rw [if_neg hs]
    exact ⟨ho, by simp [hs]⟩

theorem dispatchDelete_avail (parsed : Option Msg) (p : OPdu) (s : RSess) (w : RW) (ha : Avail w) :
    Avail (dispatchDelete parsed p s w).2 ∧ (dispatchDelete parsed p s w).1 = s ∧
    (dispatchDelete parsed p s w).2.msgs = w.msgs ++ Spec.Stream.deliver parsed [] ∧
    (dispatchDelete parsed p s w).2.dsp.length = w.dsp.length + (Spec.Stream.deliver parsed []).length := by
  obtain ⟨ho, hd⟩ := ha
  unfold dispatchDelete
  cases parsed with
  | none => simp [Avail, Spec.Stream.deliver, pduDelete_orc, ho, hd]
  | some m => simp [Avail, Spec.Stream.deliver, pduDelete_orc, ho, hd, dcHead]

theorem pduAlloc_false_iff (maxRcv size : Nat) : Stream.pduAlloc maxRcv size = false ↔
    (maxRcv > 8388864 - 6 ∨ (min maxRcv 256 < size ∧ maxRcv ≠ 0 ∧ size > maxRcv)) := by
  unfold Stream.pduAlloc Stream.maxRx Stream.maxHdr
  by_cases hb : maxRcv > 8388864 - 6
  · simp [hb]
  · by_cases h1 : min maxRcv 256 < size <;> by_cases h2 : (maxRcv ≠ 0 ∧ size > maxRcv) <;> simp [hb, h1, h2]

/-- the header is complete, memory available: the outcome is decided by the size limits alone (C05's `pduAlloc`) -/
theorem headerDone_sim (maxRcv : Nat) (s : RSess) (w : RW) (rh : Bytes) (hdrSize hl : Nat) (ha : Avail w) :
    match parseSizeTcp rh with
    | R.ok size =>
      if size > Stream.maxRx then headerDone maxRcv s w rh hdrSize hl = (.fail, s, w)
      else if Stream.pduAlloc maxRcv size = false then
        (headerDone maxRcv s w rh hdrSize hl).1 = .fail ∧ Avail (headerDone maxRcv s w rh hdrSize hl).2.2 ∧
        (headerDone maxRcv s w rh hdrSize hl).2.2.msgs = w.msgs ∧ (headerDone maxRcv s w rh hdrSize hl).2.2.dsp = w.dsp
      else if size = 0 then
        ∃ p h, Avail { w with h := h } ∧ headerDone maxRcv s w rh hdrSize hl =
          (.ok, dispatchDelete (Stream.parsePdu hdrSize (rh.take hl)).toOption p
                  { s with rh := [], partialRead := 0, ppdu := none } { w with h := h })
      else
        ∃ p h, Avail { w with h := h } ∧ headerDone maxRcv s w rh hdrSize hl =
          (.ok, { s with rh := [], partialRead := hl, ppdu := some ⟨p, hdrSize, size, rh.take hl⟩ }, { w with h := h })
    | _ => headerDone maxRcv s w rh hdrSize hl = (.oob, s, w) := by
  obtain ⟨ho, hd⟩ := ha
  unfold headerDone
  cases hsz : parseSizeTcp rh with
  | rej => rfl
  | oob => rfl
  | ok size =>
    simp only
    by_cases hm : size > Stream.maxRx
    · rw [if_pos hm, if_pos hm]
    · rw [if_neg hm, if_neg hm]
      by_cases hb : maxRcv > 8388864 - 6
      · have hP := pduInit_avail_big maxRcv ho hb
        have hal : Stream.pduAlloc maxRcv size = false := (pduAlloc_false_iff maxRcv size).mpr (Or.inl hb)
        rw [if_pos hal]
        rcases hq : AllocOracle.pduInit maxRcv w.h with ⟨_ | p0, h1⟩
        · rw [hq] at hP
          exact ⟨rfl, ⟨hP.2, hd⟩, rfl, rfl⟩
        · rw [hq] at hP; cases hP.1
      · obtain ⟨p0, h1, hq, o1, hal, hmx⟩ := pduInit_avail maxRcv ho hb
        rw [hq]
        simp only
        have hG := growTo_avail (p0 := p0) size o1
        rw [hal, hmx] at hG
        by_cases hg : min maxRcv 256 < size ∧ maxRcv ≠ 0 ∧ size > maxRcv
        · have hz := hG.2.mpr hg
          have hal : Stream.pduAlloc maxRcv size = false := (pduAlloc_false_iff maxRcv size).mpr (Or.inr hg)
          rw [if_pos hz, if_pos hal]
          exact ⟨rfl, ⟨hG.1, hd⟩, rfl, rfl⟩
        · have hz : ¬ (growTo p0 size h1).1 = 0 := fun h => hg (hG.2.mp h)
          have hna : ¬ Stream.pduAlloc maxRcv size = false := fun h =>
            ((pduAlloc_false_iff maxRcv size).mp h).elim hb hg
          rw [if_neg hz, if_neg hna]
          by_cases h0 : size = 0
          · rw [if_pos h0, if_pos h0]
            exact ⟨_, _, ⟨hG.1, hd⟩, rfl⟩
          · rw [if_neg h0, if_neg h0]
            exact ⟨_, _, ⟨hG.1, hd⟩, rfl⟩

theorem deliver_cons (o : Option Msg) (rest : List Msg) :
    Spec.Stream.deliver o rest = Spec.Stream.deliver o [] ++ rest := by
  cases o <;> rfl

/-- Sim is transitive along the loop: a dispatch followed by the rest -/
theorem Sim.after {w w1 : RW} {r : Exit × RSess × RW} {q : List Msg × Stream.Out} (pre : List Msg)
    (hm : w1.msgs = w.msgs ++ pre) (hd : w1.dsp.length = w.dsp.length + pre.length) (h : Sim w1 r q) :
    Sim w r (pre ++ q.1, q.2) := by
  obtain ⟨h1, h2, h3, h4⟩ := h
  refine ⟨h1, ?_, ?_, h4⟩
  · rw [h2, hm, List.append_assoc]
  · rw [h3, hd, List.length_append]; omega

theorem Sim.same {w : RW} {r : Exit × RSess × RW} {q : List Msg × Stream.Out} (h : Sim w r q) : Sim w r (q.1, q.2) := h

/-- the loop over the bytes of one read: the skeleton with memory available IS C05's reader -/
theorem loop_sim (maxRcv : Nat) : ∀ (fuel : Nat) (s : RSess) (w : RW) (bs : Bytes), Avail w → s.up = true →
    Sim w (loop maxRcv fuel s w bs) (Stream.loop maxRcv fuel (toSt s) bs) := by
  intro fuel
  induction fuel with
  | zero => intro s w bs ha hu; exact ⟨ha, by simp [Stream.loop, loop], by simp [Stream.loop, loop], by simp [Stream.loop, loop, hu]⟩
  | succ fuel ih =>
    intro s w bs ha hu
    unfold loop Stream.loop
    by_cases hb : bs.length = 0
    · rw [if_pos hb, if_pos hb]; exact ⟨ha, by simp, by simp, by simp [hu]⟩
    · rw [if_neg hb, if_neg hb]
      cases hp : s.ppdu with
      | some p =>
        simp only [toSt, hp, Option.map_some, toPdu]
        by_cases hn : min (p.usedSize + p.hdrSize - s.partialRead) bs.length = p.usedSize + p.hdrSize - s.partialRead
        · rw [if_pos hn, if_pos hn]
          have hD := dispatchDelete_avail
            (Stream.parsePdu p.hdrSize (List.take s.partialRead p.buf ++ List.take (min (p.usedSize + p.hdrSize - s.partialRead) bs.length) bs)).toOption
            p.pdu { s with rh := [], partialRead := 0, ppdu := none } w ha
          have hI := ih _ _ (bs.drop (min (p.usedSize + p.hdrSize - s.partialRead) bs.length)) hD.1
            (show (dispatchDelete _ p.pdu { s with rh := [], partialRead := 0, ppdu := none } w).1.up = true by rw [hD.2.1]; exact hu)
          rw [hD.2.1] at hI
          have := Sim.after _ hD.2.2.1 hD.2.2.2 hI
          unfold Stream.deliverR
          rw [deliver_cons, hD.2.1]
          exact this
        · rw [if_neg hn, if_neg hn]
          have hI := ih { s with partialRead := s.partialRead + min (p.usedSize + p.hdrSize - s.partialRead) bs.length,
                                 ppdu := some { p with buf := List.take s.partialRead p.buf ++ List.take (min (p.usedSize + p.hdrSize - s.partialRead) bs.length) bs } }
            w (bs.drop (min (p.usedSize + p.hdrSize - s.partialRead) bs.length)) ha hu
          exact hI
      | none =>
        simp only [toSt, hp, Option.map_none]
        by_cases hpr : s.partialRead > 0
        · rw [if_pos hpr, if_pos hpr]
          cases hr : M.rd s.rh 0 with
          | rej => exact ⟨ha, by simp, by simp, by simp⟩
          | oob => exact ⟨ha, by simp, by simp, by simp⟩
          | ok b0 =>
            simp only
            have hte : (if b0 % 16 = 13 then 1 else if b0 % 16 = 14 then 2 else 0) = tokExtOf b0 := rfl
            rw [hte]
            by_cases hcap : s.partialRead + min (headerSize .tcp b0 + tokExtOf b0 - s.partialRead) bs.length > Stream.rhCap
            · rw [if_pos hcap, if_pos hcap]; exact ⟨ha, by simp, by simp, by simp⟩
            · rw [if_neg hcap, if_neg hcap]
              by_cases hn : min (headerSize .tcp b0 + tokExtOf b0 - s.partialRead) bs.length = headerSize .tcp b0 + tokExtOf b0 - s.partialRead
              · rw [if_pos hn, if_pos hn]
                have hH := headerDone_sim maxRcv s w
                  (List.take s.partialRead s.rh ++ List.take (min (headerSize .tcp b0 + tokExtOf b0 - s.partialRead) bs.length) bs)
                  (headerSize .tcp b0) (headerSize .tcp b0 + tokExtOf b0) ha
                generalize hrh : List.take s.partialRead s.rh ++ List.take (min (headerSize .tcp b0 + tokExtOf b0 - s.partialRead) bs.length) bs = rh at hH ⊢
                generalize hbd : bs.drop (min (headerSize .tcp b0 + tokExtOf b0 - s.partialRead) bs.length) = bd
                cases hsz : parseSizeTcp rh with
                | rej => rw [hsz] at hH; simp only at hH ⊢; rw [hH]; exact ⟨ha, by simp, by simp, by simp⟩
                | oob => rw [hsz] at hH; simp only at hH ⊢; rw [hH]; exact ⟨ha, by simp, by simp, by simp⟩
                | ok size =>
                  rw [hsz] at hH; simp only at hH ⊢
                  by_cases hm : size > Stream.maxRx
                  · rw [if_pos hm] at hH ⊢; rw [hH]; exact ⟨ha, by simp, by simp, by simp⟩
                  · rw [if_neg hm] at hH ⊢
                    by_cases hal : Stream.pduAlloc maxRcv size = false
                    · rw [if_pos hal] at hH ⊢
                      obtain ⟨e1, e2, e3, e4⟩ := hH
                      have hne : ¬ (headerDone maxRcv s w rh (headerSize .tcp b0) (headerSize .tcp b0 + tokExtOf b0)).1 = Exit.ok := by
                        rw [e1]; intro h; cases h
                      rw [if_neg hne]
                      exact ⟨e2, by simp [e3], by simp [e4], by simp [e1]⟩
                    · rw [if_neg hal] at hH ⊢
                      by_cases h0 : size = 0
                      · rw [if_pos h0] at hH ⊢
                        obtain ⟨p, h', hav, e⟩ := hH
                        rw [e]; simp only [if_true]
                        have hD := dispatchDelete_avail
                          (Stream.parsePdu (headerSize .tcp b0) (rh.take (headerSize .tcp b0 + tokExtOf b0))).toOption
                          p { s with rh := [], partialRead := 0, ppdu := none } { w with h := h' } hav
                        have hI := ih _ _ bd hD.1
                          (show (dispatchDelete _ p { s with rh := [], partialRead := 0, ppdu := none } { w with h := h' }).1.up = true by rw [hD.2.1]; exact hu)
                        rw [hD.2.1] at hI
                        have := Sim.after (w := w) _ hD.2.2.1 hD.2.2.2 hI
                        unfold Stream.deliverR
                        rw [deliver_cons, hD.2.1]
                        exact this
                      · rw [if_neg h0] at hH ⊢
                        obtain ⟨p, h', hav, e⟩ := hH
                        rw [e]; simp only [if_true]
                        have hI := ih { s with rh := [], partialRead := headerSize .tcp b0 + tokExtOf b0,
                                               ppdu := some ⟨p, headerSize .tcp b0, size, rh.take (headerSize .tcp b0 + tokExtOf b0)⟩ }
                          { w with h := h' } bd hav hu
                        exact hI
              · rw [if_neg hn, if_neg hn]
                have hI := ih { s with rh := List.take s.partialRead s.rh ++ List.take (min (headerSize .tcp b0 + tokExtOf b0 - s.partialRead) bs.length) bs,
                                       partialRead := s.partialRead + min (headerSize .tcp b0 + tokExtOf b0 - s.partialRead) bs.length }
                  w (bs.drop (min (headerSize .tcp b0 + tokExtOf b0 - s.partialRead) bs.length)) ha hu
                simp only [toSt, hp, Option.map_none] at hI
                exact hI
        · rw [if_neg hpr, if_neg hpr]
          cases bs with
          | nil => exact ⟨ha, by simp, by simp, by simp [hu, toSt, hp]⟩
          | cons b r =>
            simp only
            by_cases hh : headerSize .tcp b.toNat = 0
            · rw [if_pos hh, if_pos hh]; exact ⟨ha, by simp, by simp, by simp⟩
            · rw [if_neg hh, if_neg hh]
              have hI := ih { s with rh := [b], partialRead := 1 } w r ha hu
              simp only [toSt, hp, Option.map_none] at hI
              exact hI

/-- correspondence for a whole coap_read_session call: a closed reader is a DISCONNECTED session -/
def CSim (w : RW) (r : Exit × RSess × RW) (q : List Msg × Stream.Out) : Prop :=
  Avail r.2.2 ∧ r.2.2.msgs = w.msgs ++ q.1 ∧ r.2.2.dsp.length = w.dsp.length + q.1.length ∧
  match q.2 with
  | .cont st => r.1 = .ok ∧ r.2.1.up = true ∧ toSt r.2.1 = st
  | .closed => r.1 = .fail ∧ r.2.1.up = false
  | .oob => r.1 = .oob

theorem call_sim (maxRcv : Nat) : ∀ (fuel : Nat) (s : RSess) (w : RW) (avail : Bytes), Avail w → s.up = true →
    CSim w (call maxRcv fuel s w avail) (Stream.call maxRcv fuel (toSt s) avail) := by
  intro fuel
  induction fuel with
  | zero => intro s w avail ha hu; exact ⟨ha, by simp [Stream.call, call], by simp [Stream.call, call], by simp [Stream.call, call, hu]⟩
  | succ fuel ih =>
    intro s w avail ha hu
    unfold call Stream.call
    have hL := loop_sim maxRcv ((List.take Stream.rxBuf avail).length + 1) s w (List.take Stream.rxBuf avail) ha hu
    simp only
    generalize loop maxRcv ((List.take Stream.rxBuf avail).length + 1) s w (List.take Stream.rxBuf avail) = r at hL ⊢
    generalize Stream.loop maxRcv ((List.take Stream.rxBuf avail).length + 1) (toSt s) (List.take Stream.rxBuf avail) = q at hL ⊢
    obtain ⟨ms, o⟩ := q
    obtain ⟨h1, h2, h3, h4⟩ := hL
    cases o with
    | cont st =>
      simp only at h4 ⊢
      obtain ⟨e1, e2, e3⟩ := h4
      rw [e1]; simp only
      by_cases hg : (List.take Stream.rxBuf avail).length = Stream.rxBuf
      · rw [if_pos hg, if_pos hg]
        have hI := ih r.2.1 r.2.2 (avail.drop Stream.rxBuf) h1 e2
        rw [e3] at hI
        obtain ⟨i1, i2, i3, i4⟩ := hI
        refine ⟨i1, ?_, ?_, i4⟩
        · rw [i2, h2, List.append_assoc]
        · rw [i3, h3, List.length_append]; simp only at *; omega
      · rw [if_neg hg, if_neg hg]
        exact ⟨h1, h2, h3, e1, e2, e3⟩
    | closed =>
      simp only at h4 ⊢
      rw [h4]; simp only
      have hd : Avail (disconnected r.2.1 r.2.2).2 ∧ (disconnected r.2.1 r.2.2).2.msgs = r.2.2.msgs ∧
          (disconnected r.2.1 r.2.2).2.dsp = r.2.2.dsp := by
        unfold disconnected Avail
        cases r.2.1.ppdu <;> exact ⟨⟨by simp only [pduDelete_orc]; exact h1.1, h1.2⟩, rfl, rfl⟩
      exact ⟨hd.1, by rw [hd.2.1]; exact h2, by rw [hd.2.2]; exact h3, rfl, rfl⟩
    | oob =>
      simp only at h4 ⊢
      rw [h4]; simp only
      exact ⟨h1, h2, h3, h4⟩

/-- read events on a session that is closed are skipped -/
theorem recvRun_down (maxRcv : Nat) : ∀ (chunks : List Bytes) (s : RSess) (w : RW), s.up = false →
    (recvRun maxRcv { sess := some s, w := w } (chunks.map .chunk)).2 = { sess := some s, w := w } := by
  intro chunks
  induction chunks with
  | nil => intro s w _; rfl
  | cons c cs ih =>
    intro s w hu
    simp only [List.map_cons, recvRun, recvStep, hu, Bool.false_eq_true, if_false]
    exact ih s w hu

/-- a whole session fed chunk by chunk with memory available: what reaches coap_dispatch is what C05's reader delivers -/
theorem run_sim (maxRcv : Nat) : ∀ (chunks : List Bytes) (s : RSess) (w : RW), Avail w → s.up = true →
    (Stream.feed maxRcv (toSt s) chunks).2 ≠ .oob →
    Avail (recvRun maxRcv { sess := some s, w := w } (chunks.map .chunk)).2.w ∧
    (recvRun maxRcv { sess := some s, w := w } (chunks.map .chunk)).2.w.msgs = w.msgs ++ (Stream.feed maxRcv (toSt s) chunks).1 ∧
    (recvRun maxRcv { sess := some s, w := w } (chunks.map .chunk)).2.w.dsp.length =
      w.dsp.length + (Stream.feed maxRcv (toSt s) chunks).1.length ∧
    ∃ s', (recvRun maxRcv { sess := some s, w := w } (chunks.map .chunk)).2.sess = some s' ∧
      match (Stream.feed maxRcv (toSt s) chunks).2 with
      | .cont st => s'.up = true ∧ toSt s' = st
      | _ => s'.up = false := by
  intro chunks
  induction chunks with
  | nil => intro s w ha hu _; exact ⟨ha, by simp [recvRun, Stream.feed], by simp [recvRun, Stream.feed], s, rfl, hu, rfl⟩
  | cons c cs ih =>
    intro s w ha hu hno
    have hC := call_sim maxRcv (c.length + 1) s w c ha hu
    simp only [List.map_cons, recvRun, recvStep, hu, if_true]
    unfold Stream.feed at hno ⊢
    generalize call maxRcv (c.length + 1) s w c = r at hC ⊢
    generalize Stream.call maxRcv (c.length + 1) (toSt s) c = q at hC hno ⊢
    obtain ⟨ms, o⟩ := q
    obtain ⟨h1, h2, h3, h4⟩ := hC
    cases o with
    | cont st =>
      simp only at h4 hno ⊢
      obtain ⟨e1, e2, e3⟩ := h4
      have hI := ih r.2.1 r.2.2 h1 e2 (by rw [e3]; exact hno)
      rw [e3] at hI
      obtain ⟨i1, i2, i3, s', i4, i5⟩ := hI
      refine ⟨i1, ?_, ?_, s', i4, i5⟩
      · rw [i2, h2, List.append_assoc]
      · rw [i3, h3, List.length_append]; simp only at *; omega
    | closed =>
      simp only at h4 hno ⊢
      rw [recvRun_down maxRcv cs r.2.1 r.2.2 h4.2]
      exact ⟨h1, h2, h3, r.2.1, rfl, h4.2⟩
    | oob => exact absurd rfl hno

end Coap.AllocRecv
