import CoapVerif.Lemmas.SendQueue
/-
Helper definitions and lemmas for C06, part 2: the simulation of the code model M (`Coap.Msg`: delta-time send
queue + base time, `coap_send`/`coap_wait_ack`, `coap_retransmit`, the due loop of `coap_io_prepare_io`, the ACK / RST
branches of `coap_dispatch`) by the timer specification S (`Coap.Timer`, Spec/Timer.lean), for any number of messages
and sessions sharing the queue.  Core Lean only.

  absP      the abstraction of the delta list to S's pending list (deadline, who, T, retransmissions, limit)
  Rel       the simulation relation  M state ~ S state  (S's ghost label `t0` is erased, S's clock may lag behind)
  Inv       the invariant of M inside the scope of C06 (sessions established, delay queues empty, NSTART respected,
            every queued node Confirmable, its stored timeout positive and inside the no-wrap range)
  tr        the S events an M event stands for
-/
namespace Coap.Sim
open Coap Coap.SQ Coap.Msg Coap.Timer

/-! ### the abstraction of the delta list to S's pending list -/

/-- the pending message a queue node stands for (`t0` is a ghost of S: erased) -/
def toP (mx : Nat → Nat) (n : Node) : PMsg :=
  { sess := n.sess, mid := n.mid, T := n.timeout, cnt := n.cnt, maxRtx := mx n.sess, t0 := 0 }

/-- absolute deadlines (running sums of the relative times) paired with the pending message -/
def absP (mx : Nat → Nat) (b : Nat) : List Node → List (Nat × PMsg)
  | [] => []
  | n :: r => (b + n.t, toP mx n) :: absP mx (b + n.t) r

/-- erase S's ghost label -/
def er (p : Nat × PMsg) : Nat × PMsg := (p.1, { p.2 with t0 := 0 })

@[simp] theorem toP_t (mx : Nat → Nat) (n : Node) (x : Nat) : toP mx { n with t := x } = toP mx n := rfl
@[simp] theorem er_fst (p : Nat × PMsg) : (er p).1 = p.1 := rfl
@[simp] theorem er_toP (mx : Nat → Nat) (d : Nat) (n : Node) : er (d, toP mx n) = (d, toP mx n) := rfl

theorem absP_length (mx : Nat → Nat) (b : Nat) (l : List Node) : (absP mx b l).length = l.length := by
  induction l generalizing b with
  | nil => rfl
  | cons n r ih => simp [absP, ih]

theorem absP_insertAfter (mx : Nat → Nat) (b : Nat) (l : List Node) (n : Node) :
    absP mx b (insertAfter l n) = pinsert (absP mx b l) (b + n.t, toP mx n) := by
  induction l generalizing b n with
  | nil => simp [insertAfter, absP, pinsert]
  | cons q r ih =>
    by_cases h : q.t ≤ n.t
    · have e1 : b + q.t + (n.t - q.t) = b + n.t := by omega
      simp [insertAfter, h, absP, pinsert, ih, e1]
    · have e1 : b + n.t + (q.t - n.t) = b + q.t := by omega
      simp [insertAfter, h, absP, pinsert, e1]

theorem absP_insertNode (mx : Nat → Nat) (b : Nat) (l : List Node) (n : Node) :
    absP mx b (insertNode l n) = pinsert (absP mx b l) (b + n.t, toP mx n) := by
  rw [insertNode_eq_insertAfter]; exact absP_insertAfter mx b l n

theorem absP_enqueue (mx : Nat → Nat) (q : Queue) (now delay : Nat) (n : Node) (h : q.nodes = [] ∨ q.base ≤ now) :
    absP mx (enqueue q now delay n).base (enqueue q now delay n).nodes =
      pinsert (absP mx q.base q.nodes) (now + delay, toP mx n) := by
  rcases q with ⟨base, nodes⟩
  rcases nodes with _ | ⟨hd, r⟩
  · simp [enqueue, absP, pinsert]
  · have hb : base ≤ now := by simpa using h
    have e1 : base + (now - base + delay) = now + delay := by omega
    simp only [enqueue]
    rw [absP_insertNode]
    simp [e1]

theorem absP_popNext (mx : Nat → Nat) (b : Nat) (l : List Node) (n : Node) (rest : List Node)
    (h : popNext l = some (n, rest)) : absP mx b l = (b + n.t, toP mx n) :: absP mx b rest := by
  rcases l with _ | ⟨a, _ | ⟨q, r⟩⟩
  · simp [popNext] at h
  · simp [popNext] at h; obtain ⟨rfl, rfl⟩ := h; simp [absP]
  · simp [popNext] at h; obtain ⟨rfl, rfl⟩ := h
    have e1 : b + (q.t + a.t) = b + a.t + q.t := by omega
    simp [absP, e1]

theorem absP_removeNode (mx : Nat → Nat) (b : Nat) (l : List Node) (s id : Nat) :
    absP mx b (removeNode l s id).2 = (premove (absP mx b l) s id).2 ∧
    (removeNode l s id).1.map (toP mx) = (premove (absP mx b l) s id).1 := by
  induction l generalizing b with
  | nil => exact ⟨rfl, rfl⟩
  | cons n r ih =>
    by_cases h : n.sess = s ∧ n.mid = id
    · have h' : (toP mx n).sess = s ∧ (toP mx n).mid = id := h
      rcases r with _ | ⟨q, r'⟩
      · simp [removeNode, h, absP, premove, h']
      · have e1 : b + (q.t + n.t) = b + n.t + q.t := by omega
        simp [removeNode, h, absP, premove, h', e1]
    · have h' : ¬ ((toP mx n).sess = s ∧ (toP mx n).mid = id) := h
      rcases hr : removeNode r s id with ⟨res, r'⟩
      have := ih (b + n.t)
      rw [hr] at this
      simp only [removeNode, h, if_false, hr, absP, premove, h']
      rcases hp : premove (absP mx (b + n.t) r) s id with ⟨res2, r2⟩
      rw [hp] at this
      simp only [] at this ⊢
      exact ⟨by rw [this.1], this.2⟩

theorem removeNode_key (l : List Node) (s id : Nat) (n : Node) (h : (removeNode l s id).1 = some n) :
    n.sess = s ∧ n.mid = id := by
  induction l with
  | nil => simp [removeNode] at h
  | cons a r ih =>
    by_cases hk : a.sess = s ∧ a.mid = id
    · rcases r with _ | ⟨q, r'⟩
      · simp [removeNode, hk] at h; subst h; exact hk
      · simp [removeNode, hk] at h; subst h; exact hk
    · rcases hr : removeNode r s id with ⟨res, r'⟩
      rw [hr] at ih
      simp only [removeNode, hk, if_false, hr] at h
      exact ih h

theorem pinsert_er (l : List (Nat × PMsg)) (e : Nat × PMsg) : (pinsert l e).map er = pinsert (l.map er) (er e) := by
  induction l with
  | nil => rfl
  | cons x r ih =>
    by_cases h : x.1 ≤ e.1
    · simp [pinsert, h, ih]
    · simp [pinsert, h]

theorem premove_er (l : List (Nat × PMsg)) (s mid : Nat) :
    (premove l s mid).2.map er = (premove (l.map er) s mid).2 ∧
    (premove l s mid).1.map (fun m => { m with t0 := 0 }) = (premove (l.map er) s mid).1 := by
  induction l with
  | nil => exact ⟨rfl, rfl⟩
  | cons x r ih =>
    by_cases h : x.2.sess = s ∧ x.2.mid = mid
    · have h' : (er x).2.sess = s ∧ (er x).2.mid = mid := h
      simp only [premove, h, h', and_self, if_true, List.map_cons]
      exact ⟨trivial, rfl⟩
    · have h' : ¬ ((er x).2.sess = s ∧ (er x).2.mid = mid) := h
      rcases hr : premove r s mid with ⟨res, r'⟩
      rcases hr2 : premove (r.map er) s mid with ⟨res2, r2⟩
      rw [hr, hr2] at ih
      simp only [premove, h, if_false, hr, List.map_cons, h', hr2]
      simp only [] at ih ⊢
      exact ⟨by rw [ih.1], ih.2⟩

/-! ### predicates on nodes that do not look at the relative time survive the queue operations -/

/-- a node predicate that does not depend on the relative time `t` -/
def TFree (Q : Node → Prop) : Prop := ∀ (n : Node) (x : Nat), Q n → Q { n with t := x }

theorem all_insertAfter {Q : Node → Prop} (hQ : TFree Q) (l : List Node) (n : Node)
    (hl : ∀ x ∈ l, Q x) (hn : Q n) : ∀ x ∈ insertAfter l n, Q x := by
  induction l generalizing n with
  | nil => intro x hx; simp [insertAfter] at hx; subst hx; exact hn
  | cons q r ih =>
    intro x hx
    by_cases h : q.t ≤ n.t
    · simp only [insertAfter, h, if_true, List.mem_cons] at hx
      rcases hx with rfl | hx
      · exact hl _ (by simp)
      · exact ih _ (fun y hy => hl y (by simp [hy])) (hQ _ _ hn) x hx
    · simp only [insertAfter, h, if_false, List.mem_cons] at hx
      rcases hx with rfl | rfl | hx
      · exact hn
      · exact hQ _ _ (hl _ (by simp))
      · exact hl x (by simp [hx])

theorem all_enqueue {Q : Node → Prop} (hQ : TFree Q) (q : Queue) (now d : Nat) (n : Node)
    (hl : ∀ x ∈ q.nodes, Q x) (hn : Q n) : ∀ x ∈ (enqueue q now d n).nodes, Q x := by
  rcases q with ⟨base, nodes⟩
  rcases nodes with _ | ⟨hd, r⟩
  · intro x hx; simp [enqueue] at hx; subst hx; exact hQ _ _ hn
  · simp only [enqueue]
    rw [insertNode_eq_insertAfter]
    exact all_insertAfter hQ _ _ hl (hQ _ _ hn)

theorem all_popNext {Q : Node → Prop} (hQ : TFree Q) (l : List Node) (n : Node) (rest : List Node)
    (h : popNext l = some (n, rest)) (hl : ∀ x ∈ l, Q x) : Q n ∧ ∀ x ∈ rest, Q x := by
  rcases l with _ | ⟨a, _ | ⟨q, r⟩⟩
  · simp [popNext] at h
  · simp [popNext] at h; obtain ⟨rfl, rfl⟩ := h; exact ⟨hl _ (by simp), by simp⟩
  · simp [popNext] at h; obtain ⟨rfl, rfl⟩ := h
    refine ⟨hl _ (by simp), ?_⟩
    intro x hx
    simp only [List.mem_cons] at hx
    rcases hx with rfl | hx
    · exact hQ _ _ (hl _ (by simp))
    · exact hl x (by simp [hx])

theorem all_removeNode {Q : Node → Prop} (hQ : TFree Q) (l : List Node) (s id : Nat) (hl : ∀ x ∈ l, Q x) :
    (∀ x ∈ (removeNode l s id).2, Q x) ∧ (∀ n, (removeNode l s id).1 = some n → Q n) := by
  induction l with
  | nil => simp [removeNode]
  | cons a r ih =>
    have ha : Q a := hl _ (by simp)
    have hr : ∀ x ∈ r, Q x := fun x hx => hl x (by simp [hx])
    by_cases hk : a.sess = s ∧ a.mid = id
    · rcases r with _ | ⟨q, r'⟩
      · simp [removeNode, hk]; exact ha
      · simp only [removeNode, hk, and_self, if_true]
        refine ⟨?_, fun n hn => by simp at hn; subst hn; exact ha⟩
        intro x hx
        simp only [List.mem_cons] at hx
        rcases hx with rfl | hx
        · exact hQ _ _ (hr _ (by simp))
        · exact hr x (by simp [hx])
    · rcases hrm : removeNode r s id with ⟨res, r'⟩
      have := ih hr
      rw [hrm] at this
      simp only [removeNode, hk, if_false, hrm]
      refine ⟨?_, this.2⟩
      intro x hx
      simp only [List.mem_cons] at hx
      rcases hx with rfl | hx
      · exact ha
      · exact this.1 x hx

/-! ### observations: what M and S both show to the outside -/

/-- a transmission (with its retransmission count), an outcome NACK -/
inductive Obs where
  | tx (t s mid cnt : Nat) (con : Bool)
  | nackRetries (t s mid : Nat)
  | nackRst (t s mid : Nat)
  deriving Repr, DecidableEq

/-- M: transmissions and outcome NACKs (D14: `known = true`); the returned wait and the result of `coap_send` are
not events of S -/
def obsM : Out → Option Obs
  | .tx t s mid cnt con => some (.tx t s mid cnt con)
  | .nack t s .retries mid true => some (.nackRetries t s mid)
  | .nack t s .rst mid true => some (.nackRst t s mid)
  | _ => none

/-- S: the same, ghost labels dropped; the silent completion by an ACK is not visible outside -/
def obsS : TOut → Option Obs
  | .tx t s mid k _ _ _ => some (.tx t s mid k true)
  | .nackRetries t s mid => some (.nackRetries t s mid)
  | .nackRst t s mid => some (.nackRst t s mid)
  | .acked .. => none

/-! ### the simulation relation and the invariant -/

/-- MAX_RETRANSMIT of each session -/
def mxOf (par : Nat → Sess) : Nat → Nat := fun s => (par s).maxRtx

/-- M state ~ S state: S's clock is the time of the last I/O step, S's pending list (ghost label erased) is what
the delta list stands for, both have shown the same transmissions and outcomes -/
structure Rel (mx : Nat → Nat) (l : L) (ts : TS) : Prop where
  now : ts.now ≤ l.now
  pend : ts.pend.map er = absP mx l.q.base l.q.nodes
  outs : ts.outs.filterMap obsS = l.out.filterMap obsM

/-- a queued node inside the scope of C06: Confirmable, token as submitted, stored timeout positive, retransmission
counter within the limit, `timeout << MAX_RETRANSMIT` fits 64 bits, and `P` (where it comes from) -/
def NodeOk (par : Nat → Sess) (P : Nat → Nat → Nat → Prop) (n : Node) : Prop :=
  n.con = true ∧ n.tok = n.mid ∧ 0 < n.timeout ∧ n.cnt ≤ (par n.sess).maxRtx ∧
  n.timeout * 2 ^ (par n.sess).maxRtx < 2 ^ 64 ∧ P n.sess n.mid n.timeout

theorem nodeOk_tfree (par : Nat → Sess) (P : Nat → Nat → Nat → Prop) : TFree (NodeOk par P) := fun _ _ h => h

/-- every session is `par s` up to `con_active`, which respects NSTART -/
def SessInv (par : Nat → Sess) (l : L) : Prop :=
  ∀ s, ∃ ca, l.getS s = { par s with conActive := ca } ∧ ca ≤ (par s).nstart

/-- the sessions of the scope: established, nothing delayed, socket open, NSTART ≥ 1, MAX_RETRANSMIT < 256 -/
def ParOk (par : Nat → Sess) : Prop :=
  ∀ s, (par s).est = true ∧ (par s).delayq = [] ∧ (par s).sockOpen = true ∧ 1 ≤ (par s).nstart ∧ (par s).maxRtx < 256

structure Inv (par : Nat → Sess) (P : Nat → Nat → Nat → Prop) (l : L) : Prop where
  base : l.q.base ≤ l.now
  sess : SessInv par l
  nodes : ∀ n ∈ l.q.nodes, NodeOk par P n

theorem getS_setS (l : L) (s s' : Nat) (se : Sess) :
    ((l.setS s se).getS s' = se ∧ s' = s) ∨ (l.setS s se).getS s' = l.getS s' := by
  by_cases h : s = s'
  · subst h
    by_cases hl : s < l.sess.length
    · left; simp [L.getS, L.setS, List.getD_eq_getElem?_getD, hl]
    · right; simp [L.getS, L.setS, List.getD_eq_getElem?_getD, hl]
  · right; simp [L.getS, L.setS, List.getD_eq_getElem?_getD, h]

theorem sessInv_setS {par : Nat → Sess} {l : L} (hs : SessInv par l) (s ca : Nat) (hca : ca ≤ (par s).nstart) :
    SessInv par (l.setS s { par s with conActive := ca }) := by
  intro s'
  rcases getS_setS l s s' { par s with conActive := ca } with ⟨h, rfl⟩ | h
  · exact ⟨ca, h, hca⟩
  · rw [h]; exact hs s'

theorem sessInv_congr {par : Nat → Sess} {l l' : L} (h : l'.sess = l.sess) (hs : SessInv par l) : SessInv par l' := by
  intro s
  have : l'.getS s = l.getS s := by simp [L.getS, h]
  rw [this]; exact hs s

theorem est_fix (se : Sess) (ca : Nat) (h : se.est = true) :
    ({ ({ se with conActive := ca } : Sess) with est := true } : Sess) = { se with conActive := ca } := by
  cases se; simp_all

theorem drain_nil (fuel : Nat) (l : L) (s : Nat) (h : (l.getS s).delayq = []) : drain fuel l s = l := by
  cases fuel <;> simp [drain, h]

theorem connected_idle {par : Nat → Sess} (hp : ParOk par) (l : L) (s : Nat) (hs : SessInv par l) :
    (connected l s).q = l.q ∧ (connected l s).out = l.out ∧ (connected l s).now = l.now ∧
    SessInv par (connected l s) := by
  obtain ⟨ca, hca, hle⟩ := hs s
  have e : ({ (l.getS s) with est := true } : Sess) = { par s with conActive := ca } := by
    rw [hca]; exact est_fix _ _ (hp s).1
  have h2 : SessInv par (l.setS s { (l.getS s) with est := true }) := by
    rw [e]; exact sessInv_setS hs s ca hle
  have h3 : ((l.setS s { (l.getS s) with est := true }).getS s).delayq = [] := by
    obtain ⟨c, hc, _⟩ := h2 s
    rw [hc]; exact (hp s).2.1
  unfold connected
  simp only []
  rw [drain_nil _ _ _ h3]
  exact ⟨rfl, rfl, rfl, h2⟩

theorem release_idle {par : Nat → Sess} (hp : ParOk par) (l : L) (s : Nat) (hs : SessInv par l) :
    (release l s).q = l.q ∧ (release l s).out = l.out ∧ (release l s).now = l.now ∧ SessInv par (release l s) := by
  obtain ⟨ca, hca, hle⟩ := hs s
  unfold release
  simp only []
  split
  · exact ⟨rfl, rfl, rfl, hs⟩
  · have h1 : SessInv par (l.setS s { (l.getS s) with conActive := (l.getS s).conActive - 1 }) := by
      rw [hca]; exact sessInv_setS hs s (ca - 1) (by omega)
    split
    · have := connected_idle hp _ s h1
      exact ⟨this.1, this.2.1, this.2.2.1, this.2.2.2⟩
    · exact ⟨rfl, rfl, rfl, h1⟩

/-! ### one iteration of the due loop = one iteration of `fire` -/

/-- nothing is due: the earliest pending deadline lies in the future -/
def NothingDue (l : L) : Prop := ∀ d, Spec.SQ.earliest (abs l.q) = some d → l.now < d

theorem nothingDue_iff (l : L) : NothingDue l ↔ ∀ h r, l.q.nodes = h :: r → l.now < l.q.base + h.t := by
  unfold NothingDue
  rcases l with ⟨now, ⟨base, nodes⟩, sess, out⟩
  rcases nodes with _ | ⟨hd, r⟩
  · simp [abs, absFrom, Spec.SQ.earliest]
  · simp [abs, absFrom, Spec.SQ.earliest]

theorem fire_idle (f : Nat) (ts : TS) (h : ∀ d m r, ts.pend = (d, m) :: r → ts.now < d) : fire f ts = ts := by
  cases f with
  | zero => rfl
  | succ f =>
    rcases ts with ⟨now, pend, outs⟩
    rcases pend with _ | ⟨⟨d, m⟩, r⟩
    · rfl
    · have := h d m r rfl
      simp only [] at this
      have hc : ¬ d ≤ now := by omega
      simp only [fire, hc, if_false]

theorem er_eq_toP {d d' : Nat} {m : PMsg} {mx : Nat → Nat} {n : Node} (h : er (d, m) = (d', toP mx n)) :
    d = d' ∧ m.sess = n.sess ∧ m.mid = n.mid ∧ m.T = n.timeout ∧ m.cnt = n.cnt ∧ m.maxRtx = mx n.sess := by
  simp only [er, toP, Prod.mk.injEq, PMsg.mk.injEq] at h
  exact ⟨h.1, h.2.1, h.2.2.1, h.2.2.2.1, h.2.2.2.2.1, h.2.2.2.2.2.1⟩

theorem retransmit_resend_sess (l : L) (n : Node)
    (hc : n.cnt < (l.getS n.sess).maxRtx) (hest : (l.getS n.sess).est = true)
    (hroom : (l.getS n.sess).conActive - 1 < (l.getS n.sess).nstart)
    (h8 : n.cnt + 1 < 256) (h64 : n.timeout * 2 ^ (n.cnt + 1) < 2 ^ 64) (hcon : n.con = true) :
    (retransmit l n).sess = (l.setS n.sess { (l.getS n.sess) with
      conActive := ((l.getS n.sess).conActive - 1 + 1) % 256 }).sess := by
  have hg : gate { (l.getS n.sess) with conActive := (l.getS n.sess).conActive - 1 } n.con = false := by
    simp only [gate, hest]
    have : ¬ ((l.getS n.sess).conActive - 1 ≥ (l.getS n.sess).nstart) := by omega
    simp [this]
  have hm : (n.cnt + 1) % 256 = n.cnt + 1 := Nat.mod_eq_of_lt h8
  have hd : n.timeout * 2 ^ (n.cnt + 1) % 18446744073709551616 = n.timeout * 2 ^ (n.cnt + 1) :=
    Nat.mod_eq_of_lt h64
  unfold retransmit
  simp only [hc, if_true, hm, hd, hg]
  simp [L.setS, L.emit, L.getS, hcon]

theorem retransmit_giveup_sess (l : L) (n : Node) (hc : (l.getS n.sess).maxRtx ≤ n.cnt) :
    (retransmit l n).sess = (release l n.sess).sess := by
  have hc' : ¬ n.cnt < (l.getS n.sess).maxRtx := by omega
  unfold retransmit
  simp only [hc', if_false]
  split <;> rfl

/-- **loop_sim**: the due loop of `coap_io_prepare_io` (with `coap_retransmit`) and S's `fire` do the same, step by
step, as long as both have fuel for every due entry (each fires once: it is re-armed strictly later) -/
theorem loop_sim {par : Nat → Sess} {P : Nat → Nat → Nat → Prop} (hp : ParOk par) :
    ∀ (f1 f2 : Nat) (l : L) (ts : TS), Inv par P l → Rel (mxOf par) l ts → ts.now = l.now →
      dc l.now ts.pend ≤ f1 → dc l.now ts.pend ≤ f2 →
      Inv par P (dueLoop f1 l) ∧ Rel (mxOf par) (dueLoop f1 l) (fire f2 ts) ∧ NothingDue (dueLoop f1 l) := by
  intro f1
  induction f1 with
  | zero =>
    intro f2 l ts hi hr hnow h1 _
    rcases ts with ⟨tnow, pend, outs⟩
    simp only [] at hnow h1
    subst hnow
    have hidle : ∀ d m r, pend = (d, m) :: r → l.now < d := by
      intro d m r hpd
      subst hpd
      simp only [dc] at h1
      by_cases hd : d ≤ l.now
      · simp [hd] at h1
      · omega
    rw [fire_idle _ _ hidle]
    show Inv par P l ∧ Rel (mxOf par) l _ ∧ NothingDue l
    refine ⟨hi, hr, ?_⟩
    rw [nothingDue_iff]
    intro h r hn
    have hpd := hr.pend
    simp only [hn, absP] at hpd
    rcases pend with _ | ⟨⟨d, m⟩, pr⟩
    · simp at hpd
    · simp only [List.map_cons, List.cons.injEq] at hpd
      have := (er_eq_toP hpd.1).1
      have := hidle d m pr rfl
      omega
  | succ f ih =>
    intro f2 l ts hi hr hnow h1 h2
    rcases ts with ⟨tnow, pend, outs⟩
    simp only [] at hnow h1 h2
    subst hnow
    cases hn : l.q.nodes with
    | nil =>
      have hnd : NothingDue l := by rw [nothingDue_iff]; intro h r hh; rw [hn] at hh; cases hh
      rw [dueLoop_not_due _ l hnd]
      have hpd := hr.pend
      simp only [hn, absP, List.map_eq_nil_iff] at hpd
      subst hpd
      rw [fire_idle _ _ (by intro d m r hh; cases hh)]
      exact ⟨hi, hr, hnd⟩
    | cons hd r =>
      have hpd := hr.pend
      simp only [hn, absP] at hpd
      rcases pend with _ | ⟨⟨d, m⟩, pr⟩
      · simp at hpd
      simp only [List.map_cons, List.cons.injEq] at hpd
      obtain ⟨hdm, hpr⟩ := hpd
      obtain ⟨e1, e2, e3, e4, e5, e6⟩ := er_eq_toP hdm
      by_cases hdue : l.q.base + hd.t ≤ l.now
      · -- the head is due
        obtain ⟨rest, hpop, _, hloop⟩ := dueLoop_due f l hd r hn hi.base hdue
        rw [hloop]
        have hd_le : d ≤ l.now := by omega
        have hdc : dc l.now ((d, m) :: pr) = 1 + dc l.now pr := by simp [dc, hd_le]
        rw [hdc] at h1 h2
        obtain ⟨f2', rfl⟩ : ∃ f2', f2 = f2' + 1 := ⟨f2 - 1, by omega⟩
        have hab := absP_popNext (mxOf par) l.q.base l.q.nodes hd rest hpop
        rw [hn] at hab
        simp only [absP, List.cons.injEq, true_and] at hab
        have hpr' : pr.map er = absP (mxOf par) l.q.base rest := by rw [hpr, hab]
        have hall := all_popNext (nodeOk_tfree par P) l.q.nodes hd rest hpop hi.nodes
        obtain ⟨hcon, htok, hT, hcnt, h64, hP⟩ := hall.1
        obtain ⟨ca, hca, hle⟩ := hi.sess hd.sess
        obtain ⟨hest, hdq, hopen, hns, h256⟩ := hp hd.sess
        -- the popped state
        obtain ⟨l1, hl1⟩ : ∃ l1, l1 = ({ l with q := { l.q with nodes := rest } } : L) := ⟨_, rfl⟩
        have q1b : l1.q.base = l.q.base := by rw [hl1]
        have q1n : l1.q.nodes = rest := by rw [hl1]
        have n1 : l1.now = l.now := by rw [hl1]
        have o1 : l1.out = l.out := by rw [hl1]
        have s1 : l1.sess = l.sess := by rw [hl1]
        rw [← hl1]
        clear hloop hl1
        have hi1 : Inv par P l1 := ⟨by rw [q1b, n1]; exact hi.base, sessInv_congr s1 hi.sess, by rw [q1n]; exact hall.2⟩
        have hgs : l1.getS hd.sess = { par hd.sess with conActive := ca } := by
          have : l1.getS hd.sess = l.getS hd.sess := by simp [L.getS, s1]
          rw [this]; exact hca
        have hnowR := retransmit_now l1 hd
        simp only [fire, hd_le, if_true]
        by_cases hc : hd.cnt < (par hd.sess).maxRtx
        · -- retransmit and re-arm
          have hcS : m.cnt < m.maxRtx := by rw [e5, e6]; exact hc
          simp only [hcS, if_true]
          have hle2 : hd.timeout * 2 ^ (hd.cnt + 1) ≤ hd.timeout * 2 ^ (par hd.sess).maxRtx :=
            Nat.mul_le_mul_left _ (Nat.pow_le_pow_right (by decide) hc)
          have hroom : ca - 1 < (par hd.sess).nstart := by omega
          have hres := retransmit_resend l1 hd
            (by rw [hgs]; exact hc) (by rw [hgs]; exact hest) (by rw [hgs]; exact hroom) (by omega)
            (by omega) (Or.inr hi1.base)
          have hsess := retransmit_resend_sess l1 hd
            (by rw [hgs]; exact hc) (by rw [hgs]; exact hest) (by rw [hgs]; exact hroom) (by omega)
            (by omega) hcon
          have hpos : 0 < hd.timeout * 2 ^ (hd.cnt + 1) := Nat.mul_pos hT (Nat.two_pow_pos _)
          have hi2 : Inv par P (retransmit l1 hd) := by
            refine ⟨baseOk_retransmit _ _ hi1.base, ?_, ?_⟩
            · apply sessInv_congr hsess
              rw [hgs]
              exact sessInv_setS hi1.sess hd.sess ((ca - 1 + 1) % 256) (by
                have : (ca - 1 + 1) % 256 ≤ ca - 1 + 1 := Nat.mod_le _ _
                omega)
            · rw [hres.2.2]
              apply all_enqueue (nodeOk_tfree par P) _ _ _ _ hi1.nodes
              exact ⟨hcon, htok, hT, Nat.succ_le_of_lt hc, h64, hP⟩
          have hr2 : Rel (mxOf par) (retransmit l1 hd)
              { now := l.now, pend := pinsert pr (l.now + m.T * 2 ^ (m.cnt + 1), { m with cnt := m.cnt + 1 }),
                outs := TOut.tx l.now m.sess m.mid (m.cnt + 1) m.t0 m.T m.maxRtx :: outs } := by
            refine ⟨by rw [hnowR, n1]; exact Nat.le_refl _, ?_, ?_⟩
            · show List.map er (pinsert pr _) = _
              rw [hres.2.2, absP_enqueue _ _ _ _ _ (Or.inr hi1.base), pinsert_er, q1b, q1n, n1, hpr']
              congr 1
              simp only [er, toP, mxOf, e2, e3, e4, e5, e6]
            · rw [hres.1, o1, n1]
              have ho := hr.outs
              simp only [] at ho
              simp only [List.filterMap_cons, obsS, obsM, ho, e2, e3, e5, hcon]
          have hnd : ¬ (l.now + m.T * 2 ^ (m.cnt + 1) ≤ l.now) := by rw [e4, e5]; omega
          exact ih f2' _ _ hi2 hr2 (by rw [hnowR, n1]) (by
            rw [hnowR, n1]; simp only [dc_pinsert, hnd, if_false]; omega) (by
            rw [hnowR, n1]; simp only [dc_pinsert, hnd, if_false]; omega)
        · -- give up: one NACK, nothing re-queued
          have hcS : ¬ m.cnt < m.maxRtx := by rw [e5, e6]; exact hc
          simp only [hcS, if_false]
          have hgu := retransmit_giveup l1 hd (by rw [hgs]; exact Nat.le_of_not_lt hc) hcon
          have hsess := retransmit_giveup_sess l1 hd (by rw [hgs]; exact Nat.le_of_not_lt hc)
          have hrel := release_idle hp l1 hd.sess hi1.sess
          have hi2 : Inv par P (retransmit l1 hd) := by
            refine ⟨baseOk_retransmit _ _ hi1.base, sessInv_congr hsess hrel.2.2.2, ?_⟩
            rw [hgu.2, hrel.1]; exact hi1.nodes
          have hr2 : Rel (mxOf par) (retransmit l1 hd)
              { now := l.now, pend := pr, outs := TOut.nackRetries l.now m.sess m.mid :: outs } := by
            refine ⟨by rw [hnowR, n1]; exact Nat.le_refl _, ?_, ?_⟩
            · rw [hgu.2, hrel.1, q1b, q1n]; exact hpr'
            · rw [hgu.1, hrel.2.1, o1, n1]
              have ho := hr.outs
              simp only [] at ho
              simp only [List.filterMap_cons, obsS, obsM, ho, e2, e3]
          exact ih f2' _ _ hi2 hr2 (by rw [hnowR, n1]) (by rw [hnowR, n1]; show dc l.now pr ≤ f; omega)
            (by rw [hnowR, n1]; show dc l.now pr ≤ f2'; omega)
      · -- the head is not due
        have hnd : NothingDue l := by
          rw [nothingDue_iff]; intro h r' hh; rw [hn] at hh; cases hh; omega
        rw [dueLoop_not_due _ l hnd]
        rw [fire_idle _ _ (by intro d' m' r' hh; cases hh; simp only []; omega)]
        exact ⟨hi, hr, hnd⟩

/-! ### one I/O step = one `tick` -/

theorem rel_length {mx : Nat → Nat} {l : L} {ts : TS} (hr : Rel mx l ts) : ts.pend.length = l.q.nodes.length := by
  have := congrArg List.length hr.pend
  simpa [absP_length] using this

theorem tick_sim {par : Nat → Sess} {P : Nat → Nat → Nat → Prop} (hp : ParOk par) (l : L) (ts : TS)
    (hi : Inv par P l) (hr : Rel (mxOf par) l ts) :
    Inv par P (dueLoop (dueFuel l) l) ∧ Rel (mxOf par) (dueLoop (dueFuel l) l) (Timer.step ts (.tick l.now)) ∧
    NothingDue (dueLoop (dueFuel l) l) := by
  have hlen := rel_length hr
  have h1 : dc l.now ts.pend ≤ dueFuel l := by
    have := dc_le_length l.now ts.pend
    unfold dueFuel; omega
  have h2 : dc l.now ts.pend ≤ tickFuel ts := Nat.le_trans (dc_le_length _ _) (length_le_tickFuel ts)
  simp only [Timer.step, hr.now, if_true]
  exact loop_sim hp _ _ l { ts with now := l.now } hi ⟨Nat.le_refl _, hr.pend, hr.outs⟩ rfl h1 h2

/-- while nothing is due a tick only moves S's clock -/
theorem tick_idle {mx : Nat → Nat} {l : L} {ts : TS} (hr : Rel mx l ts) (hnd : NothingDue l) :
    Timer.step ts (.tick l.now) = { ts with now := l.now } := by
  simp only [Timer.step, hr.now, if_true]
  apply fire_idle
  intro d m r hpd
  have hp := hr.pend
  simp only [] at hpd
  rw [hpd] at hp
  cases hn : l.q.nodes with
  | nil => rw [hn] at hp; simp [absP] at hp
  | cons h rr =>
    rw [hn] at hp
    simp only [List.map_cons, absP, List.cons.injEq] at hp
    have := (er_eq_toP hp.1).1
    have := (nothingDue_iff l).1 hnd h rr hn
    simp only []
    omega

theorem premove_none (l : List (Nat × PMsg)) (s mid : Nat) (h : (premove l s mid).1 = none) :
    (premove l s mid).2 = l := by
  induction l with
  | nil => rfl
  | cons x r ih =>
    by_cases hk : x.2.sess = s ∧ x.2.mid = mid
    · simp [premove, hk] at h
    · rcases hr : premove r s mid with ⟨res, r'⟩
      rw [hr] at ih
      simp only [premove, hk, if_false, hr] at h ⊢
      simp only [] at ih
      rw [ih h]

/-- `coap_remove_from_queue` on M = `premove` on S -/
theorem remove_sim {par : Nat → Sess} {P : Nat → Nat → Nat → Prop} (l : L) (ts : TS) (s mid : Nat)
    (hi : Inv par P l) (hr : Rel (mxOf par) l ts) :
    (premove ts.pend s mid).2.map er = absP (mxOf par) l.q.base (removeNode l.q.nodes s mid).2 ∧
    ((removeNode l.q.nodes s mid).1 = none ↔ (premove ts.pend s mid).1 = none) ∧
    (∀ x ∈ (removeNode l.q.nodes s mid).2, NodeOk par P x) ∧
    (∀ n, (removeNode l.q.nodes s mid).1 = some n → NodeOk par P n ∧ n.sess = s ∧ n.mid = mid) := by
  have h1 := absP_removeNode (mxOf par) l.q.base l.q.nodes s mid
  have h2 := premove_er ts.pend s mid
  have h3 := all_removeNode (nodeOk_tfree par P) l.q.nodes s mid hi.nodes
  rw [hr.pend] at h2
  refine ⟨by rw [h2.1, h1.1], ?_, h3.1, fun n hn => ⟨h3.2 n hn, removeNode_key _ _ _ _ hn⟩⟩
  have h4 := h2.2
  rw [← h1.2] at h4
  constructor
  · intro h; rw [h] at h4
    cases hq : (premove ts.pend s mid).1 with
    | none => rfl
    | some x => rw [hq] at h4; simp at h4
  · intro h; rw [h] at h4
    cases hq : (removeNode l.q.nodes s mid).1 with
    | none => rfl
    | some x => rw [hq] at h4; simp at h4

/-! ### the S events an M event stands for, and the scope of the simulation -/

/-- the S events an M event stands for: an I/O step is a `tick` at the current time; `coap_send` is a `send` at the
current time with the `T` that `coap_calc_timeout` draws; an arriving ACK / RST is `ack` / `rst` followed by the
`tick` of the I/O step that `coap_io_do_epoll` ends with; moving the clock alone is not seen by S. -/
def tr (l : L) : Ev → List TEv
  | .setNow _ => []
  | .prepare => [.tick l.now]
  | .submit s _ mid r =>
    [.tick l.now, .send s mid (calcTimeout (l.getS s).atI (l.getS s).atF (l.getS s).arfI (l.getS s).arfF r)
      (l.getS s).maxRtx]
  | .rxAck s mid => [.ack s mid, .tick l.now]
  | .rxRst s mid => [.tick l.now, .rst s mid, .tick l.now]
  | _ => []

def trRun (l : L) : List Ev → List TEv
  | [] => []
  | ev :: evs => tr l ev ++ trRun (Msg.step l ev) evs

/-- the scope of the simulation: the clock does not run backward; Confirmable messages are submitted while the
session has NSTART room, with a positive timeout inside the no-wrap range (D7), and — like an arriving RST — not at an
instant at which a retransmission is due but `coap_io_prepare_io` has not run yet (S fires what is due before anything
else happens at that instant). -/
def EvIn (l : L) : Ev → Prop
  | .setNow t => l.now ≤ t
  | .prepare => True
  | .submit s con _ r =>
    con = true ∧ (l.getS s).conActive < (l.getS s).nstart ∧ NothingDue l ∧
    0 < calcTimeout (l.getS s).atI (l.getS s).atF (l.getS s).arfI (l.getS s).arfF r ∧
    calcTimeout (l.getS s).atI (l.getS s).atF (l.getS s).arfI (l.getS s).arfF r * 2 ^ (l.getS s).maxRtx < 2 ^ 64
  | .rxAck _ _ => True
  | .rxRst _ _ => NothingDue l
  | _ => False

/-- `EvIn` threaded along the run of M -/
def RunIn (l : L) : List Ev → Prop
  | [] => True
  | ev :: evs => EvIn l ev ∧ RunIn (Msg.step l ev) evs

theorem rel_emit_none {mx : Nat → Nat} {l : L} {ts : TS} (o : Out) (ho : obsM o = none) (hr : Rel mx l ts) :
    Rel mx (l.emit o) ts :=
  ⟨hr.now, hr.pend, by rw [hr.outs]; simp [L.emit, ho]⟩

theorem inv_emit {par : Nat → Sess} {P : Nat → Nat → Nat → Prop} {l : L} (o : Out) (hi : Inv par P l) :
    Inv par P (l.emit o) := ⟨hi.base, hi.sess, hi.nodes⟩

theorem calcTimeout_mod (a b c d r : Nat) : calcTimeout a b c d r * 2 ^ 0 % 4294967296 = calcTimeout a b c d r := by
  rw [Nat.pow_zero, Nat.mul_one]; exact Nat.mod_eq_of_lt (calcTimeout_lt a b c d r)

/-- the I/O step that ends `coap_io_do_epoll` -/
theorem afterRx_sim {par : Nat → Sess} {P : Nat → Nat → Nat → Prop} (hp : ParOk par) (l : L) (ts : TS)
    (hi : Inv par P l) (hr : Rel (mxOf par) l ts) :
    Inv par P (afterRx l) ∧ Rel (mxOf par) (afterRx l) (Timer.step ts (.tick l.now)) ∧ NothingDue (afterRx l) := by
  unfold afterRx
  rw [prepareCore_fst]
  exact tick_sim hp l ts hi hr

theorem inv_nodes {par : Nat → Sess} {P : Nat → Nat → Nat → Prop} {l : L} (rest : List Node) (hi : Inv par P l)
    (h : ∀ x ∈ rest, NodeOk par P x) : Inv par P { l with q := { l.q with nodes := rest } } :=
  ⟨hi.base, hi.sess, h⟩

/-- the ACK branch of `coap_dispatch` = S's `ack` -/
theorem rxAck_sim {par : Nat → Sess} {P : Nat → Nat → Nat → Prop} (hp : ParOk par) (l : L) (ts : TS) (s mid : Nat)
    (hi : Inv par P l) (hr : Rel (mxOf par) l ts) :
    Inv par P (rxAck l s mid) ∧ Rel (mxOf par) (rxAck l s mid) (Timer.step ts (.ack s mid)) ∧
    (rxAck l s mid).now = l.now := by
  obtain ⟨h1, h2, h3, h4⟩ := remove_sim l ts s mid hi hr
  unfold rxAck
  simp only [Timer.step]
  rcases hrm : removeNode l.q.nodes s mid with ⟨sent, rest⟩
  rcases hpm : premove ts.pend s mid with ⟨ps, pr⟩
  rw [hrm, hpm] at h1 h2
  rw [hrm] at h3 h4
  simp only [] at h1 h2 h3 h4 ⊢
  have hi1 := inv_nodes rest hi h3
  cases sent with
  | none =>
    have hps : ps = none := h2.1 rfl
    subst hps
    have := premove_none ts.pend s mid (by rw [hpm])
    rw [hpm] at this
    simp only [] at this
    subst this
    exact ⟨hi1, ⟨hr.now, h1, hr.outs⟩, rfl⟩
  | some n =>
    cases ps with
    | none => have := h2.2 rfl; cases this
    | some x =>
      simp only []
      have hrel := release_idle hp { l with q := { l.q with nodes := rest } } s hi1.sess
      refine ⟨⟨?_, hrel.2.2.2, ?_⟩, ⟨?_, ?_, ?_⟩, hrel.2.2.1⟩
      · rw [hrel.1, hrel.2.2.1]; exact hi.base
      · rw [hrel.1]; exact h3
      · rw [hrel.2.2.1]; exact hr.now
      · rw [hrel.1]; exact h1
      · rw [hrel.2.1]
        have ho := hr.outs
        simp only [List.filterMap_cons, obsS, ho]

/-- the RST branch of `coap_dispatch` = S's `rst` (S's clock at the current time) -/
theorem rxRst_sim {par : Nat → Sess} {P : Nat → Nat → Nat → Prop} (hp : ParOk par) (l : L) (ts : TS) (s mid : Nat)
    (hi : Inv par P l) (hr : Rel (mxOf par) l ts) (hnow : ts.now = l.now) :
    Inv par P (rxRst l s mid) ∧ Rel (mxOf par) (rxRst l s mid) (Timer.step ts (.rst s mid)) ∧
    (rxRst l s mid).now = l.now := by
  obtain ⟨h1, h2, h3, h4⟩ := remove_sim l ts s mid hi hr
  unfold rxRst
  simp only [Timer.step]
  rcases hrm : removeNode l.q.nodes s mid with ⟨sent, rest⟩
  rcases hpm : premove ts.pend s mid with ⟨ps, pr⟩
  rw [hrm, hpm] at h1 h2
  rw [hrm] at h3 h4
  simp only [] at h1 h2 h3 h4 ⊢
  have hi1 := inv_nodes rest hi h3
  cases sent with
  | none =>
    have hps : ps = none := h2.1 rfl
    subst hps
    have := premove_none ts.pend s mid (by rw [hpm])
    rw [hpm] at this
    simp only [] at this
    subst this
    exact ⟨inv_emit _ hi1, rel_emit_none _ rfl ⟨hr.now, h1, hr.outs⟩, rfl⟩
  | some n =>
    cases ps with
    | none => have := h2.2 rfl; cases this
    | some x =>
      obtain ⟨⟨hcon, _⟩, _, hmid⟩ := h4 n rfl
      simp only [hcon, if_true]
      have hrel := release_idle hp { l with q := { l.q with nodes := rest } } s hi1.sess
      refine ⟨inv_emit _ ⟨?_, hrel.2.2.2, ?_⟩, ⟨?_, ?_, ?_⟩, hrel.2.2.1⟩
      · rw [hrel.1, hrel.2.2.1]; exact hi.base
      · rw [hrel.1]; exact h3
      · show _ ≤ (release _ s).now
        rw [hrel.2.2.1]; exact hr.now
      · show _ = absP _ (release _ s).q.base (release _ s).q.nodes
        rw [hrel.1]; exact h1
      · show _ = List.filterMap obsM (_ :: (release _ s).out)
        rw [hrel.2.1, hrel.2.2.1]
        have ho := hr.outs
        simp only [List.filterMap_cons, obsS, obsM, ho, hnow, hmid]

/-- **step_sim**: every step of M inside the scope is matched by the S events it stands for -/
theorem step_sim {par : Nat → Sess} {P : Nat → Nat → Nat → Prop} (hp : ParOk par) (l : L) (ts : TS) (ev : Ev)
    (hi : Inv par P l) (hr : Rel (mxOf par) l ts) (hok : EvIn l ev)
    (hP : ∀ s mid r, ev = .submit s true mid r →
      P s mid (calcTimeout (par s).atI (par s).atF (par s).arfI (par s).arfF r)) :
    Inv par P (Msg.step l ev) ∧ Rel (mxOf par) (Msg.step l ev) (Timer.run ts (tr l ev)) := by
  cases ev with
  | setNow t =>
    simp only [EvIn] at hok
    exact ⟨⟨Nat.le_trans hi.base hok, hi.sess, hi.nodes⟩, ⟨Nat.le_trans hr.now hok, hr.pend, hr.outs⟩⟩
  | prepare =>
    have := tick_sim hp l ts hi hr
    simp only [Msg.step, prepare, tr, Timer.run, List.foldl_cons, List.foldl_nil]
    rcases hpc : prepareCore l with ⟨l', w⟩
    have e : l' = dueLoop (dueFuel l) l := by rw [← prepareCore_fst, hpc]
    subst e
    exact ⟨inv_emit _ this.1, rel_emit_none _ rfl this.2.1⟩
  | submit s con mid r =>
    obtain ⟨hcon, hroom, hnd, hT, h64⟩ := hok
    subst hcon
    obtain ⟨ca, hca, hle⟩ := hi.sess s
    obtain ⟨hest, hdq, hopen, hns, h256⟩ := hp s
    have hso : (l.getS s).sockOpen = true := by rw [hca]; exact hopen
    have hgt : gate (l.getS s) true = false := by
      have : ¬ ((l.getS s).conActive ≥ (l.getS s).nstart) := by omega
      have he : (l.getS s).est = true := by rw [hca]; exact hest
      simp [gate, he, this]
    have hM : Msg.step l (.submit s true mid r) =
        (waitAck ((l.emit (.tx l.now s mid 0 true)).setS s
            { (l.getS s) with conActive := ((l.getS s).conActive + 1) % 256 })
          { sess := s, mid := mid, t := 0,
            timeout := calcTimeout (l.getS s).atI (l.getS s).atF (l.getS s).arfI (l.getS s).arfF r,
            cnt := 0, tok := mid, con := true }).emit (.sub (some mid)) := by
      simp only [Msg.step, submit, hso, hgt]
      simp
    rw [hM]
    simp only [tr, Timer.run, List.foldl_cons, List.foldl_nil, tick_idle hr hnd]
    have hPs := hP s mid r rfl
    have epar : (calcTimeout (par s).atI (par s).atF (par s).arfI (par s).arfF r) =
        calcTimeout (l.getS s).atI (l.getS s).atF (l.getS s).arfI (l.getS s).arfF r := by rw [hca]
    rw [epar] at hPs
    have emx : (l.getS s).maxRtx = (par s).maxRtx := by rw [hca]
    have ens : (l.getS s).nstart = (par s).nstart := by rw [hca]
    have eca : (l.getS s).conActive = ca := by rw [hca]
    have eset : ({ (l.getS s) with conActive := ((l.getS s).conActive + 1) % 256 } : Sess) =
        { par s with conActive := (ca + 1) % 256 } := by rw [hca]
    rw [eset]
    have hT32 := calcTimeout_mod (l.getS s).atI (l.getS s).atF (l.getS s).arfI (l.getS s).arfF r
    rw [emx] at h64 ⊢
    generalize calcTimeout (l.getS s).atI (l.getS s).atF (l.getS s).arfI (l.getS s).arfF r = T at *
    have hnode : NodeOk par P { sess := s, mid := mid, t := 0, timeout := T, cnt := 0, tok := mid, con := true } :=
      ⟨rfl, rfl, hT, Nat.zero_le _, h64, hPs⟩
    have hs2 : SessInv par ((l.emit (.tx l.now s mid 0 true)).setS s { par s with conActive := (ca + 1) % 256 }) :=
      sessInv_setS (sessInv_congr rfl hi.sess) s _ (by
        have : (ca + 1) % 256 ≤ ca + 1 := Nat.mod_le _ _
        omega)
    refine ⟨inv_emit _ ⟨baseOk_waitAck _ hi.base, sessInv_congr rfl hs2, ?_⟩, rel_emit_none _ rfl ⟨Nat.le_refl _, ?_, ?_⟩⟩
    · simp only [waitAck, hT32]
      exact all_enqueue (nodeOk_tfree par P) _ _ _ _ hi.nodes hnode
    · simp only [Timer.step, waitAck, hT32]
      rw [pinsert_er, hr.pend]
      show _ = absP (mxOf par) (enqueue l.q l.now T _).base (enqueue l.q l.now T _).nodes
      rw [absP_enqueue _ _ _ _ _ (Or.inr hi.base)]
      rfl
    · simp only [Timer.step, waitAck]
      have ho := hr.outs
      simp only [List.filterMap_cons, obsS, ho]
      rfl
  | rxAck s mid =>
    obtain ⟨ca, hca, hle⟩ := hi.sess s
    have hso : (l.getS s).sockOpen = true := by rw [hca]; exact (hp s).2.2.1
    obtain ⟨hi1, hr1, hn1⟩ := rxAck_sim hp l ts s mid hi hr
    have := afterRx_sim hp _ _ hi1 hr1
    rw [hn1] at this
    simp only [Msg.step, hso, if_true, tr, Timer.run, List.foldl_cons, List.foldl_nil]
    exact ⟨this.1, this.2.1⟩
  | rxRst s mid =>
    obtain ⟨ca, hca, hle⟩ := hi.sess s
    have hso : (l.getS s).sockOpen = true := by rw [hca]; exact (hp s).2.2.1
    have hnd : NothingDue l := hok
    have hr0 : Rel (mxOf par) l { ts with now := l.now } := ⟨Nat.le_refl _, hr.pend, hr.outs⟩
    obtain ⟨hi1, hr1, hn1⟩ := rxRst_sim hp l _ s mid hi hr0 rfl
    have := afterRx_sim hp _ _ hi1 hr1
    rw [hn1] at this
    simp only [Msg.step, hso, if_true, tr, Timer.run, List.foldl_cons, List.foldl_nil, tick_idle hr hnd]
    exact ⟨this.1, this.2.1⟩
  | rxNon s mid tok => exact absurd hok (by simp [EvIn])
  | rxBad s mid => exact absurd hok (by simp [EvIn])
  | hold s => exact absurd hok (by simp [EvIn])
  | connect s => exact absurd hok (by simp [EvIn])
  | disconnect s => exact absurd hok (by simp [EvIn])

/-! ### whole runs -/

theorem timer_run_append (ts : TS) (a b : List TEv) : Timer.run ts (a ++ b) = Timer.run (Timer.run ts a) b := by
  simp [Timer.run, List.foldl_append]

/-- where the `send`s of the translated run come from -/
theorem tr_send {par : Nat → Sess} {P : Nat → Nat → Nat → Prop} (l : L) (ev : Ev) (hi : Inv par P l) (hok : EvIn l ev)
    (s mid T mx : Nat) (h : TEv.send s mid T mx ∈ tr l ev) :
    ∃ r, ev = .submit s true mid r ∧ T = calcTimeout (par s).atI (par s).atF (par s).arfI (par s).arfF r ∧
      mx = (par s).maxRtx := by
  cases ev with
  | submit s' c m' r =>
    obtain ⟨ca, hca, _⟩ := hi.sess s'
    simp only [tr, List.mem_cons, List.mem_nil_iff, or_false, reduceCtorEq, false_or, TEv.send.injEq] at h
    obtain ⟨rfl, rfl, rfl, rfl⟩ := h
    have hc : c = true := hok.1
    subst hc
    exact ⟨r, rfl, by rw [hca], by rw [hca]⟩
  | _ => simp [tr] at h

/-- **run_sim**: the simulation for whole runs -/
theorem run_sim {par : Nat → Sess} {P : Nat → Nat → Nat → Prop} (hp : ParOk par) :
    ∀ (evs : List Ev) (l : L) (ts : TS), Inv par P l → Rel (mxOf par) l ts → RunIn l evs →
      (∀ s mid r, Ev.submit s true mid r ∈ evs → P s mid (calcTimeout (par s).atI (par s).atF (par s).arfI (par s).arfF r)) →
      Inv par P (Msg.run l evs) ∧ Rel (mxOf par) (Msg.run l evs) (Timer.run ts (trRun l evs)) ∧
      (∀ s mid T mx, TEv.send s mid T mx ∈ trRun l evs →
        ∃ r, Ev.submit s true mid r ∈ evs ∧ T = calcTimeout (par s).atI (par s).atF (par s).arfI (par s).arfF r ∧
          mx = (par s).maxRtx) := by
  intro evs
  induction evs with
  | nil => intro l ts hi hr _ _; exact ⟨hi, hr, by simp [trRun]⟩
  | cons ev evs ih =>
    intro l ts hi hr hin hP
    obtain ⟨hi1, hr1⟩ := step_sim hp l ts ev hi hr hin.1 (fun s mid r h => hP s mid r (by simp [h]))
    obtain ⟨hi2, hr2, hs2⟩ := ih _ _ hi1 hr1 hin.2 (fun s mid r h => hP s mid r (by simp [h]))
    simp only [Msg.run, List.foldl_cons, trRun, timer_run_append]
    refine ⟨hi2, hr2, ?_⟩
    intro s mid T mx h
    simp only [List.mem_append] at h
    rcases h with h | h
    · obtain ⟨r, rfl, h2, h3⟩ := tr_send l ev hi hin.1 s mid T mx h
      exact ⟨r, by simp, h2, h3⟩
    · obtain ⟨r, h1, h2, h3⟩ := hs2 s mid T mx h
      exact ⟨r, by simp [h1], h2, h3⟩

/-! ### the initial state -/

/-- a session of the scope: established, nothing delayed, socket open, 1 ≤ NSTART, MAX_RETRANSMIT < 256,
`con_active ≤ NSTART` -/
def SessOk (se : Sess) : Prop :=
  se.est = true ∧ se.delayq = [] ∧ se.sockOpen = true ∧ 1 ≤ se.nstart ∧ se.maxRtx < 256 ∧ se.conActive ≤ se.nstart

instance (se : Sess) : Decidable (SessOk se) := by unfold SessOk; infer_instance

/-- the parameters of session `s` -/
def parOf (sess : List Sess) : Nat → Sess := fun s => sess.getD s {}

theorem parOf_ok (sess : List Sess) (h : ∀ se ∈ sess, SessOk se) (s : Nat) : SessOk (parOf sess s) := by
  unfold parOf
  by_cases hs : s < sess.length
  · have : sess.getD s {} = sess[s] := by simp [List.getD_eq_getElem?_getD, hs]
    rw [this]; exact h _ (List.getElem_mem hs)
  · have : sess.getD s {} = {} := by simp [List.getD_eq_getElem?_getD, Nat.le_of_not_lt hs]
    rw [this]; decide

theorem parOk_of (sess : List Sess) (h : ∀ se ∈ sess, SessOk se) : ParOk (parOf sess) := fun s =>
  have := parOf_ok sess h s
  ⟨this.1, this.2.1, this.2.2.1, this.2.2.2.1, this.2.2.2.2.1⟩

theorem inv_init (P : Nat → Nat → Nat → Prop) (now0 : Nat) (sess : List Sess) (h : ∀ se ∈ sess, SessOk se) :
    Inv (parOf sess) P (Msg.init now0 sess) :=
  ⟨Nat.zero_le _, fun s => ⟨(parOf sess s).conActive, rfl, (parOf_ok sess h s).2.2.2.2.2⟩, by simp [Msg.init]⟩

theorem rel_init (mx : Nat → Nat) (now0 : Nat) (sess : List Sess) : Rel mx (Msg.init now0 sess) (Timer.init now0) :=
  ⟨Nat.le_refl _, rfl, rfl⟩

end Coap.Sim

/-! ## S level: where the ghost labels of a transmission come from -/
namespace Coap.Timer

/-- every label `(T, MAX_RETRANSMIT)` carried by a pending entry or a transmission is the label of a `send` (`Q`), and
the first transmission `tx t0 … 0 t0 …` of that message is among the outputs -/
def Orig (Q : Nat → Nat → Nat → Nat → Prop) (ts : TS) : Prop :=
  (∀ p ∈ ts.pend, Q p.2.sess p.2.mid p.2.T p.2.maxRtx ∧
    TOut.tx p.2.t0 p.2.sess p.2.mid 0 p.2.t0 p.2.T p.2.maxRtx ∈ ts.outs) ∧
  (∀ t s mid k t0 T mx, TOut.tx t s mid k t0 T mx ∈ ts.outs →
    Q s mid T mx ∧ TOut.tx t0 s mid 0 t0 T mx ∈ ts.outs)

theorem fire_orig {Q : Nat → Nat → Nat → Nat → Prop} (fuel : Nat) (ts : TS) (h : Orig Q ts) : Orig Q (fire fuel ts) := by
  induction fuel generalizing ts with
  | zero => exact h
  | succ f ih =>
    rcases ts with ⟨now, pend, outs⟩
    rcases pend with _ | ⟨⟨d, m⟩, r⟩
    · exact h
    · simp only [fire]
      have hhd := h.1 (d, m) (by simp)
      simp only [] at hhd
      split
      · split
        · apply ih
          constructor
          · intro p hp
            rcases mem_pinsert.1 hp with rfl | hp
            · exact ⟨hhd.1, List.mem_cons_of_mem _ hhd.2⟩
            · have := h.1 p (List.mem_cons_of_mem _ hp)
              exact ⟨this.1, List.mem_cons_of_mem _ this.2⟩
          · intro t s mid k t0 T mx ho
            simp only [List.mem_cons] at ho
            rcases ho with ho | ho
            · injection ho with h1 h2 h3 h4 h5 h6 h7
              subst h1 h2 h3 h4 h5 h6 h7
              exact ⟨hhd.1, List.mem_cons_of_mem _ hhd.2⟩
            · have := h.2 _ _ _ _ _ _ _ ho
              exact ⟨this.1, List.mem_cons_of_mem _ this.2⟩
        · apply ih
          constructor
          · intro p hp
            have := h.1 p (List.mem_cons_of_mem _ hp)
            exact ⟨this.1, List.mem_cons_of_mem _ this.2⟩
          · intro t s mid k t0 T mx ho
            simp only [List.mem_cons] at ho
            rcases ho with ho | ho
            · cases ho
            · have := h.2 _ _ _ _ _ _ _ ho
              exact ⟨this.1, List.mem_cons_of_mem _ this.2⟩
      · exact h

theorem step_orig {Q : Nat → Nat → Nat → Nat → Prop} (ts : TS) (ev : TEv) (h : Orig Q ts)
    (hQ : ∀ s mid T mx, ev = .send s mid T mx → Q s mid T mx) : Orig Q (step ts ev) := by
  cases ev with
  | send s mid T mx =>
    have hq := hQ s mid T mx rfl
    simp only [step]
    constructor
    · intro p hp
      rcases mem_pinsert.1 hp with rfl | hp
      · exact ⟨hq, by simp⟩
      · have := h.1 p hp
        exact ⟨this.1, List.mem_cons_of_mem _ this.2⟩
    · intro t s' mid' k t0 T' mx' ho
      simp only [List.mem_cons] at ho
      rcases ho with ho | ho
      · injection ho with h1 h2 h3 h4 h5 h6 h7
        subst h1 h2 h3 h4 h5 h6 h7
        exact ⟨hq, by simp⟩
      · have := h.2 _ _ _ _ _ _ _ ho
        exact ⟨this.1, List.mem_cons_of_mem _ this.2⟩
  | tick now' =>
    simp only [step]
    split
    · exact fire_orig _ _ h
    · exact h
  | tickN now' k =>
    simp only [step]
    split
    · exact fire_orig _ _ h
    · exact h
  | ack s mid =>
    simp only [step]
    rcases hr : premove ts.pend s mid with ⟨_ | m, r⟩
    · exact h
    · simp only []
      constructor
      · intro p hp
        have hm : p ∈ (premove ts.pend s mid).2 := by rw [hr]; exact hp
        have := h.1 p (mem_premove hm)
        exact ⟨this.1, List.mem_cons_of_mem _ this.2⟩
      · intro t s' mid' k t0 T' mx' ho
        simp only [List.mem_cons] at ho
        rcases ho with ho | ho
        · cases ho
        · have := h.2 _ _ _ _ _ _ _ ho
          exact ⟨this.1, List.mem_cons_of_mem _ this.2⟩
  | rst s mid =>
    simp only [step]
    rcases hr : premove ts.pend s mid with ⟨_ | m, r⟩
    · exact h
    · simp only []
      constructor
      · intro p hp
        have hm : p ∈ (premove ts.pend s mid).2 := by rw [hr]; exact hp
        have := h.1 p (mem_premove hm)
        exact ⟨this.1, List.mem_cons_of_mem _ this.2⟩
      · intro t s' mid' k t0 T' mx' ho
        simp only [List.mem_cons] at ho
        rcases ho with ho | ho
        · cases ho
        · have := h.2 _ _ _ _ _ _ _ ho
          exact ⟨this.1, List.mem_cons_of_mem _ this.2⟩

theorem run_orig {Q : Nat → Nat → Nat → Nat → Prop} (evs : List TEv) (ts : TS) (h : Orig Q ts)
    (hQ : ∀ s mid T mx, TEv.send s mid T mx ∈ evs → Q s mid T mx) : Orig Q (run ts evs) := by
  induction evs generalizing ts with
  | nil => exact h
  | cons ev evs ih =>
    exact ih _ (step_orig ts ev h (fun s mid T mx he => hQ s mid T mx (by simp [he])))
      (fun s mid T mx he => hQ s mid T mx (by simp [he]))

theorem orig_init (Q : Nat → Nat → Nat → Nat → Prop) (now0 : Nat) : Orig Q (init now0) := by
  constructor <;> simp [init]

theorem runOk_append (ts : TS) (a b : List TEv) : RunOk ts (a ++ b) ↔ RunOk ts a ∧ RunOk (run ts a) b := by
  induction a generalizing ts with
  | nil => simp [RunOk, run]
  | cons e a ih =>
    simp only [List.cons_append, RunOk, run, List.foldl_cons]
    rw [ih]
    simp only [run, and_assoc]

end Coap.Timer

/-! ## punctual runs of M are punctual runs of S -/
namespace Coap.Sim
open Coap Coap.SQ Coap.Msg Coap.Timer

/-- an I/O step, a submission or an arrival is *punctual* if the clock has not been moved past a pending deadline
(what fires, fires at its deadline) -/
def EvPunct (l : L) : Ev → Prop
  | .setNow _ => True
  | _ => ∀ e ∈ abs l.q, l.now ≤ e.deadline

/-- `EvPunct` threaded along the run of M -/
def Punctual (l : L) : List Ev → Prop
  | [] => True
  | ev :: evs => EvPunct l ev ∧ Punctual (Msg.step l ev) evs

theorem absP_fst (mx : Nat → Nat) (b : Nat) (l : List Node) :
    (absP mx b l).map (·.1) = (absFrom b l).map (·.deadline) := by
  induction l generalizing b with
  | nil => rfl
  | cons n r ih => simp [absP, absFrom, ih]

theorem rel_deadline {mx : Nat → Nat} {l : L} {ts : TS} (hr : Rel mx l ts) :
    ∀ p ∈ ts.pend, ∃ e ∈ abs l.q, e.deadline = p.1 := by
  intro p hp
  have h1 : p.1 ∈ ts.pend.map (·.1) := List.mem_map.2 ⟨p, hp, rfl⟩
  have h2 : ts.pend.map (·.1) = (ts.pend.map er).map (·.1) := by
    rw [List.map_map]; rfl
  rw [h2, hr.pend, absP_fst] at h1
  obtain ⟨e, he, hd⟩ := List.mem_map.1 h1
  exact ⟨e, he, hd⟩

theorem rel_punct {mx : Nat → Nat} {l : L} {ts : TS} (hr : Rel mx l ts) (h : ∀ e ∈ abs l.q, l.now ≤ e.deadline) :
    ∀ p ∈ ts.pend, l.now ≤ p.1 := by
  intro p hp
  obtain ⟨e, he, hd⟩ := rel_deadline hr p hp
  rw [← hd]; exact h e he

theorem step_pend_sub (ts : TS) (s mid : Nat) (rst : Bool) :
    ∀ p ∈ (Timer.step ts (if rst then .rst s mid else .ack s mid)).pend, p ∈ ts.pend := by
  intro p hp
  cases rst
  · simp only [Bool.false_eq_true, if_false, Timer.step] at hp
    rcases hr : premove ts.pend s mid with ⟨_ | m, r⟩
    · rw [hr] at hp; exact hp
    · rw [hr] at hp
      have : p ∈ (premove ts.pend s mid).2 := by rw [hr]; exact hp
      exact mem_premove this
  · simp only [if_true, Timer.step] at hp
    rcases hr : premove ts.pend s mid with ⟨_ | m, r⟩
    · rw [hr] at hp; exact hp
    · rw [hr] at hp
      have : p ∈ (premove ts.pend s mid).2 := by rw [hr]; exact hp
      exact mem_premove this

theorem step_runOk {par : Nat → Sess} {P : Nat → Nat → Nat → Prop} (l : L) (ts : TS) (ev : Ev)
    (_hi : Inv par P l) (hr : Rel (mxOf par) l ts) (hok : EvIn l ev) (hpu : EvPunct l ev) : RunOk ts (tr l ev) := by
  cases ev with
  | setNow t => simp [tr, RunOk]
  | prepare => exact ⟨rel_punct hr hpu, trivial⟩
  | submit s con mid r =>
    obtain ⟨_, _, hnd, hT, _⟩ := hok
    exact ⟨rel_punct hr hpu, hT, trivial⟩
  | rxAck s mid =>
    refine ⟨trivial, ?_, trivial⟩
    intro p hp
    exact rel_punct hr hpu p (step_pend_sub ts s mid false p hp)
  | rxRst s mid =>
    have hnd : NothingDue l := hok
    refine ⟨rel_punct hr hpu, trivial, ?_, trivial⟩
    rw [tick_idle hr hnd]
    intro p hp
    exact rel_punct hr hpu p (step_pend_sub { ts with now := l.now } s mid true p hp)
  | rxNon s mid tok => exact absurd hok (by simp [EvIn])
  | rxBad s mid => exact absurd hok (by simp [EvIn])
  | hold s => exact absurd hok (by simp [EvIn])
  | connect s => exact absurd hok (by simp [EvIn])
  | disconnect s => exact absurd hok (by simp [EvIn])

theorem run_runOk {par : Nat → Sess} {P : Nat → Nat → Nat → Prop} (hp : ParOk par) :
    ∀ (evs : List Ev) (l : L) (ts : TS), Inv par P l → Rel (mxOf par) l ts → RunIn l evs → Punctual l evs →
      (∀ s mid r, Ev.submit s true mid r ∈ evs → P s mid (calcTimeout (par s).atI (par s).atF (par s).arfI (par s).arfF r)) →
      RunOk ts (trRun l evs) := by
  intro evs
  induction evs with
  | nil => intro l ts _ _ _ _ _; trivial
  | cons ev evs ih =>
    intro l ts hi hr hin hpu hP
    obtain ⟨hi1, hr1⟩ := step_sim hp l ts ev hi hr hin.1 (fun s mid r h => hP s mid r (by simp [h]))
    simp only [trRun]
    rw [runOk_append]
    exact ⟨step_runOk l ts ev hi hr hin.1 hpu.1, ih _ _ hi1 hr1 hin.2 hpu.2 (fun s mid r h => hP s mid r (by simp [h]))⟩

/-! ### transmissions seen on M are transmissions of S, and back -/

theorem obs_tx_M_to_S {l : L} {ts : TS} (ho : ts.outs.filterMap obsS = l.out.filterMap obsM)
    {t s mid k : Nat} {c : Bool} (h : Out.tx t s mid k c ∈ l.out) :
    c = true ∧ ∃ t0 T mx, TOut.tx t s mid k t0 T mx ∈ ts.outs := by
  have h1 : Obs.tx t s mid k c ∈ l.out.filterMap obsM := List.mem_filterMap.2 ⟨_, h, rfl⟩
  rw [← ho] at h1
  obtain ⟨o, ho1, ho2⟩ := List.mem_filterMap.1 h1
  cases o with
  | tx t' s' mid' k' t0 T mx =>
    simp only [obsS, Option.some.injEq, Obs.tx.injEq] at ho2
    obtain ⟨rfl, rfl, rfl, rfl, rfl⟩ := ho2
    exact ⟨rfl, t0, T, mx, ho1⟩
  | nackRetries _ _ _ => simp [obsS] at ho2
  | nackRst _ _ _ => simp [obsS] at ho2
  | acked _ _ _ => simp [obsS] at ho2

theorem obs_tx_S_to_M {l : L} {ts : TS} (ho : ts.outs.filterMap obsS = l.out.filterMap obsM)
    {t s mid k t0 T mx : Nat} (h : TOut.tx t s mid k t0 T mx ∈ ts.outs) : Out.tx t s mid k true ∈ l.out := by
  have h1 : Obs.tx t s mid k true ∈ ts.outs.filterMap obsS := List.mem_filterMap.2 ⟨_, h, rfl⟩
  rw [ho] at h1
  obtain ⟨o, ho1, ho2⟩ := List.mem_filterMap.1 h1
  cases o with
  | tx t' s' mid' k' c =>
    simp only [obsM, Option.some.injEq, Obs.tx.injEq] at ho2
    obtain ⟨rfl, rfl, rfl, rfl, rfl⟩ := ho2
    exact ho1
  | nack t' s' reason mid' known =>
    cases reason <;> cases known <;> simp [obsM] at ho2
  | rsp _ _ _ => simp [obsM] at ho2
  | wait _ _ => simp [obsM] at ho2
  | sub _ => simp [obsM] at ho2

end Coap.Sim

/-! ## the wait `coap_io_prepare_io` returns, against every pending deadline of every session -/
namespace Coap.Sim
open Coap Coap.SQ Coap.Msg

theorem prepareCore_wait_all (l : L) : let r := prepareCore l
    (∀ e ∈ abs r.1.q, r.2 ≤ e.deadline - r.1.now) ∧
    (∀ d, Spec.SQ.earliest (abs r.1.q) = some d → r.2 = (d - r.1.now) % 4294967296) ∧
    (r.1.q.nodes = [] → r.2 = 0) := by
  intro r
  simp only [r]
  unfold prepareCore
  generalize dueLoop (dueFuel l) l = l'
  rcases l' with ⟨now, ⟨base, nodes⟩, sess, out⟩
  rcases nodes with _ | ⟨h, rest⟩
  · simp [abs, absFrom, Spec.SQ.earliest]
  · simp only [abs, absFrom, Spec.SQ.earliest, Option.some.injEq, List.mem_cons]
    have hw : ∀ x : Nat, (x * 1000 + 999) / 1000 = x := by intro x; omega
    refine ⟨?_, ?_, by simp⟩
    · intro e he
      have hge : base + h.t ≤ e.deadline := by
        rcases he with rfl | he
        · exact Nat.le_refl _
        · exact absFrom_ge _ _ e he
      rw [hw]
      have := Nat.mod_le (if now ≥ base then h.t - (now - base) else h.t + (base - now)) 4294967296
      split at this <;> rename_i hb <;> simp only [hb, if_true, if_false] <;> omega
    · intro d hd
      subst hd
      rw [hw]
      congr 1
      split <;> omega

end Coap.Sim

/-! ## decidability of the run predicates (for the concrete witnesses) -/
namespace Coap.Sim
open Coap Coap.SQ Coap.Msg

instance (l : L) : Decidable (NothingDue l) :=
  match h : Spec.SQ.earliest (abs l.q) with
  | none => isTrue (by intro d hd; rw [h] at hd; cases hd)
  | some d =>
    if hlt : l.now < d then isTrue (by intro d' hd; rw [h] at hd; cases hd; exact hlt)
    else isFalse (fun hn => hlt (hn d h))

instance (l : L) (ev : Ev) : Decidable (EvIn l ev) := by
  cases ev <;> simp only [EvIn] <;> infer_instance

instance decRunIn : (evs : List Ev) → (l : L) → Decidable (RunIn l evs)
  | [], _ => isTrue trivial
  | ev :: evs, l => by
    unfold RunIn
    exact @instDecidableAnd _ _ _ (decRunIn evs _)

instance (l : L) (ev : Ev) : Decidable (EvPunct l ev) := by
  cases ev <;> simp only [EvPunct] <;> infer_instance

instance decPunctual : (evs : List Ev) → (l : L) → Decidable (Punctual l evs)
  | [], _ => isTrue trivial
  | ev :: evs, l => by
    unfold Punctual
    exact @instDecidableAnd _ _ _ (decPunctual evs _)

end Coap.Sim

/-! ## conservation on M: every `coap_send` is pending or has had exactly one outcome -/
namespace Coap.Sim
open Coap Coap.SQ Coap.Msg Coap.Timer

/-- number of `coap_send` calls for (s, mid) -/
def subC (s mid : Nat) : List Ev → Nat
  | [] => 0
  | ev :: r => (match ev with
      | .submit s' _ m' _ => if s' = s ∧ m' = mid then 1 else 0
      | _ => 0) + subC s mid r

/-- 1 if the output is an outcome NACK (too many retries / RST, carrying the sent PDU) of (s, mid) -/
def nackW (s mid : Nat) (o : Out) : Nat :=
  match obsM o with
  | some (.nackRetries _ s' m') => if s' = s ∧ m' = mid then 1 else 0
  | some (.nackRst _ s' m') => if s' = s ∧ m' = mid then 1 else 0
  | _ => 0

/-- number of outcome NACKs of (s, mid) -/
def nackC (s mid : Nat) : List Out → Nat
  | [] => 0
  | o :: r => nackW s mid o + nackC s mid r

/-- number of nodes of (s, mid) in the send queue -/
def pendC (s mid : Nat) : List Node → Nat
  | [] => 0
  | n :: r => (if n.sess = s ∧ n.mid = mid then 1 else 0) + pendC s mid r

/-- 1 if the event is an ACK for (s, mid) that finds the message in the send queue (the silent completion) -/
def ackW (s mid : Nat) (l : L) : Ev → Nat
  | .rxAck s' m' => if (s' = s ∧ m' = mid) ∧ (removeNode l.q.nodes s' m').1 ≠ none then 1 else 0
  | _ => 0

/-- number of silent completions of (s, mid) along the run -/
def ackC (s mid : Nat) : L → List Ev → Nat
  | _, [] => 0
  | l, ev :: evs => ackW s mid l ev + ackC s mid (Msg.step l ev) evs

/-- S: number of `acked` outputs of (s, mid) -/
def ackS (s mid : Nat) : List TOut → Nat
  | [] => 0
  | o :: r => (match o with
      | .acked _ s' m' => if s' = s ∧ m' = mid then 1 else 0
      | _ => 0) + ackS s mid r

/-- S: number of NACK outputs of (s, mid) -/
def nackS (s mid : Nat) : List TOut → Nat
  | [] => 0
  | o :: r => (match o with
      | .nackRetries _ s' m' => if s' = s ∧ m' = mid then 1 else 0
      | .nackRst _ s' m' => if s' = s ∧ m' = mid then 1 else 0
      | _ => 0) + nackS s mid r

/-- number of NACK observations of (s, mid) -/
def obsN (s mid : Nat) : List Obs → Nat
  | [] => 0
  | o :: r => (match o with
      | .nackRetries _ s' m' => if s' = s ∧ m' = mid then 1 else 0
      | .nackRst _ s' m' => if s' = s ∧ m' = mid then 1 else 0
      | _ => 0) + obsN s mid r

theorem oc_split (s mid : Nat) (outs : List TOut) : oc s mid outs = nackS s mid outs + ackS s mid outs := by
  induction outs with
  | nil => rfl
  | cons o r ih => cases o <;> simp only [oc, outW, nackS, ackS, ih] <;> omega

theorem nackS_obs (s mid : Nat) (outs : List TOut) : nackS s mid outs = obsN s mid (outs.filterMap obsS) := by
  induction outs with
  | nil => rfl
  | cons o r ih => cases o <;> simp [nackS, obsS, obsN, List.filterMap_cons, ih]

theorem nackC_obs (s mid : Nat) (out : List Out) : nackC s mid out = obsN s mid (out.filterMap obsM) := by
  induction out with
  | nil => rfl
  | cons o r ih =>
    simp only [nackC, nackW, List.filterMap_cons, ih]
    cases ho : obsM o with
    | none => simp
    | some b => cases b <;> simp [obsN]

theorem pc_er (s mid : Nat) (l : List (Nat × PMsg)) : pc s mid (l.map er) = pc s mid l := by
  induction l with
  | nil => rfl
  | cons x r ih => simp only [List.map_cons, pc, ih]; rfl

theorem pc_absP (s mid : Nat) (mx : Nat → Nat) (b : Nat) (ns : List Node) :
    pc s mid (absP mx b ns) = pendC s mid ns := by
  induction ns generalizing b with
  | nil => rfl
  | cons n r ih => simp only [absP, pc, pendC, ih]; rfl

theorem sc_append (s mid : Nat) (a b : List TEv) : sc s mid (a ++ b) = sc s mid a + sc s mid b := by
  induction a with
  | nil => simp [sc]
  | cons e a ih => simp only [List.cons_append, sc, ih]; omega

theorem sc_trRun (s mid : Nat) (evs : List Ev) : ∀ l : L, sc s mid (trRun l evs) = subC s mid evs := by
  induction evs with
  | nil => intro l; rfl
  | cons ev evs ih =>
    intro l
    simp only [trRun, sc_append, subC, ih]
    cases ev <;> simp [tr, sc, sendW]

theorem ackS_fire (s mid : Nat) (f : Nat) (ts : TS) : ackS s mid (fire f ts).outs = ackS s mid ts.outs := by
  induction f generalizing ts with
  | zero => rfl
  | succ f ih =>
    rcases ts with ⟨now, pend, outs⟩
    rcases pend with _ | ⟨⟨d, m⟩, r⟩
    · rfl
    · simp only [fire]
      split
      · split <;> rw [ih] <;> simp [ackS]
      · rfl

theorem ackS_tick (s mid : Nat) (ts : TS) (t : Nat) :
    ackS s mid (Timer.step ts (.tick t)).outs = ackS s mid ts.outs := by
  simp only [Timer.step]
  split
  · rw [ackS_fire]
  · rfl

theorem ackS_send (s mid : Nat) (ts : TS) (s' m' T mx : Nat) :
    ackS s mid (Timer.step ts (.send s' m' T mx)).outs = ackS s mid ts.outs := by
  simp [Timer.step, ackS]

theorem ackS_rst (s mid : Nat) (ts : TS) (s' m' : Nat) :
    ackS s mid (Timer.step ts (.rst s' m')).outs = ackS s mid ts.outs := by
  simp only [Timer.step]
  rcases premove ts.pend s' m' with ⟨_ | m, r⟩ <;> simp [ackS]

theorem ackS_ack (s mid : Nat) (ts : TS) (s' m' : Nat) :
    ackS s mid (Timer.step ts (.ack s' m')).outs =
      ackS s mid ts.outs + (if (s' = s ∧ m' = mid) ∧ (premove ts.pend s' m').1 ≠ none then 1 else 0) := by
  simp only [Timer.step]
  rcases premove ts.pend s' m' with ⟨_ | m, r⟩
  · simp
  · by_cases h : s' = s ∧ m' = mid
    · simp [ackS, h]; omega
    · simp [ackS, h]

theorem ackS_step {par : Nat → Sess} {P : Nat → Nat → Nat → Prop} (s mid : Nat) (l : L) (ts : TS) (ev : Ev)
    (hi : Inv par P l) (hr : Rel (mxOf par) l ts) :
    ackS s mid (Timer.run ts (tr l ev)).outs = ackS s mid ts.outs + ackW s mid l ev := by
  cases ev with
  | rxAck s' m' =>
    have h2 := (remove_sim l ts s' m' hi hr).2.1
    simp only [tr, Timer.run, List.foldl_cons, List.foldl_nil, ackS_tick, ackS_ack, ackW]
    by_cases hf : (removeNode l.q.nodes s' m').1 = none
    · have := h2.1 hf; simp [hf, this]
    · have : (premove ts.pend s' m').1 ≠ none := fun h => hf (h2.2 h)
      simp [hf, this]
  | _ => simp [tr, Timer.run, ackS_tick, ackS_send, ackS_rst, ackW]

theorem ackS_run {par : Nat → Sess} {P : Nat → Nat → Nat → Prop} (hp : ParOk par) (s mid : Nat) :
    ∀ (evs : List Ev) (l : L) (ts : TS), Inv par P l → Rel (mxOf par) l ts → RunIn l evs →
      (∀ s mid r, Ev.submit s true mid r ∈ evs → P s mid (calcTimeout (par s).atI (par s).atF (par s).arfI (par s).arfF r)) →
      ackS s mid (Timer.run ts (trRun l evs)).outs = ackS s mid ts.outs + ackC s mid l evs := by
  intro evs
  induction evs with
  | nil => intro l ts _ _ _ _; simp [trRun, Timer.run, ackC]
  | cons ev evs ih =>
    intro l ts hi hr hin hP
    obtain ⟨hi1, hr1⟩ := step_sim hp l ts ev hi hr hin.1 (fun s mid r h => hP s mid r (by simp [h]))
    simp only [trRun, timer_run_append, ackC]
    rw [ih _ _ hi1 hr1 hin.2 (fun s mid r h => hP s mid r (by simp [h])), ackS_step s mid l ts ev hi hr]
    omega

end Coap.Sim

/-! ## a concluded message is never sent again -/
namespace Coap.Timer

/-- S: number of transmissions (first or repeated) of (s, mid) -/
def txS (s mid : Nat) : List TOut → Nat
  | [] => 0
  | o :: r => (match o with
      | .tx _ s' m' _ _ _ _ => if s' = s ∧ m' = mid then 1 else 0
      | _ => 0) + txS s mid r

theorem fire_quiet (s mid : Nat) (f : Nat) (ts : TS) (h : pc s mid ts.pend = 0) :
    txS s mid (fire f ts).outs = txS s mid ts.outs ∧ pc s mid (fire f ts).pend = 0 := by
  induction f generalizing ts with
  | zero => exact ⟨rfl, h⟩
  | succ f ih =>
    rcases ts with ⟨now, pend, outs⟩
    rcases pend with _ | ⟨⟨d, m⟩, r⟩
    · exact ⟨rfl, h⟩
    · simp only [pc] at h
      have hm : ¬ (m.sess = s ∧ m.mid = mid) := by
        intro hm; simp [hm] at h
      have hr : pc s mid r = 0 := by omega
      simp only [fire]
      split
      · split
        · have := ih ⟨now, pinsert r (now + m.T * 2 ^ (m.cnt + 1), { m with cnt := m.cnt + 1 }),
              TOut.tx now m.sess m.mid (m.cnt + 1) m.t0 m.T m.maxRtx :: outs⟩
            (by simp only [pc_pinsert, hm, if_false, hr])
          rw [this.1]
          exact ⟨by simp [txS, hm], this.2⟩
        · have := ih ⟨now, r, TOut.nackRetries now m.sess m.mid :: outs⟩ hr
          rw [this.1]
          exact ⟨by simp [txS], this.2⟩
      · exact ⟨rfl, by simp only [pc, hm, if_false, hr]⟩

theorem step_quiet (s mid : Nat) (ts : TS) (ev : TEv) (h : pc s mid ts.pend = 0) (hs : sendW s mid ev = 0) :
    txS s mid (step ts ev).outs = txS s mid ts.outs ∧ pc s mid (step ts ev).pend = 0 := by
  cases ev with
  | send s' m' T mx =>
    have hm : ¬ (s' = s ∧ m' = mid) := by
      intro hm; simp [sendW, hm] at hs
    simp only [step, pc_pinsert, hm, if_false, h, txS]
    simp
  | tick now' =>
    simp only [step]
    split
    · exact fire_quiet s mid _ { ts with now := now' } h
    · exact ⟨rfl, h⟩
  | tickN now' k =>
    simp only [step]
    split
    · exact fire_quiet s mid _ { ts with now := now' } h
    · exact ⟨rfl, h⟩
  | ack s' m' =>
    have hp := pc_premove s mid s' m' ts.pend
    simp only [step]
    rcases hr : premove ts.pend s' m' with ⟨_ | m, r⟩
    · exact ⟨rfl, h⟩
    · rw [hr] at hp
      simp only [] at hp ⊢
      exact ⟨by simp [txS], by omega⟩
  | rst s' m' =>
    have hp := pc_premove s mid s' m' ts.pend
    simp only [step]
    rcases hr : premove ts.pend s' m' with ⟨_ | m, r⟩
    · exact ⟨rfl, h⟩
    · rw [hr] at hp
      simp only [] at hp ⊢
      exact ⟨by simp [txS], by omega⟩

/-- S: once nothing of (s, mid) is pending and it is not sent again, it is never transmitted again -/
theorem run_quiet (s mid : Nat) (evs : List TEv) (ts : TS) (h : pc s mid ts.pend = 0) (hs : sc s mid evs = 0) :
    txS s mid (run ts evs).outs = txS s mid ts.outs ∧ pc s mid (run ts evs).pend = 0 := by
  induction evs generalizing ts with
  | nil => exact ⟨rfl, h⟩
  | cons ev evs ih =>
    simp only [sc] at hs
    have h1 := step_quiet s mid ts ev h (by omega)
    have h2 := ih (step ts ev) h1.2 (by omega)
    simp only [run, List.foldl_cons] at h2 ⊢
    exact ⟨by rw [h2.1, h1.1], h2.2⟩

end Coap.Timer

namespace Coap.Sim
open Coap Coap.SQ Coap.Msg Coap.Timer

/-- M: number of transmissions (first or repeated) of the Confirmable (s, mid) -/
def txC (s mid : Nat) : List Out → Nat
  | [] => 0
  | o :: r => (match o with
      | .tx _ s' m' _ true => if s' = s ∧ m' = mid then 1 else 0
      | _ => 0) + txC s mid r

def obsT (s mid : Nat) : List Obs → Nat
  | [] => 0
  | o :: r => (match o with
      | .tx _ s' m' _ true => if s' = s ∧ m' = mid then 1 else 0
      | _ => 0) + obsT s mid r

theorem txS_obs (s mid : Nat) (outs : List TOut) : txS s mid outs = obsT s mid (outs.filterMap obsS) := by
  induction outs with
  | nil => rfl
  | cons o r ih => cases o <;> simp [txS, obsS, obsT, List.filterMap_cons, ih]

theorem txC_obs (s mid : Nat) (out : List Out) : txC s mid out = obsT s mid (out.filterMap obsM) := by
  induction out with
  | nil => rfl
  | cons o r ih =>
    cases o with
    | nack t s' reason m' known => cases reason <;> cases known <;> simp [txC, obsM, obsT, List.filterMap_cons, ih]
    | tx t s' m' k c => cases c <;> simp [txC, obsM, obsT, List.filterMap_cons, ih]
    | _ => simp [txC, obsM, obsT, List.filterMap_cons, ih]

theorem runIn_append (l : L) (a b : List Ev) : RunIn l (a ++ b) ↔ RunIn l a ∧ RunIn (Msg.run l a) b := by
  induction a generalizing l with
  | nil => simp [RunIn, Msg.run]
  | cons e a ih =>
    simp only [List.cons_append, RunIn, Msg.run, List.foldl_cons]
    rw [ih]
    simp only [Msg.run, and_assoc]

/-- M: from an in-scope state in which nothing of (s, mid) is queued, a run that does not submit (s, mid) again
never transmits it -/
theorem quiet_sim {par : Nat → Sess} {P : Nat → Nat → Nat → Prop} (hp : ParOk par) (s mid : Nat) (evs : List Ev)
    (l : L) (ts : TS) (hi : Inv par P l) (hr : Rel (mxOf par) l ts) (hin : RunIn l evs)
    (hP : ∀ s mid r, Ev.submit s true mid r ∈ evs → P s mid (calcTimeout (par s).atI (par s).atF (par s).arfI (par s).arfF r))
    (h0 : pendC s mid l.q.nodes = 0) (hs : subC s mid evs = 0) :
    txC s mid (Msg.run l evs).out = txC s mid l.out ∧ pendC s mid (Msg.run l evs).q.nodes = 0 := by
  obtain ⟨_, hr2, _⟩ := run_sim hp evs l ts hi hr hin hP
  have hpc : pc s mid ts.pend = 0 := by rw [← pc_er, hr.pend, pc_absP]; exact h0
  have hq := run_quiet s mid (trRun l evs) ts hpc (by rw [sc_trRun]; exact hs)
  constructor
  · rw [txC_obs, ← hr2.outs, ← txS_obs, hq.1, txS_obs, hr.outs, ← txC_obs]
  · rw [← pc_absP s mid (mxOf par) (Msg.run l evs).q.base, ← hr2.pend, pc_er]; exact hq.2

end Coap.Sim
