import CoapVerif.Lemmas.EditTrace
/-
M-side lemmas for the editors (C04), part 6: the RETURN CODE of a removal is prescribed (SPEC DECISION D17) — along any
script M's coap_remove_option returns 1 exactly when the abstract message reached so far holds an option with that number
(`TraceRc`, `run_refines_rc`, `editTraceRc_of_traceRc`).
-/
namespace Coap
open Coap.M

/-- D17: what S prescribes for the return code of a call on the abstract message `a` — a removal returns 1 exactly when
`a` holds an option with that number, else 0; nothing for the other calls (D14: they may be refused) -/
def RcPrescribed (a : Msg) : Call → Nat → Prop
  | .removeOption n, rc => rc = (if Spec.hasOpt n a.opts = true then 1 else 0)
  | _, _ => True

/-- a script on the abstract message, every step a step of S with a prescribed return code -/
inductive TraceRc : Msg → List Call → List Nat → Msg → Prop
  | nil (a : Msg) : TraceRc a [] [] a
  | cons {a a1 a' : Msg} {c : Call} {rc : Nat} {cs : List Call} {rcs : List Nat} :
      Step a c rc a1 → RcPrescribed a c rc → TraceRc a1 cs rcs a' → TraceRc a (c :: cs) (rc :: rcs) a'

theorem absCall_rc (ms : Nat) (a : Msg) (c : Call) : RcPrescribed a c (absCall ms a c).1 := by
  cases c with
  | removeOption n =>
    show (absRemove a n).1 = _
    unfold absRemove
    cases Spec.hasOpt n a.opts <;> rfl
  | _ => trivial

theorem absRun_traceRc (ms : Nat) (cs : List Call) : ∀ a, TraceRc a cs (absRun ms a cs).1 (absRun ms a cs).2 := by
  induction cs with
  | nil => intro a; exact TraceRc.nil a
  | cons c cs ih => intro a; exact TraceRc.cons (absCall_step ms a c) (absCall_rc ms a c) (ih _)

/-- `run_refines` with the prescribed return codes -/
theorem run_refines_rc (ms : Nat) (a : Msg) (cs : List Call) (hs : Shape a) (hc : ∀ c ∈ cs, callNumOk c) :
    ∃ rcs a', run (conc ms a) cs = R.ok (rcs, conc ms a') ∧ TraceRc a cs rcs a' ∧ Shape a' :=
  ⟨_, _, (run_conc ms cs a hs hc).1, absRun_traceRc ms cs a, (run_conc ms cs a hs hc).2⟩

/-- D17 on `Spec.Edit`s -/
def EditRc (a : Msg) : Spec.Edit → Nat → Prop
  | .remove n, rc => rc = (if Spec.hasOpt n a.opts = true then 1 else 0)
  | _, _ => True

/-- `EditTrace` where, in addition, every return code is one S prescribes (D17): a removal is `accepted` (rc = 1) exactly
on a message holding the option, `refused` (rc = 0) exactly on a message without it — where it is the identity anyway -/
inductive EditTraceRc : Msg → List Spec.Edit → List Nat → Msg → Prop
  | nil (a : Msg) : EditTraceRc a [] [] a
  | accepted {a a' : Msg} {e : Spec.Edit} {es : List Spec.Edit} {rc : Nat} {rcs : List Nat} (hop : Bool) :
      rc ≠ 0 → (hop = true → hopDomain a (callOf e) = true) → EditRc a e rc →
      EditTraceRc (Spec.applyEdit hop a e) es rcs a' → EditTraceRc a (e :: es) (rc :: rcs) a'
  | refused {a a' : Msg} {e : Spec.Edit} {es : List Spec.Edit} {rcs : List Nat} :
      EditRc a e 0 → EditTraceRc a es rcs a' → EditTraceRc a (e :: es) (0 :: rcs) a'

theorem editRc_of_rcPrescribed (a : Msg) (e : Spec.Edit) (rc : Nat) (h : RcPrescribed a (callOf e) rc) : EditRc a e rc := by
  cases e <;> first | exact h | trivial

theorem editTraceRc_of_traceRc (es : List Spec.Edit) : ∀ (a a' : Msg) (rcs : List Nat),
    TraceRc a (es.map callOf) rcs a' → EditTraceRc a es rcs a' := by
  induction es with
  | nil =>
    intro a a' rcs h
    cases h
    exact EditTraceRc.nil a
  | cons e es ih =>
    intro a a' rcs h
    rw [List.map_cons] at h
    cases h with
    | cons hstep hrc htail =>
      have ht := ih _ _ _ htail
      have hrc' := editRc_of_rcPrescribed _ e _ hrc
      cases hstep with
      | accepted rc hop h1 h2 =>
        rw [callSem_callOf] at ht
        exact EditTraceRc.accepted hop h1 h2 hrc' ht
      | refused => exact EditTraceRc.refused hrc' ht

/-- forgetting the return-code prescription -/
theorem editTrace_of_editTraceRc {a a' : Msg} {es : List Spec.Edit} {rcs : List Nat} (h : EditTraceRc a es rcs a') :
    EditTrace a es rcs a' := by
  induction h with
  | nil a => exact EditTrace.nil a
  | accepted hop h1 h2 _ _ ih => exact EditTrace.accepted hop h1 h2 ih
  | refused _ _ ih => exact EditTrace.refused ih

end Coap
