import CoapVerif.Lemmas.QBlock
/- Lemmas about the payload-set arithmetic of the Q-Block model (Model/QBlock.lean, round R02Qb): the recovery request of
   `coap_request_missing_q_block2`, the burst of `coap_send_q_blocks`, the client's Q-Block2 bookkeeping invariant. -/
set_option linter.unusedSimpArgs false
set_option linter.unusedVariables false
namespace Coap.QBlock
open Coap Coap.Block Coap.Spec.Block

/-- strictly increasing numbers inside a window of `k` numbers: at most `k` of them -/
theorem pairwise_window : ∀ (l : List Nat) (a k : Nat), l.Pairwise (· < ·) → (∀ x, x ∈ l → a ≤ x ∧ x < a + k) → l.length ≤ k
  | [], _, _, _, _ => by simp
  | h :: t, a, k, hp, hw => by
    rw [List.pairwise_cons] at hp
    have hh := hw h (by simp)
    have := pairwise_window t (h + 1) (a + k - h - 1) hp.2 (fun x hx => by
      have h1 := hp.1 x hx
      have h2 := hw x (by simp [hx])
      omega)
    simp only [List.length_cons]
    omega

/-- strictly increasing numbers of ONE payload set: at most MAX_PAYLOADS of them -/
theorem pairwise_one_set (mp s : Nat) (hmp : 0 < mp) (l : List Nat) (hp : l.Pairwise (· < ·)) (hs : ∀ x, x ∈ l → x / mp = s) :
    l.length ≤ mp := by
  apply pairwise_window l (mp * s) mp hp
  intro x hx
  have h1 := Nat.div_add_mod x mp
  have h2 := Nat.mod_lt x hmp
  rw [hs x hx] at h1
  omega

theorem reqRun_spec (mp bps lim : Nat) : ∀ (fuel block : Nat) (acc : List Nat),
    ∃ l, (reqRun mp bps lim fuel block acc).2 = acc ++ l ∧ l.Pairwise (· < ·) ∧ block ≤ (reqRun mp bps lim fuel block acc).1 ∧
      ∀ x, x ∈ l → block ≤ x ∧ x < lim ∧ x / mp = bps ∧ x < (reqRun mp bps lim fuel block acc).1
  | 0, block, acc => ⟨[], by simp [reqRun]⟩
  | f + 1, block, acc => by
    unfold reqRun
    by_cases hc : block < lim ∧ block / mp = bps
    · rw [if_pos hc]
      obtain ⟨l, h1, h2, h3, h4⟩ := reqRun_spec mp bps lim f (block + 1) (acc ++ [block])
      refine ⟨block :: l, by rw [h1]; simp, ?_, by omega, ?_⟩
      · rw [List.pairwise_cons]
        exact ⟨fun x hx => by have := (h4 x hx).1; omega, h2⟩
      · intro x hx
        rcases List.mem_cons.mp hx with rfl | hx
        · exact ⟨Nat.le_refl _, hc.1, hc.2, by omega⟩
        · have := h4 x hx
          exact ⟨by omega, this.2.1, this.2.2.1, this.2.2.2⟩
    · rw [if_neg hc]
      exact ⟨[], by simp⟩

theorem nxt_bumpTo (block : Option Nat) (e : Nat) : nxt block ≤ nxt (bumpTo block e) ∧ e + 1 ≤ nxt (bumpTo block e) := by
  cases block with
  | none => simp [nxt, bumpTo]
  | some k =>
    by_cases h : k < e
    · simp [nxt, bumpTo, h]; omega
    · simp [nxt, bumpTo, h]; omega

/-- the invariant of the listed numbers -/
def ReqAcc (mp : Nat) (Q : Nat → Prop) (block bps : Option Nat) (acc : List Nat) : Prop :=
  acc.Pairwise (· < ·) ∧ (∀ x, x ∈ acc → x < nxt block ∧ Q x) ∧ (bps = none → acc = []) ∧ ∀ s, bps = some s → ∀ x, x ∈ acc → x / mp = s

theorem reqGaps_spec (mp : Nat) (Q : Nat → Prop) : ∀ (rs : Ranges) (block bps : Option Nat) (acc : List Nat),
    (∀ r, r ∈ rs → ∀ x, x < r.1 → Q x) → ReqAcc mp Q block bps acc →
    ReqAcc mp Q (reqGaps mp rs block bps acc).1 (reqGaps mp rs block bps acc).2.1 (reqGaps mp rs block bps acc).2.2
  | [], _, _, _, _, h => by simpa [reqGaps] using h
  | (b, e) :: rest, block, bps, acc, hq, ⟨h1, h2, h3, h4⟩ => by
    unfold reqGaps
    by_cases hc : nxt block ≤ b ∧ b ≠ 0
    · rw [if_pos hc]
      simp only []
      obtain ⟨l, e1, e2, e3, e4⟩ := reqRun_spec mp (setBps mp bps (nxt block)) b (b - nxt block) (nxt block) acc
      apply reqGaps_spec mp Q rest _ _ _ (fun r hr => hq r (by simp [hr]))
      rw [e1]
      have hb := nxt_bumpTo (some (reqRun mp (setBps mp bps (nxt block)) b (b - nxt block) (nxt block) acc).1) e
      have hn : nxt (some (reqRun mp (setBps mp bps (nxt block)) b (b - nxt block) (nxt block) acc).1) =
          (reqRun mp (setBps mp bps (nxt block)) b (b - nxt block) (nxt block) acc).1 + 1 := rfl
      refine ⟨?_, ?_, (by intro h; cases h), ?_⟩
      · rw [List.pairwise_append]
        exact ⟨h1, e2, fun a ha x hx => by have := (h2 a ha).1; have := (e4 x hx).1; omega⟩
      · intro x hx
        rcases List.mem_append.mp hx with hx | hx
        · have := h2 x hx
          exact ⟨by omega, this.2⟩
        · have := e4 x hx
          exact ⟨by omega, hq (b, e) (by simp) x this.2.1⟩
      · intro s hs x hx
        have hs' : setBps mp bps (nxt block) = s := by injection hs
        rcases List.mem_append.mp hx with hx | hx
        · cases bps with
          | none => rw [h3 rfl] at hx; cases hx
          | some s0 =>
            have : setBps mp (some s0) (nxt block) = s0 := rfl
            rw [← hs', this]
            exact h4 s0 rfl x hx
        · rw [← hs']; exact (e4 x hx).2.2.1
    · rw [if_neg hc]
      apply reqGaps_spec mp Q rest _ _ _ (fun r hr => hq r (by simp [hr]))
      have hb := nxt_bumpTo block e
      exact ⟨h1, fun x hx => by have := h2 x hx; exact ⟨by omega, this.2⟩, h3, h4⟩

/-- below the number of blocks of the body = offset inside the body -/
theorem lt_nb_offset (x bs total : Nat) (hbs : 0 < bs) (h : x < (total + bs - 1) / bs) : x * bs < total := by
  have h1 : x + 1 ≤ (total + bs - 1) / bs := h
  rw [Nat.le_div_iff_mul_le hbs] at h1
  have : (x + 1) * bs = x * bs + bs := by rw [Nat.add_mul]; simp
  omega

/-- what `reqMissingQ2_spec` says about a result -/
def ReqOk (mp : Nat) (rs : Ranges) (szx totalLen : Nat) (out : List (Nat × Nat) × Option Nat) : Prop :=
  (out.1.map Prod.fst).Pairwise (· < ·) ∧ out.1.length ≤ mp ∧
  (∀ q, q ∈ out.1 → ((∃ r, r ∈ rs ∧ q.1 < r.1) ∨ q.1 * 2 ^ (szx + 4) < totalLen) ∧ q.2 ≤ 1) ∧
  (out.1 ≠ [] → ∃ s, out.2 = some s ∧ ∀ q, q ∈ out.1 → q.1 / mp = s)

/-- What ONE recovery request of `coap_request_missing_q_block2` names, for EVERY `rec_blocks`, block size, total length,
MAX_PAYLOADS ≥ 1, with or without the `M` variant: strictly increasing numbers (no duplicates) of ONE payload set — hence
at most MAX_PAYLOADS options —, each either below a recorded block or with its offset inside the body; and the new
`processing_payload_set` is that payload set. -/
theorem reqMissingQ2At_spec (mp : Nat) (hmp : 0 < mp) (useM : Bool) (rs : Ranges) (szx totalLen : Nat) :
    ReqOk mp rs szx totalLen (reqMissingQ2At mp useM rs szx totalLen) := by
  let Q : Nat → Prop := fun x => (∃ r, r ∈ rs ∧ x < r.1) ∨ x * 2 ^ (szx + 4) < totalLen
  have hbs : 0 < 2 ^ (szx + 4) := Nat.two_pow_pos _
  have hg := reqGaps_spec mp Q rs none none [] (fun r hr x hx => Or.inl ⟨r, hr, hx⟩)
    ⟨List.Pairwise.nil, by simp, by simp, by simp⟩
  -- a list of plain numbers with the invariant gives the four claims
  have fin : ∀ (l : List Nat) (s : Option Nat), l.Pairwise (· < ·) → (∀ x, x ∈ l → Q x) → (s = none → l = []) →
      (∀ s', s = some s' → ∀ x, x ∈ l → x / mp = s') → ReqOk mp rs szx totalLen (l.map (fun n => (n, 0)), s) := by
    intro l s hp hq hn hs
    have hmap : (l.map (fun n => ((n, 0) : Nat × Nat))).map Prod.fst = l := by simp [List.map_map, Function.comp_def]
    refine ⟨by show ((l.map (fun n => ((n, 0) : Nat × Nat))).map Prod.fst).Pairwise _; rw [hmap]; exact hp, ?_, ?_, ?_⟩
    · show (l.map _).length ≤ mp
      rw [List.length_map]
      cases s with
      | none => rw [hn rfl]; simp
      | some s' => exact pairwise_one_set mp s' hmp l hp (hs s' rfl)
    · intro q hq'
      obtain ⟨n, hn', rfl⟩ := List.mem_map.mp hq'
      exact ⟨hq n hn', by simp⟩
    · intro hne
      cases s with
      | none => rw [hn rfl] at hne; simp at hne
      | some s' =>
        refine ⟨s', rfl, ?_⟩
        intro q hq'
        obtain ⟨n, hn', rfl⟩ := List.mem_map.mp hq'
        exact hs s' rfl n hn'
  unfold reqMissingQ2At
  simp only []
  split
  · -- the M variant: one option, offset inside the body
    rename_i blk hblk
    have hin : blk * 2 ^ (szx + 4) < totalLen := by
      split at hblk
      · rename_i b0 _
        by_cases hb : b0 * 2 ^ (szx + 4) < totalLen
        · rw [if_pos hb] at hblk; injection hblk with hblk; rw [← hblk]; exact hb
        · rw [if_neg hb] at hblk; cases hblk
      · cases hblk
    refine ⟨by simp, (by simp; omega), ?_, ?_⟩
    · intro q hq
      simp at hq
      subst hq
      exact ⟨Or.inr hin, by simp⟩
    · intro _
      exact ⟨blk / mp, rfl, by intro q hq; simp at hq; subst hq; rfl⟩
  · by_cases ht : nxt (reqGaps mp rs none none []).1 * 2 ^ (szx + 4) < totalLen
    · rw [if_pos ht]
      obtain ⟨h1, h2, h3, h4⟩ := hg
      obtain ⟨l, e1, e2, e3, e4⟩ := reqRun_spec mp (setBps mp (reqGaps mp rs none none []).2.1 (nxt (reqGaps mp rs none none []).1))
        ((totalLen + 2 ^ (szx + 4) - 1) / 2 ^ (szx + 4))
        ((totalLen + 2 ^ (szx + 4) - 1) / 2 ^ (szx + 4) - nxt (reqGaps mp rs none none []).1)
        (nxt (reqGaps mp rs none none []).1) (reqGaps mp rs none none []).2.2
      rw [e1]
      apply fin _ (some _)
      · rw [List.pairwise_append]
        exact ⟨h1, e2, fun a ha x hx => by have := (h2 a ha).1; have := (e4 x hx).1; omega⟩
      · intro x hx
        rcases List.mem_append.mp hx with hx | hx
        · exact (h2 x hx).2
        · exact Or.inr (lt_nb_offset x _ totalLen hbs (e4 x hx).2.1)
      · intro h; cases h
      · intro s' hs' x hx
        injection hs' with hs'
        rcases List.mem_append.mp hx with hx | hx
        · cases hb : (reqGaps mp rs none none []).2.1 with
          | none => rw [h3 hb] at hx; cases hx
          | some s0 =>
            rw [hb] at hs'
            have : setBps mp (some s0) (nxt (reqGaps mp rs none none []).1) = s0 := rfl
            rw [← hs', this]
            exact h4 s0 hb x hx
        · rw [← hs']; exact (e4 x hx).2.2.1
    · rw [if_neg ht]
      obtain ⟨h1, h2, h3, h4⟩ := hg
      exact fin _ _ h1 (fun x hx => (h2 x hx).2) h3 h4

/-! ## coap_send_q_blocks -/

/-- the clamp of `coap_request_missing_q_block2`: never more than the length, never more than 2^20 blocks -/
theorem q2ClampLen_le (szx totalLen : Nat) :
    q2ClampLen szx totalLen ≤ totalLen ∧ q2ClampLen szx totalLen ≤ 2 ^ 20 * 2 ^ (szx + 4) := by
  unfold q2ClampLen
  generalize 2 ^ 20 * 2 ^ (szx + 4) = c
  split <;> omega

theorem ReqOk_mono (mp : Nat) (rs : Ranges) (szx a b : Nat) (out : List (Nat × Nat) × Option Nat) (hab : a ≤ b)
    (h : ReqOk mp rs szx a out) : ReqOk mp rs szx b out := by
  refine ⟨h.1, h.2.1, fun q hq => ?_, h.2.2.2⟩
  have := h.2.2.1 q hq
  refine ⟨?_, this.2⟩
  rcases this.1 with hl | hl
  · exact Or.inl hl
  · exact Or.inr (Nat.lt_of_lt_of_le hl hab)

/-- `coap_request_missing_q_block2` (with the clamp): `ReqOk` for the clamped length, hence for `total_len` -/
theorem reqMissingQ2_clamped (mp : Nat) (hmp : 0 < mp) (useM : Bool) (rs : Ranges) (szx totalLen : Nat) :
    ReqOk mp rs szx (q2ClampLen szx totalLen) (reqMissingQ2 mp useM rs szx totalLen) :=
  reqMissingQ2At_spec mp hmp useM rs szx (q2ClampLen szx totalLen)

theorem reqMissingQ2_spec (mp : Nat) (hmp : 0 < mp) (useM : Bool) (rs : Ranges) (szx totalLen : Nat) :
    ReqOk mp rs szx totalLen (reqMissingQ2 mp useM rs szx totalLen) :=
  ReqOk_mono mp rs szx _ _ _ (q2ClampLen_le szx totalLen).1 (reqMissingQ2_clamped mp hmp useM rs szx totalLen)

/-- for EVERY `rec_blocks` and EVERY `total_len`: a number named by the recovery request lies below a recorded begin or is
a 20-bit number -/
theorem reqMissingQ2_20bit (mp : Nat) (hmp : 0 < mp) (useM : Bool) (rs : Ranges) (szx totalLen : Nat) :
    ∀ q, q ∈ (reqMissingQ2 mp useM rs szx totalLen).1 → (∃ r, r ∈ rs ∧ q.1 < r.1) ∨ q.1 < 2 ^ 20 := by
  intro q hq
  rcases ((reqMissingQ2_clamped mp hmp useM rs szx totalLen).2.2.1 q hq).1 with hl | hl
  · exact Or.inl hl
  · refine Or.inr ?_
    have h2 := (q2ClampLen_le szx totalLen).2
    exact Nat.lt_of_mul_lt_mul_right (Nat.lt_of_lt_of_le hl h2)


theorem same_set_succ (n mp : Nat) (hmp : 0 < mp) (h : n % mp + 1 ≠ mp) : (n + 1) / mp = n / mp := by
  have h1 := Nat.div_add_mod n mp
  have h2 := Nat.mod_lt n hmp
  apply Nat.div_eq_of_lt_le
  · rw [Nat.mul_comm]; omega
  · rw [Nat.add_mul, Nat.mul_comm]; omega

theorem sendQLoop_spec (mp len szx : Nat) (hmp : 0 < mp) : ∀ (fuel num : Nat) (acc : List (Nat × Nat)),
    ∃ l, sendQLoop mp len szx fuel num acc = acc ++ l ∧ (l.map Prod.fst).Pairwise (· < ·) ∧
      ∀ x, x ∈ l → num < x.1 ∧ blockOffset x.1 szx < len ∧ x.2 = moreBit len x.1 szx ∧ x.1 / mp = (num + 1) / mp
  | 0, num, acc => ⟨[], by simp [sendQLoop]⟩
  | f + 1, num, acc => by
    unfold sendQLoop
    simp only []
    by_cases h1 : len ≤ blockOffset (num + 1) szx
    · rw [if_pos h1]; exact ⟨[], by simp⟩
    · rw [if_neg h1]
      by_cases h2 : moreBit len (num + 1) szx = 1 ∧ (num + 1) % mp + 1 ≠ mp
      · rw [if_pos h2]
        obtain ⟨l, e1, e2, e3⟩ := sendQLoop_spec mp len szx hmp f (num + 1) (acc ++ [(num + 1, 1)])
        refine ⟨(num + 1, 1) :: l, by rw [e1]; simp, ?_, ?_⟩
        · rw [List.map_cons, List.pairwise_cons]
          refine ⟨?_, e2⟩
          intro a ha
          obtain ⟨x, hx, rfl⟩ := List.mem_map.mp ha
          exact (e3 x hx).1
        · intro x hx
          rcases List.mem_cons.mp hx with rfl | hx
          · exact ⟨by simp, by simp; omega, by simp [h2.1], rfl⟩
          · have := e3 x hx
            exact ⟨by omega, this.2.1, this.2.2.1, by rw [this.2.2.2]; exact same_set_succ (num + 1) mp hmp h2.2⟩
      · rw [if_neg h2]
        refine ⟨[(num + 1, moreBit len (num + 1) szx)], rfl, by simp, ?_⟩
        intro x hx
        simp at hx
        subst hx
        exact ⟨by simp, by simp; omega, rfl, rfl⟩

/-! ## the client's Q-Block2 bookkeeping -/

/-- the bookkeeping invariant: `rec_blocks` is sorted / disjoint / non-adjacent / within its capacity, and every recorded
block is a 20-bit number whose offset (in the block size the transfer is tracked in) lies inside `total_len` -/
def Q2Inv (cap : Nat) (st : Q2State) : Prop :=
  WfFrom 0 st.rs ∧ st.rs.length ≤ cap - 1 ∧ ∀ k, Covers st.rs k → k < 2 ^ 20 ∧ k * 2 ^ (st.szx + 4) < st.totalLen

theorem q2Reinit_inv (cap : Nat) (st : Q2State) (i : Q2In) (size2 : Nat) : Q2Inv cap (q2Reinit st i size2) := by
  refine ⟨by simp [q2Reinit, WfFrom], by simp [q2Reinit], ?_⟩
  intro k hk
  simp [q2Reinit, Covers] at hk

theorem q2Pre_inv (cap : Nat) (st : Q2State) (i : Q2In) (size2 : Nat) (h : Q2Inv cap st) :
    Q2Inv cap (q2Pre st i size2).1 ∧
    ((q2Pre st i size2).2 = false → (q2Pre st i size2).1.szx = i.szx ∧ (q2Pre st i size2).1.totalLen = size2) := by
  have h1 : Q2Inv cap (q2Init st i size2) := by
    unfold q2Init
    by_cases hi : st.initial = true
    · rw [if_pos hi]; exact q2Reinit_inv cap st i size2
    · rw [if_neg hi]; exact h
  have h2 : ∀ st1, Q2Inv cap st1 → Q2Inv cap (q2Bump st1 size2) := by
    intro st1 h1
    unfold q2Bump
    by_cases hi : st1.totalLen < size2
    · rw [if_pos hi]
      refine ⟨h1.1, h1.2.1, fun k hk => ?_⟩
      have := h1.2.2 k hk
      refine ⟨this.1, ?_⟩
      show k * 2 ^ (st1.szx + 4) < size2
      omega
    · rw [if_neg hi]; exact h1
  have h3 : ∀ st2, Q2Inv cap st2 → Q2Inv cap (q2Etag st2 i size2) := by
    intro st2 h2
    unfold q2Etag
    by_cases hi : etagDiffers st2 i.etag = true
    · rw [if_pos hi]; exact q2Reinit_inv cap st2 i size2
    · rw [if_neg hi]; exact h2
  refine ⟨h3 _ (h2 _ h1), ?_⟩
  show q2Fails (q2Etag (q2Bump (q2Init st i size2) size2) i size2) i size2 = false →
    (q2Etag (q2Bump (q2Init st i size2) size2) i size2).szx = i.szx ∧
    (q2Etag (q2Bump (q2Init st i size2) size2) i size2).totalLen = size2
  generalize q2Etag (q2Bump (q2Init st i size2) size2) i size2 = st3
  unfold q2Fails
  intro hf
  by_cases c1 : i.etag.isNone ∧ st3.etagSet
  · rw [if_pos c1] at hf; cases hf
  · rw [if_neg c1] at hf
    by_cases c2 : i.fmt ≠ st3.fmt
    · rw [if_pos c2] at hf; cases hf
    · rw [if_neg c2] at hf
      by_cases c3 : i.szx ≠ st3.szx
      · rw [if_pos c3] at hf; cases hf
      · rw [if_neg c3] at hf
        by_cases c4 : size2 ≠ st3.totalLen
        · rw [if_pos c4] at hf; cases hf
        · exact ⟨by simp at c3; exact c3.symm, by simp at c4; exact c4.symm⟩

theorem q2Asked_same (mp : Nat) (useM : Bool) (st : Q2State) (num : Nat) :
    (q2Asked mp useM st num).1.rs = st.rs ∧ (q2Asked mp useM st num).1.szx = st.szx ∧
      (q2Asked mp useM st num).1.totalLen = st.totalLen := by
  unfold q2Asked
  simp only []
  split <;> exact ⟨rfl, rfl, rfl⟩

theorem q2Record_inv (cap mp : Nat) (useM : Bool) (st : Q2State) (num : Nat) (h : Q2Inv cap st) (hn : num < 2 ^ 20)
    (ho : num * 2 ^ (st.szx + 4) < st.totalLen) :
    Q2Inv cap (q2Record cap mp useM st num).1 ∧ (q2Record cap mp useM st num).1.szx = st.szx ∧
      (q2Record cap mp useM st num).1.totalLen = st.totalLen := by
  unfold q2Record
  obtain ⟨a1, a2, a3⟩ := q2Asked_same mp useM st num
  have ha : Q2Inv cap (q2Asked mp useM st num).1 := by
    unfold Q2Inv; rw [a1, a2, a3]; exact h
  by_cases hc : checkIfReceived st.rs num = true
  · rw [if_pos hc]; exact ⟨h, rfl, rfl⟩
  · rw [if_neg hc]
    simp only []
    have hu := updateReceived_spec cap st.rs num h.1 h.2.1
    rw [a1]
    by_cases hu1 : (updateReceived cap st.rs num).1 = true
    · rw [if_pos hu1]
      refine ⟨⟨(hu.2 hu1).1, (hu.2 hu1).2.1, ?_⟩, a2, a3⟩
      intro k hk
      show k < 2 ^ 20 ∧ k * 2 ^ ((q2Asked mp useM st num).1.szx + 4) < (q2Asked mp useM st num).1.totalLen
      rw [a2, a3]
      rcases ((hu.2 hu1).2.2 k).mp hk with hk | rfl
      · exact h.2.2 k hk
      · exact ⟨hn, ho⟩
    · rw [if_neg hu1]
      exact ⟨ha, a2, a3⟩

theorem q2Decide_same (mp : Nat) (useM isNon : Bool) (st : Q2State) (m : Nat) :
    (q2Decide mp useM isNon st m).1.rs = st.rs ∧ (q2Decide mp useM isNon st m).1.szx = st.szx ∧
      (q2Decide mp useM isNon st m).1.totalLen = st.totalLen := by
  unfold q2Decide
  simp only []
  split
  · split
    · exact ⟨rfl, rfl, rfl⟩
    · split
      · split
        · exact ⟨rfl, rfl, rfl⟩
        · split
          · exact ⟨rfl, rfl, rfl⟩
          · split <;> exact ⟨rfl, rfl, rfl⟩
      · exact ⟨rfl, rfl, rfl⟩
  · split <;> exact ⟨rfl, rfl, rfl⟩

theorem wf_begin_covered : ∀ (rs : Ranges) (lo : Nat) (r : Nat × Nat), WfFrom lo rs → r ∈ rs → Covers rs r.1
  | [], _, _, _, h => by cases h
  | (b, e) :: rest, lo, r, hw, hr => by
    rw [covers_cons]
    rcases List.mem_cons.mp hr with rfl | hr
    · exact Or.inl ⟨Nat.le_refl _, hw.2.1⟩
    · exact Or.inr (wf_begin_covered rest (e + 2) r hw.2.2 hr)

theorem q2Step_inv (cap mp : Nat) (useM isNon : Bool) (st : Q2State) (i : Q2In) (hn : i.num < 2 ^ 20) (h : Q2Inv cap st) :
    Q2Inv cap (q2Step cap mp useM isNon st i).1 := by
  unfold q2Step
  by_cases c0 : ¬ (i.m = 1 ∨ i.length ≠ 0)
  · rw [if_pos c0]; exact h
  · rw [if_neg c0]
    simp only []
    have hch : 0 < 2 ^ (i.szx + 4) := Nat.two_pow_pos _
    generalize hlen : (if i.length > 2 ^ (i.szx + 4) then 2 ^ (i.szx + 4) else i.length) = length
    by_cases c1 : i.m = 1 ∧ length ≠ 2 ^ (i.szx + 4)
    · rw [if_pos c1]; exact h
    · rw [if_neg c1]
      obtain ⟨p1, p2⟩ := q2Pre_inv cap st i (q2Size2 i length) h
      by_cases c2 : (q2Pre st i (q2Size2 i length)).2 = true
      · rw [if_pos c2]; exact p1
      · rw [if_neg c2]
        have hp := p2 (by simpa using c2)
        have hpos : 0 < length := by
          by_cases hm : i.m = 1
          · have : length = 2 ^ (i.szx + 4) := by
              by_cases hl : length = 2 ^ (i.szx + 4)
              · exact hl
              · exact absurd ⟨hm, hl⟩ c1
            omega
          · have hl0 : i.length ≠ 0 := by
              by_cases hl : i.length = 0
              · exact absurd (fun hh => by rcases hh with hh | hh; exact hm hh; exact hh hl) c0
              · exact hl
            rw [← hlen]
            split <;> omega
        have hoff : i.num * 2 ^ ((q2Pre st i (q2Size2 i length)).1.szx + 4) < (q2Pre st i (q2Size2 i length)).1.totalLen := by
          rw [hp.1, hp.2]
          unfold q2Size2
          simp only []
          split
          · split <;> omega
          · omega
        obtain ⟨r1, r2, r3⟩ := q2Record_inv cap mp useM _ i.num p1 hn hoff
        by_cases c3 : (q2Record cap mp useM (q2Pre st i (q2Size2 i length)).1 i.num).2.2 = none
        · rw [if_pos c3]; exact r1
        · rw [if_neg c3]
          by_cases c4 : (q2Record cap mp useM (q2Pre st i (q2Size2 i length)).1 i.num).2.2 = some false
          · rw [if_pos c4]; exact r1
          · rw [if_neg c4]
            obtain ⟨d1, d2, d3⟩ := q2Decide_same mp useM isNon (q2Record cap mp useM (q2Pre st i (q2Size2 i length)).1 i.num).1 i.m
            show Q2Inv cap (q2Decide mp useM isNon (q2Record cap mp useM (q2Pre st i (q2Size2 i length)).1 i.num).1 i.m).1
            unfold Q2Inv
            rw [d1, d2, d3]
            exact r1

/-! ### every request the Q-Block2 path sends names 20-bit block numbers (fix for c02-qblock2-num-2e20) -/

/-- all numbers of all requests in a list are 20-bit -/
def Reqs20 (l : List (List (Nat × Nat))) : Prop := ∀ rq, rq ∈ l → ∀ q, q ∈ rq → q.1 < 2 ^ 20

theorem inv_req_20bit (cap mp : Nat) (hmp : 0 < mp) (useM : Bool) (st : Q2State) (h : Q2Inv cap st) :
    ∀ q, q ∈ (reqMissingQ2 mp useM st.rs st.szx st.totalLen).1 → q.1 < 2 ^ 20 := by
  intro q hq
  rcases reqMissingQ2_20bit mp hmp useM st.rs st.szx st.totalLen q hq with ⟨r, hr, hlt⟩ | hl
  · have := (h.2.2 r.1 (wf_begin_covered st.rs 0 r h.1 hr)).1
    omega
  · exact hl

theorem reqs20_opt (l : List (Nat × Nat)) (h : ∀ q, q ∈ l → q.1 < 2 ^ 20) : Reqs20 (if l ≠ [] then [l] else []) := by
  intro rq hrq
  split at hrq
  · simp at hrq; subst hrq; exact h
  · cases hrq

theorem q2Asked_req (cap mp : Nat) (hmp : 0 < mp) (useM : Bool) (st : Q2State) (num : Nat) (h : Q2Inv cap st) :
    Reqs20 (q2Asked mp useM st num).2 := by
  unfold q2Asked
  simp only []
  split
  · exact reqs20_opt _ (inv_req_20bit cap mp hmp useM st h)
  · intro rq hrq; cases hrq

theorem q2Record_req (cap mp : Nat) (hmp : 0 < mp) (useM : Bool) (st : Q2State) (num : Nat) (h : Q2Inv cap st) :
    Reqs20 (q2Record cap mp useM st num).2.1 := by
  unfold q2Record
  split
  · intro rq hrq; cases hrq
  · simp only []
    split <;> exact q2Asked_req cap mp hmp useM st num h

theorem firstEnd_covered (rs : Ranges) (lo : Nat) (hw : WfFrom lo rs) (hne : rs ≠ []) : Covers rs (firstEnd rs) := by
  cases rs with
  | nil => exact absurd rfl hne
  | cons r rest =>
    obtain ⟨b, e⟩ := r
    rw [covers_cons]
    exact Or.inl ⟨hw.2.1, Nat.le_refl _⟩

theorem q2Decide_req (cap mp : Nat) (hmp : 0 < mp) (useM isNon : Bool) (st : Q2State) (m : Nat) (h : Q2Inv cap st) :
    Reqs20 (q2Decide mp useM isNon st m).2.1 := by
  have nil : Reqs20 [] := by intro rq hrq; cases hrq
  unfold q2Decide
  simp only []
  split
  · split
    · exact nil
    · split
      · split
        · exact reqs20_opt _ (inv_req_20bit cap mp hmp useM { st with processing := firstEnd st.rs / mp + 1 } h)
        · split
          · exact nil
          · split
            · exact nil
            · rename_i hlt
              intro rq hrq q hq
              simp at hrq; subst hrq
              simp at hq; subst hq
              show firstEnd st.rs + 1 < 2 ^ 20
              omega
      · exact nil
  · split <;> exact nil

theorem q2Step_req (cap mp : Nat) (hmp : 0 < mp) (useM isNon : Bool) (st : Q2State) (i : Q2In) (hn : i.num < 2 ^ 20)
    (h : Q2Inv cap st) : Reqs20 (q2Step cap mp useM isNon st i).2.1 := by
  have nil : Reqs20 [] := by intro rq hrq; cases hrq
  unfold q2Step
  by_cases c0 : ¬ (i.m = 1 ∨ i.length ≠ 0)
  · rw [if_pos c0]; exact nil
  · rw [if_neg c0]
    simp only []
    generalize hlen : (if i.length > 2 ^ (i.szx + 4) then 2 ^ (i.szx + 4) else i.length) = length
    by_cases c1 : i.m = 1 ∧ length ≠ 2 ^ (i.szx + 4)
    · rw [if_pos c1]; exact nil
    · rw [if_neg c1]
      obtain ⟨p1, p2⟩ := q2Pre_inv cap st i (q2Size2 i length) h
      by_cases c2 : (q2Pre st i (q2Size2 i length)).2 = true
      · rw [if_pos c2]; exact nil
      · rw [if_neg c2]
        have rq1 := q2Record_req cap mp hmp useM _ i.num p1
        by_cases c3 : (q2Record cap mp useM (q2Pre st i (q2Size2 i length)).1 i.num).2.2 = none
        · rw [if_pos c3]; exact rq1
        · rw [if_neg c3]
          by_cases c4 : (q2Record cap mp useM (q2Pre st i (q2Size2 i length)).1 i.num).2.2 = some false
          · rw [if_pos c4]; exact rq1
          · rw [if_neg c4]
            have hch : 0 < 2 ^ (i.szx + 4) := Nat.two_pow_pos _
            have hp := p2 (by simpa using c2)
            have hpos : 0 < length := by
              by_cases hm : i.m = 1
              · have : length = 2 ^ (i.szx + 4) := by
                  by_cases hl : length = 2 ^ (i.szx + 4)
                  · exact hl
                  · exact absurd ⟨hm, hl⟩ c1
                omega
              · have hl0 : i.length ≠ 0 := by
                  by_cases hl : i.length = 0
                  · exact absurd (fun hh => by rcases hh with hh | hh; exact hm hh; exact hh hl) c0
                  · exact hl
                rw [← hlen]
                split <;> omega
            have hoff : i.num * 2 ^ ((q2Pre st i (q2Size2 i length)).1.szx + 4) < (q2Pre st i (q2Size2 i length)).1.totalLen := by
              rw [hp.1, hp.2]
              unfold q2Size2
              simp only []
              split
              · split <;> omega
              · omega
            obtain ⟨r1, _, _⟩ := q2Record_inv cap mp useM _ i.num p1 hn hoff
            have rq2 := q2Decide_req cap mp hmp useM isNon _ i.m r1
            intro rq hrq
            rcases List.mem_append.mp hrq with hrq | hrq
            · exact rq1 rq hrq
            · exact rq2 rq hrq

end Coap.QBlock
