import CoapVerif.Model.WkLive
import CoapVerif.Lemmas.WkBlock
/- Helper lemmas for C20's block-level live server (`runB`): every cached Block2 body is the listing of the table as it was
   when the block 0 that carries its ETag was served; ETags are never reused. -/
namespace Coap.M.LF
open Coap Coap.LF

def etagOf : RespB → Option Nat
  | .blk _ _ e => e
  | .err _ => none

/-- the ETags handed out with a block 0, in order -/
def issued (tr : List Obs) : List Nat := tr.filterMap (fun o => if o.req.num = 0 then etagOf o.resp else none)

/-- two requests whose `coap_get_query()` strings compare equal -/
def SameKey (a b : List Bytes) : Prop :=
  ∃ k1 k2, MU.getQuery a = R.ok k1 ∧ MU.getQuery b = R.ok k2 ∧ keyEq k1 k2 = true

/-- cache entry `e` of session `sid` was made by the block-0 exchange `o0` -/
def Issued (o0 : Obs) (sid : Nat) (e : LgB) : Prop :=
  o0.req.sid = sid ∧ o0.req.num = 0 ∧ o0.req.szx = e.szx ∧ o0.req.rtag = e.rtag ∧
  MU.getQuery o0.req.opts = R.ok e.key ∧ e.data = getListing o0.table o0.req.opts ∧
  etagOf o0.resp = some e.etag

structure InvB (st : BState) (past : List Obs) : Prop where
  entries : ∀ sid, ∀ e ∈ st.cache sid, ∃ o0 ∈ past, Issued o0 sid e
  nodup : (issued past).Nodup
  le : ∀ E ∈ issued past, E ≤ st.etag

/-- what the property says about one exchange `o` of a trace `tr` -/
def GoodB (tr : List Obs) (o : Obs) : Prop :=
  (o.req.num = 0 →
     o.resp = RespB.blk ((getListing o.table o.req.opts).take (2 ^ (o.req.szx + 4)))
                (decide (2 ^ (o.req.szx + 4) < (getListing o.table o.req.opts).length)) (etagOf o.resp) ∧
     (etagOf o.resp).isSome = decide (2 ^ (o.req.szx + 4) < (getListing o.table o.req.opts).length)) ∧
  (∀ p more E, o.resp = RespB.blk p more (some E) →
     ∃ o0 ∈ tr, o0.req.num = 0 ∧ o0.req.sid = o.req.sid ∧ o0.req.rtag = o.req.rtag ∧ o0.req.szx = o.req.szx ∧
       SameKey o0.req.opts o.req.opts ∧ etagOf o0.resp = some E ∧
       p = block (getListing o0.table o0.req.opts) (2 ^ (o.req.szx + 4)) o.req.num ∧
       more = decide (o.req.num * 2 ^ (o.req.szx + 4) + 2 ^ (o.req.szx + 4) <
                        (getListing o0.table o0.req.opts).length))

/-- what the theorems need of an exchange: `coap_get_query()` returns a string, the handler's body is the listing -/
def OkObs (o : Obs) : Prop :=
  (∃ k, MU.getQuery o.req.opts = R.ok k) ∧ getBody o.table o.req.opts = R.ok (getListing o.table o.req.opts)

theorem GoodB.mono {tr tr' : List Obs} {o : Obs} (h : GoodB tr o) (hs : ∀ x ∈ tr, x ∈ tr') : GoodB tr' o := by
  refine ⟨h.1, ?_⟩
  intro p more E he
  obtain ⟨o0, hm, hr⟩ := h.2 p more E he
  exact ⟨o0, hs o0 hm, hr⟩

theorem keepMask_sub (c : CacheB) (m : List Bool) : ∀ e ∈ keepMask c m, e ∈ c := by
  induction c generalizing m with
  | nil => intro e he; cases m <;> simp [keepMask] at he
  | cons a c ih =>
    intro e he
    cases m with
    | nil => simp [keepMask] at he
    | cons b m =>
      cases b
      · simp only [keepMask] at he
        exact List.mem_cons_of_mem _ (ih m e he)
      · simp only [keepMask, List.mem_cons] at he
        rcases he with he | he
        · simp [he]
        · exact List.mem_cons_of_mem _ (ih m e he)

theorem issued_append (a b : List Obs) : issued (a ++ b) = issued a ++ issued b := by
  simp [issued, List.filterMap_append]

theorem InvB.mono {st st' : BState} {past past' : List Obs} (I : InvB st past)
    (hc : ∀ s, ∀ e ∈ st'.cache s, e ∈ st.cache s) (hp : ∀ o ∈ past, o ∈ past')
    (hi : issued past' = issued past) (he : st.etag ≤ st'.etag) : InvB st' past' := by
  refine ⟨?_, ?_, ?_⟩
  · intro sid e hm
    obtain ⟨o0, h0, h1⟩ := I.entries sid e (hc sid e hm)
    exact ⟨o0, hp o0 h0, h1⟩
  · rw [hi]; exact I.nodup
  · intro E hE
    rw [hi] at hE
    exact Nat.le_trans (I.le E hE) he

theorem nextEtag_eq (e : Nat) (h : e + 1 < 2 ^ 64) : nextEtag e = e + 1 := by
  unfold nextEtag
  rw [Nat.mod_eq_of_lt h]
  simp

theorem mem_upd_cache {st : BState} {sid : Nat} {c' : CacheB} (hsub : ∀ e ∈ c', e ∈ st.cache sid) :
    ∀ s, ∀ e ∈ upd st.cache sid c' s, e ∈ st.cache s := by
  intro s e he
  unfold upd at he
  by_cases hs : s = sid
  · subst hs; simp at he; exact hsub e he
  · simp [hs] at he; exact he

/-- one block request: the invariant is kept and the exchange is good -/
theorem stepB_get (st : BState) (past : List Obs) (r : ReqB) (I : InvB st past)
    (hok : OkObs ⟨r, st.table, RespB.err 0⟩) (hw : st.etag + 1 < 2 ^ 64) :
    ∃ o, (stepB st (.get r)).2 = some o ∧ o.req = r ∧ o.table = st.table ∧
      InvB (stepB st (.get r)).1 (past ++ [o]) ∧ GoodB (past ++ [o]) o ∧
      (stepB st (.get r)).1.etag ≤ st.etag + 1 ∧ (stepB st (.get r)).1.table = st.table := by
  obtain ⟨⟨key, hq⟩, hb⟩ := hok
  simp only at hq hb
  have hcpos : 0 < 2 ^ (r.szx + 4) := Nat.pow_pos (by omega)
  -- the handler path
  have fresh : ∀ (hcase : r.num = 0 ∨ (st.cache r.sid).find? (matchB key r.rtag) = none),
      serveB st.table (st.cache r.sid) st.etag r = serveFreshB st.table (st.cache r.sid) st.etag key r := by
    intro hcase
    unfold serveB
    rw [hq]
    rcases hcase with h | h
    · simp [h]
    · simp only [h]
      split <;> rfl
  by_cases hfresh : r.num = 0 ∨ (st.cache r.sid).find? (matchB key r.rtag) = none
  · have hs := fresh hfresh
    unfold serveFreshB at hs
    rw [hb] at hs
    simp only at hs
    by_cases hl0 : (getListing st.table r.opts).length = 0
    · -- empty body
      rw [if_pos hl0] at hs
      refine ⟨⟨r, st.table, RespB.blk [] false none⟩, by simp [stepB, hs], rfl, rfl, ?_, ?_, by simp [stepB, hs], by simp [stepB, hs]⟩
      · simp only [stepB, hs]
        refine I.mono (mem_upd_cache (st := st) (fun e he => he)) (fun o ho => List.mem_append_left _ ho) ?_ (Nat.le_refl _)
        rw [issued_append]; simp [issued, etagOf]
      · refine ⟨?_, by intro p more E he; simp at he⟩
        intro _
        have : getListing st.table r.opts = [] := List.eq_nil_of_length_eq_zero hl0
        simp [etagOf, this]
    · rw [if_neg hl0] at hs
      by_cases hill : r.num ≠ 0 ∧ (getListing st.table r.opts).length ≤ r.num * 2 ^ (r.szx + 4)
      · rw [if_pos hill] at hs
        refine ⟨⟨r, st.table, RespB.err 400⟩, by simp [stepB, hs], rfl, rfl, ?_, ?_, by simp [stepB, hs], by simp [stepB, hs]⟩
        · simp only [stepB, hs]
          refine I.mono (mem_upd_cache (st := st) (fun e he => he)) (fun o ho => List.mem_append_left _ ho) ?_ (Nat.le_refl _)
          rw [issued_append]; simp [issued, etagOf]
        · refine ⟨?_, by intro p more E he; simp at he⟩
          intro h0; exact absurd h0 hill.1
      · rw [if_neg hill] at hs
        by_cases hn : r.num ≠ 0
        · rw [if_pos hn] at hs
          refine ⟨⟨r, st.table, _⟩, by simp only [stepB, hs]; rfl, rfl, rfl, ?_, ?_, by simp [stepB, hs], by simp [stepB, hs]⟩
          · simp only [stepB, hs]
            refine I.mono (mem_upd_cache (st := st) (fun e he => List.mem_of_mem_eraseP he))
              (fun o ho => List.mem_append_left _ ho) ?_ (Nat.le_refl _)
            rw [issued_append]; simp [issued, hn]
          · refine ⟨?_, by intro p more E he; simp at he⟩
            intro h0; exact absurd h0 hn
        · rw [if_neg hn] at hs
          have hn0 : r.num = 0 := by omega
          by_cases hbig : (getListing st.table r.opts).length > 2 ^ (r.szx + 4)
          · -- a new lg_xmit with a new ETag
            rw [if_pos hbig] at hs
            rw [nextEtag_eq _ hw] at hs
            refine ⟨⟨r, st.table, _⟩, by simp only [stepB, hs]; rfl, rfl, rfl, ?_, ?_, by simp [stepB, hs], by simp [stepB, hs]⟩
            · simp only [stepB, hs]
              have hiss : issued (past ++ [(⟨r, st.table, RespB.blk ((getListing st.table r.opts).take (2 ^ (r.szx + 4))) true
                  (some (st.etag + 1))⟩ : Obs)]) = issued past ++ [st.etag + 1] := by
                rw [issued_append]; simp [issued, hn0, etagOf]
              refine ⟨?_, ?_, ?_⟩
              · intro sid e hm
                simp only [upd] at hm
                by_cases hs' : sid = r.sid
                · subst hs'
                  simp only [if_true, List.mem_cons] at hm
                  rcases hm with hm | hm
                  · subst hm
                    refine ⟨_, List.mem_append_right _ (List.mem_singleton_self _), ?_⟩
                    exact ⟨rfl, hn0, rfl, rfl, hq, rfl, rfl⟩
                  · obtain ⟨o0, h0, h1⟩ := I.entries _ e (List.mem_of_mem_eraseP hm)
                    exact ⟨o0, List.mem_append_left _ h0, h1⟩
                · simp only [hs', if_false] at hm
                  obtain ⟨o0, h0, h1⟩ := I.entries _ e hm
                  exact ⟨o0, List.mem_append_left _ h0, h1⟩
              · rw [hiss]
                refine List.nodup_append.mpr ⟨I.nodup, by simp, ?_⟩
                intro a ha b hb'
                simp only [List.mem_singleton] at hb'
                have := I.le a ha
                omega
              · intro E hE
                rw [hiss] at hE
                simp only [List.mem_append, List.mem_singleton] at hE
                rcases hE with hE | hE
                · have := I.le E hE; simp only; omega
                · simp only; omega
            · refine ⟨?_, ?_⟩
              · intro _
                simp only [etagOf]
                have : decide (2 ^ (r.szx + 4) < (getListing st.table r.opts).length) = true := by simpa using hbig
                simp [this]
              · intro p more E he
                refine ⟨_, List.mem_append_right _ (List.mem_singleton_self _), hn0, rfl, rfl, rfl,
                  ⟨key, key, hq, hq, by simp [keyEq]⟩, ?_, ?_, ?_⟩
                · simp only [RespB.blk.injEq] at he
                  simp [etagOf, he.2.2]
                · simp only [RespB.blk.injEq] at he
                  rw [← he.1]; simp [block, hn0]
                · simp only [RespB.blk.injEq] at he
                  rw [← he.2.1]; simp only [hn0]
                  simp only [Nat.zero_mul, Nat.zero_add]
                  exact (decide_eq_true hbig).symm
          · -- the whole body in one response, no ETag
            rw [if_neg hbig] at hs
            refine ⟨⟨r, st.table, _⟩, by simp only [stepB, hs]; rfl, rfl, rfl, ?_, ?_, by simp [stepB, hs], by simp [stepB, hs]⟩
            · simp only [stepB, hs]
              refine I.mono (mem_upd_cache (st := st) (fun e he => List.mem_of_mem_eraseP he))
                (fun o ho => List.mem_append_left _ ho) ?_ (Nat.le_refl _)
              rw [issued_append]; simp [issued, etagOf]
            · refine ⟨?_, by intro p more E he; simp at he⟩
              intro _
              have hle : (getListing st.table r.opts).length ≤ 2 ^ (r.szx + 4) := by omega
              have : decide (2 ^ (r.szx + 4) < (getListing st.table r.opts).length) = false := by
                simp; omega
              simp [etagOf, this, List.take_of_length_le hle]
  · -- a later block of a cached body
    have hn : r.num ≠ 0 := fun h => hfresh (Or.inl h)
    obtain ⟨e, hfind⟩ : ∃ e, (st.cache r.sid).find? (matchB key r.rtag) = some e := by
      cases hf : (st.cache r.sid).find? (matchB key r.rtag) with
      | none => exact absurd (Or.inr hf) hfresh
      | some e => exact ⟨e, rfl⟩
    have hs : serveB st.table (st.cache r.sid) st.etag r =
        (if r.szx ≠ e.szx then R.ok (st.cache r.sid, st.etag, RespB.err 400)
         else if e.data.length ≤ r.num * 2 ^ (e.szx + 4) then R.ok (st.cache r.sid, st.etag, RespB.err 500)
         else R.ok (st.cache r.sid, st.etag, RespB.blk (block e.data (2 ^ (e.szx + 4)) r.num)
                (decide (r.num * 2 ^ (e.szx + 4) + 2 ^ (e.szx + 4) < e.data.length)) (some e.etag))) := by
      unfold serveB
      rw [hq]
      simp only [hn, if_false, hfind]
    have hmem := List.mem_of_find?_eq_some hfind
    have hmatch := List.find?_some hfind
    have hinv : ∀ resp, InvB ⟨st.table, upd st.cache r.sid (st.cache r.sid), st.etag⟩ (past ++ [⟨r, st.table, resp⟩]) := by
      intro resp
      refine I.mono (mem_upd_cache (st := st) (fun e he => he)) (fun o ho => List.mem_append_left _ ho) ?_ (Nat.le_refl _)
      rw [issued_append]; simp [issued, hn]
    by_cases hsz : r.szx ≠ e.szx
    · rw [if_pos hsz] at hs
      refine ⟨⟨r, st.table, RespB.err 400⟩, by simp [stepB, hs], rfl, rfl, by simpa only [stepB, hs] using hinv _, ?_,
        by simp [stepB, hs], by simp [stepB, hs]⟩
      exact ⟨fun h0 => absurd h0 hn, by intro p more E he; simp at he⟩
    · rw [if_neg hsz] at hs
      have hsz' : r.szx = e.szx := by omega
      by_cases hshort : e.data.length ≤ r.num * 2 ^ (e.szx + 4)
      · rw [if_pos hshort] at hs
        refine ⟨⟨r, st.table, RespB.err 500⟩, by simp [stepB, hs], rfl, rfl, by simpa only [stepB, hs] using hinv _, ?_,
          by simp [stepB, hs], by simp [stepB, hs]⟩
        exact ⟨fun h0 => absurd h0 hn, by intro p more E he; simp at he⟩
      · rw [if_neg hshort] at hs
        refine ⟨⟨r, st.table, _⟩, by simp only [stepB, hs]; rfl, rfl, rfl, by simpa only [stepB, hs] using hinv _, ?_,
          by simp [stepB, hs], by simp [stepB, hs]⟩
        refine ⟨fun h0 => absurd h0 hn, ?_⟩
        intro p more E he
        obtain ⟨o0, h0, hI⟩ := I.entries _ e hmem
        obtain ⟨i1, i2, i3, i4, i5, i6, i7⟩ := hI
        simp only [matchB, Bool.and_eq_true, beq_iff_eq] at hmatch
        simp only [RespB.blk.injEq, Option.some.injEq] at he
        refine ⟨o0, List.mem_append_left _ h0, i2, i1, ?_, ?_, ⟨e.key, key, i5, hq, hmatch.1⟩, ?_, ?_, ?_⟩
        · simp only; rw [i4, hmatch.2]
        · simp only; rw [i3, hsz']
        · rw [i7, he.2.2]
        · simp only; rw [← he.1, ← i6, hsz']
        · simp only; rw [← he.2.1, ← i6, hsz']

/-- every exchange of a run is good, ETags are never reused -/
theorem runB_good (evs : List BEv) : ∀ (st : BState) (past : List Obs), InvB st past →
    (∀ o ∈ runB st evs, OkObs o) → st.etag + evs.length < 2 ^ 64 →
    (∀ o ∈ runB st evs, GoodB (past ++ runB st evs) o) ∧ (issued (past ++ runB st evs)).Nodup := by
  induction evs with
  | nil => intro st past I _ _; simp [runB]; exact I.nodup
  | cons ev r ih =>
    intro st past I hok hw
    simp only [List.length_cons] at hw
    cases ev with
    | op o =>
      have hI : InvB (stepB st (.op o)).1 past :=
        I.mono (fun s e he => he) (fun o ho => ho) rfl (Nat.le_refl _)
      have hrun : runB st (.op o :: r) = runB (stepB st (.op o)).1 r := by simp [runB, stepB]
      rw [hrun] at hok ⊢
      exact ih _ past hI hok (by simp only [stepB]; omega)
    | expire sid keep =>
      have hI : InvB (stepB st (.expire sid keep)).1 past :=
        I.mono (mem_upd_cache (st := st) (keepMask_sub _ _)) (fun o ho => ho) rfl (Nat.le_refl _)
      have hrun : runB st (.expire sid keep :: r) = runB (stepB st (.expire sid keep)).1 r := by simp [runB, stepB]
      rw [hrun] at hok ⊢
      exact ih _ past hI hok (by simp only [stepB]; omega)
    | get q =>
      have hstep : ∃ o, (stepB st (.get q)).2 = some o ∧ o.req = q ∧ o.table = st.table := by
        simp only [stepB]
        split <;> exact ⟨_, rfl, rfl, rfl⟩
      obtain ⟨o1, ho1, hr1, ht1⟩ := hstep
      have hrun : runB st (.get q :: r) = o1 :: runB (stepB st (.get q)).1 r := by simp [runB, ho1]
      have hok1 : OkObs ⟨q, st.table, RespB.err 0⟩ := by
        have := hok o1 (by rw [hrun]; exact List.mem_cons_self)
        unfold OkObs at this ⊢
        rw [hr1, ht1] at this
        exact this
      obtain ⟨o, ho, _, _, hI, hG, hE, _⟩ := stepB_get st past q I hok1 (by omega)
      rw [ho1] at ho
      cases ho
      rw [hrun] at hok ⊢
      have ih' := ih _ (past ++ [o1]) hI (fun o ho => hok o (List.mem_cons_of_mem _ ho)) (by omega)
      have happ : past ++ o1 :: runB (stepB st (.get q)).1 r = (past ++ [o1]) ++ runB (stepB st (.get q)).1 r := by simp
      rw [happ]
      refine ⟨?_, ih'.2⟩
      intro o ho
      simp only [List.mem_cons] at ho
      rcases ho with ho | ho
      · subst ho
        exact hG.mono (fun x hx => List.mem_append_left _ hx)
      · exact ih'.1 o ho

end Coap.M.LF
