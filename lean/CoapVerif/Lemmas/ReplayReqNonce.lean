import CoapVerif.Lemmas.ReplayEndp
/- C15 — the request-nonce half of `nonce_never_reused`: along every history of an endpoint (`nrun`) without a restart
the nonces of requests that responses are protected with (`Nonce.ofReq`, `association->nonce`) are pairwise distinct.
Invariant `RInv`: every association that can protect a response holds the nonce of a request whose Partial IV is
RECORDED in the replay window (so no later request can bring it again) and that no response has used yet; different
tokens hold different nonces.  It needs the R15c fix: a request caught by the Appendix B.1.2 trap leaves no association.
Core Lean only. -/
namespace Coap.Replay

structure RInv (v : View) (as : Nat → Option Assoc) (A : List Nat) (F : Nat) (N : List Nat) : Prop where
  good : Good v A F
  inA : ∀ t a, as t = some a → a.client = false → ∃ p, a.nonce = .ofReq p ∧ p ∈ A ∧ p ∉ N
  inj : ∀ t1 t2 a1 a2, as t1 = some a1 → as t2 = some a2 → a1.client = false → a2.client = false →
    a1.nonce = a2.nonce → t1 = t2
  used : ∀ p ∈ N, p ∈ A

theorem setAssoc_same (as : Nat → Option Assoc) (t : Nat) (v w : Option Assoc) :
    setAssoc (setAssoc as t v) t w = setAssoc as t w := by
  funext t'
  unfold setAssoc
  by_cases h : t' = t <;> simp [h]

theorem markObserve_set (a : Nat → Option Assoc) (t : Nat) (w : Assoc) :
    markObserve (setAssoc a t (some w)) t = setAssoc a t (some { w with observe := true }) := by
  unfold markObserve
  have h : setAssoc a t (some w) t = some w := by simp [setAssoc]
  simp only [h, setAssoc_same]

theorem rinv_start (F : Nat) : RInv Recip.fresh.view (fun _ => none) [] F [] :=
  ⟨good_fresh F, fun _ _ h => by simp at h, fun _ _ _ _ h => by simp at h, fun _ h => by simp at h⟩

theorem rinv_erase {v : View} {as : Nat → Option Assoc} {A : List Nat} {F : Nat} {N : List Nat} (h : RInv v as A F N)
    (t : Nat) : RInv v (setAssoc as t none) A F N := by
  refine ⟨h.good, ?_, ?_, h.used⟩
  · intro t' a ha hc
    unfold setAssoc at ha
    by_cases ht : t' = t
    · simp [ht] at ha
    · simp [ht] at ha; exact h.inA t' a ha hc
  · intro t1 t2 a1 a2 h1 h2 c1 c2 hn
    unfold setAssoc at h1 h2
    by_cases ht1 : t1 = t
    · simp [ht1] at h1
    · by_cases ht2 : t2 = t
      · simp [ht2] at h2
      · simp [ht1] at h1; simp [ht2] at h2; exact h.inj t1 t2 a1 a2 h1 h2 c1 c2 hn

theorem rinv_set_client {v : View} {as : Nat → Option Assoc} {A : List Nat} {F : Nat} {N : List Nat} (h : RInv v as A F N)
    (t : Nat) (w : Assoc) (hw : w.client = true) : RInv v (setAssoc as t (some w)) A F N := by
  refine ⟨h.good, ?_, ?_, h.used⟩
  · intro t' a ha hc
    unfold setAssoc at ha
    by_cases ht : t' = t
    · simp [ht] at ha; subst ha; rw [hw] at hc; cases hc
    · simp [ht] at ha; exact h.inA t' a ha hc
  · intro t1 t2 a1 a2 h1 h2 c1 c2 hn
    unfold setAssoc at h1 h2
    by_cases ht1 : t1 = t
    · simp [ht1] at h1; subst h1; rw [hw] at c1; cases c1
    · by_cases ht2 : t2 = t
      · simp [ht2] at h2; subst h2; rw [hw] at c2; cases c2
      · simp [ht1] at h1; simp [ht2] at h2; exact h.inj t1 t2 a1 a2 h1 h2 c1 c2 hn

/-- a verified request with a Partial IV that was never recorded takes the association of its token -/
theorem rinv_set_srv {v v' : View} {as : Nat → Option Assoc} {A : List Nat} {F F' : Nat} {N : List Nat} {p : Nat}
    (h : RInv v as A F N) (g' : Good v' (p :: A) F') (hp : p ∉ A) (t : Nat) (w : Assoc) (hn : w.nonce = .ofReq p) :
    RInv v' (setAssoc as t (some w)) (p :: A) F' N := by
  refine ⟨g', ?_, ?_, fun q hq => List.mem_cons_of_mem _ (h.used q hq)⟩
  · intro t' a ha hc
    unfold setAssoc at ha
    by_cases ht : t' = t
    · simp [ht] at ha; subst ha
      exact ⟨p, hn, List.mem_cons_self, fun hN => hp (h.used p hN)⟩
    · simp [ht] at ha
      obtain ⟨q, h1, h2, h3⟩ := h.inA t' a ha hc
      exact ⟨q, h1, List.mem_cons_of_mem _ h2, h3⟩
  · intro t1 t2 a1 a2 h1 h2 c1 c2 hnn
    unfold setAssoc at h1 h2
    by_cases ht1 : t1 = t
    · by_cases ht2 : t2 = t
      · rw [ht1, ht2]
      · exfalso
        simp [ht1] at h1; simp [ht2] at h2; subst h1
        obtain ⟨q, hq1, hq2, _⟩ := h.inA t2 a2 h2 c2
        rw [hn, hq1] at hnn
        injection hnn with hpq
        exact hp (hpq ▸ hq2)
    · by_cases ht2 : t2 = t
      · exfalso
        simp [ht1] at h1; simp [ht2] at h2; subst h2
        obtain ⟨q, hq1, hq2, _⟩ := h.inA t1 a1 h1 c1
        rw [hn, hq1] at hnn
        injection hnn with hpq
        exact hp (hpq ▸ hq2)
      · simp [ht1] at h1; simp [ht2] at h2; exact h.inj t1 t2 a1 a2 h1 h2 c1 c2 hnn

theorem respond_rcp (e : Endp) (t : Nat) (o s : Bool) : (respond e t o s).1.rcp = e.rcp := by
  unfold respond
  cases e.assocs t with
  | none => rfl
  | some a =>
    dsimp only
    split
    · rfl
    · split
      · split <;> rfl
      · rfl

theorem respond_assocs (e : Endp) (t : Nat) (o s : Bool) :
    (respond e t o s).1.assocs = e.assocs ∨ (respond e t o s).1.assocs = setAssoc e.assocs t none := by
  unfold respond
  cases e.assocs t with
  | none => left; rfl
  | some a =>
    dsimp only
    split
    · left; rfl
    · split
      · split
        · left; rfl
        · dsimp only; cases a.observe <;> simp
      · dsimp only; cases a.observe <;> simp

/-- one response: a request nonce is taken from an association whose Partial IV is recorded and unused, and the
association goes with it -/
theorem respond_rinv {e : Endp} {A : List Nat} {F : Nat} {N : List Nat} (h : RInv e.rcp.view e.assocs A F N)
    (t : Nat) (o s : Bool) :
    RInv (respond e t o s).1.rcp.view (respond e t o s).1.assocs A F (ofReqsOf (nemit (respond e t o s).2) ++ N) ∧
      (∀ p ∈ ofReqsOf (nemit (respond e t o s).2), p ∉ N) ∧ (ofReqsOf (nemit (respond e t o s).2)).length ≤ 1 := by
  rw [respond_rcp]
  unfold respond
  cases ha : e.assocs t with
  | none => exact ⟨by simpa [nemit, ofReqsOf] using h, by simp [nemit, ofReqsOf], by simp [nemit, ofReqsOf]⟩
  | some a =>
    dsimp only
    cases hc : a.client with
    | true => exact ⟨by simpa [nemit, ofReqsOf] using h, by simp [nemit, ofReqsOf], by simp [nemit, ofReqsOf]⟩
    | false =>
      obtain ⟨q, hq, hqA, hqN⟩ := h.inA t a ha hc
      simp only [Bool.false_eq_true, if_false]
      by_cases hb : (o || (s || a.observe && !o)) = true
      · rw [if_pos hb]
        cases hp : (ownPiv e.sys).2 with
        | none => exact ⟨by simpa [nemit, ofReqsOf] using h, by simp [nemit, ofReqsOf], by simp [nemit, ofReqsOf]⟩
        | some p =>
          refine ⟨?_, by simp [nemit, ofReqsOf], by simp [nemit, ofReqsOf]⟩
          dsimp only
          cases a.observe with
          | true => simpa [nemit, ofReqsOf] using h
          | false => simpa [nemit, ofReqsOf] using rinv_erase h t
      · rw [if_neg hb]
        have hobs : a.observe = false := by
          cases o <;> cases s <;> cases hao : a.observe <;> simp_all
        refine ⟨?_, by simp [nemit, hq, ofReqsOf, hqN], by simp [nemit, hq, ofReqsOf]⟩
        dsimp only
        rw [hobs]
        simp only [Bool.false_eq_true, if_false, nemit, hq, ofReqsOf, List.cons_append, List.nil_append]
        have he := rinv_erase h t
        refine ⟨he.good, ?_, he.inj, ?_⟩
        · intro t' a' ha' hc'
          obtain ⟨p', h1, h2, h3⟩ := he.inA t' a' ha' hc'
          refine ⟨p', h1, h2, ?_⟩
          intro hm
          rcases List.mem_cons.mp hm with hpq | hm
          · -- the other association would hold the same nonce: same token, but that one is erased
            have ht' : t' ≠ t := by
              intro ht
              unfold setAssoc at ha'
              simp [ht] at ha'
            have ha'' : e.assocs t' = some a' := by
              unfold setAssoc at ha'
              simpa [ht'] using ha'
            exact ht' (h.inj t' t a' a ha'' ha hc' hc (by rw [h1, hq, hpq]))
          · exact h3 hm
        · intro p' hp'
          rcases List.mem_cons.mp hp' with rfl | hp'
          · exact hqA
          · exact h.used p' hp'

theorem recv_acc_decrypted {cfg : Cfg} {r : Recip} {ev : Ev} (h : (recv cfg r ev).2 = .acc) :
    decrypted cfg r ev = true := by
  unfold recv at h
  unfold decrypted
  dsimp only at h ⊢
  cases hv : (if (!r.init || !cfg.b12) = true then validate cfg r ev.piv else VRes.ok r) with
  | ub => rw [hv] at h; cases h
  | rej r1 => rw [hv] at h; cases h
  | ok r1 =>
    rw [hv] at h
    dsimp only at h ⊢
    cases ha : ev.authentic with
    | true => rfl
    | false => simp [ha] at h

/-- what a request does to the endpoint, whatever its fate: the recipient context takes the step of `recv`, no request
nonce is used, and the associations change at the token of the request only — an ACCEPTED request takes the association
over with its own nonce, any other request leaves the table as it was or without an association for its token (the
exits of the Appendix B.1.2 trap). -/
theorem reqIn_shape (cfg : Cfg) (e : Endp) (t : Nat) (ev : Ev) (obs : Bool) :
    (nstep cfg e (.reqIn t ev obs)).1.rcp = (recv cfg e.rcp ev).1 ∧
    ofReqsOf (nemit (nstep cfg e (.reqIn t ev obs)).2) = [] ∧
    ((recv cfg e.rcp ev).2 = .acc →
      ∃ w, (nstep cfg e (.reqIn t ev obs)).1.assocs = setAssoc e.assocs t (some w) ∧ w.nonce = .ofReq ev.piv) ∧
    ((recv cfg e.rcp ev).2 ≠ .acc →
      (nstep cfg e (.reqIn t ev obs)).1.assocs = e.assocs ∨
      (nstep cfg e (.reqIn t ev obs)).1.assocs = setAssoc e.assocs t none) := by
  simp only [nstep]
  by_cases hch : (recv cfg e.rcp ev).2 = .chal
  · rw [if_pos hch]
    dsimp only
    have hd := recv_chal_decrypted hch
    rw [hd, if_pos rfl]
    generalize hE : Endp.mk (recv cfg e.rcp ev).1 e.sys
      (setAssoc e.assocs t (some (Assoc.mk (.ofReq ev.piv) (keptObserve e.assocs t) false))) = E
    have hEa : E.assocs = setAssoc e.assocs t (some (Assoc.mk (.ofReq ev.piv) (keptObserve e.assocs t) false)) := by
      rw [← hE]
    have hEr : E.rcp = (recv cfg e.rcp ev).1 := by rw [← hE]
    refine ⟨by rw [respond_rcp, hEr], ?_, fun ha => (by rw [hch] at ha; cases ha), fun _ => Or.inr ?_⟩
    · generalize chalPiv _ = po
      cases po <;> rfl
    · rcases respond_assocs E t false true with h | h <;> rw [h, hEa] <;> simp only [setAssoc_same]
  · rw [if_neg hch]
    by_cases hacc : (recv cfg e.rcp ev).2 = .acc
    · have hd := recv_acc_decrypted hacc
      have hne : (decrypted cfg e.rcp ev && (recv cfg e.rcp ev).2 != .acc) = false := by simp [hacc]
      rw [hne]
      simp only [Bool.false_eq_true, if_false]
      rw [hd, if_pos rfl]
      refine ⟨(by first | trivial | rfl), by simp [nemit, ofReqsOf], fun _ => ?_, fun hn => absurd hacc hn⟩
      by_cases hao : (recv cfg e.rcp ev).2 = .acc ∧ obs = true
      · rw [if_pos hao, markObserve_set]; exact ⟨_, rfl, rfl⟩
      · rw [if_neg hao]; exact ⟨_, rfl, rfl⟩
    · have hao : ¬ ((recv cfg e.rcp ev).2 = .acc ∧ obs = true) := fun h => hacc h.1
      rcases Bool.eq_false_or_eq_true (decrypted cfg e.rcp ev) with hd | hd
      · have hne : (decrypted cfg e.rcp ev && (recv cfg e.rcp ev).2 != .acc) = true := by rw [hd]; simp [hacc]
        rw [hne, if_pos rfl]
        dsimp only
        rw [hd, if_pos rfl]
        refine ⟨(by first | trivial | rfl), by simp [nemit, ofReqsOf], fun ha => absurd ha hacc, fun _ => Or.inr ?_⟩
        rw [setAssoc_same]
      · have hne : (decrypted cfg e.rcp ev && (recv cfg e.rcp ev).2 != .acc) = false := by rw [hd]; rfl
        rw [hne]
        simp only [Bool.false_eq_true, if_false]
        rw [if_neg hao, hd]
        simp only [Bool.false_eq_true, if_false]
        exact ⟨(by first | trivial | rfl), by simp [nemit, ofReqsOf], fun ha => absurd ha hacc, fun _ => Or.inl (by first | trivial | rfl)⟩

/-- one operation of the endpoint other than a restart -/
theorem nstep_rinv {cfg : Cfg} {e : Endp} {A : List Nat} {F : Nat} {N : List Nat} (h : RInv e.rcp.view e.assocs A F N)
    (op : NOp) (hc : ∀ f, op ≠ .crash f) :
    ∃ A' F', RInv (nstep cfg e op).1.rcp.view (nstep cfg e op).1.assocs A' F' (ofReqsOf (nemit (nstep cfg e op).2) ++ N) ∧
      (∀ p ∈ ofReqsOf (nemit (nstep cfg e op).2), p ∉ N) ∧ (ofReqsOf (nemit (nstep cfg e op).2)).length ≤ 1 := by
  cases op with
  | crash f => exact absurd rfl (hc f)
  | sendRsp t o s => exact ⟨A, F, respond_rinv h t o s⟩
  | sendReq t o d =>
    refine ⟨A, F, ?_⟩
    simp only [nstep]
    cases hp : (ownPiv e.sys).2 with
    | none => exact ⟨by simpa [nemit, ofReqsOf] using h, by simp [nemit, ofReqsOf], by simp [nemit, ofReqsOf]⟩
    | some p =>
      refine ⟨?_, by simp [nemit, ofReqsOf], by simp [nemit, ofReqsOf]⟩
      simp only [nemit, ofReqsOf, List.nil_append]
      apply rinv_set_client h
      cases e.assocs t <;> rfl
  | reqIn t ev obs =>
    obtain ⟨hr, hem, hacc, hnacc⟩ := reqIn_shape cfg e t ev obs
    rw [hem, hr]
    simp only [List.nil_append, List.not_mem_nil, false_imp_iff, implies_true, List.length_nil, Nat.zero_le, and_true]
    rcases recv_good (cfg := cfg) ev h.good with ⟨ha, _, hpA, g', _⟩ | ⟨hna, _, hv⟩
    · obtain ⟨w, hw, hwn⟩ := hacc ha
      rw [hw]
      exact ⟨_, _, rinv_set_srv h g' hpA t w hwn⟩
    · rw [hv]
      rcases hnacc hna with hw | hw <;> rw [hw]
      · exact ⟨A, F, h⟩
      · exact ⟨A, F, rinv_erase h t⟩

/-- the run: the request nonces used along a history without a restart are distinct from everything used before it
and from each other -/
theorem nrun_ofReqs (cfg : Cfg) (ops : List NOp) : ∀ (e : Endp) (A : List Nat) (F : Nat) (N : List Nat),
    RInv e.rcp.view e.assocs A F N → (∀ op ∈ ops, ∀ f, op ≠ .crash f) →
    (∀ p ∈ ofReqsOf (nonces (nrun cfg e ops)), p ∉ N) ∧ (ofReqsOf (nonces (nrun cfg e ops))).Nodup := by
  induction ops with
  | nil => intro _ _ _ _ _ _; simp [nrun, nonces, ofReqsOf]
  | cons op ops ih =>
    intro e A F N h hc
    obtain ⟨A', F', h', hnew, hlen⟩ := nstep_rinv (cfg := cfg) h op (hc op List.mem_cons_self)
    obtain ⟨hfut, hnd⟩ := ih _ _ _ _ h' (fun o ho => hc o (List.mem_cons_of_mem _ ho))
    simp only [nrun, nonces, ofReqsOf_append]
    refine ⟨?_, ?_⟩
    · intro p hp
      rcases List.mem_append.mp hp with hp | hp
      · exact hnew p hp
      · exact fun hN => hfut p hp (List.mem_append_right _ hN)
    · rw [List.nodup_append]
      refine ⟨?_, hnd, ?_⟩
      · match hl : ofReqsOf (nemit (nstep cfg e op).2), hlen with
        | [], _ => exact List.Pairwise.nil
        | [x], _ => exact List.pairwise_singleton _ _
        | _ :: _ :: _, hh => simp at hh
      · intro a ha b hb hab
        subst hab
        exact hfut a hb (List.mem_append_left _ ha)

theorem nfinal_append (cfg : Cfg) (a b : List NOp) : ∀ e, nfinal cfg e (a ++ b) = nfinal cfg (nfinal cfg e a) b := by
  induction a with
  | nil => intro e; rfl
  | cons x a ih => intro e; simp only [List.cons_append, nfinal]; exact ih _

theorem mem_ownsOf {l : List Nonce} {p : Nat} (h : Nonce.own p ∈ l) : p ∈ ownsOf l := by
  induction l with
  | nil => cases h
  | cons x l ih =>
    rcases List.mem_cons.mp h with rfl | h'
    · simp [ownsOf]
    · cases x <;> simp [ownsOf, ih h']

theorem mem_ofReqsOf {l : List Nonce} {p : Nat} (h : Nonce.ofReq p ∈ l) : p ∈ ofReqsOf l := by
  induction l with
  | nil => cases h
  | cons x l ih =>
    rcases List.mem_cons.mp h with rfl | h'
    · simp [ofReqsOf]
    · cases x <;> simp [ofReqsOf, ih h']

/-- a list of nonces has no duplicates when its own Partial IVs and its request Partial IVs have none -/
theorem nodup_of_halves (l : List Nonce) (h1 : (ownsOf l).Nodup) (h2 : (ofReqsOf l).Nodup) : l.Nodup := by
  induction l with
  | nil => exact List.Pairwise.nil
  | cons x l ih =>
    cases x with
    | own p =>
      simp only [ownsOf, ofReqsOf, List.nodup_cons] at h1 h2
      exact List.nodup_cons.mpr ⟨fun hm => h1.1 (mem_ownsOf hm), ih h1.2 h2⟩
    | ofReq p =>
      simp only [ownsOf, ofReqsOf, List.nodup_cons] at h1 h2
      exact List.nodup_cons.mpr ⟨fun hm => h2.1 (mem_ofReqsOf hm), ih h1 h2.2⟩

end Coap.Replay
