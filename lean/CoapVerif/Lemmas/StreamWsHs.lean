import CoapVerif.Lemmas.StreamWsDefs
/- C05, WebSocket part: the handshake phase of the correspondence proof M_ws = S_ws.

   `rdHttpHeader_spec`: one call of `coap_ws_rd_http_header` (model `rdHttpHeader`) computes what the
   specification `handshake` computes on (the buffered line ++ the bytes the call consumed), for all bytes.
   Technique: "remaining work" — S on (buffer ++ available ++ X) before = S on (buffer' ++ left ++ X)
   after. -/
namespace Coap
open Coap.M Coap.M.Ws Coap.Spec.Stream Coap.Spec.Stream.Ws

/-! ### lists -/

theorem hs_take_append {a : Bytes} (b : Bytes) {i : Nat} (h : i < a.length) : (a ++ b).take i = a.take i :=
  List.take_append_of_le_length (by omega)

theorem hs_drop_append {a : Bytes} (b : Bytes) {i : Nat} (h : i < a.length) :
    (a ++ b).drop (i + 1) = a.drop (i + 1) ++ b :=
  List.drop_append_of_le_length (by omega)

/-! ### `lfIndex` (the end of the first line: the first LF, unless a NUL byte comes first) -/

theorem lfIndex_some_lt : ∀ (bs : Bytes) (i : Nat), lfIndex bs = some i → i < bs.length := by
  intro bs
  induction bs with
  | nil => intro i h; simp [lfIndex] at h
  | cons b r ih =>
    intro i h
    by_cases hb : b = 10
    · simp only [lfIndex, if_pos hb] at h
      simp only [List.length_cons]
      have : 0 = i := by simpa using h
      omega
    · simp only [lfIndex, if_neg hb] at h
      by_cases h0 : b = 0
      · simp [h0] at h
      · simp only [if_neg h0] at h
        cases hr : lfIndex r with
        | none => rw [hr] at h; simp at h
        | some j =>
          rw [hr] at h
          have hj := ih j hr
          have : j + 1 = i := by simpa using h
          simp only [List.length_cons]; omega

/-- the line end found in `a` is the line end of `a ++ b` -/
theorem lfIndex_append_some : ∀ (a b : Bytes) (i : Nat), lfIndex a = some i → lfIndex (a ++ b) = some i := by
  intro a
  induction a with
  | nil => intro b i h; simp [lfIndex] at h
  | cons c r ih =>
    intro b i h
    by_cases hc : c = 10
    · simp only [lfIndex, if_pos hc] at h
      simp only [List.cons_append, lfIndex, if_pos hc]; exact h
    · simp only [lfIndex, if_neg hc] at h
      by_cases h0 : c = 0
      · simp [h0] at h
      · simp only [if_neg h0] at h
        simp only [List.cons_append, lfIndex, if_neg hc, if_neg h0]
        cases hr : lfIndex r with
        | none => rw [hr] at h; simp at h
        | some j => rw [hr] at h; rw [ih b j hr]; exact h

/-- no line end in `a`: a line end of `a ++ b` lies in `b` -/
theorem lfIndex_append_ge : ∀ (a g : Bytes) (i : Nat), lfIndex a = none → lfIndex (a ++ g) = some i → a.length ≤ i := by
  intro a
  induction a with
  | nil => intro g i _ _; simp
  | cons b r ih =>
    intro g i hn hs
    simp only [lfIndex, List.cons_append] at hn hs
    by_cases hb : b = 10
    · simp [hb] at hn
    · simp only [hb, if_false] at hn hs
      by_cases h0 : b = 0
      · simp [h0] at hs
      · simp only [h0, if_false, Option.map_eq_none_iff] at hn
        simp only [h0, if_false, Option.map_eq_some_iff] at hs
        obtain ⟨j, hj, rfl⟩ := hs
        have := ih g j hn hj
        simp only [List.length_cons]; omega

/-! ### fuel independence of S -/

theorem handshake_fuel {σ} (V : Validator σ) : ∀ (f1 f2 : Nat) (s : σ) (bs : Bytes),
    bs.length < f1 → bs.length < f2 → handshake V f1 s bs = handshake V f2 s bs := by
  intro f1
  induction f1 with
  | zero => intro f2 s bs h; omega
  | succ f1 ih =>
    intro f2 s bs h1 h2
    cases f2 with
    | zero => omega
    | succ f2 =>
      simp only [handshake]
      cases hi : lfIndex bs with
      | none => rfl
      | some i =>
        have hlt := lfIndex_some_lt bs i hi
        have hd : (bs.drop (i + 1)).length < bs.length := by rw [List.length_drop]; omega
        simp only
        cases V.line s (stripCr (bs.take i)) with
        | none => rfl
        | some s' => simp only [ih f2 s' (bs.drop (i + 1)) (by omega) (by omega)]

/-! ### S from a line boundary: unfolding with canonical fuel -/

theorem hsRes_noLF {σ} (V : Validator σ) (mode : Mode) (s : σ) (bs : Bytes) (h : lfIndex bs = none) :
    hsRes V mode s bs = if bs.length > maxLine then ⟨[], false, true⟩ else ⟨[], false, false⟩ := by
  simp only [hsRes, handshake, h]
  by_cases hl : bs.length > maxLine
  · simp only [if_pos hl]
  · simp only [if_neg hl]

theorem hsRes_late {σ} (V : Validator σ) (mode : Mode) (s : σ) (bs : Bytes) (i : Nat) (h : lfIndex bs = some i)
    (hi : maxLine < i) : hsRes V mode s bs = ⟨[], false, true⟩ := by
  have hi' : i > maxLine := hi
  simp only [hsRes, handshake, h, if_pos hi']

theorem hsRes_empty {σ} (V : Validator σ) (mode : Mode) (s : σ) (bs : Bytes) (i : Nat) (h : lfIndex bs = some i)
    (hi : i ≤ maxLine) (hl : stripCr (bs.take i) = []) :
    hsRes V mode s bs = if V.final s then frRes mode (bs.drop (i + 1)) else ⟨[], false, true⟩ := by
  have hi' : ¬ i > maxLine := by omega
  simp only [hsRes, handshake, h, if_neg hi', hl, if_true]
  cases V.final s <;> simp

theorem hsRes_refused {σ} (V : Validator σ) (mode : Mode) (s : σ) (bs : Bytes) (i : Nat) (h : lfIndex bs = some i)
    (hi : i ≤ maxLine) (hl : stripCr (bs.take i) ≠ []) (hv : V.line s (stripCr (bs.take i)) = none) :
    hsRes V mode s bs = ⟨[], false, true⟩ := by
  have hi' : ¬ i > maxLine := by omega
  simp only [hsRes, handshake, h, if_neg hi', if_neg hl, hv]

theorem hsRes_step {σ} (V : Validator σ) (mode : Mode) (s s' : σ) (bs : Bytes) (i : Nat) (h : lfIndex bs = some i)
    (hi : i ≤ maxLine) (hl : stripCr (bs.take i) ≠ []) (hv : V.line s (stripCr (bs.take i)) = some s') :
    hsRes V mode s bs = hsRes V mode s' (bs.drop (i + 1)) := by
  have hi' : ¬ i > maxLine := by omega
  have hlt := lfIndex_some_lt bs i h
  have hd : (bs.drop (i + 1)).length < bs.length := by rw [List.length_drop]; omega
  have e : handshake V (bs.length + 1) s bs = handshake V bs.length s' (bs.drop (i + 1)) := by
    simp only [handshake, h, if_neg hi', if_neg hl, hv]
  unfold hsRes
  rw [e, handshake_fuel V bs.length ((bs.drop (i + 1)).length + 1) s' (bs.drop (i + 1)) hd (by omega)]

/-- an incomplete line (no line end, at most 158 bytes): S waits -/
theorem hsRes_pend {σ} (V : Validator σ) (mode : Mode) (s : σ) (l : Bytes) (hno : lfIndex l = none)
    (hlen : l.length < httpCap - 1) : hsRes V mode s l = ⟨[], false, false⟩ := by
  rw [hsRes_noLF V mode s l hno]
  have : ¬ l.length > maxLine := by simp only [httpCap, maxLine] at *; omega
  rw [if_neg this]

/-! ### one round of the `while (cp)` loop -/

theorem lineLoop_empty (mode : Mode) (accept : Bytes) (fuel : Nat) (st : St) (i : Nat)
    (h : lfIdx st.httpHdr = some i) (hl : stripCr (st.httpHdr.take i) = []) :
    lineLoop mode accept (fuel + 1) st =
      if allSeen mode st.seen then
        (if (st.httpHdr.drop (i + 1)).length > fsCap then .oob
         else .up { st with up := true, seen := st.seen, rdHeader := st.httpHdr.drop (i + 1), httpHdr := [] })
      else .fail := by
  unfold stripCr at hl
  simp only [lineLoop, h, hl, if_true]

theorem lineLoop_refused (mode : Mode) (accept : Bytes) (fuel : Nat) (st : St) (i : Nat)
    (h : lfIdx st.httpHdr = some i) (hl : stripCr (st.httpHdr.take i) ≠ [])
    (hv : lineOk mode accept st.seen (stripCr (st.httpHdr.take i)) = none) :
    lineLoop mode accept (fuel + 1) st = .fail := by
  unfold stripCr at hl hv
  simp only [lineLoop, h, if_neg hl, hv]

theorem lineLoop_step (mode : Mode) (accept : Bytes) (fuel : Nat) (st : St) (i : Nat) (s' : Seen)
    (h : lfIdx st.httpHdr = some i) (hl : stripCr (st.httpHdr.take i) ≠ [])
    (hv : lineOk mode accept st.seen (stripCr (st.httpHdr.take i)) = some s') :
    lineLoop mode accept (fuel + 1) st =
      lineLoop mode accept fuel { st with seen := s', httpHdr := st.httpHdr.drop (i + 1) } := by
  unfold stripCr at hl hv
  simp only [lineLoop, h, if_neg hl, hv]
  simp

/-! ### the `while (cp)` loop = S on the complete lines in the buffer -/

/-- what `lineLoop` started on `st` (buffer `st.httpHdr`, followed in the stream by `Y`) has to deliver -/
def LinesPost (mode : Mode) (accept : Bytes) (Y : Bytes) (st : St) : Lines → Prop
  | .fail => hsRes (validator mode accept) mode st.seen (st.httpHdr ++ Y) = ⟨[], false, true⟩
  | .oob => False
  | .cont st' => lfIndex st'.httpHdr = none ∧ st'.httpHdr.length ≤ st.httpHdr.length ∧
      hsRes (validator mode accept) mode st.seen (st.httpHdr ++ Y) =
        hsRes (validator mode accept) mode st'.seen (st'.httpHdr ++ Y) ∧
      st'.up = st.up ∧ st'.rdHeader = st.rdHeader ∧ st'.allHdrIn = st.allHdrIn ∧ st'.rxData = st.rxData
  | .up st' => st'.up = true ∧ st'.rdHeader.length < fsCap ∧
      hsRes (validator mode accept) mode st.seen (st.httpHdr ++ Y) = frRes mode (st'.rdHeader ++ Y) ∧
      st'.allHdrIn = st.allHdrIn ∧ st'.rxData = st.rxData

theorem LinesPost_fail {mode : Mode} {accept Y : Bytes} {st : St}
    (h : hsRes (validator mode accept) mode st.seen (st.httpHdr ++ Y) = ⟨[], false, true⟩) :
    LinesPost mode accept Y st .fail := h

theorem LinesPost_cont {mode : Mode} {accept Y : Bytes} {st st' : St}
    (h : lfIndex st'.httpHdr = none ∧ st'.httpHdr.length ≤ st.httpHdr.length ∧
      hsRes (validator mode accept) mode st.seen (st.httpHdr ++ Y) =
        hsRes (validator mode accept) mode st'.seen (st'.httpHdr ++ Y) ∧
      st'.up = st.up ∧ st'.rdHeader = st.rdHeader ∧ st'.allHdrIn = st.allHdrIn ∧ st'.rxData = st.rxData) :
    LinesPost mode accept Y st (.cont st') := h

theorem LinesPost_up {mode : Mode} {accept Y : Bytes} {st st' : St}
    (h : st'.up = true ∧ st'.rdHeader.length < fsCap ∧
      hsRes (validator mode accept) mode st.seen (st.httpHdr ++ Y) = frRes mode (st'.rdHeader ++ Y) ∧
      st'.allHdrIn = st.allHdrIn ∧ st'.rxData = st.rxData) :
    LinesPost mode accept Y st (.up st') := h

theorem LinesPost_trans (mode : Mode) (accept : Bytes) (Y : Bytes) (st st2 : St) (res : Lines)
    (hres : hsRes (validator mode accept) mode st.seen (st.httpHdr ++ Y) =
      hsRes (validator mode accept) mode st2.seen (st2.httpHdr ++ Y))
    (hlen : st2.httpHdr.length ≤ st.httpHdr.length) (hup : st2.up = st.up) (hrd : st2.rdHeader = st.rdHeader)
    (hall : st2.allHdrIn = st.allHdrIn) (hrx : st2.rxData = st.rxData)
    (h : LinesPost mode accept Y st2 res) : LinesPost mode accept Y st res := by
  cases res with
  | fail => simp only [LinesPost] at h ⊢; rw [hres]; exact h
  | oob => exact h
  | cont st' =>
    simp only [LinesPost] at h ⊢
    obtain ⟨h1, h2, h4, h5, h6, h7, h8⟩ := h
    exact ⟨h1, by omega, by rw [hres]; exact h4, by rw [h5, hup], by rw [h6, hrd], by rw [h7, hall], by rw [h8, hrx]⟩
  | up st' =>
    simp only [LinesPost] at h ⊢
    obtain ⟨h1, h2, h3, h4, h5⟩ := h
    exact ⟨h1, h2, by rw [hres]; exact h3, by rw [h4, hall], by rw [h5, hrx]⟩

theorem lineLoop_spec (mode : Mode) (accept : Bytes) (Y : Bytes) : ∀ (fuel : Nat) (st : St),
    st.httpHdr.length < fuel → st.httpHdr.length ≤ httpCap - 1 →
    (∀ i, lfIndex st.httpHdr = some i → st.httpHdr.length ≤ i + 14) →
    LinesPost mode accept Y st (lineLoop mode accept fuel st) := by
  intro fuel
  induction fuel with
  | zero => intro st h; omega
  | succ f ih =>
    intro st hf hcap hcar
    cases hi : lfIndex st.httpHdr with
    | none =>
      have hidx : lfIdx st.httpHdr = none := by rw [lfIdx_eq]; exact hi
      have e : lineLoop mode accept (f + 1) st = .cont st := by simp only [lineLoop, hidx]
      rw [e]
      exact LinesPost_cont ⟨hi, Nat.le_refl _, rfl, rfl, rfl, rfl, rfl⟩
    | some i =>
      have hlt := lfIndex_some_lt _ i hi
      have himax : i ≤ maxLine := by simp only [httpCap, maxLine] at *; omega
      have hiY := lfIndex_append_some st.httpHdr Y i hi
      have htake := hs_take_append Y hlt
      have hdrop := hs_drop_append Y hlt
      have hidx : lfIdx st.httpHdr = some i := by rw [lfIdx_eq]; exact hi
      have hcar' := hcar i hi
      have hdl : (st.httpHdr.drop (i + 1)).length + i + 1 = st.httpHdr.length := by
        rw [List.length_drop]; omega
      by_cases hl : stripCr (st.httpHdr.take i) = []
      · rw [lineLoop_empty mode accept f st i hidx hl]
        have hS := hsRes_empty (validator mode accept) mode st.seen (st.httpHdr ++ Y) i hiY himax
          (by rw [htake]; exact hl)
        rw [hdrop] at hS
        have hfin : (validator mode accept).final st.seen = allSeen mode st.seen := rfl
        rw [hfin] at hS
        by_cases ha : allSeen mode st.seen = true
        · have hnb : ¬ (st.httpHdr.drop (i + 1)).length > fsCap := by simp only [fsCap]; omega
          rw [if_pos ha, if_neg hnb]
          rw [if_pos ha] at hS
          exact LinesPost_up ⟨rfl, by simp only [fsCap]; omega, hS, rfl, rfl⟩
        · rw [if_neg ha]
          rw [if_neg ha] at hS
          exact LinesPost_fail hS
      · cases hv : lineOk mode accept st.seen (stripCr (st.httpHdr.take i)) with
        | none =>
          rw [lineLoop_refused mode accept f st i hidx hl hv]
          exact LinesPost_fail (hsRes_refused (validator mode accept) mode st.seen (st.httpHdr ++ Y) i hiY himax
            (by rw [htake]; exact hl) (by rw [htake]; exact hv))
        | some s' =>
          have hS := hsRes_step (validator mode accept) mode st.seen s' (st.httpHdr ++ Y) i hiY himax
            (by rw [htake]; exact hl) (by rw [htake]; exact hv)
          rw [hdrop] at hS
          rw [lineLoop_step mode accept f st i s' hidx hl hv]
          apply LinesPost_trans mode accept Y st { st with seen := s', httpHdr := st.httpHdr.drop (i + 1) } _
            hS (by simp only; omega) rfl rfl rfl rfl
          apply ih
          · simp only; omega
          · simp only; omega
          · intro j _; simp only; omega

/-! ### `coap_ws_rd_http_header` -/

/-- a full line buffer without line end: S has refused the line -/
theorem hsRes_full {σ} (V : Validator σ) (mode : Mode) (s : σ) (H Z : Bytes) (hno : lfIndex H = none)
    (hlen : httpCap - 1 ≤ H.length) : hsRes V mode s (H ++ Z) = ⟨[], false, true⟩ := by
  cases hz : lfIndex (H ++ Z) with
  | none =>
    rw [hsRes_noLF V mode s _ hz]
    have : (H ++ Z).length > maxLine := by
      rw [List.length_append]; simp only [httpCap, maxLine] at *; omega
    rw [if_pos this]
  | some j =>
    have := lfIndex_append_ge H Z j hno hz
    exact hsRes_late V mode s _ j hz (by simp only [httpCap, maxLine] at *; omega)

/-- what one call of `rdHttpHeader` on `st`, `av` (followed in the stream by `X`) has to deliver -/
def RdPost (mode : Mode) (accept : Bytes) (X : Bytes) (st : St) (av : Bytes) : R (St × Bytes) → Prop
  | R.rej => hsRes (validator mode accept) mode st.seen (st.httpHdr ++ (av ++ X)) = ⟨[], false, true⟩
  | R.oob => False
  | R.ok p =>
      (p.1.up = false → p.2 = [] ∧ HsInv p.1 ∧
          hsRes (validator mode accept) mode st.seen (st.httpHdr ++ (av ++ X)) =
            hsRes (validator mode accept) mode p.1.seen (p.1.httpHdr ++ X)) ∧
      (p.1.up = true → FrPre p.1 p.1.rdHeader ∧ p.1.rdHeader.length < fsCap ∧ p.2.length < av.length ∧
          hsRes (validator mode accept) mode st.seen (st.httpHdr ++ (av ++ X)) =
            frRes mode (p.1.rdHeader ++ (p.2 ++ X)))

theorem RdPost_trans (mode : Mode) (accept : Bytes) (X : Bytes) (st st2 : St) (av av2 : Bytes)
    (res : R (St × Bytes))
    (hres : hsRes (validator mode accept) mode st.seen (st.httpHdr ++ (av ++ X)) =
      hsRes (validator mode accept) mode st2.seen (st2.httpHdr ++ (av2 ++ X)))
    (hlen : av2.length ≤ av.length)
    (h : RdPost mode accept X st2 av2 res) : RdPost mode accept X st av res := by
  cases res with
  | rej => simp only [RdPost] at h ⊢; rw [hres]; exact h
  | oob => exact h
  | ok p =>
    simp only [RdPost] at h ⊢
    refine ⟨fun hu => ?_, fun hu => ?_⟩
    · obtain ⟨h1, h2, h4⟩ := h.1 hu
      exact ⟨h1, h2, by rw [hres]; exact h4⟩
    · obtain ⟨h1, h2, h3, h4⟩ := h.2 hu
      exact ⟨h1, h2, by omega, by rw [hres]; exact h4⟩

theorem rdHttpHeader_spec_gen (mode : Mode) (accept : Bytes) (X : Bytes) :
    ∀ (fuel : Nat) (st : St) (av : Bytes),
    st.up = false → lfIndex st.httpHdr = none → st.httpHdr.length ≤ httpCap - 1 →
    st.rdHeader = [] → st.allHdrIn = false → st.rxData = none →
    av.length + 1 < fuel →
    RdPost mode accept X st av (rdHttpHeader mode accept fuel st av) := by
  intro fuel
  induction fuel with
  | zero => intro st av _ _ _ _ _ _ h; omega
  | succ f ih =>
    intro st av hup hno hcap hrd hall hrx hf
    obtain ⟨up, H, seen, rdHeader, allHdrIn, maskKey, dataOfs, dataSize, rxData⟩ := st
    simp only at hup hno hcap hrd hall hrx
    subst hup hrd hall hrx
    by_cases hlong : httpCap - 1 ≤ H.length
    · have h0 : httpCap - 1 - H.length = 0 := by omega
      have e : rdHttpHeader mode accept (f + 1) ⟨false, H, seen, [], false, maskKey, dataOfs, dataSize, none⟩ av
          = R.rej := by simp [rdHttpHeader, h0, fsCap]
      rw [e]
      exact hsRes_full _ mode seen H (av ++ X) hno hlong
    · generalize hrem : (if httpCap - 1 - H.length > fsCap then fsCap else httpCap - 1 - H.length) = rem
      have hrem_pos : 0 < rem := by
        rw [← hrem]
        by_cases h : httpCap - 1 - H.length > fsCap
        · rw [if_pos h]; simp [fsCap]
        · rw [if_neg h]; omega
      have hrem_le : rem ≤ httpCap - 1 - H.length := by
        rw [← hrem]
        by_cases h : httpCap - 1 - H.length > fsCap
        · rw [if_pos h]; omega
        · rw [if_neg h]; exact Nat.le_refl _
      have hrem_14 : rem ≤ 14 := by
        rw [← hrem]
        by_cases h : httpCap - 1 - H.length > fsCap
        · rw [if_pos h]; simp [fsCap]
        · rw [if_neg h]; simp only [fsCap] at h; omega
      have hne : ¬ rem = 0 := by omega
      rcases av with _ | ⟨a, av⟩
      · have e : rdHttpHeader mode accept (f + 1) ⟨false, H, seen, [], false, maskKey, dataOfs, dataSize, none⟩ []
            = R.ok (⟨false, H, seen, [], false, maskKey, dataOfs, dataSize, none⟩, []) := by
          simp only [rdHttpHeader, hrem, if_neg hne, Bool.false_eq_true, if_false, List.take_nil, List.length_nil,
            if_true]
        rw [e]
        refine ⟨fun _ => ⟨rfl, ⟨rfl, hno, by show H.length < httpCap - 1; omega, rfl, rfl, rfl⟩, by simp⟩, fun hu => ?_⟩
        simp at hu
      · have hgl : ¬ ((a :: av).take rem).length = 0 := by
          rw [List.length_take]; simp only [List.length_cons]; omega
        have hgl14 : ((a :: av).take rem).length ≤ 14 := by
          rw [List.length_take]; omega
        have hbl : (H ++ (a :: av).take rem).length ≤ httpCap - 1 := by
          rw [List.length_append, List.length_take]; omega
        have hbuf : ¬ (H ++ (a :: av).take rem).length ≥ httpCap := by
          simp only [httpCap] at *; omega
        have hsplit : H ++ ((a :: av) ++ X) = (H ++ (a :: av).take rem) ++ ((a :: av).drop rem ++ X) := by
          rw [List.append_assoc, ← List.append_assoc ((a :: av).take rem), List.take_append_drop]
        have hcar : ∀ i, lfIndex (H ++ (a :: av).take rem) = some i → (H ++ (a :: av).take rem).length ≤ i + 14 := by
          intro i hi
          have := lfIndex_append_ge H _ i hno hi
          rw [List.length_append]; omega
        have hdl : ((a :: av).drop rem).length + 1 ≤ (a :: av).length := by
          rw [List.length_drop]; simp only [List.length_cons]; omega
        have hLL := lineLoop_spec mode accept ((a :: av).drop rem ++ X) ((H ++ (a :: av).take rem).length + 1)
          ⟨false, H ++ (a :: av).take rem, seen, [], false, maskKey, dataOfs, dataSize, none⟩
          (Nat.lt_succ_self _) hbl hcar
        simp only [rdHttpHeader, hrem, if_neg hne, if_neg hgl, if_neg hbuf, Bool.false_eq_true, if_false]
        generalize lineLoop mode accept ((H ++ (a :: av).take rem).length + 1)
          ⟨false, H ++ (a :: av).take rem, seen, [], false, maskKey, dataOfs, dataSize, none⟩ = res at hLL ⊢
        cases res with
        | fail =>
          have hLL' : hsRes (validator mode accept) mode seen
              ((H ++ (a :: av).take rem) ++ ((a :: av).drop rem ++ X)) = ⟨[], false, true⟩ := hLL
          show hsRes (validator mode accept) mode seen (H ++ ((a :: av) ++ X)) = ⟨[], false, true⟩
          rw [hsplit]; exact hLL'
        | oob => exact hLL
        | up st' =>
          obtain ⟨h1, h2, h3, h4, h5⟩ := hLL
          refine ⟨fun hu => ?_, fun _ => ⟨⟨h1, h4, rfl, h5⟩, h2, by show ((a :: av).drop rem).length < (a :: av).length; omega, ?_⟩⟩
          · rw [h1] at hu; simp at hu
          · show hsRes (validator mode accept) mode seen (H ++ ((a :: av) ++ X)) = _
            rw [hsplit]; exact h3
        | cont st' =>
          obtain ⟨h1, h2, h4, h5, h6, h7, h8⟩ := hLL
          simp only at h2 h4 h5 h6 h7 h8
          apply RdPost_trans mode accept X _ st' (a :: av) ((a :: av).drop rem)
          · show hsRes (validator mode accept) mode seen (H ++ ((a :: av) ++ X)) = _
            rw [hsplit]; exact h4
          · omega
          · apply ih st' _ h5 h1 (by omega) h6 h7 h8
            · simp only [List.length_cons] at hdl hf; omega


/-- one call of coap_ws_rd_http_header = S on the buffered line ++ the bytes it consumed -/
theorem rdHttpHeader_spec (mode : Mode) (accept : Bytes) (X : Bytes) :
    ∀ (fuel : Nat) (st : St) (av : Bytes), HsInv st → av.length + 1 < fuel →
    match rdHttpHeader mode accept fuel st av with
    | R.rej => hsRes (validator mode accept) mode st.seen (st.httpHdr ++ (av ++ X)) = ⟨[], false, true⟩
    | R.oob => False
    | R.ok (st', av') =>
        (st'.up = false → av' = [] ∧ HsInv st' ∧
            hsRes (validator mode accept) mode st.seen (st.httpHdr ++ (av ++ X)) =
              hsRes (validator mode accept) mode st'.seen (st'.httpHdr ++ X)) ∧
        (st'.up = true → FrPre st' st'.rdHeader ∧ st'.rdHeader.length < fsCap ∧ av'.length < av.length ∧
            hsRes (validator mode accept) mode st.seen (st.httpHdr ++ (av ++ X)) =
              frRes mode (st'.rdHeader ++ (av' ++ X))) := by
  intro fuel st av hinv hf
  obtain ⟨h1, h2, h3, h4, h5, h6⟩ := hinv
  have h := rdHttpHeader_spec_gen mode accept X fuel st av h1 h2 (by omega) h4 h5 h6 hf
  generalize rdHttpHeader mode accept fuel st av = res at h ⊢
  cases res with
  | rej => exact h
  | oob => exact h
  | ok p => obtain ⟨st', av'⟩ := p; exact h

/-- the hypotheses are satisfiable: the empty line "\r\n" cut between the line buffer and the read, a frame behind
it; and a line buffer that holds a NUL byte and, behind it, an LF that is not a line end -/
example : HsInv { httpHdr := [13] } ∧ ([10, 130, 0] : Bytes).length + 1 < ([10, 130, 0] : Bytes).length + 2 :=
  ⟨⟨rfl, by decide, by decide, rfl, rfl, rfl⟩, by decide⟩
example : HsInv { httpHdr := [88, 0, 13, 10, 13, 10] } := ⟨rfl, by decide, by decide, rfl, rfl, rfl⟩

end Coap
