import CoapVerif.Lemmas.StreamWsDefs
/- C05, WebSocket part: the handshake phase of the correspondence proof M_ws = S_ws.

   `rdHttpHeader_spec`: one call of `coap_ws_rd_http_header` (model `rdHttpHeader`) computes what the
   specification `handshake` computes on (the buffered line ++ the bytes the call consumed), on the sub-domain
   `hsClean`.  Technique: "remaining work" — S on (buffer ++ available ++ X) before = S on (buffer' ++ left ++ X)
   after. -/
namespace Coap
open Coap.M Coap.M.Ws Coap.Spec.Stream Coap.Spec.Stream.Ws

/-! ### lists -/

theorem hs_take_append {a : Bytes} (b : Bytes) {i : Nat} (h : i < a.length) : (a ++ b).take i = a.take i :=
  List.take_append_of_le_length (by omega)

theorem hs_drop_append {a : Bytes} (b : Bytes) {i : Nat} (h : i < a.length) :
    (a ++ b).drop (i + 1) = a.drop (i + 1) ++ b :=
  List.drop_append_of_le_length (by omega)

/-! ### `lfIndex` -/

theorem lfIndex_some_lt : ∀ (bs : Bytes) (i : Nat), lfIndex bs = some i → i < bs.length := by
  intro bs
  induction bs with
  | nil => intro i h; simp [lfIndex] at h
  | cons b r ih =>
    intro i h
    by_cases hb : b = 10
    · simp only [lfIndex, if_pos hb] at h
      simp only [List.length_cons]
      have : 0 = i := by simpa using h
      omega
    · simp only [lfIndex, if_neg hb] at h
      cases hr : lfIndex r with
      | none => rw [hr] at h; simp at h
      | some j =>
        rw [hr] at h
        have hj := ih j hr
        have : j + 1 = i := by simpa using h
        simp only [List.length_cons]; omega

theorem lfIndex_none_noLF : ∀ (bs : Bytes), lfIndex bs = none → ∀ b ∈ bs, b ≠ 10 := by
  intro bs
  induction bs with
  | nil => intro _ b hb; simp at hb
  | cons c r ih =>
    intro h b hb
    by_cases hc : c = 10
    · simp [lfIndex, hc] at h
    · simp only [lfIndex, if_neg hc] at h
      cases hr : lfIndex r with
      | some j => rw [hr] at h; simp at h
      | none =>
        rcases List.mem_cons.mp hb with e | e
        · rw [e]; exact hc
        · exact ih hr b e

theorem lfIndex_noLF_none : ∀ (bs : Bytes), (∀ b ∈ bs, b ≠ 10) → lfIndex bs = none := by
  intro bs
  induction bs with
  | nil => intro _; rfl
  | cons c r ih =>
    intro h
    have hc : c ≠ 10 := h c (by simp)
    have hr : ∀ b ∈ r, b ≠ 10 := fun x hx => h x (by simp [hx])
    simp only [lfIndex, if_neg hc, ih hr]; rfl

/-- the first LF of `a` is the first LF of `a ++ b` -/
theorem lfIndex_append_some : ∀ (a b : Bytes) (i : Nat), lfIndex a = some i → lfIndex (a ++ b) = some i := by
  intro a
  induction a with
  | nil => intro b i h; simp [lfIndex] at h
  | cons c r ih =>
    intro b i h
    by_cases hc : c = 10
    · simp only [lfIndex, if_pos hc] at h
      simp only [List.cons_append, lfIndex, if_pos hc]; exact h
    · simp only [lfIndex, if_neg hc] at h
      simp only [List.cons_append, lfIndex, if_neg hc]
      cases hr : lfIndex r with
      | none => rw [hr] at h; simp at h
      | some j => rw [hr] at h; rw [ih b j hr]; exact h

/-- no LF in `a`: the first LF of `a ++ b` is the one of `b` -/
theorem lfIndex_append_noLF : ∀ (a b : Bytes), (∀ x ∈ a, x ≠ 10) →
    lfIndex (a ++ b) = (lfIndex b).map (· + a.length) := by
  intro a
  induction a with
  | nil => intro b _; simp
  | cons c r ih =>
    intro b h
    have hc : c ≠ 10 := h c (by simp)
    have hr : ∀ x ∈ r, x ≠ 10 := fun x hx => h x (by simp [hx])
    simp only [List.cons_append, lfIndex, if_neg hc, ih b hr, List.length_cons]
    cases lfIndex b with
    | none => rfl
    | some j => simp only [Option.map_some]; congr 1

/-! ### `lfIdx` (strchr: stops at a NUL) against `lfIndex` -/

theorem lfIdx_of_lfIndex_none : ∀ (a : Bytes), lfIndex a = none → lfIdx a = none := by
  intro a
  induction a with
  | nil => intro _; rfl
  | cons c r ih =>
    intro h
    by_cases hc : c = 10
    · simp [lfIndex, hc] at h
    · simp only [lfIndex, if_neg hc] at h
      have hr : lfIndex r = none := by
        cases hr : lfIndex r with
        | none => rfl
        | some j => rw [hr] at h; simp at h
      simp only [lfIdx, if_neg hc, ih hr]
      split <;> rfl

theorem lfIdx_of_lfIndex_some : ∀ (a : Bytes) (i : Nat), lfIndex a = some i → (∀ b ∈ a.take i, b ≠ 0) →
    lfIdx a = some i := by
  intro a
  induction a with
  | nil => intro i h; simp [lfIndex] at h
  | cons c r ih =>
    intro i h hz
    by_cases hc : c = 10
    · simp only [lfIndex, if_pos hc] at h
      simp only [lfIdx, if_pos hc]; exact h
    · simp only [lfIndex, if_neg hc] at h
      cases hr : lfIndex r with
      | none => rw [hr] at h; simp at h
      | some j =>
        rw [hr] at h
        have hij : j + 1 = i := by simpa using h
        subst hij
        have hc0 : c ≠ 0 := hz c (by simp)
        have hz' : ∀ b ∈ r.take j, b ≠ 0 := fun x hx => hz x (by simp [hx])
        simp only [lfIdx, if_neg hc, if_neg hc0, ih j hr hz']; rfl

/-! ### fuel independence of S -/

theorem handshake_fuel {σ} (V : Validator σ) : ∀ (f1 f2 : Nat) (s : σ) (bs : Bytes),
    bs.length < f1 → bs.length < f2 → handshake V f1 s bs = handshake V f2 s bs := by
  intro f1
  induction f1 with
  | zero => intro f2 s bs h; omega
  | succ f1 ih =>
    intro f2 s bs h1 h2
    cases f2 with
    | zero => omega
    | succ f2 =>
      simp only [handshake]
      cases hi : lfIndex bs with
      | none => rfl
      | some i =>
        have hlt := lfIndex_some_lt bs i hi
        have hd : (bs.drop (i + 1)).length < bs.length := by rw [List.length_drop]; omega
        simp only
        cases V.line s (stripCr (bs.take i)) with
        | none => rfl
        | some s' => simp only [ih f2 s' (bs.drop (i + 1)) (by omega) (by omega)]

theorem hsClean_fuel (mode : Mode) (accept : Bytes) : ∀ (f1 f2 : Nat) (s : Seen) (bs : Bytes),
    bs.length < f1 → bs.length < f2 → hsClean mode accept f1 s bs = hsClean mode accept f2 s bs := by
  intro f1
  induction f1 with
  | zero => intro f2 s bs h; omega
  | succ f1 ih =>
    intro f2 s bs h1 h2
    cases f2 with
    | zero => omega
    | succ f2 =>
      simp only [hsClean]
      cases hi : lfIndex bs with
      | none => rfl
      | some i =>
        have hlt := lfIndex_some_lt bs i hi
        have hd : (bs.drop (i + 1)).length < bs.length := by rw [List.length_drop]; omega
        simp only
        cases lineOk mode accept s (stripCr (bs.take i)) with
        | none => rfl
        | some s' => simp only [ih f2 s' (bs.drop (i + 1)) (by omega) (by omega)]

theorem hsClean_eq_hsCleanOf (mode : Mode) (accept : Bytes) (f : Nat) (s : Seen) (bs : Bytes) (h : bs.length < f) :
    hsClean mode accept f s bs = hsCleanOf mode accept s bs :=
  hsClean_fuel mode accept f (bs.length + 1) s bs h (Nat.lt_succ_self _)

/-! ### S from a line boundary: unfolding with canonical fuel -/

theorem hsRes_noLF {σ} (V : Validator σ) (mode : Mode) (s : σ) (bs : Bytes) (h : lfIndex bs = none) :
    hsRes V mode s bs = if bs.length > maxLine then ⟨[], false, true⟩ else ⟨[], false, false⟩ := by
  simp only [hsRes, handshake, h]
  by_cases hl : bs.length > maxLine
  · simp only [if_pos hl]
  · simp only [if_neg hl]

theorem hsRes_late {σ} (V : Validator σ) (mode : Mode) (s : σ) (bs : Bytes) (i : Nat) (h : lfIndex bs = some i)
    (hi : maxLine < i) : hsRes V mode s bs = ⟨[], false, true⟩ := by
  have hi' : i > maxLine := hi
  simp only [hsRes, handshake, h, if_pos hi']

theorem hsRes_empty {σ} (V : Validator σ) (mode : Mode) (s : σ) (bs : Bytes) (i : Nat) (h : lfIndex bs = some i)
    (hi : i ≤ maxLine) (hl : stripCr (bs.take i) = []) :
    hsRes V mode s bs = if V.final s then frRes mode (bs.drop (i + 1)) else ⟨[], false, true⟩ := by
  have hi' : ¬ i > maxLine := by omega
  simp only [hsRes, handshake, h, if_neg hi', hl, if_true]
  cases V.final s <;> simp

theorem hsRes_refused {σ} (V : Validator σ) (mode : Mode) (s : σ) (bs : Bytes) (i : Nat) (h : lfIndex bs = some i)
    (hi : i ≤ maxLine) (hl : stripCr (bs.take i) ≠ []) (hv : V.line s (stripCr (bs.take i)) = none) :
    hsRes V mode s bs = ⟨[], false, true⟩ := by
  have hi' : ¬ i > maxLine := by omega
  simp only [hsRes, handshake, h, if_neg hi', if_neg hl, hv]

theorem hsRes_step {σ} (V : Validator σ) (mode : Mode) (s s' : σ) (bs : Bytes) (i : Nat) (h : lfIndex bs = some i)
    (hi : i ≤ maxLine) (hl : stripCr (bs.take i) ≠ []) (hv : V.line s (stripCr (bs.take i)) = some s') :
    hsRes V mode s bs = hsRes V mode s' (bs.drop (i + 1)) := by
  have hi' : ¬ i > maxLine := by omega
  have hlt := lfIndex_some_lt bs i h
  have hd : (bs.drop (i + 1)).length < bs.length := by rw [List.length_drop]; omega
  have e : handshake V (bs.length + 1) s bs = handshake V bs.length s' (bs.drop (i + 1)) := by
    simp only [handshake, h, if_neg hi', if_neg hl, hv]
  unfold hsRes
  rw [e, handshake_fuel V bs.length ((bs.drop (i + 1)).length + 1) s' (bs.drop (i + 1)) hd (by omega)]

/-- an incomplete line (no LF, at most 158 bytes): S waits -/
theorem hsRes_pend {σ} (V : Validator σ) (mode : Mode) (s : σ) (l : Bytes) (hno : ∀ b ∈ l, b ≠ 10)
    (hlen : l.length < httpCap - 1) : hsRes V mode s l = ⟨[], false, false⟩ := by
  rw [hsRes_noLF V mode s l (lfIndex_noLF_none l hno)]
  have : ¬ l.length > maxLine := by simp only [httpCap, maxLine] at *; omega
  rw [if_neg this]

theorem hsCleanOf_noNul (mode : Mode) (accept : Bytes) (s : Seen) (bs : Bytes) (i : Nat)
    (hc : hsCleanOf mode accept s bs = true) (h : lfIndex bs = some i) (hi : i ≤ maxLine) :
    ∀ b ∈ bs.take i, b ≠ 0 := by
  have hi' : ¬ i > maxLine := by omega
  simp only [hsCleanOf, hsClean, h, if_neg hi', Bool.and_eq_true, List.all_eq_true] at hc
  intro b hb
  have := hc.1 b hb
  simpa using this

theorem hsCleanOf_step (mode : Mode) (accept : Bytes) (s s' : Seen) (bs : Bytes) (i : Nat)
    (hc : hsCleanOf mode accept s bs = true) (h : lfIndex bs = some i) (hi : i ≤ maxLine)
    (hl : stripCr (bs.take i) ≠ []) (hv : lineOk mode accept s (stripCr (bs.take i)) = some s') :
    sepFirst mode s (stripCr (bs.take i)) = false ∧ hsCleanOf mode accept s' (bs.drop (i + 1)) = true := by
  have hi' : ¬ i > maxLine := by omega
  have hlt := lfIndex_some_lt bs i h
  have hd : (bs.drop (i + 1)).length < bs.length := by rw [List.length_drop]; omega
  simp only [hsCleanOf, hsClean, h, if_neg hi', if_neg hl, hv, Bool.and_eq_true, Bool.not_eq_true'] at hc
  refine ⟨hc.2.1, ?_⟩
  unfold hsCleanOf
  rw [hsClean_fuel mode accept ((bs.drop (i + 1)).length + 1) bs.length s' (bs.drop (i + 1)) (by omega) hd]
  exact hc.2.2

/-! ### one round of the `while (cp)` loop -/

theorem lineLoop_empty (mode : Mode) (accept : Bytes) (fuel : Nat) (st : St) (i : Nat)
    (h : lfIdx st.httpHdr = some i) (hl : stripCr (st.httpHdr.take i) = []) :
    lineLoop mode accept (fuel + 1) st =
      if allSeen mode st.seen then
        (if (st.httpHdr.drop (i + 1)).length > fsCap then .oob
         else .up { st with up := true, seen := st.seen, rdHeader := st.httpHdr.drop (i + 1), httpHdr := [] })
      else .fail := by
  unfold stripCr at hl
  simp only [lineLoop, h, hl, if_true]

theorem lineLoop_refused (mode : Mode) (accept : Bytes) (fuel : Nat) (st : St) (i : Nat)
    (h : lfIdx st.httpHdr = some i) (hl : stripCr (st.httpHdr.take i) ≠ [])
    (hv : lineOk mode accept st.seen (stripCr (st.httpHdr.take i)) = none) :
    lineLoop mode accept (fuel + 1) st = .fail := by
  unfold stripCr at hl hv
  simp only [lineLoop, h, if_neg hl, hv]

theorem lineLoop_step (mode : Mode) (accept : Bytes) (fuel : Nat) (st : St) (i : Nat) (s' : Seen)
    (h : lfIdx st.httpHdr = some i) (hl : stripCr (st.httpHdr.take i) ≠ [])
    (hv : lineOk mode accept st.seen (stripCr (st.httpHdr.take i)) = some s')
    (hs : sepFirst mode st.seen (stripCr (st.httpHdr.take i)) = false) :
    lineLoop mode accept (fuel + 1) st =
      lineLoop mode accept fuel { st with seen := s', httpHdr := st.httpHdr.drop (i + 1) } := by
  unfold stripCr at hl hv hs
  unfold sepFirst at hs
  simp only [lineLoop, h, if_neg hl, hv]
  generalize (if (List.take i st.httpHdr).getLast? = some 13 then (List.take i st.httpHdr).dropLast
      else List.take i st.httpHdr) = L at hs ⊢
  rcases hsp : splitHdr L with _ | ⟨n, a, b⟩
  · simp
  · rw [hsp] at hs
    cases n with
    | zero =>
      have hs' : (st.seen.first || decide (mode = Mode.client)) = false := by simpa using hs
      simp [hs']
    | succ n => simp

/-! ### the `while (cp)` loop = S on the complete lines in the buffer -/

/-- what `lineLoop` started on `st` (buffer `st.httpHdr`, followed in the stream by `Y`) has to deliver -/
def LinesPost (mode : Mode) (accept : Bytes) (Y : Bytes) (st : St) : Lines → Prop
  | .fail => hsRes (validator mode accept) mode st.seen (st.httpHdr ++ Y) = ⟨[], false, true⟩
  | .oob => False
  | .cont st' => (∀ b ∈ st'.httpHdr, b ≠ 10) ∧ st'.httpHdr.length ≤ st.httpHdr.length ∧
      hsCleanOf mode accept st'.seen (st'.httpHdr ++ Y) = true ∧
      hsRes (validator mode accept) mode st.seen (st.httpHdr ++ Y) =
        hsRes (validator mode accept) mode st'.seen (st'.httpHdr ++ Y) ∧
      st'.up = st.up ∧ st'.rdHeader = st.rdHeader ∧ st'.allHdrIn = st.allHdrIn ∧ st'.rxData = st.rxData
  | .up st' => st'.up = true ∧ st'.rdHeader.length < fsCap ∧
      hsRes (validator mode accept) mode st.seen (st.httpHdr ++ Y) = frRes mode (st'.rdHeader ++ Y) ∧
      st'.allHdrIn = st.allHdrIn ∧ st'.rxData = st.rxData

theorem LinesPost_fail {mode : Mode} {accept Y : Bytes} {st : St}
    (h : hsRes (validator mode accept) mode st.seen (st.httpHdr ++ Y) = ⟨[], false, true⟩) :
    LinesPost mode accept Y st .fail := h

theorem LinesPost_cont {mode : Mode} {accept Y : Bytes} {st st' : St}
    (h : (∀ b ∈ st'.httpHdr, b ≠ 10) ∧ st'.httpHdr.length ≤ st.httpHdr.length ∧
      hsCleanOf mode accept st'.seen (st'.httpHdr ++ Y) = true ∧
      hsRes (validator mode accept) mode st.seen (st.httpHdr ++ Y) =
        hsRes (validator mode accept) mode st'.seen (st'.httpHdr ++ Y) ∧
      st'.up = st.up ∧ st'.rdHeader = st.rdHeader ∧ st'.allHdrIn = st.allHdrIn ∧ st'.rxData = st.rxData) :
    LinesPost mode accept Y st (.cont st') := h

theorem LinesPost_up {mode : Mode} {accept Y : Bytes} {st st' : St}
    (h : st'.up = true ∧ st'.rdHeader.length < fsCap ∧
      hsRes (validator mode accept) mode st.seen (st.httpHdr ++ Y) = frRes mode (st'.rdHeader ++ Y) ∧
      st'.allHdrIn = st.allHdrIn ∧ st'.rxData = st.rxData) :
    LinesPost mode accept Y st (.up st') := h

theorem LinesPost_trans (mode : Mode) (accept : Bytes) (Y : Bytes) (st st2 : St) (res : Lines)
    (hres : hsRes (validator mode accept) mode st.seen (st.httpHdr ++ Y) =
      hsRes (validator mode accept) mode st2.seen (st2.httpHdr ++ Y))
    (hlen : st2.httpHdr.length ≤ st.httpHdr.length) (hup : st2.up = st.up) (hrd : st2.rdHeader = st.rdHeader)
    (hall : st2.allHdrIn = st.allHdrIn) (hrx : st2.rxData = st.rxData)
    (h : LinesPost mode accept Y st2 res) : LinesPost mode accept Y st res := by
  cases res with
  | fail => simp only [LinesPost] at h ⊢; rw [hres]; exact h
  | oob => exact h
  | cont st' =>
    simp only [LinesPost] at h ⊢
    obtain ⟨h1, h2, h3, h4, h5, h6, h7, h8⟩ := h
    exact ⟨h1, by omega, h3, by rw [hres]; exact h4, by rw [h5, hup], by rw [h6, hrd], by rw [h7, hall], by rw [h8, hrx]⟩
  | up st' =>
    simp only [LinesPost] at h ⊢
    obtain ⟨h1, h2, h3, h4, h5⟩ := h
    exact ⟨h1, h2, by rw [hres]; exact h3, by rw [h4, hall], by rw [h5, hrx]⟩

theorem lineLoop_spec (mode : Mode) (accept : Bytes) (Y : Bytes) : ∀ (fuel : Nat) (st : St),
    st.httpHdr.length < fuel → st.httpHdr.length ≤ httpCap - 1 →
    (∀ i, lfIndex st.httpHdr = some i → st.httpHdr.length ≤ i + 14) →
    hsCleanOf mode accept st.seen (st.httpHdr ++ Y) = true →
    LinesPost mode accept Y st (lineLoop mode accept fuel st) := by
  intro fuel
  induction fuel with
  | zero => intro st h; omega
  | succ f ih =>
    intro st hf hcap hcar hc
    cases hi : lfIndex st.httpHdr with
    | none =>
      have hidx := lfIdx_of_lfIndex_none _ hi
      have e : lineLoop mode accept (f + 1) st = .cont st := by simp only [lineLoop, hidx]
      rw [e]
      exact LinesPost_cont ⟨lfIndex_none_noLF _ hi, Nat.le_refl _, hc, rfl, rfl, rfl, rfl, rfl⟩
    | some i =>
      have hlt := lfIndex_some_lt _ i hi
      have himax : i ≤ maxLine := by simp only [httpCap, maxLine] at *; omega
      have hiY := lfIndex_append_some st.httpHdr Y i hi
      have htake := hs_take_append Y hlt
      have hdrop := hs_drop_append Y hlt
      have hnn := hsCleanOf_noNul mode accept st.seen _ i hc hiY himax
      rw [htake] at hnn
      have hidx := lfIdx_of_lfIndex_some _ i hi hnn
      have hcar' := hcar i hi
      have hdl : (st.httpHdr.drop (i + 1)).length + i + 1 = st.httpHdr.length := by
        rw [List.length_drop]; omega
      by_cases hl : stripCr (st.httpHdr.take i) = []
      · rw [lineLoop_empty mode accept f st i hidx hl]
        have hS := hsRes_empty (validator mode accept) mode st.seen (st.httpHdr ++ Y) i hiY himax
          (by rw [htake]; exact hl)
        rw [hdrop] at hS
        have hfin : (validator mode accept).final st.seen = allSeen mode st.seen := rfl
        rw [hfin] at hS
        by_cases ha : allSeen mode st.seen = true
        · have hnb : ¬ (st.httpHdr.drop (i + 1)).length > fsCap := by simp only [fsCap]; omega
          rw [if_pos ha, if_neg hnb]
          rw [if_pos ha] at hS
          exact LinesPost_up ⟨rfl, by simp only [fsCap]; omega, hS, rfl, rfl⟩
        · rw [if_neg ha]
          rw [if_neg ha] at hS
          exact LinesPost_fail hS
      · cases hv : lineOk mode accept st.seen (stripCr (st.httpHdr.take i)) with
        | none =>
          rw [lineLoop_refused mode accept f st i hidx hl hv]
          exact LinesPost_fail (hsRes_refused (validator mode accept) mode st.seen (st.httpHdr ++ Y) i hiY himax
            (by rw [htake]; exact hl) (by rw [htake]; exact hv))
        | some s' =>
          have hcs := hsCleanOf_step mode accept st.seen s' (st.httpHdr ++ Y) i hc hiY himax
            (by rw [htake]; exact hl) (by rw [htake]; exact hv)
          rw [htake, hdrop] at hcs
          have hS := hsRes_step (validator mode accept) mode st.seen s' (st.httpHdr ++ Y) i hiY himax
            (by rw [htake]; exact hl) (by rw [htake]; exact hv)
          rw [hdrop] at hS
          rw [lineLoop_step mode accept f st i s' hidx hl hv hcs.1]
          apply LinesPost_trans mode accept Y st { st with seen := s', httpHdr := st.httpHdr.drop (i + 1) } _
            hS (by simp only; omega) rfl rfl rfl rfl
          apply ih
          · simp only; omega
          · simp only; omega
          · intro j _; simp only; omega
          · exact hcs.2

/-! ### `coap_ws_rd_http_header` -/

/-- a full line buffer without LF: S has refused the line -/
theorem hsRes_full {σ} (V : Validator σ) (mode : Mode) (s : σ) (H Z : Bytes) (hno : ∀ b ∈ H, b ≠ 10)
    (hlen : httpCap - 1 ≤ H.length) : hsRes V mode s (H ++ Z) = ⟨[], false, true⟩ := by
  have e := lfIndex_append_noLF H Z hno
  cases hz : lfIndex Z with
  | none =>
    rw [hz] at e
    rw [hsRes_noLF V mode s _ e]
    have : (H ++ Z).length > maxLine := by
      rw [List.length_append]; simp only [httpCap, maxLine] at *; omega
    rw [if_pos this]
  | some j =>
    rw [hz] at e
    exact hsRes_late V mode s _ (j + H.length) e (by simp only [httpCap, maxLine] at *; omega)

/-- what one call of `rdHttpHeader` on `st`, `av` (followed in the stream by `X`) has to deliver -/
def RdPost (mode : Mode) (accept : Bytes) (X : Bytes) (st : St) (av : Bytes) : R (St × Bytes) → Prop
  | R.rej => hsRes (validator mode accept) mode st.seen (st.httpHdr ++ (av ++ X)) = ⟨[], false, true⟩
  | R.oob => False
  | R.ok p =>
      (p.1.up = false → p.2 = [] ∧ HsInv p.1 ∧
          hsCleanOf mode accept p.1.seen (p.1.httpHdr ++ X) = true ∧
          hsRes (validator mode accept) mode st.seen (st.httpHdr ++ (av ++ X)) =
            hsRes (validator mode accept) mode p.1.seen (p.1.httpHdr ++ X)) ∧
      (p.1.up = true → FrPre p.1 p.1.rdHeader ∧ p.1.rdHeader.length < fsCap ∧ p.2.length < av.length ∧
          hsRes (validator mode accept) mode st.seen (st.httpHdr ++ (av ++ X)) =
            frRes mode (p.1.rdHeader ++ (p.2 ++ X)))

theorem RdPost_trans (mode : Mode) (accept : Bytes) (X : Bytes) (st st2 : St) (av av2 : Bytes)
    (res : R (St × Bytes))
    (hres : hsRes (validator mode accept) mode st.seen (st.httpHdr ++ (av ++ X)) =
      hsRes (validator mode accept) mode st2.seen (st2.httpHdr ++ (av2 ++ X)))
    (hlen : av2.length ≤ av.length)
    (h : RdPost mode accept X st2 av2 res) : RdPost mode accept X st av res := by
  cases res with
  | rej => simp only [RdPost] at h ⊢; rw [hres]; exact h
  | oob => exact h
  | ok p =>
    simp only [RdPost] at h ⊢
    refine ⟨fun hu => ?_, fun hu => ?_⟩
    · obtain ⟨h1, h2, h3, h4⟩ := h.1 hu
      exact ⟨h1, h2, h3, by rw [hres]; exact h4⟩
    · obtain ⟨h1, h2, h3, h4⟩ := h.2 hu
      exact ⟨h1, h2, by omega, by rw [hres]; exact h4⟩

theorem rdHttpHeader_spec_gen (mode : Mode) (accept : Bytes) (X : Bytes) :
    ∀ (fuel : Nat) (st : St) (av : Bytes),
    st.up = false → (∀ b ∈ st.httpHdr, b ≠ 10) → st.httpHdr.length ≤ httpCap - 1 →
    st.rdHeader = [] → st.allHdrIn = false → st.rxData = none →
    av.length + 1 < fuel →
    hsCleanOf mode accept st.seen (st.httpHdr ++ (av ++ X)) = true →
    RdPost mode accept X st av (rdHttpHeader mode accept fuel st av) := by
  intro fuel
  induction fuel with
  | zero => intro st av _ _ _ _ _ _ h; omega
  | succ f ih =>
    intro st av hup hno hcap hrd hall hrx hf hc
    obtain ⟨up, H, seen, rdHeader, allHdrIn, maskKey, dataOfs, dataSize, rxData⟩ := st
    simp only at hup hno hcap hrd hall hrx hc
    subst hup hrd hall hrx
    by_cases hlong : httpCap - 1 ≤ H.length
    · have h0 : httpCap - 1 - H.length = 0 := by omega
      have e : rdHttpHeader mode accept (f + 1) ⟨false, H, seen, [], false, maskKey, dataOfs, dataSize, none⟩ av
          = R.rej := by simp [rdHttpHeader, h0, fsCap]
      rw [e]
      exact hsRes_full _ mode seen H (av ++ X) hno hlong
    · generalize hrem : (if httpCap - 1 - H.length > fsCap then fsCap else httpCap - 1 - H.length) = rem
      have hrem_pos : 0 < rem := by
        rw [← hrem]
        by_cases h : httpCap - 1 - H.length > fsCap
        · rw [if_pos h]; simp [fsCap]
        · rw [if_neg h]; omega
      have hrem_le : rem ≤ httpCap - 1 - H.length := by
        rw [← hrem]
        by_cases h : httpCap - 1 - H.length > fsCap
        · rw [if_pos h]; omega
        · rw [if_neg h]; exact Nat.le_refl _
      have hrem_14 : rem ≤ 14 := by
        rw [← hrem]
        by_cases h : httpCap - 1 - H.length > fsCap
        · rw [if_pos h]; simp [fsCap]
        · rw [if_neg h]; simp only [fsCap] at h; omega
      have hne : ¬ rem = 0 := by omega
      rcases av with _ | ⟨a, av⟩
      · have e : rdHttpHeader mode accept (f + 1) ⟨false, H, seen, [], false, maskKey, dataOfs, dataSize, none⟩ []
            = R.ok (⟨false, H, seen, [], false, maskKey, dataOfs, dataSize, none⟩, []) := by
          simp only [rdHttpHeader, hrem, if_neg hne, Bool.false_eq_true, if_false, List.take_nil, List.length_nil,
            if_true]
        rw [e]
        have hc' : hsCleanOf mode accept seen (H ++ X) = true := by simpa using hc
        refine ⟨fun _ => ⟨rfl, ⟨rfl, hno, by show H.length < httpCap - 1; omega, rfl, rfl, rfl⟩, hc', by simp⟩, fun hu => ?_⟩
        simp at hu
      · have hgl : ¬ ((a :: av).take rem).length = 0 := by
          rw [List.length_take]; simp only [List.length_cons]; omega
        have hgl14 : ((a :: av).take rem).length ≤ 14 := by
          rw [List.length_take]; omega
        have hbl : (H ++ (a :: av).take rem).length ≤ httpCap - 1 := by
          rw [List.length_append, List.length_take]; omega
        have hbuf : ¬ (H ++ (a :: av).take rem).length ≥ httpCap := by
          simp only [httpCap] at *; omega
        have hsplit : H ++ ((a :: av) ++ X) = (H ++ (a :: av).take rem) ++ ((a :: av).drop rem ++ X) := by
          rw [List.append_assoc, ← List.append_assoc ((a :: av).take rem), List.take_append_drop]
        have hcar : ∀ i, lfIndex (H ++ (a :: av).take rem) = some i → (H ++ (a :: av).take rem).length ≤ i + 14 := by
          intro i hi
          rw [lfIndex_append_noLF H _ hno] at hi
          cases hj : lfIndex ((a :: av).take rem) with
          | none => rw [hj] at hi; simp at hi
          | some j =>
            rw [hj] at hi
            have : j + H.length = i := by simpa using hi
            rw [List.length_append]; omega
        have hdl : ((a :: av).drop rem).length + 1 ≤ (a :: av).length := by
          rw [List.length_drop]; simp only [List.length_cons]; omega
        rw [hsplit] at hc
        have hLL := lineLoop_spec mode accept ((a :: av).drop rem ++ X) ((H ++ (a :: av).take rem).length + 1)
          ⟨false, H ++ (a :: av).take rem, seen, [], false, maskKey, dataOfs, dataSize, none⟩
          (Nat.lt_succ_self _) hbl hcar hc
        simp only [rdHttpHeader, hrem, if_neg hne, if_neg hgl, if_neg hbuf, Bool.false_eq_true, if_false]
        generalize lineLoop mode accept ((H ++ (a :: av).take rem).length + 1)
          ⟨false, H ++ (a :: av).take rem, seen, [], false, maskKey, dataOfs, dataSize, none⟩ = res at hLL ⊢
        cases res with
        | fail =>
          have hLL' : hsRes (validator mode accept) mode seen
              ((H ++ (a :: av).take rem) ++ ((a :: av).drop rem ++ X)) = ⟨[], false, true⟩ := hLL
          show hsRes (validator mode accept) mode seen (H ++ ((a :: av) ++ X)) = ⟨[], false, true⟩
          rw [hsplit]; exact hLL'
        | oob => exact hLL
        | up st' =>
          obtain ⟨h1, h2, h3, h4, h5⟩ := hLL
          refine ⟨fun hu => ?_, fun _ => ⟨⟨h1, h4, rfl, h5⟩, h2, by show ((a :: av).drop rem).length < (a :: av).length; omega, ?_⟩⟩
          · rw [h1] at hu; simp at hu
          · show hsRes (validator mode accept) mode seen (H ++ ((a :: av) ++ X)) = _
            rw [hsplit]; exact h3
        | cont st' =>
          obtain ⟨h1, h2, h3, h4, h5, h6, h7, h8⟩ := hLL
          simp only at h2 h4 h5 h6 h7 h8
          apply RdPost_trans mode accept X _ st' (a :: av) ((a :: av).drop rem)
          · show hsRes (validator mode accept) mode seen (H ++ ((a :: av) ++ X)) = _
            rw [hsplit]; exact h4
          · omega
          · apply ih st' _ h5 h1 (by omega) h6 h7 h8
            · simp only [List.length_cons] at hdl hf; omega
            · exact h3


/-- one call of coap_ws_rd_http_header = S on the buffered line ++ the bytes it consumed -/
theorem rdHttpHeader_spec (mode : Mode) (accept : Bytes) (X : Bytes) :
    ∀ (fuel : Nat) (st : St) (av : Bytes), HsInv st → av.length + 1 < fuel →
    hsCleanOf mode accept st.seen (st.httpHdr ++ (av ++ X)) = true →
    match rdHttpHeader mode accept fuel st av with
    | R.rej => hsRes (validator mode accept) mode st.seen (st.httpHdr ++ (av ++ X)) = ⟨[], false, true⟩
    | R.oob => False
    | R.ok (st', av') =>
        (st'.up = false → av' = [] ∧ HsInv st' ∧
            hsCleanOf mode accept st'.seen (st'.httpHdr ++ X) = true ∧
            hsRes (validator mode accept) mode st.seen (st.httpHdr ++ (av ++ X)) =
              hsRes (validator mode accept) mode st'.seen (st'.httpHdr ++ X)) ∧
        (st'.up = true → FrPre st' st'.rdHeader ∧ st'.rdHeader.length < fsCap ∧ av'.length < av.length ∧
            hsRes (validator mode accept) mode st.seen (st.httpHdr ++ (av ++ X)) =
              frRes mode (st'.rdHeader ++ (av' ++ X))) := by
  intro fuel st av hinv hf hc
  obtain ⟨h1, h2, h3, h4, h5, h6⟩ := hinv
  have h := rdHttpHeader_spec_gen mode accept X fuel st av h1 h2 (by omega) h4 h5 h6 hf hc
  generalize rdHttpHeader mode accept fuel st av = res at h ⊢
  cases res with
  | rej => exact h
  | oob => exact h
  | ok p => obtain ⟨st', av'⟩ := p; exact h

/-- the hypotheses are satisfiable: the empty line "\r\n" cut between the line buffer and the read, a frame behind it -/
example : HsInv { httpHdr := [13] } ∧ ([10, 130, 0] : Bytes).length + 1 < ([10, 130, 0] : Bytes).length + 2 ∧
    hsCleanOf .server [] ({ httpHdr := [13] } : St).seen
      (({ httpHdr := [13] } : St).httpHdr ++ ([10, 130, 0] ++ [7])) = true :=
  ⟨⟨rfl, by decide, by decide, rfl, rfl, rfl⟩, by decide, by decide⟩

end Coap
