import CoapVerif.Model.ObserveKey
/- Lemmas about the observation's cache key (Model/ObserveKey.lean): the key depends only on the cache-key options of the
   request, and — since the length of each value is digested — on ALL of them (injective). -/
namespace Coap.Observe

/-! ### the key depends only on the cache-key options -/

theorem digestInput_cacheOpts (ign : List Nat) : ∀ opts : List ReqOpt, digestInput ign (cacheOpts ign opts) = digestInput ign opts
  | [] => rfl
  | o :: rest => by
    have ih := digestInput_cacheOpts ign rest
    unfold cacheOpts at ih ⊢
    by_cases h : isCacheKey ign o.num = true
    · simp only [List.filter_cons, h, if_true, digestInput, ih]
    · simp [h, digestInput, ih]

theorem digestInput_eq_of_cacheOpts_eq (ign : List Nat) (a b : List ReqOpt) (h : cacheOpts ign a = cacheOpts ign b) :
    digestInput ign a = digestInput ign b := by
  rw [← digestInput_cacheOpts ign a, ← digestInput_cacheOpts ign b, h]

theorem cacheOpts_append (ign : List Nat) (a b : List ReqOpt) : cacheOpts ign (a ++ b) = cacheOpts ign a ++ cacheOpts ign b := by
  unfold cacheOpts
  exact List.filter_append ..

/-- an option that is not a cache-key option can be added, removed or changed anywhere in the request -/
theorem cacheOpts_ignores (ign : List Nat) (a b : List ReqOpt) (o : ReqOpt) (h : isCacheKey ign o.num = false) :
    cacheOpts ign (a ++ o :: b) = cacheOpts ign (a ++ b) := by
  rw [cacheOpts_append, cacheOpts_append]
  congr 1
  unfold cacheOpts
  rw [List.filter_cons_of_neg (by simp [h])]

theorem reqKey_eq_of_cacheOpts_eq (code : Nat) (a b : List ReqOpt) (p : List Nat)
    (h : cacheOpts obsIgnore a = cacheOpts obsIgnore b) : reqKey code a p = reqKey code b p := by
  unfold reqKey reqDigest
  rw [digestInput_eq_of_cacheOpts_eq obsIgnore a b h]

theorem obsKey_eq_of_cacheOpts_eq (a b : List ReqOpt) (h : cacheOpts obsIgnore a = cacheOpts obsIgnore b) : obsKey a = obsKey b :=
  reqKey_eq_of_cacheOpts_eq 1 a b [] h

/-- the payload of a request that is not a FETCH is not part of the key -/
theorem reqKey_ignores_payload_unless_fetch (code : Nat) (a : List ReqOpt) (p q : List Nat) (h : code ≠ 5) :
    reqKey code a p = reqKey code a q := by
  unfold reqKey reqDigest
  simp [h]

/-! ### the digest input determines the cache-key options -/

theorem le16_inj (a b : Nat) (ha : a < 65536) (hb : b < 65536) (h : le16 a = le16 b) : a = b := by
  unfold le16 at h
  simp only [List.cons.injEq, and_true] at h
  omega

theorem le32_inj (a b : Nat) (ha : a < 4294967296) (hb : b < 4294967296) (h : le32 a = le32 b) : a = b := by
  unfold le32 at h
  simp only [List.cons.injEq, and_true] at h
  omega

def WfOpt (o : ReqOpt) : Prop := o.num < 65536 ∧ o.val.length < 4294967296 ∧ ∀ b ∈ o.val, b < 256

theorem digestOpt_append_inj (o o' : ReqOpt) (r r' : List Nat) (ho : WfOpt o) (ho' : WfOpt o')
    (h : digestOpt o ++ r = digestOpt o' ++ r') : o = o' ∧ r = r' := by
  unfold digestOpt le16 le32 at h
  simp only [List.cons_append, List.nil_append, List.cons.injEq] at h
  obtain ⟨h1, h2, h3, h4, h5, h6, h7⟩ := h
  have hn : o.num = o'.num := by have := ho.1; have := ho'.1; omega
  have hl : o.val.length = o'.val.length := by have := ho.2.1; have := ho'.2.1; omega
  obtain ⟨hv, hr⟩ := List.append_inj h7 hl
  refine ⟨?_, hr⟩
  cases o; cases o'
  simp only at hn hv
  rw [hn, hv]

def digestAll : List ReqOpt → List Nat
  | [] => []
  | o :: rest => digestOpt o ++ digestAll rest

theorem digestInput_of_all (ign : List Nat) : ∀ opts : List ReqOpt, (∀ o ∈ opts, isCacheKey ign o.num = true) →
    digestInput ign opts = digestAll opts
  | [], _ => rfl
  | o :: rest, h => by
    simp only [digestInput, h o (List.mem_cons_self ..), if_true, digestAll]
    rw [digestInput_of_all ign rest (fun o' ho' => h o' (List.mem_cons_of_mem _ ho'))]

theorem digestOpt_ne_nil (o : ReqOpt) (r : List Nat) : digestOpt o ++ r ≠ [] := by
  unfold digestOpt le16
  simp

theorem digestAll_inj : ∀ (a b : List ReqOpt), (∀ o ∈ a, WfOpt o) → (∀ o ∈ b, WfOpt o) → digestAll a = digestAll b → a = b
  | [], [], _, _, _ => rfl
  | [], o :: r, _, _, h => by
    simp only [digestAll] at h
    exact absurd h.symm (digestOpt_ne_nil o _)
  | o :: r, [], _, _, h => by
    simp only [digestAll] at h
    exact absurd h (digestOpt_ne_nil o _)
  | o :: r, o' :: r', ha, hb, h => by
    simp only [digestAll] at h
    obtain ⟨h1, h2⟩ := digestOpt_append_inj o o' _ _ (ha o (List.mem_cons_self ..)) (hb o' (List.mem_cons_self ..)) h
    rw [h1, digestAll_inj r r' (fun x hx => ha x (List.mem_cons_of_mem _ hx)) (fun x hx => hb x (List.mem_cons_of_mem _ hx)) h2]

theorem digestInput_injective (ign : List Nat) (a b : List ReqOpt) (ha : WfOpts a) (hb : WfOpts b)
    (h : digestInput ign a = digestInput ign b) : cacheOpts ign a = cacheOpts ign b := by
  rw [← digestInput_cacheOpts ign a, ← digestInput_cacheOpts ign b] at h
  have fa : ∀ o ∈ cacheOpts ign a, isCacheKey ign o.num = true := fun o ho => by
    unfold cacheOpts at ho
    exact (List.mem_filter.mp ho).2
  have fb : ∀ o ∈ cacheOpts ign b, isCacheKey ign o.num = true := fun o ho => by
    unfold cacheOpts at ho
    exact (List.mem_filter.mp ho).2
  rw [digestInput_of_all ign _ fa, digestInput_of_all ign _ fb] at h
  apply digestAll_inj _ _ _ _ h
  · intro o ho
    unfold cacheOpts at ho
    exact ha o (List.mem_filter.mp ho).1
  · intro o ho
    unfold cacheOpts at ho
    exact hb o (List.mem_filter.mp ho).1

/-! ### the stand-in for the digest is injective on byte strings -/

theorem encBytes_injective : ∀ (a b : List Nat), (∀ x ∈ a, x < 256) → (∀ x ∈ b, x < 256) → encBytes a = encBytes b → a = b
  | [], [], _, _, _ => rfl
  | [], y :: s, _, _, h => by simp only [encBytes] at h; omega
  | x :: r, [], _, _, h => by simp only [encBytes] at h; omega
  | x :: r, y :: s, ha, hb, h => by
    simp only [encBytes] at h
    have hx := ha x (List.mem_cons_self ..)
    have hy := hb y (List.mem_cons_self ..)
    have h1 : x = y := by omega
    have h2 : encBytes r = encBytes s := by omega
    rw [h1, encBytes_injective r s (fun z hz => ha z (List.mem_cons_of_mem _ hz)) (fun z hz => hb z (List.mem_cons_of_mem _ hz)) h2]

theorem digestOpt_bytes (o : ReqOpt) (ho : WfOpt o) : ∀ b ∈ digestOpt o, b < 256 := by
  intro b hb
  unfold digestOpt le16 le32 at hb
  simp only [List.cons_append, List.nil_append, List.mem_cons] at hb
  rcases hb with h | h | h | h | h | h | h
  · omega
  · omega
  · omega
  · omega
  · omega
  · omega
  · exact ho.2.2 b h

theorem digestInput_bytes (ign : List Nat) : ∀ opts : List ReqOpt, WfOpts opts → ∀ b ∈ digestInput ign opts, b < 256
  | [], _, b, hb => by simp [digestInput] at hb
  | o :: rest, h, b, hb => by
    have hr : WfOpts rest := fun x hx => h x (List.mem_cons_of_mem _ hx)
    simp only [digestInput] at hb
    split at hb
    · rcases List.mem_append.mp hb with h1 | h1
      · exact digestOpt_bytes o (h o (List.mem_cons_self ..)) b h1
      · exact digestInput_bytes ign rest hr b h1
    · exact digestInput_bytes ign rest hr b hb

theorem le32_bytes (n : Nat) : ∀ b ∈ le32 n, b < 256 := by
  intro b hb
  unfold le32 at hb
  simp only [List.mem_cons, List.not_mem_nil, or_false] at hb
  rcases hb with h | h | h | h <;> omega

theorem reqDigest_bytes (code : Nat) (a : List ReqOpt) (p : List Nat) (hc : code < 256) (ha : WfOpts a) (hp : WfPayload p) :
    ∀ b ∈ reqDigest code a p, b < 256 := by
  intro b hb
  unfold reqDigest at hb
  rcases List.mem_cons.mp hb with h | h
  · omega
  · rcases List.mem_append.mp h with h1 | h1
    · split at h1
      · rcases List.mem_append.mp h1 with h2 | h2
        · exact le32_bytes _ b h2
        · exact hp.2 b h2
      · simp at h1
    · exact digestInput_bytes obsIgnore a ha b h1

/-- the digest input determines method, cache-key options and — for FETCH — the payload -/
theorem reqDigest_injective (m m' : Nat) (a b : List ReqOpt) (p q : List Nat) (hp : WfPayload p) (hq : WfPayload q)
    (h : reqDigest m a p = reqDigest m' b q) :
    m = m' ∧ digestInput obsIgnore a = digestInput obsIgnore b ∧ (m = 5 → p = q) := by
  unfold reqDigest at h
  simp only [List.cons.injEq] at h
  obtain ⟨hm, h⟩ := h
  subst hm
  refine ⟨rfl, ?_⟩
  by_cases h5 : m = 5
  · subst h5
    simp only [beq_self_eq_true, if_true, List.append_assoc] at h
    have hl : (le32 p.length).length = (le32 q.length).length := rfl
    obtain ⟨h1, h2⟩ := List.append_inj h hl
    have hlen : p.length = q.length := le32_inj _ _ hp.1 hq.1 h1
    obtain ⟨h3, h4⟩ := List.append_inj h2 hlen
    exact ⟨h4, fun _ => h3⟩
  · have : (m == 5) = false := by simp [h5]
    simp only [this] at h
    exact ⟨h, fun x => absurd x h5⟩

/-- equal keys <=> same method, equal cache-key options and, for FETCH, equal payloads -/
theorem reqKey_eq_iff (m m' : Nat) (a b : List ReqOpt) (p q : List Nat) (hm : m < 256) (hm' : m' < 256)
    (ha : WfOpts a) (hb : WfOpts b) (hp : WfPayload p) (hq : WfPayload q) :
    reqKey m a p = reqKey m' b q ↔ m = m' ∧ cacheOpts obsIgnore a = cacheOpts obsIgnore b ∧ (m = 5 → p = q) := by
  constructor
  · intro h
    unfold reqKey at h
    obtain ⟨h1, h2, h3⟩ := reqDigest_injective m m' a b p q hp hq
      (encBytes_injective _ _ (reqDigest_bytes m a p hm ha hp) (reqDigest_bytes m' b q hm' hb hq) h)
    exact ⟨h1, digestInput_injective obsIgnore a b ha hb h2, h3⟩
  · rintro ⟨rfl, h2, h3⟩
    by_cases h5 : m = 5
    · rw [h3 h5]
      exact reqKey_eq_of_cacheOpts_eq m a b q h2
    · rw [reqKey_ignores_payload_unless_fetch m a p q h5]
      exact reqKey_eq_of_cacheOpts_eq m a b q h2

theorem wfPayload_nil : WfPayload [] := ⟨by decide, fun _ h => by simp at h⟩

/-- equal keys <=> equal cache-key options: the key forgets exactly the options that are not part of the identity -/
theorem obsKey_eq_iff (a b : List ReqOpt) (ha : WfOpts a) (hb : WfOpts b) :
    obsKey a = obsKey b ↔ cacheOpts obsIgnore a = cacheOpts obsIgnore b := by
  unfold obsKey
  rw [reqKey_eq_iff 1 1 a b [] [] (by decide) (by decide) ha hb wfPayload_nil wfPayload_nil]
  constructor
  · exact fun h => h.2.1
  · exact fun h => ⟨rfl, h, fun _ => rfl⟩

end Coap.Observe
