import CoapVerif.Lemmas.StreamWsFeed
/- C05, WebSocket part: `coap_ws_close`'s draining loop (`closeDrain`) and `coap_ws_read` with an arbitrary caller
   buffer (`datalen`), from EVERY reader state — no invariant: the drain is entered by the application at any time,
   and by the reader itself right after it has refused a frame. -/
namespace Coap
open Coap.M Coap.M.Ws Coap.Spec.Stream Coap.Spec.Stream.Ws

theorem xorKey_length (key : Bytes) : ∀ (bs : Bytes) (i : Nat), (xorKey key i bs).length = bs.length := by
  intro bs
  induction bs with
  | nil => intro i; rfl
  | cons b r ih => intro i; simp only [xorKey, List.length_cons, ih]

theorem maskIf_length (c : Prop) [Decidable c] (key bs : Bytes) :
    (if c then xorKey key 0 bs else bs).length = bs.length := by
  split
  · exact xorKey_length key bs 0
  · rfl

/-- what a `coap_ws_read` call does to its caller, whatever the reader state: it consumes bytes from the front of
what is available, and a payload it returns fits the caller's buffer -/
def ReadFits (datalen : Nat) (av : Bytes) (r : Ret × St × Bytes) : Prop :=
  r.2.2.length ≤ av.length ∧ ∀ pl, r.1 = .pkt pl → pl.length ≤ datalen

theorem readData_fits (mode : Mode) (st : St) (av data : Bytes) (datalen : Nat) :
    ReadFits datalen av (readData mode st av data datalen) := by
  unfold readData ReadFits
  by_cases h : st.dataSize > datalen
  · simp only [if_pos h]
    exact ⟨Nat.le_refl _, fun pl hp => by cases hp⟩
  · simp only [if_neg h]
    split
    · rename_i hofs
      refine ⟨by simp only [List.length_drop]; omega, fun pl hp => ?_⟩
      simp only [Ret.pkt.injEq] at hp
      subst hp
      rw [maskIf_length]
      cases st.rxData with
      | none => simp only [List.length_append, List.length_take] at *; omega
      | some rx => simp only [List.length_append, List.length_take] at *; omega
    · exact ⟨by simp only [List.length_drop]; omega, fun pl hp => by cases hp⟩

/-! ### `coap_ws_read` with an arbitrary caller buffer: normal form, case rules, `readFrame_fits`, `readFrame_ok` -/

def keyOf (st : St) (b1 : UInt8) (r' : Bytes) : Bytes :=
  if b1.toNat / 128 = 1 then (r'.drop (hExt b1.toNat)).take 4 else st.maskKey
/-- the reader state once a binary frame's header is complete (`all_hdr_in = 1`, mask key and `data_size` decoded) -/
def hdrSt (st : St) (b1 : UInt8) (r' : Bytes) : St :=
  { st with allHdrIn := true, maskKey := keyOf st b1 r', dataSize := hSize b1.toNat r' }
def unmaskIf (mode : Mode) (key data : Bytes) : Bytes := if mode = .server then xorKey key 0 data else data

/-- `readFrame` (any caller buffer size `datalen`) once the two fixed header bytes are in `rd_header`;
`st` already has `rdHeader := b0 :: b1 :: r'` -/
def afterHdrD (mode : Mode) (datalen fuel : Nat) (st : St) (b0 b1 : UInt8) (r' : Bytes) (av : Bytes) : Ret × St × Bytes :=
  if mode = .server ∧ ¬ b1.toNat / 128 = 1 then (.closed, st, av) else
  if r'.length < hExtra b1.toNat then (.zero, st, av) else
  if b0.toNat % 16 ≠ 2 then (.closed, st, av) else
  if hSize b1.toNat r' > datalen then (.closed, hdrSt st b1 r', av) else
  if hSize b1.toNat r' = 0 then
    if (r'.drop (hExtra b1.toNat)).length > 0 then
      readFrame mode datalen fuel { hdrSt st b1 r' with rdHeader := r'.drop (hExtra b1.toNat), allHdrIn := false } av
    else (.zero, { hdrSt st b1 r' with rdHeader := r'.drop (hExtra b1.toNat), allHdrIn := false }, av)
  else if (r'.drop (hExtra b1.toNat)).length > 0 then
    if (r'.drop (hExtra b1.toNat)).length ≤ hSize b1.toNat r' then
      if (r'.drop (hExtra b1.toNat)).length = hSize b1.toNat r' then
        (.pkt (unmaskIf mode (keyOf st b1 r') (r'.drop (hExtra b1.toNat))),
          { hdrSt st b1 r' with dataOfs := (r'.drop (hExtra b1.toNat)).length, allHdrIn := false, rdHeader := [] }, av)
      else readData mode { hdrSt st b1 r' with dataOfs := (r'.drop (hExtra b1.toNat)).length } av (r'.drop (hExtra b1.toNat)) datalen
    else
      (.pkt (unmaskIf mode (keyOf st b1 r') ((r'.drop (hExtra b1.toNat)).take (hSize b1.toNat r'))),
        { hdrSt st b1 r' with dataOfs := hSize b1.toNat r', allHdrIn := false,
                              rdHeader := (r'.drop (hExtra b1.toNat)).drop (hSize b1.toNat r') }, av)
  else readData mode { hdrSt st b1 r' with dataOfs := 0 } av [] datalen

theorem readFrame_hdrD (mode : Mode) (datalen fuel : Nat) (st : St) (av : Bytes) (b0 b1 : UInt8) (r' : Bytes)
    (hall : st.allHdrIn = false)
    (hh : st.rdHeader ++ av.take (fsCap - st.rdHeader.length) = b0 :: b1 :: r') :
    readFrame mode datalen (fuel + 1) st av =
      afterHdrD mode datalen fuel { st with rdHeader := b0 :: b1 :: r' } b0 b1 r' (av.drop (fsCap - st.rdHeader.length)) := by
  obtain ⟨up, H, seen, p, all, key, ofs, size, rx⟩ := st
  simp only at hall hh
  subst hall
  have e1 : (if b1.toNat % 128 = 127 then 8 else if b1.toNat % 128 = 126 then 2 else 0) = hExt b1.toNat := rfl
  have e2 : hExt b1.toNat + (if b1.toNat / 128 = 1 then 4 else 0) = hExtra b1.toNat := rfl
  have e3 : List.length r' + 1 + 1 - 2 - hExtra b1.toNat = (r'.drop (hExtra b1.toNat)).length := by
    rw [List.length_drop]; omega
  have hle := hExtra_le b1.toNat
  have e4 : ¬ (2 + hExtra b1.toNat > fsCap) := by simp only [fsCap]; omega
  have e5 : ¬ (List.length r' + 1 + 1 < 2) := by omega
  have e6 : (List.length r' + 1 + 1 < 2 + hExtra b1.toNat) = (r'.length < hExtra b1.toNat) := by
    apply propext; constructor <;> intro h <;> omega
  simp only [readFrame, hh, Bool.false_eq_true, if_false, List.length_cons, rd_cons_zero, rd_cons_succ, size_eq, e1, e2,
    e3, e4, e5, e6, drop2, Nat.add_assoc]
  simp only [afterHdrD, hdrSt, keyOf, unmaskIf, List.drop_drop]
  by_cases hop : b0.toNat % 16 = 2
  · simp [hop]
  · by_cases h8 : b0.toNat % 16 = 8
    · simp [h8]
    · simp [hop, h8]

theorem readFrame_shortD (mode : Mode) (datalen fuel : Nat) (st : St) (av : Bytes) (hall : st.allHdrIn = false)
    (hh : (st.rdHeader ++ av.take (fsCap - st.rdHeader.length)).length < 2) :
    readFrame mode datalen (fuel + 1) st av =
      (.zero, { st with rdHeader := st.rdHeader ++ av.take (fsCap - st.rdHeader.length) },
        av.drop (fsCap - st.rdHeader.length)) := by
  simp only [readFrame, hall, Bool.false_eq_true, if_false, hh, if_true]

theorem readFrame_dataD (mode : Mode) (datalen fuel : Nat) (st : St) (av : Bytes) (hall : st.allHdrIn = true) :
    readFrame mode datalen (fuel + 1) st av = readData mode st av [] datalen := by
  simp only [readFrame, hall, if_true]

/-- the three ways a `coap_ws_read` call starts, as a case rule -/
theorem readFrame_cases (mode : Mode) (datalen fuel : Nat) (st : St) (av : Bytes)
    (P : Ret × St × Bytes → Prop)
    (hdata : st.allHdrIn = true → P (readData mode st av [] datalen))
    (hshort : st.allHdrIn = false → (st.rdHeader ++ av.take (fsCap - st.rdHeader.length)).length < 2 →
      P (.zero, { st with rdHeader := st.rdHeader ++ av.take (fsCap - st.rdHeader.length) }, av.drop (fsCap - st.rdHeader.length)))
    (hhdr : ∀ b0 b1 r', st.allHdrIn = false → st.rdHeader ++ av.take (fsCap - st.rdHeader.length) = b0 :: b1 :: r' →
      P (afterHdrD mode datalen fuel { st with rdHeader := b0 :: b1 :: r' } b0 b1 r' (av.drop (fsCap - st.rdHeader.length)))) :
    P (readFrame mode datalen (fuel + 1) st av) := by
  cases hall : st.allHdrIn with
  | true => rw [readFrame_dataD _ _ _ _ _ hall]; exact hdata hall
  | false =>
    match hh : st.rdHeader ++ av.take (fsCap - st.rdHeader.length) with
    | [] => rw [readFrame_shortD _ _ _ _ _ hall (by rw [hh]; simp)]; rw [hh] at hshort ⊢; exact hshort hall (by simp)
    | [b] => rw [readFrame_shortD _ _ _ _ _ hall (by rw [hh]; simp)]; rw [hh] at hshort ⊢; exact hshort hall (by simp)
    | b0 :: b1 :: r' => rw [readFrame_hdrD _ _ _ _ _ b0 b1 r' hall hh]; exact hhdr b0 b1 r' hall hh


/-- the exits of `coap_ws_read` once the two fixed header bytes are in, as a case rule -/
theorem afterHdrD_cases (mode : Mode) (datalen fuel : Nat) (st : St) (b0 b1 : UInt8) (r' av : Bytes)
    (P : Ret × St × Bytes → Prop)
    (h1002 : mode = .server → ¬ b1.toNat / 128 = 1 → P (.closed, st, av))
    (hinc : r'.length < hExtra b1.toNat → P (.zero, st, av))
    (hop : hExtra b1.toNat ≤ r'.length → b0.toNat % 16 ≠ 2 → P (.closed, st, av))
    (hbig : hExtra b1.toNat ≤ r'.length → b0.toNat % 16 = 2 → hSize b1.toNat r' > datalen → P (.closed, hdrSt st b1 r', av))
    (hnext : hExtra b1.toNat < r'.length → b0.toNat % 16 = 2 → hSize b1.toNat r' = 0 →
      P (readFrame mode datalen fuel { hdrSt st b1 r' with rdHeader := r'.drop (hExtra b1.toNat), allHdrIn := false } av))
    (hempty : hExtra b1.toNat = r'.length → b0.toNat % 16 = 2 → hSize b1.toNat r' = 0 →
      P (.zero, { hdrSt st b1 r' with rdHeader := r'.drop (hExtra b1.toNat), allHdrIn := false }, av))
    (hall : hExtra b1.toNat < r'.length → b0.toNat % 16 = 2 → hSize b1.toNat r' ≤ datalen →
      (r'.drop (hExtra b1.toNat)).length = hSize b1.toNat r' →
      P (.pkt (unmaskIf mode (keyOf st b1 r') (r'.drop (hExtra b1.toNat))),
          { hdrSt st b1 r' with dataOfs := (r'.drop (hExtra b1.toNat)).length, allHdrIn := false, rdHeader := [] }, av))
    (hpart : hExtra b1.toNat < r'.length → b0.toNat % 16 = 2 → hSize b1.toNat r' ≤ datalen →
      (r'.drop (hExtra b1.toNat)).length < hSize b1.toNat r' →
      P (readData mode { hdrSt st b1 r' with dataOfs := (r'.drop (hExtra b1.toNat)).length } av (r'.drop (hExtra b1.toNat)) datalen))
    (hmore : hExtra b1.toNat < r'.length → b0.toNat % 16 = 2 → hSize b1.toNat r' ≤ datalen → hSize b1.toNat r' ≠ 0 →
      hSize b1.toNat r' < (r'.drop (hExtra b1.toNat)).length →
      P (.pkt (unmaskIf mode (keyOf st b1 r') ((r'.drop (hExtra b1.toNat)).take (hSize b1.toNat r'))),
        { hdrSt st b1 r' with dataOfs := hSize b1.toNat r', allHdrIn := false,
                              rdHeader := (r'.drop (hExtra b1.toNat)).drop (hSize b1.toNat r') }, av))
    (hnone : hExtra b1.toNat = r'.length → b0.toNat % 16 = 2 → hSize b1.toNat r' ≤ datalen → hSize b1.toNat r' ≠ 0 →
      P (readData mode { hdrSt st b1 r' with dataOfs := 0 } av [] datalen)) :
    P (afterHdrD mode datalen fuel st b0 b1 r' av) := by
  unfold afterHdrD
  by_cases c1 : mode = .server ∧ ¬ b1.toNat / 128 = 1
  · rw [if_pos c1]; exact h1002 c1.1 c1.2
  rw [if_neg c1]
  by_cases c2 : r'.length < hExtra b1.toNat
  · rw [if_pos c2]; exact hinc c2
  rw [if_neg c2]
  by_cases c3 : b0.toNat % 16 ≠ 2
  · rw [if_pos c3]; exact hop (by omega) c3
  rw [if_neg c3]
  have c3' : b0.toNat % 16 = 2 := by omega
  by_cases c4 : hSize b1.toNat r' > datalen
  · rw [if_pos c4]; exact hbig (by omega) c3' c4
  rw [if_neg c4]
  have hlen : (r'.drop (hExtra b1.toNat)).length = r'.length - hExtra b1.toNat := List.length_drop
  by_cases c5 : hSize b1.toNat r' = 0
  · rw [if_pos c5]
    by_cases c6 : (r'.drop (hExtra b1.toNat)).length > 0
    · rw [if_pos c6]; exact hnext (by omega) c3' c5
    · rw [if_neg c6]; exact hempty (by omega) c3' c5
  rw [if_neg c5]
  by_cases c6 : (r'.drop (hExtra b1.toNat)).length > 0
  · rw [if_pos c6]
    by_cases c7 : (r'.drop (hExtra b1.toNat)).length ≤ hSize b1.toNat r'
    · rw [if_pos c7]
      by_cases c8 : (r'.drop (hExtra b1.toNat)).length = hSize b1.toNat r'
      · rw [if_pos c8]; exact hall (by omega) c3' (by omega) c8
      · rw [if_neg c8]; exact hpart (by omega) c3' (by omega) (by omega)
    · rw [if_neg c7]; exact hmore (by omega) c3' (by omega) c5 (by omega)
  · rw [if_neg c6]; exact hnone (by omega) c3' (by omega) c5

theorem ReadFits_trans {datalen : Nat} {av av1 : Bytes} {r : Ret × St × Bytes} (h : ReadFits datalen av1 r)
    (hl : av1.length ≤ av.length) : ReadFits datalen av r := ⟨Nat.le_trans h.1 hl, h.2⟩

theorem ReadFits_nopkt {datalen : Nat} {av : Bytes} {ret : Ret} {st : St} (h : ∀ pl, ret ≠ .pkt pl) :
    ReadFits datalen av (ret, st, av) := ⟨Nat.le_refl _, fun pl hp => (h pl hp).elim⟩

theorem unmaskIf_length (mode : Mode) (key bs : Bytes) : (unmaskIf mode key bs).length = bs.length :=
  maskIf_length _ key bs

/-- `coap_ws_read`'s frame phase, ANY reader state, ANY caller buffer size: bytes are only consumed from the front of
what is available and a payload handed back has at most `datalen` bytes -/
theorem readFrame_fits (mode : Mode) (datalen : Nat) : ∀ (fuel : Nat) (st : St) (av : Bytes),
    ReadFits datalen av (readFrame mode datalen fuel st av) := by
  intro fuel
  induction fuel with
  | zero => intro st av; exact ReadFits_nopkt (by intro pl h; cases h)
  | succ f ih =>
    intro st av
    have hdrop : (av.drop (fsCap - st.rdHeader.length)).length ≤ av.length := by
      simp only [List.length_drop]; omega
    apply readFrame_cases
    · intro _; exact readData_fits mode st av [] datalen
    · intro _ _; exact ⟨hdrop, fun pl hp => by cases hp⟩
    · intro b0 b1 r' _ _
      refine ReadFits_trans ?_ hdrop
      apply afterHdrD_cases
      · intro _ _; exact ReadFits_nopkt (by intro pl h; cases h)
      · intro _; exact ReadFits_nopkt (by intro pl h; cases h)
      · intro _ _; exact ReadFits_nopkt (by intro pl h; cases h)
      · intro _ _ _; exact ReadFits_nopkt (by intro pl h; cases h)
      · intro _ _ _; exact ih _ _
      · intro _ _ _; exact ReadFits_nopkt (by intro pl h; cases h)
      · intro _ _ hs hl
        refine ⟨Nat.le_refl _, fun pl hp => ?_⟩
        simp only [Ret.pkt.injEq] at hp
        subst hp
        rw [unmaskIf_length]; omega
      · intro _ _ _ _; exact readData_fits mode _ _ _ datalen
      · intro _ _ hs _ hl
        refine ⟨Nat.le_refl _, fun pl hp => ?_⟩
        simp only [Ret.pkt.injEq] at hp
        subst hp
        rw [unmaskIf_length, List.length_take]; omega
      · intro _ _ _ _; exact readData_fits mode _ _ _ datalen

/-- what keeps `coap_ws_read` inside its buffers, for a caller buffer of `datalen` bytes: `hdr_ofs ≤ sizeof(rd_header)`
(so `sizeof(rd_header) - hdr_ofs` does not wrap) and, while a frame that fits the caller's buffer is in progress,
`data_ofs ≤ data_size` (so the destination `&data[data_ofs]`, length `data_size - data_ofs`, lies inside the buffer and
the unsigned difference does not wrap).  A frame refused with 1009 leaves `all_hdr_in` set with `data_size > datalen` and a
stale `data_ofs`: nothing is demanded of it, the data part returns -1 before it uses either. -/
def RdOk (datalen : Nat) (st : St) : Prop :=
  st.rdHeader.length ≤ fsCap ∧ (st.allHdrIn = true → st.dataSize ≤ datalen → st.dataOfs ≤ st.dataSize)

/-- a smaller caller buffer asks less: the state `coap_read_session` (1472 bytes) leaves is fine for `coap_ws_close`
(100 bytes) -/
theorem RdOk_mono {d1 d2 : Nat} {st : St} (h : RdOk d1 st) (hd : d2 ≤ d1) : RdOk d2 st :=
  ⟨h.1, fun ha hs => h.2 ha (Nat.le_trans hs hd)⟩

/-- "Get in (remaining) data": the bytes read go to `[data_ofs, data_ofs + got)` of a `data_size ≤ datalen` byte
destination, the state stays `RdOk`, no `oob` -/
theorem readData_ok (mode : Mode) (st : St) (av data : Bytes) (datalen : Nat) (hl : st.rdHeader.length ≤ fsCap)
    (ho : st.dataSize ≤ datalen → st.dataOfs ≤ st.dataSize) :
    RdOk datalen (readData mode st av data datalen).2.1 ∧ (readData mode st av data datalen).1 ≠ .oob ∧
    (st.dataSize ≤ datalen → st.dataOfs + (av.take (st.dataSize - st.dataOfs)).length ≤ datalen) := by
  refine ⟨?_, ?_, ?_⟩
  · unfold readData
    by_cases h : st.dataSize > datalen
    · rw [if_pos h]; exact ⟨hl, fun _ hs => by dsimp only at hs ⊢; omega⟩
    · rw [if_neg h]
      simp only
      split
      · exact ⟨by simp [fsCap], fun ha => by cases ha⟩
      · refine ⟨hl, fun _ _ => ?_⟩
        have := ho (by omega)
        simp only [List.length_take]
        omega
  · unfold readData
    by_cases h : st.dataSize > datalen
    · rw [if_pos h]; intro hh; cases hh
    · rw [if_neg h]
      simp only
      split <;> (intro hh; cases hh)
  · intro hs
    have := ho hs
    simp only [List.length_take]
    omega

theorem RdOk_noall {datalen : Nat} {st : St} (hl : st.rdHeader.length ≤ fsCap) (ha : st.allHdrIn = false) : RdOk datalen st :=
  ⟨hl, fun h => by rw [ha] at h; cases h⟩

/-- `coap_ws_read`'s frame phase keeps `RdOk` and never indexes outside `rd_header` (`oob`), for every caller buffer size -/
theorem readFrame_ok (mode : Mode) (datalen : Nat) : ∀ (fuel : Nat) (st : St) (av : Bytes), RdOk datalen st →
    RdOk datalen (readFrame mode datalen fuel st av).2.1 ∧ (readFrame mode datalen fuel st av).1 ≠ .oob := by
  intro fuel
  induction fuel with
  | zero => intro st av h; exact ⟨h, by intro hh; cases hh⟩
  | succ f ih =>
    intro st av hok
    apply readFrame_cases mode datalen f st av (fun r => RdOk datalen r.2.1 ∧ r.1 ≠ .oob)
    · intro ha
      have := readData_ok mode st av [] datalen hok.1 (hok.2 ha)
      exact ⟨this.1, this.2.1⟩
    · intro ha hlen
      refine ⟨RdOk_noall ?_ ha, by intro hh; cases hh⟩
      simp only [List.length_append] at hlen ⊢
      simp only [fsCap] at *
      omega
    · intro b0 b1 r' ha hh
      have hlen : r'.length + 2 ≤ fsCap := by
        have : (st.rdHeader ++ av.take (fsCap - st.rdHeader.length)).length ≤ fsCap := by
          have := hok.1
          simp only [List.length_append, List.length_take]; omega
        rw [hh] at this
        simpa using this
      have hl2 : ({ st with rdHeader := b0 :: b1 :: r' } : St).rdHeader.length ≤ fsCap := by simpa using hlen
      have hdl : (r'.drop (hExtra b1.toNat)).length ≤ fsCap := by simp only [List.length_drop]; omega
      apply afterHdrD_cases mode datalen f _ b0 b1 r' _ (fun r => RdOk datalen r.2.1 ∧ r.1 ≠ .oob)
      · intro _ _; exact ⟨RdOk_noall hl2 ha, by intro hh; cases hh⟩
      · intro _; exact ⟨RdOk_noall hl2 ha, by intro hh; cases hh⟩
      · intro _ _; exact ⟨RdOk_noall hl2 ha, by intro hh; cases hh⟩
      · intro _ _ hbig; exact ⟨⟨hl2, fun _ hs => by simp only [hdrSt] at hs; omega⟩, by intro hh; cases hh⟩
      · intro _ _ _; exact ih _ _ (RdOk_noall hdl rfl)
      · intro _ _ _; exact ⟨RdOk_noall hdl rfl, by intro hh; cases hh⟩
      · intro _ _ _ _; exact ⟨RdOk_noall (by simp [fsCap]) rfl, by intro hh; cases hh⟩
      · intro _ _ _ hlt
        have := readData_ok mode { hdrSt { st with rdHeader := b0 :: b1 :: r' } b1 r' with dataOfs := (r'.drop (hExtra b1.toNat)).length }
          (av.drop (fsCap - st.rdHeader.length)) (r'.drop (hExtra b1.toNat)) datalen hl2 (fun _ => by simp only [hdrSt]; omega)
        exact ⟨this.1, this.2.1⟩
      · intro _ _ _ _ _
        refine ⟨RdOk_noall ?_ rfl, by intro hh; cases hh⟩
        simp only [List.length_drop]; omega
      · intro _ _ _ _
        have := readData_ok mode { hdrSt { st with rdHeader := b0 :: b1 :: r' } b1 r' with dataOfs := 0 }
          (av.drop (fsCap - st.rdHeader.length)) [] datalen hl2 (fun _ => Nat.zero_le _)
        exact ⟨this.1, this.2.1⟩

/-! ### the drain loop of coap_ws_close -/

/-- the loop calls `coap_ws_read` at most `count` (= 5) times — whatever the reader state, whatever is pending -/
theorem closeDrain_calls_le (mode : Mode) : ∀ (count : Nat) (st : St) (av : Bytes),
    (closeDrain mode count st av).2.2.2 ≤ count := by
  intro count
  induction count with
  | zero => intro st av; simp [closeDrain]
  | succ c ih =>
    intro st av
    rw [closeDrain]
    by_cases h0 : av.length = 0
    · simp only [if_pos h0]
      have := ih st av
      omega
    · simp only [if_neg h0]
      generalize readFrame mode drainBuf (av.length + fsCap + 2) st av = r
      obtain ⟨ret, st', av'⟩ := r
      simp only
      split
      · simp
      · have := ih st' av'
        simp only
        omega

/-- with nothing pending the loop reads nothing and changes nothing (select() times out five times) -/
theorem closeDrain_idle (mode : Mode) : ∀ (count : Nat) (st : St), closeDrain mode count st [] = (false, st, [], 0) := by
  intro count
  induction count with
  | zero => intro st; rfl
  | succ c ih => intro st; simp [closeDrain, ih]

/-- the loop stops as soon as the peer's Close frame has been seen: `recv_close` ⇒ the last call was the one that
completed a Close frame header -/
theorem closeDrain_recv (mode : Mode) : ∀ (count : Nat) (st : St) (av : Bytes),
    (closeDrain mode count st av).1 = true →
    ∃ b0 b1 r, (closeDrain mode count st av).2.1.rdHeader = b0 :: b1 :: r ∧ b0.toNat % 16 = 8 := by
  intro count
  induction count with
  | zero => intro st av h; simp [closeDrain] at h
  | succ c ih =>
    intro st av
    rw [closeDrain]
    by_cases h0 : av.length = 0
    · simp only [if_pos h0]; exact ih st av
    · simp only [if_neg h0]
      generalize readFrame mode drainBuf (av.length + fsCap + 2) st av = r
      obtain ⟨ret, st', av'⟩ := r
      simp only
      by_cases hr : recvCloseOf mode ret st' = true
      · simp only [hr, if_true]
        intro _
        unfold recvCloseOf at hr
        split at hr
        · rename_i b0 b1 r hh
          simp only [Bool.and_eq_true, decide_eq_true_eq] at hr
          exact ⟨b0, b1, r, hh, hr.2⟩
        · cases hr
      · simp only [hr]
        exact ih st' av'

/-! ### every `coap_ws_read` call of the drain -/

/-- the (reader state, bytes pending) pairs at which the drain loop calls `coap_ws_read(session, buf, 100)` -/
def drainCalls (mode : Mode) : (count : Nat) → St → Bytes → List (St × Bytes)
  | 0, _, _ => []
  | c + 1, st, av =>
    if av.length = 0 then drainCalls mode c st av
    else
      let r := readFrame mode drainBuf (av.length + fsCap + 2) st av
      (st, av) :: (if recvCloseOf mode r.1 r.2.1 then [] else drainCalls mode c r.2.1 r.2.2)

/-- `drainCalls` lists exactly the calls `closeDrain` makes -/
theorem drainCalls_length (mode : Mode) : ∀ (count : Nat) (st : St) (av : Bytes),
    (drainCalls mode count st av).length = (closeDrain mode count st av).2.2.2 := by
  intro count
  induction count with
  | zero => intro st av; rfl
  | succ c ih =>
    intro st av
    rw [closeDrain, drainCalls]
    by_cases h0 : av.length = 0
    · simp only [if_pos h0]; exact ih st av
    · simp only [if_neg h0]
      generalize readFrame mode drainBuf (av.length + fsCap + 2) st av = r
      obtain ⟨ret, st', av'⟩ := r
      simp only
      by_cases hr : recvCloseOf mode ret st' = true
      · simp [hr]
      · simp [hr, ih st' av']

/-- every call of the drain starts from an `RdOk` state (if the drain did) with no more bytes pending than at the start -/
theorem drainCalls_ok (mode : Mode) : ∀ (count : Nat) (st : St) (av : Bytes), RdOk drainBuf st →
    ∀ c ∈ drainCalls mode count st av, RdOk drainBuf c.1 ∧ c.2.length ≤ av.length := by
  intro count
  induction count with
  | zero => intro st av _ c hc; simp [drainCalls] at hc
  | succ n ih =>
    intro st av hok c hc
    rw [drainCalls] at hc
    by_cases h0 : av.length = 0
    · simp only [if_pos h0] at hc; exact ih st av hok c hc
    · simp only [if_neg h0] at hc
      have hfit := readFrame_fits mode drainBuf (av.length + fsCap + 2) st av
      have hok' := (readFrame_ok mode drainBuf (av.length + fsCap + 2) st av hok).1
      generalize readFrame mode drainBuf (av.length + fsCap + 2) st av = r at hc hfit hok'
      obtain ⟨ret, st', av'⟩ := r
      simp only [List.mem_cons] at hc
      rcases hc with rfl | hc
      · exact ⟨hok, Nat.le_refl _⟩
      · by_cases hr : recvCloseOf mode ret st' = true
        · simp [hr] at hc
        · simp only [hr] at hc
          have := ih st' av' hok' c hc
          exact ⟨this.1, Nat.le_trans this.2 hfit.1⟩

/-- the drain as a whole: the final state is `RdOk`, bytes are only consumed -/
theorem closeDrain_ok (mode : Mode) : ∀ (count : Nat) (st : St) (av : Bytes),
    (closeDrain mode count st av).2.2.1.length ≤ av.length ∧
    (RdOk drainBuf st → RdOk drainBuf (closeDrain mode count st av).2.1) := by
  intro count
  induction count with
  | zero => intro st av; exact ⟨Nat.le_refl _, id⟩
  | succ c ih =>
    intro st av
    rw [closeDrain]
    by_cases h0 : av.length = 0
    · simp only [if_pos h0]; exact ih st av
    · simp only [if_neg h0]
      have hfit := readFrame_fits mode drainBuf (av.length + fsCap + 2) st av
      have hok' := fun h => (readFrame_ok mode drainBuf (av.length + fsCap + 2) st av h).1
      generalize readFrame mode drainBuf (av.length + fsCap + 2) st av = r at hfit hok'
      obtain ⟨ret, st', av'⟩ := r
      simp only
      by_cases hr : recvCloseOf mode ret st' = true
      · simp only [hr, if_true]; exact ⟨hfit.1, hok'⟩
      · simp only [hr]
        have := ih st' av'
        exact ⟨Nat.le_trans this.1 hfit.1, fun h => this.2 (hok' h)⟩

/-! ### what the drain does when it cannot see the peer's Close frame -/

/-- once a call has emptied the socket the loop only waits: no further `coap_ws_read`, whatever was left in
`rd_header` (select() reports on the socket, not on `rd_header`) -/
theorem closeDrain_socket_empty (mode : Mode) (c : Nat) (st st' : St) (av : Bytes) (ret : Ret) (hav : av ≠ [])
    (h : readFrame mode drainBuf (av.length + fsCap + 2) st av = (ret, st', [])) :
    closeDrain mode (c + 1) st av = (recvCloseOf mode ret st', st', [], 1) := by
  rw [closeDrain]
  have h0 : ¬ av.length = 0 := by intro h; exact hav (List.eq_nil_of_length_eq_zero h)
  simp only [if_neg h0, h]
  by_cases hr : recvCloseOf mode ret st' = true
  · simp [hr]
  · simp [hr, closeDrain_idle]

theorem recvCloseOf_pkt (mode : Mode) (pl : Bytes) (st : St) : recvCloseOf mode (.pkt pl) st = false := by
  unfold recvCloseOf; split <;> simp_all

/-- a frame that arrived in the same header read as the peer's Close frame: the call returns that frame's payload,
the socket is empty, the Close frame (and whatever else) stays in `rd_header` unseen: `recv_close` stays 0 -/
theorem closeDrain_close_unseen (mode : Mode) (c : Nat) (st st' : St) (av pl : Bytes) (hav : av ≠ [])
    (h : readFrame mode drainBuf (av.length + fsCap + 2) st av = (.pkt pl, st', [])) :
    closeDrain mode (c + 1) st av = (false, st', [], 1) := by
  rw [closeDrain_socket_empty mode c st st' av _ hav h, recvCloseOf_pkt]

/-- after a 1009 refusal (`all_hdr_in` set, `data_size` above the 100-byte buffer) every call fails with -1 before it
reads anything: the loop spends its `count` rounds, state and pending bytes untouched, `recv_close` stays 0 -/
theorem closeDrain_oversize (mode : Mode) : ∀ (count : Nat) (st : St) (av : Bytes), st.allHdrIn = true →
    st.dataSize > drainBuf →
    closeDrain mode count st av = (false, st, av, if av.length = 0 then 0 else count) := by
  intro count
  induction count with
  | zero => intro st av _ _; simp [closeDrain]
  | succ c ih =>
    intro st av ha hs
    rw [closeDrain]
    by_cases h0 : av.length = 0
    · simp only [if_pos h0]; rw [ih st av ha hs]; simp [h0]
    · simp only [if_neg h0]
      have e : readFrame mode drainBuf (av.length + fsCap + 2) st av = (.err, st, av) := by
        rw [readFrame_dataD _ _ _ _ _ ha]; unfold readData; rw [if_pos hs]
      rw [e]
      have hr : recvCloseOf mode .err st = false := by unfold recvCloseOf; split <;> simp_all
      simp only [hr, ih st av ha hs, if_neg h0]
      simp

/-- a header the reader has refused with 1002 (unmasked frame to a server) or 1003 (complete header, opcode neither
binary nor close) and left in `rd_header` -/
def Refused (mode : Mode) (st : St) : Prop :=
  st.allHdrIn = false ∧ ∃ b0 b1 r, st.rdHeader = b0 :: b1 :: r ∧
    ((mode = .server ∧ ¬ b1.toNat / 128 = 1) ∨
     (hExtra b1.toNat ≤ r.length ∧ b0.toNat % 16 ≠ 2 ∧ b0.toNat % 16 ≠ 8))

/-- a call on a refused header refuses it again: it only tops `rd_header` up -/
theorem readFrame_refused (mode : Mode) (datalen fuel : Nat) (st : St) (av : Bytes) (h : Refused mode st) :
    readFrame mode datalen (fuel + 1) st av =
      (.closed, { st with rdHeader := st.rdHeader ++ av.take (fsCap - st.rdHeader.length) }, av.drop (fsCap - st.rdHeader.length)) ∧
    Refused mode { st with rdHeader := st.rdHeader ++ av.take (fsCap - st.rdHeader.length) } := by
  obtain ⟨ha, b0, b1, r, hr, hc⟩ := h
  have hh : st.rdHeader ++ av.take (fsCap - st.rdHeader.length) = b0 :: b1 :: (r ++ av.take (fsCap - st.rdHeader.length)) := by
    rw [hr]; rfl
  refine ⟨?_, ha, b0, b1, _, hh, ?_⟩
  · rw [readFrame_hdrD _ _ _ _ _ b0 b1 _ ha hh, ← hh]
    unfold afterHdrD
    rcases hc with ⟨hm, hb⟩ | ⟨hl, h2, _⟩
    · rw [if_pos ⟨hm, hb⟩]
    · by_cases c1 : mode = .server ∧ ¬ b1.toNat / 128 = 1
      · rw [if_pos c1]
      · rw [if_neg c1, if_neg (by simp only [List.length_append]; omega), if_pos h2]
  · rcases hc with hc | ⟨hl, h2, h8⟩
    · exact Or.inl hc
    · exact Or.inr ⟨by simp only [List.length_append]; omega, h2, h8⟩

theorem recvCloseOf_refused (mode : Mode) (ret : Ret) (st : St) (h : Refused mode st) : recvCloseOf mode ret st = false := by
  obtain ⟨ha, b0, b1, r, hr, hc⟩ := h
  unfold recvCloseOf
  rw [hr]
  cases ret <;> simp only [] 
  rcases hc with ⟨hm, hb⟩ | ⟨_, h2, h8⟩
  · simp [hm, hb]
  · simp [h8]

/-- after a 1002/1003 refusal the drain cannot progress: every call refuses the same header again, at most the free
room of `rd_header` is taken from the socket, `recv_close` stays 0 -/
theorem closeDrain_refused (mode : Mode) : ∀ (count : Nat) (st : St) (av : Bytes), Refused mode st →
    (closeDrain mode count st av).1 = false ∧ Refused mode (closeDrain mode count st av).2.1 ∧
    av.length ≤ (closeDrain mode count st av).2.2.1.length + (fsCap - st.rdHeader.length) := by
  intro count
  induction count with
  | zero => intro st av h; exact ⟨rfl, h, by simp [closeDrain]⟩
  | succ c ih =>
    intro st av h
    rw [closeDrain]
    by_cases h0 : av.length = 0
    · simp only [if_pos h0]; exact ih st av h
    · simp only [if_neg h0]
      obtain ⟨e, h'⟩ := readFrame_refused mode drainBuf (av.length + fsCap + 1) st av h
      rw [show av.length + fsCap + 2 = av.length + fsCap + 1 + 1 from rfl, e]
      simp only [recvCloseOf_refused mode _ _ h']
      have := ih _ (av.drop (fsCap - st.rdHeader.length)) h'
      refine ⟨this.1, this.2.1, ?_⟩
      have h3 := this.2.2
      simp only [List.length_append, List.length_take, List.length_drop] at h3
      simp only [Bool.false_eq_true, if_false]
      omega

/-! ### termination of `goto next_frame` -/

/-- `afterHdrD` depends on the fuel only through the `goto next_frame` of a frame without data -/
theorem afterHdrD_congr (mode : Mode) (datalen f g : Nat) (st : St) (b0 b1 : UInt8) (r' av : Bytes)
    (h : hExtra b1.toNat < r'.length →
      readFrame mode datalen f { hdrSt st b1 r' with rdHeader := r'.drop (hExtra b1.toNat), allHdrIn := false } av =
      readFrame mode datalen g { hdrSt st b1 r' with rdHeader := r'.drop (hExtra b1.toNat), allHdrIn := false } av) :
    afterHdrD mode datalen f st b0 b1 r' av = afterHdrD mode datalen g st b0 b1 r' av := by
  unfold afterHdrD
  by_cases c1 : mode = .server ∧ ¬ b1.toNat / 128 = 1
  · rw [if_pos c1, if_pos c1]
  rw [if_neg c1, if_neg c1]
  by_cases c2 : r'.length < hExtra b1.toNat
  · rw [if_pos c2, if_pos c2]
  rw [if_neg c2, if_neg c2]
  by_cases c3 : b0.toNat % 16 ≠ 2
  · rw [if_pos c3, if_pos c3]
  rw [if_neg c3, if_neg c3]
  by_cases c4 : hSize b1.toNat r' > datalen
  · rw [if_pos c4, if_pos c4]
  rw [if_neg c4, if_neg c4]
  by_cases c5 : hSize b1.toNat r' = 0
  · rw [if_pos c5, if_pos c5]
    by_cases c6 : (r'.drop (hExtra b1.toNat)).length > 0
    · rw [if_pos c6, if_pos c6]
      exact h (by simp only [List.length_drop] at c6; omega)
    · rw [if_neg c6, if_neg c6]
  · rw [if_neg c5, if_neg c5]

/-- the `goto next_frame` loop of one `coap_ws_read` call terminates: every round takes at least the two fixed header
bytes out of `rd_header` ++ the bytes at hand, so any fuel above their number gives the same result — the model's fuel
(`av.length + 16`) never runs out for a state with `hdr_ofs ≤ 14` -/
theorem readFrame_fuel (mode : Mode) (datalen : Nat) : ∀ (f g : Nat) (st : St) (av : Bytes),
    st.rdHeader.length + av.length < f → st.rdHeader.length + av.length < g →
    readFrame mode datalen f st av = readFrame mode datalen g st av := by
  intro f
  induction f with
  | zero => intro g st av h; omega
  | succ f ih =>
    intro g st av hf hg
    obtain ⟨g, rfl⟩ : ∃ g', g = g' + 1 := ⟨g - 1, by omega⟩
    cases ha : st.allHdrIn with
    | true => rw [readFrame_dataD _ _ _ _ _ ha, readFrame_dataD _ _ _ _ _ ha]
    | false =>
      match hh : st.rdHeader ++ av.take (fsCap - st.rdHeader.length) with
      | [] => rw [readFrame_shortD _ _ _ _ _ ha (by rw [hh]; simp), readFrame_shortD _ _ _ _ _ ha (by rw [hh]; simp)]
      | [b] => rw [readFrame_shortD _ _ _ _ _ ha (by rw [hh]; simp), readFrame_shortD _ _ _ _ _ ha (by rw [hh]; simp)]
      | b0 :: b1 :: r' =>
        rw [readFrame_hdrD _ _ _ _ _ b0 b1 r' ha hh, readFrame_hdrD _ _ _ _ _ b0 b1 r' ha hh]
        apply afterHdrD_congr
        intro hx
        have hl : (st.rdHeader ++ av.take (fsCap - st.rdHeader.length)).length = r'.length + 2 := by rw [hh]; rfl
        simp only [List.length_append, List.length_take] at hl
        apply ih
        · simp only [List.length_drop]; omega
        · simp only [List.length_drop]; omega

/-! ### the states the event loop leaves behind are `RdOk` -/

theorem readData_up (mode : Mode) (st : St) (av data : Bytes) (datalen : Nat) :
    (readData mode st av data datalen).2.1.up = st.up := by
  unfold readData
  by_cases h : st.dataSize > datalen
  · rw [if_pos h]
  · rw [if_neg h]; simp only; split <;> rfl

theorem readFrame_up (mode : Mode) (datalen : Nat) : ∀ (fuel : Nat) (st : St) (av : Bytes),
    (readFrame mode datalen fuel st av).2.1.up = st.up := by
  intro fuel
  induction fuel with
  | zero => intro st av; rfl
  | succ f ih =>
    intro st av
    apply readFrame_cases mode datalen f st av (fun r => r.2.1.up = st.up)
    · intro _; exact readData_up ..
    · intro _ _; rfl
    · intro b0 b1 r' _ _
      apply afterHdrD_cases mode datalen f _ b0 b1 r' _ (fun r => r.2.1.up = st.up)
      · intro _ _; rfl
      · intro _; rfl
      · intro _ _; rfl
      · intro _ _ _; rfl
      · intro _ _ _; rw [ih]; rfl
      · intro _ _ _; rfl
      · intro _ _ _ _; rfl
      · intro _ _ _ _; rw [readData_up]; rfl
      · intro _ _ _ _ _; rfl
      · intro _ _ _ _; rw [readData_up]; rfl

/-- a frame-phase reader state the event loop can leave behind -/
def UpOk (st : St) : Prop := st.up = true ∧ RdOk rxBuf st

theorem wsRead_upok (mode : Mode) (accept : Bytes) (st : St) (av : Bytes) (h : UpOk st) :
    UpOk (wsRead mode accept rxBuf st av).2.1 := by
  unfold wsRead
  simp only [h.1, Bool.not_true, Bool.false_eq_true, if_false]
  exact ⟨by rw [readFrame_up]; exact h.1, (readFrame_ok mode rxBuf _ st av h.2).1⟩

theorem readSession_pres (mode : Mode) (accept : Bytes) (Q : St → Prop)
    (hQ : ∀ st av, Q st → Q (wsRead mode accept rxBuf st av).2.1) : ∀ (fuel : Nat) (st : St) (av : Bytes), Q st →
    ∀ st', (readSession mode accept fuel st av).2.1 = .open st' → Q st' := by
  intro fuel
  induction fuel with
  | zero => intro st av h st' e; simp only [readSession, Sess.open.injEq] at e; exact e ▸ h
  | succ f ih =>
    intro st av h st' e
    have hw := hQ st av h
    rw [readSession] at e
    generalize wsRead mode accept rxBuf st av = r at hw e
    obtain ⟨ret, st1, av1⟩ := r
    cases ret with
    | err => simp at e
    | closed => simp at e
    | oob => simp at e
    | zero => simp only [Sess.open.injEq] at e; exact e ▸ hw
    | pkt pl =>
      simp only at e
      split at e
      · exact ih st1 av1 hw st' e
      · simp only [Sess.open.injEq] at e; exact e ▸ hw

theorem feedChunk_pres (mode : Mode) (accept : Bytes) (Q : St → Prop)
    (hQ : ∀ st av, Q st → Q (wsRead mode accept rxBuf st av).2.1) : ∀ (fuel idle : Nat) (st : St) (av : Bytes), Q st →
    ∀ st', (feedChunk mode accept fuel idle st av).2.1 = .open st' → Q st' := by
  intro fuel
  induction fuel with
  | zero => intro idle st av h st' e; simp only [feedChunk, Sess.open.injEq] at e; exact e ▸ h
  | succ f ih =>
    intro idle st av h st' e
    rw [feedChunk] at e
    by_cases h0 : av.length = 0
    · simp only [if_pos h0, Sess.open.injEq] at e; exact e ▸ h
    · simp only [if_neg h0] at e
      have hs := readSession_pres mode accept Q hQ (av.length + fsCap + 2) st av h
      generalize readSession mode accept (av.length + fsCap + 2) st av = r at hs e
      obtain ⟨ms, sess, av1⟩ := r
      cases sess with
      | closed => simp at e
      | oob => simp at e
      | «open» st1 =>
        have h1 := hs st1 rfl
        simp only at e
        split at e
        · split at e
          · simp only [Sess.open.injEq] at e; exact e ▸ h1
          · exact ih _ st1 av1 h1 st' e
        · exact ih _ st1 av1 h1 st' e

/-- every reader state the event loop leaves behind in the frame phase is `RdOk` (for `coap_read_session`'s 1472-byte
buffer, hence for `coap_ws_close`'s 100 bytes) -/
theorem feed_pres (mode : Mode) (accept : Bytes) (Q : St → Prop)
    (hQ : ∀ st av, Q st → Q (wsRead mode accept rxBuf st av).2.1) : ∀ (chunks : List Bytes) (st : St), Q st →
    ∀ st', (feed mode accept st chunks).2.1 = .open st' → Q st' := by
  intro chunks
  induction chunks with
  | nil => intro st h st' e; simp only [feed, Sess.open.injEq] at e; exact e ▸ h
  | cons c cs ih =>
    intro st h st' e
    rw [feed] at e
    have hc := feedChunk_pres mode accept Q hQ (6 * (c.length + 1)) 0 st c h
    generalize feedChunk mode accept (6 * (c.length + 1)) 0 st c = r at hc e
    obtain ⟨ms, sess, stuck⟩ := r
    cases sess with
    | closed => simp at e
    | oob => simp at e
    | «open» st1 =>
      cases stuck with
      | true => simp only [Sess.open.injEq] at e; exact e ▸ hc st1 rfl
      | false => exact ih st1 (hc st1 rfl) st' e

theorem feed_upok (mode : Mode) (accept : Bytes) (chunks : List Bytes) (st : St) (h : UpOk st) :
    ∀ st', (feed mode accept st chunks).2.1 = .open st' → UpOk st' :=
  feed_pres mode accept UpOk (wsRead_upok mode accept) chunks st h

/-! the same through the HTTP upgrade -/

/-- a reader state of a whole connection: `RdOk`, and `all_hdr_in` is clear while the handshake is running -/
def ConnOk (st : St) : Prop := RdOk rxBuf st ∧ (st.up = false → st.allHdrIn = false)

theorem connOk_init : ConnOk {} := ⟨⟨by decide, fun h => by cases h⟩, fun _ => rfl⟩

def LinesOk : Lines → Prop
  | .cont st' => ConnOk st' ∧ st'.up = false
  | .up st' => ConnOk st' ∧ st'.up = true
  | _ => True

def HdrResOk : R (St × Bytes) → Prop
  | R.ok (st', _) => ConnOk st'
  | _ => True

theorem lineLoop_connOk (mode : Mode) (accept : Bytes) : ∀ (fuel : Nat) (st : St), ConnOk st → st.up = false →
    LinesOk (lineLoop mode accept fuel st) := by
  intro fuel
  induction fuel with
  | zero => intro st h hu; simp only [lineLoop]; exact ⟨h, hu⟩
  | succ f ih =>
    intro st h hu
    rw [lineLoop]
    split
    · exact ⟨h, hu⟩
    · simp only
      split
      · trivial
      · rename_i s' endLine _
        split
        · split
          · split
            · trivial
            · rename_i hrem
              exact ⟨⟨RdOk_noall (by simpa using Nat.le_of_not_gt hrem) (h.2 hu), fun hh => by cases hh⟩, rfl⟩
          · trivial
        · exact ih _ ⟨⟨h.1.1, h.1.2⟩, h.2⟩ hu

theorem rdHttpHeader_connOk (mode : Mode) (accept : Bytes) : ∀ (fuel : Nat) (st : St) (av : Bytes), ConnOk st →
    HdrResOk (rdHttpHeader mode accept fuel st av) := by
  intro fuel
  induction fuel with
  | zero => intro st av h; simp only [rdHttpHeader]; exact h
  | succ f ih =>
    intro st av h
    rw [rdHttpHeader]
    split
    · exact h
    · rename_i hu
      simp only
      generalize (if httpCap - 1 - st.httpHdr.length > fsCap then fsCap else httpCap - 1 - st.httpHdr.length) = rem
      split
      · trivial
      · split
        · exact h
        · split
          · trivial
          · have hu' : st.up = false := by simpa using hu
            have hl := lineLoop_connOk mode accept ((st.httpHdr ++ av.take rem).length + 1)
              { st with httpHdr := st.httpHdr ++ av.take rem } ⟨⟨h.1.1, h.1.2⟩, h.2⟩ hu'
            split <;> rename_i heq <;> rw [heq] at hl
            · trivial
            · trivial
            · exact hl.1
            · exact ih _ _ hl.1

theorem wsRead_connOk (mode : Mode) (accept : Bytes) (st : St) (av : Bytes) (h : ConnOk st) :
    ConnOk (wsRead mode accept rxBuf st av).2.1 := by
  have hfr : ∀ (fuel : Nat) (s : St) (a : Bytes), ConnOk s → s.up = true → ConnOk (readFrame mode rxBuf fuel s a).2.1 := by
    intro fuel s a hs hu
    refine ⟨(readFrame_ok mode rxBuf fuel s a hs.1).1, fun hh => ?_⟩
    rw [readFrame_up, hu] at hh; cases hh
  unfold wsRead
  by_cases hu : st.up = true
  · simp only [hu, Bool.not_true, Bool.false_eq_true, if_false]
    exact hfr _ st av h hu
  · simp only [hu, Bool.not_false, if_true]
    have hr := rdHttpHeader_connOk mode accept (av.length + 2) st av h
    generalize rdHttpHeader mode accept (av.length + 2) st av = r at hr
    cases r with
    | rej => exact h
    | oob => exact h
    | ok p =>
      obtain ⟨st1, av1⟩ := p
      simp only [HdrResOk] at hr
      simp only
      split
      · exact hr
      · rename_i h1
        split
        · exact hr
        · exact hfr _ st1 av1 hr (by simpa using h1)

/-- every reader state the event loop leaves behind on a whole connection (fresh state, ANY byte stream, any chunks) -/
theorem feed_connOk (mode : Mode) (accept : Bytes) (chunks : List Bytes) :
    ∀ st', (feed mode accept {} chunks).2.1 = .open st' → ConnOk st' :=
  feed_pres mode accept ConnOk (wsRead_connOk mode accept) chunks {} connOk_init

/-! ### the reader closing the session by itself -/

/-- how a `coap_ws_read` call can close the session by itself: a Close frame header completed (`recv_close` set, no
drain), a header refused with 1002/1003 and left in `rd_header` (`Refused`), or a frame refused with 1009
(`all_hdr_in` set, `data_size` above the caller's buffer) -/
def ClosedHow (mode : Mode) (datalen : Nat) (st' : St) : Prop :=
  recvCloseOf mode .closed st' = true ∨ Refused mode st' ∨ (st'.allHdrIn = true ∧ st'.dataSize > datalen)

theorem readData_not_closed (mode : Mode) (st : St) (av data : Bytes) (datalen : Nat) :
    (readData mode st av data datalen).1 ≠ .closed := by
  unfold readData
  by_cases h : st.dataSize > datalen
  · rw [if_pos h]; intro hh; cases hh
  · rw [if_neg h]; simp only; split <;> (intro hh; cases hh)

theorem readFrame_closed_cases (mode : Mode) (datalen : Nat) : ∀ (fuel : Nat) (st : St) (av : Bytes),
    (readFrame mode datalen fuel st av).1 = .closed → ClosedHow mode datalen (readFrame mode datalen fuel st av).2.1 := by
  intro fuel
  induction fuel with
  | zero => intro st av h; cases h
  | succ f ih =>
    intro st av
    apply readFrame_cases mode datalen f st av (fun r => r.1 = .closed → ClosedHow mode datalen r.2.1)
    · intro _ h; exact absurd h (readData_not_closed _ _ _ _ _)
    · intro _ _ h; cases h
    · intro b0 b1 r' ha hh
      apply afterHdrD_cases mode datalen f _ b0 b1 r' _ (fun r => r.1 = .closed → ClosedHow mode datalen r.2.1)
      · intro hm hb _; exact Or.inr (Or.inl ⟨ha, b0, b1, r', rfl, Or.inl ⟨hm, hb⟩⟩)
      · intro _ h; cases h
      · intro hl h2 _
        by_cases hm : mode = .server ∧ ¬ b1.toNat / 128 = 1
        · exact Or.inr (Or.inl ⟨ha, b0, b1, r', rfl, Or.inl hm⟩)
        · by_cases h8 : b0.toNat % 16 = 8
          · refine Or.inl ?_
            simp only [recvCloseOf, ha, h8]
            have : ¬ (mode = .server ∧ ¬ b1.toNat / 128 = 1) := hm
            by_cases hs : mode = .server
            · have : b1.toNat / 128 = 1 := by
                rcases Classical.em (b1.toNat / 128 = 1) with h | h
                · exact h
                · exact absurd ⟨hs, h⟩ hm
              simp [this]
            · simp [hs]
          · exact Or.inr (Or.inl ⟨ha, b0, b1, r', rfl, Or.inr ⟨hl, h2, h8⟩⟩)
      · intro _ _ hbig _; exact Or.inr (Or.inr ⟨rfl, hbig⟩)
      · intro _ _ _; exact ih _ _
      · intro _ _ _ h; cases h
      · intro _ _ _ _ h; cases h
      · intro _ _ _ _ h; exact absurd h (readData_not_closed _ _ _ _ _)
      · intro _ _ _ _ _ h; cases h
      · intro _ _ _ _ h; exact absurd h (readData_not_closed _ _ _ _ _)

theorem wsRead_closed (mode : Mode) (accept : Bytes) (datalen : Nat) (st : St) (av : Bytes)
    (h : (wsRead mode accept datalen st av).1 = .closed) : ClosedHow mode datalen (wsRead mode accept datalen st av).2.1 := by
  unfold wsRead at h ⊢
  by_cases hu : st.up = true
  · simp only [hu, Bool.not_true, Bool.false_eq_true, if_false] at h ⊢
    exact readFrame_closed_cases mode datalen _ st av h
  · simp only [hu, Bool.not_false, if_true] at h ⊢
    generalize rdHttpHeader mode accept (av.length + 2) st av = r at h ⊢
    cases r with
    | rej => cases h
    | oob => cases h
    | ok p =>
      obtain ⟨st1, av1⟩ := p
      simp only at h ⊢
      split at h
      · cases h
      · rename_i h1
        split at h
        · cases h
        · rename_i h2
          simp only [h1, h2, if_false] at ⊢
          exact readFrame_closed_cases mode datalen _ st1 av1 h

/-- the state `coap_ws_close` is entered with when the reader closes the session by itself -/
theorem refusalPoint_closed (mode : Mode) (accept : Bytes) : ∀ (fuel idle : Nat) (st : St) (av : Bytes) (st' : St) (av' : Bytes),
    refusalPoint mode accept fuel idle st av = some (st', av') → ClosedHow mode rxBuf st' := by
  intro fuel
  induction fuel with
  | zero => intro idle st av st' av' h; cases h
  | succ f ih =>
    intro idle st av st' av' h
    rw [refusalPoint] at h
    have hc := wsRead_closed mode accept rxBuf st av
    generalize wsRead mode accept rxBuf st av = r at h hc
    obtain ⟨ret, st1, av1⟩ := r
    cases ret with
    | err => cases h
    | oob => cases h
    | closed =>
      simp only [Option.some.injEq, Prod.mk.injEq] at h
      obtain ⟨rfl, rfl⟩ := h
      exact hc rfl
    | zero =>
      simp only at h
      split at h
      · cases h
      · split at h
        · split at h
          · cases h
          · exact ih _ _ _ _ _ h
        · exact ih _ _ _ _ _ h
    | pkt pl =>
      simp only at h
      split at h
      · exact ih _ _ _ _ _ h
      · cases h

/-- the reader's own `coap_ws_close`, on every input: either a Close frame was received (no drain), or the drain runs
from a refused header / refused frame and cannot progress — `recv_close` stays 0, after 1009 nothing is read at all
(five calls returning -1 if bytes are pending), after 1002/1003 at most the free room of `rd_header` is read -/
theorem selfClose_cases (mode : Mode) (accept : Bytes) (st : St) (chunk : Bytes) (r : Bool × St × Bytes × Nat)
    (h : selfClose mode accept st chunk = some r) :
    ∃ st' av', refusalPoint mode accept (6 * (chunk.length + 1)) 0 st chunk = some (st', av') ∧
      ((recvCloseOf mode .closed st' = true ∧ r = (true, st', av', 0)) ∨
       (Refused mode st' ∧ r.1 = false ∧ Refused mode r.2.1 ∧
          av'.length ≤ r.2.2.1.length + (fsCap - st'.rdHeader.length) ∧ r.2.2.2 ≤ drainCount) ∨
       (st'.allHdrIn = true ∧ st'.dataSize > rxBuf ∧ r = (false, st', av', if av'.length = 0 then 0 else drainCount))) := by
  unfold selfClose at h
  cases hp : refusalPoint mode accept (6 * (chunk.length + 1)) 0 st chunk with
  | none => rw [hp] at h; cases h
  | some p =>
    obtain ⟨st', av'⟩ := p
    rw [hp] at h
    simp only at h
    refine ⟨st', av', rfl, ?_⟩
    by_cases hr : recvCloseOf mode .closed st' = true
    · simp only [hr, if_true, Option.some.injEq] at h
      exact Or.inl ⟨hr, h.symm⟩
    · simp only [hr, Bool.false_eq_true, if_false, Option.some.injEq] at h
      subst h
      rcases refusalPoint_closed mode accept _ _ _ _ _ _ hp with hc | hc | hc
      · exact absurd hc hr
      · have := closeDrain_refused mode drainCount st' av' hc
        exact Or.inr (Or.inl ⟨hc, this.1, this.2.1, this.2.2, closeDrain_calls_le mode drainCount st' av'⟩)
      · refine Or.inr (Or.inr ⟨hc.1, hc.2, ?_⟩)
        exact closeDrain_oversize mode drainCount st' av' hc.1 (by have := hc.2; simp only [rxBuf, drainBuf] at *; omega)

/-! ### rounds of the drain loop -/

/-- the rounds of the drain loop: at most `count`, at least the number of `coap_ws_read` calls, and exactly `count`
when the peer's Close frame is not seen -/
theorem drainRounds_spec (mode : Mode) : ∀ (count : Nat) (st : St) (av : Bytes),
    drainRounds mode count st av ≤ count ∧
    (closeDrain mode count st av).2.2.2 ≤ drainRounds mode count st av ∧
    ((closeDrain mode count st av).1 = false → drainRounds mode count st av = count) ∧
    ((closeDrain mode count st av).1 = true → 1 ≤ drainRounds mode count st av) := by
  intro count
  induction count with
  | zero => intro st av; simp [drainRounds, closeDrain]
  | succ c ih =>
    intro st av
    rw [closeDrain, drainRounds]
    by_cases h0 : av.length = 0
    · simp only [if_pos h0]
      have := ih st av
      refine ⟨by omega, by omega, fun h => by have := this.2.2.1 h; omega, fun _ => by omega⟩
    · simp only [if_neg h0]
      generalize readFrame mode drainBuf (av.length + fsCap + 2) st av = r
      obtain ⟨ret, st', av'⟩ := r
      simp only
      by_cases hr : recvCloseOf mode ret st' = true
      · simp [hr]
      · simp only [hr, Bool.false_eq_true, if_false]
        have := ih st' av'
        refine ⟨by omega, by omega, fun h => by have := this.2.2.1 h; omega, fun _ => by omega⟩

end Coap
