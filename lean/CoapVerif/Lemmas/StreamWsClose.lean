import CoapVerif.Lemmas.StreamWsFeed
/- C05, WebSocket part: `coap_ws_close`'s draining loop (`closeDrain`) and `coap_ws_read` with an arbitrary caller
   buffer (`datalen`), from EVERY reader state — no invariant: the drain is entered by the application at any time,
   and by the reader itself right after it has refused a frame. -/
namespace Coap
open Coap.M Coap.M.Ws Coap.Spec.Stream Coap.Spec.Stream.Ws

theorem xorKey_length (key : Bytes) : ∀ (bs : Bytes) (i : Nat), (xorKey key i bs).length = bs.length := by
  intro bs
  induction bs with
  | nil => intro i; rfl
  | cons b r ih => intro i; simp only [xorKey, List.length_cons, ih]

theorem maskIf_length (c : Prop) [Decidable c] (key bs : Bytes) :
    (if c then xorKey key 0 bs else bs).length = bs.length := by
  split
  · exact xorKey_length key bs 0
  · rfl

/-- what a `coap_ws_read` call does to its caller, whatever the reader state: it consumes bytes from the front of
what is available, and a payload it returns fits the caller's buffer -/
def ReadFits (datalen : Nat) (av : Bytes) (r : Ret × St × Bytes) : Prop :=
  r.2.2.length ≤ av.length ∧ ∀ pl, r.1 = .pkt pl → pl.length ≤ datalen

theorem readData_fits (mode : Mode) (st : St) (av data : Bytes) (datalen : Nat) :
    ReadFits datalen av (readData mode st av data datalen) := by
  unfold readData ReadFits
  by_cases h : st.dataSize > datalen
  · simp only [if_pos h]
    exact ⟨Nat.le_refl _, fun pl hp => by cases hp⟩
  · simp only [if_neg h]
    split
    · rename_i hofs
      refine ⟨by simp only [List.length_drop]; omega, fun pl hp => ?_⟩
      simp only [Ret.pkt.injEq] at hp
      subst hp
      rw [maskIf_length]
      cases st.rxData with
      | none => simp only [List.length_append, List.length_take] at *; omega
      | some rx => simp only [List.length_append, List.length_take] at *; omega
    · exact ⟨by simp only [List.length_drop]; omega, fun pl hp => by cases hp⟩

/- NOT PROVED (time): the same for the whole of `coap_ws_read`'s frame phase,

    theorem readFrame_fits (mode) (datalen) : ∀ fuel st av, ReadFits datalen av (readFrame mode datalen fuel st av)

  (the header branches return `size` or `ret = size` bytes with `size ≤ datalen` checked just before; induction over
  the `goto next_frame` fuel).  For datalen = 1472 and states of the invariant it follows from `readFrame_spec`. -/

/-! ### the drain loop of coap_ws_close -/

/-- the loop calls `coap_ws_read` at most `count` (= 5) times — whatever the reader state, whatever is pending -/
theorem closeDrain_calls_le (mode : Mode) : ∀ (count : Nat) (st : St) (av : Bytes),
    (closeDrain mode count st av).2.2.2 ≤ count := by
  intro count
  induction count with
  | zero => intro st av; simp [closeDrain]
  | succ c ih =>
    intro st av
    rw [closeDrain]
    by_cases h0 : av.length = 0
    · simp only [if_pos h0]
      have := ih st av
      omega
    · simp only [if_neg h0]
      generalize readFrame mode drainBuf (av.length + fsCap + 2) st av = r
      obtain ⟨ret, st', av'⟩ := r
      simp only
      split
      · simp
      · have := ih st' av'
        simp only
        omega

/-- with nothing pending the loop reads nothing and changes nothing (select() times out five times) -/
theorem closeDrain_idle (mode : Mode) : ∀ (count : Nat) (st : St), closeDrain mode count st [] = (false, st, [], 0) := by
  intro count
  induction count with
  | zero => intro st; rfl
  | succ c ih => intro st; simp [closeDrain, ih]

/-- the loop stops as soon as the peer's Close frame has been seen: `recv_close` ⇒ the last call was the one that
completed a Close frame header -/
theorem closeDrain_recv (mode : Mode) : ∀ (count : Nat) (st : St) (av : Bytes),
    (closeDrain mode count st av).1 = true →
    ∃ b0 b1 r, (closeDrain mode count st av).2.1.rdHeader = b0 :: b1 :: r ∧ b0.toNat % 16 = 8 := by
  intro count
  induction count with
  | zero => intro st av h; simp [closeDrain] at h
  | succ c ih =>
    intro st av
    rw [closeDrain]
    by_cases h0 : av.length = 0
    · simp only [if_pos h0]; exact ih st av
    · simp only [if_neg h0]
      generalize readFrame mode drainBuf (av.length + fsCap + 2) st av = r
      obtain ⟨ret, st', av'⟩ := r
      simp only
      by_cases hr : recvCloseOf mode ret st' = true
      · simp only [hr, if_true]
        intro _
        unfold recvCloseOf at hr
        split at hr
        · rename_i b0 b1 r hh
          simp only [Bool.and_eq_true, decide_eq_true_eq] at hr
          exact ⟨b0, b1, r, hh, hr.2⟩
        · cases hr
      · simp only [hr]
        exact ih st' av'

end Coap
