import CoapVerif.Lemmas.ObserveCon
/-
C11: what ends ONE client's observation leaves every OTHER client alone.  `SameFor c' st st'`: session object, queued
notifications and observer entries (per resource, in list order) of client c' are the same in st and st'.  Shown for the
receive path of a Reset (coap_dispatch RST branch: coap_cancel -> coap_cancel_all_messages + coap_delete_observer over all
resources, or the entry whose latest message id is named) and for coap_handle_failed_notify (retransmission give-up) of a
client c ≠ c' — whatever the token values are, equal ones included.
-/
namespace Coap.Observe

/-- everything M holds about client c' -/
def viewOf (c' : Nat) (st : State) : Option Sess × List QNode × List (Nat × Bool × List Sub) :=
  (st.sess c', st.sendq.filter (fun q => q.sess == c'), st.res.map fun y => (y.id, y.alive, y.subs.filter fun s => s.sess == c'))

def SameFor (c' : Nat) (st st' : State) : Prop := viewOf c' st' = viewOf c' st

theorem SameFor.refl (c' : Nat) (st : State) : SameFor c' st st := rfl
theorem SameFor.trans {c' : Nat} {a b c : State} (h1 : SameFor c' a b) (h2 : SameFor c' b c) : SameFor c' a c := by
  unfold SameFor at *; rw [h2, h1]

theorem SameFor.mk' {c' : Nat} {st st' : State} (h1 : st'.sess c' = st.sess c')
    (h2 : st'.sendq.filter (fun q => q.sess == c') = st.sendq.filter (fun q => q.sess == c'))
    (h3 : (st'.res.map fun y => (y.id, y.alive, y.subs.filter fun s => s.sess == c')) =
          st.res.map fun y => (y.id, y.alive, y.subs.filter fun s => s.sess == c')) : SameFor c' st st' := by
  unfold SameFor viewOf; rw [h1, h2, h3]

theorem sameFor_modSess (st : State) (c c' : Nat) (f : Sess → Sess) (hc : c' ≠ c) : SameFor c' st (modSess st c f) := by
  apply SameFor.mk'
  · unfold modSess setSess; dsimp only; simp [hc]
  · rfl
  · rfl

theorem sameFor_rxSession (st : State) (c c' : Nat) (hc : c' ≠ c) : SameFor c' st (rxSession st c) := sameFor_modSess st c c' _ hc
theorem sameFor_conDec (st : State) (c c' : Nat) (hc : c' ≠ c) : SameFor c' st (conDec st c) := sameFor_modSess st c c' _ hc
theorem sameFor_refDec (st : State) (c c' : Nat) (hc : c' ≠ c) : SameFor c' st (refDec st c) := sameFor_modSess st c c' _ hc

theorem filter_eraseP_other {α : Type} (p f : α → Bool) (h : ∀ a, p a = true → f a = false) :
    ∀ l : List α, (l.eraseP p).filter f = l.filter f
  | [] => rfl
  | a :: t => by
    by_cases hp : p a = true
    · rw [List.eraseP_cons_of_pos hp, List.filter_cons_of_neg (by simp [h a hp])]
    · rw [List.eraseP_cons_of_neg hp]
      by_cases hf : f a = true
      · rw [List.filter_cons_of_pos hf, List.filter_cons_of_pos hf, filter_eraseP_other p f h t]
      · rw [List.filter_cons_of_neg hf, List.filter_cons_of_neg hf, filter_eraseP_other p f h t]

theorem sameFor_modRes (st : State) (r c' : Nat) (f : Res → Res)
    (hf : ∀ y, (f y).id = y.id ∧ (f y).alive = y.alive ∧ (f y).subs.filter (fun s => s.sess == c') = y.subs.filter (fun s => s.sess == c')) :
    SameFor c' st (modRes st r f) := by
  refine SameFor.mk' (st := st) (st' := modRes st r f) rfl rfl ?_
  unfold modRes mapRes
  dsimp only
  rw [List.map_map]
  apply List.map_congr_left
  intro y _
  simp only [Function.comp]
  split
  · rw [(hf y).1, (hf y).2.1, (hf y).2.2]
  · rfl

theorem sameFor_deleteObserver (st : State) (r c tok c' : Nat) (hc : c' ≠ c) : SameFor c' st (deleteObserver st r c tok) := by
  unfold deleteObserver
  split
  · exact SameFor.refl _ _
  · split
    · refine (sameFor_modRes st r c' _ ?_).trans (sameFor_refDec _ c c' hc)
      intro y
      refine ⟨rfl, rfl, ?_⟩
      apply filter_eraseP_other
      intro s hs
      unfold matchST at hs
      simp only [Bool.and_eq_true, beq_iff_eq] at hs
      have : ¬ s.sess = c' := by omega
      simp [this]
    · exact SameFor.refl _ _

theorem sameFor_cancelAllMessages (st : State) (c tok c' : Nat) (hc : c' ≠ c) : SameFor c' st (cancelAllMessages st c tok) := by
  obtain ⟨h1, h2⟩ := cancelAllMessages_other st c tok c' hc
  exact SameFor.mk' h1 h2 rfl

theorem foldl_sameFor {α : Type} (c' : Nat) (f : State → α → State) (hf : ∀ s x, SameFor c' s (f s x)) :
    ∀ (l : List α) (st : State), SameFor c' st (l.foldl f st)
  | [], st => SameFor.refl _ _
  | x :: xs, st => by
    simp only [List.foldl_cons]
    exact (hf st x).trans (foldl_sameFor c' f hf xs _)

theorem sameFor_cancelSent (st : State) (c tok c' : Nat) (hc : c' ≠ c) : SameFor c' st (cancelSent st c tok) := by
  unfold cancelSent
  apply foldl_sameFor
  intro s rid; split
  · exact (sameFor_cancelAllMessages s c tok c' hc).trans (sameFor_deleteObserver _ rid c tok c' hc)
  · exact SameFor.refl _ _

theorem sameFor_removeFailedOne (st : State) (x : Res) (c tok c' : Nat) (hc : c' ≠ c) : SameFor c' st (removeFailedOne st x c tok) := by
  unfold removeFailedOne
  split
  · exact SameFor.refl _ _
  · split
    · exact (sameFor_cancelAllMessages st c tok c' hc).trans (sameFor_deleteObserver _ x.id c tok c' hc)
    · apply sameFor_modRes
      intro y
      refine ⟨rfl, rfl, ?_⟩
      dsimp only
      generalize y.subs = l
      induction l with
      | nil => rfl
      | cons s t ih =>
        unfold modFirst
        split
        · rename_i hm
          unfold matchST at hm
          simp only [Bool.and_eq_true, beq_iff_eq] at hm
          have : ¬ s.sess = c' := by omega
          rw [List.filter_cons_of_neg (by simp [this]), List.filter_cons_of_neg (by simp [this])]
        · by_cases hs : s.sess = c'
          · rw [List.filter_cons_of_pos (by simp [hs]), List.filter_cons_of_pos (by simp [hs]), ih]
          · rw [List.filter_cons_of_neg (by simp [hs]), List.filter_cons_of_neg (by simp [hs]), ih]

/-- coap_handle_failed_notify(context, session c, token) — the server gave up on a Confirmable notification to c -/
theorem sameFor_handleFailedNotify (st : State) (c tok c' : Nat) (hc : c' ≠ c) : SameFor c' st (handleFailedNotify st c tok) := by
  unfold handleFailedNotify
  apply foldl_sameFor
  intro s rid; split
  · exact sameFor_removeFailedOne _ _ c tok c' hc
  · exact SameFor.refl _ _

theorem sameFor_eraseQ (st : State) (c mid c' : Nat) (hc : c' ≠ c) :
    SameFor c' st { st with sendq := st.sendq.eraseP (matchQ c mid) } := by
  refine SameFor.mk' (st := st) (st' := { st with sendq := st.sendq.eraseP (matchQ c mid) }) rfl ?_ rfl
  dsimp only
  apply filter_eraseP_other
  intro q hq
  unfold matchQ at hq
  simp only [Bool.and_eq_true, beq_iff_eq] at hq
  have : ¬ q.sess = c' := by omega
  simp [this]

/-- the receive path of a Reset from client c (before the I/O loop runs) -/
theorem sameFor_handleRst (st : State) (c mid c' : Nat) (hc : c' ≠ c) : SameFor c' st (handleRst st c mid) := by
  unfold handleRst
  dsimp only
  have h0 : SameFor c' st (rxSession st c) := sameFor_rxSession st c c' hc
  split
  · refine (((h0.trans (sameFor_eraseQ _ c mid c' hc)).trans (sameFor_conDec _ c c' hc)).trans
      (sameFor_cancelSent _ c _ c' hc)).trans (sameFor_refDec _ c c' hc)
  · split
    · rename_i rid tok hf
      -- the entry found by message id belongs to session c
      exact h0.trans (sameFor_deleteObserver _ rid c tok c' hc)
    · exact h0

/-- the receive path of an ACK from client c -/
theorem sameFor_handleAck (st : State) (c mid c' : Nat) (hc : c' ≠ c) : SameFor c' st (handleAck st c mid) := by
  unfold handleAck
  dsimp only
  have h0 : SameFor c' st (rxSession st c) := sameFor_rxSession st c c' hc
  split
  · exact h0
  · rename_i q hf
    have h1 := (h0.trans (sameFor_eraseQ _ c mid c' hc)).trans (sameFor_conDec _ c c' hc)
    refine SameFor.trans ?_ (sameFor_refDec _ c c' hc)
    split
    · refine h1.trans ?_
      -- coap_touch_observer(session c, token): fail_cnt of entries of c
      refine SameFor.mk' (st' := touchObserver _ c q.token) rfl rfl ?_
      unfold touchObserver mapRes
      dsimp only
      rw [List.map_map]
      apply List.map_congr_left
      intro y _
      simp only [Function.comp]
      split
      · dsimp only
        congr 2
        generalize y.subs = l
        induction l with
        | nil => rfl
        | cons s t ih =>
          unfold modFirst
          split
          · rename_i hm
            unfold matchST at hm
            simp only [Bool.and_eq_true, beq_iff_eq] at hm
            have : ¬ s.sess = c' := by omega
            rw [List.filter_cons_of_neg (by simp [this]), List.filter_cons_of_neg (by simp [this])]
          · by_cases hs : s.sess = c'
            · rw [List.filter_cons_of_pos (by simp [hs]), List.filter_cons_of_pos (by simp [hs]), ih]
            · rw [List.filter_cons_of_neg (by simp [hs]), List.filter_cons_of_neg (by simp [hs]), ih]
      · rfl
    · exact h1

end Coap.Observe
